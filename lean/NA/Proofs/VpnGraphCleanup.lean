import NA.Model.VpnGraphDev
/-!
`deleteUnused` on the strict device: the rounds of `delRounds` delete an object only when no pending
object references it any more, so every `clear configure …` / `no ip local pool …` is accepted as
long as the objects to delete are referenced by nothing but each other.
-/
namespace NA.Vpn.G

theorem find?_filter_ne (objs : List Obj) (r r' : Ref) (h : r' ≠ r) :
    (objs.filter fun o => o.id != r).find? (fun o => o.id == r') = objs.find? (fun o => o.id == r') := by
  induction objs with
  | nil => rfl
  | cons o os ih =>
    by_cases ho : o.id = r
    · have h1 : (o.id != r) = false := by simp [ho]
      have h2 : (o.id == r') = false := by
        rw [ho]; simpa using (fun e => h e.symm)
      simp only [List.filter_cons, h1, List.find?_cons, h2, Bool.false_eq_true, if_false]
      exact ih
    · have h1 : (o.id != r) = true := by simpa using ho
      simp only [List.filter_cons, h1, if_true, List.find?_cons, ih]

theorem execAll_append : ∀ (l1 l2 : List Chg) (d : Dev),
    execAll d (l1 ++ l2) = (execAll d l1).bind fun d' => execAll d' l2
  | [], _, _ => rfl
  | c :: cs, l2, d => by
    simp only [List.cons_append, execAll]
    cases exec1 d c with
    | none => rfl
    | some d' => simp only [Option.bind_some]; exact execAll_append cs l2 d'

theorem referenced_filter (objs : List Obj) (r x : Ref) (mode : Mode)
    (h : ({ objs := objs.filter fun o => o.id != r, mode := mode } : Dev).referenced x = true) :
    ({ objs := objs, mode := none } : Dev).referenced x = true := by
  unfold Dev.referenced at *
  simp only [List.any_eq_true] at *
  obtain ⟨o, ho, hx⟩ := h
  exact ⟨o, (List.mem_filter.1 ho).1, hx⟩

/-- an object the device can delete now: it exists in the shape the command names, nothing references it -/
def Deletable (d : Dev) (p : DelObj) : Prop :=
  d.referenced p.id = false ∧
  ((p.id.1 ≠ .pool ∧ p.id.1 ≠ .aaa ∧ p.lines = [.clear p.id.1 p.id.2] ∧ (d.obj p.id).isSome = true) ∨
   (∃ c, p.id.1 = .pool ∧ p.lines = [.pool true p.id.2 c] ∧ (d.obj p.id).any (fun o => o.lines == [c]) = true))

theorem exec_deletable (d : Dev) (p : DelObj) (h : Deletable d p) :
    execAll d p.lines = some { objs := d.objs.filter fun o => o.id != p.id, mode := none } := by
  obtain ⟨hr, hk⟩ := h
  rcases hk with ⟨h1, h2, hl, he⟩ | ⟨c, h1, hl, he⟩
  · rw [hl]
    have hid : (p.id.1, p.id.2) = p.id := rfl
    simp only [execAll, exec1, hid, he, hr, Bool.not_false, Bool.true_and]
    have : (p.id.1 != Kind.aaa) = true := by simpa using h2
    simp [this]
  · rw [hl]
    have hid : (Kind.pool, p.id.2) = p.id := by rw [← h1]
    simp only [execAll, exec1, hid, he, hr, Bool.not_false, Bool.and_self, if_true, Option.bind_some]

/-- one round: the objects nobody references go, in any order, one after the other -/
theorem round_accepted : ∀ (now : List DelObj) (d : Dev),
    (∀ p ∈ now, Deletable d p) → now.Pairwise (fun p q => p.id ≠ q.id) →
    execAll d (now.flatMap (·.lines)) =
      some (if now.isEmpty then d else { objs := d.objs.filter fun o => now.all fun p => o.id != p.id, mode := none })
  | [], d, _, _ => rfl
  | p :: ps, d, h, hn => by
    have hp := h p List.mem_cons_self
    have hn' := List.pairwise_cons.1 hn
    let d1 : Dev := { objs := d.objs.filter fun o => o.id != p.id, mode := none }
    have hps : ∀ q ∈ ps, Deletable d1 q := by
      intro q hq
      have hq' := h q (List.mem_cons_of_mem _ hq)
      have hne : q.id ≠ p.id := fun e => hn'.1 q hq e.symm
      refine ⟨?_, ?_⟩
      · cases hr : d1.referenced q.id with
        | false => rfl
        | true =>
          have := referenced_filter d.objs p.id q.id none hr
          have h0 : ({ objs := d.objs, mode := none } : Dev).referenced q.id = d.referenced q.id := rfl
          rw [h0, hq'.1] at this; cases this
      · have hobj : d1.obj q.id = d.obj q.id := find?_filter_ne d.objs p.id q.id hne
        rcases hq'.2 with ⟨a1, a2, a3, a4⟩ | ⟨c, a1, a2, a3⟩
        · exact Or.inl ⟨a1, a2, a3, by rw [hobj]; exact a4⟩
        · exact Or.inr ⟨c, a1, a2, by rw [hobj]; exact a3⟩
    have ih := round_accepted ps d1 hps hn'.2
    have hsplit : execAll d ((p :: ps).flatMap (·.lines)) = (execAll d p.lines).bind fun d' => execAll d' (ps.flatMap (·.lines)) := by
      rw [List.flatMap_cons]; exact execAll_append _ _ d
    rw [hsplit, exec_deletable d p hp]
    simp only [Option.bind_some]
    show execAll d1 _ = _
    rw [ih]
    by_cases he : ps.isEmpty = true
    · have : ps = [] := by simpa using he
      subst this
      simp [d1]
    · simp only [he, List.isEmpty_cons, Bool.false_eq_true, if_false]
      congr 1
      simp only [d1, List.filter_filter, List.all_cons]
      congr 1
      apply List.filter_congr
      intro o _
      simp [Bool.and_comm]

theorem find?_filter_all (objs : List Obj) (now : List DelObj) (r : Ref) (h : ∀ p ∈ now, p.id ≠ r) :
    (objs.filter fun o => now.all fun p => o.id != p.id).find? (fun o => o.id == r) = objs.find? (fun o => o.id == r) := by
  induction objs with
  | nil => rfl
  | cons o os ih =>
    by_cases ho : (now.all fun p => o.id != p.id) = true
    · simp only [List.filter_cons, ho, if_true, List.find?_cons, ih]
    · have h2 : (o.id == r) = false := by
        cases hb : (o.id == r) with
        | false => rfl
        | true =>
          have e : o.id = r := by simpa using hb
          exfalso; apply ho
          rw [List.all_eq_true]
          intro p hp
          rw [e]
          simpa using (fun e' => h p hp e'.symm)
      simp only [List.filter_cons, ho, List.find?_cons, h2, Bool.false_eq_true, if_false]
      exact ih

/-- the shape part of `Deletable` -/
def Shape (d : Dev) (p : DelObj) : Prop :=
  (p.id.1 ≠ .pool ∧ p.id.1 ≠ .aaa ∧ p.lines = [.clear p.id.1 p.id.2] ∧ (d.obj p.id).isSome = true) ∨
  (∃ c, p.id.1 = .pool ∧ p.lines = [.pool true p.id.2 c] ∧ (d.obj p.id).any (fun o => o.lines == [c]) = true)

theorem Shape.of_obj_eq {d d' : Dev} {p : DelObj} (h : d'.obj p.id = d.obj p.id) (hs : Shape d p) : Shape d' p := by
  rcases hs with ⟨a1, a2, a3, a4⟩ | ⟨c, a1, a2, a3⟩
  · exact Or.inl ⟨a1, a2, a3, by rw [h]; exact a4⟩
  · exact Or.inr ⟨c, a1, a2, by rw [h]; exact a3⟩

theorem pairwise_id_inj {l : List DelObj} (h : l.Pairwise fun p q => p.id ≠ q.id) :
    ∀ p ∈ l, ∀ q ∈ l, p.id = q.id → p = q := by
  induction l with
  | nil => intro p hp; cases hp
  | cons x xs ih =>
    have h' := List.pairwise_cons.1 h
    intro p hp q hq e
    cases hp with
    | head =>
      cases hq with
      | head => rfl
      | tail _ hq => exact absurd e (h'.1 q hq)
    | tail _ hp =>
      cases hq with
      | head => exact absurd e.symm (h'.1 p hp)
      | tail _ hq => exact ih h'.2 p hp q hq e

/-- **The clean-up is accepted.**  `objs`: the pending deletions (pairwise different objects that exist on the
device in the shape their command names), referenced on the device by nothing but pending deletions.  Then the
strict device accepts every command of `delRounds`, and objects that are not pending keep their definition. -/
theorem delRounds_accepted : ∀ (f : Nat) (objs : List DelObj) (d : Dev),
    objs.Pairwise (fun p q => p.id ≠ q.id) →
    (∀ p ∈ objs, Shape d p) →
    (∀ p ∈ objs, ∀ x ∈ d.objs, x.refs.contains p.id = true → ∃ q ∈ objs, q.id = x.id ∧ q.refs = x.refs) →
    ∃ d', execAll d (delRounds f objs) = some d' ∧ ∀ r, (∀ p ∈ objs, p.id ≠ r) → d'.obj r = d.obj r
  | 0, _, d, _, _, _ => ⟨d, rfl, fun _ _ => rfl⟩
  | _ + 1, [], d, _, _, _ => ⟨d, rfl, fun _ _ => rfl⟩
  | f + 1, o0 :: os, d, hn, hs, hr => by
    let objs := o0 :: os
    let isRef (o : DelObj) : Bool := objs.any fun x => x.refs.contains o.id
    let now := objs.filter fun o => !isRef o
    let later := objs.filter isRef
    have hunf : delRounds (f + 1) (o0 :: os) = now.flatMap (·.lines) ++ delRounds f later := rfl
    -- nothing on the device references an object of this round
    have hnow : ∀ p ∈ now, Deletable d p := by
      intro p hp
      have hpm := (List.mem_filter.1 hp)
      refine ⟨?_, hs p hpm.1⟩
      cases hrf : d.referenced p.id with
      | false => rfl
      | true =>
        exfalso
        unfold Dev.referenced at hrf
        obtain ⟨x, hx, hxr⟩ := List.any_eq_true.1 hrf
        obtain ⟨q, hq, _, hqr⟩ := hr p hpm.1 x hx hxr
        have : isRef p = true := List.any_eq_true.2 ⟨q, hq, by rw [hqr]; exact hxr⟩
        have h2 := hpm.2
        rw [this] at h2; cases h2
    have hnp : now.Pairwise (fun p q => p.id ≠ q.id) := hn.sublist List.filter_sublist
    have hround := round_accepted now d hnow hnp
    -- the device after the round
    let d1 : Dev := if now.isEmpty then d else { objs := d.objs.filter fun o => now.all fun p => o.id != p.id, mode := none }
    have hobj1 : ∀ r, (∀ p ∈ now, p.id ≠ r) → d1.obj r = d.obj r := by
      intro r hr'
      by_cases he : now.isEmpty = true
      · simp only [d1, he, if_true]
      · simp only [d1, he]
        exact find?_filter_all d.objs now r hr'
    have hsub1 : ∀ x ∈ d1.objs, x ∈ d.objs ∧ ∀ p ∈ now, x.id ≠ p.id := by
      intro x hx
      by_cases he : now.isEmpty = true
      · have hx' : x ∈ d.objs := by simpa [d1, he] using hx
        have : now = [] := by simpa using he
        exact ⟨hx', by rw [this]; intro p hp; cases hp⟩
      · have hx' : x ∈ d.objs.filter fun o => now.all fun p => o.id != p.id := by simpa [d1, he] using hx
        have h2 := List.mem_filter.1 hx'
        refine ⟨h2.1, ?_⟩
        intro p hp
        have := (List.all_eq_true.1 h2.2) p hp
        simpa using this
    have hlater_ne : ∀ q ∈ later, ∀ p ∈ now, p.id ≠ q.id := by
      intro q hq p hp e
      have hq' := List.mem_filter.1 hq
      have hp' := List.mem_filter.1 hp
      have := pairwise_id_inj hn p hp'.1 q hq'.1 e
      subst this
      have h1 := hp'.2
      rw [hq'.2] at h1; cases h1
    have ih := delRounds_accepted f later d1 (hn.sublist List.filter_sublist)
      (by
        intro q hq
        exact Shape.of_obj_eq (hobj1 q.id (hlater_ne q hq)) (hs q (List.mem_filter.1 hq).1))
      (by
        intro q hq x hx hxr
        have hx' := hsub1 x hx
        obtain ⟨q', hq', hid, hrefs⟩ := hr q (List.mem_filter.1 hq).1 x hx'.1 hxr
        refine ⟨q', ?_, hid, hrefs⟩
        apply List.mem_filter.2
        refine ⟨hq', ?_⟩
        cases hir : isRef q' with
        | true => rfl
        | false =>
          exfalso
          have : q' ∈ now := List.mem_filter.2 ⟨hq', by simp [hir]⟩
          exact hx'.2 q' this hid.symm)
    obtain ⟨d', hex, hfr⟩ := ih
    refine ⟨d', ?_, ?_⟩
    · rw [hunf, execAll_append, hround]
      exact hex
    · intro r hr'
      rw [hfr r (fun p hp => hr' p (List.mem_filter.1 hp).1)]
      exact hobj1 r (fun p hp => hr' p (List.mem_filter.1 hp).1)

/-! ## … and it removes every pending object (given enough rounds and no reference cycles among them) -/

theorem exists_max_rank (rank : Ref → Nat) : ∀ (l : List DelObj), l ≠ [] → ∃ p ∈ l, ∀ q ∈ l, rank q.id ≤ rank p.id
  | [], h => absurd rfl h
  | [x], _ => ⟨x, List.mem_cons_self, by intro q hq; cases hq with | head => exact Nat.le_refl _ | tail _ h => cases h⟩
  | x :: y :: ys, _ => by
    obtain ⟨p, hp, hmax⟩ := exists_max_rank rank (y :: ys) (by intro h; cases h)
    by_cases hx : rank p.id ≤ rank x.id
    · refine ⟨x, List.mem_cons_self, ?_⟩
      intro q hq
      cases hq with
      | head => exact Nat.le_refl _
      | tail _ hq => exact Nat.le_trans (hmax q hq) hx
    · refine ⟨p, List.mem_cons_of_mem _ hp, ?_⟩
      intro q hq
      cases hq with
      | head => omega
      | tail _ hq => exact hmax q hq

theorem find?_filter_all_none (objs : List Obj) (now : List DelObj) (p : DelObj) (hp : p ∈ now) :
    (objs.filter fun o => now.all fun q => o.id != q.id).find? (fun o => o.id == p.id) = none := by
  apply List.find?_eq_none.2
  intro o ho
  have h2 := (List.mem_filter.1 ho).2
  have := (List.all_eq_true.1 h2) p hp
  simpa using this

/-- **The clean-up removes what it set out to remove.**  In addition to `delRounds_accepted`: if the references among the
pending objects go to strictly lower `rank` (no cycles; in fragment G the rank of the kind) and there are at least as many
rounds as pending objects, every pending object is gone afterwards. -/
theorem delRounds_removes (rank : Ref → Nat) : ∀ (f : Nat) (objs : List DelObj) (d : Dev),
    objs.Pairwise (fun p q => p.id ≠ q.id) →
    (∀ p ∈ objs, Shape d p) →
    (∀ p ∈ objs, ∀ x ∈ d.objs, x.refs.contains p.id = true → ∃ q ∈ objs, q.id = x.id ∧ q.refs = x.refs) →
    (∀ p ∈ objs, ∀ q ∈ objs, p.refs.contains q.id = true → rank q.id < rank p.id) →
    objs.length ≤ f →
    ∃ d', execAll d (delRounds f objs) = some d' ∧ (∀ r, (∀ p ∈ objs, p.id ≠ r) → d'.obj r = d.obj r) ∧
      ∀ p ∈ objs, d'.obj p.id = none
  | 0, objs, d, _, _, _, _, hf => by
    have : objs = [] := List.eq_nil_of_length_eq_zero (by omega)
    subst this
    exact ⟨d, rfl, fun _ _ => rfl, fun p hp => by cases hp⟩
  | _ + 1, [], d, _, _, _, _, _ => ⟨d, rfl, fun _ _ => rfl, fun p hp => by cases hp⟩
  | f + 1, o0 :: os, d, hn, hs, hr, hrk, hf => by
    let objs := o0 :: os
    let isRef (o : DelObj) : Bool := objs.any fun x => x.refs.contains o.id
    let now := objs.filter fun o => !isRef o
    let later := objs.filter isRef
    have hunf : delRounds (f + 1) (o0 :: os) = now.flatMap (·.lines) ++ delRounds f later := rfl
    have hnow : ∀ p ∈ now, Deletable d p := by
      intro p hp
      have hpm := (List.mem_filter.1 hp)
      refine ⟨?_, hs p hpm.1⟩
      cases hrf : d.referenced p.id with
      | false => rfl
      | true =>
        exfalso
        unfold Dev.referenced at hrf
        obtain ⟨x, hx, hxr⟩ := List.any_eq_true.1 hrf
        obtain ⟨q, hq, _, hqr⟩ := hr p hpm.1 x hx hxr
        have : isRef p = true := List.any_eq_true.2 ⟨q, hq, by rw [hqr]; exact hxr⟩
        have h2 := hpm.2
        rw [this] at h2; cases h2
    have hnp : now.Pairwise (fun p q => p.id ≠ q.id) := hn.sublist List.filter_sublist
    have hround := round_accepted now d hnow hnp
    -- the object of highest rank is referenced by no pending object: this round is not empty
    obtain ⟨pm, hpm, hmax⟩ := exists_max_rank rank (o0 :: os) (List.cons_ne_nil _ _)
    have hpm_now : pm ∈ now := by
      apply List.mem_filter.2
      refine ⟨hpm, ?_⟩
      cases hir : isRef pm with
      | false => rfl
      | true =>
        exfalso
        obtain ⟨x, hx, hxr⟩ := List.any_eq_true.1 hir
        have h1 := hrk x hx pm hpm hxr
        have h2 := hmax x hx
        omega
    have hne : now.isEmpty = false := by
      cases hnw : now with
      | nil => rw [hnw] at hpm_now; cases hpm_now
      | cons _ _ => rfl
    have hlen : later.length < objs.length := by
      apply List.length_filter_lt_length_iff_exists.2
      refine ⟨pm, hpm, ?_⟩
      have := (List.mem_filter.1 hpm_now).2
      simpa using this
    let d1 : Dev := { objs := d.objs.filter fun o => now.all fun p => o.id != p.id, mode := none }
    have hround' : execAll d (now.flatMap (·.lines)) = some d1 := by
      rw [hround]; simp only [hne, Bool.false_eq_true, if_false, d1]
    have hobj1 : ∀ r, (∀ p ∈ now, p.id ≠ r) → d1.obj r = d.obj r := fun r hr' => find?_filter_all d.objs now r hr'
    have hsub1 : ∀ x ∈ d1.objs, x ∈ d.objs ∧ ∀ p ∈ now, x.id ≠ p.id := by
      intro x hx
      have h2 := List.mem_filter.1 hx
      refine ⟨h2.1, ?_⟩
      intro p hp
      have := (List.all_eq_true.1 h2.2) p hp
      simpa using this
    have hlater_ne : ∀ q ∈ later, ∀ p ∈ now, p.id ≠ q.id := by
      intro q hq p hp e
      have hq' := List.mem_filter.1 hq
      have hp' := List.mem_filter.1 hp
      have := pairwise_id_inj hn p hp'.1 q hq'.1 e
      subst this
      have h1 := hp'.2
      rw [hq'.2] at h1; cases h1
    have ih := delRounds_removes rank f later d1 (hn.sublist List.filter_sublist)
      (by
        intro q hq
        exact Shape.of_obj_eq (hobj1 q.id (hlater_ne q hq)) (hs q (List.mem_filter.1 hq).1))
      (by
        intro q hq x hx hxr
        have hx' := hsub1 x hx
        obtain ⟨q', hq', hid, hrefs⟩ := hr q (List.mem_filter.1 hq).1 x hx'.1 hxr
        refine ⟨q', ?_, hid, hrefs⟩
        apply List.mem_filter.2
        refine ⟨hq', ?_⟩
        cases hir : isRef q' with
        | true => rfl
        | false =>
          exfalso
          have : q' ∈ now := List.mem_filter.2 ⟨hq', by simp [hir]⟩
          exact hx'.2 q' this hid.symm)
      (by
        intro p hp q hq hpq
        exact hrk p (List.mem_filter.1 hp).1 q (List.mem_filter.1 hq).1 hpq)
      (by
        have : objs.length = os.length + 1 := rfl
        have h2 : (o0 :: os).length = os.length + 1 := rfl
        omega)
    obtain ⟨d', hex, hfr, hgone⟩ := ih
    refine ⟨d', ?_, ?_, ?_⟩
    · rw [hunf, execAll_append, hround']
      exact hex
    · intro r hr'
      rw [hfr r (fun p hp => hr' p (List.mem_filter.1 hp).1)]
      exact hobj1 r (fun p hp => hr' p (List.mem_filter.1 hp).1)
    · intro p hp
      cases hir : isRef p with
      | true => exact hgone p (List.mem_filter.2 ⟨hp, hir⟩)
      | false =>
        have hpn : p ∈ now := List.mem_filter.2 ⟨hp, by simp [hir]⟩
        rw [hfr p.id (fun q hq e => hlater_ne q hq p hpn e.symm)]
        exact find?_filter_all_none d.objs now p hpn

end NA.Vpn.G
