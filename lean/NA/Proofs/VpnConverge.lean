import NA.Proofs.VpnMatch
/-!
The entry set: every target entry is handed to `f` exactly once (either together with the device
entry of the same peer, or alone under a fresh number); if device and target carry the same,
pairwise distinct peers, nothing is added and nothing is deleted (stability of a second run).
-/
namespace NA.Vpn

/-- number of calls whose target part is the entry with sequence number `t` -/
def hits (bl : List Cmd) (t : Int) (calls : List Call) : Nat := (calls.filter fun c => c.b == entry bl t).length

theorem entry_inj (bl : List Cmd) (t t' : Int) (h : entry bl t = entry bl t') (hne : entry bl t ≠ []) : t = t' := by
  cases he : entry bl t with
  | nil => exact absurd he hne
  | cons c cs =>
    have h1 := entry_seq bl t c (by rw [he]; exact List.mem_cons_self)
    have h2 := entry_seq bl t' c (by rw [← h, he]; exact List.mem_cons_self)
    omega

theorem hits_cons (bl : List Cmd) (t : Int) (c : Call) (cs : List Call) :
    hits bl t (c :: cs) = (if c.b == entry bl t then 1 else 0) + hits bl t cs := by
  unfold hits
  rw [List.filter_cons]
  by_cases h : (c.b == entry bl t) = true
  · simp [h]; omega
  · simp [h]

theorem nil_ne_entry (bl : List Cmd) (t : Int) (hne : entry bl t ≠ []) : (([] : List Cmd) == entry bl t) = false := by
  cases he : entry bl t with
  | nil => exact absurd he hne
  | cons c cs => rfl

/-- In the matching loop a target entry is handed over at most once: exactly when some device entry
points to it and it was not consumed before. -/
theorem matchLoop_hits (al bl : List Cmd) (bKeys : List Int) (t : Int) (hne : entry bl t ≠ []) :
    ∀ (keys done : List Int),
      hits bl t (matchLoop al bl bKeys keys done).1 =
        if t ∈ done then 0 else if ∃ s ∈ keys, tgtOf al bl bKeys s = some t then 1 else 0
  | [], done => by
    by_cases hd : t ∈ done <;> simp [matchLoop, hits, hd]
  | s :: rest, done => by
    rw [matchLoop_cons]
    cases hs : tgtOf al bl bKeys s with
    | none =>
      have ih := matchLoop_hits al bl bKeys t hne rest done
      simp only [hits_cons, nil_ne_entry bl t hne, Bool.false_eq_true, if_false, Nat.zero_add, ih]
      by_cases hd : t ∈ done
      · simp [hd]
      · simp only [hd, if_false]
        have : (∃ s' ∈ s :: rest, tgtOf al bl bKeys s' = some t) ↔ ∃ s' ∈ rest, tgtOf al bl bKeys s' = some t := by
          constructor
          · rintro ⟨s', hs', h⟩
            cases hs' with
            | head => rw [hs] at h; cases h
            | tail _ hs' => exact ⟨s', hs', h⟩
          · rintro ⟨s', hs', h⟩; exact ⟨s', List.mem_cons_of_mem _ hs', h⟩
        simp only [this]
    | some t0 =>
      have ih := matchLoop_hits al bl bKeys t hne rest (t0 :: done)
      simp only [hits_cons, ih]
      by_cases h0 : t0 = t
      · subst h0
        by_cases hd : t0 ∈ done
        · simp [hd, nil_ne_entry bl t0 hne]
        · have : (∃ s' ∈ s :: rest, tgtOf al bl bKeys s' = some t0) := ⟨s, List.mem_cons_self, hs⟩
          simp only [hd, if_false, BEq.rfl, if_true, List.mem_cons_self, this]
      · have hne' : ((if t0 ∈ done then [] else entry bl t0) == entry bl t) = false := by
          by_cases hd0 : t0 ∈ done
          · simp only [hd0, if_true]
            exact nil_ne_entry bl t hne
          · simp only [hd0, if_false]
            by_cases heq : entry bl t0 = entry bl t
            · exact absurd (entry_inj bl t t0 heq.symm hne).symm h0
            · simpa using heq
        have hmem : t ∈ t0 :: done ↔ t ∈ done := by
          constructor
          · intro h; cases h with
            | head => exact absurd rfl h0
            | tail _ h => exact h
          · intro h; exact List.mem_cons_of_mem _ h
        have hex : (∃ s' ∈ s :: rest, tgtOf al bl bKeys s' = some t) ↔ ∃ s' ∈ rest, tgtOf al bl bKeys s' = some t := by
          constructor
          · rintro ⟨s', hs', h⟩
            cases hs' with
            | head => rw [hs] at h; cases h; exact absurd rfl h0
            | tail _ hs' => exact ⟨s', hs', h⟩
          · rintro ⟨s', hs', h⟩; exact ⟨s', List.mem_cons_of_mem _ hs', h⟩
        simp only [hne', Bool.false_eq_true, if_false, Nat.zero_add, hmem, hex]

/-- A target entry that the matching loop consumed was handed over exactly once. -/
theorem matched_once (al bl : List Cmd) (bKeys keys : List Int) (t : Int) (hne : entry bl t ≠ [])
    (h : t ∈ (matchLoop al bl bKeys keys []).2) : hits bl t (matchLoop al bl bKeys keys []).1 = 1 := by
  rw [matchLoop_hits al bl bKeys t hne]
  have := (matchLoop_done al bl bKeys keys [] t).1 h
  rcases this with h | h
  · cases h
  · simp [h]

/-- A target entry that the matching loop did not consume was not handed over there. -/
theorem unmatched_zero (al bl : List Cmd) (bKeys keys : List Int) (t : Int) (hne : entry bl t ≠ [])
    (h : t ∉ (matchLoop al bl bKeys keys []).2) : hits bl t (matchLoop al bl bKeys keys []).1 = 0 := by
  rw [matchLoop_hits al bl bKeys t hne]
  have : ¬ ∃ s ∈ keys, tgtOf al bl bKeys s = some t := by
    intro hex
    exact h ((matchLoop_done al bl bKeys keys [] t).2 (Or.inr hex))
  simp [this]

/-! ## stability -/

/-- If the peer of the device entry `s` occurs in the target and no earlier device entry has it, the
entry is compared with the target's lowest entry of that peer. -/
theorem matched_of_peer (al bl : List Cmd) (pre post : List Int) (s : Int) (p : Peer)
    (hp : getPeer (entry al s) = some p)
    (hex : ∃ t ∈ seqKeys bl, getPeer (entry bl t) = some p)
    (hfirst : ∀ s' ∈ pre, getPeer (entry al s') ≠ some p) :
    ∃ t, (matchLoop al bl (seqKeys bl) (pre ++ s :: post) []).1[pre.length]? = some ⟨entry al s, entry bl t⟩ ∧
      t ∈ seqKeys bl ∧ getPeer (entry bl t) = some p ∧
      ∀ t' ∈ seqKeys bl, getPeer (entry bl t') = some p → t ≤ t' := by
  obtain ⟨t1, ht1, hp1⟩ := hex
  obtain ⟨t, ht⟩ := peerSeq_isSome bl p (seqKeys bl) t1 ht1 hp1
  have hlow := peerSeq_lowest bl p (seqKeys bl) (seqKeys_sorted bl) t ht
  have htgt : tgtOf al bl (seqKeys bl) s = some t := by unfold tgtOf; rw [hp]; exact ht
  refine ⟨t, ?_, hlow.1, hlow.2.1, hlow.2.2⟩
  rw [matchLoop_at, htgt]
  have hnd : t ∉ (matchLoop al bl (seqKeys bl) pre []).2 := by
    intro hd
    rcases (matchLoop_done al bl (seqKeys bl) pre [] t).1 hd with h | ⟨s', hs', h⟩
    · cases h
    · unfold tgtOf at h
      cases hp' : getPeer (entry al s') with
      | none => rw [hp'] at h; cases h
      | some p' =>
        rw [hp'] at h
        have h' : peerSeq bl (seqKeys bl) p' = some t := h
        have := (peerSeq_lowest bl p' (seqKeys bl) (seqKeys_sorted bl) t h').2.1
        rw [hlow.2.1] at this
        cases this
        exact hfirst s' hs' hp'
  simp [hnd]

/-- If no target entry has the peer of the device entry, or an earlier device entry has the same
peer, the entry is handed over alone (and deleted). -/
theorem unmatched_of_peer (al bl : List Cmd) (pre post : List Int) (s : Int) (p : Peer)
    (hp : getPeer (entry al s) = some p)
    (h : (∀ t ∈ seqKeys bl, getPeer (entry bl t) ≠ some p) ∨ ∃ s' ∈ pre, getPeer (entry al s') = some p) :
    (matchLoop al bl (seqKeys bl) (pre ++ s :: post) []).1[pre.length]? = some ⟨entry al s, []⟩ := by
  rw [matchLoop_at]
  cases htgt : tgtOf al bl (seqKeys bl) s with
  | none => rfl
  | some t =>
    have ht : peerSeq bl (seqKeys bl) p = some t := by unfold tgtOf at htgt; rw [hp] at htgt; exact htgt
    have hlow := peerSeq_lowest bl p (seqKeys bl) (seqKeys_sorted bl) t ht
    rcases h with h | ⟨s', hs', hp'⟩
    · exact absurd hlow.2.1 (h t hlow.1)
    · have : t ∈ (matchLoop al bl (seqKeys bl) pre []).2 := by
        refine (matchLoop_done al bl (seqKeys bl) pre [] t).2 (Or.inr ⟨s', hs', ?_⟩)
        unfold tgtOf; rw [hp']; exact ht
      simp [this]

/-- **Stability**: if the target's peers are pairwise distinct and every target peer occurs on the device,
no target entry is left for the fresh-number loop (nothing is added). -/
theorem nothing_added (al bl : List Cmd)
    (hdist : ∀ t ∈ seqKeys bl, ∀ t' ∈ seqKeys bl, getPeer (entry bl t) = getPeer (entry bl t') → t = t')
    (hpeer : ∀ t ∈ seqKeys bl, (getPeer (entry bl t)).isSome)
    (hcover : ∀ t ∈ seqKeys bl, ∃ s ∈ seqKeys al, getPeer (entry al s) = getPeer (entry bl t)) :
    (seqKeys bl).filter (fun t => !((matchLoop al bl (seqKeys bl) (seqKeys al) []).2.contains t)) = [] := by
  apply List.filter_eq_nil_iff.2
  intro t ht
  obtain ⟨s, hs, hps⟩ := hcover t ht
  cases hp : getPeer (entry bl t) with
  | none => have := hpeer t ht; rw [hp] at this; cases this
  | some p =>
    rw [hp] at hps
    obtain ⟨t0, ht0⟩ := peerSeq_isSome bl p (seqKeys bl) t ht hp
    have hlow := peerSeq_lowest bl p (seqKeys bl) (seqKeys_sorted bl) t0 ht0
    have : t0 = t := hdist t0 hlow.1 t ht (by rw [hlow.2.1, hp])
    subst this
    have hd : t0 ∈ (matchLoop al bl (seqKeys bl) (seqKeys al) []).2 := by
      refine (matchLoop_done al bl (seqKeys bl) (seqKeys al) [] t0).2 (Or.inr ⟨s, hs, ?_⟩)
      unfold tgtOf; rw [hps]; exact ht0
    simp [hd]

end NA.Vpn
