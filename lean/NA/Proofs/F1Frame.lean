import NA.Proofs.F1Equalize
/-!
# F1: `diffASAACLs` leaves the marks of access lists and access-group commands alone
-/
namespace NA.F1
open NA.Acl (Range)

structure SameAclMarks (st st' : St) : Prop where
  aNeeded : st'.aNeeded = st.aNeeded
  aToDel : st'.aToDel = st.aToDel
  bNeeded : st'.bNeeded = st.bNeeded
  bToDel : st'.bToDel = st.bToDel
  aReady : st'.aReady = st.aReady
  aName : st'.aName = st.aName

theorem SameAclMarks.refl (st : St) : SameAclMarks st st := ⟨rfl, rfl, rfl, rfl, rfl, rfl⟩

theorem SameAclMarks.trans {s1 s2 s3 : St} (h1 : SameAclMarks s1 s2) (h2 : SameAclMarks s2 s3) : SameAclMarks s1 s3 :=
  ⟨h2.aNeeded.trans h1.aNeeded, h2.aToDel.trans h1.aToDel, h2.bNeeded.trans h1.bNeeded, h2.bToDel.trans h1.bToDel,
   h2.aReady.trans h1.aReady, h2.aName.trans h1.aName⟩

theorem SameAclMarks.trans' {s1 s2 s3 : St} (h2 : SameAclMarks s2 s3) (h1 : SameAclMarks s1 s2) : SameAclMarks s1 s3 :=
  h1.trans h2

theorem SameAclMarks.hit {st st' : St} (h : SameAclMarks st st') (x : String) : SameAclMarks st (st'.hit x) :=
  ⟨h.aNeeded, h.aToDel, h.bNeeded, h.bToDel, h.aReady, h.aName⟩

theorem SameAclMarks.foldl {α : Type} (f : St → α → St) (l : List α) (st : St) (h : ∀ s x, SameAclMarks s (f s x)) :
    SameAclMarks st (l.foldl f st) := by
  induction l generalizing st with
  | nil => exact SameAclMarks.refl st
  | cons x xs ih => exact (h st x).trans (ih (f st x))

theorem SameMarks.toAcl {st st' : St} (h : SameMarks st st') : SameAclMarks st st' :=
  ⟨h.aNeeded, h.aToDel, h.bNeeded, h.bToDel, h.aReady, h.aName⟩

theorem findGroup_aclMarks (e : Env) (st : St) (bN : Name) : SameAclMarks st (findGroup e st bN) := by
  cases findGroup_result e st bN with
  | unchanged he => rw [he]; exact SameAclMarks.refl st
  | adopted aN _ _ _ _ hst => rw [hst]; exact ⟨rfl, rfl, rfl, rfl, rfl, rfl⟩

theorem transferGroup_aclMarks (e : Env) (st : St) (bN : Name) : SameAclMarks st (transferGroup e st bN) := by
  unfold transferGroup
  split
  · exact SameAclMarks.refl st
  · exact ⟨rfl, rfl, rfl, rfl, rfl, rfl⟩

theorem equalizedGroups_aclMarks (e : Env) (st : St) (aN bN : Name) : SameAclMarks st (equalizedGroups e st aN bN).1 := by
  unfold equalizedGroups
  split
  · split
    · exact ⟨rfl, rfl, rfl, rfl, rfl, rfl⟩
    · exact (findGroup_aclMarks e st bN).trans ⟨rfl, rfl, rfl, rfl, rfl, rfl⟩
  · simp only []
    have h1 : SameAclMarks st (if isIdentity (lookupD e.sc.grp (aN, bN)) = true then st else findGroup e st bN) := by
      split
      · exact SameAclMarks.refl st
      · exact findGroup_aclMarks e st bN
    generalize (if isIdentity (lookupD e.sc.grp (aN, bN)) = true then st else findGroup e st bN) = st1 at h1
    split
    · exact h1.trans ⟨rfl, rfl, rfl, rfl, rfl, rfl⟩
    · generalize scriptStat (lookupD e.sc.grp (aN, bN)) = stat
      obtain ⟨ins, del⟩ := stat
      simp only []
      split
      · exact h1.trans ⟨rfl, rfl, rfl, rfl, rfl, rfl⟩
      · have hm := (editMembers_marks aN (e.aMembers aN) (e.bMembers bN) (lookupD e.sc.grp (aN, bN))
          { st1 with gNeeded := addSet aN st1.gNeeded, gName := (bN, aN) :: st1.gName }).toAcl
        refine h1.trans ?_
        exact ⟨hm.aNeeded, hm.aToDel, hm.bNeeded, hm.bToDel, hm.aReady, hm.aName⟩

theorem equalizePair_aclMarks (e : Env) (st : St) (a b : Line) : SameAclMarks st (equalizePair e st a b).1 := by
  unfold equalizePair
  have key : ∀ (l : List (Name × Name)) (s : St × Bool), SameAclMarks st s.1 →
      SameAclMarks st (l.foldl (fun (s : St × Bool) p =>
        let (st', ok) := equalizedGroups e s.1 p.1 p.2
        (st', s.2 && ok)) s).1 := by
    intro l
    induction l with
    | nil => intro s hs; exact hs
    | cons p ps ih =>
      intro s hs
      simp only [List.foldl_cons]
      exact ih _ (hs.trans (equalizedGroups_aclMarks e s.1 p.1 p.2))
  exact key _ (st, true) (SameAclMarks.refl st)

theorem equalizeRange_aclMarks (e : Env) (al bl : List Line) (lowA lowB : Nat) : ∀ (n : Nat) (st : St) (acc : List MCell),
    SameAclMarks st (equalizeRange e al bl lowA lowB n st acc).1 := by
  intro n
  induction n with
  | zero => intro st acc; exact SameAclMarks.refl st
  | succ n ih =>
    intro st acc
    have h1 := ih st acc
    unfold equalizeRange
    generalize equalizeRange e al bl lowA lowB n st acc = r at h1
    obtain ⟨st1, acc1⟩ := r
    simp only at h1 ⊢
    have h2 := equalizePair_aclMarks e st1 (al.getD (lowA + n) default) (bl.getD (lowB + n) default)
    generalize equalizePair e st1 (al.getD (lowA + n) default) (bl.getD (lowB + n) default) = q at h2
    obtain ⟨st2, ok⟩ := q
    cases ok
    · exact (h1.trans h2).trans ⟨rfl, rfl, rfl, rfl, rfl, rfl⟩
    · exact h1.trans h2

theorem cellsPhase_aclMarks (e : Env) (al bl : List Line) : ∀ (rs : List Range) (st : St) (acc : List MCell),
    SameAclMarks st (cellsPhase e al bl rs st acc).1 := by
  intro rs
  induction rs with
  | nil => intro st acc; exact SameAclMarks.refl st
  | cons r rs ih =>
    intro st acc
    unfold cellsPhase
    split
    · exact ih _ _
    · split
      · exact ih _ _
      · split
        · have h1 := equalizeRange_aclMarks e al bl r.lowA r.lowB (r.highA - r.lowA) st acc
          generalize equalizeRange e al bl r.lowA r.lowB (r.highA - r.lowA) st acc = q at h1
          obtain ⟨st1, acc1⟩ := q
          exact h1.trans (ih _ _)
        · exact ih _ _

theorem earlyFind_aclMarks (e : Env) (bl : List Line) (rs : List Range) (st : St) : SameAclMarks st (earlyFind e bl rs st) := by
  unfold earlyFind
  apply SameAclMarks.foldl
  intro s r
  split
  · exact SameAclMarks.foldl _ _ s (fun s' g => findGroup_aclMarks e s' g)
  · exact SameAclMarks.refl s

theorem emitLine_aclMarks (e : Env) (st : St) (mk : RLine → Chg) (l : Line) : SameAclMarks st (emitLine e st mk l) := by
  unfold emitLine
  exact (SameAclMarks.foldl _ _ st (fun s g => transferGroup_aclMarks e s g)).trans ⟨rfl, rfl, rfl, rfl, rfl, rfl⟩

theorem markDeletedLines_aclMarks (st : St) (ls : List Line) : SameAclMarks st (markDeletedLines st ls) :=
  ⟨rfl, rfl, rfl, rfl, rfl, rfl⟩

theorem emitOp_aclMarks (e : Env) (aclName : Name) (al bl : List Line) (cells : List MCell) (st : St) (op : NA.Acl.Op) :
    SameAclMarks st (emitOp e aclName al bl cells st op) := by
  unfold emitOp
  cases op with
  | add p l =>
    simp only
    split
    · exact (emitLine_aclMarks e st _ _).hit _
    · exact ⟨rfl, rfl, rfl, rfl, rfl, rfl⟩
  | del p l =>
    simp only
    split
    · exact (markDeletedLines_aclMarks _ _).hit _ |>.trans' ⟨rfl, rfl, rfl, rfl, rfl, rfl⟩
    · exact ⟨rfl, rfl, rfl, rfl, rfl, rfl⟩
  | move dp la ap lb =>
    simp only
    split
    · exact ((markDeletedLines_aclMarks st _).trans (emitLine_aclMarks e _ _ _)).hit _
    · exact ⟨rfl, rfl, rfl, rfl, rfl, rfl⟩
  | bad => exact ⟨rfl, rfl, rfl, rfl, rfl, rfl⟩

theorem diffASAACLs_aclMarks (e : Env) (st : St) (aN bN : Name) (rs : List Range) :
    SameAclMarks st (diffASAACLs e st aN bN rs) := by
  unfold diffASAACLs
  simp only []
  have h1 := earlyFind_aclMarks e (e.bLines bN) rs st
  have h2 := cellsPhase_aclMarks e (e.aLines aN) (e.bLines bN) rs (earlyFind e (e.bLines bN) rs st) []
  generalize cellsPhase e (e.aLines aN) (e.bLines bN) rs (earlyFind e (e.bLines bN) rs st) [] = q at h2
  obtain ⟨st1, cells⟩ := q
  exact (h1.trans h2).trans (SameAclMarks.foldl _ _ st1 (fun s op => emitOp_aclMarks e aN _ _ cells s op))

end NA.F1
