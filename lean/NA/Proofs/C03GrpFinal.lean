import NA.Proofs.C03GrpWhole
/-
C03, whole-vsys theorems with address-groups, part 13: the removal phase (groups, addresses,
services) and the content of lists through groups.  Core Lean only.
-/
namespace NA.PanOs

/-! ### Removing the device groups that are no longer needed -/

theorem lookupGrp_filter (l : List Grp) (x n : String) (h : n ≠ x) :
    lookupGrp (l.filter (·.name != x)) n = lookupGrp l n := by
  unfold lookupGrp
  induction l with
  | nil => rfl
  | cons g gs ih =>
    by_cases hgx : g.name = x
    · have h1 : (g.name != x) = false := by simp [hgx]
      have h2 : (g.name == n) = false := by
        have : g.name ≠ n := fun e => h (e.symm.trans hgx)
        simpa using this
      simp only [List.filter_cons, h1, Bool.false_eq_true, if_false, List.find?_cons, h2]
      exact ih
    · have h1 : (g.name != x) = true := by simpa using hgx
      simp only [List.filter_cons, h1, if_true, List.find?_cons]
      cases hb : (g.name == n) with
      | true => rfl
      | false => exact ih

theorem runs_delGrps (sh : Shared) : ∀ (xs : List String) (v : Vsys), xs.Nodup →
    (∀ x ∈ xs, x ∈ v.groups.map (·.name)) →
    (∀ x ∈ xs, ∀ r ∈ v.rules, x ∉ r.src ∧ x ∉ r.dst) →
    (∀ x ∈ xs, ∀ g ∈ v.groups, x ∉ g.members) →
    ∃ w, Runs sh v (xs.map Cmd.delGrp) w ∧ w.rules = v.rules ∧ w.addrs = v.addrs ∧ w.svcs = v.svcs ∧
      w.sgroups = v.sgroups ∧ w.name = v.name ∧
      (∀ n, n ∉ xs → lookupGrp w.groups n = lookupGrp v.groups n) ∧
      (∀ g ∈ w.groups, g ∈ v.groups ∧ g.name ∉ xs) := by
  intro xs
  induction xs with
  | nil =>
    intro v _ _ _ _
    exact ⟨v, Runs.nil sh v, rfl, rfl, rfl, rfl, rfl, fun _ _ => rfl, fun g hg => ⟨hg, by simp⟩⟩
  | cons x xs ih =>
    intro v hnd hmem hrules hgrps
    rw [List.nodup_cons] at hnd
    have hany : v.groups.any (·.name == x) = true := any_name_of_mem (hmem x (by simp))
    have hunused : addrUsed { v with groups := v.groups.filter (·.name != x) } x = false := by
      unfold addrUsed
      rw [Bool.eq_false_iff]
      intro h
      simp only [Bool.or_eq_true, List.any_eq_true, List.contains_iff_mem] at h
      rcases h with ⟨r, hr, hx⟩ | ⟨g, hg, hx⟩
      · obtain ⟨h1, h2⟩ := hrules x (by simp) r hr
        rcases hx with hx | hx
        · exact h1 hx
        · exact h2 hx
      · exact hgrps x (by simp) g (List.mem_filter.mp hg).1 hx
    have hexec : exec sh v (.delGrp x) = .ok { v with groups := v.groups.filter (·.name != x) } := by
      simp only [exec, hany, hunused, Bool.not_true, Bool.false_eq_true, if_false]
    obtain ⟨w, hw, r1, r2, r3, r4, r5, p, q⟩ := ih { v with groups := v.groups.filter (·.name != x) } hnd.2
      (by
        intro y hy
        obtain ⟨g, hg, hn⟩ := List.mem_map.mp (hmem y (List.mem_cons_of_mem _ hy))
        refine List.mem_map.mpr ⟨g, List.mem_filter.mpr ⟨hg, ?_⟩, hn⟩
        have : g.name ≠ x := fun e => hnd.1 (by rw [← e, hn]; exact hy)
        simpa using this)
      (fun y hy r hr => hrules y (List.mem_cons_of_mem _ hy) r hr)
      (fun y hy g hg => hgrps y (List.mem_cons_of_mem _ hy) g (List.mem_filter.mp hg).1)
    refine ⟨w, Runs.cons hexec hw, r1, r2, r3, r4, r5, ?_, ?_⟩
    · intro n hn
      simp only [List.mem_cons, not_or] at hn
      rw [p n hn.2]
      exact lookupGrp_filter _ _ _ hn.1
    · intro g hg
      obtain ⟨h1, h2⟩ := q g hg
      obtain ⟨h3, h4⟩ := List.mem_filter.mp h1
      refine ⟨h3, ?_⟩
      simp only [List.mem_cons, not_or]
      exact ⟨by simpa using h4, h2⟩

theorem removeCmds_grp (st : St) (hasg : st.aSG = []) :
    removeCmds st =
      ((st.aGrp.filter (fun g => !g.needed)).map (fun g => Cmd.delGrp g.g.name)) ++
      ((st.aAddr.filter (fun o => !o.needed)).map (fun o => Cmd.delAddr o.o.name)) ++
      ((st.aSvc.filter (fun o => !o.needed)).map (fun o => Cmd.delSvc o.o.name)) := by
  simp only [removeCmds, hasg, List.filterMap_nil, List.append_nil]
  rw [filterMap_if (fun (o : AObj) => !o.needed) (fun o => Cmd.delAddr o.o.name),
    filterMap_if (fun (o : AObj) => !o.needed) (fun o => Cmd.delSvc o.o.name),
    filterMap_if (fun (g : AGrp) => !g.needed) (fun g => Cmd.delGrp g.g.name)]

/-! ### The content of a member -/

/-- A member that is not a group: its content is its value (or its name). -/
theorem expandAddr_plain (v : Vsys) (fuel : Nat) (x : String) (h : x ∉ v.groups.map (·.name)) :
    expandAddr v (fuel + 1) x =
      match lookupObj v.addrs x with
      | some val => [.val val]
      | none => [.ext x] := by
  have hf : v.groups.find? (·.name == x) = none := by
    rw [List.find?_eq_none]
    intro g hg hb
    exact h (List.mem_map.mpr ⟨g, hg, by simpa using hb⟩)
  simp only [expandAddr, hf, lookupObj]
  cases v.addrs.find? (·.name == x) <;> rfl

/-- A group whose members are addresses (not groups): the content is the values of the members. -/
theorem expandAddr_group (v : Vsys) (fuel : Nat) (x : String) (ms : List String)
    (h : lookupGrp v.groups x = some ms) (hm : ∀ m ∈ ms, m ∉ v.groups.map (·.name)) :
    expandAddr v (fuel + 2) x = ms.flatMap (fun m =>
      match lookupObj v.addrs m with
      | some val => [.val val]
      | none => [.ext m]) := by
  obtain ⟨gr, hf, hgm⟩ := lookupGrp_some h
  simp only [expandAddr, hf, hgm]
  have : ∀ (l : List String), (∀ m ∈ l, m ∉ v.groups.map (·.name)) →
      l.flatMap (expandAddr v (fuel + 1)) = l.flatMap (fun m =>
        match lookupObj v.addrs m with
        | some val => [.val val]
        | none => [.ext m]) := by
    intro l
    induction l with
    | nil => intro _; rfl
    | cons y ys ih =>
      intro hl
      simp only [List.flatMap_cons]
      rw [expandAddr_plain v fuel y (hl y (by simp)), ih (fun m hm' => hl m (List.mem_cons_of_mem _ hm'))]
  exact this ms hm

theorem sameSet_flatMap (f g : String → List Leaf) (l l' : List String) (hs : SameMem l l')
    (hfg : ∀ x ∈ l', f x = g x) : sameSet (l.flatMap f) (l'.flatMap g) = true := sameSet_of f g l l' hs hfg

theorem sameSet_trans_eq {x y z : List Leaf} (h1 : sameSet x y = true) (h2 : y = z) : sameSet x z = true := by
  rw [← h2]; exact h1

theorem lookupGrp_append_right {l1 l2 : List Grp} {n : String} (h : n ∉ l1.map (·.name)) :
    lookupGrp (l1 ++ l2) n = lookupGrp l2 n := by
  unfold lookupGrp
  rw [List.find?_append]
  have : l1.find? (·.name == n) = none := by
    rw [List.find?_eq_none]
    intro g hg hb
    exact h (List.mem_map.mpr ⟨g, hg, by simpa using hb⟩)
  rw [this]; rfl

theorem lookupGrp_newGroups {gs : List BGrp} {n : String} {ms : List String}
    (h : lookupGrp (newGroups gs) n = some ms) :
    ∃ gb ∈ gs, gb.needed = true ∧ gb.newName = n ∧ gb.g.members = ms := by
  obtain ⟨gr, hf, hm⟩ := lookupGrp_some h
  have hmem := List.mem_of_find?_eq_some hf
  have hname : gr.name = n := by simpa using List.find?_some hf
  unfold newGroups at hmem
  simp only [List.mem_map, List.mem_filter] at hmem
  obtain ⟨gb, ⟨hgb, hn⟩, e⟩ := hmem
  refine ⟨gb, hgb, hn, ?_, ?_⟩
  · rw [← hname, ← e]
  · rw [← hm, ← e]

theorem lookupGrp_newGroups_of {gs : List BGrp} (hnd : ((gs.filter (·.needed)).map (·.newName)).Nodup)
    {gb : BGrp} (hgb : gb ∈ gs) (hn : gb.needed = true) :
    lookupGrp (newGroups gs) gb.newName = some gb.g.members := by
  have hmem : (⟨gb.newName, gb.g.members⟩ : Grp) ∈ newGroups gs := by
    unfold newGroups
    exact List.mem_map.mpr ⟨gb, List.mem_filter.mpr ⟨hgb, hn⟩, rfl⟩
  have hnd' : ((newGroups gs).map (·.name)).Nodup := by
    unfold newGroups
    simpa [List.map_map, Function.comp_def] using hnd
  exact lookupGrp_of_mem hnd' hmem

theorem sameSet_trans {x y z : List Leaf} (h1 : sameSet x y = true) (h2 : sameSet y z = true) :
    sameSet x z = true := by
  unfold sameSet at *
  simp only [Bool.and_eq_true, List.all_eq_true, List.contains_iff_mem] at *
  exact ⟨fun a ha => h2.1 a (h1.1 a ha), fun a ha => h1.2 a (h2.2 a ha)⟩

theorem sameSet_refl_eq {x y : List Leaf} (h : x = y) : sameSet x y = true := by
  subst h
  unfold sameSet
  simp [List.all_eq_true]

end NA.PanOs
