import NA.Proofs.C05Device
/-!
C05 (round 3, follow-up): `ParseConfig` on the whole target file — splitting into lines, trimming,
dropping empty and comment lines, separating `ip route` lines from the iptables lines.
-/
namespace NA.C05
open NA.Linux NA.Linux.Spec

/-- A line of a target file that survives `ParseConfig`'s clean-up unchanged. -/
structure LineOK (x : Str) : Prop where
  nonl : '\n' ∉ x
  trim : trimSpace x = x
  head : ∃ c, x.head? = some c ∧ c ≠ '#'

theorem clean_lines (L : List Str) (h : ∀ x ∈ L, LineOK x) :
    (((splitChar (unlines L) '\n').map trimSpace).filter fun l => !(l.isEmpty || l.head? == some '#')) = L := by
  rw [split_unlines L (fun x hx => (h x hx).nonl), List.map_append, List.filter_append]
  have h1 : (L.map trimSpace) = L := by
    conv => rhs; rw [← List.map_id L]
    apply List.map_congr_left
    intro x hx; exact (h x hx).trim
  rw [h1]
  have h2 : (L.filter fun l => !(l.isEmpty || l.head? == some '#')) = L := by
    apply List.filter_eq_self.mpr
    intro x hx
    obtain ⟨c, hc, hne⟩ := (h x hx).head
    cases x with
    | nil => simp at hc
    | cons d ds =>
      simp only [List.head?_cons, Option.some.injEq] at hc
      subst hc
      simp [hne]
  rw [h2]
  simp [trimSpace, trimLeftSpace]

def isRouteLine (l : Str) : Bool := hasPrefix l (s "ip route")

/-- `ParseConfig` on a file whose lines are clean: the route lines go to `parseRoutes`, the others to
`parseIPTables`, each in file order. -/
theorem parseConfig_lines (L : List Str) (h : ∀ x ∈ L, LineOK x) :
    parseConfig (unlines L) = (do
      let routes ← parseRoutes (L.filter isRouteLine)
      let tb ← parseIPTables (L.filter fun l => !isRouteLine l)
      pure { routes := routes, iptables := tb }) := by
  unfold parseConfig
  simp only [clean_lines L h]
  rfl

/-- Every line of a rule set text is clean and does not look like a route line. -/
theorem blockLines_ok (sfx : List Str) (hsfx : ∀ x ∈ sfx, Tok x) (sp : ARule → List OptW) (tbl : ATable)
    (hT : TableOK sp tbl) : ∀ x ∈ blockLines sfx sp tbl, LineOK x ∧ isRouteLine x = false := by
  intro x hx
  have notRoute : ∀ (c : Char) (r : Str), c ≠ 'i' → isRouteLine (c :: r) = false := by
    intro c r hc
    show hasPrefix (c :: r) ('i' :: s "p route") = false
    simp [hasPrefix, hc]
  simp only [blockLines, List.mem_append, List.mem_singleton, List.mem_map, List.mem_flatMap] at hx
  rcases hx with ((hx | ⟨c, hc, hx⟩) | ⟨c, hc, r, hr, hx⟩) | hx
  · subst hx
    have htr : trimSpace ('*' :: tbl.name) = '*' :: tbl.name := by
      have := trimSpace_cons_join '*' rfl [tbl.name] (by simp) (by intro x hx; simp at hx; rw [hx]; exact hT.name)
      simpa [joinWith] using this
    refine ⟨⟨?_, htr, ⟨'*', rfl, by decide⟩⟩, notRoute _ _ (by decide)⟩
    intro hm
    rcases List.mem_cons.mp hm with e | hm
    · exact absurd e (by decide)
    · exact tok_nonl hT.name hm
  · subst hx
    have htoks : ∀ w ∈ c.name :: c.policy :: sfx, Tok w := by
      intro w hw
      rcases List.mem_cons.mp hw with e | hw
      · rw [e]; exact (hT.chains c hc).1
      · rcases List.mem_cons.mp hw with e | hw
        · rw [e]; exact (hT.chains c hc).2
        · exact hsfx w hw
    refine ⟨⟨?_, trimSpace_cons_join ':' rfl _ (by simp) htoks, ⟨':', rfl, by decide⟩⟩, notRoute _ _ (by decide)⟩
    intro hm
    rcases List.mem_cons.mp hm with e | hm
    · exact absurd e (by decide)
    · exact nonl_join _ htoks hm
  · subst hx
    have htoks := ruleLine_toks sp c.name r (hT.chains c hc).1 (hT.rules c hc r hr)
    have hsh := ruleText_shape c.name (wordsOf sp r)
    refine ⟨⟨by rw [ruleText]; exact nonl_join _ htoks, trimSpace_join _ (by simp) htoks, ⟨'-', by rw [hsh]; rfl, by decide⟩⟩, ?_⟩
    rw [hsh]; exact notRoute _ _ (by decide)
  · subst hx
    exact ⟨⟨by decide, by decide, ⟨'C', rfl, by decide⟩⟩, by decide⟩

/-- **`ParseConfig` on the whole target file.**  A target file consisting of route lines (each clean and
starting with `ip route`; `parseRoutes` reads them to `b`) followed by the text of a rule set inside
the class is read to exactly `{ routes := b, iptables := mkTables userOpts a }`. -/
theorem parseConfig_target (cfg : KCfg) (a : AState) (h : AStateOK cfg a) (rl : List Str) (b : List Route)
    (hrl : ∀ x ∈ rl, LineOK x ∧ isRouteLine x = true) (hb : parseRoutes rl = .ok b) :
    parseConfig (unlines (rl ++ userText a)) = .ok { routes := b, iptables := mkTables userOpts a } := by
  have hU := stateOK_of cfg a h userOpts (spell_user cfg)
  have hut : ∀ x ∈ userText a, LineOK x ∧ isRouteLine x = false := by
    intro x hx
    rw [userText_eq] at hx
    obtain ⟨tbl, htbl, hx⟩ := List.mem_flatMap.mp hx
    exact blockLines_ok [] (by simp) userOpts tbl (hU.tables tbl htbl) x hx
  rw [parseConfig_lines _ (by
    intro x hx
    rcases List.mem_append.mp hx with h1 | h1
    · exact (hrl x h1).1
    · exact (hut x h1).1)]
  have f1 : (rl ++ userText a).filter isRouteLine = rl := by
    rw [List.filter_append, List.filter_eq_self.mpr (fun x hx => (hrl x hx).2),
      List.filter_eq_nil_iff.mpr (fun x hx => by simp [(hut x hx).2]), List.append_nil]
  have f2 : ((rl ++ userText a).filter fun l => !isRouteLine l) = userText a := by
    rw [List.filter_append, List.filter_eq_nil_iff.mpr (fun x hx => by simp [(hrl x hx).2]),
      List.filter_eq_self.mpr (fun x hx => by simp [(hut x hx).2]), List.nil_append]
  have hp : parseIPTables (userText a) = .ok (mkTables userOpts a) := by
    have := parse_file [] (by simp) userOpts a hU [] [] (by simp) (by simp)
    rw [userText_eq]; simpa using this
  simp only [f1, f2, hb, hp, bind, Except.bind, pure, Except.pure]

/-- **The second compare on the device path, from the raw texts.**  The target FILE text (route lines
+ rule set text), the device's `iptables-save` and `ip route show` outputs: `compareDevice` reads all
three and finds no route command and no iptables difference when the device holds the target. -/
theorem compareDevice_unchanged (cfg : KCfg) (a : AState) (h : AStateOK cfg a) (l : List RouteEntry)
    (hl : ∀ e ∈ l, e.ok) (rl : List Str) (b : List Route)
    (hrl : ∀ x ∈ rl, LineOK x ∧ isRouteLine x = true) (hb : parseRoutes rl = .ok b)
    (hk : ∀ k, k ∈ l.map RouteEntry.key ↔ k ∈ keys b) :
    ∃ ch, compareDevice (unlines (saveText cfg (sortS a))) (unlines (l.map RouteEntry.show))
        (unlines (rl ++ userText a)) = .ok ch ∧ ch.routes = [] ∧ ch.ipt = .same := by
  obtain ⟨dc, hdc, h1, h2⟩ := device_compare_unchanged cfg a h l hl b hk
  refine ⟨_, ?_, h1, h2⟩
  simp only [compareDevice, hdc, parseConfig_target cfg a h rl b hrl hb, bind, Except.bind, pure, Except.pure]

end NA.C05
