import NA.Proofs.C05Round
/-!
C05: from options to rules — lookups in the parsed option map of a rule whose option keys are
distinct, the entries of its normal form, and the options the kernel prints.
-/
namespace NA.C05
open NA.Linux NA.Linux.Spec

/-! ### lookups in `pairsOf` -/

theorem getA_pairsOf (k : Str) : ∀ (l : List OptW) (acc : Pairs), ((l.map fun o => (pkv o).1).Nodup) →
    getA k (pairsOf l acc) =
      match l.find? (fun o => (pkv o).1 = k) with
      | some o => some (pkv o).2
      | none => getA k acc := by
  intro l
  induction l with
  | nil => intro acc _; rfl
  | cons o os ih =>
    intro acc hnd
    simp only [List.map_cons, List.nodup_cons] at hnd
    simp only [pairsOf, List.foldl_cons] at ih ⊢
    rw [ih _ hnd.2]
    by_cases hk : (pkv o).1 = k
    · have hnone : os.find? (fun o => decide ((pkv o).1 = k)) = none := by
        apply List.find?_eq_none.mpr
        intro x hx hc
        simp only [decide_eq_true_eq] at hc
        exact hnd.1 (by rw [hk, ← hc]; exact List.mem_map_of_mem (f := fun o => (pkv o).1) hx)
      simp [hnone, List.find?_cons, hk, getA_setA]
    · simp only [List.find?_cons, hk, decide_false]
      cases os.find? (fun o => decide ((pkv o).1 = k)) with
      | some x => rfl
      | none => simp [getA_setA, hk]

theorem nodup_map_inj {α β : Type} (f : α → β) : ∀ (l : List α), (l.map f).Nodup →
    ∀ a ∈ l, ∀ b ∈ l, f a = f b → a = b := by
  intro l
  induction l with
  | nil => intro _ a ha; simp at ha
  | cons x xs ih =>
    intro hnd a ha b hb hab
    simp only [List.map_cons, List.nodup_cons] at hnd
    rcases List.mem_cons.mp ha with e1 | h1 <;> rcases List.mem_cons.mp hb with e2 | h2
    · rw [e1, e2]
    · subst e1; exact absurd (by rw [hab]; exact List.mem_map_of_mem h2) hnd.1
    · subst e2; exact absurd (by rw [← hab]; exact List.mem_map_of_mem h1) hnd.1
    · exact ih hnd.2 a h1 b h2 hab

/-- With distinct keys, the parsed map holds exactly the entries of the options. -/
theorem getA_pairsOf_iff (l : List OptW) (hnd : (l.map fun o => (pkv o).1).Nodup) (k v : Str) :
    getA k (pairsOf l []) = some v ↔ ∃ o ∈ l, pkv o = (k, v) := by
  rw [getA_pairsOf k l [] hnd]
  constructor
  · intro h
    cases hf : l.find? (fun o => decide ((pkv o).1 = k)) with
    | none => simp [hf, getA] at h
    | some o =>
      simp only [hf, Option.some.injEq] at h
      have h1 := List.mem_of_find?_eq_some hf
      have h2 := List.find?_some hf
      simp only [decide_eq_true_eq] at h2
      exact ⟨o, h1, by rw [← h2, ← h]⟩
  · rintro ⟨o, ho, he⟩
    cases hf : l.find? (fun o => decide ((pkv o).1 = k)) with
    | none =>
      have := List.find?_eq_none.mp hf o ho
      simp [he] at this
    | some o' =>
      have h1 := List.mem_of_find?_eq_some hf
      have h2 := List.find?_some hf
      simp only [decide_eq_true_eq] at h2
      have : o' = o := nodup_map_inj _ l hnd o' h1 o ho (by rw [h2, he])
      simp [this, he]

/-! ### the entries of the normal form -/

theorem normalize_entries (p : Pairs) (hside : xConv p = none ∨ getA kMark p = none) (k' v' : Str) :
    getA k' (normalize p) = some v' ↔
      ∃ k v, getA k p = some v ∧ nEntry (mDrop p) (k, v) = some (k', v') := by
  rw [getA_normalize]
  cases hx : xConv p with
  | none =>
    have hnx : ∀ v, getA kXmark p = some v → xConvV v = false := by
      intro v hv
      unfold xConv at hx
      rw [hv] at hx
      by_cases hc : xConvV v = true
      · simp [hc] at hx
      · simpa using hc
    simp only
    constructor
    · intro h
      by_cases hd : k' = kM ∧ mDrop p = true
      · simp [hd] at h
      · rw [if_neg hd] at h
        cases hg : getA k' p with
        | none => simp [hg] at h
        | some v =>
          simp only [hg, Option.map_some, Option.some.injEq] at h
          refine ⟨k', v, hg, ?_⟩
          unfold nEntry
          rw [if_neg hd]
          by_cases hxk : k' = kXmark
          · rw [if_neg (by intro hc; rw [hnx v (hxk ▸ hg)] at hc; exact absurd hc.2 (by simp)), h]
          · rw [if_neg (fun hc => hxk hc.1), h]
    · rintro ⟨k, v, hg, hn⟩
      unfold nEntry at hn
      by_cases hd : k = kM ∧ mDrop p = true
      · rw [if_pos hd] at hn; exact absurd hn (by simp)
      · rw [if_neg hd] at hn
        by_cases hxk : k = kXmark ∧ xConvV v = true
        · exact absurd (hnx v (hxk.1 ▸ hg)) (by simp [hxk.2])
        · rw [if_neg hxk] at hn
          simp only [Option.some.injEq, Prod.mk.injEq] at hn
          obtain ⟨e1, e2⟩ := hn
          subst e1
          rw [if_neg hd, hg]; simp [e2]
  | some xv =>
    have hmk : getA kMark p = none := by
      rcases hside with h | h
      · rw [hx] at h; exact absurd h (by simp)
      · exact h
    have hxg : getA kXmark p = some xv ∧ xConvV xv = true := by
      unfold xConv at hx
      cases hg : getA kXmark p with
      | none => simp [hg] at hx
      | some w =>
        simp only [hg] at hx
        by_cases hc : xConvV w = true
        · simp only [hc, ↓reduceIte, Option.some.injEq] at hx; subst hx; exact ⟨rfl, hc⟩
        · simp [hc] at hx
    simp only
    constructor
    · intro h
      by_cases h1 : k' = kMark
      · rw [if_pos h1] at h
        simp only [Option.map_some, Option.some.injEq] at h
        refine ⟨kXmark, xv, hxg.1, ?_⟩
        unfold nEntry
        rw [if_neg (fun hc => kX_ne_kM hc.1), if_pos ⟨rfl, hxg.2⟩, h1, ← h, h1]
      · rw [if_neg h1] at h
        by_cases h2 : k' = kXmark
        · rw [if_pos h2] at h; exact absurd h (by simp)
        · rw [if_neg h2] at h
          by_cases hd : k' = kM ∧ mDrop p = true
          · simp [hd] at h
          · rw [if_neg hd] at h
            cases hg : getA k' p with
            | none => simp [hg] at h
            | some v =>
              simp only [hg, Option.map_some, Option.some.injEq] at h
              refine ⟨k', v, hg, ?_⟩
              unfold nEntry
              rw [if_neg hd, if_neg (fun hc => h2 hc.1), h]
    · rintro ⟨k, v, hg, hn⟩
      unfold nEntry at hn
      by_cases hd : k = kM ∧ mDrop p = true
      · rw [if_pos hd] at hn; exact absurd hn (by simp)
      · rw [if_neg hd] at hn
        by_cases hxk : k = kXmark ∧ xConvV v = true
        · rw [if_pos hxk] at hn
          simp only [Option.some.injEq, Prod.mk.injEq] at hn
          have : v = xv := by
            have := hxg.1; rw [← hxk.1, hg] at this; exact Option.some.inj this
          rw [if_pos hn.1.symm, ← hn.2, this, ← hn.1]; rfl
        · rw [if_neg hxk] at hn
          simp only [Option.some.injEq, Prod.mk.injEq] at hn
          obtain ⟨e1, e2⟩ := hn
          subst e1
          have h1 : ¬ k = kMark := by
            intro e; rw [e, hmk] at hg; exact absurd hg (by simp)
          have h2 : ¬ k = kXmark := by
            intro e
            apply hxk
            refine ⟨e, ?_⟩
            have := hxg.1; rw [← e, hg] at this
            rw [Option.some.inj this]; exact hxg.2
          rw [if_neg h1, if_neg h2, if_neg hd, hg]; simp [e2]

/-! ### the options the kernel prints -/

theorem mem_byRank (l : List AOpt) (a : AOpt) : a ∈ byRank l ↔ a ∈ l := (isort_perm _ l).mem_iff

theorem isPM_of_class {pn : Option Str} {a : AOpt}
    (h : a.isHead = true ∨ a.isProtoMatch = true ∨ a.isTarget = true) : isPM pn a = false := by
  cases a <;> simp_all [AOpt.isHead, AOpt.isProtoMatch, AOpt.isTarget, isPM]

theorem class_exclusive (a : AOpt) :
    (a.isHead = true → a.isProtoMatch = false ∧ a.isTarget = false) ∧
    (a.isProtoMatch = true → a.isTarget = false) := by
  cases a <;> simp [AOpt.isHead, AOpt.isProtoMatch, AOpt.isTarget]

/-- Membership in the kernel's option list. -/
theorem mem_kernelOpts (cfg : KCfg) (r : ARule) (o : OptW) :
    o ∈ kernelOpts cfg r ↔
      (∃ a ∈ r, isPM (protoOf cfg r) a = false ∧ o = a.kernel cfg) ∨
      (∃ p, protoOf cfg r = some p ∧ r.any (inPG (protoOf cfg r)) = true ∧ o = ⟨.no, s "-m", [p]⟩) := by
  have hparts : o ∈ kernelOpts cfg r ↔
      (∃ a ∈ r, a.isHead = true ∧ o = a.kernel cfg) ∨
      ((∃ p, protoOf cfg r = some p ∧ r.any (inPG (protoOf cfg r)) = true ∧ o = ⟨.no, s "-m", [p]⟩) ∨
       (∃ a ∈ r, a.isProtoMatch = true ∧ o = a.kernel cfg)) ∨
      (∃ a ∈ r, inOG (protoOf cfg r) a = true ∧ o = a.kernel cfg) ∨
      (∃ a ∈ r, a.isTarget = true ∧ o = a.kernel cfg) := by
    have hm : ∀ (q : AOpt → Bool), o ∈ (byRank (r.filter q)).map (AOpt.kernel cfg) ↔
        ∃ a ∈ r, q a = true ∧ o = a.kernel cfg := by
      intro q
      simp only [List.mem_map, mem_byRank, List.mem_filter]
      constructor
      · rintro ⟨a, ⟨h1, h2⟩, h3⟩; exact ⟨a, h1, h2, h3.symm⟩
      · rintro ⟨a, h1, h2, h3⟩; exact ⟨a, ⟨h1, h2⟩, h3.symm⟩
    have hmo : o ∈ (r.filter (inOG (protoOf cfg r))).map (AOpt.kernel cfg) ↔
        ∃ a ∈ r, inOG (protoOf cfg r) a = true ∧ o = a.kernel cfg := by
      simp only [List.mem_map, List.mem_filter]
      constructor
      · rintro ⟨a, ⟨h1, h2⟩, h3⟩; exact ⟨a, h1, h2, h3.symm⟩
      · rintro ⟨a, h1, h2, h3⟩; exact ⟨a, ⟨h1, h2⟩, h3.symm⟩
    have hpg : o ∈ protoGroup (protoOf cfg r) (r.any (inPG (protoOf cfg r)))
          ((byRank (r.filter AOpt.isProtoMatch)).map (AOpt.kernel cfg)) ↔
        ((∃ p, protoOf cfg r = some p ∧ r.any (inPG (protoOf cfg r)) = true ∧ o = ⟨.no, s "-m", [p]⟩) ∨
         (∃ a ∈ r, a.isProtoMatch = true ∧ o = a.kernel cfg)) := by
      unfold protoGroup
      cases hp : protoOf cfg r with
      | none => simp only [hm]; simp
      | some p =>
        by_cases hany : r.any (inPG (some p)) = true
        · simp only [hany, ↓reduceIte, List.mem_cons, hm]
          constructor
          · rintro (h | h)
            · left; exact ⟨p, rfl, trivial, h⟩
            · right; exact h
          · rintro (⟨p', hp', _, h⟩ | h)
            · left; rw [h]; injection hp' with hp'; rw [hp']
            · right; exact h
        · simp only [hany, Bool.false_eq_true, ↓reduceIte, hm]
          constructor
          · intro h; right; exact h
          · rintro (⟨_, _, hc, _⟩ | h)
            · exact absurd hc (by simp)
            · exact h
    unfold kernelOpts
    simp only [List.mem_append]
    rw [hm AOpt.isHead, hm AOpt.isTarget]
    by_cases hf : (List.findIdx (inPG (protoOf cfg r)) r ≤ List.findIdx (inOG (protoOf cfg r)) r)
    · simp only [hf, decide_true, ↓reduceIte, List.mem_append]
      rw [hpg, hmo]
      constructor
      · rintro ((h | h | h) | h)
        · left; exact h
        · right; left; exact h
        · right; right; left; exact h
        · right; right; right; exact h
      · rintro (h | h | h | h)
        · left; left; exact h
        · left; right; left; exact h
        · left; right; right; exact h
        · right; exact h
    · simp only [hf, decide_false, Bool.false_eq_true, ↓reduceIte, List.mem_append]
      rw [hpg, hmo]
      constructor
      · rintro ((h | h | h) | h)
        · left; exact h
        · right; right; left; exact h
        · right; left; exact h
        · right; right; right; exact h
      · rintro (h | h | h | h)
        · left; left; exact h
        · left; right; right; exact h
        · left; right; left; exact h
        · right; exact h
  rw [hparts]
  constructor
  · rintro (⟨a, ha, hc, he⟩ | (h | ⟨a, ha, hc, he⟩) | ⟨a, ha, hc, he⟩ | ⟨a, ha, hc, he⟩)
    · left; exact ⟨a, ha, isPM_of_class (Or.inl hc), he⟩
    · right; exact h
    · left; exact ⟨a, ha, isPM_of_class (Or.inr (Or.inl hc)), he⟩
    · left
      refine ⟨a, ha, ?_, he⟩
      simp only [inOG, inPG, Bool.and_eq_true, Bool.not_eq_eq_eq_not, Bool.not_true, Bool.or_eq_false_iff] at hc
      exact hc.2.2
    · left; exact ⟨a, ha, isPM_of_class (Or.inr (Or.inr hc)), he⟩
  · rintro (⟨a, ha, hc, he⟩ | h)
    · by_cases h1 : a.isHead = true
      · left; exact ⟨a, ha, h1, he⟩
      · by_cases h2 : a.isProtoMatch = true
        · right; left; right; exact ⟨a, ha, h2, he⟩
        · by_cases h3 : a.isTarget = true
          · right; right; right; exact ⟨a, ha, h3, he⟩
          · right; right; left
            refine ⟨a, ha, ?_, he⟩
            simp only [Bool.not_eq_true] at h1 h2 h3
            simp [inOG, inPG, h1, h2, h3, hc]
    · right; left; left; exact h

end NA.C05
