import NA.Proofs.C03Sim
import NA.Proofs.C03Members
/-
C03, whole-vsys theorems, part 2: executing the member-list requests of one list of one rule on
the strict device.  The device's list is the planner's list up to order (the planner sorts its
own copy), so everything is stated up to `SameMem`.  Core Lean only.
-/
namespace NA.PanOs

theorem SameMem.filter_ne {l l' : List String} (h : SameMem l l') (m : String) :
    SameMem (l.filter (· != m)) (l'.filter (· != m)) := by
  intro x
  simp only [List.mem_filter]
  rw [h x]

theorem SameMem.merge {l l' : List String} (h : SameMem l l') (ms : List String) :
    SameMem (mergeMembers l ms) (mergeMembers l' ms) := by
  intro x
  rw [mem_mergeMembers, mem_mergeMembers, h x]

/-- Member operations respect "same members". -/
theorem runMem_sameMem : ∀ (ops : List MemOp) (l l' r : List String), SameMem l l' →
    runMem l ops = some r → ∃ r', runMem l' ops = some r' ∧ SameMem r r' := by
  intro ops
  induction ops with
  | nil => intro l l' r h hr; simp only [runMem, Option.some.injEq] at hr; subst hr; exact ⟨l', rfl, h⟩
  | cons o ops ih =>
    intro l l' r h hr
    simp only [runMem] at hr ⊢
    cases o with
    | del m =>
      simp only [applyMem] at hr ⊢
      split at hr
      · rename_i hc
        have hc' : l'.contains m = true := by
          have : m ∈ l := by simpa using hc
          simpa using (h m).mp this
        simp only [hc', if_true, Option.bind_some] at hr ⊢
        exact ih _ _ r (h.filter_ne m) hr
      · simp at hr
    | add ms =>
      simp only [applyMem, Option.bind_some] at hr ⊢
      exact ih _ _ r (h.merge ms) hr
    | edit ms =>
      simp only [applyMem, Option.bind_some] at hr ⊢
      exact ih _ _ r (SameMem.refl ms) hr

/-- All requests address member list `f` of rule `n`. -/
def OnField (n : String) (f : Fld) (cs : List Cmd) : Prop :=
  ∀ c ∈ cs, (∃ m, c = .delMem n f m) ∨ (∃ ms, c = .addMem n f ms) ∨ (∃ ms, c = .editList n f ms)

/-- Members that the requests bring in. -/
def addedBy : Cmd → List String
  | .addMem _ _ ms => ms
  | .editList _ _ ms => ms
  | .setRule r => r.src ++ r.dst ++ r.srv
  | _ => []

theorem Rule.get_set_same (r : Rule) (f : Fld) (l : List String) : (r.set f l).get f = l := by
  cases f <;> rfl

theorem Rule.set_set (r : Rule) (f : Fld) (l l' : List String) : (r.set f l).set f l' = r.set f l' := by
  cases f <;> rfl

theorem Rule.set_get (r : Rule) (f : Fld) : r.set f (r.get f) = r := by
  cases f <;> rfl

/-- **One list of one rule.**  If the member operations are applicable to the rule's current
list and every member brought in resolves, the strict device accepts all requests; afterwards
the rule has the computed list in that field, and nothing else has changed. -/
theorem runs_onField (sh : Shared) (n : String) (f : Fld) :
    ∀ (cs : List Cmd) (v : Vsys) (r0 : Rule) (l' : List String), OnField n f cs →
      findRule v.rules n = some r0 →
      runMem (r0.get f) (cs.filterMap memOf) = some l' →
      (∀ c ∈ cs, ∀ m ∈ addedBy c, refOk sh v f m = true) →
      ∃ w, Runs sh v cs w ∧ findRule w.rules n = some (r0.set f l') ∧
        (∀ m, m ≠ n → findRule w.rules m = findRule v.rules m) ∧
        w.addrs = v.addrs ∧ w.svcs = v.svcs ∧ w.groups = v.groups ∧ w.sgroups = v.sgroups ∧ w.name = v.name := by
  intro cs
  induction cs with
  | nil =>
    intro v r0 l' _ hf hr _
    simp only [List.filterMap_nil, runMem, Option.some.injEq] at hr
    subst hr
    exact ⟨v, Runs.nil sh v, by rw [hf, Rule.set_get], fun _ _ => rfl, rfl, rfl, rfl, rfl, rfl⟩
  | cons c cs ih =>
    intro v r0 l' hon hf hr href
    have hc := hon c (by simp)
    have hon' : OnField n f cs := fun c' hc' => hon c' (List.mem_cons_of_mem _ hc')
    -- what is common to the three kinds of request
    have tail : ∀ (v1 : Vsys) (l1 : List String) (op : MemOp), exec sh v c = .ok v1 → memOf c = some op →
        applyMem (r0.get f) op = some l1 → c.onRules = true →
        (∀ m, m ≠ n → ∀ x, ruleEffect c m x = x) → ruleEffect c n (some r0) = some (r0.set f l1) →
        ∃ w, Runs sh v (c :: cs) w ∧ findRule w.rules n = some (r0.set f l') ∧
          (∀ m, m ≠ n → findRule w.rules m = findRule v.rules m) ∧
          w.addrs = v.addrs ∧ w.svcs = v.svcs ∧ w.groups = v.groups ∧ w.sgroups = v.sgroups ∧ w.name = v.name := by
      intro v1 l1 op hv1 hmem happ hrules hother hself
      have hf1 : findRule v1.rules n = some (r0.set f l1) := by
        rw [exec_findRule hv1 n, hf, hself]
      obtain ⟨s1, s2, s3, s4, s5⟩ := exec_onRules_static hv1 hrules
      have hr' : runMem ((r0.set f l1).get f) (cs.filterMap memOf) = some l' := by
        simp only [List.filterMap_cons, hmem, runMem, happ, Option.bind_some] at hr
        rw [Rule.get_set_same]
        exact hr
      obtain ⟨w, hw, hfw, hoth, t1, t2, t3, t4, t5⟩ := ih v1 (r0.set f l1) l' hon' hf1 hr' (by
        intro c' hc' m hm
        rw [refOk_congr sh s1 s2 s3 s4]
        exact href c' (List.mem_cons_of_mem _ hc') m hm)
      refine ⟨w, Runs.cons hv1 hw, by rw [hfw, Rule.set_set], ?_, t1.trans s1, t2.trans s2, t3.trans s3,
        t4.trans s4, t5.trans s5⟩
      intro m hm
      rw [hoth m hm, exec_findRule hv1 m, hother m hm]
    have hne : ∀ m, m ≠ n → (m == n) = false := fun m hm => by simpa using hm
    rcases hc with ⟨m, rfl⟩ | ⟨ms, rfl⟩ | ⟨ms, rfl⟩
    · have hcm : (r0.get f).contains m = true := by
        simp only [List.filterMap_cons, memOf, runMem, applyMem] at hr
        split at hr
        · assumption
        · simp at hr
      obtain ⟨v1, hv1⟩ := exec_delMem_ok sh v n f m r0 hf (by simpa using hcm)
      exact tail v1 ((r0.get f).filter (· != m)) (.del m) hv1 rfl (by simp only [applyMem, hcm, if_true]) rfl
        (fun m' hm' x => by simp [ruleEffect, hne m' hm']) (by simp [ruleEffect])
    · obtain ⟨v1, hv1⟩ := exec_addMem_ok sh v n f ms (by simp [hf])
        (fun m hm => href (.addMem n f ms) (by simp) m (by simpa [addedBy] using hm))
      exact tail v1 _ (.add ms) hv1 rfl rfl rfl
        (fun m' hm' x => by simp [ruleEffect, hne m' hm']) (by simp [ruleEffect])
    · obtain ⟨v1, hv1⟩ := exec_editList_ok sh v n f ms (by simp [hf])
        (fun m hm => href (.editList n f ms) (by simp) m (by simpa [addedBy] using hm))
      exact tail v1 _ (.edit ms) hv1 rfl rfl rfl
        (fun m' hm' x => by simp [ruleEffect, hne m' hm']) (by simp [ruleEffect])

end NA.PanOs
