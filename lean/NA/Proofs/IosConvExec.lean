import NA.Proofs.IosConvPlan
/-!
Helpers for the convergence of the IOS planner, part 3b: executing the plan on the strict
device.  The device list is `numbered M μ` throughout; every command sets or clears one bit.
-/
namespace NA.Acl

/-! ### Lookup of deleted lines -/

theorem getD_cons_succ' (c : Cell) (M : List Cell) (i : Nat) :
    (c :: M).getD (i + 1) default = M.getD i default := by simp

theorem sel_mkey_mem (sel : Cell → Bool) (M : List Cell) (i : Nat) (hi : i < M.length)
    (hs : sel (M.getD i default) = true) :
    (M.getD i default).line.mkey ∈ (((M.filter sel).map (·.line)).map (·.mkey)) := by
  have : M.getD i default = M[i] := by simp [hi]
  rw [this] at hs ⊢
  simp only [List.map_map, List.mem_map, List.mem_filter]
  exact ⟨M[i], ⟨List.getElem_mem _, hs⟩, rfl⟩

theorem sel_mkey_inj (sel : Cell → Bool) (M : List Cell)
    (h : (((M.filter sel).map (·.line)).map (·.mkey)).Nodup) {i i' : Nat}
    (hi : i < M.length) (hi' : i' < M.length)
    (hs : sel (M.getD i default) = true) (hs' : sel (M.getD i' default) = true)
    (hm : (M.getD i default).line.mkey = (M.getD i' default).line.mkey) : i = i' := by
  induction M generalizing i i' with
  | nil => simp at hi
  | cons c M ih =>
    have htail : (((M.filter sel).map (·.line)).map (·.mkey)).Nodup := by
      simp only [List.filter_cons] at h
      split at h
      · exact (List.nodup_cons.mp h).2
      · exact h
    cases i with
    | zero =>
      cases i' with
      | zero => rfl
      | succ i' =>
        exfalso
        have hc : sel c = true := by simpa using hs
        rw [getD_cons_succ'] at hs' hm
        simp only [List.filter_cons, hc, if_true, List.map_cons] at h
        have := (List.nodup_cons.mp h).1
        apply this
        have hmem := sel_mkey_mem sel M i' (by simpa using hi') hs'
        simp only [List.getD_cons_zero] at hm
        rw [hm]; exact hmem
    | succ i =>
      cases i' with
      | zero =>
        exfalso
        have hc : sel c = true := by simpa using hs'
        rw [getD_cons_succ'] at hs hm
        simp only [List.filter_cons, hc, if_true, List.map_cons] at h
        have := (List.nodup_cons.mp h).1
        apply this
        have hmem := sel_mkey_mem sel M i (by simpa using hi) hs
        simp only [List.getD_cons_zero] at hm
        rw [← hm]; exact hmem
      | succ i' =>
        rw [getD_cons_succ'] at hs hs' hm
        rw [getD_cons_succ'] at hm
        have := ih htail (by simpa using hi) (by simpa using hi') hs hs' hm
        omega

theorem old_mkey_inj (M : List Cell) (h : ((olds M).map (·.mkey)).Nodup) {i i' : Nat}
    (hi : i < M.length) (hi' : i' < M.length)
    (hs : (M.getD i default).old = true) (hs' : (M.getD i' default).old = true)
    (hm : (M.getD i default).line.mkey = (M.getD i' default).line.mkey) : i = i' :=
  sel_mkey_inj (·.old) M h hi hi' hs hs' hm

theorem new_mkey_inj (M : List Cell) (h : ((news M).map (·.mkey)).Nodup) {i i' : Nat}
    (hi : i < M.length) (hi' : i' < M.length)
    (hs : (M.getD i default).new = true) (hs' : (M.getD i' default).new = true)
    (hm : (M.getD i default).line.mkey = (M.getD i' default).line.mkey) : i = i' :=
  sel_mkey_inj (·.new) M h hi hi' hs hs' hm

theorem countOld_lt (M : List Cell) {i i' : Nat} (h : i < i') (hi : i < M.length)
    (ho : (M.getD i default).old = true) : countOld M i < countOld M i' := by
  have h1 := countOld_succ M i hi
  have h2 := countOld_mono M (i := i + 1) (j := i') (by omega)
  rw [if_pos ho] at h1
  omega

theorem countOld_inj (M : List Cell) {i i' : Nat} (hi : i < M.length) (hi' : i' < M.length)
    (ho : (M.getD i default).old = true) (ho' : (M.getD i' default).old = true)
    (h : countOld M i = countOld M i') : i = i' := by
  rcases Nat.lt_trichotomy i i' with hlt | heq | hgt
  · have := countOld_lt M hlt hi ho; omega
  · exact heq
  · have := countOld_lt M hgt hi' ho'; omega

theorem delLookup_someI {M : List Cell} {mk i : Nat} (h : delLookup M mk = some i) :
    i ∈ delIdx M ∧ (M.getD i default).line.mkey = mk := by
  unfold delLookup at h
  have := List.mem_of_getLast? h
  simp only [List.mem_filter, beq_iff_eq] at this
  exact this

theorem delLookup_noneI {M : List Cell} {mk : Nat} (h : delLookup M mk = none) :
    ∀ i ∈ delIdx M, (M.getD i default).line.mkey ≠ mk := by
  unfold delLookup at h
  rw [List.getLast?_eq_none_iff] at h
  intro i hi hm
  have : i ∈ (delIdx M).filter fun i => (M.getD i default).line.mkey == mk :=
    List.mem_filter.mpr ⟨hi, by simp only [hm, beq_self_eq_true]⟩
  rw [h] at this
  simp at this

theorem delLookup_of (M : List Cell) (hn : ((olds M).map (·.mkey)).Nodup) {i : Nat}
    (hi : i ∈ delIdx M) : delLookup M (M.getD i default).line.mkey = some i := by
  cases h : delLookup M (M.getD i default).line.mkey with
  | none => exact absurd rfl (delLookup_noneI h i hi)
  | some i' =>
    obtain ⟨h1, h2⟩ := delLookup_someI h
    obtain ⟨hl, ho⟩ := mem_delIdxI.mp hi
    obtain ⟨hl', ho'⟩ := mem_delIdxI.mp h1
    simp only [Cell.oldOnly, Bool.and_eq_true] at ho ho'
    rw [old_mkey_inj M hn hl' hl ho'.1 ho.1 h2]

/-- Distinct inserted lines look up distinct deleted lines. -/
theorem lookups_nodup (M : List Cell) (hnn : ((news M).map (·.mkey)).Nodup) :
    (((addIdx M).map (newItem M)).filterMap (lookupI M)).Nodup := by
  rw [List.filterMap_map, List.nodup_iff_pairwise_ne]
  have hnd : (addIdx M).Pairwise (· ≠ ·) := by
    rw [← List.nodup_iff_pairwise_ne]
    exact List.Nodup.sublist List.filter_sublist List.nodup_range
  rw [List.pairwise_filterMap]
  refine List.Pairwise.imp_of_mem ?_ hnd
  intro j j' hj hj' hne b hb b' hb' hbb
  apply hne
  simp only [Function.comp, lookupI, newItem, iosDelLookup, Option.map_eq_some_iff] at hb hb'
  obtain ⟨d, hd, rfl⟩ := hb
  obtain ⟨d', hd', hcd⟩ := hb'
  obtain ⟨h1, h2⟩ := delLookup_someI hd
  obtain ⟨h1', h2'⟩ := delLookup_someI hd'
  obtain ⟨hl, ho⟩ := mem_delIdxI.mp h1
  obtain ⟨hl', ho'⟩ := mem_delIdxI.mp h1'
  simp only [Cell.oldOnly, Bool.and_eq_true] at ho ho'
  have hdd : d' = d := countOld_inj M hl' hl ho'.1 ho.1 (by rw [hcd, hbb])
  subst hdd
  obtain ⟨hjl, hjn⟩ := mem_addIdxI.mp hj
  obtain ⟨hjl', hjn'⟩ := mem_addIdxI.mp hj'
  simp only [Cell.newOnly, Bool.and_eq_true] at hjn hjn'
  exact new_mkey_inj M hnn hjl hjl' hjn.1 hjn'.1 (by rw [← h2, ← h2'])

/-! ### Executing single commands on `numbered M μ` -/

def iosExec (s : IosAcl) (ops : List IOp) : Option IosAcl := ops.foldlM iosExec1 s

theorem iosExec_append (s : IosAcl) (a b : List IOp) :
    iosExec s (a ++ b) = (iosExec s a).bind fun s' => iosExec s' b := by
  simp [iosExec, List.foldlM_append]

theorem iosExec_cons (s : IosAcl) (op : IOp) (ops : List IOp) :
    iosExec s (op :: ops) = (iosExec1 s op).bind fun s' => iosExec s' ops := by
  simp [iosExec, List.foldlM_cons]

/-- The fold and the trace of the specification agree. -/
theorem iosExec_trace (s s' : IosAcl) (ops : List IOp) (h : iosExec s ops = some s') :
    ∃ tr, iosTrace s ops = some tr ∧ (s :: tr).getLast? = some s' := by
  induction ops generalizing s with
  | nil => simp [iosExec] at h; exact ⟨[], rfl, by simp [h]⟩
  | cons op ops ih =>
    rw [iosExec_cons] at h
    cases h1 : iosExec1 s op with
    | none => simp [h1] at h
    | some s1 =>
      simp only [h1, Option.bind_some] at h
      obtain ⟨tr, ht, hl⟩ := ih s1 h
      refine ⟨s1 :: tr, by simp [iosTrace, h1, ht], ?_⟩
      rw [List.getLast?_cons_cons]; exact hl

theorem getD_set (μ : List Bool) (j i : Nat) (v : Bool) :
    (μ.set j v).getD i false = if j = i ∧ j < μ.length then v else μ.getD i false := by
  simp only [List.getD_eq_getElem?_getD, List.getElem?_set]
  by_cases h : j = i
  · subst h
    by_cases h2 : j < μ.length
    · simp [h2]
    · simp [h2]
  · simp [h]

theorem sorted_ne (L : IosAcl) (hs : SortedNum L) {i j : Nat} (hi : i < L.length) (hj : j < L.length)
    (h : i ≠ j) : L[i].1 ≠ L[j].1 := by
  have := List.pairwise_iff_getElem.mp hs
  rcases Nat.lt_or_gt_of_ne h with hlt | hgt
  · have := this i j hi hj hlt; omega
  · have := this j i hj hi hgt; omega

theorem exec_add (M : List Cell) (hs : SortedNum (allNum M)) (μ : List Bool)
    (hl : μ.length = M.length) (j : Nat) (hj : j < M.length) (hf : μ.getD j false = false)
    (hfresh : ∀ i, i < M.length → μ.getD i false = true →
      (M.getD i default).line.mkey ≠ (M.getD j default).line.mkey) :
    iosAdd (numbered M μ) (numOf M j) (M.getD j default).line = some (numbered M (μ.set j true)) := by
  have hj' : j < (allNum M).length := by rw [allNum_length]; exact hj
  have h1 : (numbered M μ).any (fun e => e.1 == numOf M j) = false := by
    rw [List.any_eq_false]
    intro e he
    obtain ⟨i, hi, hm, rfl⟩ := (pick_mem_iff _ _ _).mp he
    have hij : i ≠ j := by intro h; subst h; rw [hf] at hm; exact Bool.noConfusion hm
    have := sorted_ne _ hs hi hj' hij
    rw [allNum_getElem M j hj'] at this
    simpa using this
  have h2 : (numbered M μ).any (fun e => e.2.mkey == (M.getD j default).line.mkey) = false := by
    rw [List.any_eq_false]
    intro e he
    obtain ⟨i, hi, hm, rfl⟩ := (pick_mem_iff _ _ _).mp he
    rw [allNum_getElem M i hi]
    have := hfresh i (by rw [← allNum_length]; exact hi) hm
    simpa using this
  unfold iosAdd
  rw [h1, h2]
  simp only [Bool.or_self, Bool.false_eq_true, if_false, Option.some.injEq]
  have := pick_insert (allNum M) hs μ j hj' (by rw [allNum_length]; exact hl) hf
  rw [allNum_getElem M j hj'] at this
  exact this

theorem exec_del (M : List Cell) (hs : SortedNum (allNum M)) (μ : List Bool)
    (hl : μ.length = M.length) (j : Nat) (hj : j < M.length) (ht : μ.getD j false = true) :
    iosDel (numbered M μ) (numOf M j) = some (numbered M (μ.set j false)) := by
  have hj' : j < (allNum M).length := by rw [allNum_length]; exact hj
  have h1 : (numbered M μ).any (fun e => e.1 == numOf M j) = true := by
    rw [List.any_eq_true]
    refine ⟨(allNum M)[j], (pick_mem_iff _ _ _).mpr ⟨j, hj', ht, rfl⟩, ?_⟩
    rw [allNum_getElem M j hj']; simp
  unfold iosDel
  rw [h1]
  simp only [if_true, Option.some.injEq]
  have := pick_delete (allNum M) hs μ j hj' (by rw [allNum_length]; exact hl)
  rw [allNum_getElem M j hj'] at this
  exact this

/-! ### The mask invariant -/

attribute [-simp] List.getD_eq_getElem?_getD

/-- `J`: new-only cells already inserted; `K`: old-only cells already deleted (by a move or a
delete).  Pins the mask down completely. -/
structure MInv (M : List Cell) (J K : List Nat) (μ : List Bool) : Prop where
  len : μ.length = M.length
  jsub : ∀ j ∈ J, j ∈ addIdx M
  both : ∀ i, i < M.length → (M.getD i default).both = true → μ.getD i false = true
  newO : ∀ i, i ∈ addIdx M → (μ.getD i false = true ↔ i ∈ J)
  oldO : ∀ i, i ∈ delIdx M → (μ.getD i false = false ↔
    (i ∈ K ∨ ∃ j ∈ J, (M.getD j default).line.mkey = (M.getD i default).line.mkey))

theorem oldMask_getDI (M : List Cell) (i : Nat) (hi : i < M.length) :
    (oldMask M).getD i false = (M.getD i default).old := by
  simp [oldMask, hi, List.getD_eq_getElem?_getD]

theorem newMask_getDI (M : List Cell) (i : Nat) (hi : i < M.length) :
    (newMask M).getD i false = (M.getD i default).new := by
  simp [newMask, hi, List.getD_eq_getElem?_getD]

theorem minv_init (M : List Cell) : MInv M [] [] (oldMask M) where
  len := by simp [oldMask]
  jsub := by simp
  both := by
    intro i hi hb
    rw [oldMask_getDI M i hi]
    simp [Cell.both] at hb; exact hb.1
  newO := by
    intro i hi
    obtain ⟨hl, hn⟩ := mem_addIdxI.mp hi
    rw [oldMask_getDI M i hl]
    simp [Cell.newOnly] at hn
    simp [hn.2]
  oldO := by
    intro i hi
    obtain ⟨hl, ho⟩ := mem_delIdxI.mp hi
    rw [oldMask_getDI M i hl]
    simp [Cell.oldOnly] at ho
    simp [ho.1]

theorem add_del_ne {M : List Cell} {j i : Nat} (hj : j ∈ addIdx M) (hi : i ∈ delIdx M) : j ≠ i := by
  intro h; subst h
  have h1 := (mem_addIdxI.mp hj).2
  have h2 := (mem_delIdxI.mp hi).2
  simp [Cell.newOnly, Cell.oldOnly] at h1 h2
  rw [h1.2] at h2; exact Bool.noConfusion h2.1

theorem minv_add {M : List Cell} {J K : List Nat} {μ : List Bool} (h : MInv M J K μ) {j : Nat}
    (hj : j ∈ addIdx M)
    (hk : ∀ i ∈ delIdx M, (M.getD i default).line.mkey = (M.getD j default).line.mkey → i ∈ K) :
    MInv M (j :: J) K (μ.set j true) where
  len := by simp [h.len]
  jsub := by
    intro j' hj'
    rcases List.mem_cons.mp hj' with rfl | h'
    · exact hj
    · exact h.jsub _ h'
  both := by
    intro i hi hb
    rw [getD_set]
    split
    · rfl
    · exact h.both i hi hb
  newO := by
    intro i hi
    rw [getD_set, List.mem_cons]
    have hjl : j < μ.length := by rw [h.len]; exact (mem_addIdxI.mp hj).1
    by_cases hij : j = i
    · subst hij; simp only [hjl, and_self, if_true, true_or]
    · have : i ≠ j := fun e => hij e.symm
      simp only [hij, false_and, if_false, this, false_or]; exact h.newO i hi
  oldO := by
    intro i hi
    have hij : j ≠ i := add_del_ne hj hi
    rw [getD_set]
    simp only [hij, false_and, if_false]
    rw [h.oldO i hi]
    constructor
    · rintro (h1 | ⟨j', hj', hm⟩)
      · exact Or.inl h1
      · exact Or.inr ⟨j', List.mem_cons_of_mem _ hj', hm⟩
    · rintro (h1 | ⟨j', hj', hm⟩)
      · exact Or.inl h1
      · rcases List.mem_cons.mp hj' with rfl | hj''
        · exact Or.inl (hk i hi hm.symm)
        · exact Or.inr ⟨j', hj'', hm⟩

theorem minv_del {M : List Cell} {J K : List Nat} {μ : List Bool} (h : MInv M J K μ) {d : Nat}
    (hd : d ∈ delIdx M) : MInv M J (d :: K) (μ.set d false) where
  len := by simp [h.len]
  jsub := h.jsub
  both := by
    intro i hi hb
    rw [getD_set]
    have : d ≠ i := by
      intro e; subst e
      have h2 := (mem_delIdxI.mp hd).2
      simp [Cell.oldOnly, Cell.both] at h2 hb
      rw [hb.2] at h2; exact Bool.noConfusion h2.2
    simp only [this, false_and, if_false]
    exact h.both i hi hb
  newO := by
    intro i hi
    rw [getD_set]
    have : d ≠ i := fun e => add_del_ne hi hd e.symm
    simp only [this, false_and, if_false]
    exact h.newO i hi
  oldO := by
    intro i hi
    have hdl : d < μ.length := by rw [h.len]; exact (mem_delIdxI.mp hd).1
    rw [getD_set, List.mem_cons]
    by_cases hdi : d = i
    · subst hdi; simp [hdl]
    · have : i ≠ d := fun e => hdi e.symm
      simp only [hdi, false_and, if_false, h.oldO i hi, this, false_or]

/-- A present line that clashes (same `mkey`) with a not yet inserted new-only line can only be
an old-only line. -/
theorem minv_clash {M : List Cell} {J K : List Nat} {μ : List Bool} (h : MInv M J K μ)
    (hnn : ((news M).map (·.mkey)).Nodup) (hjunk : noJunk M = true) {j : Nat}
    (hj : j ∈ addIdx M) (hjJ : j ∉ J) {i : Nat} (hi : i < M.length) (hm : μ.getD i false = true)
    (hk : (M.getD i default).line.mkey = (M.getD j default).line.mkey) : i ∈ delIdx M := by
  obtain ⟨hjl, hjn⟩ := mem_addIdxI.mp hj
  simp only [Cell.newOnly, Bool.and_eq_true] at hjn
  by_cases hn : (M.getD i default).new = true
  · exfalso
    have hij : i = j := new_mkey_inj M hnn hi hjl hn hjn.1 hk
    subst hij
    exact hjJ ((h.newO i hj).mp hm)
  · have hc : M.getD i default = M[i] := by simp [hi, List.getD_eq_getElem?_getD]
    have := (List.all_eq_true.mp hjunk) M[i] (List.getElem_mem _)
    rw [← hc] at this
    refine mem_delIdxI.mpr ⟨hi, ?_⟩
    simp only [Bool.not_eq_true] at hn
    simp [hn] at this
    simp [Cell.oldOnly, hn, this]

/-! ### The two phases -/

/-- What the planner sends for new-only cell `j` if no move is suppressed. -/
def cellOps (M : List Cell) (j : Nat) : List IOp := itemOps M (newItem M j, false)

theorem numOf_old (M : List Cell) (i : Nat) (ho : (M.getD i default).old = true) :
    numOf M i = (countOld M i + 1) * 10000 := by simp [numOf, ho]

/-- Suppressed: the planner's flag is set and there is a deleted line to move. -/
def supprAt (M : List Cell) (g : Nat → Bool) (j : Nat) : Bool :=
  g j && (delLookup M (M.getD j default).line.mkey).isSome

/-- What the planner sends for new-only cell `j` under suppression flags `g`. -/
def cellOpsG (M : List Cell) (g : Nat → Bool) (j : Nat) : List IOp := itemOps M (newItem M j, g j)

theorem add_phaseI (M : List Cell) (hs : SortedNum (allNum M))
    (hno : ((olds M).map (·.mkey)).Nodup) (hnn : ((news M).map (·.mkey)).Nodup)
    (hjunk : noJunk M = true) (g : Nat → Bool)
    (js : List Nat) (hjs : ∀ j ∈ js, j ∈ addIdx M) (hnd : js.Nodup)
    (J K : List Nat) (μ : List Bool) (h : MInv M J K μ) (hdisj : ∀ j ∈ js, j ∉ J)
    (hK : ∀ d ∈ K, ∃ j ∈ J, (M.getD j default).line.mkey = (M.getD d default).line.mkey) :
    ∃ μ' K', iosExec (numbered M μ) (js.flatMap (cellOpsG M g)) = some (numbered M μ') ∧
      MInv M ((js.filter fun j => !supprAt M g j).reverse ++ J) K' μ' ∧
      (∀ d ∈ K', ∃ j ∈ (js.filter fun j => !supprAt M g j).reverse ++ J,
        (M.getD j default).line.mkey = (M.getD d default).line.mkey) := by
  induction js generalizing J K μ with
  | nil => exact ⟨μ, K, by simp [iosExec], by simpa using h, by simpa using hK⟩
  | cons j js ih =>
    have hj : j ∈ addIdx M := hjs j List.mem_cons_self
    have hjJ : j ∉ J := hdisj j List.mem_cons_self
    obtain ⟨hjl, hjn⟩ := mem_addIdxI.mp hj
    obtain ⟨hjjs, hnd'⟩ := List.nodup_cons.mp hnd
    have hjs' : ∀ j' ∈ js, j' ∈ addIdx M := fun j' hj' => hjs j' (List.mem_cons_of_mem _ hj')
    have hdisj0 : ∀ j' ∈ js, j' ∉ J := fun j' hj' => hdisj j' (List.mem_cons_of_mem _ hj')
    have hdisj' : ∀ j' ∈ js, j' ∉ j :: J := by
      intro j' hj' hmem
      rcases List.mem_cons.mp hmem with rfl | hmem
      · exact hjjs hj'
      · exact hdisj0 j' hj' hmem
    have hrev : ∀ (hsup : supprAt M g j = false),
        ((j :: js).filter fun j => !supprAt M g j).reverse ++ J =
          (js.filter fun j => !supprAt M g j).reverse ++ (j :: J) := by
      intro hsup; simp [hsup]
    rw [List.flatMap_cons, iosExec_append]
    have hfj : μ.getD j false = false := by
      cases hv : μ.getD j false with
      | false => rfl
      | true => exact absurd ((h.newO j hj).mp hv) hjJ
    cases hl : delLookup M (M.getD j default).line.mkey with
    | none =>
      have hsup : supprAt M g j = false := by simp [supprAt, hl]
      rw [hrev hsup]
      have hops : cellOpsG M g j = [IOp.add (numOf M j) (M.getD j default).line] := by
        simp [cellOpsG, itemOps, newItem, iosDelLookup, hl]
      have hex := exec_add M hs μ h.len j hjl hfj (by
        intro i hi hm hk
        exact delLookup_noneI hl i (minv_clash h hnn hjunk hj hjJ hi hm hk) hk)
      have hinv : MInv M (j :: J) K (μ.set j true) :=
        minv_add h hj (fun i hi hk => absurd hk (delLookup_noneI hl i hi))
      rw [hops]
      simp only [iosExec, List.foldlM_cons, List.foldlM_nil, iosExec1, hex, bind_pure, Option.bind_some]
      exact ih hjs' hnd' (j :: J) K _ hinv hdisj' (by
        intro d hd
        obtain ⟨j', hj', hm⟩ := hK d hd
        exact ⟨j', List.mem_cons_of_mem _ hj', hm⟩)
    | some d =>
      cases hg : g j with
      | true =>
        have hsup : supprAt M g j = true := by simp [supprAt, hl, hg]
        have hops : cellOpsG M g j = [] := by
          simp [cellOpsG, itemOps, newItem, iosDelLookup, hl, hg]
        have hfil : ((j :: js).filter fun j => !supprAt M g j) = js.filter fun j => !supprAt M g j := by
          simp [hsup]
        rw [hops, hfil]
        simp only [iosExec, List.foldlM_nil, Option.bind_some, pure]
        exact ih hjs' hnd' J K μ h hdisj0 hK
      | false =>
      have hsup : supprAt M g j = false := by simp [supprAt, hg]
      rw [hrev hsup]
      obtain ⟨hd, hdm⟩ := delLookup_someI hl
      obtain ⟨hdl, hdo⟩ := mem_delIdxI.mp hd
      simp only [Cell.oldOnly, Bool.and_eq_true] at hdo
      have hops : cellOpsG M g j = [IOp.move (numOf M d) (numOf M j) (M.getD j default).line] := by
        simp [cellOpsG, itemOps, newItem, iosDelLookup, hl, hg, numOf_old M d hdo.1]
      have huniq : ∀ i ∈ delIdx M,
          (M.getD i default).line.mkey = (M.getD j default).line.mkey → i = d := by
        intro i hi hk
        have := delLookup_of M hno hi
        rw [hk, hl] at this
        exact (Option.some.inj this).symm
      have htd : μ.getD d false = true := by
        cases hv : μ.getD d false with
        | true => rfl
        | false =>
          exfalso
          have hex : ∃ j' ∈ J, (M.getD j' default).line.mkey = (M.getD d default).line.mkey := by
            rcases (h.oldO d hd).mp hv with hk | hk
            · exact hK d hk
            · exact hk
          obtain ⟨j', hj', hm⟩ := hex
          obtain ⟨hjl', hjn'⟩ := mem_addIdxI.mp (h.jsub j' hj')
          simp only [Cell.newOnly, Bool.and_eq_true] at hjn hjn'
          have := new_mkey_inj M hnn hjl' hjl hjn'.1 hjn.1 (by rw [hm, hdm])
          subst this
          exact hjJ hj'
      have hex1 := exec_del M hs μ h.len d hdl htd
      have hinv1 : MInv M J (d :: K) (μ.set d false) := minv_del h hd
      have hfj1 : (μ.set d false).getD j false = false := by
        cases hv : (μ.set d false).getD j false with
        | false => rfl
        | true => exact absurd ((hinv1.newO j hj).mp hv) hjJ
      have hex2 := exec_add M hs (μ.set d false) hinv1.len j hjl hfj1 (by
        intro i hi hm hk
        have hi' := minv_clash hinv1 hnn hjunk hj hjJ hi hm hk
        have := huniq i hi' hk
        subst this
        have := (hinv1.oldO i hi').mpr (Or.inl List.mem_cons_self)
        rw [this] at hm
        exact Bool.noConfusion hm)
      have hinv2 : MInv M (j :: J) (d :: K) ((μ.set d false).set j true) :=
        minv_add hinv1 hj (fun i hi hk => by rw [huniq i hi hk]; exact List.mem_cons_self)
      rw [hops]
      simp only [iosExec, List.foldlM_cons, List.foldlM_nil, iosExec1, hex1, hex2, bind_pure,
        Option.bind_some]
      exact ih hjs' hnd' (j :: J) (d :: K) _ hinv2 hdisj' (by
        intro d' hd'
        rcases List.mem_cons.mp hd' with rfl | hd'
        · exact ⟨j, List.mem_cons_self, hdm.symm⟩
        · obtain ⟨j', hj', hm⟩ := hK d' hd'
          exact ⟨j', List.mem_cons_of_mem _ hj', hm⟩)

theorem del_phaseI (M : List Cell) (hs : SortedNum (allNum M)) (is : List Nat)
    (his : ∀ i ∈ is, i ∈ delIdx M) (hnd : is.Nodup) (J K : List Nat) (μ : List Bool)
    (h : MInv M J K μ) (htrue : ∀ i ∈ is, μ.getD i false = true) :
    ∃ μ', iosExec (numbered M μ) (is.map fun i => IOp.del (numOf M i)) = some (numbered M μ') ∧
      MInv M J (is.reverse ++ K) μ' := by
  induction is generalizing K μ with
  | nil => exact ⟨μ, by simp [iosExec], by simpa using h⟩
  | cons i is ih =>
    have hi := his i List.mem_cons_self
    obtain ⟨hiis, hnd'⟩ := List.nodup_cons.mp hnd
    have hex := exec_del M hs μ h.len i (mem_delIdxI.mp hi).1 (htrue i List.mem_cons_self)
    have hinv := minv_del (K := K) h hi
    have hrev : (i :: is).reverse ++ K = is.reverse ++ (i :: K) := by simp
    rw [hrev, List.map_cons, iosExec_cons]
    simp only [iosExec1, hex, Option.bind_some]
    apply ih (fun i' hi' => his i' (List.mem_cons_of_mem _ hi')) hnd' _ _ hinv
    intro i' hi'
    rw [getD_set]
    have : i ≠ i' := by intro e; subst e; exact hiis hi'
    simp only [this, false_and, if_false]
    exact htrue i' (List.mem_cons_of_mem _ hi')

/-- The device list at the end: the target, except that the line of every suppressed move
(`S`: the new-only cells whose move was suppressed) still sits at its old position. -/
def finalMask (M : List Cell) (S : List Nat) : List Bool :=
  (List.range M.length).map fun i =>
    if (M.getD i default).new then (M.getD i default).old || !S.contains i
    else (M.getD i default).old &&
      S.any fun j => (M.getD j default).line.mkey == (M.getD i default).line.mkey

theorem finalMask_getD (M : List Cell) (S : List Nat) (i : Nat) (hi : i < M.length) :
    (finalMask M S).getD i false =
      if (M.getD i default).new then (M.getD i default).old || !S.contains i
      else (M.getD i default).old &&
        S.any fun j => (M.getD j default).line.mkey == (M.getD i default).line.mkey := by
  simp [finalMask, hi, List.getD_eq_getElem?_getD]

theorem finalMask_nil (M : List Cell) : finalMask M [] = newMask M := by
  apply List.ext_getElem
  · simp [finalMask, newMask]
  · intro i h1 h2
    simp only [finalMask, newMask, List.getElem_map, List.getElem_range]
    have hi : i < M.length := by simpa [finalMask] using h1
    have hc : M.getD i default = M[i] := by simp [hi, List.getD_eq_getElem?_getD]
    rw [hc]
    cases M[i].new <;> simp

theorem minv_final {M : List Cell} {J K : List Nat} {μ : List Bool} (h : MInv M J K μ)
    (hjunk : noJunk M = true) (S : List Nat) (hJ : ∀ j ∈ addIdx M, (j ∈ J ↔ j ∉ S))
    (hK : ∀ i ∈ delIdx M, ((i ∈ K ∨
      ∃ j ∈ J, (M.getD j default).line.mkey = (M.getD i default).line.mkey) ↔
      ¬ ∃ j ∈ S, (M.getD j default).line.mkey = (M.getD i default).line.mkey)) :
    μ = finalMask M S := by
  apply List.ext_getElem
  · simp [finalMask, h.len]
  · intro i h1 h2
    have hi : i < M.length := by rw [← h.len]; exact h1
    have e1 : μ[i] = μ.getD i false := by simp [List.getD_eq_getElem?_getD, h1]
    have e2 : (finalMask M S)[i] = (finalMask M S).getD i false := by
      simp [List.getD_eq_getElem?_getD, h2]
    rw [e1, e2, finalMask_getD M S i hi]
    have hc : M.getD i default = M[i] := by simp [hi, List.getD_eq_getElem?_getD]
    have hj := (List.all_eq_true.mp hjunk) M[i] (List.getElem_mem _)
    rw [← hc] at hj
    cases ho : (M.getD i default).old <;> cases hn : (M.getD i default).new
    · simp [ho, hn] at hj
    · have hmem : i ∈ addIdx M := mem_addIdxI.mpr ⟨hi, by simp [Cell.newOnly, ho, hn]⟩
      simp only [if_true, Bool.false_or]
      rw [Bool.eq_iff_iff, h.newO i hmem, hJ i hmem]
      simp
    · have hmem : i ∈ delIdx M := mem_delIdxI.mpr ⟨hi, by simp [Cell.oldOnly, ho, hn]⟩
      simp only [Bool.false_eq_true, if_false, Bool.true_and]
      have h3 := (h.oldO i hmem).trans (hK i hmem)
      have h4 : (S.any fun j => (M.getD j default).line.mkey == (M.getD i default).line.mkey) = true ↔
          ∃ j ∈ S, (M.getD j default).line.mkey = (M.getD i default).line.mkey := by
        simp [List.any_eq_true]
      cases hv : μ.getD i false with
      | false =>
        have := h3.mp hv
        rw [← h4] at this
        simpa using this
      | true =>
        symm
        rw [h4]
        apply Classical.byContradiction
        intro hcon
        have := h3.mpr hcon
        rw [hv] at this
        exact Bool.noConfusion this
    · simp only [if_true, Bool.true_or]
      exact h.both i hi (by simp [Cell.both, ho, hn])

/-! ### The resequenced device list -/

def reseqFrom (k : Nat) : List Line → IosAcl
  | [] => []
  | l :: ls => ((k + 1) * 10000, l) :: reseqFrom (k + 1) ls

theorem iosReseq_eq_aux (s : IosAcl) (a : Nat) :
    ((List.range' a s.length).zip s).map (fun (x : Nat × Nat × Line) => (10000 + x.1 * 10000, x.2.2)) =
      reseqFrom a (iosLines s) := by
  induction s generalizing a with
  | nil => rfl
  | cons e s ih =>
    simp only [List.length_cons, List.range'_succ, List.zip_cons_cons, List.map_cons, iosLines,
      reseqFrom]
    rw [ih (a + 1)]
    simp [iosLines, Nat.succ_mul, Nat.add_comm]

theorem iosReseq_eq (dev : IosAcl) : iosReseq dev 10000 10000 = reseqFrom 0 (iosLines dev) := by
  rw [← iosReseq_eq_aux dev 0, iosReseq, List.range_eq_range']

def allNumFrom (pre M : List Cell) : IosAcl :=
  (List.range' pre.length M.length).map fun i =>
    (numOf (pre ++ M) i, ((pre ++ M).getD i default).line)

theorem numbered_old_aux (pre M : List Cell) :
    pick (allNumFrom pre M) (oldMask M) = reseqFrom (countOld (pre ++ M) pre.length) (olds M) := by
  induction M generalizing pre with
  | nil => simp [allNumFrom, oldMask, pick, olds, reseqFrom]
  | cons c M ih =>
    have hget : (pre ++ c :: M).getD pre.length default = c := by
      simp [List.getD_eq_getElem?_getD]
    have hlen : pre.length < (pre ++ c :: M).length := by simp
    have ih' := ih (pre ++ [c])
    have happ : pre ++ [c] ++ M = pre ++ c :: M := by simp
    simp only [allNumFrom, happ, List.length_append, List.length_cons, List.length_nil,
      Nat.zero_add] at ih'
    rw [countOld_succ _ _ hlen, hget] at ih'
    simp only [allNumFrom, List.length_cons, List.range'_succ, List.map_cons, hget, oldMask]
    rw [olds_cons]
    cases ho : c.old with
    | true =>
      simp only [ho, if_true, pick, reseqFrom] at ih' ⊢
      rw [← ih']
      simp [numOf, hget, ho, oldMask]
    | false =>
      simp only [ho, Bool.false_eq_true, if_false, pick, Nat.add_zero] at ih' ⊢
      rw [← ih']
      simp [oldMask]

theorem numbered_oldMask (M : List Cell) : numbered M (oldMask M) = reseqFrom 0 (olds M) := by
  have := numbered_old_aux [] M
  simp only [List.nil_append, List.length_nil] at this
  have h0 : countOld M 0 = 0 := by simp [countOld]
  rw [h0] at this
  rw [← this, numbered, allNum, allNumFrom, List.range_eq_range']
  simp

/-- The device after `ip access-list resequence NAME 10000 10000`. -/
theorem reseq_numbered (M : List Cell) (dev : IosAcl) (hdev : iosLines dev = olds M) :
    iosReseq dev 10000 10000 = numbered M (oldMask M) := by
  rw [iosReseq_eq, hdev, numbered_oldMask]

/-! ### Plans without suppressed moves -/

def IOp.isAddMove : IOp → Bool
  | .add _ _ => true
  | .move _ _ _ => true
  | _ => false

def movedOf (M : List Cell) : List Nat := ((addIdx M).map (newItem M)).filterMap (lookupI M)

def delsOf (M : List Cell) : List IOp :=
  (((delIdx M).map (countOld M)).reverse.filter fun ai => !(movedOf M).contains ai).map
    fun ai => IOp.del ((ai + 1) * 10000)

theorem itemOps_length_le (M : List Cell) (x : Item × Bool) : (itemOps M x).length ≤ 1 := by
  unfold itemOps
  split
  · simp
  · split <;> simp

theorem zipOps_filter_le (M : List Cell) (L : List Item) (flags : List Bool) :
    (((L.zip flags).flatMap (itemOps M)).filter IOp.isAddMove).length ≤ L.length := by
  induction L generalizing flags with
  | nil => simp
  | cons it L ih =>
    cases flags with
    | nil => simp
    | cons f flags =>
      simp only [List.zip_cons_cons, List.flatMap_cons, List.filter_append, List.length_append,
        List.length_cons]
      have h1 := itemOps_length_le M (it, f)
      have h2 := List.length_filter_le IOp.isAddMove (itemOps M (it, f))
      have := ih flags
      omega

/-- If the plan holds an `add` or `move` for every inserted line, no flag mattered. -/
theorem flags_irrelevant (M : List Cell) (L : List Item) (flags : List Bool)
    (hlen : flags.length = L.length)
    (hc : (((L.zip flags).flatMap (itemOps M)).filter IOp.isAddMove).length = L.length) :
    (L.zip flags).flatMap (itemOps M) = L.flatMap fun it => itemOps M (it, false) := by
  induction L generalizing flags with
  | nil => simp
  | cons it L ih =>
    cases flags with
    | nil => simp at hlen
    | cons f flags =>
      simp only [List.zip_cons_cons, List.flatMap_cons, List.filter_append, List.length_append,
        List.length_cons] at hc ⊢
      have h1 := itemOps_length_le M (it, f)
      have h2 := List.length_filter_le IOp.isAddMove (itemOps M (it, f))
      have h3 := zipOps_filter_le M L flags
      have hrest := ih flags (by simpa using hlen) (by omega)
      rw [hrest]
      congr 1
      have hne : (itemOps M (it, f)).length = 1 := by omega
      cases hl : iosDelLookup M it.2.mkey with
      | none => simp [itemOps, hl]
      | some ai =>
        cases f with
        | false => rfl
        | true => simp [itemOps, hl] at hne

theorem delsOf_filter (M : List Cell) : (delsOf M).filter IOp.isAddMove = [] := by
  rw [List.filter_eq_nil_iff]
  intro a ha
  simp only [delsOf, List.mem_map] at ha
  obtain ⟨i, _, rfl⟩ := ha
  simp [IOp.isAddMove]

/-- The plan when every inserted line got its command. -/
theorem plan_no_suppr (M : List Cell) (hboth : (M.any fun c => c.old && c.new) = true)
    (hnn : ((news M).map (·.mkey)).Nodup)
    (hcount : ((planIOS M).filter IOp.isAddMove).length = (addIdx M).length) :
    planIOS M = (addIdx M).flatMap (cellOps M) ++ delsOf M := by
  obtain ⟨flags, hlen, hplan⟩ := planIOS_shape M hboth (lookups_nodup M hnn)
  have hplan' : planIOS M =
      (((addIdx M).map (newItem M)).zip flags).flatMap (itemOps M) ++ delsOf M := hplan
  rw [hplan', List.filter_append, delsOf_filter, List.append_nil] at hcount
  rw [hplan', flags_irrelevant M _ flags (by simpa using hlen) (by simpa using hcount),
    List.flatMap_map]
  rfl

theorem flatMap_congr' {α β : Type} {l : List α} {f g : α → List β} (h : ∀ x ∈ l, f x = g x) :
    l.flatMap f = l.flatMap g := by
  induction l with
  | nil => rfl
  | cons a l ih =>
    simp only [List.flatMap_cons]
    rw [h a List.mem_cons_self, ih fun x hx => h x (List.mem_cons_of_mem _ hx)]

/-- Without any move (no deleted line has the `mkey` of an inserted line) nothing can be suppressed. -/
theorem plan_no_moves (M : List Cell) (hboth : (M.any fun c => c.old && c.new) = true)
    (hnn : ((news M).map (·.mkey)).Nodup)
    (hnm : ∀ i ∈ delIdx M, ∀ j ∈ addIdx M,
      (M.getD i default).line.mkey ≠ (M.getD j default).line.mkey) :
    planIOS M = (addIdx M).flatMap (cellOps M) ++ delsOf M := by
  obtain ⟨flags, hlen, hplan⟩ := planIOS_shape M hboth (lookups_nodup M hnn)
  have hplan' : planIOS M =
      (((addIdx M).map (newItem M)).zip flags).flatMap (itemOps M) ++ delsOf M := hplan
  rw [hplan']
  congr 1
  have hnone : ∀ j ∈ addIdx M, iosDelLookup M (M.getD j default).line.mkey = none := by
    intro j hj
    cases h : delLookup M (M.getD j default).line.mkey with
    | none => simp [iosDelLookup, h]
    | some d =>
      obtain ⟨h1, h2⟩ := delLookup_someI h
      exact absurd h2 (hnm d h1 j hj)
  have h1 : ∀ x ∈ ((addIdx M).map (newItem M)).zip flags, itemOps M x = itemOps M (x.1, false) := by
    intro x hx
    have := (List.of_mem_zip hx).1
    obtain ⟨j, hj, hjx⟩ := List.mem_map.mp this
    obtain ⟨x1, x2⟩ := x
    simp only at hjx
    subst hjx
    simp [itemOps, newItem, hnone j hj]
  rw [flatMap_congr' h1]
  have h2 : (((addIdx M).map (newItem M)).zip flags).flatMap (fun x => itemOps M (x.1, false)) =
      ((((addIdx M).map (newItem M)).zip flags).map Prod.fst).flatMap
        (fun it => itemOps M (it, false)) := by
    rw [List.flatMap_map]
  rw [h2, List.map_fst_zip (by simp [hlen]), List.flatMap_map]
  rfl

/-! ### Convergence of a plan in which no move is suppressed -/

theorem mem_movedOf {M : List Cell} {ai : Nat} :
    ai ∈ movedOf M ↔ ∃ j ∈ addIdx M, iosDelLookup M (M.getD j default).line.mkey = some ai := by
  simp [movedOf, List.mem_filterMap, lookupI, newItem]

theorem delsOf_eq (M : List Cell) :
    delsOf M = ((delIdx M).reverse.filter fun i => !(movedOf M).contains (countOld M i)).map
      fun i => IOp.del (numOf M i) := by
  unfold delsOf
  rw [← List.map_reverse, List.filter_map, List.map_map]
  apply List.map_congr_left
  intro i hi
  have hi' : i ∈ delIdx M := by
    have := (List.mem_filter.mp hi).1
    exact List.mem_reverse.mp this
  have ho := (mem_delIdxI.mp hi').2
  simp only [Cell.oldOnly, Bool.and_eq_true] at ho
  simp [numOf_old M i ho.1]

/-- For any suppression flags `g`: executing "adds / unsuppressed moves top-down, then the
remaining deletes bottom-up" on the resequenced device is accepted command by command and ends in
the target with the lines of the suppressed moves left at their old positions. -/
theorem exec_general (M : List Cell) (hjunk : noJunk M = true) (hruns : runsShort M)
    (hno : ((olds M).map (·.mkey)).Nodup) (hnn : ((news M).map (·.mkey)).Nodup)
    (g : Nat → Bool) :
    iosExec (numbered M (oldMask M)) ((addIdx M).flatMap (cellOpsG M g) ++ delsOf M) =
      some (numbered M (finalMask M ((addIdx M).filter (supprAt M g)))) := by
  have hs := allNum_sorted M hjunk hruns
  have haddnd : (addIdx M).Nodup := List.Nodup.sublist List.filter_sublist List.nodup_range
  have hdelnd : (delIdx M).Nodup := List.Nodup.sublist List.filter_sublist List.nodup_range
  obtain ⟨μ1, K1, hex1, hinv1, hK1⟩ := add_phaseI M hs hno hnn hjunk g (addIdx M) (fun _ h => h)
    haddnd [] [] (oldMask M) (minv_init M) (by simp) (by simp)
  rw [iosExec_append, hex1, Option.bind_some, delsOf_eq]
  have hJmem : ∀ j, j ∈ ((addIdx M).filter fun j => !supprAt M g j).reverse ++ [] ↔
      (j ∈ addIdx M ∧ supprAt M g j = false) := by
    intro j; simp [List.mem_filter]
  -- an old-only cell is looked up iff an inserted cell has its mkey
  have hlook : ∀ i ∈ delIdx M, (countOld M i ∈ movedOf M ↔
      ∃ j ∈ addIdx M, (M.getD j default).line.mkey = (M.getD i default).line.mkey) := by
    intro i hi
    rw [mem_movedOf]
    constructor
    · rintro ⟨j, hj, hl⟩
      refine ⟨j, hj, ?_⟩
      simp only [iosDelLookup, Option.map_eq_some_iff] at hl
      obtain ⟨d, hd, hc⟩ := hl
      obtain ⟨h1, h2⟩ := delLookup_someI hd
      obtain ⟨hdl, hdo⟩ := mem_delIdxI.mp h1
      obtain ⟨hil, hio⟩ := mem_delIdxI.mp hi
      simp only [Cell.oldOnly, Bool.and_eq_true] at hdo hio
      have := countOld_inj M hdl hil hdo.1 hio.1 hc
      subst this
      exact h2.symm
    · rintro ⟨j, hj, hm⟩
      refine ⟨j, hj, ?_⟩
      have := delLookup_of M hno hi
      rw [← hm] at this
      simp [iosDelLookup, this]
  let is := (delIdx M).reverse.filter fun i => !(movedOf M).contains (countOld M i)
  have his : ∀ i ∈ is, i ∈ delIdx M := fun i hi => List.mem_reverse.mp (List.mem_filter.mp hi).1
  have hisnd : is.Nodup :=
    List.Nodup.sublist List.filter_sublist ((List.reverse_perm _).nodup_iff.mpr hdelnd)
  have hisnm : ∀ i ∈ is, countOld M i ∉ movedOf M := by
    intro i hi
    have := (List.mem_filter.mp hi).2
    simpa using this
  have htrue : ∀ i ∈ is, μ1.getD i false = true := by
    intro i hi
    cases hv : μ1.getD i false with
    | true => rfl
    | false =>
      exfalso
      apply hisnm i hi
      rw [hlook i (his i hi)]
      rcases (hinv1.oldO i (his i hi)).mp hv with hk | ⟨j, hj, hm⟩
      · obtain ⟨j, hj, hm⟩ := hK1 i hk
        exact ⟨j, ((hJmem j).mp hj).1, hm⟩
      · exact ⟨j, ((hJmem j).mp hj).1, hm⟩
  obtain ⟨μ2, hex2, hinv2⟩ := del_phaseI M hs is his hisnd _ K1 μ1 hinv1 htrue
  rw [hex2]
  congr 2
  apply minv_final hinv2 hjunk
  · intro j hj
    rw [hJmem]
    simp [List.mem_filter, hj]
  · intro i hi
    constructor
    · rintro hL ⟨j', hj', hm'⟩
      obtain ⟨hj'a, hj's⟩ := List.mem_filter.mp hj'
      have hex : ∃ j ∈ ((addIdx M).filter fun j => !supprAt M g j).reverse ++ [],
          (M.getD j default).line.mkey = (M.getD i default).line.mkey := by
        rcases hL with hL | hL
        · rcases List.mem_append.mp hL with hL | hL
          · exfalso
            apply hisnm i (List.mem_reverse.mp hL)
            rw [hlook i hi]
            exact ⟨j', hj'a, hm'⟩
          · exact hK1 i hL
        · exact hL
      obtain ⟨j, hj, hm⟩ := hex
      obtain ⟨hja, hjs⟩ := (hJmem j).mp hj
      obtain ⟨hjl, hjn⟩ := mem_addIdxI.mp hja
      obtain ⟨hjl', hjn'⟩ := mem_addIdxI.mp hj'a
      simp only [Cell.newOnly, Bool.and_eq_true] at hjn hjn'
      have := new_mkey_inj M hnn hjl hjl' hjn.1 hjn'.1 (by rw [hm, hm'])
      subst this
      rw [hjs] at hj's
      exact Bool.noConfusion hj's
    · intro hno'
      by_cases hm : countOld M i ∈ movedOf M
      · right
        obtain ⟨j, hj, hm'⟩ := (hlook i hi).mp hm
        refine ⟨j, (hJmem j).mpr ⟨hj, ?_⟩, hm'⟩
        cases hsj : supprAt M g j with
        | false => rfl
        | true => exact absurd ⟨j, List.mem_filter.mpr ⟨hj, hsj⟩, hm'⟩ hno'
      · left
        apply List.mem_append_left
        apply List.mem_reverse.mpr
        apply List.mem_filter.mpr
        exact ⟨List.mem_reverse.mpr hi, by simpa using hm⟩

/-- No suppression: exactly the target. -/
theorem exec_core (M : List Cell) (hjunk : noJunk M = true) (hruns : runsShort M)
    (hno : ((olds M).map (·.mkey)).Nodup) (hnn : ((news M).map (·.mkey)).Nodup) :
    iosExec (numbered M (oldMask M)) ((addIdx M).flatMap (cellOps M) ++ delsOf M) =
      some (numbered M (newMask M)) := by
  have := exec_general M hjunk hruns hno hnn (fun _ => false)
  have hS : (addIdx M).filter (supprAt M fun _ => false) = [] := by
    simp [List.filter_eq_nil_iff, supprAt]
  rw [hS, finalMask_nil] at this
  exact this

/-! ### The plan of every `M`, with its suppression flags as a function of the cell -/

theorem flags_as_fun (l : List Nat) (hnd : l.Nodup) (flags : List Bool) (hlen : flags.length = l.length) :
    ∃ g : Nat → Bool, flags = l.map g := by
  induction l generalizing flags with
  | nil => exact ⟨fun _ => false, by simpa using hlen⟩
  | cons a l ih =>
    cases flags with
    | nil => simp at hlen
    | cons f fs =>
      obtain ⟨ha, hnd'⟩ := List.nodup_cons.mp hnd
      obtain ⟨g', hg'⟩ := ih hnd' fs (by simpa using hlen)
      refine ⟨fun x => if x = a then f else g' x, ?_⟩
      simp only [List.map_cons, if_true, hg']
      congr 1
      apply List.map_congr_left
      intro x hx
      have : x ≠ a := by intro e; subst e; exact ha hx
      simp [this]

theorem plan_general (M : List Cell) (hboth : (M.any fun c => c.old && c.new) = true)
    (hnn : ((news M).map (·.mkey)).Nodup) :
    ∃ g : Nat → Bool, planIOS M = (addIdx M).flatMap (cellOpsG M g) ++ delsOf M := by
  obtain ⟨flags, hlen, hplan⟩ := planIOS_shape M hboth (lookups_nodup M hnn)
  have hplan' : planIOS M =
      (((addIdx M).map (newItem M)).zip flags).flatMap (itemOps M) ++ delsOf M := hplan
  have haddnd : (addIdx M).Nodup := List.Nodup.sublist List.filter_sublist List.nodup_range
  obtain ⟨g, hg⟩ := flags_as_fun (addIdx M) haddnd flags hlen
  refine ⟨g, ?_⟩
  rw [hplan', hg, List.zip_map', List.flatMap_map]
  rfl

end NA.Acl
