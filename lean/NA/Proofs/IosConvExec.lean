import NA.Proofs.IosConvPlan
/-!
Helpers for the convergence of the IOS planner, part 3b: executing the plan on the strict
device.  The device list is `numbered M μ` throughout; every command sets or clears one bit.
-/
namespace NA.Acl

/-! ### Lookup of deleted lines -/

theorem getD_cons_succ' (c : Cell) (M : List Cell) (i : Nat) :
    (c :: M).getD (i + 1) default = M.getD i default := by simp

theorem sel_mkey_mem (sel : Cell → Bool) (M : List Cell) (i : Nat) (hi : i < M.length)
    (hs : sel (M.getD i default) = true) :
    (M.getD i default).line.mkey ∈ (((M.filter sel).map (·.line)).map (·.mkey)) := by
  have : M.getD i default = M[i] := by simp [hi]
  rw [this] at hs ⊢
  simp only [List.map_map, List.mem_map, List.mem_filter]
  exact ⟨M[i], ⟨List.getElem_mem _, hs⟩, rfl⟩

theorem sel_mkey_inj (sel : Cell → Bool) (M : List Cell)
    (h : (((M.filter sel).map (·.line)).map (·.mkey)).Nodup) {i i' : Nat}
    (hi : i < M.length) (hi' : i' < M.length)
    (hs : sel (M.getD i default) = true) (hs' : sel (M.getD i' default) = true)
    (hm : (M.getD i default).line.mkey = (M.getD i' default).line.mkey) : i = i' := by
  induction M generalizing i i' with
  | nil => simp at hi
  | cons c M ih =>
    have htail : (((M.filter sel).map (·.line)).map (·.mkey)).Nodup := by
      simp only [List.filter_cons] at h
      split at h
      · exact (List.nodup_cons.mp h).2
      · exact h
    cases i with
    | zero =>
      cases i' with
      | zero => rfl
      | succ i' =>
        exfalso
        have hc : sel c = true := by simpa using hs
        rw [getD_cons_succ'] at hs' hm
        simp only [List.filter_cons, hc, if_true, List.map_cons] at h
        have := (List.nodup_cons.mp h).1
        apply this
        have hmem := sel_mkey_mem sel M i' (by simpa using hi') hs'
        simp only [List.getD_cons_zero] at hm
        rw [hm]; exact hmem
    | succ i =>
      cases i' with
      | zero =>
        exfalso
        have hc : sel c = true := by simpa using hs'
        rw [getD_cons_succ'] at hs hm
        simp only [List.filter_cons, hc, if_true, List.map_cons] at h
        have := (List.nodup_cons.mp h).1
        apply this
        have hmem := sel_mkey_mem sel M i (by simpa using hi) hs
        simp only [List.getD_cons_zero] at hm
        rw [← hm]; exact hmem
      | succ i' =>
        rw [getD_cons_succ'] at hs hs' hm
        rw [getD_cons_succ'] at hm
        have := ih htail (by simpa using hi) (by simpa using hi') hs hs' hm
        omega

theorem old_mkey_inj (M : List Cell) (h : ((olds M).map (·.mkey)).Nodup) {i i' : Nat}
    (hi : i < M.length) (hi' : i' < M.length)
    (hs : (M.getD i default).old = true) (hs' : (M.getD i' default).old = true)
    (hm : (M.getD i default).line.mkey = (M.getD i' default).line.mkey) : i = i' :=
  sel_mkey_inj (·.old) M h hi hi' hs hs' hm

theorem new_mkey_inj (M : List Cell) (h : ((news M).map (·.mkey)).Nodup) {i i' : Nat}
    (hi : i < M.length) (hi' : i' < M.length)
    (hs : (M.getD i default).new = true) (hs' : (M.getD i' default).new = true)
    (hm : (M.getD i default).line.mkey = (M.getD i' default).line.mkey) : i = i' :=
  sel_mkey_inj (·.new) M h hi hi' hs hs' hm

theorem countOld_lt (M : List Cell) {i i' : Nat} (h : i < i') (hi : i < M.length)
    (ho : (M.getD i default).old = true) : countOld M i < countOld M i' := by
  have h1 := countOld_succ M i hi
  have h2 := countOld_mono M (i := i + 1) (j := i') (by omega)
  rw [if_pos ho] at h1
  omega

theorem countOld_inj (M : List Cell) {i i' : Nat} (hi : i < M.length) (hi' : i' < M.length)
    (ho : (M.getD i default).old = true) (ho' : (M.getD i' default).old = true)
    (h : countOld M i = countOld M i') : i = i' := by
  rcases Nat.lt_trichotomy i i' with hlt | heq | hgt
  · have := countOld_lt M hlt hi ho; omega
  · exact heq
  · have := countOld_lt M hgt hi' ho'; omega

theorem delLookup_some {M : List Cell} {mk i : Nat} (h : delLookup M mk = some i) :
    i ∈ delIdx M ∧ (M.getD i default).line.mkey = mk := by
  unfold delLookup at h
  have := List.mem_of_getLast? h
  simp only [List.mem_filter, beq_iff_eq] at this
  exact this

theorem delLookup_none {M : List Cell} {mk : Nat} (h : delLookup M mk = none) :
    ∀ i ∈ delIdx M, (M.getD i default).line.mkey ≠ mk := by
  unfold delLookup at h
  rw [List.getLast?_eq_none_iff] at h
  intro i hi hm
  have : i ∈ (delIdx M).filter fun i => (M.getD i default).line.mkey == mk :=
    List.mem_filter.mpr ⟨hi, by simp only [hm, beq_self_eq_true]⟩
  rw [h] at this
  simp at this

theorem delLookup_of (M : List Cell) (hn : ((olds M).map (·.mkey)).Nodup) {i : Nat}
    (hi : i ∈ delIdx M) : delLookup M (M.getD i default).line.mkey = some i := by
  cases h : delLookup M (M.getD i default).line.mkey with
  | none => exact absurd rfl (delLookup_none h i hi)
  | some i' =>
    obtain ⟨h1, h2⟩ := delLookup_some h
    obtain ⟨hl, ho⟩ := mem_delIdx.mp hi
    obtain ⟨hl', ho'⟩ := mem_delIdx.mp h1
    simp only [Cell.oldOnly, Bool.and_eq_true] at ho ho'
    rw [old_mkey_inj M hn hl' hl ho'.1 ho.1 h2]

/-- Distinct inserted lines look up distinct deleted lines. -/
theorem lookups_nodup (M : List Cell) (hnn : ((news M).map (·.mkey)).Nodup) :
    (((addIdx M).map (newItem M)).filterMap (lookupI M)).Nodup := by
  rw [List.filterMap_map, List.nodup_iff_pairwise_ne]
  have hnd : (addIdx M).Pairwise (· ≠ ·) := by
    rw [← List.nodup_iff_pairwise_ne]
    exact List.Nodup.sublist List.filter_sublist List.nodup_range
  rw [List.pairwise_filterMap]
  refine List.Pairwise.imp_of_mem ?_ hnd
  intro j j' hj hj' hne b hb b' hb' hbb
  apply hne
  simp only [Function.comp, lookupI, newItem, iosDelLookup, Option.map_eq_some_iff] at hb hb'
  obtain ⟨d, hd, rfl⟩ := hb
  obtain ⟨d', hd', hcd⟩ := hb'
  obtain ⟨h1, h2⟩ := delLookup_some hd
  obtain ⟨h1', h2'⟩ := delLookup_some hd'
  obtain ⟨hl, ho⟩ := mem_delIdx.mp h1
  obtain ⟨hl', ho'⟩ := mem_delIdx.mp h1'
  simp only [Cell.oldOnly, Bool.and_eq_true] at ho ho'
  have hdd : d' = d := countOld_inj M hl' hl ho'.1 ho.1 (by rw [hcd, hbb])
  subst hdd
  obtain ⟨hjl, hjn⟩ := mem_addIdx.mp hj
  obtain ⟨hjl', hjn'⟩ := mem_addIdx.mp hj'
  simp only [Cell.newOnly, Bool.and_eq_true] at hjn hjn'
  exact new_mkey_inj M hnn hjl hjl' hjn.1 hjn'.1 (by rw [← h2, ← h2'])

/-! ### Executing single commands on `numbered M μ` -/

def iosExec (s : IosAcl) (ops : List IOp) : Option IosAcl := ops.foldlM iosExec1 s

theorem iosExec_append (s : IosAcl) (a b : List IOp) :
    iosExec s (a ++ b) = (iosExec s a).bind fun s' => iosExec s' b := by
  simp [iosExec, List.foldlM_append]

theorem iosExec_cons (s : IosAcl) (op : IOp) (ops : List IOp) :
    iosExec s (op :: ops) = (iosExec1 s op).bind fun s' => iosExec s' ops := by
  simp [iosExec, List.foldlM_cons]

/-- The fold and the trace of the specification agree. -/
theorem iosExec_trace (s s' : IosAcl) (ops : List IOp) (h : iosExec s ops = some s') :
    ∃ tr, iosTrace s ops = some tr ∧ (s :: tr).getLast? = some s' := by
  induction ops generalizing s with
  | nil => simp [iosExec] at h; exact ⟨[], rfl, by simp [h]⟩
  | cons op ops ih =>
    rw [iosExec_cons] at h
    cases h1 : iosExec1 s op with
    | none => simp [h1] at h
    | some s1 =>
      simp only [h1, Option.bind_some] at h
      obtain ⟨tr, ht, hl⟩ := ih s1 h
      refine ⟨s1 :: tr, by simp [iosTrace, h1, ht], ?_⟩
      rw [List.getLast?_cons_cons]; exact hl

theorem getD_set (μ : List Bool) (j i : Nat) (v : Bool) :
    (μ.set j v).getD i false = if j = i ∧ j < μ.length then v else μ.getD i false := by
  simp only [List.getD_eq_getElem?_getD, List.getElem?_set]
  by_cases h : j = i
  · subst h
    by_cases h2 : j < μ.length
    · simp [h2]
    · simp [h2]
  · simp [h]

theorem sorted_ne (L : IosAcl) (hs : SortedNum L) {i j : Nat} (hi : i < L.length) (hj : j < L.length)
    (h : i ≠ j) : L[i].1 ≠ L[j].1 := by
  have := List.pairwise_iff_getElem.mp hs
  rcases Nat.lt_or_gt_of_ne h with hlt | hgt
  · have := this i j hi hj hlt; omega
  · have := this j i hj hi hgt; omega

theorem exec_add (M : List Cell) (hs : SortedNum (allNum M)) (μ : List Bool)
    (hl : μ.length = M.length) (j : Nat) (hj : j < M.length) (hf : μ.getD j false = false)
    (hfresh : ∀ i, i < M.length → μ.getD i false = true →
      (M.getD i default).line.mkey ≠ (M.getD j default).line.mkey) :
    iosAdd (numbered M μ) (numOf M j) (M.getD j default).line = some (numbered M (μ.set j true)) := by
  have hj' : j < (allNum M).length := by rw [allNum_length]; exact hj
  have h1 : (numbered M μ).any (fun e => e.1 == numOf M j) = false := by
    rw [List.any_eq_false]
    intro e he
    obtain ⟨i, hi, hm, rfl⟩ := (pick_mem_iff _ _ _).mp he
    have hij : i ≠ j := by intro h; subst h; rw [hf] at hm; exact Bool.noConfusion hm
    have := sorted_ne _ hs hi hj' hij
    rw [allNum_getElem M j hj'] at this
    simpa using this
  have h2 : (numbered M μ).any (fun e => e.2.mkey == (M.getD j default).line.mkey) = false := by
    rw [List.any_eq_false]
    intro e he
    obtain ⟨i, hi, hm, rfl⟩ := (pick_mem_iff _ _ _).mp he
    rw [allNum_getElem M i hi]
    have := hfresh i (by rw [← allNum_length]; exact hi) hm
    simpa using this
  unfold iosAdd
  rw [h1, h2]
  simp only [Bool.or_self, Bool.false_eq_true, if_false, Option.some.injEq]
  have := pick_insert (allNum M) hs μ j hj' (by rw [allNum_length]; exact hl) hf
  rw [allNum_getElem M j hj'] at this
  exact this

theorem exec_del (M : List Cell) (hs : SortedNum (allNum M)) (μ : List Bool)
    (hl : μ.length = M.length) (j : Nat) (hj : j < M.length) (ht : μ.getD j false = true) :
    iosDel (numbered M μ) (numOf M j) = some (numbered M (μ.set j false)) := by
  have hj' : j < (allNum M).length := by rw [allNum_length]; exact hj
  have h1 : (numbered M μ).any (fun e => e.1 == numOf M j) = true := by
    rw [List.any_eq_true]
    refine ⟨(allNum M)[j], (pick_mem_iff _ _ _).mpr ⟨j, hj', ht, rfl⟩, ?_⟩
    rw [allNum_getElem M j hj']; simp
  unfold iosDel
  rw [h1]
  simp only [if_true, Option.some.injEq]
  have := pick_delete (allNum M) hs μ j hj' (by rw [allNum_length]; exact hl)
  rw [allNum_getElem M j hj'] at this
  exact this

/-! ### The mask invariant -/

/-- `J`: new-only cells already inserted; `K`: old-only cells already deleted (by a move or a
delete).  Pins the mask down completely. -/
structure MInv (M : List Cell) (J K : List Nat) (μ : List Bool) : Prop where
  len : μ.length = M.length
  jsub : ∀ j ∈ J, j ∈ addIdx M
  both : ∀ i, i < M.length → (M.getD i default).both = true → μ.getD i false = true
  newO : ∀ i, i ∈ addIdx M → (μ.getD i false = true ↔ i ∈ J)
  oldO : ∀ i, i ∈ delIdx M → (μ.getD i false = false ↔
    (i ∈ K ∨ ∃ j ∈ J, (M.getD j default).line.mkey = (M.getD i default).line.mkey))

theorem oldMask_getD (M : List Cell) (i : Nat) (hi : i < M.length) :
    (oldMask M).getD i false = (M.getD i default).old := by
  simp [oldMask, hi]

theorem newMask_getD (M : List Cell) (i : Nat) (hi : i < M.length) :
    (newMask M).getD i false = (M.getD i default).new := by
  simp [newMask, hi]

theorem minv_init (M : List Cell) : MInv M [] [] (oldMask M) where
  len := by simp [oldMask]
  jsub := by simp
  both := by
    intro i hi hb
    rw [oldMask_getD M i hi]
    simp [Cell.both] at hb; exact hb.1
  newO := by
    intro i hi
    obtain ⟨hl, hn⟩ := mem_addIdx.mp hi
    rw [oldMask_getD M i hl]
    simp [Cell.newOnly] at hn
    simp [hn.2]
  oldO := by
    intro i hi
    obtain ⟨hl, ho⟩ := mem_delIdx.mp hi
    rw [oldMask_getD M i hl]
    simp [Cell.oldOnly] at ho
    simp [ho.1]

theorem add_del_ne {M : List Cell} {j i : Nat} (hj : j ∈ addIdx M) (hi : i ∈ delIdx M) : j ≠ i := by
  intro h; subst h
  have h1 := (mem_addIdx.mp hj).2
  have h2 := (mem_delIdx.mp hi).2
  simp [Cell.newOnly, Cell.oldOnly] at h1 h2
  rw [h1.2] at h2; exact Bool.noConfusion h2.1

theorem minv_add {M : List Cell} {J K : List Nat} {μ : List Bool} (h : MInv M J K μ) {j : Nat}
    (hj : j ∈ addIdx M)
    (hk : ∀ i ∈ delIdx M, (M.getD i default).line.mkey = (M.getD j default).line.mkey → i ∈ K) :
    MInv M (j :: J) K (μ.set j true) where
  len := by simp [h.len]
  jsub := by
    intro j' hj'
    rcases List.mem_cons.mp hj' with rfl | h'
    · exact hj
    · exact h.jsub _ h'
  both := by
    intro i hi hb
    rw [getD_set]
    split
    · rfl
    · exact h.both i hi hb
  newO := by
    intro i hi
    rw [getD_set, List.mem_cons]
    have hjl : j < μ.length := by rw [h.len]; exact (mem_addIdx.mp hj).1
    by_cases hij : j = i
    · simp [hij, hjl] ; simpa [hij] using hjl
    · have : i ≠ j := fun e => hij e.symm
      simp [hij, this, h.newO i hi]
  oldO := by
    intro i hi
    have hij : j ≠ i := add_del_ne hj hi
    rw [getD_set]
    simp only [hij, false_and, if_false, h.oldO i hi, List.exists_mem_cons_iff] 
    constructor
    · rintro (h1 | h1)
      · exact Or.inl h1
      · exact Or.inr (Or.inr h1)
    · rintro (h1 | h1 | h1)
      · exact Or.inl h1
      · exact Or.inl (hk i hi h1.symm)
      · exact Or.inr h1

theorem minv_del {M : List Cell} {J K : List Nat} {μ : List Bool} (h : MInv M J K μ) {d : Nat}
    (hd : d ∈ delIdx M) : MInv M J (d :: K) (μ.set d false) where
  len := by simp [h.len]
  jsub := h.jsub
  both := by
    intro i hi hb
    rw [getD_set]
    have : d ≠ i := by
      intro e; subst e
      have h2 := (mem_delIdx.mp hd).2
      simp [Cell.oldOnly, Cell.both] at h2 hb
      rw [hb.2] at h2; exact Bool.noConfusion h2.2
    simp only [this, false_and, if_false]
    exact h.both i hi hb
  newO := by
    intro i hi
    rw [getD_set]
    have : d ≠ i := fun e => add_del_ne hi hd e.symm
    simp only [this, false_and, if_false]
    exact h.newO i hi
  oldO := by
    intro i hi
    have hdl : d < μ.length := by rw [h.len]; exact (mem_delIdx.mp hd).1
    rw [getD_set, List.mem_cons]
    by_cases hdi : d = i
    · subst hdi; simp [hdl]
    · have : i ≠ d := fun e => hdi e.symm
      simp only [hdi, false_and, if_false, h.oldO i hi, this, false_or]

/-- A present line that clashes (same `mkey`) with a not yet inserted new-only line can only be
an old-only line. -/
theorem minv_clash {M : List Cell} {J K : List Nat} {μ : List Bool} (h : MInv M J K μ)
    (hnn : ((news M).map (·.mkey)).Nodup) (hjunk : noJunk M = true) {j : Nat}
    (hj : j ∈ addIdx M) (hjJ : j ∉ J) {i : Nat} (hi : i < M.length) (hm : μ.getD i false = true)
    (hk : (M.getD i default).line.mkey = (M.getD j default).line.mkey) : i ∈ delIdx M := by
  obtain ⟨hjl, hjn⟩ := mem_addIdx.mp hj
  simp only [Cell.newOnly, Bool.and_eq_true] at hjn
  by_cases hn : (M.getD i default).new = true
  · exfalso
    have hij : i = j := new_mkey_inj M hnn hi hjl hn hjn.1 hk
    subst hij
    exact hjJ ((h.newO i hj).mp hm)
  · have hc : M.getD i default = M[i] := by simp [hi]
    have := (List.all_eq_true.mp hjunk) M[i] (List.getElem_mem _)
    rw [← hc] at this
    refine mem_delIdx.mpr ⟨hi, ?_⟩
    simp only [Bool.not_eq_true] at hn
    simp [hn] at this
    simp [Cell.oldOnly, hn, this]

end NA.Acl
