import NA.Proofs.C03Final
/-
C03, whole-vsys theorems, part 12: the flags of the final planner state in terms of names
(instead of indices), and the transfer phase of the plan on the strict device.  Core Lean only.
-/
namespace NA.PanOs

theorem lastIdx_none_not_mem {names : List String} {n : String} (h : lastIdx names n = none) : n ∉ names := by
  intro hm
  have := lastIdx_isSome_of_mem hm
  rw [h] at this
  cases this

theorem map_o_name {l : List BObj} {os : List Obj} (h : l.map (·.o) = os) :
    l.map (·.o.name) = os.map (·.name) := by
  have := congrArg (List.map (·.name)) h
  simpa [List.map_map, Function.comp_def] using this

theorem map_o_name_a {l : List AObj} {os : List Obj} (h : l.map (·.o) = os) :
    l.map (·.o.name) = os.map (·.name) := by
  have := congrArg (List.map (·.name)) h
  simpa [List.map_map, Function.comp_def] using this

/-- A name the target's rules use in a source or destination. -/
def RefAddr (b : Vsys) (x : String) : Prop := ∃ r ∈ b.rules, x ∈ r.src ∨ x ∈ r.dst
/-- A name the target's rules use as service. -/
def RefSvc (b : Vsys) (x : String) : Prop := ∃ r ∈ b.rules, x ∈ r.srv

/-- The address flags of the final planner state, by name. -/
structure AddrSummary (a b : Vsys) (st : St) : Prop where
  bdefs : st.bAddr.map (·.o) = b.addrs
  adefs : st.aAddr.map (·.o) = a.addrs
  editHas : ∀ ob ∈ st.bAddr, ob.edit = true → ob.o.name ∈ a.addrs.map (·.name)
  setLacks : ∀ ob ∈ st.bAddr, ob.needed = true → ob.o.name ∉ a.addrs.map (·.name)
  covered : ∀ x, RefAddr b x → x ∈ b.addrs.map (·.name) → ∃ ob ∈ st.bAddr, ob.o.name = x ∧
    ((x ∈ a.addrs.map (·.name) ∧ (lookupObj a.addrs x = some ob.o.val ∨ ob.edit = true)) ∨
      (x ∉ a.addrs.map (·.name) ∧ ob.needed = true))
  marked : ∀ x, RefAddr b x → x ∈ b.addrs.map (·.name) → ∀ oa ∈ st.aAddr, oa.o.name = x → oa.needed = true

structure SvcSummary (a b : Vsys) (st : St) : Prop where
  bdefs : st.bSvc.map (·.o) = b.svcs
  adefs : st.aSvc.map (·.o) = a.svcs
  editHas : ∀ ob ∈ st.bSvc, ob.edit = true → ob.o.name ∈ a.svcs.map (·.name)
  setLacks : ∀ ob ∈ st.bSvc, ob.needed = true → ob.o.name ∉ a.svcs.map (·.name)
  covered : ∀ x, RefSvc b x → x ∈ b.svcs.map (·.name) → ∃ ob ∈ st.bSvc, ob.o.name = x ∧
    ((x ∈ a.svcs.map (·.name) ∧ (lookupObj a.svcs x = some ob.o.val ∨ ob.edit = true)) ∨
      (x ∉ a.svcs.map (·.name) ∧ ob.needed = true))
  marked : ∀ x, RefSvc b x → x ∈ b.svcs.map (·.name) → ∀ oa ∈ st.aSvc, oa.o.name = x → oa.needed = true

theorem addrSummary_of_planFlags {a b : Vsys} {st : St} (h : PlanFlags a b st)
    (ha : (a.addrs.map (·.name)).Nodup) : AddrSummary a b st := by
  have hbn := map_o_name h.bAddr
  have han := map_o_name_a h.aAddr
  refine ⟨h.bAddr, h.aAddr, ?_, ?_, ?_, ?_⟩
  · intro ob hob he
    obtain ⟨bi, hbi⟩ := List.getElem?_of_mem hob
    obtain ⟨ai, oa, q1, _, _⟩ := (h.sound bi ob hbi).2 he
    have := lastIdx_spec q1
    rw [han] at this
    exact List.mem_of_getElem? this
  · intro ob hob hn
    obtain ⟨bi, hbi⟩ := List.getElem?_of_mem hob
    have := (h.sound bi ob hbi).1 hn
    unfold St.aAddrIdx at this
    rw [han] at this
    exact lastIdx_none_not_mem this
  · intro x ⟨r, hr, hx⟩ hxb
    have hsome : (st.bAddrIdx x).isSome := by
      unfold St.bAddrIdx; rw [hbn]; exact lastIdx_isSome_of_mem hxb
    cases hbi : st.bAddrIdx x with
    | none => simp [hbi] at hsome
    | some bi =>
      obtain ⟨ob, hob, hcase⟩ := h.covered r hr x hx bi hbi
      have hname : ob.o.name = x := by
        have := lastIdx_spec hbi
        rw [List.getElem?_map, hob] at this
        simpa using this
      refine ⟨ob, List.mem_of_getElem? hob, hname, ?_⟩
      rcases hcase with ⟨ai, oa, q1, q2, q3⟩ | ⟨q1, q2⟩
      · left
        have hn := lastIdx_spec q1
        have hoaname : oa.o.name = x := by
          rw [List.getElem?_map, q2] at hn
          simpa using hn
        have hmem : oa.o ∈ a.addrs := by
          rw [← h.aAddr]; exact List.mem_map_of_mem (List.mem_of_getElem? q2)
        refine ⟨by rw [← hoaname]; exact List.mem_map_of_mem hmem, ?_⟩
        rcases q3 with q3 | q3
        · left
          rw [← hoaname, lookupObj_of_mem ha hmem, q3]
        · exact Or.inr q3
      · right
        unfold St.aAddrIdx at q1
        rw [han] at q1
        exact ⟨lastIdx_none_not_mem q1, q2⟩
  · intro x ⟨r, hr, hx⟩ hxb oa hoa hn
    obtain ⟨i, hi⟩ := List.getElem?_of_mem hoa
    have hix : (st.aAddr.map (·.o.name))[i]? = some x := by
      rw [List.getElem?_map, hi]; simp [hn]
    have hsome : (st.aAddrIdx x).isSome := by
      unfold St.aAddrIdx; exact lastIdx_isSome_of_mem (List.mem_of_getElem? hix)
    cases hai : st.aAddrIdx x with
    | none => simp [hai] at hsome
    | some ai =>
      have haix := lastIdx_spec hai
      have : i = ai := nodup_getElem?_inj (by rw [han]; exact ha) hix haix
      subst this
      obtain ⟨o', ho', hn'⟩ := h.marked r hr x hx (List.mem_map.mp hxb |>.imp fun o ho => ⟨ho.1, ho.2⟩) i hai
      rw [hi] at ho'
      cases ho'
      exact hn'

theorem svcSummary_of_planFlags {a b : Vsys} {st : St} (h : PlanFlags a b st)
    (ha : (a.svcs.map (·.name)).Nodup) : SvcSummary a b st := by
  have hbn := map_o_name h.bSvc
  have han := map_o_name_a h.aSvc
  refine ⟨h.bSvc, h.aSvc, ?_, ?_, ?_, ?_⟩
  · intro ob hob he
    obtain ⟨bi, hbi⟩ := List.getElem?_of_mem hob
    obtain ⟨ai, oa, q1, _, _⟩ := (h.ssound bi ob hbi).2 he
    have := lastIdx_spec q1
    rw [han] at this
    exact List.mem_of_getElem? this
  · intro ob hob hn
    obtain ⟨bi, hbi⟩ := List.getElem?_of_mem hob
    have := (h.ssound bi ob hbi).1 hn
    unfold St.aSvcIdx at this
    rw [han] at this
    exact lastIdx_none_not_mem this
  · intro x ⟨r, hr, hx⟩ hxb
    have hsome : (st.bSvcIdx x).isSome := by
      unfold St.bSvcIdx; rw [hbn]; exact lastIdx_isSome_of_mem hxb
    cases hbi : st.bSvcIdx x with
    | none => simp [hbi] at hsome
    | some bi =>
      obtain ⟨ob, hob, hcase⟩ := h.scovered r hr x hx bi hbi
      have hname : ob.o.name = x := by
        have := lastIdx_spec hbi
        rw [List.getElem?_map, hob] at this
        simpa using this
      refine ⟨ob, List.mem_of_getElem? hob, hname, ?_⟩
      rcases hcase with ⟨ai, oa, q1, q2, q3⟩ | ⟨q1, q2⟩
      · left
        have hn := lastIdx_spec q1
        have hoaname : oa.o.name = x := by
          rw [List.getElem?_map, q2] at hn
          simpa using hn
        have hmem : oa.o ∈ a.svcs := by
          rw [← h.aSvc]; exact List.mem_map_of_mem (List.mem_of_getElem? q2)
        refine ⟨by rw [← hoaname]; exact List.mem_map_of_mem hmem, ?_⟩
        rcases q3 with q3 | q3
        · left
          rw [← hoaname, lookupObj_of_mem ha hmem, q3]
        · exact Or.inr q3
      · right
        unfold St.aSvcIdx at q1
        rw [han] at q1
        exact ⟨lastIdx_none_not_mem q1, q2⟩
  · intro x ⟨r, hr, hx⟩ hxb oa hoa hn
    obtain ⟨i, hi⟩ := List.getElem?_of_mem hoa
    have hix : (st.aSvc.map (·.o.name))[i]? = some x := by
      rw [List.getElem?_map, hi]; simp [hn]
    have hsome : (st.aSvcIdx x).isSome := by
      unfold St.aSvcIdx; exact lastIdx_isSome_of_mem (List.mem_of_getElem? hix)
    cases hai : st.aSvcIdx x with
    | none => simp [hai] at hsome
    | some ai =>
      have haix := lastIdx_spec hai
      have : i = ai := nodup_getElem?_inj (by rw [han]; exact ha) hix haix
      subst this
      obtain ⟨o', ho', hn'⟩ := h.smarked r hr x hx (List.mem_map.mp hxb |>.imp fun o ho => ⟨ho.1, ho.2⟩) i hai
      rw [hi] at ho'
      cases ho'
      exact hn'

end NA.PanOs

namespace NA.PanOs

/-- What the rule phase finds on the device after the transfer phase. -/
structure AfterTransfer (a b a1 : Vsys) : Prop where
  rules : a1.rules = a.rules
  groups : a1.groups = a.groups
  sgroups : a1.sgroups = a.sgroups
  name : a1.name = a.name
  addrRef : ∀ x, RefAddr b x → x ∈ b.addrs.map (·.name) → lookupObj a1.addrs x = lookupObj b.addrs x
  addrOther : ∀ n, n ∉ b.addrs.map (·.name) → lookupObj a1.addrs n = lookupObj a.addrs n
  addrNames : ∀ n, n ∈ a1.addrs.map (·.name) → n ∈ a.addrs.map (·.name) ∨ n ∈ b.addrs.map (·.name)
  addrKeep : ∀ n, n ∈ a.addrs.map (·.name) → n ∈ a1.addrs.map (·.name)
  svcRef : ∀ x, RefSvc b x → x ∈ b.svcs.map (·.name) → lookupObj a1.svcs x = lookupObj b.svcs x
  svcOther : ∀ n, n ∉ b.svcs.map (·.name) → lookupObj a1.svcs n = lookupObj a.svcs n
  svcNames : ∀ n, n ∈ a1.svcs.map (·.name) → n ∈ a.svcs.map (·.name) ∨ n ∈ b.svcs.map (·.name)
  svcKeep : ∀ n, n ∈ a.svcs.map (·.name) → n ∈ a1.svcs.map (·.name)

theorem transferCmds_plain (st : St) (hbG : st.bGrp = []) (hbSG : st.bSG = []) :
    transferCmds st = addrTransfer st.bAddr ++ svcTransfer st.bSvc := by
  simp [transferCmds, addrTransfer, svcTransfer, hbG, hbSG]

/-- **Transfer phase.** -/
theorem runs_transfer (sh : Shared) (a b : Vsys) (st : St) (hA : AddrSummary a b st) (hS : SvcSummary a b st)
    (hbG : st.bGrp = []) (hbSG : st.bSG = [])
    (hbn : (b.addrs.map (·.name)).Nodup) (hsn : (b.svcs.map (·.name)).Nodup) :
    ∃ a1, Runs sh a (transferCmds st) a1 ∧ AfterTransfer a b a1 ∧
      (∀ n ∈ a1.addrs.map (·.name), n ∈ a.addrs.map (·.name) ∨ ∃ ob ∈ st.bAddr, ob.flagged = true ∧ ob.o.name = n) ∧
      (∀ n ∈ a1.svcs.map (·.name), n ∈ a.svcs.map (·.name) ∨ ∃ ob ∈ st.bSvc, ob.flagged = true ∧ ob.o.name = n) := by
  rw [transferCmds_plain st hbG hbSG]
  have hbnames := map_o_name hA.bdefs
  have hsnames := map_o_name hS.bdefs
  obtain ⟨v1, hv1, r1, r2, r3, r4, r5, p1, p2, p3⟩ := runs_addrTransfer sh st.bAddr a (by rw [hbnames]; exact hbn)
    hA.editHas (fun o ho _ hn => hA.setLacks o ho hn)
  obtain ⟨v2, hv2, t1, t2, t3, t4, t5, q1, q2, q3⟩ := runs_svcTransfer sh st.bSvc v1 (by rw [hsnames]; exact hsn)
    (fun o ho he => by rw [r2]; exact hS.editHas o ho he)
    (fun o ho _ hn => by rw [r2]; exact hS.setLacks o ho hn)
  have bname_mem : ∀ ob ∈ st.bAddr, ob.o.name ∈ b.addrs.map (·.name) := by
    intro ob hob; rw [← hbnames]; exact List.mem_map_of_mem hob
  have sname_mem : ∀ ob ∈ st.bSvc, ob.o.name ∈ b.svcs.map (·.name) := by
    intro ob hob; rw [← hsnames]; exact List.mem_map_of_mem hob
  -- the only entry of the target with a given name
  have buniq : ∀ ob ∈ st.bAddr, ∀ ob' ∈ st.bAddr, ob'.o.name = ob.o.name → ob' = ob := by
    intro ob hob ob' hob' hn
    obtain ⟨i, hi⟩ := List.getElem?_of_mem hob
    obtain ⟨j, hj⟩ := List.getElem?_of_mem hob'
    have h1 : (st.bAddr.map (·.o.name))[i]? = some ob.o.name := by rw [List.getElem?_map, hi]; rfl
    have h2 : (st.bAddr.map (·.o.name))[j]? = some ob.o.name := by rw [List.getElem?_map, hj]; simp [hn]
    have := nodup_getElem?_inj (by rw [hbnames]; exact hbn) h1 h2
    subst this
    rw [hi] at hj
    exact (Option.some.inj hj).symm
  have suniq : ∀ ob ∈ st.bSvc, ∀ ob' ∈ st.bSvc, ob'.o.name = ob.o.name → ob' = ob := by
    intro ob hob ob' hob' hn
    obtain ⟨i, hi⟩ := List.getElem?_of_mem hob
    obtain ⟨j, hj⟩ := List.getElem?_of_mem hob'
    have h1 : (st.bSvc.map (·.o.name))[i]? = some ob.o.name := by rw [List.getElem?_map, hi]; rfl
    have h2 : (st.bSvc.map (·.o.name))[j]? = some ob.o.name := by rw [List.getElem?_map, hj]; simp [hn]
    have := nodup_getElem?_inj (by rw [hsnames]; exact hsn) h1 h2
    subst this
    rw [hi] at hj
    exact (Option.some.inj hj).symm
  refine ⟨v2, hv1.append hv2, ⟨t1.trans r1, t3.trans r3, t4.trans r4, t5.trans r5, ?_, ?_, ?_, ?_, ?_, ?_, ?_, ?_⟩,
    (fun n hn => by rw [t2] at hn; exact (p3 n).mp hn),
    (fun n hn => by
      rcases (q3 n).mp hn with h | h
      · rw [r2] at h; exact Or.inl h
      · exact Or.inr h)⟩
  · -- addresses the rules use
    intro x hx hxb
    rw [t2]
    obtain ⟨ob, hob, hname, hcase⟩ := hA.covered x hx hxb
    have hbval : lookupObj b.addrs x = some ob.o.val := by
      rw [← hname]
      exact lookupObj_of_mem hbn (by rw [← hA.bdefs]; exact List.mem_map_of_mem hob)
    rw [hbval]
    by_cases hf : ob.flagged = true
    · rw [← hname]; exact p1 ob hob hf
    · have hf' : ob.edit = false ∧ ob.needed = false := by
        simpa [BObj.flagged] using hf
      rcases hcase with ⟨_, hv | he⟩ | ⟨_, hn⟩
      · rw [p2 x (fun ob' hob' hf'' hn' => by
          have := buniq ob hob ob' hob' (hn'.trans hname.symm)
          subst this
          exact hf hf'')]
        exact hv
      · rw [hf'.1] at he; cases he
      · rw [hf'.2] at hn; cases hn
  · intro n hn
    rw [t2]
    exact p2 n (fun ob hob _ e => hn (e ▸ bname_mem ob hob))
  · intro n hn
    rw [t2] at hn
    rcases (p3 n).mp hn with h | ⟨ob, hob, _, e⟩
    · exact Or.inl h
    · exact Or.inr (e ▸ bname_mem ob hob)
  · intro n hn
    rw [t2]
    exact (p3 n).mpr (Or.inl hn)
  · intro x hx hxb
    obtain ⟨ob, hob, hname, hcase⟩ := hS.covered x hx hxb
    have hbval : lookupObj b.svcs x = some ob.o.val := by
      rw [← hname]
      exact lookupObj_of_mem hsn (by rw [← hS.bdefs]; exact List.mem_map_of_mem hob)
    rw [hbval]
    by_cases hf : ob.flagged = true
    · rw [← hname]; exact q1 ob hob hf
    · have hf' : ob.edit = false ∧ ob.needed = false := by
        simpa [BObj.flagged] using hf
      rcases hcase with ⟨_, hv | he⟩ | ⟨_, hn⟩
      · rw [q2 x (fun ob' hob' hf'' hn' => by
          have := suniq ob hob ob' hob' (hn'.trans hname.symm)
          subst this
          exact hf hf''), r2]
        exact hv
      · rw [hf'.1] at he; cases he
      · rw [hf'.2] at hn; cases hn
  · intro n hn
    rw [q2 n (fun ob hob _ e => hn (e ▸ sname_mem ob hob)), r2]
  · intro n hn
    rcases (q3 n).mp hn with h | ⟨ob, hob, _, e⟩
    · rw [r2] at h; exact Or.inl h
    · exact Or.inr (e ▸ sname_mem ob hob)
  · intro n hn
    exact (q3 n).mpr (Or.inl (by rw [r2]; exact hn))

end NA.PanOs
