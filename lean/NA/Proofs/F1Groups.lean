import NA.Model.AsaEngine
/-!
# F1: object-groups — `sortGroups`, `findGroupOnDevice`, the in-place edit of `equalizedGroups`
-/
namespace NA.F1
open NA.Acl (Range)

/-! ## `sortS` is a permutation -/

theorem insertS_perm (x : String) (l : List String) : (insertS x l).Perm (x :: l) := by
  induction l with
  | nil => exact List.Perm.refl _
  | cons y ys ih =>
    unfold insertS
    split
    · exact List.Perm.refl _
    · exact ((List.Perm.cons y ih).trans (List.Perm.swap x y ys))

theorem sortS_perm (l : List String) : (sortS l).Perm l := by
  induction l with
  | nil => exact List.Perm.refl _
  | cons x xs ih => exact (insertS_perm x _).trans (List.Perm.cons x ih)

theorem mem_sortS {x : String} {l : List String} : x ∈ sortS l ↔ x ∈ l := (sortS_perm l).mem_iff

theorem sortS_nodup {l : List String} (h : l.Nodup) : (sortS l).Nodup := (sortS_perm l).nodup_iff.mpr h

/-- Equal sorted lists: same members with the same multiplicities. -/
theorem perm_of_sortS_eq {l₁ l₂ : List String} (h : sortS l₁ = sortS l₂) : l₁.Perm l₂ :=
  (sortS_perm l₁).symm.trans (h ▸ sortS_perm l₂)

/-! ## `findGroupOnDevice` -/

theorem findGroupIn_sound {names needed : List Name} {mA : Name → List String} {mb : List String} {aN : Name}
    (h : findGroupIn names needed mA mb = some aN) : aN ∈ names ∧ aN ∉ needed ∧ mA aN = mb := by
  unfold findGroupIn at h
  have h1 := List.mem_of_find?_eq_some h
  have h2 := List.find?_some h
  simp only [Bool.and_eq_true, Bool.not_eq_true', beq_iff_eq] at h2
  refine ⟨h1, ?_, h2.2⟩
  intro hm
  have : needed.contains aN = true := by simpa using hm
  rw [this] at h2
  exact absurd h2.1 (by decide)

/-- What `findGroup` does to the state: nothing, or it adopts one device group. -/
inductive FindResult (e : Env) (st st' : St) (bN : Name) : Prop
  | unchanged (h : st' = st)
  | adopted (aN : Name) (hdev : aN ∈ e.a.groups.map (·.1)) (hfree : aN ∉ st.gNeeded) (hnr : bN ∉ st.gReady)
      (hsame : (lookupD e.a.groups aN).Perm (lookupD e.b.groups bN))
      (hst : st' = { st with gNeeded := addSet aN st.gNeeded, gReady := bN :: st.gReady,
                             gName := (bN, aN) :: st.gName, hits := "grp:found-on-device" :: st.hits })

theorem findGroup_result (e : Env) (st : St) (bN : Name) : FindResult e st (findGroup e st bN) bN := by
  unfold findGroup
  by_cases hr : st.gReady.contains bN = true
  · simp only [hr, if_true]; exact .unchanged rfl
  · simp only [hr]
    cases hf : findGroupIn e.aGroupNames st.gNeeded e.aMembers (e.bMembers bN) with
    | none => exact .unchanged rfl
    | some aN =>
      obtain ⟨h1, h2, h3⟩ := findGroupIn_sound hf
      refine .adopted aN ?_ h2 (by simpa using hr) (perm_of_sortS_eq h3) rfl
      exact mem_sortS.mp h1

/-! ## The member script of `equalizedGroups` -/

/-- A script is one for the lists `a`, `b` from position `(ia, ib)`: contiguous, in bounds, kept ranges
pairwise equal.  Kind tests in the order of `equalizedGroups` (delete, insert, equal). -/
def scriptOK {α : Type} [DecidableEq α] (a b : List α) : List Range → Nat → Nat → Bool
  | [], ia, ib => ia == a.length && ib == b.length
  | r :: rs, ia, ib =>
    r.lowA == ia && r.lowB == ib && decide (ia ≤ r.highA) && decide (ib ≤ r.highB) &&
    decide (r.highA ≤ a.length) && decide (r.highB ≤ b.length) &&
    (r.isDelete || r.isInsert || (r.isEqual && slice a ia r.highA == slice b ib r.highB)) &&
    scriptOK a b rs r.highA r.highB

def delsOf (a : List String) : List Range → List String
  | [] => []
  | r :: rs => (if r.isDelete then slice a r.lowA r.highA else []) ++ delsOf a rs

def inssOf (b : List String) : List Range → List String
  | [] => []
  | r :: rs => (if !r.isDelete && r.isInsert then slice b r.lowB r.highB else []) ++ inssOf b rs

def keptOf (a : List String) : List Range → List String
  | [] => []
  | r :: rs => (if !r.isDelete && !r.isInsert then slice a r.lowA r.highA else []) ++ keptOf a rs

/-- The member commands in script order: `(false, m)` = `no network-object m`, `(true, m)` = `network-object m`. -/
def memOps (a b : List String) : List Range → List (Bool × String)
  | [] => []
  | r :: rs =>
    (if r.isDelete then (slice a r.lowA r.highA).map (false, ·)
     else if r.isInsert then (slice b r.lowB r.highB).map (true, ·) else []) ++ memOps a b rs

/-- Strict member semantics of an object-group (as `NA.AsaDev.exec1`). -/
def applyMem : List String → List (Bool × String) → Option (List String)
  | cur, [] => some cur
  | cur, (true, m) :: ops => if cur.contains m then none else applyMem (cur ++ [m]) ops
  | cur, (false, m) :: ops => if cur.contains m then applyMem (cur.filter (· != m)) ops else none

def opDels (ops : List (Bool × String)) : List String := (ops.filter (!·.1)).map (·.2)
def opInss (ops : List (Bool × String)) : List String := (ops.filter (·.1)).map (·.2)

theorem slice_drop (l : List String) (lo hi : Nat) (h1 : lo ≤ hi) (_h2 : hi ≤ l.length) :
    l.drop lo = slice l lo hi ++ l.drop hi := by
  unfold slice
  have : l.drop hi = (l.drop lo).drop (hi - lo) := by rw [List.drop_drop]; congr 1; omega
  rw [this, List.take_append_drop]

/-- The lists split into kept, deleted and inserted parts. -/
theorem scriptOK_split (a b : List String) : ∀ (rs : List Range) (ia ib : Nat), scriptOK a b rs ia ib = true →
    (a.drop ia).Perm (keptOf a rs ++ delsOf a rs) ∧ (b.drop ib).Perm (keptOf a rs ++ inssOf b rs) := by
  intro rs
  induction rs with
  | nil =>
    intro ia ib h
    simp only [scriptOK, Bool.and_eq_true, beq_iff_eq] at h
    simp [keptOf, delsOf, inssOf, h.1, h.2]
  | cons r rs ih =>
    intro ia ib h
    simp only [scriptOK, Bool.and_eq_true, beq_iff_eq, decide_eq_true_eq, Bool.or_eq_true] at h
    obtain ⟨⟨⟨⟨⟨⟨⟨hla, hlb⟩, h1⟩, h2⟩, h3⟩, h4⟩, hk⟩, hrest⟩ := h
    obtain ⟨iha, ihb⟩ := ih r.highA r.highB hrest
    have ea := slice_drop a ia r.highA h1 h3
    have eb := slice_drop b ib r.highB h2 h4
    by_cases hd : r.isDelete = true
    · -- delete range: the b side does not advance
      have hb0 : r.highB = ib := by
        simp only [Range.isDelete, beq_iff_eq] at hd; omega
      simp only [keptOf, delsOf, inssOf, hd, hla, Bool.not_true, Bool.false_and, if_true]
      constructor
      · rw [ea]
        refine (List.Perm.append (List.Perm.refl _) iha).trans ?_
        -- S ++ (K ++ D) ~ K ++ (S ++ D)
        rw [← List.append_assoc, ← List.append_assoc]
        exact List.Perm.append (List.perm_append_comm) (List.Perm.refl _)
      · rw [← hb0]; simpa using ihb
    · have hd' : r.isDelete = false := by simpa using hd
      by_cases hi : r.isInsert = true
      · have ha0 : r.highA = ia := by
          simp only [Range.isInsert, beq_iff_eq] at hi; omega
        simp only [keptOf, delsOf, inssOf, hd', hi, hlb, Bool.not_false, Bool.true_and, Bool.not_true,
          Bool.and_false, if_true]
        constructor
        · rw [← ha0]; simpa using iha
        · rw [eb]
          refine (List.Perm.append (List.Perm.refl _) ihb).trans ?_
          rw [← List.append_assoc, ← List.append_assoc]
          exact List.Perm.append (List.perm_append_comm) (List.Perm.refl _)
      · have hi' : r.isInsert = false := by simpa using hi
        have heq : slice a ia r.highA = slice b ib r.highB := by
          rcases hk with (hk | hk) | hk
          · exact absurd hk hd
          · exact absurd hk hi
          · simpa using hk.2
        simp only [keptOf, delsOf, inssOf, hd', hi', hla, Bool.not_false, Bool.and_self, if_true,
          Bool.and_false]
        constructor
        · rw [ea, List.append_assoc]
          exact List.Perm.append (List.Perm.refl _) iha
        · rw [eb, ← heq, List.append_assoc]
          exact List.Perm.append (List.Perm.refl _) ihb

theorem opDels_memOps (a b : List String) (rs : List Range) : opDels (memOps a b rs) = delsOf a rs := by
  induction rs with
  | nil => rfl
  | cons r rs ih =>
    simp only [memOps, delsOf, opDels, List.filter_append, List.map_append] at ih ⊢
    rw [ih]
    congr 1
    by_cases hd : r.isDelete = true
    · simp [hd, List.filter_map, Function.comp_def]
    · have hd' : r.isDelete = false := by simpa using hd
      by_cases hi : r.isInsert = true <;> simp [hd', hi, List.filter_map, Function.comp_def]

theorem opInss_memOps (a b : List String) (rs : List Range) : opInss (memOps a b rs) = inssOf b rs := by
  induction rs with
  | nil => rfl
  | cons r rs ih =>
    simp only [memOps, inssOf, opInss, List.filter_append, List.map_append] at ih ⊢
    rw [ih]
    congr 1
    by_cases hd : r.isDelete = true
    · simp [hd, List.filter_map, Function.comp_def]
    · have hd' : r.isDelete = false := by simpa using hd
      by_cases hi : r.isInsert = true <;> simp [hd', hi, List.filter_map, Function.comp_def]

/-- Strict execution of member commands succeeds and gives `cur` minus the deleted plus the inserted
members, in whatever order deletes and inserts are interleaved, provided: deleted members are
distinct members of `cur`, inserted members are distinct, not in `cur`, and none is also deleted. -/
theorem applyMem_eq : ∀ (ops : List (Bool × String)) (cur : List String),
    (∀ m ∈ opDels ops, m ∈ cur) → (opDels ops).Nodup → (opInss ops).Nodup →
    (∀ m ∈ opInss ops, m ∉ cur) → (∀ m ∈ opInss ops, m ∉ opDels ops) →
    applyMem cur ops = some (cur.filter (fun m => !(opDels ops).contains m) ++ opInss ops) := by
  intro ops
  induction ops with
  | nil =>
    intro cur _ _ _ _ _
    have : List.filter (fun _ => true) cur = cur := List.filter_eq_self.mpr (fun _ _ => rfl)
    simp [applyMem, opDels, opInss, this]
  | cons op ops ih =>
    intro cur h1 h2 h3 h4 h5
    obtain ⟨k, m⟩ := op
    cases k with
    | true =>
      have eD : opDels ((true, m) :: ops) = opDels ops := by simp [opDels]
      have eI : opInss ((true, m) :: ops) = m :: opInss ops := by simp [opInss]
      rw [eD] at h1 h2 h5; rw [eI] at h3 h4 h5
      have hm : m ∉ cur := h4 m (List.mem_cons_self)
      have hmD : m ∉ opDels ops := h5 m (List.mem_cons_self)
      have hc : cur.contains m = false := by simpa using hm
      simp only [applyMem, hc, eD, eI]
      rw [ih (cur ++ [m])]
      · have : (List.filter (fun m => !(opDels ops).contains m) [m]) = [m] := by
          simp [List.filter, hmD]
        rw [List.filter_append, this, List.append_assoc]
        rfl
      · intro x hx; exact List.mem_append_left _ (h1 x hx)
      · exact h2
      · exact (List.nodup_cons.mp h3).2
      · intro x hx hxc
        rcases List.mem_append.mp hxc with hxc | hxc
        · exact h4 x (List.mem_cons_of_mem _ hx) hxc
        · simp at hxc; subst hxc; exact (List.nodup_cons.mp h3).1 hx
      · intro x hx; exact h5 x (List.mem_cons_of_mem _ hx)
    | false =>
      have eD : opDels ((false, m) :: ops) = m :: opDels ops := by simp [opDels]
      have eI : opInss ((false, m) :: ops) = opInss ops := by simp [opInss]
      rw [eD] at h1 h2 h5; rw [eI] at h3 h4 h5
      have hm : m ∈ cur := h1 m (List.mem_cons_self)
      have hc : cur.contains m = true := by simpa using hm
      simp only [applyMem, hc, if_true, eD, eI]
      rw [ih (cur.filter (· != m))]
      · congr 2
        rw [List.filter_filter]
        apply List.filter_congr
        intro x _
        by_cases hx : x = m <;> simp [hx]
      · intro x hx
        have hxm : x ≠ m := fun e => (List.nodup_cons.mp h2).1 (e ▸ hx)
        simp [List.mem_filter, h1 x (List.mem_cons_of_mem _ hx), hxm]
      · exact (List.nodup_cons.mp h2).2
      · exact h3
      · intro x hx hxc; exact h4 x hx (List.mem_filter.mp hxc).1
      · intro x hx hxd; exact h5 x hx (List.mem_cons_of_mem _ hxd)

/-- `group_equalize_converges` on member lists: for every script that `scriptOK` accepts for the
duplicate-free sorted member lists `la` (device) and `lb` (target) and that does not delete and insert
one member, the strict device accepts the member commands of the in-place edit, starting from the
group's members in any order, and ends with exactly the target's member set. -/
theorem memOps_converge (la lb cur : List String) (rs : List Range) (hv : scriptOK la lb rs 0 0 = true)
    (hna : la.Nodup) (hnb : lb.Nodup) (hcur : cur.Perm la)
    (hdisj : ∀ m ∈ inssOf lb rs, m ∉ delsOf la rs) :
    ∃ l', applyMem cur (memOps la lb rs) = some l' ∧ l'.Perm lb := by
  obtain ⟨pa, pb⟩ := scriptOK_split la lb rs 0 0 hv
  simp only [List.drop_zero] at pa pb
  have nka : (keptOf la rs ++ delsOf la rs).Nodup := pa.nodup_iff.mp hna
  have nkb : (keptOf la rs ++ inssOf lb rs).Nodup := pb.nodup_iff.mp hnb
  obtain ⟨nK, nD, hKD⟩ := List.nodup_append.mp nka
  obtain ⟨_, nI, hKI⟩ := List.nodup_append.mp nkb
  have hmem : ∀ x, x ∈ cur ↔ x ∈ keptOf la rs ∨ x ∈ delsOf la rs := fun x => by
    rw [hcur.mem_iff, pa.mem_iff, List.mem_append]
  refine ⟨_, applyMem_eq (memOps la lb rs) cur ?_ ?_ ?_ ?_ ?_, ?_⟩
  · rw [opDels_memOps]; intro m hm; exact (hmem m).mpr (Or.inr hm)
  · rw [opDels_memOps]; exact nD
  · rw [opInss_memOps]; exact nI
  · rw [opInss_memOps]; intro m hm hc
    rcases (hmem m).mp hc with hk | hd
    · exact hKI m hk m hm rfl
    · exact hdisj m hm hd
  · rw [opInss_memOps, opDels_memOps]; exact hdisj
  · rw [opInss_memOps, opDels_memOps]
    refine (List.Perm.append ?_ (List.Perm.refl _)).trans pb.symm
    -- cur without the deleted members is the kept part
    have hp : cur.Perm (keptOf la rs ++ delsOf la rs) := hcur.trans pa
    refine (hp.filter _).trans ?_
    rw [List.filter_append]
    have e1 : (keptOf la rs).filter (fun m => !(delsOf la rs).contains m) = keptOf la rs := by
      apply List.filter_eq_self.mpr
      intro x hx
      simp only [Bool.not_eq_true', List.contains_eq_mem, decide_eq_false_iff_not]
      exact fun hd => hKD x hx x hd rfl
    have e2 : (delsOf la rs).filter (fun m => !(delsOf la rs).contains m) = [] := by
      apply List.filter_eq_nil_iff.mpr
      intro x hx
      simp [hx]
    rw [e1, e2, List.append_nil]

end NA.F1
