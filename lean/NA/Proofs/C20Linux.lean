import NA.Proofs.C20
import NA.Model.CursorLinux
/-!
C20, Linux: `ParseConfig` of `pkg/linux` never panics, for ANY file content; the loop over the
words of a rule terminates (fuel `len(words)+1` is never used up).
-/
namespace NA.C20.Linux
open NA.C20 NA.C20.Res

theorem parseRoute_noPanic (line : Str) : NoPanic (parseRoute line) := by
  unfold parseRoute
  split
  · exact noPanic_diag _
  · split
    · exact noPanic_ok _
    · split
      · exact noPanic_ok _
      · split
        · split
          · exact noPanic_diag _
          · split
            · exact noPanic_diag _
            · exact noPanic_ok _
        · exact noPanic_diag _

theorem parseRoutes_noPanic : ∀ ls : List Str, NoPanic (parseRoutes ls)
  | [] => by unfold parseRoutes; exact noPanic_ok _
  | l :: ls => by
    unfold parseRoutes
    exact NoPanic.bind (parseRoute_noPanic l) fun r =>
      NoPanic.bind (parseRoutes_noPanic ls) fun rs => noPanic_ok _

theorem firstChar_noPanic (site : String) (w : Str) (h : w ≠ []) : NoPanic (firstChar site w) := by
  unfold firstChar
  split
  · exact noPanic_ok _
  · exact absurd rfl h

/-- `takeArgs`: no panic on non-empty words; the rest is no longer than the input and consists
of input words. -/
theorem takeArgs_spec : ∀ ws : List Str, (∀ w ∈ ws, w ≠ []) →
    NoPanic (takeArgs ws) ∧
    ∀ x, takeArgs ws = .ok x → x.2.length ≤ ws.length ∧ ∀ w ∈ x.2, w ∈ ws
  | [], _ => by
    unfold takeArgs
    refine ⟨noPanic_ok _, ?_⟩
    intro x h
    cases h
    simp
  | w :: ws, hne => by
    have hw : w ≠ [] := hne w (by simp)
    have hws : ∀ x ∈ ws, x ≠ [] := fun x hx => hne x (List.mem_cons_of_mem _ hx)
    obtain ⟨ih1, ih2⟩ := takeArgs_spec ws hws
    unfold takeArgs
    cases w with
    | nil => exact absurd rfl hw
    | cons c tl =>
      simp only [firstChar, Res.bind]
      split
      · cases hta : takeArgs ws with
        | panic q => exact absurd hta (ih1 q)
        | diag m =>
          refine ⟨noPanic_diag _, ?_⟩
          intro x h; cases h
        | ok p =>
          refine ⟨noPanic_ok _, ?_⟩
          intro x h
          cases h
          obtain ⟨hl, hm⟩ := ih2 p hta
          exact ⟨by simp; omega, fun x hx => List.mem_cons_of_mem _ (hm x hx)⟩
      · refine ⟨noPanic_ok _, ?_⟩
        intro x h
        cases h
        exact ⟨Nat.le_refl _, fun x hx => hx⟩

theorem negKey_spec (line w : Str) (ws : List Str) :
    NoPanic (negKey line w ws) ∧
    ∀ x, negKey line w ws = .ok x → x.2.2.length ≤ ws.length ∧ ∀ y ∈ x.2.2, y ∈ ws := by
  unfold negKey
  split
  · split
    · exact ⟨noPanic_diag _, fun x h => by cases h⟩
    · refine ⟨noPanic_ok _, fun x h => ?_⟩
      cases h
      exact ⟨by simp, fun y hy => List.mem_cons_of_mem _ hy⟩
  · refine ⟨noPanic_ok _, fun x h => ?_⟩
    cases h
    exact ⟨Nat.le_refl _, fun y hy => hy⟩

theorem negArg_spec (neg : Str) (ws1 : List Str) (hne : ∀ w ∈ ws1, w ≠ []) :
    NoPanic (negArg neg ws1) ∧
    ∀ x, negArg neg ws1 = .ok x → x.2.length ≤ ws1.length ∧ ∀ y ∈ x.2, y ∈ ws1 := by
  unfold negArg
  split
  · rename_i a b more
    split
    · have hb : b ≠ [] := hne b (by simp)
      cases b with
      | nil => exact absurd rfl hb
      | cons c tl =>
        simp only [firstChar, Res.bind]
        split
        · refine ⟨noPanic_ok _, fun x h => ?_⟩
          cases h
          exact ⟨by simp, fun y hy => List.mem_cons_of_mem _ hy⟩
        · refine ⟨noPanic_ok _, fun x h => ?_⟩
          cases h
          exact ⟨Nat.le_refl _, fun y hy => hy⟩
    · refine ⟨noPanic_ok _, fun x h => ?_⟩
      cases h
      exact ⟨Nat.le_refl _, fun y hy => hy⟩
  · refine ⟨noPanic_ok _, fun x h => ?_⟩
    cases h
    exact ⟨Nat.le_refl _, fun y hy => hy⟩

/-- The option loop of one rule: with fuel ≥ number of words it neither panics nor runs out of
fuel (every iteration consumes the key). -/
theorem parsePairs_noPanic (line : Str) : ∀ (fuel : Nat) (ws : List Str),
    ws.length ≤ fuel → (∀ w ∈ ws, w ≠ []) → NoPanic (parsePairs line fuel ws)
  | _, [], _, _ => by unfold parsePairs; exact noPanic_ok _
  | 0, _ :: _, hl, _ => by simp at hl
  | fuel + 1, w :: ws, hl, hne => by
    have hws : ∀ x ∈ ws, x ≠ [] := fun x hx => hne x (List.mem_cons_of_mem _ hx)
    have hlen : ws.length ≤ fuel := by simp at hl; omega
    unfold parsePairs
    obtain ⟨k1, k2⟩ := negKey_spec line w ws
    refine NoPanic.bind' k1 fun r1 h1 => ?_
    obtain ⟨l1, m1⟩ := k2 r1 h1
    have hne1 : ∀ y ∈ r1.2.2, y ≠ [] := fun y hy => hws y (m1 y hy)
    obtain ⟨a1, a2⟩ := negArg_spec r1.1 r1.2.2 hne1
    refine NoPanic.bind' a1 fun r2 h2 => ?_
    obtain ⟨l2, m2⟩ := a2 r2 h2
    have hne2 : ∀ y ∈ r2.2, y ≠ [] := fun y hy => hne1 y (m2 y hy)
    obtain ⟨t1, t2⟩ := takeArgs_spec r2.2 hne2
    refine NoPanic.bind' t1 fun r3 h3 => ?_
    obtain ⟨l3, m3⟩ := t2 r3 h3
    refine NoPanic.bind (parsePairs_noPanic line fuel r3.2 (by omega) (fun y hy => hne2 y (m3 y hy))) fun ps => ?_
    exact noPanic_ok _

theorem iptLine_noPanic (st : IptSt) (raw : Str) : NoPanic (iptLine st raw) := by
  unfold iptLine
  simp only
  split
  · exact noPanic_ok _
  · rename_i c rest hline
    split
    · split
      · exact noPanic_diag _
      · exact noPanic_ok _
    · split
      · split
        · exact noPanic_diag _
        · split
          · split
            · exact noPanic_diag _
            · exact noPanic_ok _
          · exact noPanic_ok _
      · split
        · rename_i hc
          split
          · exact noPanic_diag _
          · split
            · rename_i hf
              rw [hline] at hf
              subst hc
              exact absurd hf (fields_cons_ne_nil rest (by decide))
            · rename_i w0 ws hf
              split
              · exact noPanic_diag _
              · split
                · exact noPanic_diag _
                · rename_i name opts
                  split
                  · exact noPanic_diag _
                  · refine NoPanic.bind (parsePairs_noPanic _ _ _ (Nat.le_succ _) ?_) (fun _ => noPanic_ok _)
                    intro x hx
                    apply fields_mem_ne_nil (trimSpace raw) x
                    rw [hf]
                    exact List.mem_cons_of_mem _ (List.mem_cons_of_mem _ hx)
        · split
          · exact noPanic_ok _
          · split
            · exact noPanic_ok _
            · exact noPanic_diag _

theorem iptLines_noPanic : ∀ (ls : List Str) (st : IptSt), NoPanic (iptLines st ls)
  | [], st => by unfold iptLines; exact noPanic_ok _
  | l :: ls, st => by
    unfold iptLines
    exact NoPanic.bind (iptLine_noPanic st l) (fun st' => iptLines_noPanic ls st')

/-- `ParseConfig` of package linux: no Go panic for ANY file content. -/
theorem parseConfig_noPanic (data : Str) : NoPanic (parseConfig data) := by
  unfold parseConfig
  exact NoPanic.bind (parseRoutes_noPanic _) fun _ =>
    NoPanic.bind (iptLines_noPanic _ _) fun _ => noPanic_ok _

/-- `MergeSpoc`: the search for the insert position of `[APPEND]` rules stops at index 0. -/
theorem appendIndex_noPanic : ∀ revDrop : List Bool, NoPanic (appendIndex true revDrop)
  | [] => by simp [appendIndex]; exact noPanic_ok _
  | d :: rest => by
    unfold appendIndex
    split
    · exact appendIndex_noPanic rest
    · exact noPanic_ok _

/-- … and the result is an index into the chain (`slices.Insert(rules, i, ru)` needs `i ≤ len`). -/
theorem appendIndex_le : ∀ (revDrop : List Bool) (i : Nat), appendIndex true revDrop = .ok i → i ≤ revDrop.length
  | [], i, h => by simp [appendIndex] at h; omega
  | d :: rest, i, h => by
    unfold appendIndex at h
    split at h
    · have := appendIndex_le rest i h
      simp; omega
    · cases h; simp

end NA.C20.Linux
