import NA.Proofs.C03Out
import NA.Proofs.C03Names
/-
C03: the whole of `diffConfig` (`planVsys`): shape of the script (objects first, rule requests
in the middle, removals last), and its order-relevant requests.  Core Lean only.
-/
namespace NA.PanOs

theorem foldl_out {β : Type} (f : St → β → St) (hf : ∀ s x, (f s x).out = s.out) :
    ∀ (l : List β) (s : St), (l.foldl f s).out = s.out := by
  intro l
  induction l with
  | nil => intro s; rfl
  | cons x xs ih => intro s; simp only [List.foldl_cons]; rw [ih, hf]

theorem markAddrs_out : ∀ (fuel : Nat) (st : St) (l : List String), (markAddrs fuel st l).out = st.out := by
  intro fuel
  induction fuel with
  | zero => intro st l; rfl
  | succ fuel ih =>
    intro st l
    rw [markAddrs]
    apply foldl_out
    intro s name
    split
    · rw [ih]
    · split
      · rfl
      · split
        · dsimp only
          split <;> rfl
        · rfl

theorem markSrvs_out : ∀ (fuel : Nat) (st : St) (l : List String), (markSrvs fuel st l).out = st.out := by
  intro fuel
  induction fuel with
  | zero => intro st l; rfl
  | succ fuel ih =>
    intro st l
    rw [markSrvs]
    apply foldl_out
    intro s name
    split
    · dsimp only
      split
      · split
        · simp only [ih]
        · simp only [ih]
      · simp only [ih]
    · split
      · rfl
      · split
        · dsimp only
          split <;> rfl
        · rfl

theorem markObjects_out (fuel : Nat) (st : St) (rules : List Rule) :
    (markObjects fuel st rules).out = st.out := by
  unfold markObjects
  apply foldl_out
  intro s r
  rw [markSrvs_out, markAddrs_out, markAddrs_out]

/-! ### Kinds of requests -/

/-- Requests that create or change an object definition. -/
def Cmd.isTransfer : Cmd → Bool
  | .setAddr .. | .editAddr .. | .setGrp .. | .setSvc .. | .editSvc .. | .setSGrp .. => true
  | _ => false

/-- Requests that remove an object definition. -/
def Cmd.isRemoval : Cmd → Bool
  | .delGrp .. | .delAddr .. | .delSGrp .. | .delSvc .. => true
  | _ => false

/-- Requests that touch the rulebase or a member list. -/
def Cmd.isRuleCmd (c : Cmd) : Bool := c.isMember || (ordOf c).isSome

theorem transferCmds_kind (st : St) : ∀ c ∈ transferCmds st, c.isTransfer = true := by
  intro c hc
  simp only [transferCmds, List.mem_append, List.mem_filterMap] at hc
  rcases hc with ((⟨o, _, h⟩ | ⟨g, _, h⟩) | ⟨o, _, h⟩) | ⟨g, _, h⟩
  · split at h
    · cases h; rfl
    · split at h
      · cases h; rfl
      · cases h
  · split at h
    · cases h; rfl
    · cases h
  · split at h
    · cases h; rfl
    · split at h
      · cases h; rfl
      · cases h
  · split at h
    · cases h; rfl
    · cases h

theorem removeCmds_kind (st : St) : ∀ c ∈ removeCmds st, c.isRemoval = true := by
  intro c hc
  simp only [removeCmds, List.mem_append, List.mem_filterMap] at hc
  rcases hc with ((⟨o, _, h⟩ | ⟨g, _, h⟩) | ⟨o, _, h⟩) | ⟨g, _, h⟩ <;>
  · split at h
    · cases h; rfl
    · cases h

theorem filterMap_ordOf_nil_of {l : List Cmd} (h : ∀ c ∈ l, ordOf c = none) : l.filterMap ordOf = [] := by
  rw [List.filterMap_eq_nil_iff]; exact h

theorem isTransfer_ordOf {c : Cmd} (h : c.isTransfer = true) : ordOf c = none := by
  cases c <;> simp_all [Cmd.isTransfer, ordOf]

theorem isRemoval_ordOf {c : Cmd} (h : c.isRemoval = true) : ordOf c = none := by
  cases c <;> simp_all [Cmd.isRemoval, ordOf]

/-! ### The rule names the planner works with -/

theorem sortVsys_ruleNames (v : Vsys) : ruleNames (sortVsys v).rules = ruleNames v.rules := by
  simp [sortVsys, ruleNames, List.map_map, Function.comp_def]

theorem zip_rename_names (rules : List Rule) (names : List String) (h : names.length = rules.length) :
    ruleNames ((rules.zip names).map (fun (r, n) => { r with name := n })) = names := by
  induction rules generalizing names with
  | nil => cases names <;> simp_all [ruleNames]
  | cons r rs ih =>
    cases names with
    | nil => simp at h
    | cons n ns =>
      simp only [List.length_cons, Nat.add_right_cancel_iff] at h
      have := ih ns h
      simp only [ruleNames, List.zip_cons_cons, List.map_cons] at this ⊢
      rw [this]

/-- The edit script `diffConfig` obtains for the rule lists of `a` and `b`. -/
def ruleScript (diff : Differ) (a0 b0 : Vsys) : List Range :=
  let a := sortVsys a0
  let b := sortVsys b0
  let newRuleNames := uniqNames (ruleNames a.rules) (ruleNames b.rules)
  let bRules := (b.rules.zip newRuleNames).map (fun (r, n) => { r with name := n })
  diff a.rules.length bRules.length
    (fun i j => ruleEqual a b (a.rules.getD i default) (bRules.getD j default))

/-- The new names of the target's rules. -/
def newRuleNames (a b : Vsys) : List String := uniqNames (ruleNames a.rules) (ruleNames b.rules)

theorem uniqNamesFrom_length (taken : List String) : ∀ (names used : List String),
    (uniqNamesFrom taken used names).length = names.length := by
  intro names
  induction names with
  | nil => intro used; rfl
  | cons n ns ih =>
    intro used
    simp only [uniqNamesFrom]
    split <;> simp [ih]

theorem uniqNames_length (taken names : List String) : (uniqNames taken names).length = names.length :=
  uniqNamesFrom_length taken names _

/-- **The order-relevant requests of the whole plan** are the `orderOps` of the rule script. -/
theorem planVsys_ord (diff : Differ) (a b : Vsys) :
    (planVsys diff a b).filterMap ordOf =
      orderOps (ruleNames a.rules) (newRuleNames a b) (ruleScript diff a b) := by
  unfold planVsys
  simp only [List.filterMap_append]
  rw [filterMap_ordOf_nil_of (fun c hc => isTransfer_ordOf (transferCmds_kind _ c hc)),
    filterMap_ordOf_nil_of (fun c hc => isRemoval_ordOf (removeCmds_kind _ c hc))]
  simp only [List.nil_append, List.append_nil]
  unfold planState
  simp only
  rw [diffRules_ord]
  rw [markObjects_out]
  have hlen : (uniqNames (ruleNames (sortVsys a).rules) (ruleNames (sortVsys b).rules)).length =
      (sortVsys b).rules.length := by
    rw [uniqNames_length]; simp [ruleNames]
  rw [zip_rename_names _ _ hlen]
  simp [initSt, ruleScript, newRuleNames, sortVsys_ruleNames]

/-- **Objects before rules, removals last.**  `diffConfig` returns: definitions of objects
(set / edit of addresses, groups, services, service-groups), then requests on rules and member
lists, then removals of objects. -/
theorem planVsys_shape (diff : Differ) (a b : Vsys) :
    ∃ t m r, planVsys diff a b = t ++ m ++ r ∧
      (∀ c ∈ t, c.isTransfer = true) ∧ (∀ c ∈ r, c.isRemoval = true) ∧
      t = transferCmds (planState diff a b) ∧ m = (planState diff a b).out ∧
      r = removeCmds (planState diff a b) :=
  ⟨_, _, _, rfl, transferCmds_kind _, removeCmds_kind _, rfl, rfl, rfl⟩

end NA.PanOs
