import NA.Proofs.C03Out
import NA.Proofs.C03Names
/-
C03: the whole of `diffConfig` (`planVsys`): shape of the script (objects first, rule requests
in the middle, removals last), and its order-relevant requests.  Core Lean only.
-/
namespace NA.PanOs

theorem foldl_out {β : Type} (f : St → β → St) (hf : ∀ s x, (f s x).out = s.out) :
    ∀ (l : List β) (s : St), (l.foldl f s).out = s.out := by
  intro l
  induction l with
  | nil => intro s; rfl
  | cons x xs ih => intro s; simp only [List.foldl_cons]; rw [ih, hf]

theorem markAddrs_out : ∀ (fuel : Nat) (st : St) (l : List String), (markAddrs fuel st l).out = st.out := by
  intro fuel
  induction fuel with
  | zero => intro st l; rfl
  | succ fuel ih =>
    intro st l
    rw [markAddrs]
    apply foldl_out
    intro s name
    split
    · rw [ih]
    · split
      · rfl
      · split
        · dsimp only
          split <;> rfl
        · rfl

theorem markSrvs_out : ∀ (fuel : Nat) (st : St) (l : List String), (markSrvs fuel st l).out = st.out := by
  intro fuel
  induction fuel with
  | zero => intro st l; rfl
  | succ fuel ih =>
    intro st l
    rw [markSrvs]
    apply foldl_out
    intro s name
    split
    · dsimp only
      split
      · split
        · simp only [ih]
        · simp only [ih]
      · simp only [ih]
    · split
      · rfl
      · split
        · dsimp only
          split <;> rfl
        · rfl

theorem markObjects_out (fuel : Nat) (st : St) (rules : List Rule) :
    (markObjects fuel st rules).out = st.out := by
  unfold markObjects
  apply foldl_out
  intro s r
  rw [markSrvs_out, markAddrs_out, markAddrs_out]

/-! ### Kinds of requests -/

/-- Requests that create or change an object definition. -/
def Cmd.isTransfer : Cmd → Bool
  | .setAddr .. | .editAddr .. | .setGrp .. | .setSvc .. | .editSvc .. | .setSGrp .. => true
  | _ => false

/-- Requests that remove an object definition. -/
def Cmd.isRemoval : Cmd → Bool
  | .delGrp .. | .delAddr .. | .delSGrp .. | .delSvc .. => true
  | _ => false

/-- Requests that touch the rulebase or a member list. -/
def Cmd.isRuleCmd (c : Cmd) : Bool := c.isMember || (ordOf c).isSome

theorem transferCmds_kind (st : St) : ∀ c ∈ transferCmds st, c.isTransfer = true := by
  intro c hc
  simp only [transferCmds, List.mem_append, List.mem_filterMap] at hc
  rcases hc with ((⟨o, _, h⟩ | ⟨g, _, h⟩) | ⟨o, _, h⟩) | ⟨g, _, h⟩
  · split at h
    · cases h; rfl
    · split at h
      · cases h; rfl
      · cases h
  · split at h
    · cases h; rfl
    · cases h
  · split at h
    · cases h; rfl
    · split at h
      · cases h; rfl
      · cases h
  · split at h
    · cases h; rfl
    · cases h

theorem removeCmds_kind (st : St) : ∀ c ∈ removeCmds st, c.isRemoval = true := by
  intro c hc
  simp only [removeCmds, List.mem_append, List.mem_filterMap] at hc
  rcases hc with ((⟨o, _, h⟩ | ⟨g, _, h⟩) | ⟨o, _, h⟩) | ⟨g, _, h⟩ <;>
  · split at h
    · cases h; rfl
    · cases h

theorem filterMap_ordOf_nil_of {l : List Cmd} (h : ∀ c ∈ l, ordOf c = none) : l.filterMap ordOf = [] := by
  rw [List.filterMap_eq_nil_iff]; exact h

theorem isTransfer_ordOf {c : Cmd} (h : c.isTransfer = true) : ordOf c = none := by
  cases c <;> simp_all [Cmd.isTransfer, ordOf]

theorem isRemoval_ordOf {c : Cmd} (h : c.isRemoval = true) : ordOf c = none := by
  cases c <;> simp_all [Cmd.isRemoval, ordOf]

/-! ### The rule names the planner works with -/

theorem sortVsys_ruleNames (v : Vsys) : ruleNames (sortVsys v).rules = ruleNames v.rules := by
  simp [sortVsys, ruleNames, List.map_map, Function.comp_def]

theorem zip_rename_names (rules : List Rule) (names : List String) (h : names.length = rules.length) :
    ruleNames ((rules.zip names).map (fun (r, n) => { r with name := n })) = names := by
  induction rules generalizing names with
  | nil => cases names <;> simp_all [ruleNames]
  | cons r rs ih =>
    cases names with
    | nil => simp at h
    | cons n ns =>
      simp only [List.length_cons, Nat.add_right_cancel_iff] at h
      have := ih ns h
      simp only [ruleNames, List.zip_cons_cons, List.map_cons] at this ⊢
      rw [this]

/-- The edit script `diffConfig` obtains for the rule lists of `a` and `b`. -/
def ruleScript (diff : Differ) (a0 b0 : Vsys) : List Range :=
  let a := sortVsys a0
  let b := sortVsys b0
  let newRuleNames := uniqNames (ruleNames a.rules) (ruleNames b.rules)
  let bRules := (b.rules.zip newRuleNames).map (fun (r, n) => { r with name := n })
  diff a.rules.length bRules.length
    (fun i j => ruleEqual a b (a.rules.getD i default) (bRules.getD j default))

/-- The new names of the target's rules. -/
def newRuleNames (a b : Vsys) : List String := uniqNames (ruleNames a.rules) (ruleNames b.rules)

theorem uniqNamesFrom_length (taken : List String) : ∀ (names used : List String),
    (uniqNamesFrom taken used names).length = names.length := by
  intro names
  induction names with
  | nil => intro used; rfl
  | cons n ns ih =>
    intro used
    simp only [uniqNamesFrom]
    split <;> simp [ih]

theorem uniqNames_length (taken names : List String) : (uniqNames taken names).length = names.length :=
  uniqNamesFrom_length taken names _

theorem groupNamesFor_length (a b : Vsys) : (groupNamesFor a b).length = b.groups.length := by
  unfold groupNamesFor
  rw [uniqNamesFrom_length]
  simp

/-- **The order-relevant requests of the whole plan** are the `orderOps` of the rule script. -/
theorem planVsys_ord (diff : Differ) (a b : Vsys) :
    (planVsys diff a b).filterMap ordOf =
      orderOps (ruleNames a.rules) (newRuleNames a b) (ruleScript diff a b) := by
  unfold planVsys
  simp only [List.filterMap_append]
  rw [filterMap_ordOf_nil_of (fun c hc => isTransfer_ordOf (transferCmds_kind _ c hc)),
    filterMap_ordOf_nil_of (fun c hc => isRemoval_ordOf (removeCmds_kind _ c hc))]
  simp only [List.nil_append, List.append_nil]
  unfold planState
  simp only
  rw [diffRules_ord]
  rw [markObjects_out]
  have hlen : (uniqNames (ruleNames (sortVsys a).rules) (ruleNames (sortVsys b).rules)).length =
      (sortVsys b).rules.length := by
    rw [uniqNames_length]; simp [ruleNames]
  rw [zip_rename_names _ _ hlen]
  simp [initSt, ruleScript, newRuleNames, sortVsys_ruleNames]

/-- **Objects before rules, removals last.**  `diffConfig` returns: definitions of objects
(set / edit of addresses, groups, services, service-groups), then requests on rules and member
lists, then removals of objects. -/
theorem planVsys_shape (diff : Differ) (a b : Vsys) :
    ∃ t m r, planVsys diff a b = t ++ m ++ r ∧
      (∀ c ∈ t, c.isTransfer = true) ∧ (∀ c ∈ r, c.isRemoval = true) ∧
      t = transferCmds (planState diff a b) ∧ m = (planState diff a b).out ∧
      r = removeCmds (planState diff a b) :=
  ⟨_, _, _, rfl, transferCmds_kind _, removeCmds_kind _, rfl, rfl, rfl⟩

end NA.PanOs

namespace NA.PanOs

/-! ### The rule part of the plan only holds rule / member requests -/

def ExtR (st st' : St) : Prop := ∃ cs, st'.out = st.out ++ cs ∧ ∀ c ∈ cs, c.isRuleCmd = true

theorem ExtR.refl (st : St) : ExtR st st := ⟨[], by simp, by simp⟩

theorem ExtR.trans {a b c : St} (h₁ : ExtR a b) (h₂ : ExtR b c) : ExtR a c := by
  obtain ⟨c1, e1, m1⟩ := h₁
  obtain ⟨c2, e2, m2⟩ := h₂
  refine ⟨c1 ++ c2, by rw [e2, e1, List.append_assoc], ?_⟩
  intro x hx
  rcases List.mem_append.mp hx with h | h
  · exact m1 x h
  · exact m2 x h

theorem Ext.toR {a b : St} (h : Ext a b) : ExtR a b := by
  obtain ⟨cs, e, m⟩ := h
  exact ⟨cs, e, fun c hc => by simp [Cmd.isRuleCmd, m c hc]⟩

theorem ExtR.of_out_eq {a b : St} (h : b.out = a.out) : ExtR a b := ⟨[], by simp [h], by simp⟩

theorem foldl_extR {β : Type} (f : St → β → St) (hf : ∀ s x, ExtR s (f s x)) :
    ∀ (l : List β) (s : St), ExtR s (l.foldl f s) := by
  intro l
  induction l with
  | nil => intro s; exact ExtR.refl s
  | cons x xs ih => intro s; exact (hf s x).trans (ih _)

theorem rulePhase1_extR (diff : Differ) (fuel : Nat) (a b : Vsys) (aRules bRules : List Rule) :
    ∀ (rs : List Range) (acc : St × Nat × List InsGroup),
      ExtR acc.1 (rs.foldl (phase1Step diff fuel aRules bRules) acc).1 := by
  intro rs
  induction rs with
  | nil => intro acc; exact ExtR.refl _
  | cons r rs ih =>
    intro acc
    obtain ⟨st, d, ins⟩ := acc
    simp only [List.foldl_cons]
    refine ExtR.trans ?_ (ih _)
    cases hk : r.kind with
    | del =>
      rw [phase1Step_del _ _ _ _ _ _ _ _ hk]
      refine ⟨_, rfl, ?_⟩
      intro c hc
      obtain ⟨ru, _, rfl⟩ := List.mem_map.mp hc
      rfl
    | ins => rw [phase1Step_ins _ _ _ _ _ _ _ _ hk]; exact ExtR.refl _
    | eq =>
      rw [phase1Step_eq _ _ _ _ _ _ _ _ hk]
      exact foldl_extR _ (fun s k => (equalize_ext diff fuel s _ _).toR) _ _

theorem ExtR.emit (st : St) (c : Cmd) (h : c.isRuleCmd = true) : ExtR st (st.emit c) :=
  ⟨[c], rfl, by simpa using h⟩

theorem rulePhase2_extR (bRules : List Rule) (inserts : List InsGroup) (st : St) :
    ExtR st (rulePhase2 st bRules inserts) := by
  unfold rulePhase2
  apply foldl_extR
  intro s g
  unfold insertGroup
  apply foldl_extR
  intro s ru
  obtain ⟨src, dst, h⟩ := insertRule_out g.anchor s ru
  refine ⟨_, h, ?_⟩
  intro c hc
  cases hg : g.anchor with
  | none =>
    simp only [hg, List.mem_cons, List.not_mem_nil, or_false] at hc
    subst hc; rfl
  | some d =>
    simp only [hg, List.mem_cons, List.not_mem_nil, or_false] at hc
    rcases hc with rfl | rfl <;> rfl

theorem planState_out_kind (diff : Differ) (a b : Vsys) :
    ∀ c ∈ (planState diff a b).out, c.isRuleCmd = true := by
  unfold planState diffRules rulePhase1
  simp only
  generalize diff _ _ _ = rs
  have h0 : (markObjects (planFuel (sortVsys a) (sortVsys b))
      (initSt (sortVsys a) (sortVsys b)
        (groupNamesFor (sortVsys a) (sortVsys b)))
      (sortVsys b).rules).out = [] := by
    rw [markObjects_out]; rfl
  have h1 := rulePhase1_extR diff (planFuel (sortVsys a) (sortVsys b)) (sortVsys a) (sortVsys b) (sortVsys a).rules
    (((sortVsys b).rules.zip (uniqNames (ruleNames (sortVsys a).rules) (ruleNames (sortVsys b).rules))).map
      (fun (r, n) => { r with name := n })) rs
    (markObjects (planFuel (sortVsys a) (sortVsys b))
      (initSt (sortVsys a) (sortVsys b)
        (groupNamesFor (sortVsys a) (sortVsys b)))
      (sortVsys b).rules, 0, [])
  revert h1
  generalize (rs.foldl _ _) = res
  obtain ⟨s, d, ins⟩ := res
  intro h1
  simp only at h1 ⊢
  obtain ⟨cs, e, m⟩ := h1.trans (rulePhase2_extR _ ins s)
  rw [e, h0]
  simpa using m

/-! ### Go maps -/

theorem lastIdxFrom_spec (n : String) : ∀ (l : List String) (k : Nat) (acc : Option Nat) (i : Nat),
    lastIdxFrom n l k acc = some i → acc = some i ∨ (k ≤ i ∧ l[i - k]? = some n) := by
  intro l
  induction l with
  | nil => intro k acc i h; exact Or.inl (by simpa [lastIdxFrom] using h)
  | cons x xs ih =>
    intro k acc i h
    simp only [lastIdxFrom] at h
    rcases ih (k + 1) _ i h with h1 | ⟨h1, h2⟩
    · split at h1
      · rename_i hx
        simp only [Option.some.injEq] at h1
        subst h1
        exact Or.inr ⟨Nat.le_refl _, by simpa using hx⟩
      · exact Or.inl h1
    · refine Or.inr ⟨by omega, ?_⟩
      have : i - k = (i - (k + 1)) + 1 := by omega
      rw [this]
      simpa using h2

theorem lastIdx_spec {names : List String} {n : String} {i : Nat} (h : lastIdx names n = some i) :
    names[i]? = some n := by
  rcases lastIdxFrom_spec n names 0 none i h with h | ⟨_, h⟩
  · cases h
  · simpa using h

theorem vsysMap_mem {vs : List Vsys} {n : String} {v : Vsys} (h : vsysMap vs n = some v) :
    v ∈ vs ∧ v.name = n := by
  unfold vsysMap at h
  cases hi : lastIdx (vs.map (·.name)) n with
  | none => simp [hi] at h
  | some i =>
    simp only [hi, Option.bind_some] at h
    have hn := lastIdx_spec hi
    rw [List.getElem?_map, h] at hn
    exact ⟨List.mem_of_getElem? h, by simpa using hn⟩

end NA.PanOs

namespace NA.PanOs

/-- What the planner may assume about `myers.Diff` (DESIGN.md 5.1): whatever the two lengths
and the `Equal` method, the script is valid and normalised. -/
def GoodDiffer (diff : Differ) : Prop :=
  ∀ n m eq, validScript eq n m (diff n m eq) = true ∧ normalised (diff n m eq) = true

theorem newRuleNames_length (a b : Vsys) : (newRuleNames a b).length = b.rules.length := by
  simp [newRuleNames, uniqNames_length, ruleNames]

theorem ruleScript_good (diff : Differ) (hd : GoodDiffer diff) (a b : Vsys) :
    ∃ eq, validScript eq (ruleNames a.rules).length (newRuleNames a b).length (ruleScript diff a b) = true ∧
      normalised (ruleScript diff a b) = true := by
  have hA : (ruleNames a.rules).length = (sortVsys a).rules.length := by simp [sortVsys, ruleNames]
  have hB : (newRuleNames a b).length =
      (((sortVsys b).rules.zip (uniqNames (ruleNames (sortVsys a).rules)
        (ruleNames (sortVsys b).rules))).map (fun (r, n) => { r with name := n })).length := by
    simp [newRuleNames, uniqNames_length, ruleNames, sortVsys]
  rw [hA, hB]
  exact ⟨_, hd _ _ _⟩

end NA.PanOs
