import NA.Proofs.F2Final
/-!
# F2: a statically settled pair of configurations gives the empty script (`ios_F2_quiet`)
-/
namespace NA.F2
open NA.F1 (lookupD sortS isTagged diffUnordered slice lastIdx)
open NA.Acl (Range)

/-- A decision that prints nothing: the line planner had nothing to do. -/
def QuietAct (act : MA) : Prop := ∃ aN al bl rs, act = .edit aN al bl rs ∧ editEvents aN al bl rs = [.reset]

theorem quiet_events (al bl : List ALine) (rs : List Range) (aN : Name) (h : quietLines al bl rs = true)
    (hne : (al.isEmpty && bl.isEmpty) = false) : editEvents aN al bl rs = [.reset] := by
  simp only [quietLines, hne, Bool.false_or, Bool.and_eq_true, Bool.not_eq_true'] at h
  obtain ⟨hal, hm⟩ := h
  unfold editEvents
  simp only [hal, Bool.false_eq_true, ↓reduceIte]
  cases hc : pairCells al bl rs with
  | none => rw [hc] at hm; cases hm
  | some M =>
    rw [hc] at hm
    simp only [Bool.and_eq_true] at hm
    simp only [hm.1, Bool.not_true, Bool.false_eq_true, ↓reduceIte, hm.2]

theorem render_resets (m : Option Mode) (evs : List Ev) (h : ∀ e ∈ evs, e = .reset) : render m evs = [] := by
  induction evs generalizing m with
  | nil => rfl
  | cons e es ih =>
    have := h e (List.mem_cons_self ..)
    subst this
    simp only [render, renderEv, List.nil_append]
    exact ih none (fun e' he' => h e' (List.mem_cons_of_mem _ he'))

theorem scriptOf_quiet (acts : List MA) (h : ∀ act ∈ acts, QuietAct act) : scriptOf acts = [] := by
  apply render_resets
  intro ev hev
  obtain ⟨act, hact, hev'⟩ := List.mem_flatMap.mp hev
  obtain ⟨aN, al, bl, rs, rfl, hq⟩ := h act hact
  simp only [expand, hq, List.mem_singleton] at hev'
  exact hev'

/-- Marks of a run in which nothing has been printed. `cp`: compared ACL pairs, `prot`: ACLs bound by
interfaces without partner. -/
structure QInv (cp : List (Name × Name)) (prot : List Name) (st : St) : Prop where
  acts : ∀ act ∈ st.acts, QuietAct act
  toDel : st.aToDel = []
  ready : ∀ bN ∈ st.aReady, ∃ aN, (aN, bN) ∈ cp ∧ st.nameOf bN = aN ∧ aN ∈ st.aNeeded
  needed : ∀ aN ∈ st.aNeeded, aN ∈ prot ∨ ∃ bN ∈ st.aReady, (aN, bN) ∈ cp ∧ st.nameOf bN = aN

structure QEnv (e : Env) (cp : List (Name × Name)) (prot : List Name) : Prop where
  oneToOne : ∀ p ∈ cp, ∀ q ∈ cp, (p.1 = q.1 ↔ p.2 = q.2)
  notProt : ∀ p ∈ cp, p.1 ∉ prot
  quiet : ∀ p ∈ cp, quietLines (e.a.lines p.1) (e.b.lines p.2) (lookupD e.sc.acl p) = true

theorem qinv_hit {cp : List (Name × Name)} {prot : List Name} {st : St} (h : QInv cp prot st) (s : String) :
    QInv cp prot (st.hit s) := ⟨h.acts, h.toDel, h.ready, h.needed⟩

theorem quiet_makeEqualBind {e : Env} {cp : List (Name × Name)} {prot : List Name} (hq : QEnv e cp prot)
    {st : St} (h : QInv cp prot st) (i k : Nat) (x : String) (a b : Bind) (hcp : (a.acl, b.acl) ∈ cp)
    (ha : e.a.hasAcl a.acl = true) (hb : e.b.hasAcl b.acl = true) :
    QInv cp prot (makeEqualBind e st i k x a b) ∧ a.acl ∈ (makeEqualBind e st i k x a b).aNeeded ∧
      (∀ n ∈ st.aNeeded, n ∈ (makeEqualBind e st i k x a b).aNeeded) := by
  unfold makeEqualBind
  simp only [ha, hb, Bool.and_self, ↓reduceIte]
  obtain ⟨st1, hst1⟩ : ∃ st1 : St, st1 = { st with bNeeded := (i, k) :: st.bNeeded } := ⟨_, rfl⟩
  rw [← hst1]
  have h1 : QInv cp prot st1 := by rw [hst1]; exact ⟨h.acts, h.toDel, h.ready, h.needed⟩
  have hN1 : st1.aNeeded = st.aNeeded := by rw [hst1]
  unfold diffAcl
  by_cases hn : st1.aNeeded.contains a.acl = true
  · -- the device ACL is taken: by the very same target ACL
    simp only [hn, ↓reduceIte]
    have hmem : a.acl ∈ st1.aNeeded := by simpa using hn
    rcases h1.needed _ hmem with hp | ⟨bN', hr', hc', hname'⟩
    · exact absurd hp (hq.notProt _ hcp)
    · have hbb : bN' = b.acl := ((hq.oneToOne _ hc' _ hcp).mp rfl)
      rw [hbb] at hr' hname'
      have hr2 : b.acl ∈ (st1.hit "acl:device-acl-needed").aReady := hr'
      have hrc : (st1.hit "acl:device-acl-needed").aReady.contains b.acl = true := by simpa using hr2
      simp only [transferAcl, hrc, ↓reduceIte]
      have hname : (st1.hit "acl:device-acl-needed").nameOf b.acl = a.acl := hname'
      simp only [hname, bne_self_eq_false, Bool.false_eq_true, ↓reduceIte]
      exact ⟨qinv_hit h1 _, hmem, fun n hn' => by rw [← hN1] at hn'; exact hn'⟩
  · simp only [hn, Bool.false_eq_true, ↓reduceIte]
    have hnn : a.acl ∉ st1.aNeeded := by simpa using hn
    by_cases hr : st1.aReady.contains b.acl = true
    · exfalso
      have hmem : b.acl ∈ st1.aReady := by simpa using hr
      obtain ⟨aN', hc', _, hn'⟩ := h1.ready _ hmem
      have : aN' = a.acl := (hq.oneToOne _ hc' _ hcp).mpr rfl
      exact hnn (this ▸ hn')
    · simp only [hr, Bool.false_eq_true, ↓reduceIte, bne_self_eq_false]
      have hnr : b.acl ∉ st1.aReady := by simpa using hr
      have hql := hq.quiet _ hcp
      -- the state after adoption and `diffLines`
      have hfields : (diffLines e (adoptSt st1 a.acl b.acl) a.acl b.acl).aNeeded = a.acl :: st1.aNeeded ∧
          (diffLines e (adoptSt st1 a.acl b.acl) a.acl b.acl).aName = (b.acl, a.acl) :: st1.aName ∧
          (diffLines e (adoptSt st1 a.acl b.acl) a.acl b.acl).aReady = b.acl :: st1.aReady ∧
          (diffLines e (adoptSt st1 a.acl b.acl) a.acl b.acl).aToDel = st1.aToDel := by
        unfold diffLines
        simp only
        split <;> exact ⟨rfl, rfl, rfl, rfl⟩
      obtain ⟨f1, f2, f3, f4⟩ := hfields
      have hacts : ∀ act ∈ (diffLines e (adoptSt st1 a.acl b.acl) a.acl b.acl).acts, QuietAct act := by
        unfold diffLines
        simp only
        by_cases hemp : ((e.a.lines a.acl).isEmpty && (e.b.lines b.acl).isEmpty) = true
        · simp only [hemp, ↓reduceIte]
          exact h1.acts
        · simp only [hemp, Bool.false_eq_true, ↓reduceIte]
          intro act hact
          have : act ∈ st1.acts ++ [MA.edit a.acl (e.a.lines a.acl) (e.b.lines b.acl) (lookupD e.sc.acl (a.acl, b.acl))] := hact
          rcases List.mem_append.mp this with h2 | h2
          · exact h1.acts act h2
          · simp only [List.mem_singleton] at h2
            exact ⟨_, _, _, _, h2, quiet_events _ _ _ _ hql (by simpa using hemp)⟩
      have hname_b : ∀ s : St, s.aName = (b.acl, a.acl) :: st1.aName → s.nameOf b.acl = a.acl := by
        intro s hs; simp [St.nameOf, hs]
      have hname_o : ∀ s : St, s.aName = (b.acl, a.acl) :: st1.aName → ∀ y, y ≠ b.acl → s.nameOf y = st1.nameOf y := by
        intro s hs y hy
        have : (y == b.acl) = false := by simpa using hy
        simp [St.nameOf, hs, List.lookup, this]
      refine ⟨⟨hacts, by rw [f4]; exact h1.toDel, ?_, ?_⟩, by rw [f1]; simp, fun n hn' => by rw [f1, hN1]; simp [hn']⟩
      · intro bN hbN
        rw [f3] at hbN
        rcases List.mem_cons.mp hbN with rfl | hbN'
        · exact ⟨a.acl, hcp, hname_b _ f2, by rw [f1]; simp⟩
        · obtain ⟨aN', hc', hn1, hn2⟩ := h1.ready bN hbN'
          have hne : bN ≠ b.acl := fun hc => hnr (hc ▸ hbN')
          exact ⟨aN', hc', by rw [hname_o _ f2 bN hne]; exact hn1, by rw [f1]; simp [hn2]⟩
      · intro aN haN
        rw [f1] at haN
        rcases List.mem_cons.mp haN with rfl | haN'
        · exact Or.inr ⟨b.acl, by rw [f3]; simp, hcp, hname_b _ f2⟩
        · rcases h1.needed aN haN' with hp | ⟨bN, hr1, hc1, hn1⟩
          · exact Or.inl hp
          · have hne : bN ≠ b.acl := fun hc => hnr (hc ▸ hr1)
            exact Or.inr ⟨bN, by rw [f3]; simp [hr1], hc1, by rw [hname_o _ f2 bN hne]; exact hn1⟩


/-- Equalising pairs of sub-commands of one interface pair without printing. -/
theorem quiet_pairs {e : Env} {cp : List (Name × Name)} {prot : List Name} (hq : QEnv e cp prot)
    (i : Nat) (x : String) (al : List Bind) (ps : List (Nat × Bind))
    (hps : ∀ p ∈ ps, ((al.getD p.1 default).acl, p.2.acl) ∈ cp ∧ e.a.hasAcl (al.getD p.1 default).acl = true ∧
      e.b.hasAcl p.2.acl = true)
    {st : St} (h : QInv cp prot st) :
    QInv cp prot (ps.foldl (fun st p => makeEqualBind e st i p.1 x (al.getD p.1 default) p.2) st) ∧
    (∀ p ∈ ps, (al.getD p.1 default).acl ∈ (ps.foldl (fun st p => makeEqualBind e st i p.1 x (al.getD p.1 default) p.2) st).aNeeded) ∧
    (∀ n ∈ st.aNeeded, n ∈ (ps.foldl (fun st p => makeEqualBind e st i p.1 x (al.getD p.1 default) p.2) st).aNeeded) := by
  induction ps generalizing st with
  | nil => exact ⟨h, by simp, fun n hn => hn⟩
  | cons p ps ih =>
    obtain ⟨h1, h2, h3⟩ := hps p (List.mem_cons_self ..)
    obtain ⟨k1, k2, k3⟩ := quiet_makeEqualBind hq h i p.1 x (al.getD p.1 default) p.2 h1 h2 h3
    obtain ⟨j1, j2, j3⟩ := ih (fun p' hp' => hps p' (List.mem_cons_of_mem _ hp')) k1
    simp only [List.foldl_cons]
    refine ⟨j1, ?_, fun n hn => j3 n (k3 n hn)⟩
    intro p' hp'
    rcases List.mem_cons.mp hp' with rfl | hp''
    · exact j3 _ k2
    · exact j2 p' hp''

theorem eq_nil_of_forall_false {α : Type} (l : List α) (h : ∀ x ∈ l, False) : l = [] := by
  cases l with
  | nil => rfl
  | cons x xs => exact (h x (List.mem_cons_self ..)).elim

/-- `diffBinds` for an interface pair that binds the same directions to compared ACLs: nothing is
printed; afterwards the ACLs of the device interface are `needed`. -/
theorem quiet_diffBinds {e : Env} {cp : List (Name × Name)} {prot : List Name} (hq : QEnv e cp prot)
    (i : Nat) (x : String) (al bl : List Bind)
    (hAn : (al.map (·.dir)).Nodup) (hAd : ∀ bd ∈ al, isDir bd.dir = true) (hAc : ∀ bd ∈ al, e.a.hasAcl bd.acl = true)
    (hB : BindsB e bl)
    (hsame1 : ∀ ba ∈ al, ba.dir ∈ bl.map (·.dir)) (hsame2 : ∀ bb ∈ bl, bb.dir ∈ al.map (·.dir))
    (hcp : ∀ ba ∈ al, ∀ bb ∈ bl, ba.dir = bb.dir → (ba.acl, bb.acl) ∈ cp)
    {st : St} (h : QInv cp prot st) :
    QInv cp prot (diffBinds e st i x al bl) ∧ (∀ ba ∈ al, ba.acl ∈ (diffBinds e st i x al bl).aNeeded) ∧
    (∀ n ∈ st.aNeeded, n ∈ (diffBinds e st i x al bl).aNeeded) := by
  obtain ⟨st0, ks, ps, bs, hst0, hcompEq, hks, _, hps, _, _, hbs, _, hcovBl⟩ :=
    diffBinds_canon e i x al bl hAn hAd hAc hB st
  have hks0 : ks = [] := eq_nil_of_forall_false ks fun k hk =>
    (hks k hk).2 (hsame1 _ (getD_mem al k (hks k hk).1))
  have hbs0 : bs = [] := eq_nil_of_forall_false bs fun b hb => (hbs b hb).2 (hsame2 b (hbs b hb).1)
  subst hks0; subst hbs0
  simp only [List.foldl_nil] at hcompEq
  have h0 : QInv cp prot st0 ∧ st0.aNeeded = st.aNeeded := by
    rcases hst0 with rfl | rfl
    · exact ⟨h, rfl⟩
    · exact ⟨qinv_hit h _, rfl⟩
  obtain ⟨k1, k2, k3⟩ := quiet_pairs hq i x al ps
    (by
      intro p hp
      obtain ⟨h1, h2, h3⟩ := hps p hp
      exact ⟨hcp _ (getD_mem al p.1 h1) _ h3 h2, hAc _ (getD_mem al p.1 h1), hB.closed _ h3⟩) h0.1
  rw [← hcompEq] at k1 k2 k3
  refine ⟨k1, ?_, fun n hn => k3 n (by rw [h0.2]; exact hn)⟩
  intro ba hba
  obtain ⟨bb, hbb, hbd⟩ := List.mem_map.mp (hsame1 ba hba)
  rcases hcovBl bb hbb with hc | ⟨k, hk⟩
  · cases hc
  · obtain ⟨hkl, hkd, _⟩ := hps _ hk
    -- `al[k]` and `ba` have the same direction, hence are the same sub-command
    obtain ⟨k', hk', hkk'⟩ := List.getElem_of_mem hba
    have hgk' : al.getD k' default = ba := by
      rw [List.getD_eq_getElem?_getD, List.getElem?_eq_getElem hk', Option.getD_some, hkk']
    have : k = k' := by
      by_cases hc : k = k'
      · exact hc
      · exact absurd (by rw [hkd, hgk', hbd]) (dir_ne_of_ne hAn hk' hkl hc)
    subst this
    rw [← hgk']
    exact k2 _ hk


/-! ## all interface pairs -/

theorem mem_cmpPairs {a' b : Config} {aN bN : Name} :
    (aN, bN) ∈ cmpPairs a' b ↔ ∃ ai ∈ a'.intfs, ∃ bi ∈ b.intfs, ai.name = bi.name ∧
      ∃ ba ∈ ai.binds, ∃ bb ∈ bi.binds, ba.dir = bb.dir ∧ ba.acl = aN ∧ bb.acl = bN := by
  simp only [cmpPairs, List.mem_flatMap]
  constructor
  · rintro ⟨ai, hai, bi, hbi, h⟩
    split at h
    · rename_i hn
      simp only [List.mem_flatMap, List.mem_filterMap] at h
      obtain ⟨ba, hba, bb, hbb, h2⟩ := h
      split at h2
      · rename_i hd
        simp only [Option.some.injEq, Prod.mk.injEq] at h2
        exact ⟨ai, hai, bi, hbi, by simpa using hn, ba, hba, bb, hbb, by simpa using hd, h2.1, h2.2⟩
      · cases h2
    · cases h
  · rintro ⟨ai, hai, bi, hbi, hn, ba, hba, bb, hbb, hd, rfl, rfl⟩
    refine ⟨ai, hai, bi, hbi, ?_⟩
    simp only [hn, beq_self_eq_true, ↓reduceIte, List.mem_flatMap, List.mem_filterMap]
    exact ⟨ba, hba, bb, hbb, by simp [hd]⟩

/-- Static facts about the interfaces of a settled pair. -/
structure QStatic (e : Env) (cp : List (Name × Name)) : Prop where
  aNames : (e.a.intfs.map (·.name)).Nodup
  bNames : (e.b.intfs.map (·.name)).Nodup
  aIntf : ∀ ai ∈ e.a.intfs, (ai.binds.map (·.dir)).Nodup ∧ (∀ bd ∈ ai.binds, isDir bd.dir = true) ∧
    ∀ bd ∈ ai.binds, e.a.hasAcl bd.acl = true
  bIntf : ∀ bi ∈ e.b.intfs, BindsB e bi.binds
  same : ∀ ai ∈ e.a.intfs, ∀ bi ∈ e.b.intfs, ai.name = bi.name →
    (∀ ba ∈ ai.binds, ba.dir ∈ bi.binds.map (·.dir)) ∧ (∀ bb ∈ bi.binds, bb.dir ∈ ai.binds.map (·.dir))
  cpMem : ∀ ai ∈ e.a.intfs, ∀ bi ∈ e.b.intfs, ai.name = bi.name → ∀ ba ∈ ai.binds, ∀ bb ∈ bi.binds, ba.dir = bb.dir →
    (ba.acl, bb.acl) ∈ cp

theorem qinv_iNeeded {cp : List (Name × Name)} {prot : List Name} {st : St} (h : QInv cp prot st) (l : List Nat) :
    QInv cp prot { st with iNeeded := l } := ⟨h.acts, h.toDel, h.ready, h.needed⟩

theorem quiet_ifpairs {e : Env} {cp : List (Name × Name)} {prot : List Name} (hq : QEnv e cp prot) (hs : QStatic e cp)
    (ps : List (Nat × Intf))
    (hps : ∀ p ∈ ps, p.1 < e.a.intfs.length ∧ p.2 ∈ e.b.intfs ∧ (e.a.intfs.getD p.1 default).name = p.2.name)
    {st : St} (h : QInv cp prot st) :
    QInv cp prot (ps.foldl (pairStep e e.a.intfs) st) ∧
    (∀ p ∈ ps, ∀ ba ∈ (e.a.intfs.getD p.1 default).binds, ba.acl ∈ (ps.foldl (pairStep e e.a.intfs) st).aNeeded) ∧
    (∀ n ∈ st.aNeeded, n ∈ (ps.foldl (pairStep e e.a.intfs) st).aNeeded) := by
  induction ps generalizing st with
  | nil => exact ⟨h, by simp, fun n hn => hn⟩
  | cons p ps ih =>
    obtain ⟨hk, hb, hn⟩ := hps p (List.mem_cons_self ..)
    have hmem := getD_mem e.a.intfs p.1 hk
    obtain ⟨a1, a2, a3⟩ := hs.aIntf _ hmem
    obtain ⟨s1, s2⟩ := hs.same _ hmem _ hb hn
    obtain ⟨k1, k2, k3⟩ := quiet_diffBinds hq p.1 (e.a.intfs.getD p.1 default).name (e.a.intfs.getD p.1 default).binds
      p.2.binds a1 a2 a3 (hs.bIntf _ hb) s1 s2 (hs.cpMem _ hmem _ hb hn)
      (qinv_hit (qinv_iNeeded h (p.1 :: st.iNeeded)) "intf:pair")
    obtain ⟨j1, j2, j3⟩ := ih (fun p' hp' => hps p' (List.mem_cons_of_mem _ hp')) k1
    simp only [List.foldl_cons]
    refine ⟨j1, ?_, fun n hn' => j3 n (k3 n hn')⟩
    intro p' hp' ba hba
    rcases List.mem_cons.mp hp' with rfl | hp''
    · exact j3 _ (k2 ba hba)
    · exact j2 p' hp'' ba hba

theorem hits_fold_pred {α : Type} (Pr : St → Prop) (hPr : ∀ st s, Pr st → Pr (st.hit s))
    (F : St → α → St) (hF : ∀ st a, F st a = st ∨ ∃ s, F st a = st.hit s) (l : List α) (st : St) (h : Pr st) :
    Pr (l.foldl F st) := by
  induction l generalizing st with
  | nil => exact h
  | cons a l ih =>
    simp only [List.foldl_cons]
    apply ih
    rcases hF st a with h1 | ⟨s, h1⟩
    · rw [h1]; exact h
    · rw [h1]; exact hPr st s h

/-- `diffIntfs` on a settled pair prints nothing; afterwards every compared device ACL is `needed`. -/
theorem quiet_diffIntfs {e : Env} {cp : List (Name × Name)} {prot : List Name} (hq : QEnv e cp prot) (hs : QStatic e cp)
    (hcpE : cp = cmpPairs e.a e.b) {st : St} (h : QInv cp prot st) :
    QInv cp prot (diffIntfs e st e.a.intfs e.b.intfs) ∧
    (∀ p ∈ cp, p.1 ∈ (diffIntfs e st e.a.intfs e.b.intfs).aNeeded) ∧
    (∀ n ∈ st.aNeeded, n ∈ (diffIntfs e st e.a.intfs e.b.intfs).aNeeded) := by
  obtain ⟨al, hal⟩ : ∃ al, al = e.a.intfs := ⟨_, rfl⟩
  obtain ⟨bl, hbl⟩ : ∃ bl, bl = e.b.intfs := ⟨_, rfl⟩
  obtain ⟨ka, hka⟩ : ∃ ka, ka = al.map (·.name) := ⟨_, rfl⟩
  obtain ⟨kb, hkb⟩ : ∃ kb, kb = bl.map (·.name) := ⟨_, rfl⟩
  have hkaL : ka.length = al.length := by simp [hka]
  have hkbL : kb.length = bl.length := by simp [hkb]
  have hkaNd : ka.Nodup := by rw [hka, hal]; exact hs.aNames
  have hkaG : ∀ k, k < al.length → ka.getD k "" = (al.getD k default).name := by
    intro k hk; rw [hka, getD_map_str al _ k hk]
  have hkbG : ∀ j, j < bl.length → kb.getD j "" = (bl.getD j default).name := by
    intro j hj; rw [hkb, getD_map_str bl _ j hj]
  obtain ⟨rsA, rsB, hrs, hkA, hkB, _, hfE, _⟩ := diffUnordered_spec ka kb hkaNd
  rw [hkaL, hkbL] at hkA hkB
  obtain ⟨E, hE⟩ : ∃ E, E = sEq kb 0 ka := ⟨_, rfl⟩
  have hEmem : ∀ p ∈ E, p.1 < al.length ∧ p.2 < bl.length ∧ (al.getD p.1 default).name = (bl.getD p.2 default).name := by
    intro p hp
    rw [hE] at hp
    obtain ⟨t, ht, h1, hl⟩ := mem_sEq.mp (show (p.1, p.2) ∈ sEq kb 0 ka from hp)
    rw [hkaL] at ht
    simp only [Nat.zero_add] at h1
    obtain ⟨hj, hjk⟩ := lastIdx_some hl
    rw [hkbL] at hj
    rw [h1]
    refine ⟨ht, hj, ?_⟩
    rw [hkbG _ hj, hkaG t ht] at hjk
    exact hjk.symm
  obtain ⟨ps, hps⟩ : ∃ ps, ps = E.map fun p => (p.1, bl.getD p.2 default) := ⟨_, rfl⟩
  obtain ⟨k1, k2, k3⟩ := quiet_ifpairs hq hs ps
    (by
      intro p hp
      rw [hps] at hp
      obtain ⟨q, hq', rfl⟩ := List.mem_map.mp hp
      obtain ⟨h1, h2, h3⟩ := hEmem q hq'
      exact ⟨by rw [← hal]; exact h1, by rw [← hbl]; exact getD_mem bl _ h2, by rw [← hal]; exact h3⟩) h
  -- the result of `diffIntfs` is the fold over the pairs plus counters
  have hfold := intf_fold e al bl rsA rsB hkA hkB st
  rw [hfE, ← hE, ← hps] at hfold
  have hres : QInv cp prot (diffIntfs e st e.a.intfs e.b.intfs) ∧ (∀ p ∈ cp, p.1 ∈ (diffIntfs e st e.a.intfs e.b.intfs).aNeeded) ∧
      (∀ n ∈ st.aNeeded, n ∈ (diffIntfs e st e.a.intfs e.b.intfs).aNeeded) := by
    unfold diffIntfs
    simp only [← hal, ← hbl, ← hka, ← hkb, hrs]
    refine hits_fold_pred (fun s : St => QInv cp prot s ∧ (∀ p ∈ cp, p.1 ∈ s.aNeeded) ∧ (∀ n ∈ st.aNeeded, n ∈ s.aNeeded))
      ?_ _ ?_ _ _ ?_
    · intro s t ⟨q1, q2, q3⟩; exact ⟨qinv_hit q1 t, q2, q3⟩
    · intro s r
      split
      · split
        · exact Or.inl rfl
        · exact Or.inr ⟨_, rfl⟩
      · split
        · exact Or.inl rfl
        · exact Or.inr ⟨_, rfl⟩
    · have hbase : QInv cp prot (ps.foldl (pairStep e al) st) ∧ (∀ p ∈ cp, p.1 ∈ (ps.foldl (pairStep e al) st).aNeeded) ∧
          (∀ n ∈ st.aNeeded, n ∈ (ps.foldl (pairStep e al) st).aNeeded) := by
        rw [hal]
        refine ⟨k1, ?_, k3⟩
        intro p hp
        rw [hcpE] at hp
        obtain ⟨ai, hai, bi, hbi, hn, ba, hba, bb, hbb, hd, h5, h6⟩ := mem_cmpPairs.mp (show (p.1, p.2) ∈ _ from hp)
        -- the pair (ai, bi) is processed
        rw [← hbl] at hbi
        obtain ⟨j, hj, hjb⟩ := List.getElem_of_mem hbi
        have hgj : bl.getD j default = bi := by
          rw [List.getD_eq_getElem?_getD, List.getElem?_eq_getElem hj, Option.getD_some, hjb]
        rw [← hal] at hai
        obtain ⟨k, hk, hkk⟩ := List.getElem_of_mem hai
        have hgk : al.getD k default = ai := by
          rw [List.getD_eq_getElem?_getD, List.getElem?_eq_getElem hk, Option.getD_some, hkk]
        have hkey : ka.getD k "" ∈ kb := by
          rw [hkaG k hk, hgk, hn, hkb]; exact List.mem_map_of_mem hbi
        cases hl : lastIdx (ka.getD k "") kb with
        | none => exact absurd hkey (lastIdx_none.mp hl)
        | some j' =>
          have hmemE : (k, j') ∈ E := by
            rw [hE]; exact mem_sEq.mpr ⟨k, by rw [hkaL]; exact hk, by omega, hl⟩
          have hmemP : (k, bl.getD j' default) ∈ ps := by
            rw [hps]; exact List.mem_map.mpr ⟨(k, j'), hmemE, rfl⟩
          have := k2 _ hmemP ba (by rw [← hal, hgk]; exact hba)
          rw [← h5]; exact this
      split
      · rw [hfold]; exact ⟨qinv_hit hbase.1 _, hbase.2.1, hbase.2.2⟩
      · rw [hfold]; exact hbase
  exact hres


/-! ## the whole engine -/

theorem mem_unpairedAcls {a b : Config} {n : Name} :
    n ∈ unpairedAcls a b ↔ ∃ i ∈ a.intfs, (i ∉ (alignVRFs a b {}).2.intfs ∨ i.name ∉ b.intfs.map (·.name)) ∧
      n ∈ i.binds.map (·.acl) := by
  simp only [unpairedAcls, List.mem_flatMap, List.mem_filter, Bool.or_eq_true, Bool.not_eq_true']
  constructor
  · rintro ⟨i, ⟨hi, hc⟩, hn⟩
    refine ⟨i, hi, ?_, hn⟩
    rcases hc with hc | hc
    · left; intro hm
      rw [List.contains_iff_mem.mpr hm] at hc; cases hc
    · right; intro hm
      obtain ⟨bi, hbi, hbn⟩ := List.mem_map.mp hm
      have : (b.intfs.any fun bi => bi.name == i.name) = true := List.any_eq_true.mpr ⟨bi, hbi, by simp [hbn]⟩
      rw [this] at hc; cases hc
  · rintro ⟨i, hi, hc, hn⟩
    refine ⟨i, ⟨hi, ?_⟩, hn⟩
    rcases hc with hc | hc
    · left
      rw [Bool.eq_false_iff]; intro hcc
      exact hc (List.contains_iff_mem.mp hcc)
    · right
      rw [Bool.eq_false_iff]; intro hcc
      obtain ⟨bi, hbi, hbn⟩ := List.any_eq_true.mp hcc
      exact hc (List.mem_map.mpr ⟨bi, hbi, by simpa using hbn⟩)

/-- **`ios_F2_quiet`**: a statically settled pair of configurations gives the empty script. -/
theorem F2_quiet (a b : Config) (sc : Scripts) (hS : settledB a b sc = true) : (engine a b sc).script = [] := by
  simp only [settledB, Bool.and_eq_true, decide_eq_true_eq, List.all_eq_true, Bool.or_eq_true, bne_iff_ne, ne_eq,
    Bool.not_eq_true', List.any_eq_true, beq_iff_eq] at hS
  obtain ⟨⟨⟨⟨⟨⟨⟨⟨⟨⟨⟨⟨hok, hAn⟩, hBn⟩, hAb⟩, hBb⟩, hsame⟩, h11⟩, hnp⟩, hql⟩, hRn⟩, hRb⟩, hRa⟩, htag⟩ := hS
  obtain ⟨hchk, hacts, hscript⟩ := engine_unfold a b sc hok
  obtain ⟨a', ha'⟩ : ∃ a', a' = (alignVRFs a b {}).2 := ⟨_, rfl⟩
  obtain ⟨st1, hst1⟩ : ∃ st1, st1 = (alignVRFs a b {}).1 := ⟨_, rfl⟩
  obtain ⟨st2, hst2⟩ : ∃ st2, st2 = (checkInterfaces a' b st1).1 := ⟨_, rfl⟩
  rw [← ha', ← hst1] at hchk hacts
  rw [← hst2] at hacts
  rw [← ha'] at hsame h11 hnp hql hRb hRa htag
  obtain ⟨halign, haacls, halintf, ⟨pI, hpI⟩, ⟨pR, hpR⟩⟩ := alignVRFs_spec a b {} ⟨rfl, rfl, rfl, rfl, rfl, rfl⟩
  rw [← hst1] at halign
  rw [← ha'] at haacls hpI hpR
  rw [← ha', ← hst1] at halintf
  obtain ⟨hcheck, hunknown, hcov⟩ := checkInterfaces_spec a' b st1 halign.core hchk
  rw [← hst2] at hcheck hunknown
  have hhas : ∀ n, a'.hasAcl n = a.hasAcl n := fun n => by simp [Config.hasAcl, haacls]
  have hlines : ∀ n, a'.lines n = a.lines n := fun n => by simp [Config.lines, haacls]
  have hsubI : ∀ i ∈ a'.intfs, i ∈ a.intfs := fun i hi => by rw [hpI] at hi; exact (List.mem_filter.mp hi).1
  obtain ⟨e, he⟩ : ∃ e : Env, e = ⟨a', b, sc⟩ := ⟨_, rfl⟩
  have hea : e.a = a' := by rw [he]
  have heb : e.b = b := by rw [he]
  have hesc : e.sc = sc := by rw [he]
  rw [← he] at hacts
  obtain ⟨cp, hcp⟩ : ∃ cp, cp = cmpPairs a' b := ⟨_, rfl⟩
  obtain ⟨prot, hprot⟩ : ∃ prot, prot = unpairedAcls a b := ⟨_, rfl⟩
  rw [← hcp] at h11 hnp hql htag
  rw [← hprot] at hnp htag
  -- marks of the start state
  have hbound1 : NeededIn prot st1 := by
    rw [hst1]
    apply alignVRFs_bound a b {} prot (by intro n hn; cases hn)
    intro i hi hni n hn
    rw [hprot]; exact mem_unpairedAcls.mpr ⟨i, hi, Or.inl hni, hn⟩
  have hbound2 : NeededIn prot st2 := by
    rw [hst2]
    apply checkInterfaces_bound a' b st1 prot hbound1
    intro x hx hbf n hn
    rw [hprot]; exact mem_unpairedAcls.mpr ⟨x, hsubI x hx, Or.inr ((bFind_none_iff b x.name).mp hbf), hn⟩
  have hprotNeeded : ∀ n ∈ prot, a.hasAcl n = true → n ∈ st2.aNeeded := by
    intro n hn hh
    rw [hprot] at hn
    obtain ⟨i, hi, hc, hnb⟩ := mem_unpairedAcls.mp hn
    obtain ⟨bd, hbd, rfl⟩ := List.mem_map.mp hnb
    rcases halintf i hi with h1 | h1
    · rcases hc with hc | hc
      · rw [← ha'] at hc; exact absurd h1 hc
      · exact hunknown i h1 ((bFind_none_iff b i.name).mpr hc) bd hbd (by rw [hhas]; exact hh)
    · exact hcheck.mono _ (h1 bd hbd hh)
  -- static facts
  have hqenv : QEnv e cp prot := by
    refine ⟨?_, ?_, ?_⟩
    · intro p hp q hq'
      have := h11 p hp q hq'
      constructor
      · intro h1; simpa [h1] using this
      · intro h2; simpa [h2] using this
    · intro p hp hc
      have := hnp p hp
      rw [List.contains_iff_mem.mpr hc] at this; cases this
    · intro p hp
      rw [hea, heb, hesc, hlines]; exact hql p hp
  have hstatic : QStatic e cp := by
    refine ⟨by rw [hea, hpI]; exact nodup_filter_map _ _ _ hAn, by rw [heb]; exact hBn, ?_, ?_, ?_, ?_⟩
    · intro ai hai
      rw [hea] at hai
      obtain ⟨k1, k2⟩ := hAb ai (hsubI ai hai)
      exact ⟨k1, fun bd hbd => (k2 bd hbd).1, fun bd hbd => by rw [hea, hhas]; exact (k2 bd hbd).2⟩
    · intro bi hbi
      rw [heb] at hbi
      obtain ⟨k1, k2⟩ := hBb bi hbi
      exact ⟨k1, fun bd hbd => (k2 bd hbd).1, fun bd hbd => by rw [heb]; exact (k2 bd hbd).2⟩
    · intro ai hai bi hbi hn
      rw [hea] at hai; rw [heb] at hbi
      rcases hsame ai hai bi hbi with k | ⟨k1, k2⟩
      · exact absurd hn k
      · refine ⟨?_, ?_⟩
        · intro ba hba
          obtain ⟨bb, hbb, hd⟩ := k1 ba hba
          exact List.mem_map.mpr ⟨bb, hbb, hd⟩
        · intro bb hbb
          obtain ⟨ba, hba, hd⟩ := k2 bb hbb
          exact List.mem_map.mpr ⟨ba, hba, hd⟩
    · intro ai hai bi hbi hn ba hba bb hbb hd
      rw [hea] at hai; rw [heb] at hbi
      rw [hcp]
      exact mem_cmpPairs.mpr ⟨ai, hai, bi, hbi, hn, ba, hba, bb, hbb, hd, rfl, rfl⟩
  -- start state
  have hq0 : QInv cp prot (generateNames a' b st2) := by
    obtain ⟨c1, c2, c3, c4, c5, c6⟩ := hcheck.core
    refine ⟨?_, c1, ?_, ?_⟩
    · intro act hact
      have : (generateNames a' b st2).acts = st2.acts := rfl
      rw [this, c6] at hact; cases hact
    · intro bN hbN
      have : (generateNames a' b st2).aReady = st2.aReady := rfl
      rw [this, c4] at hbN; cases hbN
    · intro aN haN
      exact Or.inl (hbound2 aN haN)
  -- interfaces
  obtain ⟨q3, hcpN, hmono3⟩ := quiet_diffIntfs hqenv hstatic (by rw [hea, heb]; exact hcp) hq0
  rw [hea, heb] at q3 hcpN hmono3
  obtain ⟨st3, hst3⟩ : ∃ st3, st3 = diffIntfs e (generateNames a' b st2) a'.intfs b.intfs := ⟨_, rfl⟩
  rw [← hst3] at q3 hcpN hmono3 hacts
  -- routes
  have hplan : (routePlan (sortRoutes a'.routes) (sortRoutes b.routes)).1 = [] := by
    have hpa := perm_sortRoutes a'.routes
    have hpb := perm_sortRoutes b.routes
    apply routePlan_quiet
    · rw [(hpa.map _).nodup_iff, hpR]; exact nodup_filter_map _ _ _ hRn
    · intro rb hrb
      obtain ⟨ra, hra, ht⟩ := hRb rb (hpb.mem_iff.mp hrb)
      rw [← ht]
      exact (hpa.map _).mem_iff.mpr (List.mem_map_of_mem hra)
    · intro ra hra
      rcases hRa ra (hpa.mem_iff.mp hra) with ⟨rb, hrb, ht⟩ | h2
      · left; rw [← ht]; exact (hpb.map _).mem_iff.mpr (List.mem_map_of_mem hrb)
      · right
        intro hc
        obtain ⟨rb, hrb, hv⟩ := List.mem_map.mp ((hpb.map (·.vrf)).mem_iff.mp hc)
        have : (b.routes.any fun rb => rb.vrf == ra.vrf) = true := List.any_eq_true.mpr ⟨rb, hrb, by simp [hv]⟩
        rw [this] at h2; cases h2
  obtain ⟨st4, hst4⟩ : ∃ st4, st4 = diffRoutes st3 (sortRoutes a'.routes) (sortRoutes b.routes) := ⟨_, rfl⟩
  rw [← hst4] at hacts
  have h4acts : st4.acts = st3.acts := by
    rw [hst4]; show st3.acts ++ (routePlan _ _).1 = _; rw [hplan, List.append_nil]
  have h4N : st4.aNeeded = st3.aNeeded := by rw [hst4]; rfl
  have h4T : st4.aToDel = st3.aToDel := by rw [hst4]; rfl
  -- clean-up: nothing is pending
  have hpend : (duPending e st4).1 = [] := by
    unfold duPending
    simp only
    have hcand : ((e.a.acls.map (·.1)).filter fun n => !st4.aNeeded.contains n && (st4.aToDel.contains n || isTagged n)) = [] := by
      rw [List.filter_eq_nil_iff]
      intro n hn hc
      simp only [Bool.and_eq_true, Bool.not_eq_true', Bool.or_eq_true] at hc
      obtain ⟨hc1, hc2⟩ := hc
      rw [h4T, q3.toDel] at hc2
      rcases hc2 with hc2 | hc2
      · simp at hc2
      · rw [hea, haacls] at hn
        have hneeded : n ∈ st3.aNeeded := by
          rcases htag n hn with (h1 | h1) | ⟨p, hp, hpn⟩
          · rw [hc2] at h1; cases h1
          · exact hmono3 n (hprotNeeded n (List.contains_iff_mem.mp h1) ((hasAcl_config_iff a n).mpr hn))
          · rw [← hpn]; exact hcpN p hp
        rw [h4N, List.contains_iff_mem.mpr hneeded] at hc1
        cases hc1
    rw [hcand]
    rfl
  have hfinal : (deleteUnused e st4).acts = st3.acts := by
    unfold deleteUnused
    obtain ⟨⟨p, sr⟩, hdp⟩ : ∃ r, duPending e st4 = r := ⟨_, rfl⟩
    rw [hdp] at hpend
    simp only at hpend
    subst hpend
    rw [hdp]
    simp only [List.isEmpty_nil, ↓reduceIte]
    split <;> exact h4acts
  rw [hscript, hacts, hfinal]
  exact scriptOf_quiet _ q3.acts

end NA.F2
