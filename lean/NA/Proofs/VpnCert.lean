import NA.Model.VpnGraphCertDev
import NA.Proofs.VpnGraphRefs
import NA.Proofs.VpnGraphFinal
/-!
# Fragment H (certificate maps and their bindings): create-before-reference for the whole change list, the `exit` before
toplevel `webvpn`

The functions of fragment G are used as they are; their invariant `J` (every ready object of the target exists under the name it
is printed with; every added sub-command names an existing object; nothing is deleted before the clean-up) is re-based on the
set of objects that exist after the change list so far, so that it applies to each call made by this layer.
-/
namespace NA.Vpn.G

/-! ## scanning the change list -/

def stepDefH (d : List Ref) : Cmd2 → List Ref
  | .g c => stepDef d c
  | .h _ => d

def definedAfterH : List Ref → List Cmd2 → List Ref
  | d, [] => d
  | d, c :: cs => definedAfterH (stepDefH d c) cs

/-- an added sub-command or rule names existing objects only -/
def refOKH (d : List Ref) : Cmd2 → Bool
  | .g c => refOK d c
  | .h (.tgmap false r) => r.refs.all fun x => d.contains x
  | .h (.cgm false r) => r.refs.all fun x => d.contains x
  | .h _ => true

def refsOKH : List Ref → List Cmd2 → Bool
  | _, [] => true
  | d, c :: cs => refOKH d c && refsOKH (stepDefH d c) cs

def isDelH : Cmd2 → Bool
  | .g c => isDel c
  | .h _ => false

theorem definedAfterH_append : ∀ (l1 l2 : List Cmd2) (d : List Ref),
    definedAfterH d (l1 ++ l2) = definedAfterH (definedAfterH d l1) l2
  | [], _, _ => rfl
  | c :: cs, l2, d => by simp only [List.cons_append, definedAfterH]; exact definedAfterH_append cs l2 _

theorem refsOKH_append : ∀ (l1 l2 : List Cmd2) (d : List Ref),
    refsOKH d (l1 ++ l2) = (refsOKH d l1 && refsOKH (definedAfterH d l1) l2)
  | [], _, _ => by simp [refsOKH, definedAfterH]
  | c :: cs, l2, d => by simp only [List.cons_append, refsOKH, definedAfterH, refsOKH_append cs l2, Bool.and_assoc]

theorem definedAfterH_g : ∀ (l : List Chg) (d : List Ref), definedAfterH d (l.map Cmd2.g) = definedAfter d l
  | [], _ => rfl
  | c :: cs, d => by simp only [List.map_cons, definedAfterH, definedAfter, stepDefH]; exact definedAfterH_g cs _

theorem refsOKH_g : ∀ (l : List Chg) (d : List Ref), refsOKH d (l.map Cmd2.g) = refsOK d l
  | [], _ => rfl
  | c :: cs, d => by simp only [List.map_cons, refsOKH, refsOK, refOKH, stepDefH, refsOKH_g cs]

/-! ## the invariant -/

structure HJ (A : List Ref) (a b : List Obj) (h : HSt) : Prop where
  out : h.out = []
  j : J (definedAfterH A h.all) a b [] h.toSt
  ok : refsOKH A h.all = true
  nd : ∀ c ∈ h.all, isDelH c = false

variable {A : List Ref} {a b : List Obj}

theorem WF.mono {A' : List Ref} (hw : WF A a b) (h : ∀ r ∈ A, r ∈ A') : WF A' a b :=
  ⟨hw.bres, hw.ares, hw.bacl, hw.bsec, fun o ho => h _ (hw.dev o ho)⟩

theorem definedAfterH_mono : ∀ (l : List Cmd2) (d : List Ref), (∀ c ∈ l, isDelH c = false) → ∀ r ∈ d, r ∈ definedAfterH d l
  | [], _, _, _, h => h
  | c :: cs, d, hn, r, h => by
    refine definedAfterH_mono cs (stepDefH d c) (fun x hx => hn x (List.mem_cons_of_mem _ hx)) r ?_
    cases c with
    | g c => exact stepDef_mono d c (hn _ List.mem_cons_self) r h
    | h c => exact h

theorem HJ.wf {h : HSt} (hw : WF A a b) (hj : HJ A a b h) : WF (definedAfterH A h.all) a b :=
  hw.mono (definedAfterH_mono h.all A hj.nd)

/-- continue after a call of a function of fragment G that keeps `J` -/
theorem HJ.withSt {h : HSt} (hj : HJ A a b h) (st : St) (hs : J (definedAfterH A h.all) a b [] st) : HJ A a b (h.withSt st) := by
  have hd : definedAfterH A (h.all ++ st.out.map Cmd2.g) = definedAfter (definedAfterH A h.all) st.out := by
    rw [definedAfterH_append, definedAfterH_g]
  refine ⟨rfl, ?_, ?_, ?_⟩
  · show J (definedAfterH A (h.all ++ st.out.map Cmd2.g)) a b [] { st with out := [] }
    rw [hd]
    exact ⟨hs.sa, hs.sb, rfl, fun c hc => (nomatch hc), fun p hp hnp => hs.df p hp hnp⟩
  · show refsOKH A (h.all ++ st.out.map Cmd2.g) = true
    rw [refsOKH_append, hj.ok, refsOKH_g, hs.ok]; rfl
  · intro c hc
    rcases List.mem_append.1 hc with h1 | h1
    · exact hj.nd c h1
    · obtain ⟨x, hx, e⟩ := List.mem_map.1 h1
      rw [← e]; exact hs.nd x hx

/-- the state of fragment G inside `h` satisfies `J` relative to what exists now; its `out` is empty -/
theorem HJ.emitH {h : HSt} (hj : HJ A a b h) (c : HChg) (hc : refOKH (definedAfterH A h.all) (.h c) = true) : HJ A a b (h.emitH c) := by
  have hd : definedAfterH A (h.all ++ [Cmd2.h c]) = definedAfterH A h.all := by
    rw [definedAfterH_append]; rfl
  refine ⟨hj.out, ?_, ?_, ?_⟩
  · show J (definedAfterH A (h.all ++ [Cmd2.h c])) a b [] h.toSt
    rw [hd]; exact hj.j
  · show refsOKH A (h.all ++ [Cmd2.h c]) = true
    rw [refsOKH_append, hj.ok]
    simp only [refsOKH, Bool.and_true, Bool.true_and]
    exact hc
  · intro x hx
    rcases List.mem_append.1 hx with h1 | h1
    · exact hj.nd x h1
    · simp at h1; rw [h1]; rfl

theorem HJ.setMode {h : HSt} (hj : HJ A a b h) (m : Option (Kind × String × String)) : HJ A a b { h with mode := m } :=
  ⟨hj.out, hj.j.withMode m, hj.ok, hj.nd⟩

theorem HJ.same {h h' : HSt} (hj : HJ A a b h) (hs : h'.toSt = h.toSt) (ha : h'.all = h.all) : HJ A a b h' := by
  refine ⟨by rw [hs]; exact hj.out, ?_, by rw [ha]; exact hj.ok, by rw [ha]; exact hj.nd⟩
  rw [ha, hs]; exact hj.j

/-! ## calls into fragment G -/

/-- ready marks are kept -/
def Keeps (h h' : HSt) : Prop := ∀ y, h.isReady y = true → h'.isReady y = true

theorem Keeps.refl (h : HSt) : Keeps h h := fun _ hy => hy
theorem Keeps.trans {h1 h2 h3 : HSt} (x : Keeps h1 h2) (y : Keeps h2 h3) : Keeps h1 h3 := fun z hz => y z (x z hz)

theorem withSt_isReady (h : HSt) (st : St) (y : Ref) : (h.withSt st).isReady y = st.isReady y := rfl
theorem emitH_isReady (h : HSt) (c : HChg) (y : Ref) : (h.emitH c).isReady y = h.isReady y := rfl

theorem HJ.emitG {h : HSt} (hj : HJ A a b h) (c : Chg) (hd : isDel c = false)
    (hc : refOK (definedAfterH A h.all) c = true) : HJ A a b (h.lift (·.emit c)) ∧ Keeps h (h.lift (·.emit c)) := by
  refine ⟨hj.withSt _ (hj.j.emit c hd (by rw [hj.out]; exact hc)), fun y hy => hy⟩

theorem followRef_HJ (hw : WF A a b)
    (hkk : ∀ x ∈ a, ∀ y ∈ b, ∀ sx ∈ x.secs, ∀ sy ∈ y.secs, KindByKey sx.subs sy.subs)
    {h : HSt} (hj : HJ A a b h) (x : Ref) (hres : (b.find? fun y => y.id == x).isSome = true) (h' : HSt)
    (he : (h.liftO fun st => followRef st x) = some h') : HJ A a b h' ∧ h'.isReady x = true ∧ Keeps h h' := by
  unfold HSt.liftO at he
  dsimp only at he
  cases hf : followRef h.toSt x with
  | none => rw [hf] at he; cases he
  | some st' =>
    rw [hf] at he
    simp only [Option.map_some, Option.some.injEq] at he
    rw [← he]
    have hwD := hj.wf hw
    have key : J (definedAfterH A h.all) a b [] st' ∧ st'.isReady x = true ∧ Mono (definedAfterH A h.all) fuel h.toSt st' := by
      have viaAdd : addAny fuel h.toSt x = some st' →
          J (definedAfterH A h.all) a b [] st' ∧ st'.isReady x = true ∧ Mono (definedAfterH A h.all) fuel h.toSt st' := by
        intro ha
        have := addAny_J hwD fuel [] h.toSt x st' hj.j hres (rk_lt_fuel x.1) (fun _ hq => (nomatch hq)) ha
        exact ⟨this.1, this.2.1, this.2.2.weaken (by have := rk_lt_fuel x.1; omega)⟩
      unfold followRef at hf
      cases hb : h.toSt.bObj x with
      | none => rw [hb] at hf; exact viaAdd hf
      | some o =>
        rw [hb] at hf
        dsimp only at hf
        split at hf
        · rename_i hc
          simp only [Bool.and_eq_true] at hc
          cases hd : diffAny fuel h.toSt x x with
          | none => rw [hd] at hf; cases hf
          | some r =>
            rw [hd] at hf
            simp only [Option.map_some, Option.some.injEq] at hf
            rw [← hf]
            have hfa : (a.find? fun y => y.id == x).isSome = true := by
              have := hc.1.2
              unfold St.aObj at this
              rw [hj.j.sa] at this
              exact this
            have := diffAny_J hwD hkk fuel [] h.toSt x x r.1 r.2 hj.j hfa hres rfl (rk_lt_fuel x.1) (fun _ hq => (nomatch hq)) hd
            exact ⟨this.1, this.2.1, this.2.2.weaken (by have := rk_lt_fuel x.1; omega)⟩
        · exact viaAdd hf
    exact ⟨hj.withSt st' key.1, key.2.1, fun y hy => key.2.2.1 y hy⟩

/-- what a rule needs: its references resolve -/
def RuleOK (objs : List Obj) (r : Rule) : Prop := ∀ x ∈ r.refs, (objs.find? fun y => y.id == x).isSome = true

theorem followRule_HJ (hw : WF A a b)
    (hkk : ∀ x ∈ a, ∀ y ∈ b, ∀ sx ∈ x.secs, ∀ sy ∈ y.secs, KindByKey sx.subs sy.subs)
    (r : Rule) (hr : RuleOK b r) : ∀ {h : HSt} (h' : HSt), HJ A a b h → followRule h r = some h' →
    HJ A a b h' ∧ (∀ x ∈ r.refs, h'.isReady x = true) ∧ Keeps h h' := by
  unfold followRule
  have key : ∀ (l : List Ref) (h h' : HSt), (∀ x ∈ l, (b.find? fun y => y.id == x).isSome = true) → HJ A a b h →
      l.foldl (fun (acc : Option HSt) x => acc.bind fun h => h.liftO fun st => followRef st x) (some h) = some h' →
      HJ A a b h' ∧ (∀ x ∈ l, h'.isReady x = true) ∧ Keeps h h' := by
    intro l
    induction l with
    | nil => intro h h' _ hj he; cases he; exact ⟨hj, fun _ hx => (nomatch hx), Keeps.refl _⟩
    | cons x xs ih =>
      intro h h' hl hj he
      rw [List.foldl_cons] at he
      simp only [Option.bind_some] at he
      cases hx : (h.liftO fun st => followRef st x) with
      | none =>
        rw [hx] at he
        have : ∀ (l : List Ref), l.foldl (fun (acc : Option HSt) x => acc.bind fun h => h.liftO fun st => followRef st x) none = none := by
          intro l; induction l with
          | nil => rfl
          | cons _ _ ih2 => rw [List.foldl_cons]; exact ih2
        rw [this] at he; cases he
      | some h1 =>
        rw [hx] at he
        have s1 := followRef_HJ hw hkk hj x (hl x List.mem_cons_self) h1 hx
        have s2 := ih h1 h' (fun y hy => hl y (List.mem_cons_of_mem _ hy)) s1.1 he
        refine ⟨s2.1, ?_, s1.2.2.trans s2.2.2⟩
        intro y hy
        cases hy with
        | head => exact s2.2.2 x s1.2.1
        | tail _ hy => exact s2.2.1 y hy
  intro h h' hj he
  exact key r.refs h h' hr hj he

theorem printRule_refs (h : HSt) (r : Rule) (s : String) : (h.printRule r s).refs = r.refs.map fun x => (x.1, h.cur x) := by
  unfold HSt.printRule Rule.refs
  cases r.cm <;> rfl

/-- the printed rule names existing objects if what the rule references is ready -/
theorem printRule_ok {h : HSt} (hj : HJ A a b h) (r : Rule) (s : String) (hr : ∀ x ∈ r.refs, h.isReady x = true) :
    (h.printRule r s).refs.all (fun x => (definedAfterH A h.all).contains x) = true := by
  rw [printRule_refs, List.all_eq_true]
  intro y hy
  obtain ⟨x, hx, e⟩ := List.mem_map.1 hy
  have := hj.j.rdy_defined x ⟨hr x hx, fun hm => (nomatch hm)⟩
  rw [hj.out] at this
  rw [← e]
  have h2 : (x.1, h.cur x) ∈ definedAfterH A h.all := this
  simpa using h2

/-! ## the rule layer -/

theorem foldl_HJ {α : Type} (g : HSt → α → HSt) : ∀ (l : List α) (h : HSt),
    (∀ h x, x ∈ l → HJ A a b h → HJ A a b (g h x) ∧ Keeps h (g h x)) → HJ A a b h →
    HJ A a b (l.foldl g h) ∧ Keeps h (l.foldl g h)
  | [], h, _, hj => ⟨hj, Keeps.refl _⟩
  | x :: xs, h, hg, hj => by
    rw [List.foldl_cons]
    have h1 := hg h x List.mem_cons_self hj
    have h2 := foldl_HJ g xs (g h x) (fun h y hy => hg h y (List.mem_cons_of_mem _ hy)) h1.1
    exact ⟨h2.1, h1.2.trans h2.2⟩

theorem foldl_optH_none {α : Type} (g : HSt → α → Option HSt) : ∀ (l : List α),
    l.foldl (fun (acc : Option HSt) x => acc.bind fun h => g h x) none = none
  | [] => rfl
  | _ :: xs => by rw [List.foldl_cons]; exact foldl_optH_none g xs

theorem foldl_opt_HJ {α : Type} (g : HSt → α → Option HSt) : ∀ (l : List α) (h h' : HSt),
    (∀ h x h', x ∈ l → HJ A a b h → g h x = some h' → HJ A a b h' ∧ Keeps h h') →
    l.foldl (fun (acc : Option HSt) x => acc.bind fun h => g h x) (some h) = some h' → HJ A a b h →
    HJ A a b h' ∧ Keeps h h'
  | [], h, h', _, he, hj => by cases he; exact ⟨hj, Keeps.refl _⟩
  | x :: xs, h, h', hg, he, hj => by
    rw [List.foldl_cons] at he
    simp only [Option.bind_some] at he
    cases hx : g h x with
    | none => rw [hx, foldl_optH_none] at he; cases he
    | some h1 =>
      rw [hx] at he
      have s1 := hg h x h1 List.mem_cons_self hj hx
      have s2 := foldl_opt_HJ g xs h1 h' (fun h y h' hy => hg h y h' (List.mem_cons_of_mem _ hy)) he s1.1
      exact ⟨s2.1, s1.2.trans s2.2⟩

theorem foldl_opt_HJ' {α : Type} (g : HSt → α → Option HSt) (l : List α) (o : Option HSt) (h0 h' : HSt)
    (ho : ∀ h2, o = some h2 → HJ A a b h2 ∧ Keeps h0 h2)
    (hg : ∀ h x h', x ∈ l → HJ A a b h → g h x = some h' → HJ A a b h' ∧ Keeps h h')
    (he : l.foldl (fun (acc : Option HSt) x => acc.bind fun h => g h x) o = some h') : HJ A a b h' ∧ Keeps h0 h' := by
  cases o with
  | none => rw [foldl_optH_none] at he; cases he
  | some h2 =>
    have s1 := ho h2 rfl
    have s2 := foldl_opt_HJ g l h2 h' hg he s1.1
    exact ⟨s2.1, s1.2.trans s2.2⟩

theorem markDel_HJ {h : HSt} (hj : HJ A a b h) (x : Ref) :
    HJ A a b (h.lift fun st => markDel fuel st x) ∧ Keeps h (h.lift fun st => markDel fuel st x) := by
  have hm := markDel_J (A := definedAfterH A h.all) (a := a) (b := b) fuel fuel [] h.toSt x hj.j
  exact ⟨hj.withSt _ hm.1, fun y hy => hm.2.1 y hy⟩

theorem markRules_HJ (web : Bool) : ∀ (l : List (Nat × Rule)) (h : HSt), HJ A a b h →
    HJ A a b (markRules h web l) ∧ Keeps h (markRules h web l) := by
  intro l h hj
  unfold markRules
  refine foldl_HJ _ l h ?_ hj
  intro h p _ hj
  dsimp only
  split
  · exact ⟨hj, Keeps.refl _⟩
  · have h0 : HJ A a b (if web = true then h else { h with tDel := p.1 :: h.tDel }) ∧
        Keeps h (if web = true then h else { h with tDel := p.1 :: h.tDel }) := by
      split
      · exact ⟨hj, Keeps.refl _⟩
      · exact ⟨hj.same rfl rfl, fun _ hy => hy⟩
    have := foldl_HJ (fun h x => h.lift fun st => markDel fuel st x) p.2.refs _ (fun h x _ hj => markDel_HJ hj x) h0.1
    exact ⟨this.1, h0.2.trans this.2⟩

theorem setWeb_HJ {h : HSt} (hj : HJ A a b h) : HJ A a b h.setWeb ∧ Keeps h h.setWeb := by
  unfold HSt.setWeb
  split
  · exact ⟨hj, Keeps.refl _⟩
  · dsimp only
    split
    · have h1 := hj.emitG .exit rfl rfl
      exact ⟨((h1.1.emitH .webvpn rfl).setMode _), fun y hy => h1.2 y hy⟩
    · exact ⟨((hj.emitH .webvpn rfl).setMode _), fun y hy => hy⟩

theorem delRules_HJ (web : Bool) (l : List (Nat × Rule)) (h : HSt) (hj : HJ A a b h) :
    HJ A a b (delRules h web l) ∧ Keeps h (delRules h web l) := by
  unfold delRules
  have h1 := foldl_HJ (A := A) (a := a) (b := b) (fun h (p : Nat × Rule) =>
      if web then (h.setWeb).emitH (.cgm true p.2)
      else { ({ h with mode := none } : HSt).emitH (.tgmap true p.2) with tNeeded := p.1 :: h.tNeeded }) l h (by
    intro h p _ hj
    dsimp only
    split
    · have s := setWeb_HJ hj
      exact ⟨s.1.emitH _ rfl, fun y hy => s.2 y hy⟩
    · exact ⟨(((hj.setMode none).emitH (.tgmap true p.2) rfl).same rfl rfl), fun y hy => hy⟩) hj
  have h2 := markRules_HJ web l _ h1.1
  exact ⟨h2.1, h1.2.trans h2.2⟩

theorem addRules_HJ (hw : WF A a b)
    (hkk : ∀ x ∈ a, ∀ y ∈ b, ∀ sx ∈ x.secs, ∀ sy ∈ y.secs, KindByKey sx.subs sy.subs)
    (web : Bool) (l : List Rule) (hl : ∀ r ∈ l, RuleOK b r) (h h' : HSt) (hj : HJ A a b h)
    (he : addRules h web l = some h') : HJ A a b h' ∧ Keeps h h' := by
  unfold addRules at he
  refine foldl_opt_HJ (fun h (r : Rule) => (followRule h r).map fun h =>
      if web then
        let h := h.setWeb
        h.emitH (.cgm false (h.printRule r r.seq))
      else ({ h with mode := none } : HSt).emitH (.tgmap false (h.printRule r r.seq))) l h h' ?_ he hj
  intro h r h' hr hj hs
  cases hf : followRule h r with
  | none => rw [hf] at hs; cases hs
  | some h1 =>
    rw [hf] at hs
    simp only [Option.map_some, Option.some.injEq] at hs
    have s1 := followRule_HJ hw hkk r (hl r hr) h1 hj hf
    rw [← hs]
    split
    · have s2 := setWeb_HJ s1.1
      refine ⟨s2.1.emitH _ ?_, fun y hy => s2.2 y (s1.2.2 y hy)⟩
      exact printRule_ok s2.1 r r.seq (fun x hx => s2.2 x (s1.2.1 x hx))
    · have s2 : HJ A a b ({ h1 with mode := none } : HSt) := s1.1.setMode none
      refine ⟨s2.emitH _ ?_, fun y hy => s1.2.2 y hy⟩
      exact printRule_ok s2 r r.seq (fun x hx => s1.2.1 x hx)

theorem zipDiff_HJ (hw : WF A a b)
    (hkk : ∀ x ∈ a, ∀ y ∈ b, ∀ sx ∈ x.secs, ∀ sy ∈ y.secs, KindByKey sx.subs sy.subs) :
    ∀ (l : List (Ref × Ref)) (h : HSt) (c : Bool) (q : HSt × Bool),
    (∀ p ∈ l, (a.find? fun y => y.id == p.1).isSome = true ∧ (b.find? fun y => y.id == p.2).isSome = true ∧ p.1.1 = p.2.1) →
    HJ A a b h →
    l.foldl (fun (acc : Option (HSt × Bool)) p =>
      acc.bind fun q => (diffAny fuel q.1.toSt p.1 p.2).map fun d => (q.1.withSt d.1, q.2 || d.2 != p.1.2)) (some (h, c)) = some q →
    HJ A a b q.1 ∧ (∀ p ∈ l, q.1.isReady p.2 = true) ∧ Keeps h q.1
  | [], h, c, q, _, hj, he => by cases he; exact ⟨hj, fun _ hp => (nomatch hp), Keeps.refl _⟩
  | p :: ps, h, c, q, hl, hj, he => by
    rw [List.foldl_cons] at he
    simp only [Option.bind_some] at he
    cases hd : diffAny fuel h.toSt p.1 p.2 with
    | none =>
      rw [hd] at he
      simp only [Option.map_none] at he
      have : ∀ (l : List (Ref × Ref)), l.foldl (fun (acc : Option (HSt × Bool)) p =>
          acc.bind fun q => (diffAny fuel q.1.toSt p.1 p.2).map fun d => (q.1.withSt d.1, q.2 || d.2 != p.1.2)) none = none := by
        intro l; induction l with
        | nil => rfl
        | cons _ _ ih => rw [List.foldl_cons]; exact ih
      rw [this] at he; cases he
    | some d =>
      rw [hd] at he
      simp only [Option.map_some] at he
      have hp := hl p List.mem_cons_self
      have hwD := hj.wf hw
      have s1 := diffAny_J hwD hkk fuel [] h.toSt p.1 p.2 d.1 d.2 hj.j hp.1 hp.2.1 hp.2.2 (rk_lt_fuel p.2.1)
        (fun _ hq => (nomatch hq)) hd
      have hj1 := hj.withSt d.1 s1.1
      have s2 := zipDiff_HJ hw hkk ps (h.withSt d.1) _ q (fun x hx => hl x (List.mem_cons_of_mem _ hx)) hj1 he
      have k1 : Keeps h (h.withSt d.1) := fun y hy => s1.2.2.1 y hy
      refine ⟨s2.1, ?_, k1.trans s2.2.2⟩
      intro x hx
      cases hx with
      | head => exact s2.2.2 _ s1.2.1
      | tail _ hx => exact s2.2.1 x hx

theorem zip_refs_ok {ra rb : Rule} (hs : ra.cm.isSome = rb.cm.isSome) (hra : RuleOK a ra) (hrb : RuleOK b rb) :
    (∀ p ∈ ra.refs.zip rb.refs, (a.find? fun y => y.id == p.1).isSome = true ∧ (b.find? fun y => y.id == p.2).isSome = true ∧
      p.1.1 = p.2.1) ∧ ∀ x ∈ rb.refs, ∃ p ∈ ra.refs.zip rb.refs, p.2 = x := by
  unfold RuleOK Rule.refs at *
  cases hca : ra.cm with
  | none =>
    cases hcb : rb.cm with
    | some _ => rw [hca, hcb] at hs; cases hs
    | none =>
      rw [hca] at hra; rw [hcb] at hrb
      simp only [List.nil_append, List.zip_cons_cons, List.zip_nil_right, List.mem_singleton] at *
      exact ⟨fun p hp => by rw [hp]; exact ⟨hra _ rfl, hrb _ rfl, rfl⟩, fun x hx => ⟨_, rfl, hx.symm⟩⟩
  | some na =>
    cases hcb : rb.cm with
    | none => rw [hca, hcb] at hs; cases hs
    | some nb =>
      rw [hca] at hra; rw [hcb] at hrb
      simp only [List.cons_append, List.nil_append, List.zip_cons_cons, List.zip_nil_right, List.mem_cons, List.not_mem_nil, or_false] at *
      refine ⟨?_, ?_⟩
      · intro p hp
        rcases hp with hp | hp
        · rw [hp]; exact ⟨hra _ (Or.inl rfl), hrb _ (Or.inl rfl), rfl⟩
        · rw [hp]; exact ⟨hra _ (Or.inr rfl), hrb _ (Or.inr rfl), rfl⟩
      · intro x hx
        rcases hx with hx | hx
        · exact ⟨_, Or.inl rfl, hx.symm⟩
        · exact ⟨_, Or.inr rfl, hx.symm⟩

theorem equalRule_HJ (hw : WF A a b)
    (hkk : ∀ x ∈ a, ∀ y ∈ b, ∀ sx ∈ x.secs, ∀ sy ∈ y.secs, KindByKey sx.subs sy.subs)
    (web : Bool) (ia : Nat) (ra rb : Rule) (hs : ra.cm.isSome = rb.cm.isSome) (hra : RuleOK a ra) (hrb : RuleOK b rb)
    (h h' : HSt) (hj : HJ A a b h) (he : equalRule h web ia ra rb = some h') : HJ A a b h' ∧ Keeps h h' := by
  unfold equalRule at he
  dsimp only at he
  have h0 : HJ A a b (if web = true then h else { h with tNeeded := ia :: h.tNeeded }) ∧
      Keeps h (if web = true then h else { h with tNeeded := ia :: h.tNeeded }) := by
    split
    · exact ⟨hj, Keeps.refl _⟩
    · exact ⟨hj.same rfl rfl, fun _ hy => hy⟩
  have hz := zip_refs_ok hs hra hrb
  cases hf : (ra.refs.zip rb.refs).foldl (fun (acc : Option (HSt × Bool)) p =>
      acc.bind fun q => (diffAny fuel q.1.toSt p.1 p.2).map fun d => (q.1.withSt d.1, q.2 || d.2 != p.1.2))
      (some (if web = true then h else { h with tNeeded := ia :: h.tNeeded }, false)) with
  | none => rw [hf] at he; cases he
  | some q =>
    rw [hf] at he
    simp only [Option.map_some, Option.some.injEq] at he
    have s1 := zipDiff_HJ hw hkk _ _ false q hz.1 h0.1 hf
    have hrdy : ∀ x ∈ rb.refs, q.1.isReady x = true := by
      intro x hx
      obtain ⟨p, hp, e⟩ := hz.2 x hx
      rw [← e]; exact s1.2.1 p hp
    have k1 : Keeps h q.1 := h0.2.trans s1.2.2
    rw [← he]
    split
    · split
      · have s2 := setWeb_HJ s1.1
        have s3 : HJ A a b (if cmChanged q.1 ra rb = true then q.1.setWeb.emitH (.cgm true ra) else q.1.setWeb) ∧
            Keeps q.1.setWeb (if cmChanged q.1 ra rb = true then q.1.setWeb.emitH (.cgm true ra) else q.1.setWeb) := by
          cases cmChanged q.1 ra rb
          · exact ⟨s2.1, Keeps.refl _⟩
          · exact ⟨s2.1.emitH _ rfl, fun _ hy => hy⟩
        refine ⟨s3.1.emitH _ ?_, fun y hy => s3.2 y (s2.2 y (k1 y hy))⟩
        exact printRule_ok s3.1 rb _ (fun x hx => s3.2 x (s2.2 x (hrdy x hx)))
      · have s2 : HJ A a b ({ q.1 with mode := none } : HSt) := s1.1.setMode none
        have s3 : HJ A a b (if cmChanged q.1 ra rb = true then ({ q.1 with mode := none } : HSt).emitH (.tgmap true ra) else ({ q.1 with mode := none } : HSt)) ∧
            Keeps q.1 (if cmChanged q.1 ra rb = true then ({ q.1 with mode := none } : HSt).emitH (.tgmap true ra) else ({ q.1 with mode := none } : HSt)) := by
          cases cmChanged q.1 ra rb
          · exact ⟨s2, fun _ hy => hy⟩
          · exact ⟨s2.emitH _ rfl, fun _ hy => hy⟩
        refine ⟨s3.1.emitH _ ?_, fun y hy => s3.2 y (k1 y hy)⟩
        exact printRule_ok s3.1 rb _ (fun x hx => s3.2 x (hrdy x hx))
    · exact ⟨s1.1, k1⟩

theorem mem_withIdx {α : Type} (l : List α) (p : Nat × α) (h : p ∈ withIdx l) : p.2 ∈ l := by
  unfold withIdx at h
  exact (List.of_mem_zip h).2

theorem diffRules_HJ (hw : WF A a b)
    (hkk : ∀ x ∈ a, ∀ y ∈ b, ∀ sx ∈ x.secs, ∀ sy ∈ y.secs, KindByKey sx.subs sy.subs)
    (web : Bool) (al bl : List Rule) (hal : ∀ r ∈ al, RuleOK a r) (hbl : ∀ r ∈ bl, RuleOK b r)
    (hshape : ∀ ra ∈ al, ∀ rb ∈ bl, ruleKey a ra = ruleKey b rb → ra.cm.isSome = rb.cm.isSome)
    (h h' : HSt) (hj : HJ A a b h) (he : diffRules h web al bl = some h') : HJ A a b h' ∧ Keeps h h' := by
  unfold diffRules at he
  split at he
  · cases he; exact ⟨hj, Keeps.refl _⟩
  · dsimp only at he
    rw [hj.j.sa, hj.j.sb] at he
    split at he
    · -- no rule in common
      have h0 : HJ A a b (if al.isEmpty = true then h else if web = true then delRules h true (withIdx al) else markRules h false (withIdx al)) ∧
          Keeps h (if al.isEmpty = true then h else if web = true then delRules h true (withIdx al) else markRules h false (withIdx al)) := by
        split
        · exact ⟨hj, Keeps.refl _⟩
        · split
          · exact delRules_HJ true _ h hj
          · exact markRules_HJ false _ h hj
      split at he
      · cases he; exact h0
      · have := addRules_HJ hw hkk web bl hbl _ h' h0.1 he
        exact ⟨this.1, h0.2.trans this.2⟩
    · have h1 := delRules_HJ (A := A) (a := a) (b := b) web
        ((NA.Vpn.unorderedA (bl.map (ruleKey b)) (al.map (ruleKey a)) 0 []).2.1.filterMap fun i => al[i]?.map fun r => (i, r)) h hj
      generalize delRules h web ((NA.Vpn.unorderedA (bl.map (ruleKey b)) (al.map (ruleKey a)) 0 []).2.1.filterMap
        fun i => al[i]?.map fun r => (i, r)) = hd at he h1
      refine foldl_opt_HJ' (fun h (run : List Nat) => addRules h web (run.filterMap fun j => bl[j]?)) _ _ h h' ?_ ?_ he
      · intro h2 ho
        have s2 := foldl_opt_HJ (A := A) (a := a) (b := b) (fun h (p : Nat × Nat) => match al[p.1]?, bl[p.2]? with
            | some ra, some rb => equalRule h web p.1 ra rb
            | _, _ => some h) _ hd h2 (by
          intro h p h' hp hj hs
          cases h1' : al[p.1]? with
          | none => simp only [h1'] at hs; cases hs; exact ⟨hj, Keeps.refl _⟩
          | some ra =>
            cases h2' : bl[p.2]? with
            | none => simp only [h1', h2'] at hs; cases hs; exact ⟨hj, Keeps.refl _⟩
            | some rb =>
              simp only [h1', h2'] at hs
              obtain ⟨_, k, hk1, hk2⟩ := unorderedA_pairs (bl.map (ruleKey b)) (al.map (ruleKey a)) 0 [] p.1 p.2 hp
              rw [Nat.sub_zero, List.getElem?_map, h1'] at hk1
              rw [List.getElem?_map, h2'] at hk2
              simp only [Option.map_some, Option.some.injEq] at hk1 hk2
              have hra := List.mem_of_getElem? h1'
              have hrb := List.mem_of_getElem? h2'
              exact equalRule_HJ hw hkk web p.1 ra rb (hshape ra hra rb hrb (by rw [hk1, hk2])) (hal ra hra) (hbl rb hrb) h h' hj hs) ho h1.1
        exact ⟨s2.1, h1.2.trans s2.2⟩
      · intro h run h' _ hj hs
        exact addRules_HJ hw hkk web _ (fun r hr => by
          obtain ⟨j, _, hj'⟩ := List.mem_filterMap.1 hr
          exact hbl r (List.mem_of_getElem? hj')) h h' hj hs

theorem diffWeb_HJ (hw : WF A a b)
    (hkk : ∀ x ∈ a, ∀ y ∈ b, ∀ sx ∈ x.secs, ∀ sy ∈ y.secs, KindByKey sx.subs sy.subs)
    (h h' : HSt) (wa wb : Option (List Rule)) (hj : HJ A a b h)
    (hal : ∀ al, wa = some al → ∀ r ∈ al, RuleOK a r) (hbl : ∀ bl, wb = some bl → ∀ r ∈ bl, RuleOK b r)
    (hshape : ∀ al bl, wa = some al → wb = some bl → ∀ ra ∈ al, ∀ rb ∈ bl, ruleKey a ra = ruleKey b rb → ra.cm.isSome = rb.cm.isSome)
    (he : diffWeb h wa wb = some h') : HJ A a b h' := by
  unfold diffWeb at he
  cases hwa : wa with
  | none =>
    cases hwb : wb with
    | none => rw [hwa, hwb] at he; cases he; exact hj
    | some bl =>
      rw [hwa, hwb] at he
      dsimp only at he
      cases hf : bl.foldl (fun (acc : Option HSt) r => acc.bind fun h => followRule h r) (some h) with
      | none => rw [hf] at he; cases he
      | some h1 =>
        rw [hf] at he
        simp only [Option.map_some, Option.some.injEq] at he
        -- every reference of every rule is ready afterwards
        have key : ∀ (l : List Rule) (h h1 : HSt), (∀ r ∈ l, RuleOK b r) → HJ A a b h →
            l.foldl (fun (acc : Option HSt) r => acc.bind fun h => followRule h r) (some h) = some h1 →
            HJ A a b h1 ∧ (∀ r ∈ l, ∀ x ∈ r.refs, h1.isReady x = true) ∧ Keeps h h1 := by
          intro l
          induction l with
          | nil => intro h h1 _ hj he; cases he; exact ⟨hj, fun _ hr => (nomatch hr), Keeps.refl _⟩
          | cons r rs ih =>
            intro h h1 hl hj he
            rw [List.foldl_cons] at he
            simp only [Option.bind_some] at he
            cases hx : followRule h r with
            | none => rw [hx, foldl_optH_none] at he; cases he
            | some h2 =>
              rw [hx] at he
              have s1 := followRule_HJ hw hkk r (hl r List.mem_cons_self) h2 hj hx
              have s2 := ih h2 h1 (fun y hy => hl y (List.mem_cons_of_mem _ hy)) s1.1 he
              refine ⟨s2.1, ?_, s1.2.2.trans s2.2.2⟩
              intro y hy x hx'
              cases hy with
              | head => exact s2.2.2 x (s1.2.1 x hx')
              | tail _ hy => exact s2.2.1 y hy x hx'
        have s1 := key bl h h1 (hbl bl hwb) hj hf
        have s2 : HJ A a b (if inGpUser h1.mode = true then h1.lift (·.emit .exit) else h1) ∧
            Keeps h1 (if inGpUser h1.mode = true then h1.lift (·.emit .exit) else h1) := by
          split
          · exact s1.1.emitG .exit rfl rfl
          · exact ⟨s1.1, Keeps.refl _⟩
        generalize (if inGpUser h1.mode = true then h1.lift (·.emit .exit) else h1) = h2 at he s2
        have s3 : HJ A a b ({ (h2.emitH .webvpn) with mode := some webMode } : HSt) := (s2.1.emitH .webvpn rfl).setMode _
        have k3 : Keeps h1 ({ (h2.emitH .webvpn) with mode := some webMode } : HSt) := fun y hy => s2.2 y hy
        generalize ({ (h2.emitH .webvpn) with mode := some webMode } : HSt) = h3 at he s3 k3
        rw [← he]
        have fin : ∀ (l : List Rule) (h : HSt), HJ A a b h → (∀ r ∈ l, ∀ x ∈ r.refs, h.isReady x = true) →
            HJ A a b (l.foldl (fun h r => h.emitH (.cgm false (h.printRule r r.seq))) h) := by
          intro l
          induction l with
          | nil => intro h hj _; exact hj
          | cons r rs ih =>
            intro h hj hr
            rw [List.foldl_cons]
            refine ih _ (hj.emitH _ (printRule_ok hj r r.seq (hr r List.mem_cons_self))) ?_
            intro r' hr' x hx
            exact hr r' (List.mem_cons_of_mem _ hr') x hx
        exact fin bl h3 s3 (fun r hr x hx => k3 x (s1.2.1 r hr x hx))
  | some al =>
    cases hwb : wb with
    | none =>
      rw [hwa, hwb] at he
      simp only [Option.some.injEq] at he
      rw [← he]
      split
      · exact hj
      · exact (delRules_HJ true _ h hj).1
    | some bl =>
      rw [hwa, hwb] at he
      exact (diffRules_HJ hw hkk true al bl (hal al hwa) (hbl bl hwb) (hshape al bl hwa hwb) h h' hj he).1

/-! ## the whole body -/

/-- well-formed configurations of fragment H -/
structure WFH (a b : Cfg) : Prop where
  wf : WF (a.objs.map (·.id)) a.objs b.objs
  kk : ∀ x ∈ a.objs, ∀ y ∈ b.objs, ∀ sx ∈ x.secs, ∀ sy ∈ y.secs, KindByKey sx.subs sy.subs
  ta : ∀ r ∈ a.tgmap, RuleOK a.objs r
  tb : ∀ r ∈ b.tgmap, RuleOK b.objs r
  wa : ∀ l, a.web = some l → ∀ r ∈ l, RuleOK a.objs r
  wb : ∀ l, b.web = some l → ∀ r ∈ l, RuleOK b.objs r
  st : ∀ ra ∈ a.tgmap, ∀ rb ∈ b.tgmap, ruleKey a.objs ra = ruleKey b.objs rb → ra.cm.isSome = rb.cm.isSome
  sw : ∀ la lb, a.web = some la → b.web = some lb → ∀ ra ∈ la, ∀ rb ∈ lb, ruleKey a.objs ra = ruleKey b.objs rb →
    ra.cm.isSome = rb.cm.isSome

theorem init_HJ (a b : Cfg) : HJ (a.objs.map (·.id)) a.objs b.objs (initH a b) :=
  ⟨rfl, init_J a.objs b.objs, rfl, fun _ hc => (nomatch hc)⟩

theorem anchors_HJ (hw : WF A a b)
    (hkk : ∀ x ∈ a, ∀ y ∈ b, ∀ sx ∈ x.secs, ∀ sy ∈ y.secs, KindByKey sx.subs sy.subs) (k : Kind) (h h' : HSt)
    (hj : HJ A a b h) (he : (h.liftO fun st => diffAnchors st k) = some h') : HJ A a b h' := by
  unfold HSt.liftO at he
  dsimp only at he
  cases hd : diffAnchors h.toSt k with
  | none => rw [hd] at he; cases he
  | some st' =>
    rw [hd] at he
    simp only [Option.map_some, Option.some.injEq] at he
    rw [← he]
    exact hj.withSt st' (diffAnchors_J (hj.wf hw) hkk k h.toSt st' hj.j hd)

/-- **Create-before-reference for the whole change list of fragment H** (before the clean-up): every added sub-command that
carries a reference, every `tunnel-group-map` rule and every `certificate-group-map` rule names objects that exist at that
point — on the device from the start or created by an earlier command — and nothing is deleted. -/
theorem body_refs_existH (a b : Cfg) (hw : WFH a b) (hb : HSt) (he : bodyH a b = some hb) :
    refsOKH (a.objs.map (·.id)) hb.all = true ∧ ∀ c ∈ hb.all, isDelH c = false := by
  unfold bodyH at he
  cases h1 : ((initH a b).liftO fun st => diffAnchors st .tg) with
  | none => rw [h1] at he; cases he
  | some s1 =>
    rw [h1] at he
    simp only [Option.bind_some] at he
    have j1 := anchors_HJ hw.wf hw.kk .tg _ s1 (init_HJ a b) h1
    cases h2 : diffRules s1 false a.tgmap b.tgmap with
    | none => rw [h2] at he; cases he
    | some s2 =>
      rw [h2] at he
      simp only [Option.bind_some] at he
      have j2 := (diffRules_HJ hw.wf hw.kk false a.tgmap b.tgmap hw.ta hw.tb hw.st s1 s2 j1 h2).1
      cases h3 : (s2.liftO fun st => diffAnchors st .user) with
      | none => rw [h3] at he; cases he
      | some s3 =>
        rw [h3] at he
        simp only [Option.bind_some] at he
        have j3 := anchors_HJ hw.wf hw.kk .user _ s3 j2 h3
        have j4 := diffWeb_HJ hw.wf hw.kk s3 hb a.web b.web j3 hw.wa hw.wb hw.sw he
        exact ⟨j4.ok, j4.nd⟩

/-! ## the `exit` before toplevel `webvpn` (former F-VPN-webvpn) -/

/-- what `setCmdConfMode("webvpn")` appends: nothing if that mode is open, else `exit` (if any mode is open) and `webvpn` -/
theorem setWeb_all (h : HSt) (ho : h.out = []) :
    h.setWeb.all = h.all ++ (if h.mode == some webMode then [] else
      (if h.mode.isSome then [Cmd2.g .exit] else []) ++ [Cmd2.h .webvpn]) ∧ h.setWeb.mode = some webMode := by
  unfold HSt.setWeb
  split
  · rename_i hm
    refine ⟨by simp, ?_⟩
    simpa using hm
  · dsimp only
    split
    · refine ⟨?_, rfl⟩
      show (h.all ++ (h.toSt.emit Chg.exit).out.map Cmd2.g) ++ [Cmd2.h .webvpn] = _
      unfold St.emit
      rw [ho]
      simp
    · refine ⟨?_, rfl⟩
      show h.all ++ [Cmd2.h .webvpn] = _
      simp

/-- the strict device takes toplevel `webvpn` exactly when no group-policy / username mode is open -/
theorem exec_webvpn (x : HDev) : (execH1 x (.h .webvpn)).isSome = !inGpUser x.d.mode := by
  unfold execH1
  cases inGpUser x.d.mode <;> rfl

/-- after `exit` no mode of fragment G is open -/
theorem exec_exit_mode (x x' : HDev) (h : execH1 x (.g .exit) = some x') (hw : x.wmode = false) : x'.d.mode = none := by
  unfold execH1 at h
  rw [hw] at h
  simp only [Bool.false_eq_true, if_false] at h
  cases he : exec1 x.d .exit with
  | none => rw [he] at h; cases h
  | some d =>
    rw [he] at h
    simp only [Option.map_some, Option.some.injEq] at h
    rw [← h]
    have hx : exec1 x.d .exit = if x.d.mode.isSome then some { x.d with mode := none } else none := rfl
    rw [hx] at he
    split at he
    · cases he; rfl
    · cases he

theorem foldl_emitH_all (F : HSt → Rule → HChg) : ∀ (l : List Rule) (h : HSt),
    ∃ t, (l.foldl (fun h r => h.emitH (F h r)) h).all = h.all ++ t
  | [], h => ⟨[], by simp⟩
  | r :: rs, h => by
    obtain ⟨t, ht⟩ := foldl_emitH_all F rs (h.emitH (F h r))
    exact ⟨Cmd2.h (F h r) :: t, by rw [List.foldl_cons, ht]; show (h.all ++ [_]) ++ t = _; simp⟩

/-- **`exit` before a new toplevel `webvpn`**: when the device has no `webvpn` and the target has one, the commands appended
after the transfer of what the rules reference are `exit` — exactly if the mode the engine has open is a group-policy's or a
username's — then `webvpn`, then the rules. -/
theorem diffWeb_new_all (h h' : HSt) (bl : List Rule) (he : diffWeb h none (some bl) = some h') :
    ∃ h1 t, bl.foldl (fun (acc : Option HSt) r => acc.bind fun h => followRule h r) (some h) = some h1 ∧ (h1.out = [] →
      h'.all = h1.all ++ (if inGpUser h1.mode then [Cmd2.g .exit] else []) ++ [Cmd2.h .webvpn] ++ t) := by
  unfold diffWeb at he
  dsimp only at he
  cases hf : bl.foldl (fun (acc : Option HSt) r => acc.bind fun h => followRule h r) (some h) with
  | none => rw [hf] at he; cases he
  | some h1 =>
    rw [hf] at he
    simp only [Option.map_some, Option.some.injEq] at he
    obtain ⟨t, ht⟩ := foldl_emitH_all (fun h r => .cgm false (h.printRule r r.seq)) bl
      ({ ((if inGpUser h1.mode = true then h1.lift (·.emit .exit) else h1).emitH .webvpn) with mode := some webMode } : HSt)
    refine ⟨h1, t, rfl, ?_⟩
    intro ho
    rw [← he, ht]
    congr 1
    show (if inGpUser h1.mode = true then h1.lift (·.emit .exit) else h1).all ++ [Cmd2.h .webvpn] = _
    split
    · show (h1.all ++ (h1.toSt.emit Chg.exit).out.map Cmd2.g) ++ [Cmd2.h .webvpn] = _
      unfold St.emit
      rw [ho]
      simp
    · simp

/-! ## decidable form of the hypotheses -/

def ruleOKB (objs : List Obj) (r : Rule) : Bool := r.refs.all fun x => (objs.find? fun y => y.id == x).isSome

def shapeB (oa ob : List Obj) (la lb : List Rule) : Bool :=
  la.all fun ra => lb.all fun rb => !(ruleKey oa ra == ruleKey ob rb) || (ra.cm.isSome == rb.cm.isSome)

def wfhB (a b : Cfg) : Bool :=
  wfB a.objs b.objs && kindByKeyB a.objs b.objs &&
  a.tgmap.all (ruleOKB a.objs) && b.tgmap.all (ruleOKB b.objs) &&
  (a.web.getD []).all (ruleOKB a.objs) && (b.web.getD []).all (ruleOKB b.objs) &&
  shapeB a.objs b.objs a.tgmap b.tgmap && shapeB a.objs b.objs (a.web.getD []) (b.web.getD [])

theorem ruleOK_of_B (objs : List Obj) (r : Rule) (h : ruleOKB objs r = true) : RuleOK objs r := by
  intro x hx
  exact (List.all_eq_true.1 h) x hx

theorem shape_of_B (oa ob : List Obj) (la lb : List Rule) (h : shapeB oa ob la lb = true) :
    ∀ ra ∈ la, ∀ rb ∈ lb, ruleKey oa ra = ruleKey ob rb → ra.cm.isSome = rb.cm.isSome := by
  intro ra hra rb hrb hk
  have := (List.all_eq_true.1 ((List.all_eq_true.1 h) ra hra)) rb hrb
  simpa [hk] using this

theorem wfh_of_wfhB (a b : Cfg) (h : wfhB a b = true) : WFH a b := by
  unfold wfhB at h
  simp only [Bool.and_eq_true] at h
  obtain ⟨⟨⟨⟨⟨⟨⟨h1, h2⟩, h3⟩, h4⟩, h5⟩, h6⟩, h7⟩, h8⟩ := h
  refine ⟨wf_of_wfB _ _ h1, kindByKey_of_B _ _ h2, ?_, ?_, ?_, ?_, shape_of_B _ _ _ _ h7, ?_⟩
  · exact fun r hr => ruleOK_of_B _ r ((List.all_eq_true.1 h3) r hr)
  · exact fun r hr => ruleOK_of_B _ r ((List.all_eq_true.1 h4) r hr)
  · intro l hl r hr
    rw [hl] at h5
    exact ruleOK_of_B _ r ((List.all_eq_true.1 h5) r hr)
  · intro l hl r hr
    rw [hl] at h6
    exact ruleOK_of_B _ r ((List.all_eq_true.1 h6) r hr)
  · intro la lb hla hlb
    rw [hla, hlb] at h8
    exact shape_of_B _ _ _ _ h8

end NA.Vpn.G
