import NA.Proofs.AsaConv2
/-
ASA `line N` planner, part 3: the position map of `diffASAACLs` tracks `cnt` of the current
presence mask, for every cell that is still going to be touched.

`Inv M μ pos needed js`: `js` are the new-only cells still to be added (ascending), `needed`
the old-only cells already deleted or moved, `μ` the resulting presence mask and `pos` the
Go map; `pos[x] = cnt μ x` for every present old cell and every pending new cell.
-/
namespace NA.Acl

attribute [-simp] List.getD_eq_getElem?_getD

structure Inv (M : List Cell) (μ : List Bool) (pos needed js : List Nat) : Prop where
  lμ : μ.length = M.length
  lpos : pos.length = M.length
  both : ∀ x, x < M.length → (M.getD x default).old = true → (M.getD x default).new = true →
    μ.getD x false = true
  newo : ∀ x, x < M.length → (M.getD x default).old = false → (M.getD x default).new = true →
    (μ.getD x false = true ↔ x ∉ js)
  oldo : ∀ x, x < M.length → (M.getD x default).old = true → (M.getD x default).new = false →
    (μ.getD x false = true ↔ x ∉ needed)
  none : ∀ x, x < M.length → (M.getD x default).old = false → (M.getD x default).new = false →
    μ.getD x false = false
  jsp : js.Pairwise (· < ·)
  jsn : ∀ j, j ∈ js → j < M.length ∧ (M.getD j default).old = false ∧ (M.getD j default).new = true
  posI : ∀ x, x < M.length →
    ((M.getD x default).old = true ∧ μ.getD x false = true) ∨ x ∈ js → pos.getD x 0 = cnt μ x

/-- No pending new cell has the `mkey` of a device line that is already deleted / moved
(so `delLookup` never returns a line whose `needed` flag is set). -/
def NeedOK (M : List Cell) (needed js : List Nat) : Prop :=
  ∀ x, x ∈ needed → ∀ j, j ∈ js → (M.getD j default).line.mkey ≠ (M.getD x default).line.mkey

/-- Index form of `Nodup` of the `mkey`s of the new (resp. old) lines. -/
def NewInj (M : List Cell) : Prop :=
  ∀ x y, x < M.length → y < M.length → (M.getD x default).new = true → (M.getD y default).new = true →
    (M.getD x default).line.mkey = (M.getD y default).line.mkey → x = y
def OldInj (M : List Cell) : Prop :=
  ∀ x y, x < M.length → y < M.length → (M.getD x default).old = true → (M.getD y default).old = true →
    (M.getD x default).line.mkey = (M.getD y default).line.mkey → x = y

theorem newInj_of_nodup (M : List Cell) (h : ((news M).map (·.mkey)).Nodup) : NewInj M := by
  intro x y hx hy px py e
  have h' : ((M.filter (·.new)).map (fun c => c.line.mkey)).Nodup := by
    simpa [news, List.map_map, Function.comp_def] using h
  exact nodup_map_filter_inj M (·.new) (fun c => c.line.mkey) h' x y hx hy px py e

theorem oldInj_of_nodup (M : List Cell) (h : ((olds M).map (·.mkey)).Nodup) : OldInj M := by
  intro x y hx hy px py e
  have h' : ((M.filter (·.old)).map (fun c => c.line.mkey)).Nodup := by
    simpa [olds, List.map_map, Function.comp_def] using h
  exact nodup_map_filter_inj M (·.old) (fun c => c.line.mkey) h' x y hx hy px py e

/-! ### Mask-level invariant steps -/

theorem Inv.del {M : List Cell} {μ : List Bool} {pos needed js : List Nat}
    (h : Inv M μ pos needed js) (i : Nat) (hi : i < M.length)
    (ho : (M.getD i default).old = true) (hn : (M.getD i default).new = false)
    (hnd : i ∉ needed) :
    Inv M (μ.set i false) (pos.map fun q => if q > pos.getD i 0 then q - 1 else q)
      (i :: needed) js := by
  have hiμ : i < μ.length := by rw [h.lμ]; exact hi
  have hμi : μ.getD i false = true := (h.oldo i hi ho hn).2 hnd
  have hpi : pos.getD i 0 = cnt μ i := h.posI i hi (Or.inl ⟨ho, hμi⟩)
  refine ⟨by simpa using h.lμ, by simpa using h.lpos, ?_, ?_, ?_, ?_, h.jsp, h.jsn, ?_⟩
  · intro x hx hO hN
    rw [getD_set_bool μ i x false hiμ]
    by_cases e : x = i
    · subst e; rw [hn] at hN; cases hN
    · simp only [e, if_false]; exact h.both x hx hO hN
  · intro x hx hO hN
    rw [getD_set_bool μ i x false hiμ]
    by_cases e : x = i
    · subst e; rw [hn] at hN; cases hN
    · simp only [e, if_false]; exact h.newo x hx hO hN
  · intro x hx hO hN
    rw [getD_set_bool μ i x false hiμ]
    by_cases e : x = i
    · subst e; simp
    · simp only [e, if_false, List.mem_cons, false_or]; exact h.oldo x hx hO hN
  · intro x hx hO hN
    rw [getD_set_bool μ i x false hiμ]
    by_cases e : x = i
    · simp [e]
    · simp only [e, if_false]; exact h.none x hx hO hN
  · intro x hx hc
    rw [getD_set_bool μ i x false hiμ] at hc
    have hxi : x ≠ i := by
      intro e
      subst e
      rcases hc with hc | hc
      · simp at hc
      · have := (h.jsn x hc).2.1; rw [ho] at this; cases this
    simp only [hxi, if_false] at hc
    have hpx : pos.getD x 0 = cnt μ x := h.posI x hx hc
    rw [getD_map_lt pos _ x 0 0 (by rw [h.lpos]; exact hx), hpx, hpi]
    have hs := cnt_set_false μ i x hμi
    by_cases hlt : i < x
    · have := cnt_lt μ i x hlt hμi
      simp only [hlt, if_true] at hs
      have hgt : cnt μ x > cnt μ i := this
      simp only [hgt, if_true]; omega
    · have := cnt_mono μ x i (by omega)
      simp only [hlt, if_false] at hs
      have hgt : ¬ cnt μ x > cnt μ i := by omega
      simp only [hgt, if_false]; omega

theorem Inv.add {M : List Cell} {μ : List Bool} {pos needed js : List Nat} {j : Nat}
    (h : Inv M μ pos needed (j :: js)) :
    Inv M (μ.set j true) (pos.map fun q => if q ≥ pos.getD j 0 then q + 1 else q) needed js := by
  obtain ⟨hj, hjo, hjn⟩ := h.jsn j (by simp)
  have hjμ : j < μ.length := by rw [h.lμ]; exact hj
  have hlt : ∀ x, x ∈ js → j < x := (List.pairwise_cons.1 h.jsp).1
  have hjjs : j ∉ js := fun hm => Nat.lt_irrefl j (hlt j hm)
  have hμj : μ.getD j false = false := by
    have := (h.newo j hj hjo hjn).1
    cases hb : μ.getD j false with
    | false => rfl
    | true => exact absurd (List.mem_cons_self) (this hb)
  have hpj : pos.getD j 0 = cnt μ j := h.posI j hj (Or.inr (by simp))
  refine ⟨by simpa using h.lμ, by simpa using h.lpos, ?_, ?_, ?_, ?_,
    (List.pairwise_cons.1 h.jsp).2, fun x hx => h.jsn x (List.mem_cons_of_mem _ hx), ?_⟩
  · intro x hx hO hN
    rw [getD_set_bool μ j x true hjμ]
    by_cases e : x = j
    · simp [e]
    · simp only [e, if_false]; exact h.both x hx hO hN
  · intro x hx hO hN
    rw [getD_set_bool μ j x true hjμ]
    by_cases e : x = j
    · subst e; simp [hjjs]
    · have := h.newo x hx hO hN
      simp only [e, if_false]
      simpa [e] using this
  · intro x hx hO hN
    rw [getD_set_bool μ j x true hjμ]
    by_cases e : x = j
    · subst e; rw [hjo] at hO; cases hO
    · simp only [e, if_false]; exact h.oldo x hx hO hN
  · intro x hx hO hN
    rw [getD_set_bool μ j x true hjμ]
    by_cases e : x = j
    · subst e; rw [hjn] at hN; cases hN
    · simp only [e, if_false]; exact h.none x hx hO hN
  · intro x hx hc
    rw [getD_set_bool μ j x true hjμ] at hc
    have hxj : x ≠ j := by
      intro e
      subst e
      rcases hc with hc | hc
      · rw [hjo] at hc; cases hc.1
      · exact hjjs hc
    simp only [hxj, if_false] at hc
    have hpx : pos.getD x 0 = cnt μ x :=
      h.posI x hx (hc.elim Or.inl (fun m => Or.inr (List.mem_cons_of_mem _ m)))
    rw [getD_map_lt pos _ x 0 0 (by rw [h.lpos]; exact hx), hpx, hpj,
      cnt_set_true μ j x hμj hjμ]
    by_cases hjx : j < x
    · have := cnt_mono μ j x (by omega)
      have hge : cnt μ x ≥ cnt μ j := this
      simp only [hjx, hge, if_true]
    · have hxlt : x < j := by omega
      have hμx : μ.getD x false = true := by
        rcases hc with hc | hc
        · exact hc.2
        · exact absurd (hlt x hc) hjx
      have := cnt_lt μ x j hxlt hμx
      have hge : ¬ cnt μ x ≥ cnt μ j := by omega
      simp only [hjx, hge, if_false]; omega

/-- The added line clashes with no present line, provided it clashes with no present
old-only line. -/
theorem Inv.add_ok {M : List Cell} {μ : List Bool} {pos needed js : List Nat} {j : Nat}
    (h : Inv M μ pos needed (j :: js)) (hN1 : NewInj M)
    (hdel : ∀ x, x < M.length → (M.getD x default).old = true → (M.getD x default).new = false →
      μ.getD x false = true → (M.getD x default).line.mkey ≠ (M.getD j default).line.mkey) :
    ∀ x, x < M.length → μ.getD x false = true →
      (M.getD x default).line.mkey ≠ (M.getD j default).line.mkey := by
  obtain ⟨hj, hjo, hjn⟩ := h.jsn j (by simp)
  intro x hx hμx
  cases hN : (M.getD x default).new with
  | true =>
    intro e
    have := hN1 x j hx hj hN hjn e
    subst this
    have := (h.newo x hx hjo hjn).1 hμx
    exact this (by simp)
  | false =>
    cases hO : (M.getD x default).old with
    | true => exact hdel x hx hO hN hμx
    | false => rw [h.none x hx hO hN] at hμx; cases hμx

/-! ### `delLookup` -/

theorem mem_delIdx (M : List Cell) (i : Nat) :
    i ∈ delIdx M ↔ i < M.length ∧ (M.getD i default).old = true ∧ (M.getD i default).new = false := by
  simp [delIdx, List.mem_filter]

theorem mem_addIdx (M : List Cell) (j : Nat) :
    j ∈ addIdx M ↔ j < M.length ∧ (M.getD j default).old = false ∧ (M.getD j default).new = true := by
  simp only [addIdx, List.mem_filter, List.mem_range, Bool.and_eq_true, Bool.not_eq_true']
  constructor
  · rintro ⟨a, b, c⟩; exact ⟨a, c, b⟩
  · rintro ⟨a, b, c⟩; exact ⟨a, c, b⟩

theorem delLookup_some (M : List Cell) (k i : Nat) (h : delLookup M k = some i) :
    i < M.length ∧ (M.getD i default).old = true ∧ (M.getD i default).new = false ∧
      (M.getD i default).line.mkey = k := by
  unfold delLookup at h
  have hm : i ∈ (delIdx M).filter fun i => (M.getD i default).line.mkey == k := by
    obtain ⟨ys, hys⟩ := List.getLast?_eq_some_iff.1 h
    rw [hys]; simp
  obtain ⟨h1, h2⟩ := List.mem_filter.1 hm
  obtain ⟨a, b, c⟩ := (mem_delIdx M i).1 h1
  exact ⟨a, b, c, by simpa using h2⟩

theorem delLookup_none (M : List Cell) (k : Nat) (h : delLookup M k = none) (x : Nat)
    (hx : x < M.length) (hO : (M.getD x default).old = true) (hN : (M.getD x default).new = false) :
    (M.getD x default).line.mkey ≠ k := by
  unfold delLookup at h
  have hnil := List.getLast?_eq_none_iff.1 h
  intro e
  have hm : x ∈ (delIdx M).filter fun i => (M.getD i default).line.mkey == k :=
    List.mem_filter.2 ⟨(mem_delIdx M x).2 ⟨hx, hO, hN⟩, by simpa using e⟩
  rw [hnil] at hm
  cases hm

/-! ### One step of the add loop -/

theorem add_step (M : List Cell) (hN1 : NewInj M) (hN2 : OldInj M)
    {μ : List Bool} {pos needed js : List Nat} {j : Nat} (ops : List Op)
    (h : Inv M μ pos needed (j :: js)) (hk : NeedOK M needed (j :: js)) :
    ∃ μ1 pos1 needed1 op,
      asaAddStep M ⟨pos, needed, ops⟩ j = ⟨pos1, needed1, op :: ops⟩ ∧
      Inv M μ1 pos1 needed1 js ∧ NeedOK M needed1 js ∧
      ∀ ops' μ', MaskRun M μ1 ops' μ' → MaskRun M μ (op :: ops') μ' := by
  obtain ⟨hj, hjo, hjn⟩ := h.jsn j (by simp)
  have hlt : ∀ x, x ∈ js → j < x := (List.pairwise_cons.1 h.jsp).1
  cases hd : delLookup M (M.getD j default).line.mkey with
  | none =>
    have hμj : μ.getD j false = false := by
      cases hb : μ.getD j false with
      | false => rfl
      | true => exact absurd (List.mem_cons_self) ((h.newo j hj hjo hjn).1 hb)
    have hpj : pos.getD j 0 = cnt μ j := h.posI j hj (Or.inr (by simp))
    refine ⟨μ.set j true, pos.map (fun q => if q ≥ pos.getD j 0 then q + 1 else q), needed,
      Op.add (pos.getD j 0) (M.getD j default).line, ?_, h.add, ?_, ?_⟩
    · simp only [asaAddStep, hd, asaAddACL]
    · intro x hx j' hj'
      exact hk x hx j' (List.mem_cons_of_mem _ hj')
    · intro ops' μ' hr
      rw [hpj]
      refine MaskRun.add μ j ops' μ' hj h.lμ hμj hjn ?_ hr
      exact h.add_ok hN1 (fun x hx hO hN _ => delLookup_none M _ hd x hx hO hN)
  | some i =>
    obtain ⟨hi, hio, hin, hik⟩ := delLookup_some M _ i hd
    have hnd : i ∉ needed := fun hm => hk i hm j (by simp) hik.symm
    have hμi : μ.getD i false = true := (h.oldo i hi hio hin).2 hnd
    have hpi : pos.getD i 0 = cnt μ i := h.posI i hi (Or.inl ⟨hio, hμi⟩)
    have h1 := h.del i hi hio hin hnd
    have hμj : (μ.set i false).getD j false = false := by
      cases hb : (μ.set i false).getD j false with
      | false => rfl
      | true => exact absurd (List.mem_cons_self) ((h1.newo j hj hjo hjn).1 hb)
    have hpj := h1.posI j hj (Or.inr (by simp))
    refine ⟨(μ.set i false).set j true, _, i :: needed,
      Op.move (pos.getD i 0) (M.getD i default).line
        ((pos.map fun q => if q > pos.getD i 0 then q - 1 else q).getD j 0) (M.getD j default).line,
      ?_, h1.add, ?_, ?_⟩
    · have hc : needed.contains i = false := by simpa using hnd
      simp only [asaAddStep, hd, asaDelACL, asaAddACL, hc]
      rfl
    · intro x hx j' hj'
      rcases List.mem_cons.1 hx with e | hx
      · subst e
        intro e'
        have hj'n := h.jsn j' (List.mem_cons_of_mem _ hj')
        have := hN1 j' j hj'n.1 hj hj'n.2.2 hjn (e'.trans hik)
        have := hlt j' hj'
        omega
      · exact hk x hx j' (List.mem_cons_of_mem _ hj')
    · intro ops' μ' hr
      rw [hpj, hpi]
      refine MaskRun.move μ i j ops' μ' hi hj h.lμ hμi hμj hjn ?_ hr
      apply h1.add_ok hN1
      intro x hx hO hN hμx e
      have := hN2 x i hx hi hO hio (e.trans hik.symm)
      subst this
      rw [getD_set_bool μ x x false (by rw [h.lμ]; exact hx)] at hμx
      simp at hμx

theorem add_phase (M : List Cell) (hN1 : NewInj M) (hN2 : OldInj M) (js : List Nat) :
    ∀ (μ : List Bool) (pos needed : List Nat) (ops : List Op),
      Inv M μ pos needed js → NeedOK M needed js →
      ∃ μ' pos' needed' ops',
        js.foldl (asaAddStep M) ⟨pos, needed, ops⟩ = ⟨pos', needed', ops'.reverse ++ ops⟩ ∧
        Inv M μ' pos' needed' [] ∧ MaskRun M μ ops' μ' := by
  induction js with
  | nil =>
    intro μ pos needed ops h _
    exact ⟨μ, pos, needed, [], by simp, h, MaskRun.nil μ⟩
  | cons j js ih =>
    intro μ pos needed ops h hk
    obtain ⟨μ1, pos1, needed1, op, he, h1, hk1, hr⟩ := add_step M hN1 hN2 ops h hk
    obtain ⟨μ', pos', needed', ops', he', h', hr'⟩ := ih μ1 pos1 needed1 (op :: ops) h1 hk1
    refine ⟨μ', pos', needed', op :: ops', ?_, h', hr ops' μ' hr'⟩
    rw [List.foldl_cons, he, he']
    simp

/-! ### One step of the delete loop -/

theorem del_step (M : List Cell) {μ : List Bool} {pos needed : List Nat} (ops : List Op)
    (h : Inv M μ pos needed []) (i : Nat) (hi : i < M.length)
    (ho : (M.getD i default).old = true) (hn : (M.getD i default).new = false) :
    ∃ μ1 pos1 needed1 ops1,
      asaDelStep M ⟨pos, needed, ops⟩ i = ⟨pos1, needed1, ops1.reverse ++ ops⟩ ∧
      Inv M μ1 pos1 needed1 [] ∧ i ∈ needed1 ∧ (∀ x, x ∈ needed → x ∈ needed1) ∧
      ∀ ops' μ', MaskRun M μ1 ops' μ' → MaskRun M μ (ops1 ++ ops') μ' := by
  by_cases hnd : i ∈ needed
  · refine ⟨μ, pos, needed, [], ?_, h, hnd, fun _ hx => hx, fun _ _ hr => by simpa using hr⟩
    simp [asaDelStep, hnd]
  · have hμi : μ.getD i false = true := (h.oldo i hi ho hn).2 hnd
    have hpi : pos.getD i 0 = cnt μ i := h.posI i hi (Or.inl ⟨ho, hμi⟩)
    refine ⟨μ.set i false, _, i :: needed, [Op.del (pos.getD i 0) (M.getD i default).line], ?_,
      h.del i hi ho hn hnd, by simp, fun x hx => List.mem_cons_of_mem _ hx, ?_⟩
    · have hc : needed.contains i = false := by simpa using hnd
      simp only [asaDelStep, asaDelACL, hc]
      rfl
    · intro ops' μ' hr
      rw [hpi]
      exact MaskRun.del μ i ops' μ' hi h.lμ hμi hr

theorem del_phase (M : List Cell) (ds : List Nat) :
    ∀ (μ : List Bool) (pos needed : List Nat) (ops : List Op),
      Inv M μ pos needed [] →
      (∀ i, i ∈ ds → i < M.length ∧ (M.getD i default).old = true ∧ (M.getD i default).new = false) →
      ∃ μ' pos' needed' ops',
        ds.foldl (asaDelStep M) ⟨pos, needed, ops⟩ = ⟨pos', needed', ops'.reverse ++ ops⟩ ∧
        Inv M μ' pos' needed' [] ∧ (∀ i, i ∈ ds → i ∈ needed') ∧ (∀ x, x ∈ needed → x ∈ needed') ∧
        MaskRun M μ ops' μ' := by
  induction ds with
  | nil =>
    intro μ pos needed ops h _
    exact ⟨μ, pos, needed, [], by simp, h, by simp, fun _ hx => hx, MaskRun.nil μ⟩
  | cons i ds ih =>
    intro μ pos needed ops h hds
    obtain ⟨hi, ho, hn⟩ := hds i (by simp)
    obtain ⟨μ1, pos1, needed1, ops1, he, h1, hin, hsub, hr⟩ := del_step M ops h i hi ho hn
    obtain ⟨μ', pos', needed', ops', he', h', hall, hsub', hr'⟩ :=
      ih μ1 pos1 needed1 (ops1.reverse ++ ops) h1 (fun x hx => hds x (List.mem_cons_of_mem _ hx))
    refine ⟨μ', pos', needed', ops1 ++ ops', ?_, h', ?_, fun x hx => hsub' x (hsub x hx),
      hr ops' μ' hr'⟩
    · rw [List.foldl_cons, he, he']
      simp
    · intro x hx
      rcases List.mem_cons.1 hx with e | hx
      · subst e; exact hsub' _ hin
      · exact hall x hx

/-! ### Initial invariant, final mask -/

theorem oldMask_getD (M : List Cell) (x : Nat) (hx : x < M.length) :
    (oldMask M).getD x false = (M.getD x default).old := by
  unfold oldMask
  exact getD_map_lt M (·.old) x false default hx

theorem newMask_getD (M : List Cell) (x : Nat) (hx : x < M.length) :
    (newMask M).getD x false = (M.getD x default).new := by
  unfold newMask
  exact getD_map_lt M (·.new) x false default hx

theorem pos0_getD (M : List Cell) (x : Nat) (hx : x < M.length) :
    (pos0 M).getD x 0 = cnt (oldMask M) x := by
  unfold pos0
  rw [getD_map_lt (List.range M.length) (countOld M) x 0 0 (by simpa using hx), countOld_eq_cnt]
  congr 1
  simp [List.getD_eq_getElem?_getD, hx]

theorem inv_init (M : List Cell) : Inv M (oldMask M) (pos0 M) [] (addIdx M) := by
  refine ⟨by simp [oldMask], by simp [pos0], ?_, ?_, ?_, ?_, ?_, ?_, ?_⟩
  · intro x hx hO _; rw [oldMask_getD M x hx, hO]
  · intro x hx hO hN
    rw [oldMask_getD M x hx, hO]
    have : x ∈ addIdx M := (mem_addIdx M x).2 ⟨hx, hO, hN⟩
    simp [this]
  · intro x hx hO _; rw [oldMask_getD M x hx, hO]; simp
  · intro x hx hO _; rw [oldMask_getD M x hx, hO]
  · unfold addIdx
    exact List.Pairwise.filter _ List.pairwise_lt_range
  · intro j hj; exact (mem_addIdx M j).1 hj
  · intro x hx _; exact pos0_getD M x hx

theorem final_mask (M : List Cell) (μ : List Bool) (pos needed : List Nat)
    (h : Inv M μ pos needed []) (hall : ∀ i, i ∈ delIdx M → i ∈ needed) : μ = newMask M := by
  apply list_ext_getD false
  · rw [h.lμ]; simp [newMask]
  · intro x hx
    rw [h.lμ] at hx
    rw [newMask_getD M x hx]
    cases hO : (M.getD x default).old <;> cases hN : (M.getD x default).new
    · exact h.none x hx hO hN
    · exact (h.newo x hx hO hN).2 (by simp)
    · have hm : x ∈ needed := hall x ((mem_delIdx M x).2 ⟨hx, hO, hN⟩)
      cases hb : μ.getD x false with
      | false => rfl
      | true => exact absurd hm ((h.oldo x hx hO hN).1 hb)
    · exact h.both x hx hO hN

/-- The plan of `diffASAACLs` is a mask-level run from the old mask to the new mask. -/
theorem planASA_maskRun (M : List Cell) (hN1 : NewInj M) (hN2 : OldInj M) :
    MaskRun M (oldMask M) (planASA M) (newMask M) := by
  obtain ⟨μ1, pos1, needed1, ops1, he1, h1, hr1⟩ :=
    add_phase M hN1 hN2 (addIdx M) (oldMask M) (pos0 M) [] [] (inv_init M)
      (fun x hx => by cases hx)
  obtain ⟨μ2, pos2, needed2, ops2, he2, h2, hall, _, hr2⟩ :=
    del_phase M (delIdx M).reverse μ1 pos1 needed1 (ops1.reverse ++ []) h1
      (fun i hi => (mem_delIdx M i).1 (List.mem_reverse.1 hi))
  have hμ : μ2 = newMask M :=
    final_mask M μ2 pos2 needed2 h2 (fun i hi => hall i (List.mem_reverse.2 hi))
  have hp : planASA M = ops1 ++ ops2 := by
    unfold planASA
    simp only [he1, he2]
    simp
  rw [hp, ← hμ]
  exact hr1.append hr2

end NA.Acl
