import NA.Proofs.C15Run
/-!
# C15 helper lemmas, part 8: the whole of `ApplyCommands` against the scripted device
(the fixed dialogue before and after the change loop)
-/
namespace NA.Ios

variable {σ : Type}

/-! ### generic evaluation of the fixed exchanges -/

theorem forEach_sendCmd_eval (D : Device σ) (ls : List Str) (st : St σ) (I : σ → Prop)
    (hI : I st.dev) (hp : st.pend = [])
    (hl : ∀ l ∈ ls, ∃ reply k, (∀ d, I d → D.step d l = (d, reply)) ∧ promptFind reply = some (k, reply.length)) :
    forEach (sendCmd D) ls st = (.ok (), { st with pend := [], trace := st.trace ++ ls }) := by
  induction ls generalizing st with
  | nil =>
    cases st; simp_all [forEach, pureM]
  | cons l ls ih =>
    obtain ⟨reply, k, hstep, hprompt⟩ := hl l (by simp)
    have h1 := sendCmd_eval D st l reply st.dev k (hstep st.dev hI) hp hprompt
    unfold forEach bindM
    rw [h1]
    simp only
    rw [ih { st with pend := [], trace := st.trace ++ [l] } hI rfl (fun x hx => hl x (by simp [hx]))]
    simp

theorem cancelReload_eval (D : Device σ) (st : St σ) (r0 r2 : Str) (d1 d2 : σ) (e k : Nat)
    (hp : st.pend = [])
    (h1 : D.step st.dev cancelCmd = (d1, r0))
    (a1 : altFind [(lit "--- SHUTDOWN ABORTED ---", false)] r0 = some e) (he : e ≤ r0.length)
    (a2 : endsWithHash (r0.drop e) = true)
    (h3 : D.step d1 [] = (d2, r2))
    (a3 : promptFind r2 = some (k, r2.length)) :
    cancelReload D st =
      (.ok (), { st with dev := d2, pend := [], reloadActive := false,
                         trace := st.trace ++ [cancelCmd, []] }) := by
  have hlen : e + (r0.length - e) = r0.length := by omega
  unfold cancelReload issueCmd sendCmd bindM send waitHashEnd waitPrompt setActive pureM
  simp [expectEnd, hp, h1, a1, a2, h3, a3, hlen]

theorem writeMem_eval (D : Device σ) (st : St σ) (r0 : Str) (d1 : σ) (n : Nat)
    (hp : st.pend = [])
    (h1 : D.step st.dev writeCmd = (d1, r0))
    (a1 : altFind [(lit "#", true), (lit "[confirm]", false)] r0 = some r0.length)
    (c1 : containsLit (lit "Overwrite the previous NVRAM configuration") r0 = false)
    (c2 : containsLit (lit "[OK]") r0 = true) :
    writeMem D n st = (.ok (), { st with dev := d1, pend := [], trace := st.trace ++ [writeCmd] }) := by
  have hr : writeMemRound D st = (.ok .done, { st with dev := d1, pend := [], trace := st.trace ++ [writeCmd] }) := by
    unfold writeMemRound issueCmd bindM send pureM
    simp [expectEnd, hp, h1, a1, c1, c2]
  cases n with
  | zero => unfold writeMem bindM; rw [hr]; rfl
  | succ n => unfold writeMem bindM; rw [hr]; rfl

/-! ### against the scripted device -/

theorem simDev_parts_nil (d : SimSt) (h : d.parts = []) : ({ d with parts := [] } : SimSt) = d := by
  cases d with
  | mk pa qu oc => simp at h; simp [h]

def confReply : Str :=
  lit "configure terminal\nEnter configuration commands, one per line.  End with CNTL/Z.\n" ++ prompt
def cancelReply : Str := lit "reload cancel\n\n\n***\n*** --- SHUTDOWN ABORTED ---\n***\n" ++ prompt
def writeReply : Str :=
  lit "write memory\nBuilding configuration...\n  Compressed configuration from 106098 bytes to 30504 bytes[OK]\n" ++ prompt

theorem std_conf (na : Bool) : stdReplyV na confCmd = some [confReply] := by cases na <;> decide
theorem std_cancel (na : Bool) : stdReplyV na cancelCmd = some [cancelReply] := by cases na <;> decide
theorem std_write (na : Bool) : stdReplyV na writeCmd = some [writeReply] := by cases na <;> decide

theorem prep_plain_facts (na : Bool) : ∀ l ∈ prepCmds, l = confCmd ∨
    (stdReplyV na l = none ∧ isChange l = false ∧
     promptFind (l ++ ['\n'] ++ prompt) = some (l.length, (l ++ ['\n'] ++ prompt).length)) := by
  cases na <;> decide +kernel

/-- the seven preparation commands -/
theorem prepare_sim (na : Bool) (st : St SimSt) (hp : st.pend = []) (hparts : st.dev.parts = []) :
    prepareDevice (simDevice [] na) st = (.ok (), { st with pend := [], trace := st.trace ++ prepCmds }) := by
  unfold prepareDevice
  refine forEach_sendCmd_eval (simDevice [] na) prepCmds st (fun d => d.parts = []) hparts hp ?_
  intro l hl
  have hsplit : splitOnNL l = [l] := (by decide : ∀ c ∈ prepCmds, splitOnNL c = [c]) l hl
  rcases prep_plain_facts na l hl with hc | ⟨hs, hch, hpf⟩
  · subst hc
    refine ⟨confReply, confReply.length - 8, ?_, by decide +kernel⟩
    intro d hd
    have := simStep_std na d confCmd _ [] hd (std_conf na) hsplit
    rw [this, simDev_parts_nil d hd]
  · exact ⟨l ++ ['\n'] ++ prompt, l.length, fun d hd => simStep_plain na d l hd hs hch hsplit, hpf⟩

/-- the lines of the schedule exchange in the two dialogue variants -/
def schedLines (na : Bool) : List Str := if na then [reloadCmd, []] else [reloadCmd, lit "n", []]

theorem schedule_sim (na : Bool) (st : St SimSt) (hp : st.pend = []) (hparts : st.dev.parts = []) :
    scheduleReload (simDevice [] na) st =
      (.ok (), { st with pend := [], reloadActive := true, trace := st.trace ++ schedLines na }) := by
  have hs0 : splitOnNL reloadCmd = [reloadCmd] := by decide
  have hsn : splitOnNL (lit "n") = [lit "n"] := by decide
  have hse : splitOnNL ([] : Str) = [[]] := by decide
  cases na with
  | false =>
    have hstd : stdReplyV false reloadCmd = some
        [(lit "reload in 2\n\nSystem configuration has been modified. Save? [yes/no]: "),
         lit "Reload reason: Reload Command\nProceed with reload? [confirm]", prompt] := by decide
    have := sendReloadCmd_eval (simDevice [] false) st false _ _ _ _ _ _ 0 hp
      (simStep_std false st.dev reloadCmd _ _ hparts hstd hs0) (by decide +kernel) (by decide +kernel)
      (simStep_part false _ (lit "n") _ _ rfl hsn) (by decide +kernel)
      (simStep_part false _ [] _ _ rfl hse) (by decide +kernel)
    unfold scheduleReload
    rw [this, simDev_parts_nil st.dev hparts]
    rfl
  | true =>
    have hstd : stdReplyV true reloadCmd = some
        [(lit "reload in 2\nProceed with reload? [confirm]"), prompt] := by decide
    have := sendReloadCmd_eval_noask (simDevice [] true) st false _ _ _ _ 0 hp
      (simStep_std true st.dev reloadCmd _ _ hparts hstd hs0) (by decide +kernel) (by decide +kernel)
      (simStep_part true _ [] _ _ rfl hse) (by decide +kernel)
    unfold scheduleReload
    rw [this, simDev_parts_nil st.dev hparts]
    rfl

theorem conf_sim (na : Bool) (st : St SimSt) (hp : st.pend = []) (hparts : st.dev.parts = []) :
    sendCmd (simDevice [] na) confCmd st = (.ok (), { st with pend := [], trace := st.trace ++ [confCmd] }) := by
  have := sendCmd_eval (simDevice [] na) st confCmd confReply _ (confReply.length - 8)
    (simStep_std na st.dev confCmd _ [] hparts (std_conf na) (by decide)) hp (by decide +kernel)
  rw [this, simDev_parts_nil st.dev hparts]

theorem end_sim (na : Bool) (st : St SimSt) (hp : st.pend = []) (hparts : st.dev.parts = []) :
    sendCmd (simDevice [] na) endCmd st = (.ok (), { st with pend := [], trace := st.trace ++ [endCmd] }) := by
  exact sendCmd_eval (simDevice [] na) st endCmd (endCmd ++ ['\n'] ++ prompt) _ endCmd.length
    (simStep_plain na st.dev endCmd hparts (by cases na <;> decide) (by decide) (by decide)) hp (by decide +kernel)

theorem cancel_sim (na : Bool) (st : St SimSt) (hp : st.pend = []) (hparts : st.dev.parts = []) :
    cancelReload (simDevice [] na) st =
      (.ok (), { st with pend := [], reloadActive := false, trace := st.trace ++ [cancelCmd, []] }) := by
  have hse : splitOnNL ([] : Str) = [[]] := by decide
  have h1 := simStep_std na st.dev cancelCmd cancelReply [] hparts (std_cancel na) (by decide)
  rw [simDev_parts_nil st.dev hparts] at h1
  have := cancelReload_eval (simDevice [] na) st cancelReply ([] ++ ['\n'] ++ prompt) _ _ 48 0 hp h1
    (by decide +kernel) (by decide +kernel) (by decide +kernel)
    (simStep_plain na st.dev [] hparts (by cases na <;> decide) (by decide) hse) (by decide +kernel)
  rw [this]

theorem write_sim (na : Bool) (st : St SimSt) (hp : st.pend = []) (hparts : st.dev.parts = []) (n : Nat) :
    writeMem (simDevice [] na) n st = (.ok (), { st with pend := [], trace := st.trace ++ [writeCmd] }) := by
  have h1 := simStep_std na st.dev writeCmd writeReply [] hparts (std_write na) (by decide)
  rw [simDev_parts_nil st.dev hparts] at h1
  rw [writeMem_eval (simDevice [] na) st writeReply _ n hp h1 (by decide +kernel) (by decide +kernel) (by decide +kernel)]


/-- the transcript of a successful run -/
def fullTrace (na : Bool) (gs : List Chg) : List Str :=
  prepCmds ++ schedLines na ++ [confCmd] ++ specTrace na gs ++ [endCmd] ++ [cancelCmd, []] ++ [writeCmd]

/-- **the whole of `ApplyCommands` against the scripted device**, for a script whose outputs are
all accepted -/
theorem apply_sim_ok (na : Bool) (gs : List Chg) (q : List Behav) (st0 : St SimSt)
    (hp : st0.pend = []) (ht : st0.trace = []) (hparts : st0.dev.parts = [])
    (hq : st0.dev.queue = gs.flatMap Chg.behavs ++ q) (hc : ∀ g ∈ gs, g.Clean ∧ g.NoProbeFirst)
    (hok : specOk gs = true) :
    let o := applyCommands (simDevice [] na) true (gs.map Chg.cmd) st0
    o.1 = .ok () ∧ o.2.trace = fullTrace na gs ∧ o.2.warns = st0.warns ++ specWarns gs ∧
    o.2.reloadActive = false ∧ o.2.pend = [] := by
  intro o
  let D := simDevice [] na
  let s1 : St SimSt := { st0 with pend := [], trace := st0.trace ++ prepCmds }
  have e1 : prepareDevice D st0 = (.ok (), s1) := prepare_sim na st0 hp hparts
  let s2 : St SimSt := { s1 with pend := [], reloadActive := true, trace := s1.trace ++ schedLines na }
  have e2 : scheduleReload D s1 = (.ok (), s2) := schedule_sim na s1 rfl hparts
  let s3 : St SimSt := { s2 with pend := [], trace := s2.trace ++ [confCmd] }
  have e3 : sendCmd D confCmd s2 = (.ok (), s3) := conf_sim na s2 rfl hparts
  have hr3 : Ready s3 := ⟨rfl, rfl, hparts⟩
  have hl := loop_spec na gs s3 q hr3 hq hc
  obtain ⟨hl1, hl2, hl3, _⟩ := hl
  obtain ⟨hlok, hlr, hlq⟩ := hl3 hok
  let s4 := (changeLoop D true (gs.map Chg.cmd) s3).2
  have e4 : sendCmd D endCmd s4 = (.ok (), { s4 with pend := [], trace := s4.trace ++ [endCmd] }) :=
    end_sim na s4 hlr.pend hlr.parts
  let s5 : St SimSt := { s4 with pend := [], trace := s4.trace ++ [endCmd] }
  have e5 : cancelReload D s5 =
      (.ok (), { s5 with pend := [], reloadActive := false, trace := s5.trace ++ [cancelCmd, []] }) :=
    cancel_sim na s5 rfl hlr.parts
  let s6 : St SimSt := { s5 with pend := [], reloadActive := false, trace := s5.trace ++ [cancelCmd, []] }
  have e6 : writeMem D 2 s6 = (.ok (), { s6 with pend := [], trace := s6.trace ++ [writeCmd] }) :=
    write_sim na s6 rfl hlr.parts 2
  -- assemble
  have hbody : guardedBody D true (gs.map Chg.cmd) s2 = (.ok (), s5) := by
    unfold guardedBody
    rw [bindM_snd_of_ok _ _ _ () (by rw [e3]), e3, finally_eq, e4]
    simp only [finRes]
    show ((changeLoop D true (gs.map Chg.cmd) s3).1, s5) = _
    rw [hlok]
  have hguard : guarded D true (gs.map Chg.cmd) s1 = (.ok (), s6) := by
    unfold guarded
    rw [bindM_snd_of_ok _ _ _ () (by rw [e2]), e2, finally_eq, hbody, e5]
    rfl
  have ho : o = (.ok (), { s6 with pend := [], trace := s6.trace ++ [writeCmd] }) := by
    show applyCommands D true (gs.map Chg.cmd) st0 = _
    unfold applyCommands
    rw [bindM_snd_of_ok _ _ _ () (by rw [e1]), e1, bindM_snd_of_ok _ _ _ () (by rw [hguard]), hguard, e6]
  rw [ho]
  refine ⟨rfl, ?_, ?_, rfl, rfl⟩
  · show s4.trace ++ [endCmd] ++ [cancelCmd, []] ++ [writeCmd] = fullTrace na gs
    show (changeLoop D true (gs.map Chg.cmd) s3).2.trace ++ [endCmd] ++ [cancelCmd, []] ++ [writeCmd] = _
    rw [hl1]
    simp [s3, s2, s1, ht, fullTrace]
  · show (changeLoop D true (gs.map Chg.cmd) s3).2.warns = _
    rw [hl2]

/-! ### the aftermath of an aborted change loop: deferred `end` and `reload cancel` with ANY left-over bytes -/

theorem promptFind_exists (X : Str) : ∃ r, promptFind (X ++ promptHead ++ ['#']) = some r := by
  induction X with
  | nil => exact ⟨_, promptFind_at [] [] rfl rfl⟩
  | cons c X ih =>
    obtain ⟨r, hr⟩ := ih
    show ∃ r, promptFind (c :: (X ++ promptHead ++ ['#'])) = some r
    unfold promptFind
    simp only
    split
    · exact ⟨_, rfl⟩
    · rw [hr]; exact ⟨_, rfl⟩

/-- deferred `SendCmd("end")` succeeds whatever is left in the buffer -/
theorem end_sim_leftover (na : Bool) (st : St SimSt) (hparts : st.dev.parts = []) :
    ∃ L', sendCmd (simDevice [] na) endCmd st =
      (.ok (), { st with pend := L', trace := st.trace ++ [endCmd] }) := by
  have hstep := simStep_plain na st.dev endCmd hparts (by cases na <;> decide) (by decide) (by decide)
  have e : st.pend ++ (endCmd ++ ['\n'] ++ prompt) = (st.pend ++ endCmd) ++ promptHead ++ ['#'] := by
    rw [prompt_eq, promptHead_eq]; simp
  obtain ⟨r, hr⟩ := promptFind_exists (st.pend ++ endCmd)
  refine ⟨(st.pend ++ (endCmd ++ ['\n'] ++ prompt)).drop r.2, ?_⟩
  unfold sendCmd bindM send waitPrompt expectEnd pureM
  simp only [hstep, e, hr, Option.map_some]

theorem altAt_single_le (p s : Str) (e : Nat) (h : altAt [(p, false)] s = some e) : e = p.length := by
  unfold altAt at h
  split at h
  · simp at h; exact h.symm
  · simp [altAt] at h

theorem altFind_ge (p : Str) (R : Str) (k : Nat) (h : altFind [(p, false)] R = some k) : p.length ≤ k := by
  induction R generalizing k with
  | nil => simp [altFind] at h
  | cons c R ih =>
    unfold altFind at h
    cases ha : altAt [(p, false)] (c :: R) with
    | some e => rw [ha] at h; simp at h; rw [← h, altAt_single_le p _ e ha]; exact Nat.le_refl _
    | none =>
      rw [ha] at h
      cases hf : altFind [(p, false)] R with
      | none => rw [hf] at h; simp at h
      | some k' => rw [hf] at h; simp at h; have := ih k' hf; omega

theorem altFind_append_exists (p L R : Str) (k : Nat) (h : altFind [(p, false)] R = some k) :
    ∃ e, altFind [(p, false)] (L ++ R) = some e ∧ e ≤ L.length + k := by
  induction L with
  | nil => exact ⟨k, h, by simp⟩
  | cons c L ih =>
    obtain ⟨e, he, hle⟩ := ih
    show ∃ e, altFind [(p, false)] (c :: (L ++ R)) = some e ∧ e ≤ (c :: L).length + k
    unfold altFind
    cases ha : altAt [(p, false)] (c :: (L ++ R)) with
    | some e' =>
      refine ⟨e', rfl, ?_⟩
      rw [altAt_single_le p _ e' ha]
      have := altFind_ge p R k h
      simp; omega
    | none => exact ⟨e + 1, by simp [he], by simp; omega⟩

theorem endsWithHash_drop (s' : Str) (e : Nat) (h : e ≤ s'.length) : endsWithHash ((s' ++ ['#']).drop e) = true := by
  rw [List.drop_append_of_le_length h]; exact endsWithHash_append _

theorem cancelReload_eval_any (D : Device σ) (st : St σ) (r0 r2 : Str) (d1 d2 : σ) (e k : Nat)
    (h1 : D.step st.dev cancelCmd = (d1, r0))
    (a1 : altFind [(lit "--- SHUTDOWN ABORTED ---", false)] (st.pend ++ r0) = some e)
    (he : e ≤ (st.pend ++ r0).length)
    (a2 : endsWithHash ((st.pend ++ r0).drop e) = true)
    (h3 : D.step d1 [] = (d2, r2))
    (a3 : promptFind r2 = some (k, r2.length)) :
    cancelReload D st =
      (.ok (), { st with dev := d2, pend := [], reloadActive := false,
                         trace := st.trace ++ [cancelCmd, []] }) := by
  have hlen : e + ((st.pend ++ r0).length - e) = (st.pend ++ r0).length := by omega
  unfold cancelReload issueCmd sendCmd bindM send waitHashEnd waitPrompt setActive pureM
  simp only [expectEnd, h1, a1, a2, h3, a3, if_true, List.take_length, List.drop_length,
    List.nil_append, Option.map_some, List.append_assoc]
  simp [hlen]

/-- deferred `reload cancel` completes whatever is left in the buffer: `IssueCmd` finds the
`SHUTDOWN ABORTED` banner at the latest in the device's answer, `WaitShort("[#] ?$")` swallows
everything up to the final prompt, the empty command re-synchronises -/
theorem cancel_sim_leftover (na : Bool) (st : St SimSt) (hparts : st.dev.parts = []) :
    cancelReload (simDevice [] na) st =
      (.ok (), { st with pend := [], reloadActive := false, trace := st.trace ++ [cancelCmd, []] }) := by
  have hse : splitOnNL ([] : Str) = [[]] := by decide
  have h1 := simStep_std na st.dev cancelCmd cancelReply [] hparts (std_cancel na) (by decide)
  rw [simDev_parts_nil st.dev hparts] at h1
  obtain ⟨e, hfind, hle⟩ := altFind_append_exists (lit "--- SHUTDOWN ABORTED ---") st.pend cancelReply 48
    (by decide +kernel)
  have hcr : cancelReply = cancelReply.dropLast ++ ['#'] := by decide +kernel
  have hlen : cancelReply.dropLast.length = 59 := by decide +kernel
  have he' : e ≤ (st.pend ++ cancelReply.dropLast).length := by simp [hlen]; omega
  have ha2 : endsWithHash ((st.pend ++ cancelReply).drop e) = true := by
    have : st.pend ++ cancelReply = (st.pend ++ cancelReply.dropLast) ++ ['#'] := by
      rw [List.append_assoc, ← hcr]
    rw [this]; exact endsWithHash_drop _ e he'
  have hle2 : e ≤ (st.pend ++ cancelReply).length := by
    have : cancelReply.length = 60 := by decide +kernel
    simp [this]; omega
  have := cancelReload_eval_any (simDevice [] na) st cancelReply ([] ++ ['\n'] ++ prompt) _ _ e 0 h1
    hfind hle2 ha2 (simStep_plain na st.dev [] hparts (by cases na <;> decide) (by decide) hse) (by decide +kernel)
  rw [this]

/-- the transcript of a run in which a command is rejected -/
def failTrace (na : Bool) (gs : List Chg) : List Str :=
  prepCmds ++ schedLines na ++ [confCmd] ++ specTrace na gs ++ [endCmd] ++ [cancelCmd, []]

/-- **the whole of `ApplyCommands` when a command is rejected** — at any position of the script, with
any banner placements (except F-C15b): the deferred `end` and `reload cancel` complete although
bytes may be left in the buffer, the result is the abort raised by the rejected command. -/
theorem apply_sim_rejected (na : Bool) (gs : List Chg) (q : List Behav) (st0 : St SimSt)
    (hp : st0.pend = []) (ht : st0.trace = []) (hparts : st0.dev.parts = [])
    (hq : st0.dev.queue = gs.flatMap Chg.behavs ++ q) (hc : ∀ g ∈ gs, g.Clean ∧ g.NoProbeFirst)
    (hbad : specOk gs = false) :
    let o := applyCommands (simDevice [] na) true (gs.map Chg.cmd) st0
    (∃ ci R out, o.1 = .abort (.unexpectedOutput ci R) ∧ firstBad gs = some (ci, out) ∧
        neLines R = neLines out) ∧
    o.2.trace = failTrace na gs ∧ o.2.warns = st0.warns ++ specWarns gs ∧
    o.2.reloadActive = false ∧ o.2.pend = [] := by
  intro o
  let D := simDevice [] na
  let s1 : St SimSt := { st0 with pend := [], trace := st0.trace ++ prepCmds }
  have e1 : prepareDevice D st0 = (.ok (), s1) := prepare_sim na st0 hp hparts
  let s2 : St SimSt := { s1 with pend := [], reloadActive := true, trace := s1.trace ++ schedLines na }
  have e2 : scheduleReload D s1 = (.ok (), s2) := schedule_sim na s1 rfl hparts
  let s3 : St SimSt := { s2 with pend := [], trace := s2.trace ++ [confCmd] }
  have e3 : sendCmd D confCmd s2 = (.ok (), s3) := conf_sim na s2 rfl hparts
  have hr3 : Ready s3 := ⟨rfl, rfl, hparts⟩
  obtain ⟨hl1, hl2, _, hl4, hl5⟩ := loop_spec na gs s3 q hr3 hq hc
  obtain ⟨ci, R, out, hab, hfb, hne⟩ := hl4 hbad
  let s4 := (changeLoop D true (gs.map Chg.cmd) s3).2
  obtain ⟨L', e4⟩ := end_sim_leftover na s4 hl5.1
  let s5 : St SimSt := { s4 with pend := L', trace := s4.trace ++ [endCmd] }
  have e5 : cancelReload D s5 =
      (.ok (), { s5 with pend := [], reloadActive := false, trace := s5.trace ++ [cancelCmd, []] }) :=
    cancel_sim_leftover na s5 hl5.1
  let s6 : St SimSt := { s5 with pend := [], reloadActive := false, trace := s5.trace ++ [cancelCmd, []] }
  have hbody : guardedBody D true (gs.map Chg.cmd) s2 = (.abort (.unexpectedOutput ci R), s5) := by
    unfold guardedBody
    rw [bindM_snd_of_ok _ _ _ () (by rw [e3]), e3, finally_eq, e4]
    simp only [finRes]
    show ((changeLoop D true (gs.map Chg.cmd) s3).1, s5) = _
    rw [hab]
  have hguard : guarded D true (gs.map Chg.cmd) s1 = (.abort (.unexpectedOutput ci R), s6) := by
    unfold guarded
    rw [bindM_snd_of_ok _ _ _ () (by rw [e2]), e2, finally_eq, hbody, e5]
    rfl
  have ho : o = (.abort (.unexpectedOutput ci R), s6) := by
    show applyCommands D true (gs.map Chg.cmd) st0 = _
    unfold applyCommands
    rw [bindM_snd_of_ok _ _ _ () (by rw [e1]), e1, bindM_of_abort _ _ _ _ (by rw [hguard]), hguard]
  rw [ho]
  refine ⟨⟨ci, R, out, rfl, hfb, hne⟩, ?_, ?_, rfl, rfl⟩
  · show (changeLoop D true (gs.map Chg.cmd) s3).2.trace ++ [endCmd] ++ [cancelCmd, []] = _
    rw [hl1]
    simp [s3, s2, s1, ht, failTrace]
  · show (changeLoop D true (gs.map Chg.cmd) s3).2.warns = _
    rw [hl2]

end NA.Ios
