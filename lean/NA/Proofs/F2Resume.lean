import NA.Proofs.F2Again
/-!
# F2: resuming after an interrupted approve (C10)

The printed script is cut after any command — also between the two halves of a joined line
(`no N\N M TEXT`, `no ip route A\N ip route B`: `splitChg`).  The device at the cut, read back by a new
compare in a new session (`strip`: top-level mode; `reconf`), is a device that *reads as* that
configuration (`Reads`, whatever its entry numbers).  The end-to-end theorem holds from every such
device (`F2_end_to_end_from`), hence for the second run — provided the cut state is in the class
`wfB` again (it is a decidable predicate on the cut state, evaluated by the driver on every cut).
-/
namespace NA.F2
open NA.IosDev2
open NA.F1 (genName lookupD addSet sortS isTagged)

/-! ## Joined lines are two commands -/

def splitChg : Chg → List Chg
  | .move dn an l => [.noNum dn, .numEntry an l]
  | .replRoute o n => [.noRoute o, .route n]
  | c => [c]

/-- The script as the device receives it: one command per line. -/
def splitScript (cs : List Chg) : List Chg := cs.flatMap splitChg

theorem exec_two (d : Dev) (c1 c2 : Chg) (cs : List Chg) :
    exec d (c1 :: c2 :: cs) = (toOpt (exec1 d c1)).bind fun d1 => (toOpt (exec1 d1 c2)).bind fun d2 => exec d2 cs := by
  rw [exec_cons]
  cases h : exec1 d c1 with
  | error e => rfl
  | ok d1 =>
    show exec d1 (c2 :: cs) = _
    rw [exec_cons]; rfl

theorem entriesOf_nil_of_not_hasAcl (d : Dev) (n : Name) (h : hasAcl d n = false) : entriesOf d n = [] := by
  unfold entriesOf hasAcl at *
  generalize d.acls = l at h
  induction l with
  | nil => rfl
  | cons p l ih =>
    obtain ⟨k, v⟩ := p
    simp only [List.any_cons, Bool.or_eq_false_iff] at h
    have hk : (n == k) = false := by rw [BEq.comm]; exact h.1
    simp only [List.lookup_cons, hk]
    exact ih h.2

theorem exec1_move_split (d : Dev) (dn an : Nat) (l : ALine) :
    toOpt (exec1 d (.move dn an l)) = (toOpt (exec1 d (.noNum dn))).bind fun d1 => toOpt (exec1 d1 (.numEntry an l)) := by
  cases hm : d.mode with
  | none => simp [exec1, isEntryCmd, hm, toOpt]
  | some m =>
    cases m with
    | intf i => simp [exec1, isEntryCmd, hm, toOpt]
    | acl n =>
      simp only [exec1, isEntryCmd, ↓reduceIte, hm, execEntry]
      by_cases h1 : (entriesOf d n).any (·.1 == dn) = true
      · simp only [h1, ↓reduceIte, toOpt, Option.bind_some]
        have hmode : (setAcl d n (eraseFirst (fun x => x.1 == dn) (entriesOf d n))).mode = some (.acl n) := hm
        have hent : entriesOf (setAcl d n (eraseFirst (fun x => x.1 == dn) (entriesOf d n))) n =
            eraseFirst (fun x => x.1 == dn) (entriesOf d n) ∨ hasAcl d n = false := by
          by_cases hh : hasAcl d n = true
          · exact Or.inl (entriesOf_setAcl_self d n _ hh)
          · exact Or.inr (by simpa using hh)
        rcases hent with hent | hno
        · simp only [hmode, hent]
          by_cases h2 : (eraseFirst (fun x => x.1 == dn) (entriesOf d n)).any (·.1 == an) = true
          · simp [h2]
          · simp only [h2, Bool.false_eq_true, ↓reduceIte]
            by_cases h3 : (eraseFirst (fun x => x.1 == dn) (entriesOf d n)).any (fun e => collides e.2 l) = true
            · simp [h3]
            · simp only [h3, Bool.false_eq_true, ↓reduceIte]
              congr 1
              exact (setAcl_setAcl d n _ _).symm
        · -- no such ACL: no entries, `any` is false
          exfalso
          have : entriesOf d n = [] := entriesOf_nil_of_not_hasAcl d n hno
          rw [this] at h1; simp at h1
      · simp [h1, toOpt]

theorem exec1_repl_split (d : Dev) (o n : String) :
    toOpt (exec1 d (.replRoute o n)) = (toOpt (exec1 d (.noRoute o))).bind fun d1 => toOpt (exec1 d1 (.route n)) := by
  simp only [exec1, isEntryCmd, isBindCmd, Bool.false_eq_true, ↓reduceIte, execTop]
  cases h1 : d.routes.contains o with
  | false => simp only [Bool.not_false, ↓reduceIte, Bool.false_eq_true, toOpt, Option.bind_none]
  | true =>
    simp only [Bool.not_true, Bool.false_eq_true, ↓reduceIte, toOpt, Option.bind_some]

theorem exec_splitScript (d : Dev) (cs : List Chg) : exec d (splitScript cs) = exec d cs := by
  induction cs generalizing d with
  | nil => rfl
  | cons c cs ih =>
    have hgen : ∀ c', splitChg c' = [c'] → exec d (splitScript (c' :: cs)) = exec d (c' :: cs) := by
      intro c' hc'
      simp only [splitScript, List.flatMap_cons, hc', List.cons_append, List.nil_append]
      rw [exec_cons, exec_cons]
      cases exec1 d c' with
      | error e => rfl
      | ok d1 => simp only [toOpt, Option.bind_some]; exact ih d1
    cases c with
    | move dn an l =>
      simp only [splitScript, List.flatMap_cons, splitChg, List.cons_append, List.nil_append]
      rw [exec_two, exec_cons, exec1_move_split]
      cases exec1 d (.noNum dn) with
      | error e => rfl
      | ok d1 =>
        simp only [toOpt, Option.bind_some]
        cases exec1 d1 (.numEntry an l) with
        | error e => rfl
        | ok d2 => simp only [Option.bind_some]; exact ih d2
    | replRoute o n =>
      simp only [splitScript, List.flatMap_cons, splitChg, List.cons_append, List.nil_append]
      rw [exec_two, exec_cons, exec1_repl_split]
      cases exec1 d (.noRoute o) with
      | error e => rfl
      | ok d1 =>
        simp only [toOpt, Option.bind_some]
        cases exec1 d1 (.route n) with
        | error e => rfl
        | ok d2 => simp only [Option.bind_some]; exact ih d2
    | reseq _ _ _ => exact hgen _ rfl
    | aclMode _ => exact hgen _ rfl
    | intfMode _ => exact hgen _ rfl
    | exit => exact hgen _ rfl
    | entry _ => exact hgen _ rfl
    | numEntry _ _ => exact hgen _ rfl
    | noNum _ => exact hgen _ rfl
    | noEntry _ => exact hgen _ rfl
    | bind _ _ => exact hgen _ rfl
    | noBind _ _ => exact hgen _ rfl
    | route _ => exact hgen _ rfl
    | noRoute _ => exact hgen _ rfl
    | noAcl _ => exact hgen _ rfl
    | bad => exact hgen _ rfl

/-- Every prefix of an accepted script is accepted. -/
theorem exec_take (cs : List Chg) (d d' : Dev) (h : exec d cs = some d') (k : Nat) : ∃ dk, exec d (cs.take k) = some dk := by
  induction cs generalizing d k with
  | nil => exact ⟨d, by simp [exec_nil]⟩
  | cons c cs ih =>
    cases k with
    | zero => exact ⟨d, by simp [exec_nil]⟩
    | succ k =>
      rw [exec_cons] at h
      simp only [List.take_succ_cons]
      rw [exec_cons]
      cases h1 : exec1 d c with
      | error e => rw [h1] at h; simp [toOpt] at h
      | ok d1 =>
        rw [h1] at h
        simp only [toOpt, Option.bind_some] at h ⊢
        exact ih d1 h k

/-! ## What no command changes: names and VRFs of the interfaces -/

def skel (d : Dev) : List (String × String) := d.intfs.map fun i => (i.name, i.vrf)

theorem skel_setSlot (d : Dev) (x dir : String) (v : Option Name) : skel (setSlot d x dir v) = skel d := by
  simp only [skel, setSlot, List.map_map]
  apply List.map_congr_left
  intro i _
  simp only [Function.comp]
  split
  · split <;> rfl
  · rfl

theorem exec1_skel (d d' : Dev) (c : Chg) (h : exec1 d c = .ok d') : skel d' = skel d := by
  unfold exec1 at h
  cases c with
  | exit =>
    simp only at h
    split at h
    · cases h
    · injection h with h; rw [← h]; rfl
  | bad => simp at h
  | bind a dir =>
    simp only [isEntryCmd, isBindCmd, Bool.false_eq_true, ↓reduceIte] at h
    split at h
    all_goals first
      | cases h
      | (split at h
         · injection h with h; rw [← h]; exact skel_setSlot ..
         · cases h)
  | noBind a dir =>
    simp only [isEntryCmd, isBindCmd, Bool.false_eq_true, ↓reduceIte] at h
    split at h
    all_goals first
      | cases h
      | (split at h
         · injection h with h; rw [← h]; exact skel_setSlot ..
         · cases h)
  | reseq n s t =>
    simp only [isEntryCmd, isBindCmd, Bool.false_eq_true, ↓reduceIte, execTop] at h
    split at h
    · injection h with h; rw [← h]; rfl
    · cases h
  | aclMode n =>
    simp only [isEntryCmd, isBindCmd, Bool.false_eq_true, ↓reduceIte, execTop] at h
    injection h with h; rw [← h]; rfl
  | intfMode n =>
    simp only [isEntryCmd, isBindCmd, Bool.false_eq_true, ↓reduceIte, execTop] at h
    split at h
    · injection h with h; rw [← h]; rfl
    · cases h
  | route r =>
    simp only [isEntryCmd, isBindCmd, Bool.false_eq_true, ↓reduceIte, execTop] at h
    split at h
    · cases h
    · injection h with h; rw [← h]; rfl
  | noRoute r =>
    simp only [isEntryCmd, isBindCmd, Bool.false_eq_true, ↓reduceIte, execTop] at h
    split at h
    · injection h with h; rw [← h]; rfl
    · cases h
  | replRoute o n =>
    simp only [isEntryCmd, isBindCmd, Bool.false_eq_true, ↓reduceIte, execTop] at h
    split at h
    · cases h
    · split at h
      · cases h
      · injection h with h; rw [← h]; rfl
  | noAcl n =>
    simp only [isEntryCmd, isBindCmd, Bool.false_eq_true, ↓reduceIte, execTop] at h
    split at h
    · cases h
    · split at h
      · cases h
      · injection h with h; rw [← h]; rfl
  | entry l =>
    simp only [isEntryCmd, ↓reduceIte] at h
    split at h
    · split at h
      · injection h with h; rw [← h]; rfl
      · cases h
    · cases h
  | numEntry k l =>
    simp only [isEntryCmd, ↓reduceIte] at h
    split at h
    · split at h
      · injection h with h; rw [← h]; rfl
      · cases h
    · cases h
  | noNum k =>
    simp only [isEntryCmd, ↓reduceIte] at h
    split at h
    · split at h
      · injection h with h; rw [← h]; rfl
      · cases h
    · cases h
  | noEntry l =>
    simp only [isEntryCmd, ↓reduceIte] at h
    split at h
    · split at h
      · injection h with h; rw [← h]; rfl
      · cases h
    · cases h
  | move dn an l =>
    simp only [isEntryCmd, ↓reduceIte] at h
    split at h
    · split at h
      · injection h with h; rw [← h]; rfl
      · cases h
    · cases h

theorem exec_skel (cs : List Chg) (d d' : Dev) (h : exec d cs = some d') : skel d' = skel d := by
  induction cs generalizing d with
  | nil =>
    rw [exec_nil] at h
    injection h with h
    rw [h]
  | cons c cs ih =>
    rw [exec_cons] at h
    cases h1 : exec1 d c with
    | error e => rw [h1] at h; simp [toOpt] at h
    | ok d1 =>
      rw [h1] at h
      simp only [toOpt, Option.bind_some] at h
      rw [ih d1 h, exec1_skel d d1 c h1]

/-! ## The cut state reads as the configuration read back from it -/

theorem lastBind_bindsOf (d : Dev) (x : String) :
    lastBind (bindsOf d x) "in" = slotOf d x "in" ∧ lastBind (bindsOf d x) "out" = slotOf d x "out" := by
  unfold bindsOf lastBind
  cases slotOf d x "in" <;> cases slotOf d x "out" <;> simp

theorem reads_reconf (a0 : Config) (refs : List Route) (d : Dev) (hnd : (a0.intfs.map (·.name)).Nodup)
    (hsk : skel d = skel (ofConfig a0)) : Reads (strip d) (reconf a0 refs d) := by
  have hnames : d.intfs.map (·.name) = a0.intfs.map (·.name) := by
    have := congrArg (List.map Prod.fst) hsk
    simpa [skel, ofConfig, List.map_map, Function.comp_def] using this
  have hndd : (d.intfs.map (·.name)).Nodup := by rw [hnames]; exact hnd
  refine ⟨rfl, ?_, ?_, ?_, ?_⟩
  · -- interfaces
    show d.intfs = (ofConfig (reconf a0 refs d)).intfs
    have h1 : d.intfs = d.intfs.map fun i => (⟨i.name, i.vrf, slotOf d i.name "in", slotOf d i.name "out"⟩ : DIntf) := by
      conv => lhs; rw [← List.map_id d.intfs]
      apply List.map_congr_left
      intro i hi
      obtain ⟨k1, k2⟩ := slot_of_mem_intfs d hndd hi
      rw [k1, k2]; rfl
    have h2 : (d.intfs.map fun i => (⟨i.name, i.vrf, slotOf d i.name "in", slotOf d i.name "out"⟩ : DIntf)) =
        (skel d).map fun p => (⟨p.1, p.2, slotOf d p.1 "in", slotOf d p.1 "out"⟩ : DIntf) := by
      simp only [skel, List.map_map]; rfl
    rw [h1, h2, hsk]
    simp only [skel, ofConfig, reconf_intfs, List.map_map]
    apply List.map_congr_left
    intro i _
    simp only [Function.comp, reI]
    rw [(lastBind_bindsOf d i.name).1, (lastBind_bindsOf d i.name).2]
  · exact (routes_reconf a0 refs d).symm
  · show aclNames d = (reconf a0 refs d).acls.map (·.1)
    simp only [aclNames, reconf, List.map_map]; rfl
  · intro n
    show (entriesOf d n).map (·.2) = (reconf a0 refs d).lines n
    rw [lines_reconf]; rfl

/-! ## Resume -/

/-- The run of the engine from a cut state.  `k`: number of command lines that reached the device. -/
theorem F2_resume (a0 b : Config) (sc : Scripts) (hw : WF a0 b sc) (hok : (engine a0 b sc).ok = true) (k : Nat) :
    ∃ dk, exec (ofConfig a0) ((splitScript (engine a0 b sc).script).take k) = some dk ∧
      Reads (strip dk) (reconf a0 (a0.routes ++ b.routes) dk) ∧
      ∀ sc2, WF (reconf a0 (a0.routes ++ b.routes) dk) b sc2 →
        (engine (reconf a0 (a0.routes ++ b.routes) dk) b sc2).ok = true ∧
        ∃ d', (exec (strip dk) (engine (reconf a0 (a0.routes ++ b.routes) dk) b sc2).script).map strip = some d' ∧
          (∀ bi ∈ b.intfs, ∀ bd ∈ bi.binds, ∃ n, slotOf d' bi.name bd.dir = some n ∧ hasAcl d' n = true ∧
              AclEqv (linesOf d' n) (b.lines bd.acl)) ∧
          (∀ bi ∈ b.intfs, ∀ dir, isDir dir = true → dir ∉ bi.binds.map (·.dir) → slotOf d' bi.name dir = none) ∧
          (∀ r ∈ (reconf a0 (a0.routes ++ b.routes) dk).routes ++ b.routes, r.vrf ∈ b.routes.map (·.vrf) →
              (r.text ∈ d'.routes ↔ r.text ∈ b.routes.map (·.text))) ∧
          (∀ t ∈ d'.routes, t ∈ dk.routes ∨ t ∈ b.routes.map (·.text)) ∧
          (∀ r ∈ (reconf a0 (a0.routes ++ b.routes) dk).routes, r.vrf ∉ b.routes.map (·.vrf) → r.text ∈ d'.routes) ∧
          (∀ x, x ∉ b.intfs.map (·.name) → ∀ dir, isDir dir = true → slotOf d' x dir = slotOf dk x dir) ∧
          (∀ i ∈ (reconf a0 (a0.routes ++ b.routes) dk).intfs, i.name ∉ b.intfs.map (·.name) → ∀ bd ∈ i.binds,
              hasAcl d' bd.acl = true ∧ entriesOf d' bd.acl = entriesOf dk bd.acl) := by
  obtain ⟨dfull, hfull, _⟩ := F2_end_to_end a0 b sc hw hok
  have hex : ∃ x, exec (ofConfig a0) (engine a0 b sc).script = some x := by
    cases h : exec (ofConfig a0) (engine a0 b sc).script with
    | none => rw [h] at hfull; cases hfull
    | some x => exact ⟨x, rfl⟩
  obtain ⟨x, hx⟩ := hex
  rw [← exec_splitScript] at hx
  obtain ⟨dk, hdk⟩ := exec_take _ _ _ hx k
  have hsk : skel dk = skel (ofConfig a0) := exec_skel _ _ _ hdk
  have hreads := reads_reconf a0 (a0.routes ++ b.routes) dk hw.aIntfs hsk
  refine ⟨dk, hdk, hreads, ?_⟩
  intro sc2 hw2
  have hok2 : (engine (reconf a0 (a0.routes ++ b.routes) dk) b sc2).ok = true := by
    rw [engine_ok_reconf a0 b sc sc2]; exact hok
  obtain ⟨d', h0, h1, h2, h3, h4, h5⟩ := F2_end_to_end_from _ b sc2 hw2 hok2 (strip dk) hreads
  obtain ⟨rc1, rc2⟩ := routes_char hw2 h3
  have htexts : (reconf a0 (a0.routes ++ b.routes) dk).routes.map (·.text) = dk.routes := routes_reconf _ _ _
  refine ⟨hok2, d', h0, h1, h2, rc1, ?_, ?_, h4, h5⟩
  · intro t ht
    rcases rc2 t ht with k1 | k1
    · left; rw [← htexts]; exact k1
    · exact Or.inr k1
  · intro r hr hv
    rw [h3 r.text]
    left
    refine ⟨List.mem_map_of_mem hr, ?_⟩
    rintro ⟨a, ha, hat, _, hav⟩
    -- the deleted route has the same text, hence the same VRF
    have hsub : a ∈ (reconf a0 (a0.routes ++ b.routes) dk).routes := by
      have : ∀ y ∈ (aOf (reconf a0 (a0.routes ++ b.routes) dk) b).routes, y ∈ (reconf a0 (a0.routes ++ b.routes) dk).routes := by
        intro y hy
        unfold aOf alignVRFs at hy
        simp only at hy
        split at hy
        · exact hy
        · exact (List.mem_filter.mp hy).1
      exact this a ha
    obtain ⟨j, hj, hjj⟩ := List.getElem_of_mem hsub
    obtain ⟨j', hj', hjj'⟩ := List.getElem_of_mem hr
    have : j = j' := by
      have h1' : ((reconf a0 (a0.routes ++ b.routes) dk).routes.map (·.text))[j]'(by simpa using hj) =
          ((reconf a0 (a0.routes ++ b.routes) dk).routes.map (·.text))[j']'(by simpa using hj') := by
        simp only [List.getElem_map, hjj, hjj', hat]
      exact (List.getElem_inj hw2.aRoutes).mp h1'
    subst this
    have har : a = r := by rw [← hjj, ← hjj']
    rw [har] at hav
    exact hv (by simpa using hav)

end NA.F2
