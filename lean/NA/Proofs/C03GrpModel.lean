import NA.Proofs.C03GrpCommute
import NA.Proofs.C03Idem
/-
C03, whole-vsys theorems with address-groups, part 2: the planner state while groups are claimed.
`GMono`: flags of groups only move forward (a name on the device, once chosen for a target group,
stays); `GInv`: what the claims mean; `SimG`: what the group table of the device looks like while
the group-member requests emitted so far are executed.  Core Lean only.
-/
namespace NA.PanOs

def lookupGrp (gs : List Grp) (n : String) : Option (List String) :=
  (gs.find? (·.name == n)).map (·.members)

/-! ### `GMono` -/

/-- Between two planner states of one rule phase: the static parts of the group tables and the
object tables are the same; `needed` of a device group only goes up; a target group that has a
name on the device keeps it (and its `needed`). -/
structure GMono (st st' : St) : Prop where
  ag : st'.aGrp.map (·.g) = st.aGrp.map (·.g)
  bg : st'.bGrp.map (fun g => (g.g, g.newName)) = st.bGrp.map (fun g => (g.g, g.newName))
  an : ∀ (i : Nat) (ga ga' : AGrp), st.aGrp[i]? = some ga → st'.aGrp[i]? = some ga' →
    ga.needed = true → ga'.needed = true
  bo : ∀ (i : Nat) (gb gb' : BGrp), st.bGrp[i]? = some gb → st'.bGrp[i]? = some gb' →
    gb.onDev ≠ "" → gb'.onDev = gb.onDev ∧ gb'.needed = gb.needed
  objs : st'.objs = st.objs
  bn : ∀ (i : Nat) (gb gb' : BGrp), st.bGrp[i]? = some gb → st'.bGrp[i]? = some gb' →
    gb'.needed = true → gb.needed = true

theorem GMono.refl (st : St) : GMono st st :=
  ⟨rfl, rfl, fun _ _ _ h h' hn => by rw [h] at h'; cases h'; exact hn,
    fun _ _ _ h h' _ => by rw [h] at h'; cases h'; exact ⟨rfl, rfl⟩, rfl,
    fun _ _ _ h h' hn => by rw [h] at h'; cases h'; exact hn⟩

theorem GMono.aget {st st' : St} (h : GMono st st') {i : Nat} {ga : AGrp} (hi : st.aGrp[i]? = some ga) :
    ∃ ga', st'.aGrp[i]? = some ga' ∧ ga'.g = ga.g := by
  have := congrArg (fun l => l[i]?) h.ag
  simp only [List.getElem?_map, hi, Option.map_some] at this
  cases hx : st'.aGrp[i]? with
  | none => simp [hx] at this
  | some ga' => exact ⟨ga', rfl, by simpa [hx] using this⟩

theorem GMono.aget' {st st' : St} (h : GMono st st') {i : Nat} {ga' : AGrp} (hi : st'.aGrp[i]? = some ga') :
    ∃ ga, st.aGrp[i]? = some ga ∧ ga'.g = ga.g := by
  have := congrArg (fun l => l[i]?) h.ag
  simp only [List.getElem?_map, hi, Option.map_some] at this
  cases hx : st.aGrp[i]? with
  | none => simp [hx] at this
  | some ga => exact ⟨ga, rfl, by simpa [hx] using this⟩

theorem GMono.bget {st st' : St} (h : GMono st st') {i : Nat} {gb : BGrp} (hi : st.bGrp[i]? = some gb) :
    ∃ gb', st'.bGrp[i]? = some gb' ∧ gb'.g = gb.g ∧ gb'.newName = gb.newName := by
  have := congrArg (fun l => l[i]?) h.bg
  simp only [List.getElem?_map, hi, Option.map_some] at this
  cases hx : st'.bGrp[i]? with
  | none => simp [hx] at this
  | some gb' =>
    simp only [hx, Option.map_some, Option.some.injEq, Prod.mk.injEq] at this
    exact ⟨gb', rfl, this.1, this.2⟩

theorem GMono.bget' {st st' : St} (h : GMono st st') {i : Nat} {gb' : BGrp} (hi : st'.bGrp[i]? = some gb') :
    ∃ gb, st.bGrp[i]? = some gb ∧ gb'.g = gb.g ∧ gb'.newName = gb.newName := by
  have := congrArg (fun l => l[i]?) h.bg
  simp only [List.getElem?_map, hi, Option.map_some] at this
  cases hx : st.bGrp[i]? with
  | none => simp [hx] at this
  | some gb =>
    simp only [hx, Option.map_some, Option.some.injEq, Prod.mk.injEq] at this
    exact ⟨gb, rfl, this.1, this.2⟩

theorem GMono.trans {a b c : St} (h₁ : GMono a b) (h₂ : GMono b c) : GMono a c := by
  refine ⟨h₂.ag.trans h₁.ag, h₂.bg.trans h₁.bg, ?_, ?_, h₂.objs.trans h₁.objs, ?_⟩
  · intro i ga ga'' hi hi'' hn
    obtain ⟨ga', hi', _⟩ := h₁.aget hi
    exact h₂.an i ga' ga'' hi' hi'' (h₁.an i ga ga' hi hi' hn)
  · intro i gb gb'' hi hi'' hne
    obtain ⟨gb', hi', _⟩ := h₁.bget hi
    obtain ⟨e1, e2⟩ := h₁.bo i gb gb' hi hi' hne
    obtain ⟨f1, f2⟩ := h₂.bo i gb' gb'' hi' hi'' (by rw [e1]; exact hne)
    exact ⟨f1.trans e1, f2.trans e2⟩
  · intro i gb gb'' hi hi'' hn
    obtain ⟨gb', hi', _⟩ := h₁.bget hi
    exact h₁.bn i gb gb' hi hi' (h₂.bn i gb' gb'' hi' hi'' hn)

theorem GMono.anames {st st' : St} (h : GMono st st') :
    st'.aGrp.map (·.g.name) = st.aGrp.map (·.g.name) := by
  have := congrArg (List.map (·.name)) h.ag
  simpa [List.map_map, Function.comp_def] using this

theorem GMono.bnames {st st' : St} (h : GMono st st') :
    st'.bGrp.map (·.g.name) = st.bGrp.map (·.g.name) := by
  have := congrArg (List.map (fun p : Grp × String => p.1.name)) h.bg
  simpa [List.map_map, Function.comp_def] using this

theorem GMono.aIdx {st st' : St} (h : GMono st st') (x : String) : st'.aGrpIdx x = st.aGrpIdx x := by
  unfold St.aGrpIdx; rw [h.anames]

theorem GMono.bIdx {st st' : St} (h : GMono st st') (x : String) : st'.bGrpIdx x = st.bGrpIdx x := by
  unfold St.bGrpIdx; rw [h.bnames]

theorem GMono.of_out (st : St) (cs : List Cmd) : GMono st (st.emitAll cs) :=
  ⟨rfl, rfl, fun _ _ _ h h' hn => by
      have h'' : st.aGrp[_]? = some _ := h'
      rw [h] at h''; cases h''; exact hn,
    fun _ _ _ h h' _ => by
      have h'' : st.bGrp[_]? = some _ := h'
      rw [h] at h''; cases h''; exact ⟨rfl, rfl⟩, rfl,
    fun _ _ _ h h' hn => by
      have h'' : st.bGrp[_]? = some _ := h'
      rw [h] at h''; cases h''; exact hn⟩

theorem GMono.emit (st : St) (c : Cmd) : GMono st (st.emit c) := GMono.of_out st [c]

/-- A device group is claimed for the target group `gbi` (which has no name on the device yet). -/
theorem GMono.claim (st : St) (i gbi : Nat) (name : String)
    (h0 : ∀ gb, st.bGrp[gbi]? = some gb → gb.onDev = "") :
    GMono st { st with
      aGrp := modAt st.aGrp i (fun g => { g with needed := true }),
      bGrp := modAt st.bGrp gbi (fun g => { g with needed := false, onDev := name }) } := by
  refine ⟨?_, ?_, ?_, ?_, rfl, ?_⟩
  rotate_right
  · intro j gb gb' hj hj' hn
    simp only [modAt_getElem?] at hj'
    split at hj'
    · rw [hj] at hj'; simp only [Option.map_some, Option.some.injEq] at hj'; rw [← hj'] at hn; cases hn
    · rw [hj] at hj'; cases hj'; exact hn
  · exact modAt_map st.aGrp i (fun g => { g with needed := true }) (fun x => x.g) (fun _ => rfl)
  · exact modAt_map st.bGrp gbi (fun g => { g with needed := false, onDev := name })
      (fun g => (g.g, g.newName)) (fun _ => rfl)
  · intro j ga ga' hj hj' hn
    simp only [modAt_getElem?] at hj'
    split at hj'
    · rw [hj] at hj'; simp only [Option.map_some, Option.some.injEq] at hj'; rw [← hj']
    · rw [hj] at hj'; cases hj'; exact hn
  · intro j gb gb' hj hj' hne
    simp only [modAt_getElem?] at hj'
    split at hj'
    · rename_i e; subst e
      exact absurd (h0 gb hj) hne
    · rw [hj] at hj'; cases hj'; exact ⟨rfl, rfl⟩

/-- A target group gets its new name as name on the device. -/
theorem GMono.setOnDev (st : St) (gbi : Nat) (name : String)
    (h0 : ∀ gb, st.bGrp[gbi]? = some gb → gb.onDev = "") :
    GMono st { st with bGrp := modAt st.bGrp gbi (fun g => { g with onDev := name }) } := by
  refine ⟨rfl, ?_, ?_, ?_, rfl, ?_⟩
  rotate_right
  · intro j gb gb' hj hj' hn
    simp only [modAt_getElem?] at hj'
    split at hj'
    · rw [hj] at hj'; simp only [Option.map_some, Option.some.injEq] at hj'; rw [← hj'] at hn; exact hn
    · rw [hj] at hj'; cases hj'; exact hn
  · exact modAt_map st.bGrp gbi (fun g => { g with onDev := name }) (fun g => (g.g, g.newName)) (fun _ => rfl)
  · intro j ga ga' hj hj' hn
    have hj'' : st.aGrp[j]? = some ga' := hj'
    rw [hj] at hj''; cases hj''; exact hn
  · intro j gb gb' hj hj' hne
    simp only [modAt_getElem?] at hj'
    split at hj'
    · rename_i e; subst e
      exact absurd (h0 gb hj) hne
    · rw [hj] at hj'; cases hj'; exact ⟨rfl, rfl⟩

end NA.PanOs
