import NA.Proofs.F2Dev
import NA.Proofs.F2Unordered
/-!
# F2: routes (`diffRoutes`) on the strict device

`routes_run`: for duplicate-free route lists, device routes `R` that contain the compared device
routes and hold no stray copy of a target route, every route command of `routePlan` is accepted and
the final route list is, as a set, `R` minus the deleted routes of VRFs for which the target
specifies routes, plus the target's new routes.
-/
namespace NA.F2
open NA.IosDev2
open NA.F1 (diffUnordered slice lastIdx)
open NA.Acl (Range)

/-- Route commands on the list of route texts of the device. -/
def rStep (R : List String) : MA → Option (List String)
  | .route r => if R.contains r then none else some (R ++ [r])
  | .noRoute r => if R.contains r then some (R.filter (· != r)) else none
  | .replRoute o n =>
    if !R.contains o then none
    else if (R.filter (· != o)).contains n then none else some (R.filter (· != o) ++ [n])
  | _ => none

def rRun (R : List String) (acts : List MA) : Option (List String) := acts.foldlM rStep R

theorem rRun_snoc (R : List String) (acts : List MA) (a : MA) :
    rRun R (acts ++ [a]) = (rRun R acts).bind fun R' => rStep R' a := by
  simp [rRun, List.foldlM_append]

theorem rRun_append (R : List String) (a b : List MA) :
    rRun R (a ++ b) = (rRun R a).bind fun R' => rRun R' b := by
  simp [rRun, List.foldlM_append]

def isRouteAct : MA → Bool
  | .route _ | .noRoute _ | .replRoute _ _ => true
  | _ => false

def setRoutes (d : Dev) (R : List String) : Dev := strip { d with routes := R }

theorem evsRun_routeAct (d : Dev) (a : MA) (h : isRouteAct a = true) :
    evsRun d (expand a) = (rStep d.routes a).map (setRoutes d) := by
  cases a with
  | route r =>
    simp only [expand, evsRun_single, evRun, execTop, rStep]
    by_cases hc : d.routes.contains r = true
    · simp only [hc, ↓reduceIte, toOpt, Option.map_none]
    · simp only [hc, Bool.false_eq_true, ↓reduceIte, toOpt, Option.map_some]; rfl
  | noRoute r =>
    simp only [expand, evsRun_single, evRun, execTop, rStep]
    by_cases hc : d.routes.contains r = true
    · simp only [hc, ↓reduceIte, toOpt, Option.map_some]; rfl
    · simp only [hc, Bool.false_eq_true, ↓reduceIte, toOpt, Option.map_none]
  | replRoute o n =>
    simp only [expand, evsRun_single, evRun, execTop, rStep]
    by_cases hc : d.routes.contains o = true
    · by_cases hc2 : (d.routes.filter (· != o)).contains n = true
      · simp only [hc, Bool.not_true, Bool.false_eq_true, ↓reduceIte, hc2, toOpt, Option.map_none]
      · simp only [hc, Bool.not_true, Bool.false_eq_true, ↓reduceIte, hc2, toOpt, Option.map_some]; rfl
    · simp only [hc, Bool.not_false, ↓reduceIte, toOpt, Option.map_none]
  | _ => cases h

theorem setRoutes_setRoutes (d : Dev) (R R' : List String) : setRoutes (setRoutes d R) R' = setRoutes d R' := rfl
theorem routes_setRoutes (d : Dev) (R : List String) : (setRoutes d R).routes = R := rfl

theorem setRoutes_self (d : Dev) (h : d.mode = none) : setRoutes d d.routes = d := by
  cases d; simp_all [setRoutes, strip]

/-- All route decisions on the device. -/
theorem evsRun_routeActs (acts : List MA) (hacts : ∀ a ∈ acts, isRouteAct a = true) (d : Dev) (hm : d.mode = none) :
    evsRun d (acts.flatMap expand) = (rRun d.routes acts).map (setRoutes d) := by
  induction acts generalizing d with
  | nil => simp [evsRun, rRun, setRoutes_self d hm]
  | cons a acts ih =>
    have ha := hacts a (List.mem_cons_self ..)
    simp only [List.flatMap_cons, evsRun_append, evsRun_routeAct d a ha, rRun, List.foldlM_cons]
    cases hs : rStep d.routes a with
    | none => simp
    | some R1 =>
      simp only [Option.map_some, Option.bind_some]
      rw [ih (fun a' h' => hacts a' (List.mem_cons_of_mem _ h')) (setRoutes d R1) rfl]
      simp only [routes_setRoutes, rRun, Option.bind_eq_bind, Option.bind_some]
      cases acts.foldlM rStep R1 with
      | none => rfl
      | some R2 => rfl


/-! ## the ledger: current routes = (original minus removed) plus added, as sets -/

def Led (R Rc rem add : List String) : Prop := ∀ t, t ∈ Rc ↔ (t ∈ R ∧ t ∉ rem) ∨ t ∈ add

theorem led_add {R Rc rem add : List String} (h : Led R Rc rem add) (n : String) (hnR : n ∉ R) (hna : n ∉ add) :
    ∃ Rc', rStep Rc (.route n) = some Rc' ∧ Led R Rc' rem (n :: add) := by
  have hn : n ∉ Rc := fun hc => by
    rcases (h n).mp hc with ⟨h1, _⟩ | h1
    · exact hnR h1
    · exact hna h1
  have hc : Rc.contains n = false := by simpa using hn
  refine ⟨Rc ++ [n], by simp only [rStep, hc, Bool.false_eq_true, ↓reduceIte], ?_⟩
  intro t
  rw [List.mem_append, List.mem_singleton, List.mem_cons, h t]
  constructor
  · rintro (h1 | rfl)
    · rcases h1 with h1 | h1
      · exact Or.inl h1
      · exact Or.inr (Or.inr h1)
    · exact Or.inr (Or.inl rfl)
  · rintro (h1 | rfl | h1)
    · exact Or.inl (Or.inl h1)
    · exact Or.inr rfl
    · exact Or.inl (Or.inr h1)

theorem led_del {R Rc rem add : List String} (h : Led R Rc rem add) (o : String) (hoR : o ∈ R) (hor : o ∉ rem)
    (hoa : o ∉ add) :
    ∃ Rc', rStep Rc (.noRoute o) = some Rc' ∧ Led R Rc' (o :: rem) add := by
  have ho : o ∈ Rc := (h o).mpr (Or.inl ⟨hoR, hor⟩)
  have hc : Rc.contains o = true := by simpa using ho
  refine ⟨Rc.filter (· != o), by simp only [rStep, hc, ↓reduceIte], ?_⟩
  intro t
  simp only [List.mem_filter, bne_iff_ne, ne_eq, List.mem_cons, not_or, h t]
  constructor
  · rintro ⟨h1 | h1, h2⟩
    · exact Or.inl ⟨h1.1, h2, h1.2⟩
    · exact Or.inr h1
  · rintro (⟨h1, h2, h3⟩ | h1)
    · exact ⟨Or.inl ⟨h1, h3⟩, h2⟩
    · exact ⟨Or.inr h1, fun hc => hoa (hc ▸ h1)⟩

theorem led_repl {R Rc rem add : List String} (h : Led R Rc rem add) (o n : String) (hoR : o ∈ R) (hor : o ∉ rem)
    (hoa : o ∉ add) (hnR : n ∉ R) (hna : n ∉ add) :
    ∃ Rc', rStep Rc (.replRoute o n) = some Rc' ∧ Led R Rc' (o :: rem) (n :: add) := by
  obtain ⟨R1, h1, l1⟩ := led_del h o hoR hor hoa
  obtain ⟨R2, h2, l2⟩ := led_add l1 n hnR hna
  refine ⟨R2, ?_, l2⟩
  simp only [rStep] at h1 h2 ⊢
  split at h1
  · rename_i hc
    simp only [Option.some.injEq] at h1
    subst h1
    simp only [hc, Bool.not_true, Bool.false_eq_true, ↓reduceIte]
    exact h2
  · cases h1


theorem Led_congr {R Rc rem rem' add add' : List String} (h : Led R Rc rem add) (hr : ∀ t, t ∈ rem' ↔ t ∈ rem)
    (ha : ∀ t, t ∈ add' ↔ t ∈ add) : Led R Rc rem' add' := by
  intro t; rw [h t, hr t, ha t]

/-- Deleted device routes (index, route) as the loops of `diffRoutes` need them. -/
structure DelsOK (dels : List (Nat × Route)) (R : List String) : Prop where
  idxNd : (dels.map (·.1)).Nodup
  textInj : ∀ d ∈ dels, ∀ d' ∈ dels, d.2.text = d'.2.text → d.1 = d'.1
  inR : ∀ d ∈ dels, d.2.text ∈ R

theorem dels_eq_of_idx {dels : List (Nat × Route)} (hnd : (dels.map (·.1)).Nodup) {d d' : Nat × Route}
    (hd : d ∈ dels) (hd' : d' ∈ dels) (h : d.1 = d'.1) : d = d' := by
  induction dels with
  | nil => cases hd
  | cons x xs ih =>
    simp only [List.map_cons, List.nodup_cons] at hnd
    rcases List.mem_cons.mp hd with rfl | hd1 <;> rcases List.mem_cons.mp hd' with rfl | hd1'
    · rfl
    · exact absurd (h ▸ List.mem_map_of_mem (f := (·.1)) hd1') hnd.1
    · exact absurd (h ▸ List.mem_map_of_mem (f := (·.1)) hd1) hnd.1
    · exact ih hnd.2 hd1 hd1'

/-- Invariant of the insert loop. -/
structure InsInv (dels : List (Nat × Route)) (chg : List String) (R : List String)
    (s : List MA × List Nat × List (String × String)) (Rc rem add : List String) : Prop where
  run : rRun R s.1 = some Rc
  led : Led R Rc rem add
  remIff : ∀ t, t ∈ rem ↔ ∃ d ∈ dels, d.1 ∈ s.2.1 ∧ d.2.text = t
  usedOK : ∀ k ∈ s.2.1, ∃ d ∈ dels, d.1 = k ∧ d.2.key ∈ s.2.2 ∧ chg.contains d.2.vrf = true

theorem ins_loop (dels : List (Nat × Route)) (R : List String) (hd : DelsOK dels R) (bl : List Route)
    (inss : List Route) (hin : ∀ r ∈ inss, r ∈ bl ∧ r.text ∉ R) (hnd : (inss.map (·.text)).Nodup)
    (s : List MA × List Nat × List (String × String)) (Rc rem add : List String)
    (h : InsInv dels (bl.map (·.vrf)) R s Rc rem add) (hadd : ∀ t ∈ add, t ∉ R ∧ t ∉ inss.map (·.text)) :
    ∃ Rc' rem', InsInv dels (bl.map (·.vrf)) R (inss.foldl (insStep dels) s) Rc' rem'
      ((inss.map (·.text)).reverse ++ add) := by
  induction inss generalizing s Rc rem add with
  | nil => exact ⟨Rc, rem, by simpa using h⟩
  | cons r inss ih =>
    obtain ⟨hrb, hrR⟩ := hin r (List.mem_cons_self ..)
    simp only [List.map_cons, List.nodup_cons] at hnd
    have hra : r.text ∉ add := fun hc => (hadd _ hc).2 (by simp)
    have hadd' : ∀ n, ∀ t ∈ n :: add, (n = r.text) → t ∉ R ∧ t ∉ inss.map (·.text) := by
      intro n t ht hn
      rcases List.mem_cons.mp ht with rfl | ht'
      · rw [hn]; exact ⟨hrR, hnd.1⟩
      · exact ⟨(hadd t ht').1, fun hc => (hadd t ht').2 (by simp [hc])⟩
    simp only [List.foldl_cons]
    -- one step
    have step : ∃ Rc1 rem1, InsInv dels (bl.map (·.vrf)) R (insStep dels s r) Rc1 rem1 (r.text :: add) := by
      unfold insStep
      cases hc : (dels.filter fun d => d.2.key == r.key && !s.2.2.contains r.key).getLast? with
      | none =>
        simp only
        obtain ⟨Rc1, h1, l1⟩ := led_add h.led r.text hrR hra
        exact ⟨Rc1, rem, by rw [rRun_snoc, h.run]; exact h1, l1, h.remIff, h.usedOK⟩
      | some d =>
        simp only
        have hdm : d ∈ dels.filter fun d => d.2.key == r.key && !s.2.2.contains r.key := List.mem_of_getLast? hc
        obtain ⟨hdd, hdk⟩ := List.mem_filter.mp hdm
        simp only [Bool.and_eq_true, beq_iff_eq, Bool.not_eq_true', ] at hdk
        obtain ⟨hkey, hgone⟩ := hdk
        have hnotused : d.1 ∉ s.2.1 := by
          intro hu
          obtain ⟨d', hd', h1, h2, _⟩ := h.usedOK d.1 hu
          have := dels_eq_of_idx hd.idxNd hd' hdd h1
          subst this
          rw [hkey] at h2
          have : s.2.2.contains r.key = true := by simpa using h2
          rw [this] at hgone; cases hgone
        have hor : d.2.text ∉ rem := by
          intro hcr
          obtain ⟨d', hd', h1, h2⟩ := (h.remIff _).mp hcr
          exact hnotused ((hd.textInj d' hd' d hdd h2) ▸ h1)
        have hoa : d.2.text ∉ add := fun hca => (hadd _ hca).1 (hd.inR d hdd)
        obtain ⟨Rc1, h1, l1⟩ := led_repl h.led d.2.text r.text (hd.inR d hdd) hor hoa hrR hra
        refine ⟨Rc1, d.2.text :: rem, by rw [rRun_snoc, h.run]; exact h1, l1, ?_, ?_⟩
        · intro t
          simp only [List.mem_cons, h.remIff t]
          constructor
          · rintro (rfl | ⟨d', hd', h2, h3⟩)
            · exact ⟨d, hdd, Or.inl rfl, rfl⟩
            · exact ⟨d', hd', Or.inr h2, h3⟩
          · rintro ⟨d', hd', h2 | h2, h3⟩
            · left
              have := dels_eq_of_idx hd.idxNd hd' hdd h2
              rw [← h3, this]
            · exact Or.inr ⟨d', hd', h2, h3⟩
        · intro k hk
          rcases List.mem_cons.mp hk with rfl | hk'
          · refine ⟨d, hdd, rfl, by simp [hkey], ?_⟩
            have : d.2.vrf = r.vrf := by
              have := congrArg Prod.fst hkey
              exact this
            rw [this]
            simpa using List.mem_map_of_mem (f := (·.vrf)) hrb
          · obtain ⟨d', hd', h1, h2, h3⟩ := h.usedOK k hk'
            exact ⟨d', hd', h1, by simp [h2], h3⟩
    obtain ⟨Rc1, rem1, h1⟩ := step
    obtain ⟨Rc', rem', h'⟩ := ih (fun r' hr' => hin r' (List.mem_cons_of_mem _ hr')) hnd.2 _ Rc1 rem1 (r.text :: add) h1
      (fun t ht => hadd' r.text t ht rfl)
    refine ⟨Rc', rem', ?_⟩
    simpa using h'


def delAct (chg : List String) (used : List Nat) (d : Nat × Route) : Option MA :=
  if chg.contains d.2.vrf && !used.contains d.1 then some (MA.noRoute d.2.text) else none

theorem del_loop (dels : List (Nat × Route)) (R : List String) (hd : DelsOK dels R) (chg : List String) (used : List Nat)
    (add : List String) (hadd : ∀ t ∈ add, t ∉ R)
    (pre ds : List (Nat × Route)) (hsplit : pre ++ ds = dels) (acts : List MA) (Rc rem : List String)
    (hrun : rRun R acts = some Rc) (hled : Led R Rc rem add)
    (hrem : ∀ t, t ∈ rem ↔ ∃ d ∈ dels, d.2.text = t ∧ (d.1 ∈ used ∨ (d ∈ pre ∧ chg.contains d.2.vrf = true))) :
    ∃ Rc' rem', rRun R (acts ++ ds.filterMap (delAct chg used)) = some Rc' ∧ Led R Rc' rem' add ∧
      ∀ t, t ∈ rem' ↔ ∃ d ∈ dels, d.2.text = t ∧ (d.1 ∈ used ∨ chg.contains d.2.vrf = true) := by
  induction ds generalizing pre acts Rc rem with
  | nil =>
    refine ⟨Rc, rem, by simpa using hrun, hled, ?_⟩
    intro t
    rw [hrem t]
    simp only [List.append_nil] at hsplit
    subst hsplit
    constructor
    · rintro ⟨d, hd', h1, h2 | ⟨_, h2⟩⟩
      · exact ⟨d, hd', h1, Or.inl h2⟩
      · exact ⟨d, hd', h1, Or.inr h2⟩
    · rintro ⟨d, hd', h1, h2 | h2⟩
      · exact ⟨d, hd', h1, Or.inl h2⟩
      · exact ⟨d, hd', h1, Or.inr ⟨hd', h2⟩⟩
  | cons d ds ih =>
    have hdd : d ∈ dels := by rw [← hsplit]; simp
    have hsplit' : (pre ++ [d]) ++ ds = dels := by rw [← hsplit]; simp
    have hmem : ∀ z, z ∈ pre ++ [d] ↔ z ∈ pre ∨ z = d := by intro z; simp
    simp only [List.filterMap_cons]
    by_cases hc : (chg.contains d.2.vrf && !used.contains d.1) = true
    · simp only [delAct, hc, ↓reduceIte]
      simp only [Bool.and_eq_true, Bool.not_eq_true'] at hc
      obtain ⟨hchg, hnu⟩ := hc
      have hnu' : d.1 ∉ used := by simpa using hnu
      have hnotpre : d ∉ pre := by
        intro hp
        have hnd := hd.idxNd
        rw [← hsplit, List.map_append, List.nodup_append] at hnd
        exact hnd.2.2 d.1 (List.mem_map_of_mem (f := (·.1)) hp) d.1 (by simp) rfl
      have hor : d.2.text ∉ rem := by
        intro hcr
        obtain ⟨d', hd', h1, h2⟩ := (hrem _).mp hcr
        have hidx := hd.textInj d' hd' d hdd h1
        rcases h2 with h2 | ⟨h2, _⟩
        · exact hnu' (hidx ▸ h2)
        · exact hnotpre ((dels_eq_of_idx hd.idxNd hd' hdd hidx) ▸ h2)
      have hoa : d.2.text ∉ add := fun hca => hadd _ hca (hd.inR d hdd)
      obtain ⟨Rc1, h1, l1⟩ := led_del hled d.2.text (hd.inR d hdd) hor hoa
      obtain ⟨Rc', rem', h', l', r'⟩ := ih (pre ++ [d]) hsplit' (acts ++ [MA.noRoute d.2.text]) Rc1 (d.2.text :: rem)
        (by rw [rRun_snoc, hrun]; exact h1) l1
        (by
          intro t
          rw [List.mem_cons, hrem t]
          constructor
          · rintro (rfl | ⟨d', hd', h2, h3 | ⟨h3, h4⟩⟩)
            · exact ⟨d, hdd, rfl, Or.inr ⟨(hmem d).mpr (Or.inr rfl), hchg⟩⟩
            · exact ⟨d', hd', h2, Or.inl h3⟩
            · exact ⟨d', hd', h2, Or.inr ⟨(hmem d').mpr (Or.inl h3), h4⟩⟩
          · rintro ⟨d', hd', h2, h3 | ⟨h3, h4⟩⟩
            · exact Or.inr ⟨d', hd', h2, Or.inl h3⟩
            · rcases (hmem d').mp h3 with h5 | h5
              · exact Or.inr ⟨d', hd', h2, Or.inr ⟨h5, h4⟩⟩
              · left; rw [← h2, h5])
      refine ⟨Rc', rem', ?_, l', r'⟩
      simpa using h'
    · have hnone : delAct chg used d = none := by
        unfold delAct; rw [if_neg hc]
      simp only [hnone]
      obtain ⟨Rc', rem', h', l', r'⟩ := ih (pre ++ [d]) hsplit' acts Rc rem hrun hled
        (by
          intro t
          rw [hrem t]
          constructor
          · rintro ⟨d', hd', h2, h3 | ⟨h3, h4⟩⟩
            · exact ⟨d', hd', h2, Or.inl h3⟩
            · exact ⟨d', hd', h2, Or.inr ⟨(hmem d').mpr (Or.inl h3), h4⟩⟩
          · rintro ⟨d', hd', h2, h3 | ⟨h3, h4⟩⟩
            · exact ⟨d', hd', h2, Or.inl h3⟩
            · rcases (hmem d').mp h3 with h5 | h5
              · exact ⟨d', hd', h2, Or.inr ⟨h5, h4⟩⟩
              · subst h5
                -- skipped: it was used by a replacement
                simp only [Bool.and_eq_true, Bool.not_eq_true', not_and, Bool.not_eq_false] at hc
                have := hc h4
                exact ⟨d', hd', h2, Or.inl (by simpa using this)⟩)
      exact ⟨Rc', rem', h', l', r'⟩


/-! ## `routePlan` -/

structure RoutesWF (al bl : List Route) (R : List String) : Prop where
  aNd : (al.map (·.text)).Nodup
  bNd : (bl.map (·.text)).Nodup
  aIn : ∀ a ∈ al, a.text ∈ R
  stray : ∀ b ∈ bl, b.text ∈ R → b.text ∈ al.map (·.text)

/-- Routes removed: device routes without partner in a VRF for which the target specifies routes. -/
def DelT (al bl : List Route) (t : String) : Prop :=
  ∃ a ∈ al, a.text = t ∧ t ∉ bl.map (·.text) ∧ (bl.map (·.vrf)).contains a.vrf = true

/-- Routes added: target routes without partner. -/
def InsT (al bl : List Route) (t : String) : Prop := ∃ b ∈ bl, b.text = t ∧ t ∉ al.map (·.text)

theorem run_adds (R : List String) (bs : List String) (hnd : bs.Nodup) (hbR : ∀ b ∈ bs, b ∉ R)
    (Rc rem add : List String) (hled : Led R Rc rem add) (hadd : ∀ b ∈ bs, b ∉ add) :
    ∃ Rc', rRun Rc (bs.map MA.route) = some Rc' ∧ Led R Rc' rem (bs.reverse ++ add) := by
  induction bs generalizing Rc add with
  | nil => exact ⟨Rc, rfl, by simpa using hled⟩
  | cons b bs ih =>
    simp only [List.nodup_cons] at hnd
    obtain ⟨Rc1, h1, l1⟩ := led_add hled b (hbR b (List.mem_cons_self ..)) (hadd b (List.mem_cons_self ..))
    obtain ⟨Rc', h', l'⟩ := ih hnd.2 (fun b' hb' => hbR b' (List.mem_cons_of_mem _ hb')) Rc1 (b :: add) l1
      (by
        intro b' hb' hc
        rcases List.mem_cons.mp hc with rfl | hc
        · exact hnd.1 hb'
        · exact hadd b' (List.mem_cons_of_mem _ hb') hc)
    refine ⟨Rc', ?_, by simpa using l'⟩
    simp only [List.map_cons, rRun, List.foldlM_cons, h1, Option.bind_eq_bind, Option.bind_some]
    exact h'

theorem flatMap_congr' {α β : Type} (l : List α) (f g : α → List β) (h : ∀ x ∈ l, f x = g x) :
    l.flatMap f = l.flatMap g := by
  induction l with
  | nil => rfl
  | cons x xs ih =>
    simp only [List.flatMap_cons, h x (List.mem_cons_self ..), ih (fun y hy => h y (List.mem_cons_of_mem _ hy))]

theorem getD_text {l : List Route} (k : Nat) (hk : k < l.length) :
    (l.map (·.text)).getD k "" = (l.getD k default).text := by
  rw [List.getD_eq_getElem?_getD, List.getElem?_eq_getElem (by simpa using hk), Option.getD_some, List.getElem_map,
    List.getD_eq_getElem?_getD, List.getElem?_eq_getElem hk, Option.getD_some]

theorem text_inj {l : List Route} (hnd : (l.map (·.text)).Nodup) {k k' : Nat} (hk : k < l.length) (hk' : k' < l.length)
    (h : (l.getD k default).text = (l.getD k' default).text) : k = k' := by
  have h1 : (l.map (·.text))[k]'(by simpa using hk) = (l.map (·.text))[k']'(by simpa using hk') := by
    simp only [List.getElem_map]
    rw [List.getD_eq_getElem?_getD, List.getElem?_eq_getElem hk, Option.getD_some] at h
    rw [List.getD_eq_getElem?_getD, List.getElem?_eq_getElem hk', Option.getD_some] at h
    exact h
  exact (List.getElem_inj hnd).mp h1

/-- Shape of the first phase of `diffRoutes`: a target route is added, or a device route is replaced
by a target route to the same destination in the same VRF (one joined command line). -/
def PhaseAAct (al bl : List Route) (a : MA) : Prop :=
  (∃ r ∈ bl, a = .route r.text) ∨ (∃ o ∈ al, ∃ r ∈ bl, a = .replRoute o.text r.text ∧ o.key = r.key)

/-- Shape of the second phase: a device route that is not a target route is removed. -/
def PhaseBAct (al bl : List Route) (a : MA) : Prop := ∃ o ∈ al, a = .noRoute o.text ∧ o.text ∉ bl.map (·.text)

theorem insFold_shape (dels : List (Nat × Route)) (P : MA → Prop) (inss : List Route)
    (s : List MA × List Nat × List (String × String)) (hs : ∀ a ∈ s.1, P a)
    (hroute : ∀ r ∈ inss, P (.route r.text))
    (hrepl : ∀ d ∈ dels, ∀ r ∈ inss, d.2.key = r.key → P (.replRoute d.2.text r.text)) :
    ∀ a ∈ (inss.foldl (insStep dels) s).1, P a := by
  induction inss generalizing s with
  | nil => exact hs
  | cons r inss ih =>
    simp only [List.foldl_cons]
    apply ih
    · intro a ha
      unfold insStep at ha
      cases hc : (dels.filter fun d => d.2.key == r.key && !s.2.2.contains r.key).getLast? with
      | none =>
        rw [hc] at ha
        rcases List.mem_append.mp ha with h1 | h1
        · exact hs a h1
        · simp only [List.mem_singleton] at h1
          rw [h1]; exact hroute r (List.mem_cons_self ..)
      | some d =>
        rw [hc] at ha
        rcases List.mem_append.mp ha with h1 | h1
        · exact hs a h1
        · simp only [List.mem_singleton] at h1
          have hdm := List.mem_of_getLast? hc
          obtain ⟨hdd, hdk⟩ := List.mem_filter.mp hdm
          simp only [Bool.and_eq_true, beq_iff_eq] at hdk
          rw [h1]; exact hrepl d hdd r (List.mem_cons_self ..) hdk.1
    · intro r' hr'; exact hroute r' (List.mem_cons_of_mem _ hr')
    · intro d hd r' hr'; exact hrepl d hd r' (List.mem_cons_of_mem _ hr')

/-- `diffRoutes`: every route command is accepted; the plan is a first phase of additions and
same-destination replacements after which every target route is on the device, followed by
removals of routes that are not target routes; the resulting routes as a set. -/
theorem routes_run_full (al bl : List Route) (R : List String) (h : RoutesWF al bl R) :
    ∃ R' pa pb Ra, (routePlan al bl).1 = pa ++ pb ∧ rRun R pa = some Ra ∧ rRun Ra pb = some R' ∧
      (∀ a ∈ pa, PhaseAAct al bl a) ∧ (∀ a ∈ pb, PhaseBAct al bl a) ∧ (∀ r ∈ bl, r.text ∈ Ra) ∧
      ∀ t, t ∈ R' ↔ (t ∈ R ∧ ¬ DelT al bl t) ∨ InsT al bl t := by
  have hled0 : Led R R [] [] := fun t => by simp
  unfold routePlan
  by_cases hal : al.isEmpty = true
  · have : al = [] := List.isEmpty_iff.mp hal
    subst this
    simp only [List.isEmpty_nil, ↓reduceIte]
    obtain ⟨R', h1, l1⟩ := run_adds R (bl.map (·.text)) h.bNd
      (by
        intro b hb hc
        obtain ⟨r, hr, rfl⟩ := List.mem_map.mp hb
        have := h.stray r hr hc
        simp at this) R [] [] hled0 (by simp)
    refine ⟨R', bl.map fun r => MA.route r.text, [], R', by simp, by rw [List.map_map] at h1; exact h1, rfl, ?_, by simp, ?_, ?_⟩
    · intro a ha
      obtain ⟨r, hr, rfl⟩ := List.mem_map.mp ha
      exact Or.inl ⟨r, hr, rfl⟩
    · intro r hr
      rw [l1 r.text]
      right
      simp only [List.append_nil, List.mem_reverse]
      exact List.mem_map_of_mem hr
    intro t
    rw [l1 t]
    simp only [List.not_mem_nil, not_false_eq_true, and_true, List.append_nil, List.mem_reverse, List.mem_map, DelT, InsT,
      false_and, exists_false, List.map_nil]
  · simp only [hal, Bool.false_eq_true, ↓reduceIte]
    obtain ⟨A, hA⟩ : ∃ A, A = al.map (·.text) := ⟨_, rfl⟩
    obtain ⟨B, hB⟩ : ∃ B, B = bl.map (·.text) := ⟨_, rfl⟩
    have hAL : A.length = al.length := by simp [hA]
    have hBL : B.length = bl.length := by simp [hB]
    obtain ⟨rsA, rsB, hrs, hkA, hkB, hfD, _, hfI⟩ := diffUnordered_spec A B (by rw [hA]; exact h.aNd)
    rw [hAL, hBL] at hkA hkB
    obtain ⟨D, hD⟩ : ∃ D, D = sDel B 0 A := ⟨_, rfl⟩
    obtain ⟨I, hI⟩ : ∃ I, I = sIns A 0 B := ⟨_, rfl⟩
    have hfDall : fDel (rsA ++ rsB) = D := by rw [fDel_append, fDel_of_ins hkB, List.append_nil, hfD, hD]
    have hfIall : fIns (rsA ++ rsB) = I := by rw [fIns_append, fIns_of_delEq hkA, List.nil_append, hfI, hI]
    -- the two lists the loops run over
    have hdels : ((rsA ++ rsB).flatMap fun r =>
          if r.isDelete then (List.range (r.highA - r.lowA)).map fun i => (r.lowA + i, al.getD (r.lowA + i) default)
          else []) = D.map fun k => (k, al.getD k default) := by
      rw [← hfDall, fDel, List.map_flatMap]
      apply flatMap_congr'
      intro r _
      split
      · simp [idxs, List.map_map, Function.comp_def]
      · rfl
    have hinss : ((rsA ++ rsB).flatMap fun r => if r.isInsert then slice bl r.lowB r.highB else []) =
        I.map fun j => bl.getD j default := by
      rw [← hfIall, fIns, List.map_flatMap]
      apply flatMap_congr'
      intro r hr
      split
      · rename_i hins
        have hk : kindOf al.length bl.length r = some .ins := by
          rcases List.mem_append.mp hr with h1 | h1
          · rcases hkA r h1 with h2 | h2
            · have := (tests_del h2).2.1; rw [hins] at this; cases this
            · have := (tests_eq h2).2.1; rw [hins] at this; cases this
          · exact hkB r h1
        exact slice_eq_idxs bl _ _ (kind_ins hk).2.2.2
      · rfl
    simp only [← hA, ← hB, hrs, hdels, hinss]
    obtain ⟨dels, hdl⟩ : ∃ dels, dels = D.map fun k => (k, al.getD k default) := ⟨_, rfl⟩
    obtain ⟨inss, hil⟩ : ∃ inss, inss = I.map fun j => bl.getD j default := ⟨_, rfl⟩
    rw [← hdl, ← hil]
    -- facts about the items
    have hDmem : ∀ k ∈ D, k < al.length ∧ (al.getD k default).text ∉ B := by
      intro k hk
      rw [hD] at hk
      obtain ⟨t, ht, rfl, hl⟩ := mem_sDel.mp hk
      rw [hAL] at ht
      simp only [Nat.zero_add]
      refine ⟨ht, ?_⟩
      have := lastIdx_none.mp hl
      rw [hA, getD_text t ht] at this
      exact this
    have hImem : ∀ j ∈ I, j < bl.length ∧ (bl.getD j default).text ∉ A := by
      intro j hj
      rw [hI] at hj
      obtain ⟨t, ht, rfl, hl⟩ := mem_sIns.mp hj
      rw [hBL] at ht
      simp only [Nat.zero_add]
      refine ⟨ht, ?_⟩
      rw [hB, getD_text t ht] at hl
      intro hc
      rw [List.contains_iff_mem.mpr hc] at hl
      cases hl
    have hdok : DelsOK dels R := by
      refine ⟨?_, ?_, ?_⟩
      · rw [hdl, List.map_map]
        have : ((fun d : Nat × Route => d.1) ∘ fun k => (k, al.getD k default)) = id := rfl
        rw [this, List.map_id, hD]; exact nodup_sDel ..
      · intro d hd d' hd' ht
        rw [hdl] at hd hd'
        obtain ⟨k, hk, rfl⟩ := List.mem_map.mp hd
        obtain ⟨k', hk', rfl⟩ := List.mem_map.mp hd'
        exact text_inj h.aNd (hDmem k hk).1 (hDmem k' hk').1 ht
      · intro d hd
        rw [hdl] at hd
        obtain ⟨k, hk, rfl⟩ := List.mem_map.mp hd
        exact h.aIn _ (getD_mem_of_lt al k (hDmem k hk).1)
    have hinok : ∀ r ∈ inss, r ∈ bl ∧ r.text ∉ R := by
      intro r hr
      rw [hil] at hr
      obtain ⟨j, hj, rfl⟩ := List.mem_map.mp hr
      obtain ⟨hjl, hjA⟩ := hImem j hj
      have hm := getD_mem_of_lt bl j hjl
      exact ⟨hm, fun hc => hjA (by rw [hA]; exact h.stray _ hm hc)⟩
    have hinnd : (inss.map (·.text)).Nodup := by
      rw [hil, List.map_map, List.Nodup, List.pairwise_map]
      have := nodup_sIns A 0 B
      rw [← hI] at this
      apply List.Pairwise.imp_of_mem _ this
      intro j j' hj hj' hne hc
      exact hne (text_inj h.bNd (hImem j hj).1 (hImem j' hj').1 hc)
    -- insert loop
    obtain ⟨Rc1, rem1, hins⟩ := ins_loop dels R hdok bl inss hinok hinnd ([], [], []) R [] []
      ⟨rfl, hled0, by simp, by simp⟩ (by simp)
    simp only [List.append_nil] at hins
    obtain ⟨s, hs⟩ : ∃ s, s = inss.foldl (insStep dels) ([], [], []) := ⟨_, rfl⟩
    rw [← hs] at hins ⊢
    -- delete loop
    obtain ⟨R', rem', hrun', hled', hrem'⟩ := del_loop dels R hdok (bl.map (·.vrf)) s.2.1 ((inss.map (·.text)).reverse)
      (by
        intro t ht
        obtain ⟨r, hr, rfl⟩ := List.mem_map.mp (List.mem_reverse.mp ht)
        exact (hinok r hr).2)
      [] dels rfl s.1 Rc1 rem1 hins.run hins.led
      (by
        intro t
        rw [hins.remIff t]
        constructor
        · rintro ⟨d, hd, h1, h2⟩; exact ⟨d, hd, h2, Or.inl h1⟩
        · rintro ⟨d, hd, h2, h1 | ⟨h1, _⟩⟩
          · exact ⟨d, hd, h1, h2⟩
          · cases h1)
    have hrunB : rRun Rc1 (dels.filterMap (delAct (bl.map (·.vrf)) s.2.1)) = some R' := by
      rw [rRun_append, hins.run] at hrun'
      exact hrun'
    refine ⟨R', s.1, dels.filterMap (delAct (bl.map (·.vrf)) s.2.1), Rc1, rfl, hins.run, hrunB, ?_, ?_, ?_, ?_⟩
    · -- shape of the first phase
      rw [hs]
      apply insFold_shape dels (PhaseAAct al bl) inss ([], [], []) (by simp)
      · intro r hr
        exact Or.inl ⟨r, (hinok r hr).1, rfl⟩
      · intro d hd r hr hk
        rw [hdl] at hd
        obtain ⟨k, hk', rfl⟩ := List.mem_map.mp hd
        exact Or.inr ⟨al.getD k default, getD_mem_of_lt al k (hDmem k hk').1, r, (hinok r hr).1, rfl, hk⟩
    · -- shape of the second phase
      intro a ha
      obtain ⟨d, hd, hda⟩ := List.mem_filterMap.mp ha
      rw [hdl] at hd
      obtain ⟨k, hk', rfl⟩ := List.mem_map.mp hd
      unfold delAct at hda
      split at hda
      · refine ⟨al.getD k default, getD_mem_of_lt al k (hDmem k hk').1, (Option.some.inj hda).symm, ?_⟩
        rw [← hB]; exact (hDmem k hk').2
      · cases hda
    · -- after the first phase every target route is there
      intro r hr
      rw [hins.led r.text]
      by_cases hrA : r.text ∈ A
      · left
        refine ⟨?_, ?_⟩
        · rw [hA] at hrA
          obtain ⟨a, ha, hat⟩ := List.mem_map.mp hrA
          rw [← hat]; exact h.aIn a ha
        · intro hc
          obtain ⟨d, hd, _, hdt⟩ := (hins.remIff _).mp hc
          rw [hdl] at hd
          obtain ⟨k, hk', rfl⟩ := List.mem_map.mp hd
          apply (hDmem k hk').2
          show (al.getD k default).text ∈ B
          rw [hdt, hB]; exact List.mem_map_of_mem hr
      · right
        rw [List.mem_reverse, List.mem_map]
        obtain ⟨j, hj, hjb⟩ := List.getElem_of_mem hr
        have hgj : bl.getD j default = r := by
          rw [List.getD_eq_getElem?_getD, List.getElem?_eq_getElem hj, Option.getD_some, hjb]
        have hjI : j ∈ I := by
          rw [hI]
          refine mem_sIns.mpr ⟨j, by rw [hBL]; exact hj, by omega, ?_⟩
          rw [hB, getD_text j hj, hgj, Bool.eq_false_iff]
          intro hc
          exact hrA (by simpa using hc)
        exact ⟨r, by rw [hil]; exact List.mem_map.mpr ⟨j, hjI, hgj⟩, rfl⟩
    intro t
    rw [hled' t]
    have hremD : t ∈ rem' ↔ DelT al bl t := by
      rw [hrem' t]
      constructor
      · rintro ⟨d, hd, h1, h2⟩
        have hvrf : (bl.map (·.vrf)).contains d.2.vrf = true := by
          rcases h2 with h2 | h2
          · obtain ⟨d', hd', h3, _, h5⟩ := hins.usedOK d.1 h2
            rw [dels_eq_of_idx hdok.idxNd hd hd' h3.symm]; exact h5
          · exact h2
        rw [hdl] at hd
        obtain ⟨k, hk, rfl⟩ := List.mem_map.mp hd
        obtain ⟨hkl, hkB'⟩ := hDmem k hk
        exact ⟨al.getD k default, getD_mem_of_lt al k hkl, h1, by rw [← h1, ← hB]; exact hkB', hvrf⟩
      · rintro ⟨a, ha, h1, h2, h3⟩
        obtain ⟨k, hk, hka⟩ := List.getElem_of_mem ha
        have hgk : al.getD k default = a := by
          rw [List.getD_eq_getElem?_getD, List.getElem?_eq_getElem hk, Option.getD_some, hka]
        have hkD : k ∈ D := by
          rw [hD]
          refine mem_sDel.mpr ⟨k, by rw [hAL]; exact hk, by omega, lastIdx_none.mpr ?_⟩
          rw [hA, getD_text k hk, hgk, h1, hB]; exact h2
        exact ⟨(k, a), by rw [hdl]; exact List.mem_map.mpr ⟨k, hkD, by rw [hgk]⟩, h1, Or.inr h3⟩
    have haddI : t ∈ (inss.map (·.text)).reverse ↔ InsT al bl t := by
      rw [List.mem_reverse, List.mem_map]
      constructor
      · rintro ⟨r, hr, rfl⟩
        rw [hil] at hr
        obtain ⟨j, hj, rfl⟩ := List.mem_map.mp hr
        obtain ⟨hjl, hjA⟩ := hImem j hj
        exact ⟨_, getD_mem_of_lt bl j hjl, rfl, by rw [← hA]; exact hjA⟩
      · rintro ⟨b, hb, h1, h2⟩
        obtain ⟨j, hj, hjb⟩ := List.getElem_of_mem hb
        have hgj : bl.getD j default = b := by
          rw [List.getD_eq_getElem?_getD, List.getElem?_eq_getElem hj, Option.getD_some, hjb]
        have hjI : j ∈ I := by
          rw [hI]
          refine mem_sIns.mpr ⟨j, by rw [hBL]; exact hj, by omega, ?_⟩
          rw [hB, getD_text j hj, hgj, h1, Bool.eq_false_iff]
          intro hc
          exact h2 (by rw [← hA]; simpa using hc)
        exact ⟨b, by rw [hil]; exact List.mem_map.mpr ⟨j, hjI, hgj⟩, h1⟩
    rw [hremD, haddI]


/-- `diffRoutes`: every route command is accepted; the resulting routes as a set. -/
theorem routes_run (al bl : List Route) (R : List String) (h : RoutesWF al bl R) :
    ∃ R', rRun R (routePlan al bl).1 = some R' ∧ ∀ t, t ∈ R' ↔ (t ∈ R ∧ ¬ DelT al bl t) ∨ InsT al bl t := by
  obtain ⟨R', pa, pb, Ra, h1, h2, h3, _, _, _, h7⟩ := routes_run_full al bl R h
  refine ⟨R', ?_, h7⟩
  rw [h1, rRun_append, h2]
  exact h3

/-! ## the two lists the loops of `diffRoutes` run over, flattened -/

theorem route_dels_flat (al : List Route) (rs : List Range) :
    (rs.flatMap fun r =>
        if r.isDelete then (List.range (r.highA - r.lowA)).map fun i => (r.lowA + i, al.getD (r.lowA + i) default)
        else []) = (fDel rs).map fun k => (k, al.getD k default) := by
  rw [fDel, List.map_flatMap]
  apply flatMap_congr'
  intro r _
  split
  · simp [idxs, List.map_map, Function.comp_def]
  · rfl

theorem route_inss_flat (n : Nat) (bl : List Route) (rs : List Range)
    (hk : ∀ r ∈ rs, (kindOf n bl.length r).isSome = true) :
    (rs.flatMap fun r => if r.isInsert then slice bl r.lowB r.highB else []) =
      (fIns rs).map fun j => bl.getD j default := by
  rw [fIns, List.map_flatMap]
  apply flatMap_congr'
  intro r hr
  split
  · rename_i hins
    cases hkk : kindOf n bl.length r with
    | none => have := hk r hr; rw [hkk] at this; cases this
    | some kd =>
      cases kd with
      | del => have := (tests_del hkk).2.1; rw [hins] at this; cases this
      | eq => have := (tests_eq hkk).2.1; rw [hins] at this; cases this
      | ins => exact slice_eq_idxs bl _ _ (kind_ins hkk).2.2.2
  · rfl

/-- Nothing to do for the routes: every target route is on the device and every further device route
lies in a VRF for which the target has no routes. -/
theorem routePlan_quiet (al bl : List Route) (hnd : (al.map (·.text)).Nodup)
    (hB : ∀ rb ∈ bl, rb.text ∈ al.map (·.text))
    (hA : ∀ ra ∈ al, ra.text ∈ bl.map (·.text) ∨ ra.vrf ∉ bl.map (·.vrf)) :
    (routePlan al bl).1 = [] := by
  unfold routePlan
  by_cases hal : al.isEmpty = true
  · have : al = [] := List.isEmpty_iff.mp hal
    subst this
    simp only [List.isEmpty_nil, ↓reduceIte]
    cases bl with
    | nil => rfl
    | cons r rs => have := hB r (List.mem_cons_self ..); simp at this
  · simp only [hal, Bool.false_eq_true, ↓reduceIte]
    obtain ⟨A, hA'⟩ : ∃ A, A = al.map (·.text) := ⟨_, rfl⟩
    obtain ⟨B, hB'⟩ : ∃ B, B = bl.map (·.text) := ⟨_, rfl⟩
    have hAL : A.length = al.length := by simp [hA']
    have hBL : B.length = bl.length := by simp [hB']
    obtain ⟨rsA, rsB, hrs, hkA, hkB, hfD, _, hfI⟩ := diffUnordered_spec A B (by rw [hA']; exact hnd)
    rw [hAL, hBL] at hkA hkB
    have hkAll : ∀ r ∈ rsA ++ rsB, (kindOf al.length bl.length r).isSome = true := by
      intro r hr
      rcases List.mem_append.mp hr with h1 | h1
      · rcases hkA r h1 with h2 | h2 <;> simp [h2]
      · simp [hkB r h1]
    have hI0 : sIns A 0 B = [] := by
      apply List.eq_nil_iff_forall_not_mem.mpr
      intro j hj
      obtain ⟨t, ht, _, hl⟩ := mem_sIns.mp hj
      rw [hBL] at ht
      rw [hB', getD_text t ht] at hl
      have := hB _ (getD_mem_of_lt bl t ht)
      rw [← hA'] at this
      rw [List.contains_iff_mem.mpr this] at hl
      cases hl
    have hfIall : fIns (rsA ++ rsB) = [] := by rw [fIns_append, fIns_of_delEq hkA, List.nil_append, hfI, hI0]
    have hfDall : fDel (rsA ++ rsB) = sDel B 0 A := by rw [fDel_append, fDel_of_ins hkB, List.append_nil, hfD]
    simp only [← hA', ← hB', hrs, route_dels_flat, route_inss_flat al.length bl _ hkAll, hfIall, hfDall, List.map_nil,
      List.foldl_nil, List.nil_append]
    apply List.filterMap_eq_nil_iff.mpr
    intro d hd
    obtain ⟨k, hk, rfl⟩ := List.mem_map.mp hd
    obtain ⟨t, ht, rfl, hl⟩ := mem_sDel.mp hk
    rw [hAL] at ht
    simp only [Nat.zero_add]
    have hnotB := lastIdx_none.mp hl
    rw [hA', getD_text t ht] at hnotB
    rcases hA _ (getD_mem_of_lt al t ht) with h1 | h1
    · rw [← hB'] at h1; exact absurd h1 hnotB
    · have : (bl.map (·.vrf)).contains (al.getD t default).vrf = false := by simpa using h1
      simp only [this, Bool.false_and, Bool.false_eq_true, ↓reduceIte]

end NA.F2
