import NA.Proofs.C04Addr
/-!
Helper lemmas for C04, level 1: the group invariant `GInv` that links the planner state
(`needed`, `nameOnDevice`) with the groups on the manager, and its preservation by `adaptGroup`
and `equalize` executed on the strict store.
-/
namespace NA.Nsx

/-! ### Strings -/

theorem hasPrefix_append (p r : String) : hasPrefix p (p ++ r) = true := by
  simp [hasPrefix, String.toList_append]

theorem cutPrefix_some {p s r : String} (h : cutPrefix p s = some r) : s = p ++ r := by
  unfold cutPrefix at h
  by_cases hp : hasPrefix p s = true
  · simp only [hp, if_true, Option.some.injEq] at h
    subst h
    unfold hasPrefix at hp
    rw [List.isPrefixOf_iff_prefix] at hp
    obtain ⟨t, ht⟩ := hp
    apply String.toList_inj.mp
    rw [String.toList_append, String.toList_ofList, ← ht]
    simp
  · simp [hp] at h

theorem cutPrefix_append (p r : String) : cutPrefix p (p ++ r) = some r := by
  unfold cutPrefix
  rw [if_pos (hasPrefix_append p r)]
  congr 1
  apply String.toList_inj.mp
  simp [String.toList_append]

theorem groupRef_groupPath (id : String) : groupRef (groupPath id) = some id := cutPrefix_append _ _

theorem groupRef_some {p x : String} (h : groupRef p = some x) : p = groupPath x := cutPrefix_some h

theorem groupPath_inj {a b : String} (h : groupPath a = groupPath b) : a = b := by
  have := groupRef_groupPath a
  rw [h, groupRef_groupPath] at this
  exact (Option.some.inj this).symm

/-! ### Groups of a store after the two operations the planner performs on them -/

def gids (G : List Group) : List String := G.map (·.id)

theorem findGroup_some {G : List Group} {id : String} {g : Group} (h : findGroup G id = some g) :
    g ∈ G ∧ g.id = id := by
  unfold findGroup at h
  exact ⟨List.mem_of_find?_eq_some h, by simpa using List.find?_some h⟩

theorem findGroup_none {G : List Group} {id : String} : findGroup G id = none ↔ id ∉ gids G := by
  unfold findGroup gids
  rw [List.find?_eq_none]
  constructor
  · intro h hm
    obtain ⟨g, hg, he⟩ := List.mem_map.mp hm
    exact h g hg (by simpa using he)
  · intro h g hg he
    exact h (List.mem_map.mpr ⟨g, hg, by simpa using he⟩)

theorem findGroup_isSome_of_mem {G : List Group} {id : String} (h : id ∈ gids G) : ∃ g, findGroup G id = some g := by
  cases hf : findGroup G id with
  | none => exact absurd h (findGroup_none.mp hf)
  | some g => exact ⟨g, rfl⟩

theorem findGroup_mem_nodup {G : List Group} {g : Group} (hn : (gids G).Nodup) (hg : g ∈ G) :
    findGroup G g.id = some g := by
  induction G with
  | nil => cases hg
  | cons x rest ih =>
    unfold findGroup
    simp only [List.find?_cons]
    simp only [gids, List.map_cons, List.nodup_cons] at hn
    rcases List.mem_cons.mp hg with h | h
    · subst h; simp
    · have hne : x.id ≠ g.id := by
        intro he
        exact hn.1 (he ▸ List.mem_map_of_mem (f := (·.id)) h)
      have : (x.id == g.id) = false := by simpa using hne
      simp only [this]
      exact ih hn.2 h

theorem findGroup_append_fresh (G : List Group) (g : Group) (id : String) (hfresh : g.id ∉ gids G) :
    findGroup (G ++ [g]) id = if id = g.id then some g else findGroup G id := by
  unfold findGroup
  rw [List.find?_append]
  by_cases h : id = g.id
  · subst h
    have : List.find? (fun x => x.id == g.id) G = none := findGroup_none.mpr hfresh
    simp [this]
  · simp only [h, if_false]
    have : (g.id == id) = false := by simpa using fun e => h e.symm
    cases hf : List.find? (fun x => x.id == id) G <;> simp [this]

theorem gids_setGroupAddrs (G : List Group) (gid : String) (f : Group → Group) (hf : ∀ g, (f g).id = g.id) :
    gids (setGroupAddrs G gid f) = gids G := by
  unfold gids setGroupAddrs
  rw [List.map_map]
  apply List.map_congr_left
  intro g _
  by_cases h : g.id = gid <;> simp [h, hf]

theorem findGroup_setGroupAddrs_ne (G : List Group) (gid id : String) (f : Group → Group)
    (hf : ∀ g, (f g).id = g.id) (hne : id ≠ gid) :
    findGroup (setGroupAddrs G gid f) id = findGroup G id := by
  unfold findGroup setGroupAddrs
  rw [List.find?_map]
  have hp : ((fun x : Group => x.id == id) ∘ fun g => if g.id == gid then f g else g) = fun x => x.id == id := by
    funext g
    simp only [Function.comp]
    by_cases h : g.id = gid <;> simp [h, hf]
  rw [hp]
  cases hfind : List.find? (fun x : Group => x.id == id) G with
  | none => rfl
  | some g =>
    have hid : g.id = id := by simpa using List.find?_some hfind
    have hne' : g.id ≠ gid := by rw [hid]; exact hne
    simp
    intro h; exact absurd h hne'

/-! ### The invariant -/

/-- Static facts about the planner's context relative to the initial groups `G0` of the manager. -/
structure CtxOK (ctx : Ctx) (G0 : List Group) : Prop where
  g0_nodup : (gids G0).Nodup
  a_of_g0 : ∀ ga ∈ ctx.aGroups, ∃ g0, findGroup G0 ga.id = some g0 ∧ g0.exprId = ga.exprId ∧ g0.addrs.Perm ga.addrs
  a_addrs : ∀ ga ∈ ctx.aGroups, ga.addrs.Nodup
  b_fresh : ∀ k gb, ctx.bmap.lookup k = some gb → gb.id ∉ gids G0
  b_inj : ∀ k1 k2 g1 g2, ctx.bmap.lookup k1 = some g1 → ctx.bmap.lookup k2 = some g2 → g1.id = g2.id → k1 = k2
  b_addrs : ∀ k gb, ctx.bmap.lookup k = some gb → gb.addrs.Nodup
  b_nonempty : ∀ k gb, ctx.bmap.lookup k = some gb → gb.addrs ≠ []

/-- Planner state versus groups on the manager. -/
structure GInv (ctx : Ctx) (G0 G : List Group) (st : PSt) : Prop where
  nodup : (gids G).Nodup
  /-- a device group not yet marked `needed` is as it was -/
  unneeded : ∀ ga ∈ ctx.aGroups, ga.id ∉ st.needed → findGroup G ga.id = findGroup G0 ga.id
  /-- groups that were never loaded are as they were -/
  others : ∀ id, id ∈ gids G0 → id ∉ gids ctx.aGroups → findGroup G id = findGroup G0 id
  /-- the group a target group is known under carries the target's addresses -/
  nod : ∀ k n, st.nod.lookup k = some n → ∃ gb g, ctx.bmap.lookup k = some gb ∧ findGroup G n = some g ∧
      (∀ x, x ∈ g.addrs ↔ x ∈ gb.addrs) ∧ ((n ∈ st.needed ∧ n ∈ gids ctx.aGroups) ∨ n = gb.id)
  inj : ∀ k1 k2 n, st.nod.lookup k1 = some n → st.nod.lookup k2 = some n → k1 = k2
  needed_a : ∀ n ∈ st.needed, n ∈ gids ctx.aGroups
  needed_owned : ∀ n ∈ st.needed, ∃ k, st.nod.lookup k = some n
  /-- every group on the manager was there initially or was created for a target group -/
  ids : ∀ id ∈ gids G, id ∈ gids G0 ∨ ∃ k gb, st.nod.lookup k = some id ∧ ctx.bmap.lookup k = some gb ∧ gb.id = id
  grow : ∀ id ∈ gids G0, id ∈ gids G

/-- The state only grows. -/
structure Mono (st st' : PSt) : Prop where
  nod : ∀ k n, st.nod.lookup k = some n → st'.nod.lookup k = some n
  needed : ∀ n ∈ st.needed, n ∈ st'.needed
  abort : st'.abort = none → st.abort = none

theorem Mono.refl (st : PSt) : Mono st st := ⟨fun _ _ h => h, fun _ h => h, fun h => h⟩
theorem Mono.trans {a b c : PSt} (h1 : Mono a b) (h2 : Mono b c) : Mono a c :=
  ⟨fun k n h => h2.nod k n (h1.nod k n h), fun n h => h2.needed n (h1.needed n h), fun h => h1.abort (h2.abort h)⟩

/-- A rule entry `pS` on the manager realises the target's entry `pB`. -/
def EPreal (ctx : Ctx) (nod : List (String × String)) (pS pB : String) : Prop :=
  match groupRef pB with
  | some k =>
    match ctx.bmap.lookup k with
    | some _ => ∃ n, nod.lookup k = some n ∧ pS = groupPath n
    | none => pS = pB
  | none => pS = pB

theorem EPreal.mono {ctx : Ctx} {st st' : PSt} {pS pB : String} (hm : Mono st st')
    (h : EPreal ctx st.nod pS pB) : EPreal ctx st'.nod pS pB := by
  unfold EPreal at *
  cases hk : groupRef pB with
  | none => simpa [hk] using h
  | some k =>
    simp only [hk] at h ⊢
    cases hb : ctx.bmap.lookup k with
    | none => simpa [hb] using h
    | some gb =>
      simp only [hb] at h ⊢
      obtain ⟨n, hn, hp⟩ := h
      exact ⟨n, hm.nod k n hn, hp⟩

/-! ### The two ways a target group gets a name on the manager -/

theorem lookup_cons_ne {k k' : String} {v : String} {l : List (String × String)} (h : k' ≠ k) :
    List.lookup k' ((k, v) :: l) = List.lookup k' l := by
  have : (k' == k) = false := by simpa using h
  simp [List.lookup_cons, this]

theorem lookup_cons_self {k : String} {v : String} {l : List (String × String)} :
    List.lookup k ((k, v) :: l) = some v := by
  simp [List.lookup_cons]

theorem aGroup_in_G0 {ctx : Ctx} {G0 : List Group} (hc : CtxOK ctx G0) {ga : Group} (h : ga ∈ ctx.aGroups) :
    ga.id ∈ gids G0 := by
  obtain ⟨g0, hf, _, _⟩ := hc.a_of_g0 ga h
  obtain ⟨hm, hid⟩ := findGroup_some hf
  exact hid ▸ List.mem_map_of_mem (f := (·.id)) hm

theorem mem_gids_of_find {G : List Group} {id : String} {g : Group} (h : findGroup G id = some g) : id ∈ gids G := by
  obtain ⟨hm, hid⟩ := findGroup_some h
  exact hid ▸ List.mem_map_of_mem (f := (·.id)) hm

/-- A new group for target group `k` is PUT under its (renamed) id. -/
theorem put_new_group {ctx : Ctx} {G0 : List Group} (hc : CtxOK ctx G0) (S : Store) (st : PSt) (k : String)
    (gb : Group) (hinv : GInv ctx G0 S.groups st) (hb : ctx.bmap.lookup k = some gb)
    (hk : st.nod.lookup k = none) :
    ∃ S', exec S (putGroupCall gb) = .ok S' ∧ S'.policies = S.policies ∧ S'.services = S.services ∧
      S'.groups = S.groups ++ [gb] ∧
      GInv ctx G0 S'.groups { st with nod := (k, gb.id) :: st.nod } ∧
      Mono st { st with nod := (k, gb.id) :: st.nod } := by
  have hfresh : gb.id ∉ gids S.groups := by
    intro hm
    rcases hinv.ids gb.id hm with h0 | ⟨k', gb', hn, hb', hid⟩
    · exact hc.b_fresh k gb hb h0
    · have := hc.b_inj k' k gb' gb hb' hb hid
      subst this
      rw [hk] at hn; cases hn
  have hne_of_old : ∀ k' n, st.nod.lookup k' = some n → k' ≠ k := by
    intro k' n h e; subst e; rw [hk] at h; cases h
  have hmono : Mono st { st with nod := (k, gb.id) :: st.nod } :=
    ⟨fun k' n h => by
        show List.lookup k' ((k, gb.id) :: st.nod) = some n
        rw [lookup_cons_ne (hne_of_old k' n h)]; exact h,
     fun _ h => h, fun h => h⟩
  have hhas : hasGroup S gb.id = false := by
    rw [Bool.eq_false_iff]
    intro h
    unfold hasGroup at h
    rw [List.any_eq_true] at h
    obtain ⟨g, hg, he⟩ := h
    exact hfresh (List.mem_map.mpr ⟨g, hg, by simpa using he⟩)
  refine ⟨{ S with groups := S.groups ++ [gb] }, ?_, rfl, rfl, rfl, ?_, hmono⟩
  · have hne : gb.addrs.isEmpty = false := by
      have := hc.b_nonempty k gb hb
      cases h : gb.addrs <;> simp_all
    simp [exec, putGroupCall, hhas, hne]
  · show GInv ctx G0 (S.groups ++ [gb]) _
    have hfind : ∀ id, findGroup (S.groups ++ [gb]) id = if id = gb.id then some gb else findGroup S.groups id :=
      fun id => findGroup_append_fresh S.groups gb id hfresh
    have hgids : gids (S.groups ++ [gb]) = gids S.groups ++ [gb.id] := by simp [gids]
    refine
      { nodup := ?_, unneeded := ?_, others := ?_, nod := ?_, inj := ?_, needed_a := hinv.needed_a,
        needed_owned := ?_, ids := ?_, grow := ?_ }
    · rw [hgids, List.nodup_append]
      refine ⟨hinv.nodup, by simp, ?_⟩
      intro a ha b hb' e
      simp at hb'; subst hb'; subst e; exact hfresh ha
    · intro ga hga hnn
      have hne : ga.id ≠ gb.id := fun e => hc.b_fresh k gb hb (e ▸ aGroup_in_G0 hc hga)
      rw [hfind, if_neg hne]
      exact hinv.unneeded ga hga hnn
    · intro id h0 hna
      have hne : id ≠ gb.id := fun e => hc.b_fresh k gb hb (e ▸ h0)
      rw [hfind, if_neg hne]
      exact hinv.others id h0 hna
    · intro k' n hl
      by_cases hkk : k' = k
      · subst hkk
        rw [show List.lookup k' ((k', gb.id) :: st.nod) = some gb.id from lookup_cons_self] at hl
        cases hl
        exact ⟨gb, gb, hb, by rw [hfind, if_pos rfl], fun _ => Iff.rfl, Or.inr rfl⟩
      · rw [show List.lookup k' ((k, gb.id) :: st.nod) = List.lookup k' st.nod from lookup_cons_ne hkk] at hl
        obtain ⟨gb', g, hb', hf, hm, hor⟩ := hinv.nod k' n hl
        have hne : n ≠ gb.id := fun e => hfresh (e ▸ mem_gids_of_find hf)
        exact ⟨gb', g, hb', by rw [hfind, if_neg hne]; exact hf, hm, hor⟩
    · intro k1 k2 n h1 h2
      by_cases e1 : k1 = k
      · by_cases e2 : k2 = k
        · rw [e1, e2]
        · subst e1
          rw [show List.lookup k1 ((k1, gb.id) :: st.nod) = some gb.id from lookup_cons_self] at h1
          cases h1
          rw [show List.lookup k2 ((k1, gb.id) :: st.nod) = List.lookup k2 st.nod from lookup_cons_ne e2] at h2
          obtain ⟨_, g, _, hf, _, _⟩ := hinv.nod k2 gb.id h2
          exact absurd (mem_gids_of_find hf) hfresh
      · rw [show List.lookup k1 ((k, gb.id) :: st.nod) = List.lookup k1 st.nod from lookup_cons_ne e1] at h1
        by_cases e2 : k2 = k
        · subst e2
          rw [show List.lookup k2 ((k2, gb.id) :: st.nod) = some gb.id from lookup_cons_self] at h2
          cases h2
          obtain ⟨_, g, _, hf, _, _⟩ := hinv.nod k1 gb.id h1
          exact absurd (mem_gids_of_find hf) hfresh
        · rw [show List.lookup k2 ((k, gb.id) :: st.nod) = List.lookup k2 st.nod from lookup_cons_ne e2] at h2
          exact hinv.inj k1 k2 n h1 h2
    · intro n hn
      obtain ⟨k', hk'⟩ := hinv.needed_owned n hn
      exact ⟨k', hmono.nod k' n hk'⟩
    · intro id hid
      rw [hgids, List.mem_append] at hid
      rcases hid with h | h
      · rcases hinv.ids id h with h0 | ⟨k', gb', hn, hb', hid'⟩
        · exact Or.inl h0
        · exact Or.inr ⟨k', gb', hmono.nod k' id hn, hb', hid'⟩
      · simp at h; subst h
        exact Or.inr ⟨k, gb, lookup_cons_self, hb, rfl⟩
    · intro id h0
      rw [hgids, List.mem_append]
      exact Or.inl (hinv.grow id h0)

/-- Device group `ga` (not yet needed) becomes the group of target group `k`; its addresses may
have been rewritten by `f` at the same time. -/
theorem claim_group {ctx : Ctx} {G0 : List Group} (hc : CtxOK ctx G0) (G : List Group) (st : PSt) (k : String)
    (ga gb g0 : Group) (f : Group → Group) (hinv : GInv ctx G0 G st) (hga : ga ∈ ctx.aGroups)
    (hnn : ga.id ∉ st.needed) (hb : ctx.bmap.lookup k = some gb) (hk : st.nod.lookup k = none)
    (hfind : findGroup G ga.id = some g0) (hf : ∀ g, (f g).id = g.id)
    (hmem : ∀ x, x ∈ (f g0).addrs ↔ x ∈ gb.addrs) :
    GInv ctx G0 (setGroupAddrs G ga.id f) { st with needed := ga.id :: st.needed, nod := (k, ga.id) :: st.nod } ∧
    Mono st { st with needed := ga.id :: st.needed, nod := (k, ga.id) :: st.nod } := by
  have hne_of_old : ∀ k' n, st.nod.lookup k' = some n → k' ≠ k := by
    intro k' n h e; subst e; rw [hk] at h; cases h
  have hmono : Mono st { st with needed := ga.id :: st.needed, nod := (k, ga.id) :: st.nod } :=
    ⟨fun k' n h => by
        show List.lookup k' ((k, ga.id) :: st.nod) = some n
        rw [lookup_cons_ne (hne_of_old k' n h)]; exact h,
     fun _ h => List.mem_cons_of_mem _ h, fun h => h⟩
  have hga0 : ga.id ∈ gids G0 := aGroup_in_G0 hc hga
  have hgaA : ga.id ∈ gids ctx.aGroups := List.mem_map_of_mem (f := (·.id)) hga
  -- an old name is never the unneeded device group
  have hold_ne : ∀ k' n, st.nod.lookup k' = some n → n ≠ ga.id := by
    intro k' n hl e
    obtain ⟨gb', _, hb', _, _, hor⟩ := hinv.nod k' n hl
    rcases hor with ⟨hn, _⟩ | hn
    · exact hnn (e ▸ hn)
    · exact hc.b_fresh k' gb' hb' (hn ▸ e ▸ hga0)
  have hgids : gids (setGroupAddrs G ga.id f) = gids G := gids_setGroupAddrs G ga.id f hf
  refine ⟨{ nodup := ?_, unneeded := ?_, others := ?_, nod := ?_, inj := ?_, needed_a := ?_,
            needed_owned := ?_, ids := ?_, grow := ?_ }, hmono⟩
  · rw [hgids]; exact hinv.nodup
  · intro ga' hga' hnn'
    have hne : ga'.id ≠ ga.id := fun e => hnn' (e ▸ List.mem_cons_self)
    rw [findGroup_setGroupAddrs_ne G ga.id ga'.id f hf hne]
    exact hinv.unneeded ga' hga' fun h => hnn' (List.mem_cons_of_mem _ h)
  · intro id h0 hna
    have hne : id ≠ ga.id := fun e => hna (e ▸ hgaA)
    rw [findGroup_setGroupAddrs_ne G ga.id id f hf hne]
    exact hinv.others id h0 hna
  · intro k' n hl
    by_cases hkk : k' = k
    · subst hkk
      rw [show List.lookup k' ((k', ga.id) :: st.nod) = some ga.id from lookup_cons_self] at hl
      cases hl
      refine ⟨gb, f g0, hb, ?_, hmem, Or.inl ⟨List.mem_cons_self, hgaA⟩⟩
      rw [findGroup_setGroupAddrs G ga.id f hf, hfind]; rfl
    · rw [show List.lookup k' ((k, ga.id) :: st.nod) = List.lookup k' st.nod from lookup_cons_ne hkk] at hl
      obtain ⟨gb', g, hb', hfd, hm, hor⟩ := hinv.nod k' n hl
      refine ⟨gb', g, hb', ?_, hm, ?_⟩
      · rw [findGroup_setGroupAddrs_ne G ga.id n f hf (hold_ne k' n hl)]; exact hfd
      · rcases hor with ⟨h1, h2⟩ | h
        · exact Or.inl ⟨List.mem_cons_of_mem _ h1, h2⟩
        · exact Or.inr h
  · intro k1 k2 n h1 h2
    by_cases e1 : k1 = k
    · by_cases e2 : k2 = k
      · rw [e1, e2]
      · subst e1
        rw [show List.lookup k1 ((k1, ga.id) :: st.nod) = some ga.id from lookup_cons_self] at h1
        cases h1
        rw [show List.lookup k2 ((k1, ga.id) :: st.nod) = List.lookup k2 st.nod from lookup_cons_ne e2] at h2
        exact absurd rfl (hold_ne k2 ga.id h2)
    · rw [show List.lookup k1 ((k, ga.id) :: st.nod) = List.lookup k1 st.nod from lookup_cons_ne e1] at h1
      by_cases e2 : k2 = k
      · subst e2
        rw [show List.lookup k2 ((k2, ga.id) :: st.nod) = some ga.id from lookup_cons_self] at h2
        cases h2
        exact absurd rfl (hold_ne k1 ga.id h1)
      · rw [show List.lookup k2 ((k, ga.id) :: st.nod) = List.lookup k2 st.nod from lookup_cons_ne e2] at h2
        exact hinv.inj k1 k2 n h1 h2
  · intro n hn
    rcases List.mem_cons.mp hn with h | h
    · exact h ▸ hgaA
    · exact hinv.needed_a n h
  · intro n hn
    rcases List.mem_cons.mp hn with h | h
    · exact ⟨k, h ▸ lookup_cons_self⟩
    · obtain ⟨k', hk'⟩ := hinv.needed_owned n h
      exact ⟨k', hmono.nod k' n hk'⟩
  · intro id hid
    rw [hgids] at hid
    rcases hinv.ids id hid with h0 | ⟨k', gb', hn, hb', hid'⟩
    · exact Or.inl h0
    · exact Or.inr ⟨k', gb', hmono.nod k' id hn, hb', hid'⟩
  · intro id h0
    rw [hgids]; exact hinv.grow id h0


/-! ### `adaptGroup` and `equalize` on the strict store -/

def GroupsLE (S S' : Store) : Prop := ∀ id, id ∈ gids S.groups → id ∈ gids S'.groups

theorem GroupsLE.refl (S : Store) : GroupsLE S S := fun _ h => h
theorem GroupsLE.trans {a b c : Store} (h1 : GroupsLE a b) (h2 : GroupsLE b c) : GroupsLE a c :=
  fun id h => h2 id (h1 id h)

theorem hasGroup_iff {S : Store} {id : String} : hasGroup S id = true ↔ id ∈ gids S.groups := by
  unfold hasGroup gids
  rw [List.any_eq_true]
  constructor
  · rintro ⟨g, hg, he⟩; exact List.mem_map.mpr ⟨g, hg, by simpa using he⟩
  · intro h
    obtain ⟨g, hg, he⟩ := List.mem_map.mp h
    exact ⟨g, hg, by simpa using he⟩

theorem epOk_mono {S S' : Store} (h : GroupsLE S S') {p : String} (hp : epOk S p = true) : epOk S' p = true := by
  unfold epOk at *
  cases hr : groupRef p with
  | none => simp
  | some x =>
    simp only [hr] at hp ⊢
    exact hasGroup_iff.mpr (h x (hasGroup_iff.mp hp))

theorem epOk_groupPath {S : Store} {n : String} (h : n ∈ gids S.groups) : epOk S (groupPath n) = true := by
  unfold epOk
  rw [groupRef_groupPath]
  exact hasGroup_iff.mpr h

theorem findOnDevice_some {aG : List Group} {needed : List String} {gb ga : Group}
    (h : findOnDevice aG needed gb = some ga) : ga ∈ aG ∧ ga.id ∉ needed ∧ ga.addrs = gb.addrs := by
  unfold findOnDevice at h
  have hm := List.mem_of_find?_eq_some h
  have hp := List.find?_some h
  rw [(isort_perm _ _).mem_iff] at hm
  simp only [Bool.and_eq_true, Bool.not_eq_eq_eq_not, Bool.not_true, beq_iff_eq] at hp
  refine ⟨hm, ?_, hp.2⟩
  intro hc
  have : needed.contains ga.id = true := by simpa using hc
  rw [this] at hp
  exact absurd hp.1 (by simp)

theorem run_single {S S' : Store} {c : Call} (h : exec S c = .ok S') : run S [c] = some S' := by
  simp [run, h]

theorem run_append {S S1 : Store} {c1 c2 : List Call} (h : run S c1 = some S1) :
    run S (c1 ++ c2) = run S1 c2 := by
  induction c1 generalizing S with
  | nil => simp [run] at h; subst h; rfl
  | cons c rest ih =>
    simp only [List.cons_append, run] at h ⊢
    cases he : exec S c with
    | error e => simp [he] at h
    | ok S2 =>
      simp only [he] at h ⊢
      exact ih h

/-- `adaptGroup`: the calls (at most one PUT of a new group) are accepted, the invariant is kept,
and the returned entry realises the target's entry. -/
theorem adaptGroup_spec {ctx : Ctx} {G0 : List Group} (hc : CtxOK ctx G0) (S : Store) (st : PSt) (p : String)
    (hinv : GInv ctx G0 S.groups st) (hp : ctx.gmb p = none → epOk S p = true) :
    ∃ S', run S (adaptGroup ctx st p).2.2 = some S' ∧ S'.policies = S.policies ∧ S'.services = S.services ∧
      GInv ctx G0 S'.groups (adaptGroup ctx st p).1 ∧ Mono st (adaptGroup ctx st p).1 ∧
      EPreal ctx (adaptGroup ctx st p).1.nod (adaptGroup ctx st p).2.1 p ∧
      GroupsLE S S' ∧ epOk S' (adaptGroup ctx st p).2.1 = true := by
  unfold adaptGroup
  cases hr : groupRef p with
  | none =>
    refine ⟨S, rfl, rfl, rfl, hinv, Mono.refl _, ?_, GroupsLE.refl _, ?_⟩
    · simp [EPreal, hr]
    · exact hp (by simp [Ctx.gmb, hr])
  | some key =>
    simp only
    cases hb : ctx.bmap.lookup key with
    | none =>
      refine ⟨S, rfl, rfl, rfl, hinv, Mono.refl _, ?_, GroupsLE.refl _, ?_⟩
      · simp [EPreal, hr, hb]
      · exact hp (by simp [Ctx.gmb, hr, hb])
    | some gb =>
      simp only
      cases hn : st.nod.lookup key with
      | some n =>
        obtain ⟨_, g, _, hf, _, _⟩ := hinv.nod key n hn
        refine ⟨S, rfl, rfl, rfl, hinv, Mono.refl _, ?_, GroupsLE.refl _, epOk_groupPath (mem_gids_of_find hf)⟩
        simp only [EPreal, hr, hb]
        exact ⟨n, hn, rfl⟩
      | none =>
        simp only
        cases hfd : findOnDevice ctx.aGroups st.needed gb with
        | some ga =>
          obtain ⟨hga, hnn, haddr⟩ := findOnDevice_some hfd
          obtain ⟨g0, hf0, _, hperm⟩ := hc.a_of_g0 ga hga
          have hfS : findGroup S.groups ga.id = some g0 := by rw [hinv.unneeded ga hga hnn]; exact hf0
          have hcl := claim_group hc S.groups st key ga gb g0 (fun g => g) hinv hga hnn hb hn hfS (fun _ => rfl)
            (fun x => by rw [hperm.mem_iff, haddr])
          rw [setGroupAddrs_id] at hcl
          refine ⟨S, rfl, rfl, rfl, hcl.1, hcl.2, ?_, GroupsLE.refl _, epOk_groupPath (mem_gids_of_find hfS)⟩
          simp only [EPreal, hr, hb]
          exact ⟨ga.id, lookup_cons_self, rfl⟩
        | none =>
          obtain ⟨S', hex, hpol, hsvc, hgr, hinv', hmono⟩ := put_new_group hc S st key gb hinv hb hn
          refine ⟨S', run_single hex, hpol, hsvc, hinv', hmono, ?_, ?_, ?_⟩
          · simp only [EPreal, hr, hb]
            exact ⟨gb.id, lookup_cons_self, rfl⟩
          · intro id h; rw [hgr]; simp only [gids, List.map_append, List.mem_append]; exact Or.inl h
          · apply epOk_groupPath
            rw [hgr]; simp [gids]


theorem gma_some {ctx : Ctx} {p : String} {ga : Group} (h : ctx.gma p = some ga) :
    ga ∈ ctx.aGroups ∧ p = groupPath ga.id := by
  unfold Ctx.gma at h
  cases hr : groupRef p with
  | none => simp [hr] at h
  | some x =>
    simp only [hr] at h
    unfold findGroupLast at h
    obtain ⟨hm, hid⟩ := findGroup_some h
    exact ⟨List.mem_reverse.mp hm, by rw [hid]; exact groupRef_some hr⟩

/-- `equalize` of one side of a kept rule. -/
theorem equalize_spec {ctx : Ctx} {G0 : List Group} (hc : CtxOK ctx G0)
    (hdiff : ∀ n m eq, validScript n m eq (ctx.diff n m eq) = true)
    (S : Store) (st : PSt) (la lb : String) (hinv : GInv ctx G0 S.groups st)
    (habort : (equalize ctx st la lb).1.abort = none) (hla : epOk S la = true) :
    ∃ S', run S (equalize ctx st la lb).2.2.2 = some S' ∧ S'.policies = S.policies ∧ S'.services = S.services ∧
      GInv ctx G0 S'.groups (equalize ctx st la lb).1 ∧ Mono st (equalize ctx st la lb).1 ∧
      (ctx.gma la ≠ none → EPreal ctx (equalize ctx st la lb).1.nod (equalize ctx st la lb).2.1 lb) ∧
      (ctx.gma la = none → (equalize ctx st la lb).2.1 = la) ∧
      ((equalize ctx st la lb).2.2.1 = false → (equalize ctx st la lb).2.1 = la) ∧
      GroupsLE S S' ∧ epOk S' (equalize ctx st la lb).2.1 = true := by
  unfold equalize at habort ⊢
  cases hga : ctx.gma la with
  | none =>
    exact ⟨S, rfl, rfl, rfl, hinv, Mono.refl _, fun h => absurd rfl h, fun _ => rfl, fun _ => rfl,
      GroupsLE.refl _, hla⟩
  | some ga =>
    obtain ⟨hgaM, hlaEq⟩ := gma_some hga
    simp only [hga] at habort ⊢
    cases hr : groupRef lb with
    | none => simp [hr] at habort
    | some key =>
      simp only [hr] at habort ⊢
      cases hb : ctx.bmap.lookup key with
      | none => simp [hb] at habort
      | some gb =>
        simp only [hb] at habort ⊢
        have hEP : ∀ (nod : List (String × String)) n, nod.lookup key = some n →
            EPreal ctx nod (groupPath n) lb := by
          intro nod n hn
          simp only [EPreal, hr, hb]
          exact ⟨n, hn, rfl⟩
        by_cases h1 : st.nod.lookup key = some ga.id
        · -- the target group is already known under the device group's name
          have : (st.nod.lookup key == some ga.id) = true := by simp [h1]
          simp only [this, if_true]
          refine ⟨S, rfl, rfl, rfl, hinv, Mono.refl _, fun _ => ?_, fun h => absurd h (by simp), by simp,
            GroupsLE.refl _, hla⟩
          rw [hlaEq]; exact hEP _ _ h1
        · have hne : (st.nod.lookup key == some ga.id) = false := by simpa using h1
          simp only [hne, Bool.false_eq_true, if_false] at habort ⊢
          by_cases h2 : (st.needed.contains ga.id || (st.nod.lookup key).isSome) = true
          · simp only [h2, if_true] at habort ⊢
            cases hn : st.nod.lookup key with
            | some nm =>
              obtain ⟨_, g, _, hf, _, _⟩ := hinv.nod key nm hn
              refine ⟨S, rfl, rfl, rfl, hinv, Mono.refl _, fun _ => hEP _ _ hn, fun h => absurd h (by simp),
                fun h => absurd h (by simp), GroupsLE.refl _, epOk_groupPath (mem_gids_of_find hf)⟩
            | none =>
              obtain ⟨S', hex, hpol, hsvc, hgr, hinv', hmono⟩ := put_new_group hc S st key gb hinv hb hn
              refine ⟨S', run_single hex, hpol, hsvc, hinv', hmono, fun _ => hEP _ _ lookup_cons_self,
                fun h => absurd h (by simp), fun h => absurd h (by simp), ?_, ?_⟩
              · intro id h; rw [hgr]; simp only [gids, List.map_append, List.mem_append]; exact Or.inl h
              · apply epOk_groupPath
                rw [hgr]; simp [gids]
          · -- the device group is rewritten to carry the target's addresses
            have h2' : (st.needed.contains ga.id || (st.nod.lookup key).isSome) = false := Bool.eq_false_iff.mpr h2
            simp only [h2', Bool.false_eq_true, if_false] at habort ⊢
            rw [Bool.or_eq_false_iff] at h2'
            have hnn : ga.id ∉ st.needed := by
              intro h; have : st.needed.contains ga.id = true := by simpa using h
              rw [this] at h2'; exact absurd h2'.1 (by simp)
            have hn : st.nod.lookup key = none := by
              cases hx : st.nod.lookup key with
              | none => rfl
              | some v => rw [hx] at h2'; simp at h2'
            obtain ⟨g0, hf0, he0, hperm⟩ := hc.a_of_g0 ga hgaM
            have hfS : findGroup S.groups ga.id = some g0 := by rw [hinv.unneeded ga hgaM hnn]; exact hf0
            obtain ⟨S', f, hrun, hpol, hsvc, hgr, hfid, hmem⟩ :=
              groupCalls_converges' ctx.diff hdiff S ga gb g0 hfS he0 hperm (hc.a_addrs ga hgaM) (hc.b_addrs key gb hb)
                (hc.b_nonempty key gb hb)
            have hcl := claim_group hc S.groups st key ga gb g0 f hinv hgaM hnn hb hn hfS (fun g => (hfid g).1) hmem
            rw [← hgr] at hcl
            have hgids : gids S'.groups = gids S.groups := by
              rw [hgr]; exact gids_setGroupAddrs _ _ _ fun g => (hfid g).1
            refine ⟨S', hrun, hpol, hsvc, hcl.1, hcl.2, fun _ => ?_, fun h => absurd h (by simp), by simp, ?_, ?_⟩
            · rw [hlaEq]; exact hEP _ _ lookup_cons_self
            · intro id h; rw [hgids]; exact h
            · exact epOk_mono (fun id h => by rw [hgids]; exact h) hla

end NA.Nsx
