import NA.Proofs.C09Top
/-!
# C09: termination of the IOS `write memory` retry loop (`retries := 2; for { … }`)
-/
namespace NA.C09
open NA.Sess NA.Apply NA.Spec.C09

/-- programs that do not touch the retry counter -/
def noCtr : Sess → Bool
  | .setCtr _ | .decCtr => false
  | .ite _ _ t e => noCtr t && noCtr e
  | .seq a b => noCtr a && noCtr b
  | .forEach b => noCtr b
  | .defer c b => noCtr c && noCtr b
  | .loopN _ b => noCtr b
  | .loopFuel b => noCtr b
  | .call _ _ b => noCtr b
  | .scope _ b => noCtr b
  | .when _ b => noCtr b
  | _ => true

theorem recvLoop_ctr (dev : Dev) (ρ : Role) (p : Pat) : ∀ (n : Nat) (s : St), (recvLoop dev ρ p n s).ctr = s.ctr := by
  intro n
  induction n with
  | zero => intro s; rfl
  | succ n ih =>
    intro s
    simp only [recvLoop]
    split
    · rfl
    · split
      · rw [ih]
      · rfl

theorem each_ctr (f : List String → St → St) (hf : ∀ pk s, (f pk s).ctr = s.ctr) :
    ∀ (l : List (List String)) (s : St), (each f l s).ctr = s.ctr := by
  intro l
  induction l with
  | nil => intro s; rfl
  | cons pk rest ih => intro s; simp only [each]; rw [ih, hf]

theorem iter_ctr (f : St → St) (hf : ∀ s, (f s).ctr = s.ctr) : ∀ (n : Nat) (s : St), (iter n f s).ctr = s.ctr := by
  intro n
  induction n with
  | zero => intro s; simp only [iter]; split <;> rfl
  | succ n ih =>
    intro s
    simp only [iter]
    split
    · split
      · rw [ih]; exact hf s
      · rw [ih]; exact hf s
      · exact hf s
    · rfl

theorem noCtr_frame (p : Sess) (hq : noCtr p = true) : ∀ (env : Env) (s : St), (exec p env s).ctr = s.ctr := by
  induction p with
  | setCtr n => simp [noCtr] at hq
  | decCtr => simp [noCtr] at hq
  | ite c l t e iht ihe =>
    intro env s
    simp only [noCtr, Bool.and_eq_true] at hq
    simp only [exec]
    split
    · split
      · exact iht hq.1 env s
      · exact ihe hq.2 env s
    · rfl
  | seq a b iha ihb =>
    intro env s
    simp only [noCtr, Bool.and_eq_true] at hq
    simp only [exec]
    rw [ihb hq.2, iha hq.1]
  | forEach b ih =>
    intro env s
    simp only [exec]
    split
    · exact each_ctr _ (fun pk st => ih hq _ st) _ _
    · rfl
  | defer c b ihc ihb =>
    intro env s
    simp only [noCtr, Bool.and_eq_true] at hq
    simp only [exec]
    split
    · split
      · exact ihb hq.2 env s
      · split
        · simp only []; rw [ihc hq.1]; exact ihb hq.2 env s
        · rw [ihc hq.1]; exact ihb hq.2 env s
    · rfl
  | loopN n b ih => intro env s; simp only [exec]; exact iter_ctr _ (fun st => ih hq env st) _ _
  | loopFuel b ih => intro env s; simp only [exec]; exact iter_ctr _ (fun st => ih hq env st) _ _
  | call n l b ih =>
    intro env s
    simp only [exec]
    split
    · split
      · exact ih hq env s
      · exact ih hq env s
    · rfl
  | scope c b ih => intro env s; simp only [exec]; exact ih hq env s
  | «when» c b ih =>
    intro env s
    simp only [exec]
    split
    · split
      · exact ih hq env s
      · rfl
    · rfl
  | recv ρ p =>
    intro env s
    simp only [exec]
    split
    · exact recvLoop_ctr _ _ _ _ _
    · rfl
  | roundTrip ρ t r =>
    intro env s
    simp only [exec]
    split
    · split
      · rw [recvLoop_ctr]; simp only []; rw [recvLoop_ctr]
      · rw [recvLoop_ctr]
    · rfl
  | _ =>
    intro env s
    simp only [exec] <;> first | rfl | (split <;> rfl)

/-- one round of IOS `writeMem` -/
def iosWriteMemRound : Sess :=
  IssueCmd .save (.lit "write memory") (.stdOr [.confirm]) ["write memory", "#[ ]?|\\[confirm\\]"] ;;
  .ite (.flag .overwrite) "strings.Contains($IssueCmd, \"Overwrite the previous NVRAM configuration\")"
    (GetCmdOutput .save (.lit "") [""]) .skip ;;
  .ite (.flag .okMark) "strings.Contains($IssueCmd, \"[OK]\")" (.ret .none []) .skip ;;
  .ite (.flag .openFailed) "strings.Contains($IssueCmd, \"startup-config file open failed\")"
    (.ite .ctrPos "$v > 0" (.decCtr ;; .cont) .skip ;;
     .abort ["write mem: startup-config open failed - giving up"]) .skip ;;
  .abort ["write mem: unexpected result: %s", "_"]

theorem iosWriteMemBody_eq : iosWriteMemBody = (.setCtr 2 ;; .loopN 3 iosWriteMemRound) := rfl

/-- a round says `continue` only after decrementing a positive retry counter -/
theorem iosRound_cont (env : Env) (s : St) (hs : s.mode = .run) (hc : (exec iosWriteMemRound env s).mode = .cont) :
    s.ctr > 0 ∧ (exec iosWriteMemRound env s).ctr = s.ctr - 1 := by
  unfold iosWriteMemRound at *
  rw [exec_seq] at hc ⊢
  have hf1 := noCtr_frame (IssueCmd .save (.lit "write memory") (.stdOr [.confirm]) ["write memory", "#[ ]?|\\[confirm\\]"])
    (by decide) env s
  have hn1 := noCont_mode (IssueCmd .save (.lit "write memory") (.stdOr [.confirm]) ["write memory", "#[ ]?|\\[confirm\\]"])
    (by decide) env s (by rw [hs]; decide)
  generalize exec (IssueCmd .save (.lit "write memory") (.stdOr [.confirm]) ["write memory", "#[ ]?|\\[confirm\\]"]) env s = s1 at hc hf1 hn1 ⊢
  by_cases hm1 : s1.mode = .run
  · rw [exec_seq] at hc ⊢
    -- the optional confirmation exchange
    have key : ∀ s2 : St, s2.ctr = s.ctr → s2.mode ≠ .cont →
        (exec (.ite (.flag .okMark) "strings.Contains($IssueCmd, \"[OK]\")" (.ret .none []) .skip ;;
          .ite (.flag .openFailed) "strings.Contains($IssueCmd, \"startup-config file open failed\")"
            (.ite .ctrPos "$v > 0" (.decCtr ;; .cont) .skip ;;
             .abort ["write mem: startup-config open failed - giving up"]) .skip ;;
          .abort ["write mem: unexpected result: %s", "_"]) env s2).mode = .cont →
        s.ctr > 0 ∧ (exec (.ite (.flag .okMark) "strings.Contains($IssueCmd, \"[OK]\")" (.ret .none []) .skip ;;
          .ite (.flag .openFailed) "strings.Contains($IssueCmd, \"startup-config file open failed\")"
            (.ite .ctrPos "$v > 0" (.decCtr ;; .cont) .skip ;;
             .abort ["write mem: startup-config open failed - giving up"]) .skip ;;
          .abort ["write mem: unexpected result: %s", "_"]) env s2).ctr = s.ctr - 1 := by
      intro s2 hctr hnc hcont
      by_cases hm2 : s2.mode = .run
      · by_cases hok : Flag.okMark ∈ s2.last.flags
        · simp [exec, hm2, evalCond, hok] at hcont
        · by_cases hof : Flag.openFailed ∈ s2.last.flags
          · by_cases hpos : s2.ctr > 0
            · simp [exec, hm2, evalCond, hok, hof, hpos] <;> omega
            · simp [exec, hm2, evalCond, hok, hof, hpos] at hcont
          · simp [exec, hm2, evalCond, hok, hof] at hcont
      · rw [exec_nonrun _ _ _ hm2] at hcont; exact absurd hcont hnc
    by_cases hov : Flag.overwrite ∈ s1.last.flags
    · have hf2 := noCtr_frame (GetCmdOutput .save (.lit "") [""]) (by decide) env s1
      have hn2 := noCont_mode (GetCmdOutput .save (.lit "") [""]) (by decide) env s1 (by rw [hm1]; decide)
      have he : exec (.ite (.flag .overwrite) "strings.Contains($IssueCmd, \"Overwrite the previous NVRAM configuration\")"
          (GetCmdOutput .save (.lit "") [""]) .skip) env s1 = exec (GetCmdOutput .save (.lit "") [""]) env s1 := by
        simp [exec, hm1, evalCond, hov]
      rw [he] at hc ⊢
      exact key _ (hf2.trans hf1) hn2 hc
    · have he : exec (.ite (.flag .overwrite) "strings.Contains($IssueCmd, \"Overwrite the previous NVRAM configuration\")"
          (GetCmdOutput .save (.lit "") [""]) .skip) env s1 = s1 := by
        simp [exec, hm1, evalCond, hov]
      rw [he] at hc ⊢
      exact key _ hf1 hn1 hc
  · rw [exec_nonrun _ _ _ hm1] at hc; exact absurd hc hn1

/-- with `retries = n` the loop needs at most `n + 1` rounds -/
theorem iosLoop_terminates (env : Env) : ∀ (n : Nat) (s : St), s.mode = .run → s.ctr = n →
    (iter (n + 1) (exec iosWriteMemRound env) s).mode ≠ .diverge := by
  intro n
  induction n with
  | zero =>
    intro s hs hc
    simp only [iter, hs, if_true]
    have hl := leaves_mode iosWriteMemRound (by decide) env s hs
    have hd := noLoop_mode iosWriteMemRound (by decide) env s (by rw [hs]; decide)
    split
    · rename_i hcont
      have := (iosRound_cont env s hs hcont).1
      omega
    · rename_i hr; exact absurd hr hl
    · exact hd
  | succ n ih =>
    intro s hs hc
    have hl := leaves_mode iosWriteMemRound (by decide) env s hs
    have hd := noLoop_mode iosWriteMemRound (by decide) env s (by rw [hs]; decide)
    rw [iter]
    simp only [hs, if_true]
    split
    · rename_i hcont
      have h2 := (iosRound_cont env s hs hcont).2
      exact ih _ rfl (by simp only []; omega)
    · rename_i hr; exact absurd hr hl
    · exact hd

theorem exec_loopN (n : Nat) (b : Sess) (env : Env) (s : St) : exec (.loopN n b) env s = iter n (exec b env) s := by
  simp [exec]

theorem iosWriteMem_terminates (env : Env) (s : St) (hs : s.mode ≠ .diverge) :
    (exec iosWriteMem env s).mode ≠ .diverge := by
  by_cases hm : s.mode = .run
  · have hm' : (exec (.setCtr 2) env s).mode = .run := by simp [exec, hm]
    have hc' : (exec (.setCtr 2) env s).ctr = 2 := by simp [exec, hm]
    rw [iosWriteMem, iosWriteMemBody_eq, exec_call _ _ _ _ _ hm, exec_seq, exec_loopN]
    generalize exec (.setCtr 2) env s = s0 at hm' hc'
    have := iosLoop_terminates env 2 s0 hm' hc'
    split
    · simp
    · exact this
  · rw [exec_nonrun _ _ _ hm]; exact hs

/-- `noLoop` with exceptions: loops proved to terminate separately -/
def noLoopB (bl : List Sess) : Sess → Bool
  | .loopN n b => bl.contains (.loopN n b)
  | .loopFuel b => bl.contains (.loopFuel b)
  | .ite _ _ t e => noLoopB bl t && noLoopB bl e
  | .seq a b => noLoopB bl a && noLoopB bl b
  | .forEach b => noLoopB bl b
  | .defer c b => noLoopB bl c && noLoopB bl b
  | .call n l b => bl.contains (.call n l b) || noLoopB bl b
  | .scope _ b => noLoopB bl b
  | .when _ b => noLoopB bl b
  | _ => true

theorem noLoopB_mode (bl : List Sess) (hbl : ∀ q ∈ bl, ∀ env s, s.mode ≠ .diverge → (exec q env s).mode ≠ .diverge)
    (p : Sess) (hq : noLoopB bl p = true) :
    ∀ (env : Env) (s : St), s.mode ≠ .diverge → (exec p env s).mode ≠ .diverge := by
  induction p with
  | loopN n b _ => intro env s h; exact hbl _ (by simpa [noLoopB] using hq) env s h
  | loopFuel b _ => intro env s h; exact hbl _ (by simpa [noLoopB] using hq) env s h
  | ite c l t e iht ihe =>
    intro env s h
    simp only [noLoopB, Bool.and_eq_true] at hq
    simp only [exec]
    split
    · split
      · exact iht hq.1 env s h
      · exact ihe hq.2 env s h
    · exact h
  | seq a b iha ihb =>
    intro env s h
    simp only [noLoopB, Bool.and_eq_true] at hq
    simp only [exec]
    exact ihb hq.2 env _ (iha hq.1 env s h)
  | forEach b ih =>
    intro env s h
    simp only [exec]
    split
    · exact each_mode_ne _ _ (fun pk st hst => ih hq _ st hst) _ _ h
    · exact h
  | defer c b ihc ihb =>
    intro env s h
    simp only [noLoopB, Bool.and_eq_true] at hq
    simp only [exec]
    split
    · split
      · rename_i hd; exact absurd hd (ihb hq.2 env s h)
      · split
        · exact ihb hq.2 env s h
        · exact ihc hq.1 env _ (by simp)
    · exact h
  | call n l b ih =>
    intro env s h
    simp only [noLoopB, Bool.or_eq_true] at hq
    rcases hq with hq | hq
    · exact hbl _ (by simpa using hq) env s h
    · simp only [exec]
      split
      · split
        · simp
        · exact ih hq env s h
      · exact h
  | scope c b ih => intro env s h; simp only [exec]; exact ih hq env s h
  | «when» c b ih =>
    intro env s h
    simp only [exec]
    split
    · split
      · exact ih hq env s h
      · exact h
    · exact h
  | recv ρ p =>
    intro env s h
    simp only [exec]
    split
    · rw [recvLoop_mode]; exact h
    · exact h
  | roundTrip ρ t r =>
    intro env s h
    simp only [exec]
    split
    · split
      · rw [recvLoop_mode]; simp only []; rw [recvLoop_mode]; simpa using h
      · rw [recvLoop_mode]; simpa using h
    · exact h
  | _ =>
    intro env s h
    simp only [exec]
    first | exact h | (split <;> simp_all)

set_option maxRecDepth 100000 in
/-- IOS: the run always ends (the retry loop of `write memory` is bounded by `retries = 2`). -/
theorem run_terminates_ios (env : Env) : (runProg .ios env).mode ≠ .diverge := by
  unfold runProg
  refine noLoopB_mode [iosWriteMem] ?_ _ (by decide) env _ (by simp)
  intro q hq env s hs
  simp only [List.mem_cons, List.mem_nil_iff, or_false] at hq
  subst hq
  exact iosWriteMem_terminates env s hs

end NA.C09
