import NA.Model.PanOs
import NA.Spec.PanOsOrder
/-
C03, rule order: the deletes of the first loop of `diffRules` followed by the deferred
`set` + `move … before <next surviving rule>` of the second loop turn the device's list of rule
names into the list the target asks for — for every edit script that is valid and normalised,
for any number of rules.  Core Lean only.
-/
namespace NA.PanOs

/-! ### The order operations the two loops emit -/

def insOpsOfGroup (b : List String) (g : InsGroup) : List OrdOp :=
  (b.extract g.lowB g.highB).flatMap (fun n =>
    OrdOp.app n :: (match g.anchor with | some d => [OrdOp.mv n d] | none => []))

def insOps (b : List String) (gs : List InsGroup) : List OrdOp := gs.flatMap (insOpsOfGroup b)

/-- All order-relevant requests of `diffRules` for device names `a`, new names `b`, script `rs`. -/
def orderOps (a b : List String) (rs : List Range) : List OrdOp :=
  (delNamesOf a rs).map OrdOp.del ++ insOps b (insGroupsFrom a 0 rs)

/-- Names inserted by the script. -/
def insertedOf (b : List String) : List Range → List String
  | [] => []
  | r :: rs =>
    match r.kind with
    | .ins => b.extract r.lowB r.highB ++ insertedOf b rs
    | _ => insertedOf b rs

/-! ### Running order operations -/

theorem runOrd_append (l : List String) (o₁ o₂ : List OrdOp) :
    runOrd l (o₁ ++ o₂) = (runOrd l o₁).bind (fun l' => runOrd l' o₂) := by
  induction o₁ generalizing l with
  | nil => simp [runOrd]
  | cons o os ih =>
    simp only [List.cons_append, runOrd]
    cases applyOrd l o with
    | none => simp
    | some l' => simp [ih]

theorem filter_ne_mid (P T : List String) (s : String) (h : (P ++ s :: T).Nodup) :
    (P ++ s :: T).filter (· != s) = P ++ T := by
  rw [List.nodup_append] at h
  obtain ⟨_, hsT, hd⟩ := h
  rw [List.nodup_cons] at hsT
  have hP : P.filter (· != s) = P := by
    rw [List.filter_eq_self]
    intro a ha
    have := hd a ha s (by simp)
    simpa using this
  have hT : T.filter (· != s) = T := by
    rw [List.filter_eq_self]
    intro a ha
    have : a ≠ s := fun e => hsT.1 (e ▸ ha)
    simpa using this
  simp [List.filter_append, hP, hT]

/-- Deleting the names `S` one after the other. -/
theorem runOrd_dels (P S R : List String) (h : (P ++ S ++ R).Nodup) :
    runOrd (P ++ S ++ R) (S.map OrdOp.del) = some (P ++ R) := by
  induction S generalizing P with
  | nil => simp [runOrd]
  | cons s S ih =>
    have hc : (P ++ s :: S ++ R).contains s = true := by simp
    have hf : (P ++ s :: S ++ R).filter (· != s) = P ++ S ++ R := by
      have := filter_ne_mid P (S ++ R) s (by simpa [List.append_assoc] using h)
      simpa [List.append_assoc] using this
    simp only [List.map_cons, runOrd, applyOrd, hc, if_true, Option.bind_some, hf]
    apply ih
    have : (P ++ S ++ R).Sublist (P ++ s :: S ++ R) := by
      simp only [List.append_assoc]
      exact List.Sublist.append (List.Sublist.refl _) (List.sublist_cons_self _ _)
    exact this.nodup h

theorem insertBeforeName_append (P R : List String) (d n : String) (h : d ∉ P) :
    insertBeforeName d n (P ++ d :: R) = P ++ n :: d :: R := by
  induction P with
  | nil => simp [insertBeforeName]
  | cons p P ih =>
    have hp : (p == d) = false := by
      have : p ≠ d := fun e => h (by simp [e])
      simpa using this
    simp only [List.cons_append, insertBeforeName, hp]
    rw [ih (fun hm => h (by simp [hm]))]
    simp

/-- One insert group whose anchor `d` heads the rest of the list. -/
theorem runOrd_group_some (P R xs : List String) (d : String)
    (h : (P ++ d :: R ++ xs).Nodup) :
    runOrd (P ++ d :: R) (xs.flatMap (fun n => [OrdOp.app n, OrdOp.mv n d])) =
      some (P ++ xs ++ d :: R) := by
  induction xs generalizing P with
  | nil => simp [runOrd]
  | cons x xs ih =>
    have hnd := h
    rw [List.nodup_append] at hnd
    obtain ⟨hL, hX, hdis⟩ := hnd
    have hxL : x ∉ P ++ d :: R := fun hm => hdis x hm x (by simp) rfl
    have hc1 : (P ++ d :: R).contains x = false := by simpa using hxL
    have hc2 : (P ++ d :: R ++ [x]).contains x = true := by simp
    have hxd : (x == d) = false := by
      have : x ≠ d := fun e => hxL (by simp [e])
      simpa using this
    have hc3 : (P ++ d :: R ++ [x]).contains d = true := by simp
    have hf : (P ++ d :: R ++ [x]).filter (· != x) = P ++ d :: R := by
      have := filter_ne_mid (P ++ d :: R) [] x (by
        have : (P ++ d :: R ++ [x]).Sublist (P ++ d :: R ++ x :: xs) :=
          List.Sublist.append (List.Sublist.refl _) (by simp)
        exact this.nodup h)
      simpa using this
    have hdP : d ∉ P := by
      rw [List.nodup_append] at hL
      intro hm
      exact hL.2.2 d hm d (by simp) rfl
    simp only [List.flatMap_cons, List.cons_append, List.nil_append, runOrd, applyOrd, hc1, hc2, hc3, hxd,
      Bool.false_eq_true, if_false, Option.bind_some, Bool.not_true, hf, insertBeforeName_append P R d x hdP]
    have := ih (P ++ [x]) (by
      have hperm : (P ++ [x] ++ d :: R ++ xs).Nodup := by
        rw [List.nodup_append] at h ⊢
        obtain ⟨h1, h2, h3⟩ := h
        rw [List.nodup_cons] at h2
        refine ⟨?_, h2.2, ?_⟩
        · rw [List.nodup_append] at h1 ⊢
          obtain ⟨hP, hdR, hPdR⟩ := h1
          refine ⟨?_, hdR, ?_⟩
          · rw [List.nodup_append]
            refine ⟨hP, by simp, ?_⟩
            intro a ha b hb
            simp at hb
            subst hb
            intro e
            subst e
            exact hxL (by simp [ha])
          · intro a ha b hb
            rw [List.mem_append] at ha
            cases ha with
            | inl ha => exact hPdR a ha b hb
            | inr ha =>
              simp at ha
              subst ha
              intro e
              subst e
              exact hxL (by simp [List.mem_cons] at hb ⊢; exact Or.inr hb)
        · intro a ha b hb
          rw [List.mem_append, List.mem_append] at ha
          rcases ha with (ha | ha) | ha
          · exact h3 a (by simp [ha]) b (by simp [hb])
          · simp at ha
            subst ha
            intro e
            subst e
            exact h2.1 hb
          · exact h3 a (by simp [List.mem_cons] at ha ⊢; exact Or.inr ha) b (by simp [hb])
      exact hperm)
    simpa [List.append_assoc] using this

/-- One insert group that belongs at the end. -/
theorem runOrd_group_none (L xs : List String) (h : (L ++ xs).Nodup) :
    runOrd L (xs.flatMap (fun n => [OrdOp.app n])) = some (L ++ xs) := by
  induction xs generalizing L with
  | nil => simp [runOrd]
  | cons x xs ih =>
    have hx : x ∉ L := by
      rw [List.nodup_append] at h
      intro hm
      exact h.2.2 x hm x (by simp) rfl
    have hc : L.contains x = false := by simpa using hx
    simp only [List.flatMap_cons, List.cons_append, List.nil_append, runOrd, applyOrd, hc,
      Bool.false_eq_true, if_false, Option.bind_some]
    have := ih (L ++ [x]) (by simpa [List.append_assoc] using h)
    simpa [List.append_assoc] using this

end NA.PanOs

namespace NA.PanOs

/-! ### Reading `validFrom` and `normalised` -/

theorem validFrom_cons {eq : Nat → Nat → Bool} {n m x y : Nat} {r : Range} {rs : List Range}
    (h : validFrom eq n m x y (r :: rs) = true) :
    r.lowA = x ∧ r.lowB = y ∧ r.lowA ≤ r.highA ∧ r.lowB ≤ r.highB ∧ r.highA ≤ n ∧ r.highB ≤ m ∧
      validFrom eq n m r.highA r.highB rs = true := by
  simp only [validFrom, Bool.and_eq_true, beq_iff_eq, decide_eq_true_eq] at h
  obtain ⟨⟨⟨⟨⟨⟨⟨h1, h2⟩, h3⟩, h4⟩, h5⟩, h6⟩, _⟩, h8⟩ := h
  exact ⟨h1, h2, h3, h4, h5, h6, h8⟩

theorem validFrom_nil {eq : Nat → Nat → Bool} {n m x y : Nat}
    (h : validFrom eq n m x y [] = true) : x = n ∧ y = m := by
  simpa [validFrom] using h

theorem normalised_tail {p : Range} {rs : List Range} (h : normalised (p :: rs) = true) :
    normalised rs = true := by
  cases rs with
  | nil => rfl
  | cons c rs =>
    simp only [normalised, Bool.and_eq_true] at h
    exact h.2

/-- After an insert range comes a range that keeps at least one device rule. -/
theorem normalised_after_ins {p c : Range} {rs : List Range} (h : normalised (p :: c :: rs) = true)
    (hp : p.kind = .ins) : c.kind = .eq ∧ c.lowA ≠ c.highA := by
  simp only [normalised, Bool.and_eq_true] at h
  have h1 := h.1
  have hpop : p.op = .ins := by
    unfold Range.kind at hp
    unfold Range.op
    split at hp
    · cases hp
    · split at hp
      · rename_i hi; simp [hi]
      · cases hp
  rw [hpop] at h1
  have hc : c.op = .eq := by
    cases hco : c.op <;> simp [hco] at h1
    rfl
  unfold Range.op at hc
  unfold Range.kind
  split at hc
  · cases hc
  · split at hc
    · cases hc
    · rename_i hni hnd
      simp only [Range.isInsert, beq_iff_eq] at hni
      simp [hnd, hni, Range.isInsert]

theorem extract_cons_of_lt (a : List String) (x hi : Nat) (h1 : x < hi) (h2 : hi ≤ a.length) :
    ∃ rest, a.extract x hi = a[x]'(by omega) :: rest ∧ a[x]? = some (a[x]'(by omega)) := by
  have hx : x < a.length := by omega
  refine ⟨(a.drop (x + 1)).take (hi - x - 1), ?_, List.getElem?_eq_getElem hx⟩
  simp only [List.extract]
  rw [List.drop_eq_getElem_cons hx]
  obtain ⟨k, hk⟩ : ∃ k, hi - x = k + 1 := ⟨hi - x - 1, by omega⟩
  rw [hk, List.take_succ_cons]
  simp

theorem drop_split (a : List String) (x hi : Nat) (h1 : x ≤ hi) :
    a.drop x = a.extract x hi ++ a.drop hi := by
  simp only [List.extract]
  have : a.drop hi = (a.drop x).drop (hi - x) := by
    rw [List.drop_drop]; congr 1; omega
  rw [this, List.take_append_drop]

/-! ### Sublists (for `Nodup`) -/

theorem survivors_sublist {eq : Nat → Nat → Bool} (a : List String) {n m : Nat} :
    ∀ (rs : List Range) (x y : Nat), validFrom eq n m x y rs = true →
      (survivors a rs).Sublist (a.drop x) := by
  intro rs
  induction rs with
  | nil => intro x y _; simp [survivors]
  | cons r rs ih =>
    intro x y h
    obtain ⟨h1, h2, h3, h4, h5, h6, h7⟩ := validFrom_cons h
    have ih' := ih r.highA r.highB h7
    have hsub : (a.drop r.highA).Sublist (a.drop x) := by
      rw [drop_split a x r.highA (by omega)]
      exact List.sublist_append_right _ _
    simp only [survivors]
    split
    · rw [drop_split a x r.highA (by omega), ← h1]
      exact List.Sublist.append (List.Sublist.refl _) ih'
    · exact ih'.trans hsub

theorem insertedOf_sublist {eq : Nat → Nat → Bool} (b : List String) {n m : Nat} :
    ∀ (rs : List Range) (x y : Nat), validFrom eq n m x y rs = true →
      (insertedOf b rs).Sublist (b.drop y) := by
  intro rs
  induction rs with
  | nil => intro x y _; simp [insertedOf]
  | cons r rs ih =>
    intro x y h
    obtain ⟨h1, h2, h3, h4, h5, h6, h7⟩ := validFrom_cons h
    have ih' := ih r.highA r.highB h7
    have hsub : (b.drop r.highB).Sublist (b.drop y) := by
      rw [drop_split b y r.highB (by omega)]
      exact List.sublist_append_right _ _
    simp only [insertedOf]
    split
    · rw [drop_split b y r.highB (by omega), ← h2]
      exact List.Sublist.append (List.Sublist.refl _) ih'
    · exact ih'.trans hsub

end NA.PanOs

namespace NA.PanOs

/-! ### First loop: the deletes leave the survivors -/

theorem phase1_deletes {eq : Nat → Nat → Bool} (a : List String) {m : Nat} :
    ∀ (rs : List Range) (x y : Nat) (P : List String),
      validFrom eq a.length m x y rs = true → (P ++ a.drop x).Nodup →
      runOrd (P ++ a.drop x) ((delNamesOf a rs).map OrdOp.del) = some (P ++ survivors a rs) := by
  intro rs
  induction rs with
  | nil =>
    intro x y P h _
    obtain ⟨hx, _⟩ := validFrom_nil h
    simp [delNamesOf, survivors, runOrd, hx]
  | cons r rs ih =>
    intro x y P h hnd
    obtain ⟨h1, h2, h3, h4, h5, h6, h7⟩ := validFrom_cons h
    subst h1
    have hsplit := drop_split a r.lowA r.highA (by omega)
    cases hk : r.kind with
    | del =>
      simp only [delNamesOf, survivors, hk, List.map_append]
      rw [runOrd_append]
      have hd := runOrd_dels P (a.extract r.lowA r.highA) (a.drop r.highA) (by
        rw [List.append_assoc, ← hsplit]; exact hnd)
      rw [List.append_assoc, ← hsplit] at hd
      rw [hd]
      simp only [Option.bind_some]
      apply ih r.highA r.highB P h7
      have : (P ++ a.drop r.highA).Sublist (P ++ a.drop r.lowA) := by
        rw [hsplit]
        exact List.Sublist.append (List.Sublist.refl _) (List.sublist_append_right _ _)
      exact this.nodup hnd
    | ins =>
      simp only [delNamesOf, survivors, hk]
      have hi : r.lowA = r.highA := by
        unfold Range.kind at hk
        split at hk
        · cases hk
        · split at hk
          · rename_i hi; simpa [Range.isInsert] using hi
          · cases hk
      have := ih r.highA r.highB P h7 (by rw [← hi]; exact hnd)
      rw [← hi] at this
      exact this
    | eq =>
      simp only [delNamesOf, survivors, hk]
      have := ih r.highA r.highB (P ++ a.extract r.lowA r.highA) h7 (by
        rw [List.append_assoc, ← hsplit]; exact hnd)
      rw [List.append_assoc, ← hsplit] at this
      rw [this]
      simp [List.append_assoc]

/-! ### Second loop: set + move before the next surviving rule -/

theorem kind_ins_lowA {r : Range} (hk : r.kind = .ins) : r.lowA = r.highA ∧ r.lowB ≠ r.highB := by
  unfold Range.kind at hk
  split at hk
  · cases hk
  · rename_i hd
    split at hk
    · rename_i hi
      exact ⟨by simpa [Range.isInsert] using hi, by simpa [Range.isDelete] using hd⟩
    · cases hk

theorem phase2_inserts {eq : Nat → Nat → Bool} (a b : List String) :
    ∀ (rs : List Range) (x y d : Nat) (P : List String),
      validFrom eq a.length b.length x y rs = true → normalised rs = true → d ≤ x →
      (P ++ (survivors a rs ++ insertedOf b rs)).Nodup →
      runOrd (P ++ survivors a rs) (insOps b (insGroupsFrom a d rs)) =
        some (P ++ targetOrder a b rs) := by
  intro rs
  induction rs with
  | nil =>
    intro x y d P _ _ _ _
    simp [survivors, insGroupsFrom, insOps, targetOrder, runOrd]
  | cons r rs ih =>
    intro x y d P h hn hd hnd
    obtain ⟨h1, h2, h3, h4, h5, h6, h7⟩ := validFrom_cons h
    have hn' := normalised_tail hn
    cases hk : r.kind with
    | del =>
      simp only [survivors, insGroupsFrom, targetOrder, insertedOf, hk] at hnd ⊢
      exact ih r.highA r.highB r.highA P h7 hn' (Nat.le_refl _) hnd
    | eq =>
      simp only [survivors, insGroupsFrom, targetOrder, insertedOf, hk] at hnd ⊢
      have := ih r.highA r.highB d (P ++ a.extract r.lowA r.highA) h7 hn' (by omega) (by
        simpa [List.append_assoc] using hnd)
      simpa [List.append_assoc] using this
    | ins =>
      obtain ⟨hi, _⟩ := kind_ins_lowA hk
      have hmax : max r.lowA d = r.lowA := Nat.max_eq_left (by omega)
      simp only [survivors, insGroupsFrom, targetOrder, insertedOf, hk, hmax] at hnd ⊢
      simp only [insOps, List.flatMap_cons]
      rw [runOrd_append]
      -- the state after this group
      have hgoal : runOrd (P ++ survivors a rs)
          (insOpsOfGroup b ⟨a[r.lowA]?, r.lowB, r.highB⟩) =
          some (P ++ b.extract r.lowB r.highB ++ survivors a rs) := by
        cases rs with
        | nil =>
          obtain ⟨hx, _⟩ := validFrom_nil h7
          have hnone : a[r.lowA]? = none := by
            rw [hi, hx]; simp
          simp only [insOpsOfGroup, hnone, survivors, List.append_nil]
          exact runOrd_group_none P _ (by
            have : (P ++ b.extract r.lowB r.highB).Sublist
                (P ++ (survivors a [] ++ (b.extract r.lowB r.highB ++ insertedOf b []))) := by
              simp [survivors, insertedOf]
            exact this.nodup hnd)
        | cons c rs' =>
          obtain ⟨hck, hcne⟩ := normalised_after_ins hn hk
          obtain ⟨c1, _, c3, _, c5, _, _⟩ := validFrom_cons h7
          obtain ⟨rest, hex, hget⟩ := extract_cons_of_lt a c.lowA c.highA (by omega) c5
          have hlow : r.lowA = c.lowA := by omega
          have hsurv : survivors a (c :: rs') = a[c.lowA]'(by omega) :: (rest ++ survivors a rs') := by
            simp [survivors, hck, hex]
          rw [hlow, hget, hsurv]
          simp only [insOpsOfGroup]
          have := runOrd_group_some P (rest ++ survivors a rs') (b.extract r.lowB r.highB)
            (a[c.lowA]'(by omega)) (by
              rw [hsurv] at hnd
              have hsub : (P ++ a[c.lowA]'(by omega) :: (rest ++ survivors a rs') ++ b.extract r.lowB r.highB).Sublist
                  (P ++ (a[c.lowA]'(by omega) :: (rest ++ survivors a rs') ++
                    (b.extract r.lowB r.highB ++ insertedOf b (c :: rs')))) := by
                rw [List.append_assoc]
                refine List.Sublist.append (List.Sublist.refl _) ?_
                refine List.Sublist.append (List.Sublist.refl _) ?_
                exact List.sublist_append_left _ _
              exact hsub.nodup hnd)
          simpa using this
      rw [hgoal]
      simp only [Option.bind_some]
      have := ih r.highA r.highB d (P ++ b.extract r.lowB r.highB) h7 hn' (by omega) (by
        have hperm : (P ++ (survivors a rs ++ (b.extract r.lowB r.highB ++ insertedOf b rs))).Perm
            (P ++ b.extract r.lowB r.highB ++ (survivors a rs ++ insertedOf b rs)) := by
          rw [List.append_assoc]
          exact List.Perm.append_left P (List.perm_append_comm_assoc _ _ _)
        exact hperm.nodup hnd)
      simpa [List.append_assoc, insOps] using this

end NA.PanOs

namespace NA.PanOs

/-- **Rule order.**  For every script `myers.Diff` may return (valid and normalised, or the
nothing-in-common script), device rule names `a` and pairwise distinct fresh names `b` for the
target's rules: every order-relevant request `diffRules` emits is accepted, and the device's
rule sequence becomes the target's. -/
theorem order_converges {eq : Nat → Nat → Bool} (a b : List String) (rs : List Range)
    (hv : validScript eq a.length b.length rs = true) (hn : normalised rs = true)
    (hnd : (a ++ b).Nodup) :
    runOrd a (orderOps a b rs) = some (targetOrder a b rs) := by
  unfold validScript at hv
  rw [Bool.or_eq_true] at hv
  rcases hv with hv | hv
  · unfold orderOps
    rw [runOrd_append]
    have hna : a.Nodup := (List.sublist_append_left a b).nodup hnd
    have h1 := phase1_deletes (eq := eq) a rs 0 0 [] hv (by simpa using hna)
    simp only [List.drop_zero, List.nil_append] at h1
    rw [h1]
    simp only [Option.bind_some]
    have hs := survivors_sublist (eq := eq) a rs 0 0 hv
    have hi := insertedOf_sublist (eq := eq) b rs 0 0 hv
    simp only [List.drop_zero] at hs hi
    have h2 := phase2_inserts (eq := eq) a b rs 0 0 0 [] hv hn (Nat.le_refl _) (by
      simpa using (List.Sublist.append hs hi).nodup hnd)
    simpa using h2
  · simp only [Bool.and_eq_true, decide_eq_true_eq, beq_iff_eq] at hv
    obtain ⟨⟨hn0, hm0⟩, hrs⟩ := hv
    subst hrs
    have hk1 : (⟨0, a.length, 0, 0⟩ : Range).kind = .del := by simp [Range.kind, Range.isDelete]
    have hk2 : (⟨0, 0, 0, b.length⟩ : Range).kind = .ins := by
      have : (0 == b.length) = false := by
        have : 0 ≠ b.length := by omega
        simpa using this
      simp [Range.kind, Range.isDelete, Range.isInsert, this]
    have hea : a.extract 0 a.length = a := by simp [List.extract]
    have heb : b.extract 0 b.length = b := by simp [List.extract]
    have hnone : a[max 0 a.length]? = none := by simp
    unfold orderOps
    simp only [nothingCommon, delNamesOf, insGroupsFrom, targetOrder, hk1, hk2, hea, heb, hnone,
      List.append_nil, insOps, List.flatMap_cons, List.flatMap_nil, insOpsOfGroup]
    rw [runOrd_append]
    have hna : a.Nodup := (List.sublist_append_left a b).nodup hnd
    have h1 := runOrd_dels [] a [] (by simpa using hna)
    simp only [List.nil_append, List.append_nil] at h1
    rw [h1]
    simp only [Option.bind_some]
    have hnb : b.Nodup := (List.sublist_append_right a b).nodup hnd
    have h2 := runOrd_group_none [] b (by simpa using hnb)
    simpa using h2

/-- The new sequence has one entry per target rule. -/
theorem targetOrder_length {eq : Nat → Nat → Bool} (a b : List String) :
    ∀ (rs : List Range) (x y : Nat), validFrom eq a.length b.length x y rs = true →
      (targetOrder a b rs).length = b.length - y := by
  intro rs
  induction rs with
  | nil =>
    intro x y h
    obtain ⟨_, hy⟩ := validFrom_nil h
    simp [targetOrder, hy]
  | cons r rs ih =>
    intro x y h
    have hfull := h
    obtain ⟨h1, h2, h3, h4, h5, h6, h7⟩ := validFrom_cons h
    have ih' := ih r.highA r.highB h7
    simp only [validFrom, Bool.and_eq_true, Bool.or_eq_true, beq_iff_eq, decide_eq_true_eq] at hfull
    have hkind := hfull.1.2
    cases hk : r.kind with
    | del =>
      have : r.lowB = r.highB := by
        unfold Range.kind at hk
        split at hk
        · rename_i hd; simpa [Range.isDelete] using hd
        · split at hk <;> cases hk
      simp only [targetOrder, hk, ih']
      omega
    | ins =>
      simp only [targetOrder, hk, List.length_append, ih', List.extract, List.length_take, List.length_drop]
      omega
    | eq =>
      have hlen : r.highB - r.lowB = r.highA - r.lowA := by
        unfold Range.kind at hk
        split at hk
        · cases hk
        · rename_i hd
          split at hk
          · cases hk
          · rename_i hi
            rcases hkind with (hkind | hkind) | hkind
            · exact absurd hkind hi
            · exact absurd hkind hd
            · exact hkind.1
      simp only [targetOrder, hk, List.length_append, ih', List.extract, List.length_take, List.length_drop]
      omega

end NA.PanOs

namespace NA.PanOs

/-! ### Identity scripts, and `Nodup` along the way -/

theorem delNamesOf_identity (a : List String) : ∀ (rs : List Range), (∀ r ∈ rs, r.kind = .eq) →
    delNamesOf a rs = [] := by
  intro rs
  induction rs with
  | nil => intro _; rfl
  | cons r rs ih =>
    intro h
    simp only [delNamesOf, h r (by simp)]
    exact ih (fun r' hr' => h r' (List.mem_cons_of_mem _ hr'))

theorem insGroupsFrom_identity (a : List String) : ∀ (rs : List Range) (d : Nat), (∀ r ∈ rs, r.kind = .eq) →
    insGroupsFrom a d rs = [] := by
  intro rs
  induction rs with
  | nil => intro d _; rfl
  | cons r rs ih =>
    intro d h
    simp only [insGroupsFrom, h r (by simp)]
    exact ih d (fun r' hr' => h r' (List.mem_cons_of_mem _ hr'))

theorem orderOps_identity (a b : List String) (rs : List Range) (h : ∀ r ∈ rs, r.kind = .eq) :
    orderOps a b rs = [] := by
  unfold orderOps
  simp [delNamesOf_identity a rs h, insGroupsFrom_identity a rs 0 h, insOps]

theorem insertBeforeName_perm (d n : String) (l : List String) :
    (insertBeforeName d n l).Perm (n :: l) := by
  induction l with
  | nil => simp [insertBeforeName]
  | cons x xs ih =>
    simp only [insertBeforeName]
    split
    · exact List.Perm.refl _
    · exact (List.Perm.cons x ih).trans (List.Perm.swap n x xs)

/-- An accepted order operation keeps the rule names pairwise distinct. -/
theorem applyOrd_nodup {l l' : List String} {o : OrdOp} (h : applyOrd l o = some l') (hl : l.Nodup) :
    l'.Nodup := by
  cases o with
  | del n =>
    simp only [applyOrd] at h
    split at h
    · cases h; exact (List.filter_sublist).nodup hl
    · cases h
  | app n =>
    simp only [applyOrd] at h
    split at h
    · cases h
    · rename_i hc
      cases h
      rw [List.nodup_append]
      refine ⟨hl, by simp, ?_⟩
      intro a ha b hb e
      simp at hb
      subst hb; subst e
      exact hc (by simpa using ha)
  | mv n d =>
    simp only [applyOrd] at h
    split at h
    · cases h
    · split at h
      · cases h
      · split at h
        · cases h
        · cases h
          refine (insertBeforeName_perm d n _).symm.nodup ?_
          rw [List.nodup_cons]
          exact ⟨by simp [List.mem_filter], (List.filter_sublist).nodup hl⟩

theorem runOrd_nodup : ∀ (os : List OrdOp) (l l' : List String), runOrd l os = some l' → l.Nodup → l'.Nodup := by
  intro os
  induction os with
  | nil => intro l l' h hl; simp only [runOrd, Option.some.injEq] at h; subst h; exact hl
  | cons o os ih =>
    intro l l' h hl
    simp only [runOrd] at h
    cases ho : applyOrd l o with
    | none => simp [ho] at h
    | some l1 =>
      simp only [ho, Option.bind_some] at h
      exact ih l1 l' h (applyOrd_nodup ho hl)

/-- Every prefix of an applicable sequence of order operations is applicable. -/
theorem runOrd_take : ∀ (os : List OrdOp) (l t : List String) (k : Nat), runOrd l os = some t →
    ∃ l', runOrd l (os.take k) = some l' := by
  intro os
  induction os with
  | nil => intro l t k h; exact ⟨l, by simp [runOrd]⟩
  | cons o os ih =>
    intro l t k h
    cases k with
    | zero => exact ⟨l, by simp [runOrd]⟩
    | succ k =>
      simp only [runOrd] at h
      cases ho : applyOrd l o with
      | none => simp [ho] at h
      | some l1 =>
        simp only [ho, Option.bind_some] at h
        obtain ⟨l', hl'⟩ := ih l1 t k h
        exact ⟨l', by simp [runOrd, ho, hl']⟩

end NA.PanOs
