import NA.Proofs.VpnGraphCleanup
/-!
Frame (C07), device side: which object a command of the change list modifies is determined by the
list alone (`targets`: the mode a sub-command lands in is the one opened by the preceding top-level
command); a strict device that accepts the list leaves every other object as it was.
-/
namespace NA.Vpn.G

/-- the mode after a command (what `exec1` does to `mode`, when it accepts) -/
def modeStep (m : Mode) : Chg → Mode
  | .exit => none
  | .sec false k n h md => if md then some (k, n, h) else none
  | .sec true _ _ _ _ => none
  | .sub _ _ _ _ _ => m
  | .line _ _ => none
  | .pool _ _ _ => none
  | .clear _ _ => none

/-- the object a command defines, changes or removes -/
def targetOf (m : Mode) : Chg → Option Ref
  | .exit => none
  | .sec _ k n _ _ => some (k, n)
  | .sub _ _ _ _ _ => m.map fun x => (x.1, x.2.1)
  | .line n _ => some (.acl, n)
  | .pool _ n _ => some (.pool, n)
  | .clear k n => some (k, n)

def modeAfter : Mode → List Chg → Mode
  | m, [] => m
  | m, c :: cs => modeAfter (modeStep m c) cs

def targets : Mode → List Chg → List Ref
  | _, [] => []
  | m, c :: cs => (targetOf m c).toList ++ targets (modeStep m c) cs

theorem modeAfter_append : ∀ (l1 l2 : List Chg) (m : Mode), modeAfter m (l1 ++ l2) = modeAfter (modeAfter m l1) l2
  | [], _, _ => rfl
  | c :: cs, l2, m => by simp only [List.cons_append, modeAfter]; exact modeAfter_append cs l2 _

theorem targets_append : ∀ (l1 l2 : List Chg) (m : Mode),
    targets m (l1 ++ l2) = targets m l1 ++ targets (modeAfter m l1) l2
  | [], _, _ => rfl
  | c :: cs, l2, m => by
    simp only [List.cons_append, targets, modeAfter, targets_append cs l2, List.append_assoc]

/-! ## lookups survive changes of other objects -/

theorem find?_map_ne (objs : List Obj) (r r' : Ref) (f : Obj → Obj) (hf : ∀ o, (f o).id = o.id) (h : r' ≠ r) :
    (objs.map fun o => if o.id == r then f o else o).find? (fun o => o.id == r') = objs.find? (fun o => o.id == r') := by
  induction objs with
  | nil => rfl
  | cons o os ih =>
    simp only [List.map_cons, List.find?_cons]
    by_cases ho : o.id = r
    · have h1 : (o.id == r) = true := by simpa using ho
      have h2 : ((f o).id == r') = false := by rw [hf, ho]; simpa using (fun e => h e.symm)
      have h3 : (o.id == r') = false := by rw [ho]; simpa using (fun e => h e.symm)
      simp only [h1, if_true, h2, h3, ih]
    · have h1 : (o.id == r) = false := by simpa using ho
      simp only [h1, Bool.false_eq_true, if_false, ih]

theorem find?_append_ne (objs : List Obj) (o : Obj) (r' : Ref) (h : o.id ≠ r') :
    (objs ++ [o]).find? (fun x => x.id == r') = objs.find? (fun x => x.id == r') := by
  rw [List.find?_append]
  have : ([o].find? fun x => x.id == r') = none := by
    simp only [List.find?_cons, List.find?_nil]
    have : (o.id == r') = false := by simpa using h
    simp [this]
  rw [this]; simp

theorem modObj_obj_ne (d : Dev) (r r' : Ref) (f : Obj → Obj) (hf : ∀ o, (f o).id = o.id) (h : r' ≠ r) :
    (d.modObj r f).obj r' = d.obj r' := find?_map_ne d.objs r r' f hf h

/-- **One accepted command changes only its target** (and moves the mode as `modeStep` says). -/
theorem exec1_frame (d d' : Dev) (c : Chg) (h : exec1 d c = some d') :
    d'.mode = modeStep d.mode c ∧ ∀ r, targetOf d.mode c ≠ some r → d'.obj r = d.obj r := by
  cases c with
  | exit =>
    simp only [exec1] at h
    split at h
    · cases h; exact ⟨rfl, fun _ _ => rfl⟩
    · cases h
  | sec no k n hd md =>
    cases no with
    | false =>
      simp only [exec1] at h
      split at h
      · split at h
        · split at h
          · cases h
          · split at h
            · cases h; exact ⟨rfl, fun _ _ => rfl⟩
            · split at h
              · cases h
              · cases h
                refine ⟨rfl, ?_⟩
                intro r hr
                exact modObj_obj_ne d (k, n) r _ (fun _ => rfl) (fun e => hr (by rw [e]; rfl))
        · cases h
          refine ⟨rfl, ?_⟩
          intro r hr
          exact find?_append_ne d.objs _ r (fun e => hr (by rw [← e]; rfl))
      · split at h
        · cases h
        · cases h
          refine ⟨rfl, ?_⟩
          intro r hr
          show Dev.obj (if _ then d else _) r = d.obj r
          split
          · rfl
          · exact modObj_obj_ne d (k, n) r _ (fun _ => rfl) (fun e => hr (by rw [e]; rfl))
    | true =>
      simp only [exec1] at h
      split at h
      · cases h
      · split at h
        · cases h
          refine ⟨rfl, ?_⟩
          intro r hr
          exact modObj_obj_ne d (k, n) r _ (fun _ => rfl) (fun e => hr (by rw [e]; rfl))
        · cases h
  | sub no t ref key body =>
    cases hm : d.mode with
    | none => cases no <;> simp [exec1, hm] at h
    | some m =>
      obtain ⟨k, n, hd⟩ := m
      cases no with
      | false =>
        simp only [exec1, hm] at h
        split at h
        · cases h
          refine ⟨hm, ?_⟩
          intro r hr
          exact modObj_obj_ne d (k, n) r _ (fun _ => rfl) (fun e => hr (by simp [targetOf, e]))
        · cases h
      | true =>
        simp only [exec1, hm] at h
        split at h
        · cases h
          refine ⟨hm, ?_⟩
          intro r hr
          exact modObj_obj_ne d (k, n) r _ (fun _ => rfl) (fun e => hr (by simp [targetOf, e]))
        · cases h
  | line n t =>
    simp only [exec1] at h
    split at h
    · split at h
      · cases h
      · cases h
        refine ⟨rfl, ?_⟩
        intro r hr
        exact modObj_obj_ne d (.acl, n) r _ (fun _ => rfl) (fun e => hr (by rw [e]; rfl))
    · cases h
      refine ⟨rfl, ?_⟩
      intro r hr
      exact find?_append_ne d.objs _ r (fun e => hr (by rw [← e]; rfl))
  | pool no n c =>
    cases no with
    | false =>
      simp only [exec1] at h
      split at h
      · cases h
      · cases h
        refine ⟨rfl, ?_⟩
        intro r hr
        exact find?_append_ne d.objs _ r (fun e => hr (by rw [← e]; rfl))
    | true =>
      simp only [exec1] at h
      split at h
      · cases h
        refine ⟨rfl, ?_⟩
        intro r hr
        exact find?_filter_ne d.objs (.pool, n) r (fun e => hr (by rw [e]; rfl))
      · cases h
  | clear k n =>
    simp only [exec1] at h
    split at h
    · cases h
      refine ⟨rfl, ?_⟩
      intro r hr
      exact find?_filter_ne d.objs (k, n) r (fun e => hr (by rw [e]; rfl))
    · cases h

/-- **An accepted change list changes only its targets.** -/
theorem execAll_frame : ∀ (l : List Chg) (d d' : Dev), execAll d l = some d' →
    d'.mode = modeAfter d.mode l ∧ ∀ r, r ∉ targets d.mode l → d'.obj r = d.obj r
  | [], d, d', h => by cases h; exact ⟨rfl, fun _ _ => rfl⟩
  | c :: cs, d, d', h => by
    simp only [execAll] at h
    cases h1 : exec1 d c with
    | none => rw [h1] at h; cases h
    | some d1 =>
      rw [h1] at h
      simp only [Option.bind_some] at h
      have f1 := exec1_frame d d1 c h1
      have f2 := execAll_frame cs d1 d' h
      refine ⟨by rw [f2.1, f1.1]; rfl, ?_⟩
      intro r hr
      simp only [targets, List.mem_append] at hr
      rw [f2.2 r (by rw [f1.1]; exact fun hm => hr (Or.inr hm))]
      exact f1.2 r (fun e => hr (Or.inl (by rw [e]; simp)))

end NA.Vpn.G
