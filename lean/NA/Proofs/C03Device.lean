import NA.Proofs.C03Idem
/-
C03 / C07, whole-device theorems, part 19: a device with several vsys.  The plan of `GetChanges`
is a list of (vsys name, requests); executing it on the device changes exactly the vsys the
target names, each into what its own plan makes of it.  Core Lean only.
-/
namespace NA.PanOs

theorem exec_name {sh : Shared} {v v' : Vsys} {c : Cmd} (h : exec sh v c = .ok v') : v'.name = v.name := by
  cases c
  all_goals
    simp only [exec] at h
    repeat' split at h
    all_goals first
      | (simp at h; done)
      | (simp only [Except.ok.injEq] at h; subst h; rfl)

/-! ### Frame -/

theorem execDevCmds_frame {sh : Shared} {vs : String} : ∀ (cs : List Cmd) (d d' : Device),
    execDevCmds sh d vs cs = .ok d' →
    d'.length = d.length ∧ ∀ (i : Nat) (v : Vsys), d[i]? = some v → v.name ≠ vs → d'[i]? = some v := by
  intro cs
  induction cs with
  | nil => intro d d' h; simp only [execDevCmds, Except.ok.injEq] at h; subst h; exact ⟨rfl, fun _ _ h _ => h⟩
  | cons c cs ih =>
    intro d d' h
    simp only [execDevCmds] at h
    split at h
    · cases h
    · rename_i d1 h1
      obtain ⟨l1, f1⟩ := execDev_frame h1
      obtain ⟨l2, f2⟩ := ih d1 d' h
      exact ⟨l2.trans l1, fun i v hi hne => f2 i v (f1 i v hi hne) hne⟩

theorem execDevAll_frame {sh : Shared} : ∀ (l : List (String × List Cmd)) (d d' : Device),
    execDevAll sh d l = .ok d' →
    d'.length = d.length ∧
      ∀ (i : Nat) (v : Vsys), d[i]? = some v → (∀ p ∈ l, p.1 ≠ v.name) → d'[i]? = some v := by
  intro l
  induction l with
  | nil => intro d d' h; simp only [execDevAll, Except.ok.injEq] at h; subst h; exact ⟨rfl, fun _ _ h _ => h⟩
  | cons p ps ih =>
    intro d d' h
    simp only [execDevAll] at h
    split at h
    · cases h
    · rename_i d1 h1
      obtain ⟨l1, f1⟩ := execDevCmds_frame _ _ _ h1
      obtain ⟨l2, f2⟩ := ih d1 d' h
      refine ⟨l2.trans l1, fun i v hi hne => ?_⟩
      exact f2 i v (f1 i v hi (fun e => hne p (by simp) e.symm)) (fun q hq => hne q (List.mem_cons_of_mem _ hq))

/-! ### One vsys of a device with distinct vsys names -/

theorem mapM_set {sh : Shared} {c : Cmd} : ∀ (d : Device) (i : Nat) (v v' : Vsys),
    (d.map (·.name)).Nodup → d[i]? = some v → exec sh v c = .ok v' →
    d.mapM (fun x => if x.name == v.name then exec sh x c else Except.ok x) = .ok (d.set i v') := by
  intro d
  induction d with
  | nil => intro i v v' _ hi _; simp at hi
  | cons x xs ih =>
    intro i v v' hnd hi hx
    simp only [List.map_cons, List.nodup_cons] at hnd
    cases i with
    | zero =>
      simp only [List.getElem?_cons_zero, Option.some.injEq] at hi
      subst hi
      have hrest : xs.mapM (fun y => if y.name == x.name then exec sh y c else Except.ok y) = .ok xs := by
        have : ∀ (l : List Vsys), (∀ y ∈ l, y.name ≠ x.name) →
            l.mapM (fun y => if y.name == x.name then exec sh y c else Except.ok y) = .ok l := by
          intro l
          induction l with
          | nil => intro _; rfl
          | cons y ys ihl =>
            intro hne
            have hy : (y.name == x.name) = false := by simpa using hne y (by simp)
            simp only [List.mapM_cons, hy, Bool.false_eq_true, if_false, bind, Except.bind, pure, Except.pure]
            rw [ihl (fun z hz => hne z (List.mem_cons_of_mem _ hz))]
        exact this xs (fun y hy e => hnd.1 (e ▸ List.mem_map_of_mem hy))
      simp only [List.mapM_cons, beq_self_eq_true, if_true, hx, bind, Except.bind, pure, Except.pure, hrest,
        List.set_cons_zero]
    | succ i =>
      simp only [List.getElem?_cons_succ] at hi
      have hxv : (x.name == v.name) = false := by
        have : x.name ≠ v.name := fun e => hnd.1 (e ▸ List.mem_map_of_mem (List.mem_of_getElem? hi))
        simpa using this
      simp only [List.mapM_cons, hxv, Bool.false_eq_true, if_false, bind, Except.bind, pure, Except.pure,
        ih i v v' hnd.2 hi hx, List.set_cons_succ]

theorem execDev_set {sh : Shared} {c : Cmd} (d : Device) (i : Nat) (v v' : Vsys)
    (hnd : (d.map (·.name)).Nodup) (hi : d[i]? = some v) (hx : exec sh v c = .ok v') :
    execDev sh d v.name c = .ok (d.set i v') := by
  unfold execDev
  have hfind : (d.find? (·.name == v.name)).isSome := by
    rw [List.find?_isSome]
    exact ⟨v, List.mem_of_getElem? hi, by simp⟩
  split
  · rename_i h; rw [h] at hfind; cases hfind
  · exact mapM_set d i v v' hnd hi hx

theorem set_names (d : Device) (i : Nat) (v v' : Vsys) (hi : d[i]? = some v) (hn : v'.name = v.name) :
    (d.set i v').map (·.name) = d.map (·.name) := by
  rw [List.map_set]
  apply List.ext_getElem?
  intro j
  rw [List.getElem?_set]
  split
  · rename_i hij
    subst hij
    split
    · rw [List.getElem?_map, hi, hn]; rfl
    · rename_i hlt
      simp only [List.length_map] at hlt
      have := (List.getElem?_eq_some_iff.mp hi).1
      omega
  · rfl

theorem set_self (d : Device) (i : Nat) (v : Vsys) (hi : d[i]? = some v) : d.set i v = d := by
  apply List.ext_getElem?
  intro j
  rw [List.getElem?_set]
  split
  · rename_i h
    subst h
    split
    · exact hi.symm
    · have := (List.getElem?_eq_some_iff.mp hi).1
      omega
  · rfl

/-- **The requests of one vsys act on that vsys only, as on a stand-alone vsys.** -/
theorem execDevCmds_runs {sh : Shared} : ∀ (cs : List Cmd) (d : Device) (i : Nat) (v w : Vsys),
    (d.map (·.name)).Nodup → d[i]? = some v → Runs sh v cs w →
    execDevCmds sh d v.name cs = .ok (d.set i w) ∧ w.name = v.name := by
  intro cs
  induction cs with
  | nil =>
    intro d i v w _ hi hr
    unfold Runs at hr
    simp only [execAll, Prod.mk.injEq] at hr
    rw [← hr.1]
    refine ⟨?_, rfl⟩
    simp only [execDevCmds]
    rw [set_self d i v hi]
  | cons c cs ih =>
    intro d i v w hnd hi hr
    obtain ⟨v', h1, h2⟩ := Runs.of_append [c] cs v w hr
    cases hx : exec sh v c with
    | error e =>
      unfold Runs at h1
      rw [execAll_cons_err hx] at h1
      simp at h1
    | ok v1 =>
      have : v' = v1 := by
        unfold Runs at h1
        rw [execAll_cons_ok hx] at h1
        simp only [execAll, Prod.mk.injEq] at h1
        exact h1.1.symm
      subst this
      have hn := exec_name hx
      have hnd' : ((d.set i v').map (·.name)).Nodup := by rw [set_names d i v v' hi hn]; exact hnd
      have hi' : (d.set i v')[i]? = some v' := by
        rw [List.getElem?_set_self (List.getElem?_eq_some_iff.mp hi).1]
      obtain ⟨e1, e2⟩ := ih (d.set i v') i v' w hnd' hi' h2
      simp only [execDevCmds, execDev_set d i v v' hnd hi hx]
      rw [← hn, e1, List.set_set]
      exact ⟨rfl, e2⟩

/-! ### The whole plan of `GetChanges` on the whole device -/

/-- The entry of `planDevice` for one device vsys. -/
def devEntry (diff : Differ) (tgt : List Vsys) (v1 : Vsys) : Option (String × List Cmd) :=
  match vsysMap tgt v1.name with
  | none => none
  | some v2 =>
    let l := planVsys diff v1 v2
    if l.isEmpty then none else some (v2.name, l)

theorem runs_nil_eq {sh : Shared} {v w : Vsys} (h : Runs sh v [] w) : w = v := by
  unfold Runs at h
  simp only [execAll, Prod.mk.injEq] at h
  exact h.1.symm

theorem execDevAll_entries (sh : Shared) (diff : Differ) (tgt : List Vsys) :
    ∀ (rest : List Vsys) (k : Nat) (d : Device), (d.map (·.name)).Nodup →
    (∀ j v, rest[j]? = some v → d[k + j]? = some v) →
    (∀ v1 ∈ rest, ∀ v2, vsysMap tgt v1.name = some v2 → ∃ w, Runs sh v1 (planVsys diff v1 v2) w) →
    ∃ d', execDevAll sh d (rest.filterMap (devEntry diff tgt)) = .ok d' ∧ d'.length = d.length ∧
      (∀ i, i < k → d'[i]? = d[i]?) ∧
      ∀ j v1, rest[j]? = some v1 →
        (vsysMap tgt v1.name = none → d'[k + j]? = some v1) ∧
        (∀ v2, vsysMap tgt v1.name = some v2 →
          ∃ w, d'[k + j]? = some w ∧ Runs sh v1 (planVsys diff v1 v2) w) := by
  intro rest
  induction rest with
  | nil =>
    intro k d _ _ _
    exact ⟨d, rfl, rfl, fun _ _ => rfl, fun j v h => by simp at h⟩
  | cons v1 rest ih =>
    intro k d hnd hidx H
    have hk : d[k]? = some v1 := by simpa using hidx 0 v1 (by simp)
    have hidx' : ∀ (d1 : Device), (∀ i, i ≠ k → d1[i]? = d[i]?) →
        ∀ j v, rest[j]? = some v → d1[k + 1 + j]? = some v := by
      intro d1 hd1 j v hj
      rw [hd1 _ (by omega)]
      have := hidx (j + 1) v (by simpa using hj)
      rw [show k + 1 + j = k + (j + 1) by omega]
      exact this
    have H' : ∀ v ∈ rest, ∀ v2, vsysMap tgt v.name = some v2 → ∃ w, Runs sh v (planVsys diff v v2) w :=
      fun v hv => H v (List.mem_cons_of_mem _ hv)
    -- the case where nothing is executed for `v1`
    have skip : devEntry diff tgt v1 = none →
        ((vsysMap tgt v1.name = none → True) ∧
          (∀ v2, vsysMap tgt v1.name = some v2 → Runs sh v1 (planVsys diff v1 v2) v1)) →
        ∃ d', execDevAll sh d ((v1 :: rest).filterMap (devEntry diff tgt)) = .ok d' ∧ d'.length = d.length ∧
          (∀ i, i < k → d'[i]? = d[i]?) ∧
          ∀ j v, (v1 :: rest)[j]? = some v →
            (vsysMap tgt v.name = none → d'[k + j]? = some v) ∧
            (∀ v2, vsysMap tgt v.name = some v2 →
              ∃ w, d'[k + j]? = some w ∧ Runs sh v (planVsys diff v v2) w) := by
      intro hnone hruns
      obtain ⟨d', e1, e2, e3, e4⟩ := ih (k + 1) d hnd (hidx' d (fun _ _ => rfl)) H'
      refine ⟨d', by rw [List.filterMap_cons_none hnone]; exact e1, e2, fun i hi => e3 i (by omega), ?_⟩
      intro j v hj
      cases j with
      | zero =>
        simp only [List.getElem?_cons_zero, Option.some.injEq] at hj
        subst hj
        have hd'k : d'[k + 0]? = some v1 := by rw [Nat.add_zero, e3 k (by omega)]; exact hk
        exact ⟨fun _ => hd'k, fun v2 hv2 => ⟨v1, hd'k, hruns.2 v2 hv2⟩⟩
      | succ j =>
        simp only [List.getElem?_cons_succ] at hj
        have := e4 j v hj
        rw [show k + 1 + j = k + (j + 1) by omega] at this
        exact this
    cases hm : vsysMap tgt v1.name with
    | none =>
      apply skip (by simp [devEntry, hm])
      exact ⟨fun _ => True.intro, fun v2 hv2 => by rw [hm] at hv2; cases hv2⟩
    | some v2 =>
      obtain ⟨w, hw⟩ := H v1 (by simp) v2 hm
      by_cases hemp : (planVsys diff v1 v2).isEmpty = true
      · apply skip (by simp [devEntry, hm, hemp])
        refine ⟨fun _ => True.intro, fun v2' hv2' => ?_⟩
        rw [hm] at hv2'
        cases hv2'
        have hnil : planVsys diff v1 v2 = [] := List.isEmpty_iff.mp hemp
        rw [hnil] at hw ⊢
        rw [runs_nil_eq hw] at hw
        exact hw
      · have hentry : devEntry diff tgt v1 = some (v2.name, planVsys diff v1 v2) := by
          simp [devEntry, hm, hemp]
        have hname : v2.name = v1.name := (vsysMap_mem hm).2
        obtain ⟨hexec, hwn⟩ := execDevCmds_runs _ d k v1 w hnd hk hw
        have hnd' : ((d.set k w).map (·.name)).Nodup := by rw [set_names d k v1 w hk hwn]; exact hnd
        have hother : ∀ i, i ≠ k → (d.set k w)[i]? = d[i]? := by
          intro i hi
          rw [List.getElem?_set_ne (fun e => hi e.symm)]
        obtain ⟨d', e1, e2, e3, e4⟩ := ih (k + 1) (d.set k w) hnd' (hidx' _ hother) H'
        refine ⟨d', ?_, by rw [e2]; simp, fun i hi => by rw [e3 i (by omega), hother i (by omega)], ?_⟩
        · rw [List.filterMap_cons_some hentry]
          simp only [execDevAll, hname, hexec]
          exact e1
        · intro j v hj
          cases j with
          | zero =>
            simp only [List.getElem?_cons_zero, Option.some.injEq] at hj
            subst hj
            have hd'k : d'[k + 0]? = some w := by
              rw [Nat.add_zero, e3 k (by omega), List.getElem?_set_self (List.getElem?_eq_some_iff.mp hk).1]
            refine ⟨fun hn => (by rw [hm] at hn; cases hn), fun v2' hv2' => ?_⟩
            rw [hm] at hv2'
            cases hv2'
            exact ⟨w, hd'k, hw⟩
          | succ j =>
            simp only [List.getElem?_cons_succ] at hj
            have := e4 j v hj
            rw [show k + 1 + j = k + (j + 1) by omega] at this
            exact this

theorem planDevice_entries {diff : Differ} {devA devB : String} {dev tgt : List Vsys}
    {l : List (String × List Cmd)} (h : planDevice diff devA devB dev tgt = .ok l) :
    l = dev.filterMap (devEntry diff tgt) := by
  unfold planDevice at h
  split at h
  · cases h
  · split at h
    · cases h
    · simp only [Except.ok.injEq] at h
      subst h
      rfl

/-- **The whole plan on the whole device.**  If every (device vsys, target vsys) pair has a
plan the strict device accepts, the device accepts the whole plan of `GetChanges`; afterwards a
vsys the target does not name is what it was, and a vsys the target names is what its own plan
makes of it. -/
theorem execDevAll_planDevice (sh : Shared) (diff : Differ) (devA devB : String) (dev tgt : List Vsys)
    (l : List (String × List Cmd)) (hplan : planDevice diff devA devB dev tgt = .ok l)
    (hnd : (dev.map (·.name)).Nodup)
    (H : ∀ v1 ∈ dev, ∀ v2, vsysMap tgt v1.name = some v2 → ∃ w, Runs sh v1 (planVsys diff v1 v2) w) :
    ∃ d', execDevAll sh dev l = .ok d' ∧ d'.length = dev.length ∧
      ∀ (i : Nat) (v1 : Vsys), dev[i]? = some v1 →
        (vsysMap tgt v1.name = none → d'[i]? = some v1) ∧
        (∀ v2, vsysMap tgt v1.name = some v2 →
          ∃ w, d'[i]? = some w ∧ Runs sh v1 (planVsys diff v1 v2) w) := by
  rw [planDevice_entries hplan]
  obtain ⟨d', e1, e2, _, e4⟩ := execDevAll_entries sh diff tgt dev 0 dev hnd
    (fun j v hj => by rw [Nat.zero_add]; exact hj) H
  refine ⟨d', e1, e2, fun i v1 hi => ?_⟩
  have := e4 i v1 hi
  rw [Nat.zero_add] at this
  exact this

end NA.PanOs
