import NA.Proofs.C20
import NA.Model.CursorStatus
/-!
C20 — what garbage in the status file amounts to: whatever the bytes are, `status.Read` yields a
value of the struct; bytes that are not a JSON object yield the ZERO status, for which
`missing-approve` lists the device; the only panic of the status package is the explicit
`panic(err)` of `write` when the file cannot be written.
-/
namespace NA.C20.Status
open NA.C20 NA.C20.Res

/-- not JSON, or JSON whose top-level value is not an object: the zero status. -/
theorem decode_nonObject (t : Top) (h : ∀ kvs, t ≠ .obj kvs) : decode t = {} := by
  cases t <;> first | rfl | exact absurd rfl (h _)

/-- a key that is neither `approve` nor `compare` (in any case) changes nothing. -/
theorem stepTop_unknown (s : St) (k : Str) (f : Field) (h1 : keyIs k "approve" = false) (h2 : keyIs k "compare" = false) :
    stepTop s (k, f) = s := by
  simp [stepTop, h1, h2]

/-- an action whose value is not an object (null, number, string, array, …) is left as it was. -/
theorem decodeAction_nonObject (a : Action) (f : Field) (h : ∀ kvs, f ≠ .obj kvs) : decodeAction a f = a := by
  cases f <;> first | rfl | exact absurd rfl (h _)

/-- a field of the wrong JSON kind, or a number that is no int64, leaves the field as it was. -/
theorem stepAction_time_bad (a : Action) (k : Str) (l : Str) (hk : keyIs k "time" = true)
    (h1 : keyIs k "result" = false) (h2 : keyIs k "policy" = false) (h : int64Of l = none) :
    stepAction a (k, .num l) = a := by
  simp [stepAction, hk, h1, h2, h]

/-- `missing-approve` on the zero status: the device is listed (never silently up to date). -/
theorem check_zero (current : Str) : check {} current = .listed := by
  simp [check]

/-- … hence: an unreadable, empty, non-JSON or wrong-shaped status file makes `missing-approve`
list the device. -/
theorem garbage_is_listed (readable : Bool) (t : Top) (h : readable = false ∨ ∀ kvs, t ≠ .obj kvs) (current : Str) :
    check (read readable t) current = .listed := by
  unfold read
  rcases h with h | h
  · simp [h, check_zero]
  · split
    · rw [decode_nonObject t h]; exact check_zero current
    · exact check_zero current

/-- `check` is listed unless a successful approve or an UPTODATE compare names a policy. -/
theorem check_not_listed (v : St) (current : Str) (h : check v current ≠ .listed) :
    ((v.approve.result = lit "OK" ∨ v.approve.result = lit "WARNINGS") ∧ v.approve.policy ≠ []) ∨
    (v.compare.result = lit "UPTODATE" ∧ v.compare.policy ≠ []) := by
  unfold check at h
  simp only at h
  by_cases ha : v.approve.result = lit "OK" ∨ v.approve.result = lit "WARNINGS"
  · simp only [ha, if_true] at h
    by_cases hc : v.approve.time < v.compare.time
    · simp only [hc, if_true] at h
      by_cases hu : v.compare.result = lit "UPTODATE"
      · simp only [hu, if_true] at h
        right
        refine ⟨hu, ?_⟩
        intro he; simp [he] at h
      · simp only [hu, if_false] at h
        by_cases hd : v.compare.result = lit "DIFF"
        · simp [hd] at h
        · simp only [hd, if_false] at h
          left
          refine ⟨ha, ?_⟩
          intro he; simp [he] at h
    · simp only [hc, if_false] at h
      left
      refine ⟨ha, ?_⟩
      intro he; simp [he] at h
  · simp only [ha, if_false] at h
    by_cases hc : (0 : Int) < v.compare.time
    · simp only [hc, if_true] at h
      by_cases hu : v.compare.result = lit "UPTODATE"
      · simp only [hu, if_true] at h
        right
        refine ⟨hu, ?_⟩
        intro he; simp [he] at h
      · simp only [hu, if_false] at h
        by_cases hd : v.compare.result = lit "DIFF"
        · simp [hd] at h
        · simp [hd] at h
    · simp [hc] at h

/-- the status package panics exactly when the status file cannot be written. -/
theorem setApprove_panic_iff (v : St) (policy : Str) (failed : Bool) (now : Int) (writable : Bool) :
    (setApprove v policy failed now writable).isPanic = !writable := by
  unfold setApprove
  cases writable <;> simp [Res.isPanic]

theorem setCompare_writable_noPanic (v : St) (policy : Str) (changed : Bool) (now : Int) :
    NoPanic (setCompare v policy changed now true) := by
  unfold setCompare
  split
  · simp; exact noPanic_ok _
  · split
    · simp; exact noPanic_ok _
    · exact noPanic_ok _

end NA.C20.Status
