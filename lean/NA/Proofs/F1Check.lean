import NA.Proofs.F1Sem
/-!
# F1: decidable class predicate `k2Check` of the end-to-end theorems (evaluated by the driver on every case)

The predicate mirrors the control flow of the engine and checks, at every call, the side condition that the
proof of that call needs (the state at the call is the engine's own state).
-/
namespace NA.F1
open NA.Acl (Range)

/-- Side condition of a transfer: the target ACL is not empty and its printed texts modulo log are pairwise
different. -/
def transferCheck (e : Env) (st : St) (bN : Name) : Bool :=
  st.aReady.contains bN ||
    (!(e.bLines bN).isEmpty && decide ((e.bLines bN).map fun l => (resolveB st l).mkey).Nodup)

/-- Side condition of `diffAcl e st aN bN` (same case distinction as the engine). -/
def aclStepCheck (e : Env) (st : St) (aN bN : Name) : Bool :=
  if st.aNeeded.contains aN then transferCheck e (st.hit "acl:device-acl-needed") bN
  else if st.aReady.contains bN then true
  else
    let rs := lookupD e.sc.acl (aN, bN)
    if !(rs.any (·.isEqual)) then transferCheck e (markDeletedAcl e (st.hit "acl:no-parts-equal") aN) bN
    else
      scriptOK ((e.aLines aN).map (·.body)) ((e.bLines bN).map (·.body)) rs 0 0 &&
      planCheck e (({ st with aName := (bN, aN) :: st.aName }.hit "acl:incremental").hit (planCheck e st aN bN rs)) aN bN rs == "hyp:ok" &&
      refsMatchBodyB (e.aLines aN) && refsMatchBodyB (e.bLines bN)

end NA.F1

namespace NA.F1
open NA.Acl (Range)

/-- Side condition of `makeEqualBind e st i b`. -/
def pairCheck (e : Env) (st : St) (i : Nat) (b : Bind) : Bool :=
  let a := e.a.binds.getD i default
  a.dir == b.dir && a.intf == b.intf && (e.a.acls.map (·.1)).contains a.acl && (e.b.acls.map (·.1)).contains b.acl &&
  e.a.intfs.contains b.intf &&
  aclStepCheck e { st with bNeeded := makeEqualBind.addSet' i st.bNeeded } a.acl b.acl

/-- The run over the pairs of access-group commands, each checked in the engine's own state. -/
def runCheck (e : Env) : St → List (Nat × Bind) → Bool
  | _, [] => true
  | st, p :: ps => pairCheck e st p.1 p.2 && runCheck e (makeEqualBind e st p.1 p.2) ps

/-- The pairs of access-group commands that `diffBinds` equalises (kept ranges of `diffUnordered`). -/
def bindPairs (al : List Nat) (bl : List Bind) (diff : List Range) : List (Nat × Bind) :=
  diff.flatMap fun r => (slice al r.lowA r.highA).zip (slice bl r.lowB r.highB)

end NA.F1

namespace NA.F1
open NA.Acl (Range)

/-- Routes: side conditions of `diffRoutes` (decidable).  Device routes have pairwise different destinations
(`dst`), target routes pairwise different `routeDst` keys of the strict device; equal device keys imply equal
`dst`; the lists read off the `diffUnordered` script are the routes missing on the other side. -/
def routesCheck (al bl : List Route) (dels : List (Nat × Route)) (inss : List Route) : Bool :=
  decide (al.map (·.text)).Nodup && decide (bl.map (·.text)).Nodup && decide (al.map (·.dst)).Nodup &&
  decide (bl.map fun r => NA.AsaDev.routeDst r.text).Nodup &&
  (al.all fun a => bl.all fun r => !(NA.AsaDev.routeDst a.text == NA.AsaDev.routeDst r.text) || a.dst == r.dst) &&
  decide (dels.map (·.2) = al.filter fun a => !(bl.map (·.text)).contains a.text) &&
  decide (dels.map (·.1)).Nodup &&
  decide (inss = bl.filter fun r => !(al.map (·.text)).contains r.text)

end NA.F1

namespace NA.F1
/-- The route lists as `diffRoutes` reads them off `diffUnordered` (no script if the device has no route). -/
def routeDelsOf (al bl : List Route) : List (Nat × Route) :=
  if al.isEmpty then [] else
  (diffUnordered (al.map (·.text)) (bl.map (·.text))).flatMap fun r =>
    if r.isDelete then (List.range (r.highA - r.lowA)).map fun i => (r.lowA + i, al.getD (r.lowA + i) default) else []

def routeInssOf (al bl : List Route) : List Route :=
  if al.isEmpty then bl else
  (diffUnordered (al.map (·.text)) (bl.map (·.text))).flatMap fun r => if r.isInsert then slice bl r.lowB r.highB else []

end NA.F1

namespace NA.F1
open NA.Acl (Range)

abbrev BKey := String × Name
def keyOf (e : Env) (i : Nat) : BKey := ((e.a.binds.getD i default).dir, (e.a.binds.getD i default).intf)
def aclOfI (e : Env) (i : Nat) : Name := (e.a.binds.getD i default).acl

/-! ### The access-group commands as a list of operations (deleted slices, then added and equalised commands) -/

inductive BOp
  | delGroup (idx : List Nat)     -- `delCmds` of a slice of device commands
  | add (b : Bind)                -- `addCmds` of one target command
  | eq (i : Nat) (b : Bind)       -- `makeEqual` of a kept pair
  deriving Repr

/-- One round of the loop in `addBinds`. -/
def addOne (e : Env) (st : St) (b : Bind) : St :=
  let st := transferAcl e st b.acl
  { (st.emit (.bind (printBind st b))) with mode := "" }.hit "bind:add"

def applyOp (e : Env) (st : St) : BOp → St
  | .delGroup idx => delBinds e st idx
  | .add b => addOne e st b
  | .eq i b => makeEqualBind e st i b

/-- The operations of `diffBinds` (branch "some parts equal") read off the `diffUnordered` script. -/
def bindOps (al : List Nat) (bl : List Bind) (diff : List Range) : List BOp :=
  (diff.flatMap fun r => if r.isDelete then [BOp.delGroup (slice al r.lowA r.highA)] else []) ++
  (diff.flatMap fun r =>
    if r.isInsert then (if r.highB ≤ r.lowB then [] else (slice bl r.lowB r.highB).map BOp.add)
    else if r.isEqual then ((slice al r.lowA r.highA).zip (slice bl r.lowB r.highB)).map fun p => BOp.eq p.1 p.2
    else [])

/-- Device commands still to handle / target commands handled, after the operations. -/
def opsEnd : List Nat → List Bind → List BOp → List Nat × List Bind
  | pend, done, [] => (pend, done)
  | pend, done, .delGroup idx :: ops => opsEnd (pend.filter fun j => !idx.contains j) done ops
  | pend, done, .add b :: ops => opsEnd pend (done ++ [b]) ops
  | pend, done, .eq i b :: ops => opsEnd (pend.filter (· != i)) (done ++ [b]) ops

/-- Side condition of one operation, in the engine's own state. -/
def opCheck (e : Env) (st : St) (pend : List Nat) (done : List Bind) : BOp → Bool
  | .delGroup idx => decide idx.Nodup && idx.all fun i => pend.contains i && !st.bNeeded.contains i
  | .add b =>
    (e.b.acls.map (·.1)).contains b.acl && e.a.intfs.contains b.intf &&
    !(e.a.binds.map fun x => (x.dir, x.intf)).contains (b.dir, b.intf) &&
    !(done.map fun x => (x.dir, x.intf)).contains (b.dir, b.intf) && transferCheck e st b.acl
  | .eq i b => pend.contains i && pairCheck e st i b

def opsCheck (e : Env) : St → List Nat → List Bind → List BOp → Bool
  | _, _, _, [] => true
  | st, pend, done, op :: ops =>
    opCheck e st pend done op &&
    opsCheck e (applyOp e st op) (opsEnd pend done [op]).1 (opsEnd pend done [op]).2 ops

/-- Shape of the comparison of the access-group commands in the class: every range of `diffUnordered` keeps
commands (no command is added or deleted), and the first compared command is not `needed`. -/
def bindsShape (e : Env) (st : St) (al : List Nat) (bl : List Bind) : Bool :=
  !(!al.isEmpty && st.bNeeded.contains (al.headD 0)) &&
  (diffUnordered (al.map fun i => (e.a.binds.getD i default).key) (bl.map (·.key))).any (·.isEqual) &&
  (diffUnordered (al.map fun i => (e.a.binds.getD i default).key) (bl.map (·.key))).all
    (fun r => !r.isDelete && !r.isInsert && r.isEqual)

/-- The state in which `addCmds` runs in the branch "no parts equal" of `diffBinds`. -/
def nopartsSt (e : Env) (st : St) (managed : List Nat) : St :=
  if managed.isEmpty then st else markDeletedBinds e (st.hit "bind:no-parts-equal") managed

/-- The access-group part of the class predicate, for the state `st` in which `diffBinds` starts.
Branch "some parts equal": slices of device commands may be removed, target commands added, kept pairs equalised;
afterwards every compared device command is handled and every target command is in place.
Branch "no parts equal": every compared device command is marked (and removed by `deleteUnused`), every target
command is added. -/
def bindsCheck (e : Env) (st : St) (managed : List Nat) : Bool :=
  if managed.isEmpty && e.b.binds.isEmpty then true else
  let diff := diffUnordered (managed.map fun i => (e.a.binds.getD i default).key) (e.b.binds.map (·.key))
  let ops := bindOps managed e.b.binds diff
  !(!managed.isEmpty && st.bNeeded.contains (managed.headD 0)) && decide (managed.map (keyOf e)).Nodup &&
  (if diff.any (·.isEqual) then
    opsCheck e st managed [] ops &&
    (opsEnd managed [] ops).1.isEmpty && e.b.binds.all (fun x => (opsEnd managed [] ops).2.contains x) &&
    (opsEnd managed [] ops).2.all (fun x => e.b.binds.contains x)
  else
    managed.all (fun i => !st.bNeeded.contains i) &&
    opsCheck e (nopartsSt e st managed) managed [] (e.b.binds.map BOp.add))

/-- **The class predicate of the end-to-end theorems** (`asa_F1_converges` and its corollaries). -/
def k2Check (a b : Config) (sc : Scripts) : Bool :=
  match checkInterfaces ⟨a, b, sc⟩ {} with
  | none => false
  | some (st0, managed) =>
    wfB ⟨a, b, sc⟩ && refsClosedA ⟨a, b, sc⟩ && refsClosedB ⟨a, b, sc⟩ &&
    decide (a.acls.map (·.1)).Nodup && decide (a.groups.map (·.1)).Nodup &&
    decide (a.binds.map fun x => (x.dir, x.intf)).Nodup &&
    bindsCheck ⟨a, b, sc⟩ (generateNames ⟨a, b, sc⟩ st0) managed &&
    routesCheck (sortRoutes a.routes) (sortRoutes b.routes)
      (routeDelsOf (sortRoutes a.routes) (sortRoutes b.routes)) (routeInssOf (sortRoutes a.routes) (sortRoutes b.routes))

end NA.F1

/-! ## Class ISO: a device that already carries the target (static; the engine is not evaluated) -/
namespace NA.F1
open NA.Acl (Range)

/-- A script that only keeps (no range deletes or inserts). -/
def pureEq (rs : List Range) : Bool := rs.all fun r => r.isEqual && !r.isDelete && !r.isInsert

/-- The pairs form a one-to-one relation. -/
def bij (R : List (Name × Name)) : Bool := R.all fun p => R.all fun q => (p.1 == q.1) == (p.2 == q.2)

/-- The pair of access lists is compared by the script "all lines equal"; paired lines have the same number of
references. -/
def aclIso (e : Env) (aN bN : Name) : Bool :=
  decide (0 < (e.aLines aN).length) && decide ((e.bLines bN).length = (e.aLines aN).length) &&
  decide (lookupD e.sc.acl (aN, bN) = [⟨0, (e.aLines aN).length, 0, (e.aLines aN).length⟩]) &&
  ((e.aLines aN).zip (e.bLines bN)).all fun l => l.1.refs.length == l.2.refs.length

/-- The pairs of object-groups referenced at the same positions of the paired access lists. -/
def RGof (e : Env) (RA : List (Name × Name)) : List (Name × Name) :=
  RA.flatMap fun p => ((e.aLines p.1).zip (e.bLines p.2)).flatMap fun l => l.1.refs.zip l.2.refs

/-- The pairs of compared access-group commands. -/
def isoPairs (e : Env) (managed : List Nat) : List (Nat × Bind) :=
  if managed.isEmpty && e.b.binds.isEmpty then [] else
  bindPairs managed e.b.binds
    (diffUnordered (managed.map fun i => (e.a.binds.getD i default).key) (e.b.binds.map (·.key)))

def isoRA (e : Env) (managed : List Nat) : List (Name × Name) :=
  (isoPairs e managed).map fun p => (aclOfI e p.1, p.2.acl)

/-- The target specifies no routes, or: same routes on both sides (as sets); the lists read off the `diffUnordered` script are the routes missing
on the other side (validity of that script). -/
def routesSame (al bl : List Route) : Bool :=
  bl.isEmpty ||
  decide ((routeDelsOf al bl).map (·.2) = al.filter fun a => !(bl.map (·.text)).contains a.text) &&
  decide (routeInssOf al bl = bl.filter fun r => !(al.map (·.text)).contains r.text) &&
  al.all (fun a => (bl.map (·.text)).contains a.text) && bl.all (fun r => (al.map (·.text)).contains r.text)

/-- **Class ISO** (hypothesis of `asa_F1_idempotent_partial`). -/
def isoCheck (a b : Config) (sc : Scripts) : Bool :=
  match checkInterfaces ⟨a, b, sc⟩ {} with
  | none => false
  | some (st0, managed) =>
    let e : Env := ⟨a, b, sc⟩
    ((managed.isEmpty && b.binds.isEmpty) ||
      (bindsShape e (generateNames e st0) managed b.binds && decide ((isoPairs e managed).map (·.1) = managed))) &&
    bij (isoRA e managed) && bij (RGof e (isoRA e managed)) &&
    (isoRA e managed).all (fun p => !st0.aNeeded.contains p.1 && aclIso e p.1 p.2) &&
    (RGof e (isoRA e managed)).all (fun p => !st0.gNeeded.contains p.1 && pureEq (lookupD sc.grp p)) &&
    routesSame (sortRoutes a.routes) (sortRoutes b.routes) &&
    (a.acls.map (·.1)).all (fun n => !isTagged n || st0.aNeeded.contains n || ((isoRA e managed).map (·.1)).contains n) &&
    (a.groups.map (·.1)).all (fun g => !isTagged g || st0.gNeeded.contains g ||
      ((isoRA e managed).flatMap fun p => (e.aLines p.1).flatMap (·.refs)).contains g)

end NA.F1

/-! ## Diagnostics for the measured distribution (not used by any theorem) -/
namespace NA.F1
open NA.Acl (Range)

def aclStepWhy (e : Env) (st : St) (aN bN : Name) : String :=
  if st.aNeeded.contains aN then
    (if transferCheck e (st.hit "acl:device-acl-needed") bN then "" else "transfer(empty-or-duplicate-text)")
  else if st.aReady.contains bN then ""
  else
    let rs := lookupD e.sc.acl (aN, bN)
    if !(rs.any (·.isEqual)) then
      (if transferCheck e (markDeletedAcl e (st.hit "acl:no-parts-equal") aN) bN then "" else "transfer(empty-or-duplicate-text)")
    else if !scriptOK ((e.aLines aN).map (·.body)) ((e.bLines bN).map (·.body)) rs 0 0 then "acl-script"
    else if planCheck e (({ st with aName := (bN, aN) :: st.aName }.hit "acl:incremental").hit (planCheck e st aN bN rs)) aN bN rs != "hyp:ok"
      then planCheck e (({ st with aName := (bN, aN) :: st.aName }.hit "acl:incremental").hit (planCheck e st aN bN rs)) aN bN rs
    else if !(refsMatchBodyB (e.aLines aN) && refsMatchBodyB (e.bLines bN)) then "refs-vs-body"
    else ""

def runWhy (e : Env) : St → List (Nat × Bind) → String
  | _, [] => ""
  | st, p :: ps =>
    if pairCheck e st p.1 p.2 then runWhy e (makeEqualBind e st p.1 p.2) ps
    else
      let a := e.a.binds.getD p.1 default
      let w := aclStepWhy e { st with bNeeded := makeEqualBind.addSet' p.1 st.bNeeded } a.acl p.2.acl
      if w == "" then "pair-static" else w

def opsWhy (e : Env) : St → List Nat → List Bind → List BOp → String
  | _, _, _, [] => ""
  | st, pend, done, op :: ops =>
    if opCheck e st pend done op then opsWhy e (applyOp e st op) (opsEnd pend done [op]).1 (opsEnd pend done [op]).2 ops
    else match op with
      | .delGroup _ => "bind-del-static"
      | .add b => if transferCheck e st b.acl then "bind-add-static" else "transfer(empty-or-duplicate-text)"
      | .eq i b =>
        let a := e.a.binds.getD i default
        let w := aclStepWhy e { st with bNeeded := makeEqualBind.addSet' i st.bNeeded } a.acl b.acl
        if w == "" then "pair-static" else w

/-- Why a case is outside class K2 (first failing conjunct). -/
def k2Why (a b : Config) (sc : Scripts) : String :=
  match checkInterfaces ⟨a, b, sc⟩ {} with
  | none => "rejected"
  | some (st0, managed) =>
    let e : Env := ⟨a, b, sc⟩
    let st := generateNames e st0
    if !wfB e then "wf"
    else if !(refsClosedA e && refsClosedB e) then "refs-closed"
    else if !(decide (a.acls.map (·.1)).Nodup && decide (a.groups.map (·.1)).Nodup) then "names"
    else if !decide (a.binds.map fun x => (x.dir, x.intf)).Nodup then "bind-keys"
    else if !bindsCheck e st managed then
      (let diff := diffUnordered (managed.map fun i => (e.a.binds.getD i default).key) (b.binds.map (·.key))
       if !(diff.any (·.isEqual)) then
         (let w := opsWhy e (nopartsSt e st managed) managed [] (b.binds.map BOp.add)
          if w == "" then "bind-no-parts-equal" else w)
       else
         let w := opsWhy e st managed [] (bindOps managed b.binds diff)
         if w == "" then "bind-cover" else w)
    else if !routesCheck (sortRoutes a.routes) (sortRoutes b.routes)
        (routeDelsOf (sortRoutes a.routes) (sortRoutes b.routes)) (routeInssOf (sortRoutes a.routes) (sortRoutes b.routes)) then "routes"
    else "?"

/-- Why a case is outside class ISO (first failing conjunct). -/
def isoWhy (a b : Config) (sc : Scripts) : String :=
  match checkInterfaces ⟨a, b, sc⟩ {} with
  | none => "rejected"
  | some (st0, managed) =>
    let e : Env := ⟨a, b, sc⟩
    if !((managed.isEmpty && b.binds.isEmpty) ||
      (bindsShape e (generateNames e st0) managed b.binds && decide ((isoPairs e managed).map (·.1) = managed))) then "bind-shape"
    else if !bij (isoRA e managed) then "acl-pairing-not-1:1"
    else if !bij (RGof e (isoRA e managed)) then "group-pairing-not-1:1"
    else if !(isoRA e managed).all (fun p => !st0.aNeeded.contains p.1) then "acl-used-by-unknown-interface"
    else if !(isoRA e managed).all (fun p => aclIso e p.1 p.2) then "acl-script-not-identity"
    else if !(RGof e (isoRA e managed)).all (fun p => !st0.gNeeded.contains p.1) then "group-used-by-unknown-interface"
    else if !(RGof e (isoRA e managed)).all (fun p => pureEq (lookupD sc.grp p)) then "group-script-not-identity"
    else if !routesSame (sortRoutes a.routes) (sortRoutes b.routes) then "routes"
    else if !(a.acls.map (·.1)).all (fun n => !isTagged n || st0.aNeeded.contains n || ((isoRA e managed).map (·.1)).contains n) then "leftover-acl"
    else if !(a.groups.map (·.1)).all (fun g => !isTagged g || st0.gNeeded.contains g ||
      ((isoRA e managed).flatMap fun p => (e.aLines p.1).flatMap (·.refs)).contains g) then "leftover-group"
    else "?"

end NA.F1

/-! ## Phase shape of the route commands of a printed script (hypotheses of `NA.Route.routes_covered`) -/
namespace NA.F1

def isRouteCmd : Chg → Bool
  | .route _ => true
  | .noRoute _ => true
  | .join (.noRoute _) (.route _) => true
  | _ => false

def isPlainNoRoute : Chg → Bool
  | .noRoute _ => true
  | _ => false

/-- Checked on the route commands of a script, in their printed order: first only additions and replacements of
a route by one to the SAME destination (one joined line); then only deletions of routes the target does not
contain; after the first phase every target route is on the device. -/
def routeShapeCheck (a b : Config) (script : List Chg) : Bool :=
  let U := a.routes ++ b.routes
  let dstOf := fun (t : String) => (U.find? (·.text == t)).map (·.dst)
  let rc := script.filter isRouteCmd
  let opsA := rc.takeWhile (fun c => !isPlainNoRoute c)
  let opsB := rc.dropWhile (fun c => !isPlainNoRoute c)
  let afterA := opsA.foldl (fun (s : List String) c =>
    match c with
    | .route t => s ++ [t]
    | .join (.noRoute o) (.route n) => s.filter (· != o) ++ [n]
    | _ => s) (a.routes.map (·.text))
  opsA.all (fun c => match c with
    | .route _ => true
    | .join (.noRoute o) (.route n) => (dstOf o).isSome && dstOf o == dstOf n
    | _ => false) &&
  opsB.all (fun c => match c with
    | .noRoute t => !(b.routes.map (·.text)).contains t
    | _ => false) &&
  (b.routes.isEmpty || b.routes.all (fun r => afterA.contains r.text))

/-- Hypotheses of `asa_routes_covered_every_step` on the input (decidable form). -/
def routesInputOK (a b : Config) : Bool :=
  decide (a.routes.map (·.text)).Nodup &&
  (a.routes ++ b.routes).all fun r => (a.routes ++ b.routes).all fun r' => !(r.text == r'.text) || r == r'

end NA.F1
