import NA.Model.IosRemoveBanner
/-!
# `removeBanner`: a configuration with banner definitions at any positions is cleaned to the
configuration without them
-/
namespace NA.Ios

/-- a complete line: ends in a line feed, no other line feed -/
def IsLine (l : Str) : Prop := ∃ b, l = b ++ ['\n'] ∧ '\n' ∉ b

theorem splitKeepNL_line_append (l rest : Str) (hl : IsLine l) :
    splitKeepNL (l ++ rest) = (l :: (splitKeepNL rest).1, (splitKeepNL rest).2) := by
  obtain ⟨b, rfl, hb⟩ := hl
  induction b with
  | nil =>
    show splitKeepNL ('\n' :: rest) = _
    rw [splitKeepNL]; simp
  | cons c b ih =>
    have hc : (c == '\n') = false := by simp; exact fun e => hb (by simp [e])
    have ih' := ih (fun e => hb (by simp [e]))
    show splitKeepNL (c :: (b ++ ['\n'] ++ rest)) = _
    rw [splitKeepNL]
    simp only [hc, Bool.false_eq_true, if_false, ih']
    rfl

theorem splitKeepNL_tail (t : Str) (h : '\n' ∉ t) : splitKeepNL t = ([], t) := by
  induction t with
  | nil => rfl
  | cons c t ih =>
    have hc : (c == '\n') = false := by simp; exact fun e => h (by simp [e])
    rw [splitKeepNL]
    simp [hc, ih (fun e => h (by simp [e]))]

/-- pieces of a configuration text -/
inductive Seg where
  /-- a line that does not start a banner -/
  | plain (l : Str)
  /-- a banner definition: start line, body lines, end line -/
  | banner (start : Str) (body : List Str) (endl : Str)

def Seg.lines : Seg → List Str
  | .plain l => [l]
  | .banner s b e => s :: b ++ [e]

def Seg.kept : Seg → List Str
  | .plain l => [l]
  | .banner _ _ _ => []

def Seg.Valid : Seg → Prop
  | .plain l => IsLine l ∧ bannerStart l = none
  | .banner s b e => IsLine s ∧ IsLine e ∧ (∀ l ∈ b, IsLine l) ∧
      ∃ d, bannerStart s = some d ∧ (∀ l ∈ b, l.head? ≠ some d) ∧ e.head? = some d

theorem rbLines_body (d : Char) (b : List Str) (e : Str) (rest : List Str)
    (hb : ∀ l ∈ b, l.head? ≠ some d) (he : e.head? = some d) :
    rbLines (some d) (b ++ e :: rest) = rbLines none rest := by
  induction b with
  | nil => simp [rbLines, he]
  | cons l b ih =>
    have hl : (l.head? == some d) = false := by
      have := hb l (by simp)
      cases h : l.head? with
      | none => rfl
      | some x =>
        rw [h] at this
        have hx : x ≠ d := fun e => this (by rw [e])
        simp [hx]
    show rbLines (some d) (l :: (b ++ e :: rest)) = _
    rw [rbLines]
    simp only [hl, Bool.false_eq_true, if_false]
    exact ih (fun x hx => hb x (by simp [hx]))

theorem rbLines_segs (segs : List Seg) (hv : ∀ s ∈ segs, s.Valid) :
    rbLines none (segs.flatMap Seg.lines) = (segs.flatMap Seg.kept).flatten := by
  induction segs with
  | nil => rfl
  | cons s segs ih =>
    have ih' := ih (fun x hx => hv x (by simp [hx]))
    have hs := hv s (by simp)
    cases s with
    | plain l =>
      obtain ⟨_, hn⟩ := hs
      simp only [List.flatMap_cons, Seg.lines, Seg.kept, List.singleton_append, List.flatten_cons]
      rw [rbLines]
      simp only [hn]
      rw [ih']
    | banner st b e =>
      obtain ⟨_, _, _, d, hd, hb, he⟩ := hs
      simp only [List.flatMap_cons, Seg.lines, Seg.kept, List.nil_append, List.cons_append, List.append_assoc]
      rw [rbLines]
      simp only [hd]
      rw [rbLines_body d b e _ hb he, ih']

theorem splitKeepNL_lines (ls : List Str) (t : Str) (hl : ∀ l ∈ ls, IsLine l) (ht : '\n' ∉ t) :
    splitKeepNL (ls.flatten ++ t) = (ls, t) := by
  induction ls with
  | nil => simpa using splitKeepNL_tail t ht
  | cons l ls ih =>
    have := splitKeepNL_line_append l (ls.flatten ++ t) (hl l (by simp))
    rw [List.flatten_cons, List.append_assoc, this, ih (fun x hx => hl x (by simp [hx]))]

theorem Seg.lines_isLine (s : Seg) (h : s.Valid) : ∀ l ∈ s.lines, IsLine l := by
  cases s with
  | plain l => intro x hx; simp [Seg.lines] at hx; subst hx; exact h.1
  | banner st b e =>
    intro x hx
    simp [Seg.lines] at hx
    rcases hx with rfl | hx | rfl
    · exact h.1
    · exact h.2.2.1 x hx
    · exact h.2.1

/-- **removeBanner_clean.** For every configuration text made of ordinary lines and any number of
banner definitions (any delimiter, bodies of any length) at any positions, followed by an
unterminated rest: `removeBanner` returns exactly the ordinary lines and the rest. -/
theorem removeBanner_clean (segs : List Seg) (t : Str) (hv : ∀ s ∈ segs, s.Valid) (ht : '\n' ∉ t) :
    removeBanner ((segs.flatMap Seg.lines).flatten ++ t) = (segs.flatMap Seg.kept).flatten ++ t := by
  have hl : ∀ l ∈ segs.flatMap Seg.lines, IsLine l := by
    intro l hl
    obtain ⟨s, hs, hls⟩ := List.mem_flatMap.1 hl
    exact Seg.lines_isLine s (hv s hs) l hls
  unfold removeBanner
  rw [splitKeepNL_lines _ t hl ht]
  simp only
  rw [rbLines_segs segs hv]

/-- a text without banner start lines is returned unchanged -/
theorem removeBanner_id (ls : List Str) (t : Str) (hl : ∀ l ∈ ls, IsLine l ∧ bannerStart l = none)
    (ht : '\n' ∉ t) : removeBanner (ls.flatten ++ t) = ls.flatten ++ t := by
  have := removeBanner_clean (ls.map Seg.plain) t (by
    intro s hs; obtain ⟨l, hl', rfl⟩ := List.mem_map.1 hs; exact hl l hl') ht
  have e1 : ∀ ls : List Str, (ls.map Seg.plain).flatMap Seg.lines = ls := by
    intro ls
    induction ls with
    | nil => rfl
    | cons l ls ih => simp [Seg.lines, List.flatMap_cons, ih]
  have e2 : ∀ ls : List Str, (ls.map Seg.plain).flatMap Seg.kept = ls := by
    intro ls
    induction ls with
    | nil => rfl
    | cons l ls ih => simp [Seg.kept, List.flatMap_cons, ih]
  rw [e1 ls, e2 ls] at this; exact this

end NA.Ios
