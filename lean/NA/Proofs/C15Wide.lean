import NA.Proofs.C15Full
import NA.Proofs.C15Timing
import NA.Proofs.C15Dec
/-!
# C15 helper lemmas, part 11: banners on the fixed dialogue (`wideDevice`)
-/
namespace NA.Ios

variable (na : Bool) (fb : Str → Option Behav)

/-- lines the widened device passes through to `simDevice [] na` -/
def PassThru (s : Str) : Prop := (s == reloadCmd) = false ∧ isKey s = false

theorem wide_step_pass (d : SimSt) (s : Str) (h : PassThru s) :
    (wideDevice na fb).step d s = (simDevice [] na).step d s := by
  have h1 : s ≠ reloadCmd := by
    intro e; have := h.1; rw [e] at this; revert this; decide
  simp [wideDevice, h1, h.2]

theorem send_wide (s : Str) (h : PassThru s) : send (wideDevice na fb) s = send (simDevice [] na) s := by
  funext st
  simp [send, wide_step_pass na fb st.dev s h]

theorem sendCmd_wide (s : Str) (h : PassThru s) :
    sendCmd (wideDevice na fb) s = sendCmd (simDevice [] na) s := by
  unfold sendCmd; rw [send_wide na fb s h]

theorem issueCmd_wide (s : Str) (n : String) (alts : List (Str × Bool)) (h : PassThru s) :
    issueCmd (wideDevice na fb) s n alts = issueCmd (simDevice [] na) s n alts := by
  unfold issueCmd; rw [send_wide na fb s h]

theorem pass_doReload : PassThru doReloadCmd := ⟨by decide, by decide⟩
theorem pass_n : PassThru (lit "n") := ⟨by decide, by decide⟩
theorem pass_empty : PassThru [] := ⟨by decide, by decide⟩
theorem pass_write : PassThru writeCmd := ⟨by decide, by decide⟩

theorem extendReload_wide : extendReload (wideDevice na fb) = extendReload (simDevice [] na) := by
  unfold extendReload sendReloadCmd
  simp only [if_true]
  rw [issueCmd_wide na fb _ _ _ pass_doReload, issueCmd_wide na fb _ _ _ pass_n,
    sendCmd_wide na fb _ pass_empty]

theorem pass_of_change (c : Str) (h : ChangeCmd c) : PassThru c := by
  have hch := h.change
  constructor
  · cases hx : (c == reloadCmd) with
    | false => rfl
    | true =>
      have : c = reloadCmd := by simpa using hx
      rw [this] at hch; revert hch; decide
  · cases hx : isKey c with
    | false => rfl
    | true =>
      unfold isKey at hx
      simp only [Bool.or_eq_true, beq_iff_eq] at hx
      rcases hx with (rfl | rfl) | rfl <;> revert hch <;> decide

theorem pass_of_joined (c1 c2 : Str) : PassThru (c1 ++ '\n' :: c2) := by
  have hmem : '\n' ∈ c1 ++ '\n' :: c2 := by simp
  have key : ∀ k : Str, '\n' ∉ k → (c1 ++ '\n' :: c2 == k) = false := by
    intro k hk
    cases hx : (c1 ++ '\n' :: c2 == k) with
    | false => rfl
    | true =>
      have : c1 ++ '\n' :: c2 = k := by simpa using hx
      rw [this] at hmem; exact absurd hmem hk
  constructor
  · exact key _ (by decide)
  · simp [isKey, key confCmd (by decide), key endCmd (by decide), key cancelCmd (by decide)]

theorem Chg.pass (g : Chg) (h : g.Clean) : PassThru g.cmd := by
  cases g with
  | one c b => exact pass_of_change c h.cmds
  | two c1 c2 b1 b2 => exact pass_of_joined c1 c2

theorem cmd_wide (fixed : Bool) (c : Str) (h : PassThru c) :
    cmd (wideDevice na fb) fixed c = cmd (simDevice [] na) fixed c := by
  unfold cmd
  rw [send_wide na fb c h, extendReload_wide]

theorem changeLoop_wide (fixed : Bool) (cs : List Str) (h : ∀ c ∈ cs, PassThru c) :
    changeLoop (wideDevice na fb) fixed cs = changeLoop (simDevice [] na) fixed cs := by
  unfold changeLoop
  induction cs with
  | nil => rfl
  | cons c cs ih =>
    simp only [forEach]
    rw [cmd_wide na fb fixed c (h c (by simp)), ih (fun x hx => h x (by simp [hx]))]

theorem writeMem_wide (n : Nat) : writeMem (wideDevice na fb) n = writeMem (simDevice [] na) n := by
  have hr : writeMemRound (wideDevice na fb) = writeMemRound (simDevice [] na) := by
    unfold writeMemRound
    rw [issueCmd_wide na fb _ _ _ pass_write, send_wide na fb _ pass_empty]
  induction n with
  | zero => unfold writeMem; rw [hr]
  | succ n ih => unfold writeMem; rw [hr, ih]

/-! ### the phases against the widened device -/

theorem wide_step_unarmed (d : SimSt) (s : Str) (hs : (s == reloadCmd) = false) (hocc : d.occ = []) :
    (wideDevice na fb).step d s = (simDevice [] na).step d s := by
  have h1 : s ≠ reloadCmd := by
    intro e; rw [e] at hs; revert hs; decide
  simp [wideDevice, h1, hocc, armedMark]

/-- the preparation commands: the device is not armed yet -/
theorem prepare_wide (st : St SimSt) (hp : st.pend = []) (hparts : st.dev.parts = []) (hocc : st.dev.occ = []) :
    prepareDevice (wideDevice na fb) st = (.ok (), { st with pend := [], trace := st.trace ++ prepCmds }) := by
  unfold prepareDevice
  refine forEach_sendCmd_eval (wideDevice na fb) prepCmds st (fun d => d.parts = [] ∧ d.occ = []) ⟨hparts, hocc⟩ hp ?_
  intro l hl
  have hsplit : splitOnNL l = [l] := (by decide : ∀ c ∈ prepCmds, splitOnNL c = [c]) l hl
  have hnr : (l == reloadCmd) = false := (by decide : ∀ c ∈ prepCmds, (c == reloadCmd) = false) l hl
  rcases prep_plain_facts na l hl with hc | ⟨hs, hch, hpf⟩
  · subst hc
    refine ⟨confReply, confReply.length - 8, ?_, by decide +kernel⟩
    intro d hd
    rw [wide_step_unarmed na fb d confCmd hnr hd.2]
    have := simStep_std na d confCmd _ [] hd.1 (std_conf na) hsplit
    rw [this, simDev_parts_nil d hd.1]
  · refine ⟨l ++ ['\n'] ++ prompt, l.length, fun d hd => ?_, hpf⟩
    rw [wide_step_unarmed na fb d l hnr hd.2]
    exact simStep_plain na d l hd.1 hs hch hsplit

theorem wide_step_reload (d : SimSt) :
    (wideDevice na fb).step d reloadCmd =
      ({ ((simDevice [] na).step d reloadCmd).1 with occ := armedMark }, ((simDevice [] na).step d reloadCmd).2) := by
  simp [wideDevice]

/-- the schedule exchange arms the device -/
theorem schedule_wide (st : St SimSt) (hp : st.pend = []) (hparts : st.dev.parts = []) :
    scheduleReload (wideDevice na fb) st =
      (.ok (), { st with dev := { st.dev with occ := armedMark }, pend := [], reloadActive := true,
                         trace := st.trace ++ schedLines na }) := by
  have hs0 : splitOnNL reloadCmd = [reloadCmd] := by decide
  have hsn : splitOnNL (lit "n") = [lit "n"] := by decide
  have hse : splitOnNL ([] : Str) = [[]] := by decide
  cases na with
  | false =>
    have hstd : stdReplyV false reloadCmd = some
        [(lit "reload in 2\n\nSystem configuration has been modified. Save? [yes/no]: "),
         lit "Reload reason: Reload Command\nProceed with reload? [confirm]", prompt] := by decide
    have h1 : (wideDevice false fb).step st.dev reloadCmd =
        ({ st.dev with parts := [lit "Reload reason: Reload Command\nProceed with reload? [confirm]", prompt],
                       occ := armedMark },
         lit "reload in 2\n\nSystem configuration has been modified. Save? [yes/no]: ") := by
      rw [wide_step_reload, simStep_std false st.dev reloadCmd _ _ hparts hstd hs0]
    have := sendReloadCmd_eval (wideDevice false fb) st false
      (lit "reload in 2\n\nSystem configuration has been modified. Save? [yes/no]: ")
      (lit "n" ++ ['\n'] ++ lit "Reload reason: Reload Command\nProceed with reload? [confirm]")
      ([] ++ ['\n'] ++ prompt)
      { st.dev with parts := [lit "Reload reason: Reload Command\nProceed with reload? [confirm]", prompt], occ := armedMark }
      { st.dev with parts := [prompt], occ := armedMark } { st.dev with parts := [], occ := armedMark } 0 hp h1
      (by decide +kernel) (by decide +kernel)
      (by rw [wide_step_pass false fb _ _ pass_n]; exact simStep_part false _ (lit "n") _ _ rfl hsn) (by decide +kernel)
      (by rw [wide_step_pass false fb _ _ pass_empty]; exact simStep_part false _ [] _ _ rfl hse) (by decide +kernel)
    unfold scheduleReload
    rw [this]
    cases hd : st.dev with
    | mk pa qu oc => rw [hd] at hparts; simp at hparts; simp [hparts, schedLines]
  | true =>
    have hstd : stdReplyV true reloadCmd = some
        [(lit "reload in 2\nProceed with reload? [confirm]"), prompt] := by decide
    have h1 : (wideDevice true fb).step st.dev reloadCmd =
        ({ st.dev with parts := [prompt], occ := armedMark },
         lit "reload in 2\nProceed with reload? [confirm]") := by
      rw [wide_step_reload, simStep_std true st.dev reloadCmd _ _ hparts hstd hs0]
    have := sendReloadCmd_eval_noask (wideDevice true fb) st false
      (lit "reload in 2\nProceed with reload? [confirm]") ([] ++ ['\n'] ++ prompt)
      { st.dev with parts := [prompt], occ := armedMark } { st.dev with parts := [], occ := armedMark } 0 hp h1
      (by decide +kernel) (by decide +kernel)
      (by rw [wide_step_pass true fb _ _ pass_empty]; exact simStep_part true _ [] _ _ rfl hse) (by decide +kernel)
    unfold scheduleReload
    rw [this]
    cases hd : st.dev with
    | mk pa qu oc => rw [hd] at hparts; simp at hparts; simp [hparts, schedLines]

/-! ### answers with a banner on a fixed line -/

/-- what follows the first prompt of an answer -/
def replyTail (ci : Str) (b : Behav) (rest : Str) : Str :=
  match b.form with
  | .none => rest
  | .before _ => ci ++ '\n' :: b.out ++ prompt ++ rest
  | .inside _ => rest
  | .afterPrompt _ => '\n' :: prompt ++ rest
  | .after => rest
  | .afterLine _ _ => rest

theorem reply_split (ci : Str) (b : Behav) (rest : Str) (hc : CleanCmd ci) (hb : CleanBehav b) :
    ∃ u, replyFor ci b ++ rest = u ++ promptFull ++ replyTail ci b rest ∧ noPH u = true := by
  obtain ⟨u0, hu0⟩ := echo_out_endsNL ci b.out hb.out
  have hn0 : noPH u0 = true := noPH_drop_last u0 (by rw [← hu0]; exact noPH_echo_out ci b.out hc hb.out)
  unfold replyFor replyTail
  cases hf : b.form with
  | none =>
    refine ⟨u0, ?_, hn0⟩
    have : ci ++ ['\n'] ++ b.out = u0 ++ ['\n'] := by simpa using hu0
    rw [this, promptFull_eq]; simp
  | before pad =>
    have hm := hb.msg (by rw [hf]; simp)
    refine ⟨nls pad ++ bannerText b.msg, ?_, ?_⟩
    · rw [promptFull_eq]; simp
    · have : noPH (nls pad ++ bannerText b.msg ++ []) = true := by
        rw [noPH_banner _ _ _ hm.noNL, noPH_nls']; decide
      simpa using this
  | inside off =>
    have hm := hb.msg (by rw [hf]; simp)
    obtain ⟨u1, hu1⟩ := echo_out_endsNL (ci.drop off) b.out hb.out
    refine ⟨ci.take off ++ bannerText b.msg ++ u1, ?_, ?_⟩
    · have : ci.drop off ++ ['\n'] ++ b.out = u1 ++ ['\n'] := by simpa using hu1
      rw [promptFull_eq]
      calc ci.take off ++ bannerText b.msg ++ ci.drop off ++ ['\n'] ++ b.out ++ prompt ++ rest
          = ci.take off ++ bannerText b.msg ++ (ci.drop off ++ ['\n'] ++ b.out) ++ prompt ++ rest := by simp
        _ = _ := by rw [this]; simp
    · apply noPH_drop_last
      have e : ci.take off ++ bannerText b.msg ++ u1 ++ ['\n'] =
          ci.take off ++ bannerText b.msg ++ (ci.drop off ++ '\n' :: b.out) := by rw [hu1]; simp
      rw [e, noPH_banner _ _ _ hm.noNL]
      have h1 : noPH (ci.take off) = true := noPH_of_no_nl _ (fun e => hc.noNL (List.mem_of_mem_take e))
      have h2 : routerName.isPrefixOf (ci.drop off ++ '\n' :: b.out) = false := by
        rw [isPrefixOf_append_of_not_mem _ _ _ _ (by decide)]; exact hc.noName off
      have h3 : noPH (ci.drop off ++ '\n' :: b.out) = true := by
        have h := hb.out.noName
        rw [noPH] at h
        simp only [bne_self_eq_false, Bool.false_or, Bool.and_eq_true, Bool.not_eq_true'] at h
        rw [noPH_append_nl, noPH_of_no_nl _ (fun e => hc.noNL (List.mem_of_mem_drop e)), h.1, h.2]; rfl
      simp [h1, h2, h3]
  | afterPrompt pad =>
    have hm := hb.msg (by rw [hf]; simp)
    have hbody : dropLastNL (ci ++ ['\n'] ++ b.out) = u0 := by
      have : ci ++ ['\n'] ++ b.out = u0 ++ ['\n'] := by simpa using hu0
      rw [this]; exact dropLastNL_snoc u0
    refine ⟨u0 ++ nls pad ++ bannerText b.msg, ?_, ?_⟩
    · rw [hbody, promptFull_eq]; simp
    · have : noPH (u0 ++ nls pad ++ bannerText b.msg ++ []) = true := by
        rw [noPH_banner _ _ _ hm.noNL, noPH_append_nls, hn0]; decide
      simpa using this
  | after =>
    have hm := hb.msg (by rw [hf]; simp)
    have hbody : dropLastNL (ci ++ ['\n'] ++ b.out) = u0 := by
      have : ci ++ ['\n'] ++ b.out = u0 ++ ['\n'] := by simpa using hu0
      rw [this]; exact dropLastNL_snoc u0
    refine ⟨u0 ++ bannerText b.msg, ?_, ?_⟩
    · rw [hbody, promptFull_eq]; simp
    · have : noPH (u0 ++ bannerText b.msg ++ []) = true := by
        rw [noPH_banner _ _ _ hm.noNL, hn0]; decide
      simpa using this
  | afterLine pre post =>
    have hm := hb.msg (by rw [hf]; simp)
    have hline : ci ++ ['\n'] ++ b.out = u0 ++ ['\n'] := by simpa using hu0
    obtain ⟨u', hu'⟩ : ∃ u', u0 ++ nls (pre + 1) ++ bannerText b.msg ++ nls post = u' ++ ['\n'] := by
      cases post with
      | zero => exact ⟨u0 ++ nls (pre + 1) ++ (bannerHead ++ b.msg ++ lit "\n***"), by
          rw [bannerText_snoc]; simp [nls]⟩
      | succ k => exact ⟨u0 ++ nls (pre + 1) ++ bannerText b.msg ++ nls k, by
          rw [← nls_add k 1]; simp [nls]⟩
    have hn' : noPH u' = true := by
      apply noPH_drop_last
      rw [← hu', noPH_banner _ _ _ hm.noNL, noPH_append_nls, hn0, router_not_prefix_nls, noPH_nls']; rfl
    refine ⟨u', ?_, hn'⟩
    have e : ci ++ ['\n'] ++ b.out ++ nls pre ++ bannerText b.msg ++ nls post ++ prompt ++ rest =
        (u0 ++ nls (pre + 1) ++ bannerText b.msg ++ nls post) ++ prompt ++ rest := by
      rw [hline, nls_succ]; simp
    rw [e, hu', promptFull_eq]; simp

/-- banner placements that leave ONE prompt in the answer -/
def singlePrompt (f : Form) : Bool :=
  match f with
  | .before _ => false
  | .afterPrompt _ => false
  | _ => true

theorem replyTail_single (ci : Str) (b : Behav) (h : singlePrompt b.form = true) : replyTail ci b [] = [] := by
  unfold replyTail
  cases hf : b.form <;> simp_all [singlePrompt]

theorem isKey_ne_reload (s : Str) (h : isKey s = true) : s ≠ reloadCmd := by
  unfold isKey at h
  simp only [Bool.or_eq_true, beq_iff_eq] at h
  rcases h with (rfl | rfl) | rfl <;> decide

theorem wide_step_key (d : SimSt) (s : Str) (b : Behav) (hocc : d.occ = armedMark) (hk : isKey s = true)
    (hfb : fb s = some b) :
    (wideDevice na fb).step d s =
      (((simDevice [] na).step d s).1, replyFor s { b with out := stdOutOf s }) := by
  have h1 := isKey_ne_reload s hk
  simp [wideDevice, h1, hocc, hk, hfb]

theorem wide_step_key_none (d : SimSt) (s : Str) (hk : isKey s = true) (hfb : fb s = none) :
    (wideDevice na fb).step d s = (simDevice [] na).step d s := by
  have h1 := isKey_ne_reload s hk
  simp [wideDevice, h1, hfb]

theorem cleanCmd_conf : CleanCmd confCmd := cleanCmd_of_B confCmd (by decide +kernel)
theorem cleanOut_conf : CleanOut confOut := cleanOut_of_B confOut (by decide +kernel)

/-- the second `configure terminal` with a banner that leaves one prompt: consumed completely -/
theorem conf_wide (st : St SimSt) (hp : st.pend = []) (hparts : st.dev.parts = []) (hocc : st.dev.occ = armedMark)
    (hfb : ∀ b, fb confCmd = some b → singlePrompt b.form = true ∧ (b.form ≠ .none → CleanMsg b.msg)) :
    sendCmd (wideDevice na fb) confCmd st = (.ok (), { st with pend := [], trace := st.trace ++ [confCmd] }) := by
  have hin := simStep_std na st.dev confCmd _ [] hparts (std_conf na) (by decide)
  rw [simDev_parts_nil st.dev hparts] at hin
  cases hb : fb confCmd with
  | none =>
    have := sendCmd_eval (wideDevice na fb) st confCmd confReply st.dev (confReply.length - 8)
      (by rw [wide_step_key_none na fb _ _ (by decide) hb]; exact hin) hp (by decide +kernel)
    exact this
  | some b =>
    obtain ⟨hsp, hmsg⟩ := hfb b hb
    have hcb : CleanBehav { b with out := stdOutOf confCmd } :=
      ⟨by show CleanOut (stdOutOf confCmd); have : stdOutOf confCmd = confOut := by decide
          rw [this]; exact cleanOut_conf, hmsg⟩
    obtain ⟨u, hu, hnu⟩ := reply_split confCmd { b with out := stdOutOf confCmd } [] cleanCmd_conf hcb
    rw [replyTail_single confCmd { b with out := stdOutOf confCmd } hsp] at hu
    simp only [List.append_nil] at hu
    have hstep : (wideDevice na fb).step st.dev confCmd =
        (st.dev, replyFor confCmd { b with out := stdOutOf confCmd }) := by
      rw [wide_step_key na fb _ _ b hocc (by decide) hb, hin]
    have hpf : promptFind (replyFor confCmd { b with out := stdOutOf confCmd }) =
        some (u.length, (replyFor confCmd { b with out := stdOutOf confCmd }).length) := by
      rw [hu]
      have := promptFind_at u [] hnu rfl
      have e : u ++ promptFull = u ++ promptHead ++ '#' :: [] := by simp [promptFull]
      rw [e, this]
      simp [promptHead_len]
    exact sendCmd_eval (wideDevice na fb) st confCmd _ st.dev u.length hstep hp hpf

theorem lastHash_some (s : Str) (i a : Nat) : ∃ e, lastHash s i (some a) = some e := by
  induction s generalizing i a with
  | nil => exact ⟨a, rfl⟩
  | cons c s ih =>
    unfold lastHash
    split
    · exact ⟨a, rfl⟩
    · split
      · exact ih _ _
      · exact ih _ _

/-- a prompt followed by anything is found, whatever precedes it -/
theorem promptFind_exists2 (X v : Str) : ∃ r, promptFind (X ++ promptHead ++ '#' :: v) = some r := by
  induction X with
  | nil =>
    have h1 : promptHead.isPrefixOf (promptHead ++ '#' :: v) = true := isPrefixOf_self_append _ _
    have h2 : (promptHead ++ '#' :: v).drop 7 = '#' :: v := by
      have := drop_length_append promptHead ('#' :: v); rwa [promptHead_len] at this
    obtain ⟨e, he⟩ : ∃ e, lastHash ('#' :: v) 0 none = some e := by
      unfold lastHash
      simp only [show isReSpace '#' = false by decide, Bool.false_eq_true, if_false, beq_self_eq_true, if_true]
      exact lastHash_some v 1 1
    have hne : promptHead ++ '#' :: v = '\n' :: (routerName ++ '#' :: v) := by rw [promptHead_eq]; rfl
    show ∃ r, promptFind ([] ++ promptHead ++ '#' :: v) = some r
    simp only [List.nil_append]
    rw [hne]; unfold promptFind; rw [← hne, h1]
    simp only [if_true, promptHead_len, h2, he, Option.map_some]
    exact ⟨_, rfl⟩
  | cons c X ih =>
    obtain ⟨r, hr⟩ := ih
    show ∃ r, promptFind (c :: (X ++ promptHead ++ '#' :: v)) = some r
    unfold promptFind
    simp only
    split
    · exact ⟨_, rfl⟩
    · rw [hr]; exact ⟨_, rfl⟩

theorem cleanCmd_end : CleanCmd endCmd := cleanCmd_of_B endCmd (by decide +kernel)
theorem cleanCmd_cancel : CleanCmd cancelCmd := cleanCmd_of_B cancelCmd (by decide +kernel)
theorem cleanOut_cancel : CleanOut cancelOut := cleanOut_of_B cancelOut (by decide +kernel)

/-- deferred `end` with a banner of any form, any left-over bytes -/
theorem end_wide (st : St SimSt) (hparts : st.dev.parts = []) (hocc : st.dev.occ = armedMark)
    (hfb : ∀ b, fb endCmd = some b → (b.form ≠ .none → CleanMsg b.msg)) :
    ∃ L', sendCmd (wideDevice na fb) endCmd st =
      (.ok (), { st with pend := L', trace := st.trace ++ [endCmd] }) := by
  have hin := simStep_plain na st.dev endCmd hparts (by cases na <;> decide) (by decide) (by decide)
  cases hb : fb endCmd with
  | none =>
    have hstep : (wideDevice na fb).step st.dev endCmd = (st.dev, endCmd ++ ['\n'] ++ prompt) := by
      rw [wide_step_key_none na fb _ _ (by decide) hb]; exact hin
    have e : st.pend ++ (endCmd ++ ['\n'] ++ prompt) = (st.pend ++ endCmd) ++ promptHead ++ '#' :: [] := by
      rw [prompt_eq, promptHead_eq]; simp
    obtain ⟨r, hr⟩ := promptFind_exists2 (st.pend ++ endCmd) []
    refine ⟨(st.pend ++ (endCmd ++ ['\n'] ++ prompt)).drop r.2, ?_⟩
    unfold sendCmd bindM send waitPrompt expectEnd pureM
    simp only [hstep, e, hr, Option.map_some]
  | some b =>
    have hcb : CleanBehav { b with out := stdOutOf endCmd } :=
      ⟨by show CleanOut (stdOutOf endCmd); have : stdOutOf endCmd = [] := by decide
          rw [this]; exact ⟨by decide, .inl rfl, by decide⟩, hfb b hb⟩
    obtain ⟨u, hu, _⟩ := reply_split endCmd { b with out := stdOutOf endCmd } [] cleanCmd_end hcb
    simp only [List.append_nil] at hu
    have hstep : (wideDevice na fb).step st.dev endCmd =
        (st.dev, replyFor endCmd { b with out := stdOutOf endCmd }) := by
      rw [wide_step_key na fb _ _ b hocc (by decide) hb, hin]
    have e : st.pend ++ replyFor endCmd { b with out := stdOutOf endCmd } =
        (st.pend ++ u) ++ promptHead ++ '#' :: replyTail endCmd { b with out := stdOutOf endCmd } [] := by
      rw [hu]; simp [promptFull]
    obtain ⟨r, hr⟩ := promptFind_exists2 (st.pend ++ u) (replyTail endCmd { b with out := stdOutOf endCmd } [])
    refine ⟨(st.pend ++ replyFor endCmd { b with out := stdOutOf endCmd }).drop r.2, ?_⟩
    unfold sendCmd bindM send waitPrompt expectEnd pureM
    simp only [hstep, e, hr, Option.map_some]

def abortLit : Str := lit "--- SHUTDOWN ABORTED ---"

theorem altFind_prefix (p X : Str) (hp : p ≠ []) : altFind [(p, false)] (p ++ X) = some p.length := by
  cases p with
  | nil => exact absurd rfl hp
  | cons c p =>
    show altFind [(c :: p, false)] (c :: (p ++ X)) = _
    unfold altFind
    have : altAt [(c :: p, false)] (c :: (p ++ X)) = some (c :: p).length := by
      unfold altAt
      have h := isPrefixOf_self_append (c :: p) X
      simp only [List.cons_append] at h
      simp [h]
    rw [this]

/-- the answer to `reload cancel` with a banner of any form still contains the `SHUTDOWN ABORTED`
text and ends in `#` -/
theorem cancel_reply_shape (b : Behav) :
    ∃ a c, replyFor cancelCmd { b with out := stdOutOf cancelCmd } = a ++ abortLit ++ c ++ ['#'] := by
  have ho : stdOutOf cancelCmd = lit "\n\n***\n*** " ++ abortLit ++ lit "\n***\n" := by decide +kernel
  have hp : prompt = routerName ++ ['#'] := by decide
  have hd : dropLastNL (cancelCmd ++ ['\n'] ++ stdOutOf cancelCmd) =
      cancelCmd ++ ['\n'] ++ lit "\n\n***\n*** " ++ abortLit ++ lit "\n***" := by decide +kernel
  unfold replyFor
  cases hf : b.form with
  | none =>
    exact ⟨cancelCmd ++ ['\n'] ++ lit "\n\n***\n*** ", lit "\n***\n" ++ routerName, by
      simp only [ho, hp]; simp [List.append_assoc]⟩
  | before pad =>
    exact ⟨nls pad ++ bannerText b.msg ++ ['\n'] ++ prompt ++ cancelCmd ++ ['\n'] ++ lit "\n\n***\n*** ",
      lit "\n***\n" ++ routerName, by
      simp only [ho]; conv => lhs; rw [show ∀ x : Str, x ++ prompt = x ++ routerName ++ ['#'] from fun x => by rw [hp]; simp]
      simp [List.append_assoc]⟩
  | inside off =>
    exact ⟨cancelCmd.take off ++ bannerText b.msg ++ cancelCmd.drop off ++ ['\n'] ++ lit "\n\n***\n*** ",
      lit "\n***\n" ++ routerName, by
      simp only [ho, hp]; simp [List.append_assoc]⟩
  | afterPrompt pad =>
    exact ⟨cancelCmd ++ ['\n'] ++ lit "\n\n***\n*** ",
      lit "\n***" ++ nls pad ++ bannerText b.msg ++ ['\n'] ++ prompt ++ ['\n'] ++ routerName, by
      simp only [hd]; conv => lhs; rw [show ∀ x : Str, x ++ prompt = x ++ routerName ++ ['#'] from fun x => by rw [hp]; simp]
      simp [List.append_assoc]⟩
  | after =>
    exact ⟨cancelCmd ++ ['\n'] ++ lit "\n\n***\n*** ",
      lit "\n***" ++ bannerText b.msg ++ ['\n'] ++ routerName, by
      simp only [hd, hp]; simp [List.append_assoc]⟩
  | afterLine pre post =>
    exact ⟨cancelCmd ++ ['\n'] ++ lit "\n\n***\n*** ",
      lit "\n***\n" ++ nls pre ++ bannerText b.msg ++ nls post ++ routerName, by
      simp only [ho, hp]; simp [List.append_assoc]⟩

/-- deferred `reload cancel` with a banner of any form on its line, any left-over bytes -/
theorem cancel_wide (st : St SimSt) (hparts : st.dev.parts = []) (hocc : st.dev.occ = armedMark) :
    cancelReload (wideDevice na fb) st =
      (.ok (), { st with pend := [], reloadActive := false, trace := st.trace ++ [cancelCmd, []] }) := by
  have hse : splitOnNL ([] : Str) = [[]] := by decide
  have hin := simStep_std na st.dev cancelCmd cancelReply [] hparts (std_cancel na) (by decide)
  rw [simDev_parts_nil st.dev hparts] at hin
  -- the answer, with or without banner: a ++ "--- SHUTDOWN ABORTED ---" ++ c ++ "#"
  obtain ⟨R, hstep, a, c, hR⟩ : ∃ R, (wideDevice na fb).step st.dev cancelCmd = (st.dev, R) ∧
      ∃ a c, R = a ++ abortLit ++ c ++ ['#'] := by
    cases hb : fb cancelCmd with
    | none =>
      refine ⟨cancelReply, by rw [wide_step_key_none na fb _ _ (by decide) hb]; exact hin, ?_⟩
      have := cancel_reply_shape {}
      have e : replyFor cancelCmd { ({} : Behav) with out := stdOutOf cancelCmd } = cancelReply := by decide +kernel
      rw [e] at this; exact this
    | some b =>
      exact ⟨_, by rw [wide_step_key na fb _ _ b hocc (by decide) hb, hin], cancel_reply_shape b⟩
  have hfind0 : altFind [(abortLit, false)] (abortLit ++ (c ++ ['#'])) = some abortLit.length :=
    altFind_prefix abortLit _ (by decide)
  obtain ⟨e, hfind, hle⟩ := altFind_append_exists abortLit (st.pend ++ a) (abortLit ++ (c ++ ['#'])) _ hfind0
  have heq : st.pend ++ R = (st.pend ++ a) ++ (abortLit ++ (c ++ ['#'])) := by rw [hR]; simp
  have heq2 : st.pend ++ R = (st.pend ++ a ++ abortLit ++ c) ++ ['#'] := by rw [hR]; simp
  have he' : e ≤ (st.pend ++ a ++ abortLit ++ c).length := by
    simp only [List.length_append] at hle ⊢; omega
  have ha2 : endsWithHash ((st.pend ++ R).drop e) = true := by
    rw [heq2]; exact endsWithHash_drop _ e he'
  have hle2 : e ≤ (st.pend ++ R).length := by
    rw [heq2]; simp only [List.length_append] at he' ⊢; omega
  have := cancelReload_eval_any (wideDevice na fb) st R ([] ++ ['\n'] ++ prompt) _ _ e 0 hstep
    (by rw [heq]; exact hfind) hle2 ha2
    (by rw [wide_step_pass na fb _ _ pass_empty]
        exact simStep_plain na st.dev [] hparts (by cases na <;> decide) (by decide) hse) (by decide +kernel)
  rw [this]

/-! ### whole runs against the widened device -/

/-- admissible banners on the fixed lines: any form on `end` and `reload cancel`; on the second
`configure terminal` the forms that leave one prompt (the others are finding F-C15e) -/
structure FbOK (fb : Str → Option Behav) : Prop where
  conf : ∀ b, fb confCmd = some b → singlePrompt b.form = true ∧ (b.form ≠ .none → CleanMsg b.msg)
  endc : ∀ b, fb endCmd = some b → (b.form ≠ .none → CleanMsg b.msg)

theorem apply_wide (gs : List Chg) (q : List Behav) (st0 : St SimSt) (hfb : FbOK fb)
    (hp : st0.pend = []) (ht : st0.trace = []) (hparts : st0.dev.parts = []) (hocc : st0.dev.occ = [])
    (hq : st0.dev.queue = gs.flatMap Chg.behavs ++ q) (hc : ∀ g ∈ gs, g.Clean ∧ g.NoProbeFirst) :
    let o := applyCommands (wideDevice na fb) true (gs.map Chg.cmd) st0
    (specOk gs = true → o.1 = .ok () ∧ o.2.trace = fullTrace na gs) ∧
    (specOk gs = false → (∃ ci R out, o.1 = .abort (.unexpectedOutput ci R) ∧ firstBad gs = some (ci, out) ∧
        neLines R = neLines out) ∧ o.2.trace = failTrace na gs) ∧
    o.2.warns = st0.warns ++ specWarns gs ∧ o.2.reloadActive = false ∧ o.2.pend = [] := by
  intro o
  let D := wideDevice na fb
  let s1 : St SimSt := { st0 with pend := [], trace := st0.trace ++ prepCmds }
  have e1 : prepareDevice D st0 = (.ok (), s1) := prepare_wide na fb st0 hp hparts hocc
  let s2 : St SimSt := { s1 with dev := { s1.dev with occ := armedMark }, pend := [], reloadActive := true,
                                  trace := s1.trace ++ schedLines na }
  have e2 : scheduleReload D s1 = (.ok (), s2) := schedule_wide na fb s1 rfl hparts
  let s3 : St SimSt := { s2 with pend := [], trace := s2.trace ++ [confCmd] }
  have e3 : sendCmd D confCmd s2 = (.ok (), s3) := conf_wide na fb s2 rfl hparts rfl hfb.conf
  have hr3 : Ready s3 := ⟨rfl, rfl, hparts⟩
  have hpass : ∀ c ∈ gs.map Chg.cmd, PassThru c := by
    intro c hcm
    obtain ⟨g, hg, rfl⟩ := List.mem_map.1 hcm
    exact Chg.pass g (hc g hg).1
  have hloopeq : changeLoop D true (gs.map Chg.cmd) = changeLoop (simDevice [] na) true (gs.map Chg.cmd) :=
    changeLoop_wide na fb true _ hpass
  obtain ⟨hl1, hl2, hl3, hl4, hl5⟩ := loop_spec na gs s3 q hr3 hq hc
  rw [← hloopeq] at hl1 hl2 hl3 hl4 hl5
  let s4 := (changeLoop D true (gs.map Chg.cmd) s3).2
  have hocc4 : s4.dev.occ = armedMark := hl5.2.2
  obtain ⟨L', e4⟩ := end_wide na fb s4 hl5.1 hocc4 hfb.endc
  let s5 : St SimSt := { s4 with pend := L', trace := s4.trace ++ [endCmd] }
  have e5 : cancelReload D s5 =
      (.ok (), { s5 with pend := [], reloadActive := false, trace := s5.trace ++ [cancelCmd, []] }) :=
    cancel_wide na fb s5 hl5.1 hocc4
  let s6 : St SimSt := { s5 with pend := [], reloadActive := false, trace := s5.trace ++ [cancelCmd, []] }
  have hbody : guardedBody D true (gs.map Chg.cmd) s2 = ((changeLoop D true (gs.map Chg.cmd) s3).1, s5) := by
    unfold guardedBody
    rw [bindM_snd_of_ok _ _ _ () (by rw [e3]), e3, finally_eq, e4]
    rfl
  have hguard : guarded D true (gs.map Chg.cmd) s1 = ((changeLoop D true (gs.map Chg.cmd) s3).1, s6) := by
    unfold guarded
    rw [bindM_snd_of_ok _ _ _ () (by rw [e2]), e2, finally_eq, hbody, e5]
    rfl
  have htr6 : s6.trace = prepCmds ++ schedLines na ++ [confCmd] ++ specTrace na gs ++ [endCmd] ++ [cancelCmd, []] := by
    show (changeLoop D true (gs.map Chg.cmd) s3).2.trace ++ [endCmd] ++ [cancelCmd, []] = _
    rw [hl1]; simp [s3, s2, s1, ht]
  have hw6 : s6.warns = st0.warns ++ specWarns gs := by
    show (changeLoop D true (gs.map Chg.cmd) s3).2.warns = _
    rw [hl2]
  cases hs : specOk gs with
  | true =>
    obtain ⟨hlok, _, _⟩ := hl3 hs
    have e6 : writeMem D 2 s6 = (.ok (), { s6 with pend := [], trace := s6.trace ++ [writeCmd] }) := by
      rw [writeMem_wide]; exact write_sim na s6 rfl hl5.1 2
    have ho : o = (.ok (), { s6 with pend := [], trace := s6.trace ++ [writeCmd] }) := by
      show applyCommands D true (gs.map Chg.cmd) st0 = _
      unfold applyCommands
      rw [bindM_snd_of_ok _ _ _ () (by rw [e1]), e1, bindM_snd_of_ok _ _ _ () (by rw [hguard, hlok]), hguard, e6]
    rw [ho]
    refine ⟨fun _ => ⟨rfl, ?_⟩, ?_, hw6, rfl, rfl⟩
    · show s6.trace ++ [writeCmd] = fullTrace na gs
      rw [htr6]; simp [fullTrace]
    · intro h; cases h
  | false =>
    obtain ⟨ci, R, out, hab, hfbad, hne⟩ := hl4 hs
    have ho : o = (.abort (.unexpectedOutput ci R), s6) := by
      show applyCommands D true (gs.map Chg.cmd) st0 = _
      unfold applyCommands
      rw [bindM_snd_of_ok _ _ _ () (by rw [e1]), e1, bindM_of_abort _ _ _ _ (by rw [hguard, hab]), hguard, hab]
    rw [ho]
    refine ⟨?_, fun _ => ⟨⟨ci, R, out, rfl, hfbad, hne⟩, ?_⟩, hw6, rfl, rfl⟩
    · intro h; cases h
    · show s6.trace = failTrace na gs
      rw [htr6]; simp [failTrace]

end NA.Ios
