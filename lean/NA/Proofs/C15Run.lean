import NA.Proofs.C15Loop
/-!
# C15 helper lemmas, part 7: the change loop against the scripted device, and its specification
-/
namespace NA.Ios

/-- one element of a change script together with what the device does on each of its lines -/
inductive Chg where
  | one (c : Str) (b : Behav)
  | two (c1 c2 : Str) (b1 b2 : Behav)

def Chg.cmd : Chg → Str
  | .one c _ => c
  | .two c1 c2 _ _ => c1 ++ '\n' :: c2

def Chg.behavs : Chg → List Behav
  | .one _ b => [b]
  | .two _ _ b1 b2 => [b1, b2]

def Chg.valid : Chg → Bool
  | .one _ b => validOut b.out
  | .two _ _ b1 b2 => validOut b1.out && validOut b2.out

/-- some line of the command was answered with a one-minute banner -/
def Chg.need : Chg → Bool
  | .one _ b => needOf b
  | .two _ _ b1 b2 => needOf b1 || needOf b2

def Chg.warns : Chg → List (Str × Str)
  | .one c b => warnsOf c b.out
  | .two c1 c2 b1 b2 => warnsOf c1 b1.out ++ (if validOut b1.out then warnsOf c2 b2.out else [])

/-- the first line whose output is rejected -/
def Chg.bad : Chg → Option (Str × Str)
  | .one c b => if validOut b.out then none else some (c, b.out)
  | .two c1 c2 b1 b2 =>
    if !validOut b1.out then some (c1, b1.out)
    else if !validOut b2.out then some (c2, b2.out) else none

def plainB (b : Behav) : Behav := { out := b.out }

/-- the same script without banners -/
def Chg.plain : Chg → Chg
  | .one c b => .one c (plainB b)
  | .two c1 c2 b1 b2 => .two c1 c2 (plainB b1) (plainB b2)

structure Chg.Clean (g : Chg) : Prop where
  cmds : match g with
    | .one c _ => ChangeCmd c
    | .two c1 c2 _ _ => ChangeCmd c1 ∧ ChangeCmd c2
  behavs : ∀ b ∈ g.behavs, CleanBehav b

/-- no probing placement in the first half of a joined line (complement of F-C15b) -/
def Chg.NoProbeFirst : Chg → Prop
  | .one _ _ => True
  | .two c1 _ b1 _ => probing c1 b1 = false

def specTrace (na : Bool) : List Chg → List Str
  | [] => []
  | g :: gs => g.cmd :: (if g.valid then (if g.need then rearmLines na else []) ++ specTrace na gs else [])

def specWarns : List Chg → List (Str × Str)
  | [] => []
  | g :: gs => g.warns ++ (if g.valid then specWarns gs else [])

def specOk (gs : List Chg) : Bool := gs.all Chg.valid

def firstBad : List Chg → Option (Str × Str)
  | [] => none
  | g :: gs => match g.bad with
    | some x => some x
    | none => firstBad gs

theorem Chg.bad_none_of_valid (g : Chg) (h : g.valid = true) : g.bad = none := by
  cases g with
  | one c b => simp [Chg.bad, Chg.valid] at *; simp [h]
  | two c1 c2 b1 b2 => simp [Chg.bad, Chg.valid] at *; simp [h.1, h.2]

/-- one element of the script -/
theorem cmd_chg (na : Bool) (g : Chg) (st : St SimSt) (q : List Behav) (hr : Ready st)
    (hq : st.dev.queue = g.behavs ++ q) (hc : g.Clean) (hn : g.NoProbeFirst) :
    let o := cmd (simDevice [] na) true g.cmd st
    o.2.trace = st.trace ++ g.cmd :: (if g.valid && g.need then rearmLines na else []) ∧
    o.2.warns = st.warns ++ g.warns ∧
    (g.valid = true → o.1 = .ok () ∧ Ready o.2 ∧ o.2.dev.queue = q) ∧
    (g.valid = false → ∃ ci R out, o.1 = .abort (.unexpectedOutput ci R) ∧ g.bad = some (ci, out) ∧
        neLines R = neLines out) ∧
    (o.2.dev.parts = [] ∧ o.2.reloadActive = true ∧ o.2.dev.occ = st.dev.occ) := by
  cases g with
  | one c b =>
    have h := cmd_one na st c b q hr hq hc.cmds (hc.behavs b (by simp [Chg.behavs]))
    refine ⟨h.1, h.2.1, h.2.2.1, fun hv => ?_, h.2.2.2.2⟩
    obtain ⟨R, h1, h2⟩ := h.2.2.2.1 hv
    exact ⟨c, R, b.out, h1, by simp [Chg.bad, Chg.valid] at *; simp [hv], h2⟩
  | two c1 c2 b1 b2 =>
    have h := cmd_two na st c1 c2 b1 b2 q hr hq hc.cmds.1 hc.cmds.2
      (hc.behavs b1 (by simp [Chg.behavs])) (hc.behavs b2 (by simp [Chg.behavs])) hn
    refine ⟨?_, ?_, ?_, ?_, h.2.2.2.2.2⟩
    · simpa [Chg.valid, Chg.need, Chg.cmd] using h.1
    · simpa [Chg.warns, Chg.cmd, List.append_assoc] using h.2.1
    · intro hv
      simp only [Chg.valid, Bool.and_eq_true] at hv
      exact h.2.2.1 hv.1 hv.2
    · intro hv
      cases hv1 : validOut b1.out with
      | false =>
        obtain ⟨R, h1, h2⟩ := h.2.2.2.1 hv1
        exact ⟨c1, R, b1.out, h1, by simp [Chg.bad, hv1], h2⟩
      | true =>
        have hv2 : validOut b2.out = false := by
          simp only [Chg.valid, hv1, Bool.true_and] at hv; exact hv
        obtain ⟨R, h1, h2⟩ := h.2.2.2.2.1 hv1 hv2
        exact ⟨c2, R, b2.out, h1, by simp [Chg.bad, hv1, hv2], h2⟩

/-- **the change loop against the scripted device** -/
theorem loop_spec (na : Bool) (gs : List Chg) (st : St SimSt) (q : List Behav) (hr : Ready st)
    (hq : st.dev.queue = gs.flatMap Chg.behavs ++ q) (hc : ∀ g ∈ gs, g.Clean ∧ g.NoProbeFirst) :
    let o := changeLoop (simDevice [] na) true (gs.map Chg.cmd) st
    o.2.trace = st.trace ++ specTrace na gs ∧
    o.2.warns = st.warns ++ specWarns gs ∧
    (specOk gs = true → o.1 = .ok () ∧ Ready o.2 ∧ o.2.dev.queue = q) ∧
    (specOk gs = false → ∃ ci R out, o.1 = .abort (.unexpectedOutput ci R) ∧
        firstBad gs = some (ci, out) ∧ neLines R = neLines out) ∧
    (o.2.dev.parts = [] ∧ o.2.reloadActive = true ∧ o.2.dev.occ = st.dev.occ) := by
  induction gs generalizing st with
  | nil =>
    refine ⟨by simp [changeLoop, forEach, pureM, specTrace], by simp [changeLoop, forEach, pureM, specWarns],
      fun _ => ⟨rfl, hr, by simpa [changeLoop, forEach, pureM] using hq⟩, ?_, ⟨hr.parts, hr.active, rfl⟩⟩
    intro h; cases h
  | cons g gs ih =>
    intro o
    have hg := hc g (by simp)
    have hq1 : st.dev.queue = g.behavs ++ (gs.flatMap Chg.behavs ++ q) := by
      rw [hq]; simp
    have h1 := cmd_chg na g st _ hr hq1 hg.1 hg.2
    have ho : o = bindM (cmd (simDevice [] na) true g.cmd)
        (fun _ => changeLoop (simDevice [] na) true (gs.map Chg.cmd)) st := rfl
    cases hv : g.valid with
    | true =>
      obtain ⟨hok, hr1, hq2⟩ := h1.2.2.1 hv
      rw [bindM_snd_of_ok _ _ _ () hok] at ho
      have h2 := ih (cmd (simDevice [] na) true g.cmd st).2 hr1 hq2 (fun x hx => hc x (by simp [hx]))
      rw [ho]
      refine ⟨?_, ?_, ?_, ?_, ⟨h2.2.2.2.2.1, h2.2.2.2.2.2.1, by rw [h2.2.2.2.2.2.2, h1.2.2.2.2.2.2]⟩⟩
      · rw [h2.1, h1.1]; simp [specTrace, hv]
      · rw [h2.2.1, h1.2.1]; simp [specWarns, hv]
      · intro hs
        have : specOk gs = true := by simp only [specOk, List.all_cons, hv, Bool.true_and] at hs; exact hs
        exact h2.2.2.1 this
      · intro hs
        have : specOk gs = false := by simp only [specOk, List.all_cons, hv, Bool.true_and] at hs; exact hs
        obtain ⟨ci, R, out, e1, e2, e3⟩ := h2.2.2.2.1 this
        exact ⟨ci, R, out, e1, by simp [firstBad, Chg.bad_none_of_valid g hv, e2], e3⟩
    | false =>
      obtain ⟨ci, R, out, e1, e2, e3⟩ := h1.2.2.2.1 hv
      rw [bindM_of_abort _ _ _ _ e1] at ho
      rw [ho]
      refine ⟨?_, ?_, ?_, ?_, h1.2.2.2.2⟩
      · rw [h1.1]; simp [specTrace, hv]
      · rw [h1.2.1]; simp [specWarns, hv]
      · intro hs; simp [specOk, hv] at hs
      · intro _; exact ⟨ci, R, out, rfl, by simp [firstBad, e2], e3⟩


/-! ### removing the banners from a script -/

/-- a `Send` that is not part of a re-arm exchange -/
def notRearm (s : Str) : Bool := !(s == doReloadCmd || s == lit "n" || s.isEmpty)

theorem cleanBehav_plain (b : Behav) (h : CleanBehav b) : CleanBehav (plainB b) :=
  ⟨h.out, fun hf => absurd rfl hf⟩

theorem probing_plain (c : Str) (b : Behav) : probing c (plainB b) = false := rfl
theorem needOf_plain (b : Behav) : needOf (plainB b) = false := rfl

theorem Chg.plain_clean (g : Chg) (h : g.Clean) : g.plain.Clean := by
  cases g with
  | one c b =>
    exact ⟨h.cmds, fun x hx => by
      simp [Chg.plain, Chg.behavs] at hx; subst hx
      exact cleanBehav_plain b (h.behavs b (by simp [Chg.behavs]))⟩
  | two c1 c2 b1 b2 =>
    exact ⟨h.cmds, fun x hx => by
      simp [Chg.plain, Chg.behavs] at hx
      rcases hx with rfl | rfl
      · exact cleanBehav_plain b1 (h.behavs b1 (by simp [Chg.behavs]))
      · exact cleanBehav_plain b2 (h.behavs b2 (by simp [Chg.behavs]))⟩

theorem Chg.plain_noProbe (g : Chg) : g.plain.NoProbeFirst := by
  cases g with
  | one c b => trivial
  | two c1 c2 b1 b2 => exact probing_plain c1 b1

@[simp] theorem Chg.plain_cmd (g : Chg) : g.plain.cmd = g.cmd := by cases g <;> rfl
@[simp] theorem Chg.plain_valid (g : Chg) : g.plain.valid = g.valid := by cases g <;> rfl
@[simp] theorem Chg.plain_warns (g : Chg) : g.plain.warns = g.warns := by cases g <;> rfl
@[simp] theorem Chg.plain_bad (g : Chg) : g.plain.bad = g.bad := by cases g <;> rfl
@[simp] theorem Chg.plain_need (g : Chg) : g.plain.need = false := by cases g <;> rfl

theorem specOk_plain (gs : List Chg) : specOk (gs.map Chg.plain) = specOk gs := by
  simp [specOk, List.all_map, Function.comp_def]

theorem specWarns_plain (gs : List Chg) : specWarns (gs.map Chg.plain) = specWarns gs := by
  induction gs with
  | nil => rfl
  | cons g gs ih => simp [specWarns, ih]

theorem firstBad_plain (gs : List Chg) : firstBad (gs.map Chg.plain) = firstBad gs := by
  induction gs with
  | nil => rfl
  | cons g gs ih => simp [firstBad, ih]

theorem notRearm_change (c : Str) (h : ChangeCmd c) : notRearm c = true := by
  have hch := h.change
  have hres : reserved c = false ∧ plainVocab c = false := by
    unfold isChange at hch
    cases hr : reserved c <;> cases hv : plainVocab c <;> simp_all
  have h1 : (c == doReloadCmd) = false := by
    have := hres.1; unfold reserved isReloadIn at this
    cases ha : (c == reloadCmd) <;> cases hb : (c == doReloadCmd) <;> simp_all
  have h2 : (c == lit "n") = false ∧ c.isEmpty = false := by
    have := hres.2; unfold plainVocab at this
    cases ha : c.isEmpty <;> cases hb : (c == lit "n") <;> simp_all
  simp [notRearm, h1, h2.1, h2.2]

theorem notRearm_joined (c1 c2 : Str) : notRearm (c1 ++ '\n' :: c2) = true := by
  have hmem : '\n' ∈ c1 ++ '\n' :: c2 := by simp
  have h1 : (c1 ++ '\n' :: c2 == doReloadCmd) = false := by
    cases h : (c1 ++ '\n' :: c2 == doReloadCmd) with
    | false => rfl
    | true =>
      have e : c1 ++ '\n' :: c2 = doReloadCmd := by simpa using h
      rw [e] at hmem; revert hmem; decide
  have h2 : (c1 ++ '\n' :: c2 == lit "n") = false := by
    cases h : (c1 ++ '\n' :: c2 == lit "n") with
    | false => rfl
    | true =>
      have e : c1 ++ '\n' :: c2 = lit "n" := by simpa using h
      rw [e] at hmem; revert hmem; decide
  have h3 : (c1 ++ '\n' :: c2).isEmpty = false := by
    cases c1 <;> rfl
  simp [notRearm, h1, h2, h3]

theorem Chg.notRearm_cmd (g : Chg) (h : g.Clean) : notRearm g.cmd = true := by
  cases g with
  | one c b => exact notRearm_change c h.cmds
  | two c1 c2 b1 b2 => exact notRearm_joined c1 c2

theorem filter_rearmLines (na : Bool) : (rearmLines na).filter notRearm = [] := by cases na <;> decide

theorem specTrace_plain (na : Bool) (gs : List Chg) (hc : ∀ g ∈ gs, g.Clean) :
    specTrace na (gs.map Chg.plain) = (specTrace na gs).filter notRearm := by
  induction gs with
  | nil => rfl
  | cons g gs ih =>
    have hg := Chg.notRearm_cmd g (hc g (by simp))
    have ih' := ih (fun x hx => hc x (by simp [hx]))
    simp only [List.map_cons, specTrace, Chg.plain_cmd, Chg.plain_valid, Chg.plain_need,
      Bool.false_eq_true, if_false, List.nil_append, List.filter_cons, hg, if_true]
    cases hv : g.valid with
    | false => simp
    | true =>
      cases hn : g.need with
      | false => simp [ih']
      | true => simp [ih', List.filter_append, filter_rearmLines]

theorem specTrace_append_ok (na : Bool) (pre post : List Chg) (h : specOk pre = true) :
    specTrace na (pre ++ post) =
      (pre.flatMap fun g => g.cmd :: (if g.need then rearmLines na else [])) ++ specTrace na post := by
  induction pre with
  | nil => rfl
  | cons g pre ih =>
    simp only [specOk, List.all_cons, Bool.and_eq_true] at h
    have := ih (by simpa [specOk] using h.2)
    simp [specTrace, h.1, this]

end NA.Ios
