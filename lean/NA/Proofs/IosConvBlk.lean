import NA.Proofs.IosConvPlan
/-!
Helpers for the convergence of the IOS planner, part 5: what the block ids mean
(`markBlocks`, `insideBlock`, `splitFrom`, `blockPass`) for ACLs without remark lines.

`Good al blk mx R`: equal ids ⇒ one stretch of device lines of the same action, and every insert
run of `R` that lies strictly inside such a stretch consists of lines of that action only.
-/
namespace NA.Acl

attribute [-simp] List.getD_eq_getElem?_getD
attribute [local simp] List.getD_cons_zero List.getD_cons_succ

def noRemark (al : List Line) : Prop := ∀ l ∈ al, l.remark = false

theorem act_ne_remark {l : Line} (h : l.remark = false) : (l.act == Act.remark) = false := by
  unfold Line.act
  rw [h]
  cases l.permit <;> rfl

theorem default_line_remark : (default : Line).remark = false := rfl

theorem getD_remark (al : List Line) (h : noRemark al) (i : Nat) : (al.getD i default).remark = false := by
  rw [List.getD_eq_getElem?_getD]
  by_cases hi : i < al.length
  · rw [List.getElem?_eq_getElem hi]; exact h _ (List.getElem_mem _)
  · rw [List.getElem?_eq_none (by omega)]; rfl

theorem act_eq_permit {a b : Line} (ha : a.remark = false) (hb : b.remark = false)
    (h : a.act = b.act) : a.permit = b.permit := by
  unfold Line.act at h
  rw [ha, hb] at h
  cases hp : a.permit <;> cases hq : b.permit <;> simp [hp, hq] at h ⊢

/-! ### `markBlocks` -/

theorem markBlocks_cons (l : Line) (ls : List Line) (id : Nat) (cur : Option Act)
    (hl : l.remark = false) :
    ∃ h, markBlocks (l :: ls) id cur = h :: markBlocks ls h (some l.act) ∧ id ≤ h := by
  simp only [markBlocks, act_ne_remark hl, Bool.false_or]
  by_cases hc : (some l.act == cur) = true
  · have : cur = some l.act := by simpa using Eq.symm (by simpa using hc : some l.act = cur)
    rw [if_pos hc, this]
    exact ⟨id, rfl, Nat.le_refl _⟩
  · rw [if_neg hc]
    exact ⟨_, rfl, by split <;> omega⟩

theorem markBlocks_length (al : List Line) (id : Nat) (cur : Option Act) :
    (markBlocks al id cur).length = al.length := by
  induction al generalizing id cur with
  | nil => rfl
  | cons l ls ih =>
    simp only [markBlocks]
    split <;> simp [ih]

theorem markBlocks_ge (al : List Line) (hnr : noRemark al) (id : Nat) (cur : Option Act) :
    ∀ x ∈ markBlocks al id cur, id ≤ x := by
  induction al generalizing id cur with
  | nil => simp [markBlocks]
  | cons l ls ih =>
    obtain ⟨h, heq, hle⟩ := markBlocks_cons l ls id cur (hnr l List.mem_cons_self)
    rw [heq]
    intro x hx
    rcases List.mem_cons.mp hx with rfl | hx
    · exact hle
    · have := ih (fun l' hl' => hnr l' (List.mem_cons_of_mem _ hl')) h _ x hx
      omega

theorem markBlocks_mono (al : List Line) (hnr : noRemark al) (id : Nat) (cur : Option Act) :
    (markBlocks al id cur).Pairwise (· ≤ ·) := by
  induction al generalizing id cur with
  | nil => simp [markBlocks]
  | cons l ls ih =>
    have hnr' : noRemark ls := fun l' hl' => hnr l' (List.mem_cons_of_mem _ hl')
    obtain ⟨h, heq, _⟩ := markBlocks_cons l ls id cur (hnr l List.mem_cons_self)
    rw [heq]
    exact List.pairwise_cons.mpr ⟨markBlocks_ge ls hnr' h _, ih hnr' h _⟩

theorem getD_mem_or {xs : List Nat} {z : Nat} (hz : z < xs.length) : xs.getD z 0 ∈ xs := by
  rw [List.getD_eq_getElem?_getD, List.getElem?_eq_getElem hz]
  exact List.getElem_mem _

theorem markBlocks_act (al : List Line) (hnr : noRemark al) (id : Nat) (a : Act) (z : Nat)
    (hz : z < al.length) (h : (markBlocks al id (some a)).getD z 0 = id) :
    (al.getD z default).act = a := by
  induction al generalizing z with
  | nil => simp at hz
  | cons l ls ih =>
    have hnr' : noRemark ls := fun l' hl' => hnr l' (List.mem_cons_of_mem _ hl')
    have hl := hnr l List.mem_cons_self
    simp only [markBlocks, act_ne_remark hl, Bool.false_or] at h
    by_cases hc : l.act = a
    · subst hc
      simp only [beq_self_eq_true, if_true] at h
      cases z with
      | zero => simp
      | succ z =>
        simp only [List.getD_cons_succ] at h ⊢
        exact ih hnr' z (by simpa using hz) h
    · have hc' : (some l.act == some a) = false := by simpa using hc
      simp only [hc', Bool.false_eq_true, if_false, Option.isSome_some, if_true] at h
      exfalso
      cases z with
      | zero => simp at h
      | succ z =>
        simp only [List.getD_cons_succ] at h
        have hz' : z < (markBlocks ls (id + 1) (some l.act)).length := by
          rw [markBlocks_length]; simpa using hz
        have := markBlocks_ge ls hnr' (id + 1) _ _ (getD_mem_or hz')
        omega

theorem markBlocks_same (al : List Line) (hnr : noRemark al) (id : Nat) (cur : Option Act)
    (x y : Nat) (hxy : x ≤ y) (hy : y < al.length)
    (h : (markBlocks al id cur).getD x 0 = (markBlocks al id cur).getD y 0) :
    (al.getD x default).act = (al.getD y default).act := by
  induction al generalizing id cur x y with
  | nil => simp at hy
  | cons l ls ih =>
    have hnr' : noRemark ls := fun l' hl' => hnr l' (List.mem_cons_of_mem _ hl')
    obtain ⟨hd, heq, _⟩ := markBlocks_cons l ls id cur (hnr l List.mem_cons_self)
    rw [heq] at h
    cases y with
    | zero =>
      have : x = 0 := by omega
      subst this; rfl
    | succ y =>
      cases x with
      | zero =>
        simp only [List.getD_cons_zero, List.getD_cons_succ] at h ⊢
        exact (markBlocks_act ls hnr' hd l.act y (by simpa using hy) h.symm).symm
      | succ x =>
        simp only [List.getD_cons_succ] at h ⊢
        exact ih hnr' hd _ x y (by omega) (by simpa using hy) h

theorem pairwise_le_getD {xs : List Nat} (h : xs.Pairwise (· ≤ ·)) {x y : Nat} (hxy : x ≤ y)
    (hy : y < xs.length) : xs.getD x 0 ≤ xs.getD y 0 := by
  rcases Nat.lt_or_ge x y with hlt | hge
  · have := List.pairwise_iff_getElem.mp h x y (by omega) hy hlt
    rw [List.getD_eq_getElem?_getD, List.getD_eq_getElem?_getD,
      List.getElem?_eq_getElem (by omega : x < xs.length), List.getElem?_eq_getElem hy]
    exact this
  · have : x = y := by omega
    subst this; exact Nat.le_refl _

theorem foldl_max_ge (xs : List Nat) (m : Nat) : m ≤ xs.foldl max m ∧ ∀ x ∈ xs, x ≤ xs.foldl max m := by
  induction xs generalizing m with
  | nil => simp
  | cons a xs ih =>
    simp only [List.foldl_cons]
    obtain ⟨h1, h2⟩ := ih (max m a)
    refine ⟨by omega, ?_⟩
    intro x hx
    rcases List.mem_cons.mp hx with rfl | hx
    · omega
    · exact h2 x hx

/-! ### `splitFrom` -/

theorem splitFrom_length (xs : List Nat) (k id n : Nat) : (splitFrom xs k id n).length = xs.length := by
  induction xs generalizing k with
  | nil => simp [splitFrom]
  | cons x xs ih =>
    cases k with
    | zero =>
      simp only [splitFrom]
      split
      · simp [ih]
      · rfl
    | succ k => simp [splitFrom, ih]

/-- `z` is reached by the renaming loop. -/
def Reached (xs : List Nat) (k id z : Nat) : Prop :=
  k ≤ z ∧ z < xs.length ∧ ∀ w, k ≤ w → w ≤ z → xs.getD w 0 = id

theorem splitFrom_reached (xs : List Nat) (k id n z : Nat) (h : Reached xs k id z) :
    (splitFrom xs k id n).getD z 0 = n := by
  induction xs generalizing k z with
  | nil => obtain ⟨_, h2, _⟩ := h; simp at h2
  | cons x xs ih =>
    obtain ⟨h1, h2, h3⟩ := h
    cases k with
    | zero =>
      have hx : x = id := by simpa using h3 0 (by omega) (by omega)
      simp only [splitFrom, hx, beq_self_eq_true, if_true]
      cases z with
      | zero => simp
      | succ z =>
        simp only [List.getD_cons_succ]
        apply ih 0 z
        refine ⟨by omega, by simpa using h2, ?_⟩
        intro w _ hw
        have := h3 (w + 1) (by omega) (by omega)
        simpa using this
    | succ k =>
      cases z with
      | zero => omega
      | succ z =>
        simp only [splitFrom, List.getD_cons_succ]
        apply ih k z
        refine ⟨by omega, by simpa using h2, ?_⟩
        intro w hw1 hw2
        have := h3 (w + 1) (by omega) (by omega)
        simpa using this

theorem splitFrom_not_reached (xs : List Nat) (k id n z : Nat) (h : ¬ Reached xs k id z) :
    (splitFrom xs k id n).getD z 0 = xs.getD z 0 := by
  induction xs generalizing k z with
  | nil => simp [splitFrom]
  | cons x xs ih =>
    cases k with
    | zero =>
      simp only [splitFrom]
      by_cases hx : x = id
      · simp only [hx, beq_self_eq_true, if_true]
        cases z with
        | zero =>
          exfalso; apply h
          refine ⟨by omega, by simp, ?_⟩
          intro w _ hw
          have : w = 0 := by omega
          subst this; simp [hx]
        | succ z =>
          simp only [List.getD_cons_succ]
          apply ih 0 z
          intro hr
          obtain ⟨_, h2, h3⟩ := hr
          apply h
          refine ⟨by omega, by simpa using h2, ?_⟩
          intro w _ hw
          cases w with
          | zero => simp [hx]
          | succ w => simpa using h3 w (by omega) (by omega)
      · have : (x == id) = false := by simpa using hx
        simp [this]
    | succ k =>
      cases z with
      | zero => simp [splitFrom]
      | succ z =>
        simp only [splitFrom, List.getD_cons_succ]
        apply ih k z
        intro hr
        obtain ⟨h1, h2, h3⟩ := hr
        apply h
        refine ⟨by omega, by simpa using h2, ?_⟩
        intro w hw1 hw2
        cases w with
        | zero => omega
        | succ w => simpa using h3 w (by omega) (by omega)

/-! ### `insideBlock` without remarks -/

theorem filter_all_true {α : Type} (p : α → Bool) (l : List α) (h : ∀ x, p x = true) : l.filter p = l :=
  List.filter_eq_self.mpr fun x _ => h x

theorem range_reverse_head (n : Nat) : (List.range n).reverse.head? = if n = 0 then none else some (n - 1) := by
  cases n with
  | zero => rfl
  | succ n => simp [List.range_succ]

theorem range_map_head (n p : Nat) :
    ((List.range n).map (· + p)).head? = if n = 0 then none else some p := by
  cases n with
  | zero => rfl
  | succ n =>
    rw [List.range_succ_eq_map]
    simp

theorem insideBlock_some (al : List Line) (hnr : noRemark al) (blk : List Nat) (pos : Nat) (a : Act)
    (id : Nat) (h : insideBlock al blk pos = some (a, id)) :
    0 < pos ∧ pos < al.length ∧ (al.getD (pos - 1) default).act = a ∧
      (al.getD pos default).act = a ∧ id = blk.getD pos 0 := by
  have hp : ∀ i, ((al.getD i default).act != Act.remark) = true := by
    intro i
    have := act_ne_remark (getD_remark al hnr i)
    simp only [bne, this, Bool.not_false]
  unfold insideBlock at h
  simp only [filter_all_true _ _ hp, range_reverse_head, range_map_head] at h
  by_cases h0 : pos = 0
  · subst h0
    by_cases hl : al.length - 0 = 0
    · simp [hl] at h
    · simp at h
  · by_cases hl : al.length - pos = 0
    · simp [h0, hl] at h
    · simp only [h0, hl, if_false, Option.map_some] at h
      by_cases hact : (al.getD (pos - 1) default).act = (al.getD pos default).act
      · simp [hact] at h
        exact ⟨by omega, by omega, by rw [hact]; exact h.1, h.1, h.2.symm⟩
      · have : (some (al.getD (pos - 1) default).act == some (al.getD pos default).act) = false := by
          simpa using hact
        simp [this] at h

theorem insideBlock_none (al : List Line) (hnr : noRemark al) (blk : List Nat) (pos : Nat)
    (h : insideBlock al blk pos = none) :
    ¬ (0 < pos ∧ pos < al.length ∧ (al.getD (pos - 1) default).act = (al.getD pos default).act) := by
  have hp : ∀ i, ((al.getD i default).act != Act.remark) = true := by
    intro i
    have := act_ne_remark (getD_remark al hnr i)
    simp only [bne, this, Bool.not_false]
  rintro ⟨h1, h2, h3⟩
  unfold insideBlock at h
  simp only [filter_all_true _ _ hp, range_reverse_head, range_map_head] at h
  have h0 : pos ≠ 0 := by omega
  have hl : al.length - pos ≠ 0 := by omega
  simp [h0, hl, h3] at h

/-! ### The invariant of `blockPass` -/

structure Good (al : List Line) (blk : List Nat) (mx : Nat) (R : List (Nat × Nat × List Line)) :
    Prop where
  len : blk.length = al.length
  contig : ∀ x z y, x ≤ z → z ≤ y → y < al.length → blk.getD x 0 = blk.getD y 0 →
    blk.getD z 0 = blk.getD x 0
  act : ∀ x y, x ≤ y → y < al.length → blk.getD x 0 = blk.getD y 0 →
    (al.getD x default).act = (al.getD y default).act
  bound : ∀ z, z < al.length → blk.getD z 0 ≤ mx
  runs : ∀ r ∈ R, ∀ x y, x < r.1 → r.1 ≤ y → y < al.length → blk.getD x 0 = blk.getD y 0 →
    ∀ l ∈ r.2.2, l.act = (al.getD x default).act

theorem good_init (al : List Line) (hnr : noRemark al) : Good al (blocksOf al) (maxBlock al) [] where
  len := markBlocks_length _ _ _
  contig := by
    intro x z y hxz hzy hy h
    have hm := markBlocks_mono al hnr 1 none
    have hl : y < (markBlocks al 1 none).length := by rw [markBlocks_length]; exact hy
    have h1 := pairwise_le_getD hm hxz (by omega : z < _)
    have h2 := pairwise_le_getD hm hzy hl
    unfold blocksOf at h ⊢
    omega
  act := fun x y hxy hy h => markBlocks_same al hnr 1 none x y hxy hy h
  bound := by
    intro z hz
    have hl : z < (blocksOf al).length := by unfold blocksOf; rw [markBlocks_length]; exact hz
    exact (foldl_max_ge (blocksOf al) 1).2 _ (getD_mem_or hl)
  runs := by simp

def passStep (al : List Line) (s : List Nat × Nat) (run : Nat × Nat × List Line) : List Nat × Nat :=
  match insideBlock al s.1 run.1 with
  | some (action, id) =>
    if run.2.2.any (fun c => c.act != action) then (splitFrom s.1 run.1 id (s.2 + 1), s.2 + 1) else s
  | none => s

theorem blockPass_eq (al : List Line) (runs : List (Nat × Nat × List Line)) (blk : List Nat) (mx : Nat) :
    blockPass al runs blk mx = runs.foldl (passStep al) (blk, mx) := by
  unfold blockPass
  congr 1

theorem good_step (al : List Line) (hnr : noRemark al) (blk : List Nat) (mx : Nat)
    (R : List (Nat × Nat × List Line)) (h : Good al blk mx R) (r : Nat × Nat × List Line) :
    Good al (passStep al (blk, mx) r).1 (passStep al (blk, mx) r).2 (r :: R) := by
  obtain ⟨before, idx, ls⟩ := r
  unfold passStep
  simp only
  cases hib : insideBlock al blk before with
  | none =>
    simp only
    refine ⟨h.len, h.contig, h.act, h.bound, ?_⟩
    intro r hr x y hx hy hyl hxy
    rcases List.mem_cons.mp hr with rfl | hr
    · exfalso
      simp only at hx hy
      apply insideBlock_none al hnr blk before hib
      have e1 := h.contig x (before - 1) y (by omega) (by omega) hyl hxy
      have e2 := h.contig x before y (by omega) (by omega) hyl hxy
      exact ⟨by omega, by omega,
        h.act (before - 1) before (by omega) (by omega) (by rw [e1, e2])⟩
    · exact h.runs r hr x y hx hy hyl hxy
  | some ai =>
    obtain ⟨a, id⟩ := ai
    obtain ⟨hpos, hlt, ha1, ha2, hid⟩ := insideBlock_some al hnr blk before a id hib
    simp only
    by_cases hany : (ls.any fun c => c.act != a) = true
    · simp only [hany, if_true]
      -- the split
      have hreach : ∀ z, Reached blk before id z ↔ (before ≤ z ∧ z < al.length ∧ blk.getD z 0 = id) := by
        intro z
        constructor
        · rintro ⟨h1, h2, h3⟩
          exact ⟨h1, by rw [← h.len]; exact h2, h3 z h1 (Nat.le_refl _)⟩
        · rintro ⟨h1, h2, h3⟩
          refine ⟨h1, by rw [h.len]; exact h2, ?_⟩
          intro w hw1 hw2
          have := h.contig before w z hw1 hw2 h2 (by rw [← hid, h3])
          rw [this, ← hid]
      have hnew : ∀ z, Reached blk before id z → (splitFrom blk before id (mx + 1)).getD z 0 = mx + 1 :=
        fun z hz => splitFrom_reached blk before id (mx + 1) z hz
      have hold : ∀ z, ¬ Reached blk before id z →
          (splitFrom blk before id (mx + 1)).getD z 0 = blk.getD z 0 :=
        fun z hz => splitFrom_not_reached blk before id (mx + 1) z hz
      have hrefine : ∀ x y, x < al.length → y < al.length →
          (splitFrom blk before id (mx + 1)).getD x 0 = (splitFrom blk before id (mx + 1)).getD y 0 →
          blk.getD x 0 = blk.getD y 0 := by
        intro x y hx hy hxy
        by_cases hrx : Reached blk before id x <;> by_cases hry : Reached blk before id y
        · rw [((hreach x).mp hrx).2.2, ((hreach y).mp hry).2.2]
        · rw [hnew x hrx, hold y hry] at hxy
          have := h.bound y hy; omega
        · rw [hold x hrx, hnew y hry] at hxy
          have := h.bound x hx; omega
        · rw [hold x hrx, hold y hry] at hxy; exact hxy
      refine ⟨by rw [splitFrom_length]; exact h.len, ?_, ?_, ?_, ?_⟩
      · intro x z y hxz hzy hy hxy
        have hb := hrefine x y (by omega) hy hxy
        have hz := h.contig x z y hxz hzy hy hb
        by_cases hrx : Reached blk before id x
        · have hrz : Reached blk before id z := by
            rw [hreach] at hrx ⊢
            exact ⟨by omega, by omega, by rw [hz]; exact hrx.2.2⟩
          rw [hnew x hrx, hnew z hrz]
        · have hry : ¬ Reached blk before id y := by
            intro hry
            rw [hold x hrx, hnew y hry] at hxy
            have := h.bound x (by omega); omega
          have hrz : ¬ Reached blk before id z := by
            intro hrz
            apply hry
            rw [hreach] at hrz ⊢
            exact ⟨by omega, hy, by rw [← hb, ← hz]; exact hrz.2.2⟩
          rw [hold x hrx, hold z hrz]; exact hz
      · intro x y hxy hy hb
        exact h.act x y hxy hy (hrefine x y (by omega) hy hb)
      · intro z hz
        by_cases hrz : Reached blk before id z
        · rw [hnew z hrz]; exact Nat.le_refl _
        · rw [hold z hrz]; have := h.bound z hz; omega
      · intro r hr x y hx hy hyl hxy
        rcases List.mem_cons.mp hr with rfl | hr
        · exfalso
          simp only at hx hy
          have hb := hrefine x y (by omega) hyl hxy
          have hrx : ¬ Reached blk before id x := by
            intro hrx; have := hrx.1; omega
          have e2 := h.contig x before y (by omega) hy hyl hb
          have hry : Reached blk before id y := by
            rw [hreach]
            exact ⟨hy, hyl, by rw [← hb, ← e2, ← hid]⟩
          rw [hold x hrx, hnew y hry] at hxy
          have := h.bound x (by omega); omega
        · exact h.runs r hr x y hx hy hyl (hrefine x y (by omega) hyl hxy)
    · simp only [hany, Bool.false_eq_true, if_false]
      refine ⟨h.len, h.contig, h.act, h.bound, ?_⟩
      intro r hr x y hx hy hyl hxy
      rcases List.mem_cons.mp hr with rfl | hr
      · simp only at hx hy ⊢
        intro l hl
        have e2 := h.contig x before y (by omega) hy hyl hxy
        have hax := h.act x before (by omega) hlt e2.symm
        rw [hax, ha2]
        have hn : (ls.any fun c => c.act != a) = false := by simpa using hany
        have := (List.any_eq_false.mp hn) l hl
        simpa using this
      · exact h.runs r hr x y hx hy hyl hxy

theorem good_fold (al : List Line) (hnr : noRemark al) (runs : List (Nat × Nat × List Line))
    (blk : List Nat) (mx : Nat) (R : List (Nat × Nat × List Line)) (h : Good al blk mx R) :
    Good al (runs.foldl (passStep al) (blk, mx)).1 (runs.foldl (passStep al) (blk, mx)).2
      (runs.reverse ++ R) := by
  induction runs generalizing blk mx R with
  | nil => simpa using h
  | cons r runs ih =>
    simp only [List.foldl_cons, List.reverse_cons, List.append_assoc, List.singleton_append]
    have := good_step al hnr blk mx R h r
    exact ih _ _ _ this

/-- After `blockPass` over all insert runs. -/
theorem good_blockPass (al : List Line) (hnr : noRemark al) (runs : List (Nat × Nat × List Line)) :
    Good al (blockPass al runs (blocksOf al) (maxBlock al)).1
      (blockPass al runs (blocksOf al) (maxBlock al)).2 runs.reverse := by
  rw [blockPass_eq]
  simpa using good_fold al hnr runs _ _ [] (good_init al hnr)

end NA.Acl
