import NA.Proofs.C05Rule
/-!
C05: every option of the grammar, in the user's and in the kernel's spelling, is read back by the
parser as written (`OptOK`).
-/
namespace NA.C05
open NA.Linux NA.Linux.Spec

theorem isArg_of_head {x : Str} {c : Char} (h : x.head? = some c) (h1 : c ≠ '-') (h2 : c ≠ '!') :
    isArg x = true := by
  cases x with
  | nil => simp at h
  | cons d ds =>
    simp only [List.head?_cons, Option.some.injEq] at h
    subst h
    simp [isArg, startsWithDash, h1, h2]

theorem plainTok_head {w : Str} (h : plainTok w = true) : ∃ c, w.head? = some c ∧ c ≠ '-' ∧ c ≠ '!' := by
  cases w with
  | nil => simp [plainTok] at h
  | cons c cs =>
    simp only [plainTok, List.isEmpty_cons, Bool.not_false, List.head?_cons, bne_iff_ne, ne_eq, Option.some.injEq,
      Bool.and_eq_true, Bool.true_and, decide_eq_true_eq] at h
    exact ⟨c, rfl, h.1.1.2, h.2⟩

theorem plainTok_isArg_append {w : Str} (x : Str) (h : plainTok w = true) : isArg (w ++ x) = true := by
  obtain ⟨c, hc, h1, h2⟩ := plainTok_head h
  cases w with
  | nil => simp at hc
  | cons d ds => exact isArg_of_head (c := c) (by simpa using hc) h1 h2

theorem plainTok_isArg {w : Str} (h : plainTok w = true) : isArg w = true := by
  simpa using plainTok_isArg_append [] h

theorem ipTok_plain {w : Str} (h : ipTok w = true) : plainTok w = true := by
  simp only [ipTok, Bool.and_eq_true] at h; exact h.1

theorem digit_ne {c : Char} (h : isDigit c = true) : c ≠ '-' ∧ c ≠ '!' := by
  simp only [isDigit, Bool.and_eq_true, decide_eq_true_eq] at h
  have h1 : 48 ≤ c.toNat := h.1
  constructor <;> (intro e; subst e; simp at h1)

theorem canonNum_isArg_append {d : Str} (x : Str) (h : canonNum d = true) : isArg (d ++ x) = true := by
  have hd := canonNum_digits h
  cases d with
  | nil => simp [canonNum] at h
  | cons c cs =>
    simp only [List.all_cons, Bool.and_eq_true] at hd
    exact isArg_of_head (c := c) rfl (digit_ne hd.1).1 (digit_ne hd.1).2

theorem canonNum_isArg {d : Str} (h : canonNum d = true) : isArg d = true := by
  simpa using canonNum_isArg_append [] h

theorem zeros_isArg_append (z : Nat) {d : Str} (x : Str) (h : canonNum d = true) : isArg (zeros z ++ d ++ x) = true := by
  cases z with
  | zero => simpa [zeros] using canonNum_isArg_append x h
  | succ n => exact isArg_of_head (c := '0') (by simp [zeros, List.replicate_succ]) (by decide) (by decide)

theorem ports_user_isArg (ps : Ports) (z : Nat) (o : Bool) (h : ps.wf = true) : isArg (ps.user z o) = true := by
  cases ps with
  | one p =>
    simp only [Ports.wf] at h
    simpa [Ports.user] using zeros_isArg_append z [] h
  | range lo hi =>
    simp only [Ports.wf, Bool.and_eq_true] at h
    obtain ⟨⟨⟨hlo, _⟩, _⟩, _⟩ := h
    simp only [Ports.user]
    by_cases hc : (o && decide (lo = ['0'])) = true
    · simp only [hc, ↓reduceIte, List.nil_append]
      exact isArg_of_head (c := ':') rfl (by decide) (by decide)
    · simp only [hc, Bool.false_eq_true, ↓reduceIte, List.append_assoc]
      have := zeros_isArg_append z ([':'] ++ if (o && decide (hi = s "65535")) = true then [] else hi) hlo
      simpa [List.append_assoc] using this

theorem ports_kernel_isArg (ps : Ports) (h : ps.wf = true) : isArg ps.kernel = true := by
  cases ps with
  | one p => simp only [Ports.wf] at h; exact canonNum_isArg h
  | range lo hi =>
    simp only [Ports.wf, Bool.and_eq_true] at h
    simpa [Ports.kernel, List.append_assoc] using canonNum_isArg_append ([':'] ++ hi) h.1.1.1

theorem joinWith_head (sep x : Str) (xs : List Str) (hx : x ≠ []) :
    (joinWith sep (x :: xs)).head? = x.head? := by
  cases xs with
  | nil => rfl
  | cons y ys => simp only [joinWith]; cases x with
    | nil => exact absurd rfl hx
    | cons c cs => rfl

theorem states_isArg (l : List Spec.St) (hne : l ≠ []) : isArg (joinWith [','] (l.map Spec.St.name)) = true := by
  cases l with
  | nil => exact absurd rfl hne
  | cons x xs =>
    have hx : x.name ≠ [] := by cases x <;> decide
    have hh := joinWith_head [','] x.name (xs.map Spec.St.name) hx
    simp only [List.map_cons]
    cases x <;> exact isArg_of_head (c := _) (hh.trans rfl) (by decide) (by decide)

theorem lower_head {name : Str} {c0 : Char} {rest : Str} (h : lower name = c0 :: rest) :
    ∃ c cs, name = c :: cs ∧ lowerC c = c0 := by
  cases name with
  | nil => simp [lower] at h
  | cons c cs => simp only [lower, List.map_cons, List.cons.injEq] at h; exact ⟨c, cs, rfl, h.1⟩

theorem lowerC_ne {c : Char} (h : c = '-' ∨ c = '!') : lowerC c = c := by
  rcases h with h | h <;> subst h <;> decide

theorem mname_isArg {name : Str} (h : (AOpt.mExplicit name).wf = true) : isArg name = true ∧ isArg (lower name) = true := by
  simp only [AOpt.wf, Bool.or_eq_true, decide_eq_true_eq] at h
  have key : ∀ (t : Str) (c0 : Char) (rest : Str), t = c0 :: rest → c0 ≠ '-' → c0 ≠ '!' → lower name = t →
      isArg name = true ∧ isArg (lower name) = true := by
    intro t c0 rest ht h1 h2 hl
    rw [ht] at hl
    obtain ⟨c, cs, hn, hc⟩ := lower_head hl
    refine ⟨?_, by rw [hl]; exact isArg_of_head (c := c0) rfl h1 h2⟩
    rw [hn]
    refine isArg_of_head (c := c) rfl ?_ ?_
    · intro e; rw [e] at hc; exact h1 (by rw [← hc]; decide)
    · intro e; rw [e] at hc; exact h2 (by rw [← hc]; decide)
  rcases h with ((h | h) | h) | h
  · subst h; decide
  · exact key _ 't' (s "cp") (by decide) (by decide) (by decide) h
  · exact key _ 'u' (s "dp") (by decide) (by decide) (by decide) h
  · exact key _ 'i' (s "cmp") (by decide) (by decide) (by decide) h

theorem proto_isArg (cfg : KCfg) (n : Neg) (p : Proto) (u num : Bool) (hwf : (AOpt.proto n p u num).wf = true) :
    isArg (p.uname u num) = true ∧ isArg (p.kname cfg.protoNames) = true := by
  cases p with
  | num d =>
    simp only [AOpt.wf, Bool.and_eq_true] at hwf
    have hd := canonNum_digits hwf.1.1
    have : (Proto.num d).uname u num = d := by
      unfold Proto.uname Proto.kname
      cases u <;> simp [upper_digits hd]
    rw [this]
    exact ⟨canonNum_isArg hwf.1.1, canonNum_isArg hwf.1.1⟩
  | tcp => obtain ⟨names⟩ := cfg; cases u <;> cases num <;> cases names <;> decide
  | udp => obtain ⟨names⟩ := cfg; cases u <;> cases num <;> cases names <;> decide
  | icmp => obtain ⟨names⟩ := cfg; cases u <;> cases num <;> cases names <;> decide
  | vrrp => obtain ⟨names⟩ := cfg; cases u <;> cases num <;> cases names <;> decide
  | ipv6icmp => obtain ⟨names⟩ := cfg; cases u <;> cases num <;> cases names <;> decide

theorem optOK_mk (n : Neg) (k : Str) (x : Str) (hk : startsWithDash k = true) (hx : isArg x = true) :
    OptOK ⟨n, k, [x]⟩ :=
  ⟨hk, by intro a ha; simp at ha; rw [ha]; exact hx, by intro _; simp⟩

theorem optOK_no (k : Str) (args : List Str) (hk : startsWithDash k = true) (hx : ∀ a ∈ args, isArg a = true) :
    OptOK ⟨.no, k, args⟩ := ⟨hk, hx, by intro h; cases h⟩

theorem optOK_b2neg (b : Bool) (k : Str) (args : List Str) (hk : startsWithDash k = true)
    (hx : ∀ a ∈ args, isArg a = true) : OptOK ⟨b2neg b, k, args⟩ :=
  ⟨hk, hx, by intro h; cases b <;> cases h⟩

theorem st_filter_ne (l : List Spec.St) (hne : l ≠ []) (h : l.Nodup) : kernelStateOrder.filter (· ∈ l) ≠ [] := by
  intro e
  have hp := st_perm l h
  rw [e] at hp
  exact hne (List.Perm.nil_eq hp).symm

/-- The user's spelling of a well formed option is read back as written. -/
theorem user_ok (a : AOpt) (hwf : a.wf = true) : OptOK a.user := by
  cases a with
  | src n ip len h =>
    simp only [AOpt.wf, Bool.and_eq_true] at hwf
    refine optOK_mk _ _ _ (by decide) ?_
    split
    · exact plainTok_isArg (ipTok_plain hwf.1)
    · simpa [List.append_assoc] using plainTok_isArg_append (['/'] ++ len) (ipTok_plain hwf.1)
  | dst n ip len h =>
    simp only [AOpt.wf, Bool.and_eq_true] at hwf
    refine optOK_mk _ _ _ (by decide) ?_
    split
    · exact plainTok_isArg (ipTok_plain hwf.1)
    · simpa [List.append_assoc] using plainTok_isArg_append (['/'] ++ len) (ipTok_plain hwf.1)
  | inIf n name => exact optOK_mk _ _ _ (by decide) (plainTok_isArg (by simpa [AOpt.wf] using hwf))
  | proto n p u num => exact optOK_mk _ _ _ (by decide) (proto_isArg {} n p u num hwf).1
  | sport ps z o => exact optOK_mk _ _ _ (by decide) (ports_user_isArg ps z o (by simpa [AOpt.wf] using hwf))
  | dport ps z o => exact optOK_mk _ _ _ (by decide) (ports_user_isArg ps z o (by simpa [AOpt.wf] using hwf))
  | syn n f =>
    cases f
    · exact optOK_b2neg _ _ _ (by decide) (by simp)
    · exact optOK_b2neg _ _ _ (by decide) (by decide)
  | icmpType t =>
    simp only [AOpt.wf, Bool.and_eq_true] at hwf
    exact optOK_mk _ _ _ (by decide) (plainTok_isArg hwf.1)
  | mExplicit name => exact optOK_mk _ _ _ (by decide) (mname_isArg hwf).1
  | state l =>
    simp only [AOpt.wf, Bool.and_eq_true, Bool.not_eq_eq_eq_not, Bool.not_true, List.isEmpty_eq_false_iff,
      decide_eq_true_eq] at hwf
    exact optOK_mk _ _ _ (by decide) (states_isArg l hwf.1)
  | jump t => exact optOK_mk _ _ _ (by decide) (plainTok_isArg (by simpa [AOpt.wf] using hwf))
  | goto t => exact optOK_mk _ _ _ (by decide) (plainTok_isArg (by simpa [AOpt.wf] using hwf))
  | logLevel lvl d =>
    refine optOK_mk _ _ _ (by decide) ?_
    split
    · decide
    · exact canonNum_isArg (by simpa [AOpt.wf] using hwf)
  | setMark hex mask x v =>
    simp only [AOpt.wf, Bool.and_eq_true] at hwf
    cases x
    · exact optOK_mk _ _ _ (by decide) (plainTok_isArg hwf.1.1.1.1.1)
    · exact optOK_mk _ _ _ (by decide) (plainTok_isArg hwf.1.1.1.1.1)
  | toSource ip => exact optOK_mk _ _ _ (by decide) (plainTok_isArg (ipTok_plain (by simpa [AOpt.wf] using hwf)))

/-- So is the kernel's spelling. -/
theorem kernel_ok (cfg : KCfg) (a : AOpt) (hwf : a.wf = true) : OptOK (a.kernel cfg) := by
  cases a with
  | src n ip len h =>
    simp only [AOpt.wf, Bool.and_eq_true] at hwf
    exact optOK_b2neg _ _ _ (by decide) (by
      intro x hx; simp at hx; rw [hx]
      simpa [List.append_assoc] using plainTok_isArg_append (['/'] ++ len) (ipTok_plain hwf.1))
  | dst n ip len h =>
    simp only [AOpt.wf, Bool.and_eq_true] at hwf
    exact optOK_b2neg _ _ _ (by decide) (by
      intro x hx; simp at hx; rw [hx]
      simpa [List.append_assoc] using plainTok_isArg_append (['/'] ++ len) (ipTok_plain hwf.1))
  | inIf n name =>
    exact optOK_b2neg _ _ _ (by decide) (by
      intro x hx; simp at hx; rw [hx]; exact plainTok_isArg (by simpa [AOpt.wf] using hwf))
  | proto n p u num =>
    exact optOK_b2neg _ _ _ (by decide) (by
      intro x hx; simp at hx; rw [hx]; exact (proto_isArg cfg n p u num hwf).2)
  | sport ps z o => exact optOK_mk _ _ _ (by decide) (ports_kernel_isArg ps (by simpa [AOpt.wf] using hwf))
  | dport ps z o => exact optOK_mk _ _ _ (by decide) (ports_kernel_isArg ps (by simpa [AOpt.wf] using hwf))
  | syn n f => exact optOK_b2neg _ _ _ (by decide) (by decide)
  | icmpType t =>
    simp only [AOpt.wf, Bool.and_eq_true] at hwf
    exact optOK_mk _ _ _ (by decide) (plainTok_isArg hwf.1)
  | mExplicit name => exact optOK_mk _ _ _ (by decide) (mname_isArg hwf).2
  | state l =>
    simp only [AOpt.wf, Bool.and_eq_true, Bool.not_eq_eq_eq_not, Bool.not_true, List.isEmpty_eq_false_iff,
      decide_eq_true_eq] at hwf
    exact optOK_mk _ _ _ (by decide) (states_isArg _ (st_filter_ne l hwf.1 hwf.2))
  | jump t => exact optOK_mk _ _ _ (by decide) (plainTok_isArg (by simpa [AOpt.wf] using hwf))
  | goto t => exact optOK_mk _ _ _ (by decide) (plainTok_isArg (by simpa [AOpt.wf] using hwf))
  | logLevel lvl d => exact optOK_mk _ _ _ (by decide) (canonNum_isArg (by simpa [AOpt.wf] using hwf))
  | setMark hex mask x v =>
    exact optOK_mk _ _ _ (by decide) (isArg_of_head (c := '0') (by simp [s]) (by decide) (by decide))
  | toSource ip => exact optOK_mk _ _ _ (by decide) (plainTok_isArg (ipTok_plain (by simpa [AOpt.wf] using hwf)))

end NA.C05
