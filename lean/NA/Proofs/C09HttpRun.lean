import NA.Proofs.C09HttpBlocks
/-!
# C09: the whole run of the HTTP backends keeps the invariant
-/
namespace NA.C09
open NA.Sess NA.Apply NA.Spec.C09

def panosBlocks : List (Sess × Cls) := [
  (panosDoCmd .change .cur ;; .ite .err "err != nil" (.ret .err ["_"]) .skip, .A),
  (panosDoCmd .save (.lit "commit") ;;
   .ite .err "err != nil" (.ret .keep ["err"]) .skip ;;
   .ite (.flag .noChanges)
     "strings.Contains($doCmd.1, \"There are no changes to commit\") || strings.Contains($doCmd.1, \"The result of this commit would be the same\")"
     (.ret .nil ["nil"]) .skip ;;
   .ite (.not (.flag .msgEmpty)) "$doCmd.1 != \"\"" (.ret .err ["_"]) .skip, .A),
  (panosDoCmd .save (.lit "show jobs") ;;
   .ite .err "err != nil" (.ret .keep ["err"]) .skip ;;
   xmlUnmarshal ;;
   .ite .err "err != nil" (.ret .keep ["err"]) .skip ;;
   .ite (.flag .pend) "¬$v.Result != \"PEND\"" .cont
     (.ite (.flag .jobOk) "¬$v.Result != \"OK\"" (.ret .nil ["nil"]) (.ret .err ["_"])), .A),
  (panosGetAPIKeyBody, .A),
  (panosCheckHABody, .A),
  (panosHttpPrefixGetLog .read (.lit "get config") panosConfigLits ;;
   .ite .err "err != nil" (.ret .keep ["nil", "err"]) .skip ;;
   .call "parseResponseConfig" ["_"] (
     panosParseResponse ;;
     .ite .err "err != nil" (.ret .keep ["nil", "err"]) .skip ;;
     .ite (.not (.flag .cfgParses)) "err != nil" (.ret .err ["nil", "err"]) (.ret .nil ["_", "nil"])) ;;
   .ite .err "err != nil" (.ret .err ["_", "_"]) .skip, .A) ]

theorem panosBlocks_sound : ∀ q o, (q, o) ∈ panosBlocks →
    ∀ env s, J (badChecked .panos) s → G (badChecked .panos) o (exec q env s) := by
  intro q o h
  simp only [panosBlocks, List.mem_cons, List.mem_nil_iff, or_false, Prod.mk.injEq] at h
  rcases h with ⟨rfl, rfl⟩ | ⟨rfl, rfl⟩ | ⟨rfl, rfl⟩ | ⟨rfl, rfl⟩ | ⟨rfl, rfl⟩ | ⟨rfl, rfl⟩
  · exact panos_change_block
  · exact panos_commit_block
  · exact panos_poll_block
  · exact panos_apikey_block
  · exact panos_checkha_block
  · exact panos_config_block

def nsxReadBlock (t : Txt) : Sess :=
  nsxSendRequest .read t ["GET", "_", "nil"] ;;
  .ite .err "err != nil" (.ret .keep ["nil", "err"]) .skip ;;
  jsonUnmarshal ;;
  .ite .err "err != nil" (.ret .err ["nil", "_"]) .skip

def nsxBlocks : List (Sess × Cls) := [
  (nsxSendRequest .change .cur ;; .ite .err "err != nil" (.ret .keep ["err"]) .skip, .A),
  (nsxReadBlock (.lit "gateway-policies"), .A),
  (nsxReadBlock (.lit "services"), .A),
  (nsxReadBlock (.lit "groups"), .A),
  (.roundTrip .login (.lit "session create") false ;;
   .ite .err "err != nil" (.ret .keep ["err"]) .skip ;;
   .ite .not200 "$PostForm.1.StatusCode != http.StatusOK" (.ret .err ["_"]) .skip, .A) ]

theorem nsxBlocks_sound : ∀ q o, (q, o) ∈ nsxBlocks →
    ∀ env s, J (badChecked .nsx) s → G (badChecked .nsx) o (exec q env s) := by
  intro q o h
  simp only [nsxBlocks, List.mem_cons, List.mem_nil_iff, or_false, Prod.mk.injEq] at h
  rcases h with ⟨rfl, rfl⟩ | ⟨rfl, rfl⟩ | ⟨rfl, rfl⟩ | ⟨rfl, rfl⟩ | ⟨rfl, rfl⟩
  · exact nsx_change_block
  · exact nsx_read_block _ _ _ _ _ (Or.inl rfl)
  · exact nsx_read_block _ _ _ _ _ (Or.inl rfl)
  · exact nsx_read_block _ _ _ _ _ (Or.inl rfl)
  · exact nsx_login_block

/-- PAN-OS / NSX: a program the checker accepts keeps the invariant -/
theorem panos_sound (p : Sess) (c' : Cls) (h : stepC panosBlocks p .A = some c') :
    ∀ env s, J (badChecked .panos) s → G (badChecked .panos) c' (exec p env s) :=
  stepC_sound _ _ panosBlocks_sound p .A c' h

theorem nsx_sound (p : Sess) (c' : Cls) (h : stepC nsxBlocks p .A = some c') :
    ∀ env s, J (badChecked .nsx) s → G (badChecked .nsx) c' (exec p env s) :=
  stepC_sound _ _ nsxBlocks_sound p .A c' h

set_option maxRecDepth 100000 in
theorem pres_run_panos : ∀ env s, J (badChecked .panos) s → J (badChecked .panos) (exec (approveOrCompareBody .panos) env s) :=
  panos_sound _ .A (by decide)

set_option maxRecDepth 100000 in
theorem pres_run_nsx : ∀ env s, J (badChecked .nsx) s → J (badChecked .nsx) (exec (approveOrCompareBody .nsx) env s) :=
  nsx_sound _ .A (by decide)

end NA.C09
