import NA.Proofs.C09Compose
/-!
# C09: exactly which change commands are on the wire

`conf q p`: in program `p` every node is free of change commands except the sub-program `q`, which
occurs once, in straight-line position, and after which the script is not recomputed.  Then
whatever `p` does, the change commands it puts on the wire are those of (at most) one execution of
`q` (`conf_sound`).  With `q` = the loop over the change script this gives, for EVERY run (OK or
not): the change commands on the wire are a prefix of the script — never a foreign command, never
out of order.
-/
namespace NA.C09
open NA.Sess NA.Apply NA.Spec.C09

inductive Occ | zero | one
  deriving DecidableEq, Repr

def Occ.max : Occ → Occ → Occ
  | .zero, .zero => .zero
  | _, _ => .one

def confLeaf (q p : Sess) : Option Occ :=
  if p == q then some .one else if noChange p then some .zero else none

def conf (q : Sess) : Sess → Option Occ
  | .seq a b =>
    if (Sess.seq a b) == q then some .one else
    match conf q a, conf q b with
    | some .zero, some r => some r
    | some .one, some .zero => if noSetPlan b then some .one else none
    | _, _ => none
  | .ite c l t e =>
    if (Sess.ite c l t e) == q then some .one else
    match conf q t, conf q e with
    | some x, some y => some (x.max y)
    | _, _ => none
  | .call n l b => if (Sess.call n l b) == q then some .one else conf q b
  | .scope c b => if (Sess.scope c b) == q then some .one else conf q b
  | .when c b => if (Sess.when c b) == q then some .one else conf q b
  | .defer c b =>
    if (Sess.defer c b) == q then some .one
    else if noChange c && noSetPlan c then conf q b else none
  | p => confLeaf q p

/-- the change commands `p` added are nothing, or exactly those of one execution of `q` from a
running state `sq` with the same script as the final state -/
def Incr (q p : Sess) (env : Env) (s : St) (Δ : List (List String)) : Prop :=
  changeSends (exec p env s).tr = changeSends s.tr ++ Δ ∧
  (Δ = [] ∨ ∃ sq : St, sq.mode = .run ∧ (exec p env s).plan = sq.plan ∧ (exec p env s).ipt = sq.ipt ∧
      changeSends (exec q env sq).tr = changeSends sq.tr ++ Δ)

theorem incr_nonrun (q p : Sess) (env : Env) (s : St) (hm : s.mode ≠ .run) : Incr q p env s [] := by
  unfold Incr; rw [exec_nonrun _ _ _ hm]; simp

theorem incr_noChange (q p : Sess) (hp : noChange p = true) (env : Env) (s : St) : Incr q p env s [] := by
  unfold Incr; rw [noChange_changeSends p hp]; simp

theorem incr_self (q : Sess) (hq : noSetPlan q = true) (env : Env) (s : St) :
    ∃ Δ, Incr q q env s Δ := by
  by_cases hm : s.mode = .run
  · obtain ⟨hp, hi, l, ht⟩ := exec_stable q hq env s
    refine ⟨changeSends l, ?_, Or.inr ⟨s, hm, hp, hi, ?_⟩⟩ <;> rw [ht, changeSends_append]
  · exact ⟨[], incr_nonrun q q env s hm⟩

theorem conf_sound (q : Sess) (hq : noSetPlan q = true) :
    ∀ (p : Sess) (r : Occ), conf q p = some r → ∀ env s,
      ∃ Δ, Incr q p env s Δ ∧ (r = .zero → Δ = []) := by
  intro p
  -- leaves (everything `conf` sends to `confLeaf`)
  have leaf : ∀ (p : Sess) (r : Occ), confLeaf q p = some r → ∀ env s, ∃ Δ, Incr q p env s Δ ∧ (r = .zero → Δ = []) := by
    intro p r h env s
    unfold confLeaf at h
    split at h
    · rename_i he
      have : p = q := by simpa using he
      subst this
      obtain ⟨Δ, hΔ⟩ := incr_self p hq env s
      simp only [Option.some.injEq] at h; subst h
      exact ⟨Δ, hΔ, fun h => by cases h⟩
    · split at h
      · rename_i hn
        exact ⟨[], incr_noChange q p hn env s, fun _ => rfl⟩
      · cases h
  induction p with
  | seq a b iha ihb =>
    intro r h env s
    simp only [conf] at h
    split at h
    · rename_i he
      have : Sess.seq a b = q := by simpa using he
      obtain ⟨Δ, hΔ⟩ := incr_self q hq env s
      simp only [Option.some.injEq] at h; subst h
      exact ⟨Δ, this ▸ hΔ, fun h => by cases h⟩
    · split at h
      · rename_i r' ha hb
        simp only [Option.some.injEq] at h; subst h
        obtain ⟨Δa, hia, hza⟩ := iha .zero ha env s
        have hΔa := hza rfl
        subst hΔa
        obtain ⟨Δb, hib, hzb⟩ := ihb r' hb env (exec a env s)
        refine ⟨Δb, ?_, hzb⟩
        unfold Incr at *
        simp only [exec]
        refine ⟨by rw [hib.1, hia.1]; simp, hib.2⟩
      · rename_i ha hb
        split at h
        · rename_i hnsp
          simp only [Option.some.injEq] at h; subst h
          obtain ⟨Δa, hia, _⟩ := iha .one ha env s
          obtain ⟨Δb, hib, hzb⟩ := ihb .zero hb env (exec a env s)
          have hΔb := hzb rfl
          subst hΔb
          obtain ⟨hp, hi, _⟩ := exec_stable b hnsp env (exec a env s)
          refine ⟨Δa, ?_, fun h => by cases h⟩
          unfold Incr at *
          simp only [exec]
          refine ⟨by rw [hib.1, hia.1]; simp, ?_⟩
          rcases hia.2 with h0 | ⟨sq, hsq, hpl, hip, hcs⟩
          · exact Or.inl h0
          · exact Or.inr ⟨sq, hsq, hp.trans hpl, hi.trans hip, hcs⟩
        · cases h
      · cases h
  | ite c l t e iht ihe =>
    intro r h env s
    simp only [conf] at h
    split at h
    · rename_i he
      have : Sess.ite c l t e = q := by simpa using he
      obtain ⟨Δ, hΔ⟩ := incr_self q hq env s
      simp only [Option.some.injEq] at h; subst h
      exact ⟨Δ, this ▸ hΔ, fun h => by cases h⟩
    · split at h
      · rename_i x y hx hy
        simp only [Option.some.injEq] at h; subst h
        by_cases hm : s.mode = .run
        · by_cases hc : evalCond c env s = true
          · obtain ⟨Δ, hi, hz⟩ := iht x hx env s
            refine ⟨Δ, ?_, fun h => hz (by cases x <;> cases y <;> simp_all [Occ.max])⟩
            unfold Incr at *
            simpa [exec, hm, hc] using hi
          · obtain ⟨Δ, hi, hz⟩ := ihe y hy env s
            refine ⟨Δ, ?_, fun h => hz (by cases x <;> cases y <;> simp_all [Occ.max])⟩
            unfold Incr at *
            simpa [exec, hm, hc] using hi
        · exact ⟨[], incr_nonrun _ _ env s hm, fun _ => rfl⟩
      · cases h
  | call n l b ih =>
    intro r h env s
    simp only [conf] at h
    split at h
    · rename_i he
      have : Sess.call n l b = q := by simpa using he
      obtain ⟨Δ, hΔ⟩ := incr_self q hq env s
      simp only [Option.some.injEq] at h; subst h
      exact ⟨Δ, this ▸ hΔ, fun h => by cases h⟩
    · by_cases hm : s.mode = .run
      · obtain ⟨Δ, hi, hz⟩ := ih r h env s
        refine ⟨Δ, ?_, hz⟩
        unfold Incr at *
        simp only [exec, hm, if_true]
        split <;> exact hi
      · exact ⟨[], incr_nonrun _ _ env s hm, fun _ => rfl⟩
  | scope c b ih =>
    intro r h env s
    simp only [conf] at h
    split at h
    · rename_i he
      have : Sess.scope c b = q := by simpa using he
      obtain ⟨Δ, hΔ⟩ := incr_self q hq env s
      simp only [Option.some.injEq] at h; subst h
      exact ⟨Δ, this ▸ hΔ, fun h => by cases h⟩
    · obtain ⟨Δ, hi, hz⟩ := ih r h env s
      refine ⟨Δ, ?_, hz⟩
      unfold Incr at *
      simpa [exec] using hi
  | «when» c b ih =>
    intro r h env s
    simp only [conf] at h
    split at h
    · rename_i he
      have : Sess.when c b = q := by simpa using he
      obtain ⟨Δ, hΔ⟩ := incr_self q hq env s
      simp only [Option.some.injEq] at h; subst h
      exact ⟨Δ, this ▸ hΔ, fun h => by cases h⟩
    · by_cases hm : s.mode = .run
      · by_cases hc : evalCond c env s = true
        · obtain ⟨Δ, hi, hz⟩ := ih r h env s
          refine ⟨Δ, ?_, hz⟩
          unfold Incr at *
          simpa [exec, hm, hc] using hi
        · refine ⟨[], ?_, fun _ => rfl⟩
          unfold Incr
          simp [exec, hm, hc]
      · exact ⟨[], incr_nonrun _ _ env s hm, fun _ => rfl⟩
  | defer c b _ ihb =>
    intro r h env s
    simp only [conf] at h
    split at h
    · rename_i he
      have : Sess.defer c b = q := by simpa using he
      obtain ⟨Δ, hΔ⟩ := incr_self q hq env s
      simp only [Option.some.injEq] at h; subst h
      exact ⟨Δ, this ▸ hΔ, fun h => by cases h⟩
    · split at h
      · rename_i hcond
        simp only [Bool.and_eq_true] at hcond
        by_cases hm : s.mode = .run
        · obtain ⟨Δ, hi, hz⟩ := ihb r h env s
          refine ⟨Δ, ?_, hz⟩
          have hcs := noChange_changeSends c hcond.1 env { exec b env s with mode := Mode.run }
          obtain ⟨hp, hip, _⟩ := exec_stable c hcond.2 env { exec b env s with mode := Mode.run }
          unfold Incr at *
          simp only [exec, hm, if_true]
          split
          · exact hi
          · split
            · refine ⟨by simpa [hcs] using hi.1, ?_⟩
              rcases hi.2 with h0 | ⟨sq, hsq, hpl, hipt, hq'⟩
              · exact Or.inl h0
              · exact Or.inr ⟨sq, hsq, by simpa [hp] using hpl, by simpa [hip] using hipt, hq'⟩
            · refine ⟨by simpa [hcs] using hi.1, ?_⟩
              rcases hi.2 with h0 | ⟨sq, hsq, hpl, hipt, hq'⟩
              · exact Or.inl h0
              · exact Or.inr ⟨sq, hsq, by simpa [hp] using hpl, by simpa [hip] using hipt, hq'⟩
        · exact ⟨[], incr_nonrun _ _ env s hm, fun _ => rfl⟩
      · cases h
  | _ => intro r h env s; exact leaf _ r (by simpa [conf] using h) env s


/-! ## what one execution of the loop over the script puts on the wire -/

theorem each_sends_prefix (f : List String → St → St)
    (hnon : ∀ pk s, s.mode ≠ .run → f pk s = s)
    (hsend : ∀ pk s, s.mode = .run → changeSends (f pk s).tr = changeSends s.tr ++ [pk]) :
    ∀ (l : List (List String)) (s : St), ∃ k, changeSends (each f l s).tr = changeSends s.tr ++ l.take k := by
  intro l
  induction l with
  | nil => intro s; exact ⟨0, by simp [each]⟩
  | cons pk rest ih =>
    intro s
    simp only [each]
    by_cases hm : s.mode = .run
    · obtain ⟨k, hk⟩ := ih (f pk s)
      exact ⟨k + 1, by rw [hk, hsend pk s hm]; simp⟩
    · rw [hnon pk s hm, each_nonrun f hnon rest s hm]
      exact ⟨0, by simp⟩

/-- `Rep l m`: `m` is `l` with some elements doubled in place (a command net/http replayed) -/
inductive Rep {α : Type} : List α → List α → Prop
  | nil : Rep [] []
  | one {a : α} {l m : List α} (h : Rep l m) : Rep (a :: l) (a :: m)
  | two {a : α} {l m : List α} (h : Rep l m) : Rep (a :: l) (a :: a :: m)

theorem Rep.refl {α : Type} : ∀ (l : List α), Rep l l
  | [] => .nil
  | _ :: t => .one (Rep.refl t)

theorem each_sends_rep_prefix (f : List String → St → St)
    (hnon : ∀ pk s, s.mode ≠ .run → f pk s = s)
    (hsend : ∀ pk s, s.mode = .run →
      changeSends (f pk s).tr = changeSends s.tr ++ [pk] ∨ changeSends (f pk s).tr = changeSends s.tr ++ [pk, pk]) :
    ∀ (l : List (List String)) (s : St),
      ∃ k new, changeSends (each f l s).tr = changeSends s.tr ++ new ∧ Rep (l.take k) new := by
  intro l
  induction l with
  | nil => intro s; exact ⟨0, [], by simp [each], .nil⟩
  | cons pk rest ih =>
    intro s
    simp only [each]
    by_cases hm : s.mode = .run
    · obtain ⟨k, new, hk, hr⟩ := ih (f pk s)
      rcases hsend pk s hm with h1 | h2
      · exact ⟨k + 1, pk :: new, by rw [hk, h1]; simp, by simpa using Rep.one hr⟩
      · exact ⟨k + 1, pk :: pk :: new, by rw [hk, h2]; simp, by simpa using Rep.two hr⟩
    · rw [hnon pk s hm, each_nonrun f hnon rest s hm]
      exact ⟨0, [], by simp, .nil⟩

theorem foreach_prefix (body : Sess)
    (hsend : ∀ (env' : Env) (st : St), st.mode = .run → changeSends (exec body env' st).tr = changeSends st.tr ++ [env'.cur])
    (env : Env) (s : St) (hm : s.mode = .run) :
    ∃ k, changeSends (exec (.forEach body) env s).tr = changeSends s.tr ++ s.plan.take k := by
  rw [exec_forEach _ _ _ hm]
  exact each_sends_prefix _ (fun pk st h => exec_nonrun _ _ _ h) (fun pk st h => hsend { env with cur := pk } st h) _ _

set_option maxRecDepth 100000 in
/-- **For every run** of an ASA, IOS or NSX approve or compare — whatever the device does — the
change commands on the wire are a prefix of the script: never a foreign command, never out of order,
never a repetition. -/
theorem change_commands_prefix_of_script (b : Backend) (hb : b = .asa ∨ b = .ios ∨ b = .nsx) (env : Env) :
    ∃ k, changeSends (runProg b env).tr = (runProg b env).plan.take k := by
  have key : ∀ (q : Sess) (body : Sess), q = .forEach body → noSetPlan q = true →
      (∀ (env' : Env) (st : St), st.mode = .run → changeSends (exec body env' st).tr = changeSends st.tr ++ [env'.cur]) →
      conf q (approveOrCompareBody b) = some .one →
      ∃ k, changeSends (runProg b env).tr = (runProg b env).plan.take k := by
    intro q body hq hnsp hsend hconf
    obtain ⟨Δ, ⟨hcs, hΔ⟩, _⟩ := conf_sound q hnsp _ _ hconf env ({} : St)
    unfold runProg
    rcases hΔ with h0 | ⟨sq, hsq, hpl, _, hq'⟩
    · exact ⟨0, by rw [hcs, h0]; simp [changeSends]⟩
    · subst hq
      obtain ⟨k, hk⟩ := foreach_prefix body hsend env sq hsq
      rw [hk] at hq'
      have : sq.plan.take k = Δ := List.append_cancel_left hq'
      exact ⟨k, by rw [hcs, hpl, this]; simp [changeSends]⟩
  rcases hb with rfl | rfl | rfl
  · exact key (.forEach (asaCmd .change .cur ["_"])) (asaCmd .change .cur ["_"]) rfl (by decide)
      (fun env' st h => cs_console_cmd "cmd" ["_"] (asaCheck .change ;; .ite .joined "$v.2 != \"\"" (asaCheck .change) .skip)
        (by decide) env' st h) (by decide)
  · exact key (.forEach (iosCmd .change .cur ["_"])) (iosCmd .change .cur ["_"]) rfl (by decide)
      (fun env' st h => cs_console_cmd "cmd" ["_"]
        (iosCheck .change ;; .ite .joined "$v.2 != \"\"" (iosCheck .change) .skip ;; .ite .never "$v" iosExtendReload .skip)
        (by decide) env' st h) (by decide)
  · exact key _ _ rfl (by decide) cs_nsx_request (by decide)

theorem sublist_take_eq {α : Type} (l : List α) (k : Nat) (h : l.Sublist (l.take k)) : l.take k = l := by
  have h1 := h.length_le
  have hk : l.length ≤ k := by
    rw [List.length_take] at h1
    omega
  exact List.take_of_length_le hk

/-- PAN-OS, every run: what is on the wire is a prefix of the script in which a command may occur
twice in a row (replayed by net/http) -/
theorem change_commands_rep_prefix_panos (env : Env) :
    ∃ k, Rep ((runProg .panos env).plan.take k) (changeSends (runProg .panos env).tr) := by
  obtain ⟨Δ, ⟨hcs, hΔ⟩, _⟩ := conf_sound
    (.forEach (panosDoCmd .change .cur ;; .ite .err "err != nil" (.ret .err ["_"]) .skip)) (by decide) _ _
    (by decide : conf _ (approveOrCompareBody .panos) = some .one) env ({} : St)
  unfold runProg
  rcases hΔ with h0 | ⟨sq, hsq, hpl, _, hq'⟩
  · exact ⟨0, by rw [hcs, h0]; simpa [changeSends] using Rep.nil⟩
  · rw [exec_forEach _ _ _ hsq] at hq'
    obtain ⟨k, new, hk, hr⟩ := each_sends_rep_prefix _ (fun pk st h => exec_nonrun _ _ _ h)
      (fun pk st h => cs_panos_request { env with cur := pk } st h) sq.plan sq
    rw [hk] at hq'
    have : new = Δ := List.append_cancel_left hq'
    exact ⟨k, by rw [hcs, hpl, ← this]; simpa [changeSends] using hr⟩


/-! ## Linux: the script, then the three fixed activation commands -/

def linuxExtras : List (List String) :=
  [["chmod a+x /etc/network/packet-filter.new"], ["/etc/network/packet-filter.new"],
   ["mv -f /etc/network/packet-filter.new /etc/network/packet-filter"]]

def linuxCmdRest : Sess :=
  linuxCheck .change ;; .ite .joined "$v.2 != \"\"" (linuxCheck .change) .skip ;;
  GetCmdOutput .probe (.lit "echo $?") ["echo $?"] ;;
  .ite (.not (.flag .status0)) "$r.conn.GetCmdOutput(\"echo $?\") != \"0\\n\""
    (.abort ["%s failed (exit status)", "_"]) .skip

theorem cs_linux_lit (x : String) (env : Env) (st : St) :
    changeSends (exec (linuxCmd .change (.lit x) ["_"]) env st).tr =
      changeSends st.tr ++ (if st.mode = .run then [[x]] else []) := by
  by_cases hm : st.mode = .run
  · have := cs_console_cmd_txt "cmd" ["_"] (.lit x) linuxCmdRest (by decide) env st hm
    rw [show exec (linuxCmd .change (.lit x) ["_"]) env st
        = exec (.call "cmd" ["_"] (Send .change (.lit x) ;; linuxCmdRest)) env st from rfl, this]
    simp [hm, Txt.lines]
  · rw [exec_nonrun _ _ _ hm]; simp [hm]

/-- one execution of Linux `ApplyCommands`: a prefix of the script, then — only after the whole
script and only if iptables changed — a prefix of the three activation commands -/
theorem linux_apply_incr (env : Env) (s : St) (hm : s.mode = .run) :
    ∃ k j, changeSends (exec (.call "ApplyCommands" ["_"] linuxApplyBody) env s).tr
        = changeSends s.tr ++ s.plan.take k ++ linuxExtras.take j
      ∧ (j ≠ 0 → s.plan.take k = s.plan ∧ s.ipt = true) := by
  rw [cs_call]
  unfold linuxApplyBody
  rw [exec_seq]
  obtain ⟨k, hk⟩ := foreach_prefix (linuxCmd .change .cur ["_"])
    (fun env' st h => cs_console_cmd "cmd" ["_"] linuxCmdRest (by decide) env' st h) env s hm
  obtain ⟨hp1, hi1, _⟩ := exec_stable (.forEach (linuxCmd .change .cur ["_"])) (by decide) env s
  have hall : (exec (.forEach (linuxCmd .change .cur ["_"])) env s).mode = .run →
      changeSends (exec (.forEach (linuxCmd .change .cur ["_"])) env s).tr = changeSends s.tr ++ s.plan :=
    foreach_sends_all_linux env s hm
  generalize exec (.forEach (linuxCmd .change .cur ["_"])) env s = s1 at hk hp1 hi1 hall
  by_cases hm1 : s1.mode = .run
  · have hall := hall hm1
    -- the test after the activation block and the return do not send change commands
    rw [cs_seq_right _ _ (by decide)]
    by_cases hipt : s1.ipt = true
    · simp only [exec_ite _ _ _ _ _ _ hm1, evalCond, hipt, if_true]
      rw [exec_seq, exec_seq, exec_seq]
      have hW := noChange_changeSends (.call "writeStartupIPTables" ["_", "_"] linuxWriteStartupIPTablesBody) (by decide) env s1
      generalize exec (.call "writeStartupIPTables" ["_", "_"] linuxWriteStartupIPTablesBody) env s1 = s2 at hW
      have hfull : s.plan.take s.plan.length = s.plan := List.take_length
      have hi : s.ipt = true := by rw [← hi1]; exact hipt
      by_cases hm2 : s2.mode = .run
      · have h1 := cs_linux_lit "chmod a+x /etc/network/packet-filter.new" env s2
        generalize exec (linuxCmd .change (.lit "chmod a+x /etc/network/packet-filter.new") ["_"]) env s2 = s3 at h1
        by_cases hm3 : s3.mode = .run
        · have h2 := cs_linux_lit "/etc/network/packet-filter.new" env s3
          generalize exec (linuxCmd .change (.lit "/etc/network/packet-filter.new") ["_"]) env s3 = s4 at h2
          by_cases hm4 : s4.mode = .run
          · have h3 := cs_linux_lit "mv -f /etc/network/packet-filter.new /etc/network/packet-filter" env s4
            refine ⟨s.plan.length, 3, ?_, fun _ => ⟨hfull, hi⟩⟩
            rw [h3, h2, h1, hW, hall, hfull]
            simp [hm2, hm3, hm4, linuxExtras]
          · refine ⟨s.plan.length, 2, ?_, fun _ => ⟨hfull, hi⟩⟩
            rw [exec_nonrun _ _ _ hm4, h2, h1, hW, hall, hfull]
            simp [hm2, hm3, linuxExtras]
        · refine ⟨s.plan.length, 1, ?_, fun _ => ⟨hfull, hi⟩⟩
          rw [exec_nonrun _ _ _ hm3, exec_nonrun _ _ _ hm3, h1, hW, hall, hfull]
          simp [hm2, linuxExtras]
      · refine ⟨s.plan.length, 0, ?_, fun h => absurd rfl h⟩
        rw [exec_nonrun _ _ _ hm2, exec_nonrun _ _ _ hm2, exec_nonrun _ _ _ hm2, hW, hall, hfull]
        simp
    · refine ⟨s.plan.length, 0, ?_, fun h => absurd rfl h⟩
      simp [exec, hm1, evalCond, hipt, hall]
  · refine ⟨k, 0, ?_, fun h => absurd rfl h⟩
    rw [exec_nonrun _ _ _ hm1, hk]; simp


/-- Linux, every run: a prefix of the script, then (only after the whole script, only if iptables
changed) a prefix of the three activation commands -/
theorem change_commands_shape_linux (env : Env) :
    ∃ k j, changeSends (runProg .linux env).tr = (runProg .linux env).plan.take k ++ linuxExtras.take j
      ∧ (j ≠ 0 → (runProg .linux env).plan.take k = (runProg .linux env).plan ∧ (runProg .linux env).ipt = true) := by
  obtain ⟨Δ, ⟨hcs, hΔ⟩, _⟩ := conf_sound (.call "ApplyCommands" ["_"] linuxApplyBody) (by decide) _ _
    (by decide : conf _ (approveOrCompareBody .linux) = some .one) env ({} : St)
  unfold runProg
  rcases hΔ with h0 | ⟨sq, hsq, hpl, hip, hq'⟩
  · exact ⟨0, 0, by rw [hcs, h0]; simp [changeSends], fun h => absurd rfl h⟩
  · obtain ⟨k, j, hkj, hj⟩ := linux_apply_incr env sq hsq
    rw [hkj, List.append_assoc] at hq'
    have : sq.plan.take k ++ linuxExtras.take j = Δ := List.append_cancel_left hq'
    refine ⟨k, j, by rw [hcs, hpl, ← this]; simp [changeSends], fun h => ?_⟩
    rw [hpl, hip]; exact hj h

/-- **Normal form of the change commands of a run that ends OK** (approve; for Linux with the real
scp and a script that does not itself contain the three activation commands):
ASA / IOS / NSX — exactly the script; Linux — the script followed, iff iptables changed, by the three
activation commands; PAN-OS — see `change_commands_rep_prefix_panos` (exact replays are possible). -/
theorem change_commands_exact (b : Backend) (hb : b = .asa ∨ b = .ios ∨ b = .nsx) (env : Env)
    (hc : env.compare = false) (hok : (runProg b env).mode = .ret) :
    changeSends (runProg b env).tr = (runProg b env).plan := by
  obtain ⟨k, hk⟩ := change_commands_prefix_of_script b hb env
  have hS := (run_ok_facts b env hc (by rcases hb with rfl | rfl | rfl <;> intro h <;> cases h) hok).2.hS
    (by rcases hb with rfl | rfl | rfl <;> rfl)
  unfold SentAll at hS
  rw [hk] at hS ⊢
  exact sublist_take_eq _ k hS

theorem change_commands_exact_linux (env : Env) (hc : env.compare = false) (hs : env.simulated = false)
    (hok : (runProg .linux env).mode = .ret) (hdis : ∀ x ∈ linuxExtras, x ∉ (runProg .linux env).plan) :
    changeSends (runProg .linux env).tr
      = (runProg .linux env).plan ++ (if (runProg .linux env).ipt = true then linuxExtras else []) := by
  obtain ⟨k, j, hkj, hj⟩ := change_commands_shape_linux env
  have hfacts := (run_ok_facts .linux env hc (fun _ => hs) hok).2
  have hS := hfacts.hS rfl
  have hM := hfacts.hM rfl
  unfold SentAll at hS
  unfold MvSent at hM
  -- the whole script is there
  have hfull : (runProg .linux env).plan.take k = (runProg .linux env).plan := by
    by_cases hj0 : j = 0
    · subst hj0
      rw [hkj] at hS
      simp only [List.take_zero, List.append_nil] at hS
      exact sublist_take_eq _ k hS
    · exact (hj hj0).1
  rw [hkj, hfull]
  by_cases hipt : (runProg .linux env).ipt = true
  · simp only [hipt, if_true]
    have hmv := hM hipt
    rw [hkj, hfull, List.mem_append] at hmv
    rcases hmv with h | h
    · exact absurd h (hdis _ (by simp [linuxExtras]))
    · -- `mv` is the third command: all three were sent
      have : 3 ≤ j := by
        rcases j with _ | _ | _ | j
        · simp [linuxExtras] at h
        · simp [linuxExtras] at h
        · simp [linuxExtras] at h
        · omega
      rw [List.take_of_length_le (by simpa [linuxExtras] using this)]
  · have hj0 : j = 0 := by
      cases hjc : j with
      | zero => rfl
      | succ n => exact absurd (hj (by omega)).2 hipt
    simp [hj0, hipt]

end NA.C09
