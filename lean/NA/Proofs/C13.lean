import NA.Model.Status
/-! Invariants of the status file along arbitrary histories (helper lemmas for C13). -/
namespace NA.C13

def Status.approveGood (v : Status) : Bool :=
  v.approve.result == .ok || v.approve.result == .warnings

/-- Time bookkeeping that every reachable status satisfies. -/
structure TimesOK (w : World) : Prop where
  at_le : w.st.approve.time ≤ w.clock
  ct_le : w.st.compare.time ≤ w.clock
  ne    : w.st.approve.time = w.st.compare.time → w.st.compare.time = 0
  cres  : w.st.compare.time = 0 → w.st.compare.result = .none
  ares  : w.st.approve.time = 0 → w.st.approve.result = .none
  nowarn : w.st.approve.result ≠ .warnings

/-- The hazard: a failed approve overwrites a successful approve that is newer than an
UPTODATE compare record (the two-slot file then falls back to that stale compare). -/
def hazard (w : World) : Bool :=
  w.cur != 0 && w.st.approveGood && decide (w.st.compare.time < w.st.approve.time)
    && w.st.compare.result == .uptodate

/-- No failed approve ever happens in a hazard state (decidable on every concrete history). -/
def failSafeB : List (Event × Nat) → World → Bool
  | [], _ => true
  | e :: es, w => (if e.1 = .approveFailed then !hazard w else true) && failSafeB es (step w e)

def FailSafe (es : List (Event × Nat)) (w : World) : Prop := failSafeB es w = true

instance (es : List (Event × Nat)) (w : World) : Decidable (FailSafe es w) := by
  unfold FailSafe; infer_instance

theorem FailSafe.cons {e : Event × Nat} {es : List (Event × Nat)} {w : World} (h : FailSafe (e :: es) w) :
    (e.1 = .approveFailed → hazard w = false) ∧ FailSafe es (step w e) := by
  unfold FailSafe failSafeB at h
  simp only [Bool.and_eq_true] at h
  refine ⟨fun he => ?_, h.2⟩
  have := h.1
  simpa [he] using this

/-- Main invariant: whatever policy `check` derives from the status file is what the
latest conclusive observation says the device carries. -/
structure Inv (w : World) : Prop where
  times : TimesOK w
  dp_le : devicePolicy w.st ≤ w.cur
  sound : devicePolicy w.st ≠ 0 →
            w.obs = .carries (w.codeOf (devicePolicy w.st)) (devicePolicy w.st)

theorem codeAt_append (codes : List Code) (c : Code) (p : Nat) (h : p ≤ codes.length) :
    codeAt (codes ++ [c]) p = codeAt codes p := by
  unfold codeAt
  by_cases hp : p = 0
  · simp [hp]
  · simp only [hp, if_false]
    have : p - 1 < codes.length := by omega
    simp [List.getD_eq_getElem?_getD, List.getElem?_append_left this]

theorem inv_init : Inv ({} : World) := by
  refine ⟨⟨by simp, by simp, by simp, by simp, by simp, by simp⟩, by simp [devicePolicy], ?_⟩
  simp [devicePolicy]

theorem devicePolicy_cases (v : Status) :
    devicePolicy v =
      (if (if v.approveGood then v.approve.time else 0) < v.compare.time then
        (match v.compare.result with
          | .uptodate => v.compare.policy
          | .diff => 0
          | _ => if v.approveGood then v.approve.policy else 0)
       else if v.approveGood then v.approve.policy else 0) := by
  unfold devicePolicy Status.approveGood
  cases h : v.approve.result <;> cases h2 : v.compare.result <;> simp



theorem dp_setApprove_failed (v : Status) (p now : Nat)
    (hz : (v.approveGood && decide (v.compare.time < v.approve.time) && (v.compare.result == .uptodate)) = false)
    (hne : v.approve.time = v.compare.time → v.compare.time = 0)
    (h : devicePolicy (setApprove v p true now) ≠ 0) :
    devicePolicy (setApprove v p true now) = devicePolicy v := by
  obtain ⟨⟨ar, ap, atm⟩, ⟨cr, cp, ct⟩⟩ := v
  cases ar <;> cases cr <;>
    simp_all [devicePolicy, setApprove, Status.approveGood] <;> omega

theorem dp_setCompare_same (v : Status) (p now : Nat) (h : v.approve.time < now) :
    devicePolicy (setCompare v p false now) = p := by
  obtain ⟨⟨ar, ap, atm⟩, ⟨cr, cp, ct⟩⟩ := v
  cases ar <;> simp_all [devicePolicy, setCompare] <;> intros <;> omega

theorem dp_setCompare_changed (v : Status) (p now : Nat) (h : v.approve.time < now)
    (hne : v.approve.time = v.compare.time → v.compare.time = 0)
    (hcres : v.compare.time = 0 → v.compare.result = .none) :
    devicePolicy (setCompare v p true now) = 0 := by
  obtain ⟨⟨ar, ap, atm⟩, ⟨cr, cp, ct⟩⟩ := v
  simp only [setCompare]
  by_cases hd : cr ≠ .diff ∨ ct < atm
  · simp only [hd]
    cases ar <;> simp_all [devicePolicy] <;> intros <;> omega
  · have h1 : cr = .diff := by
      cases cr <;> simp_all
    have h2 : ¬ ct < atm := fun h => hd (Or.inr h)
    subst h1
    simp only [hd]
    have h3 : ct ≠ 0 := by intro h0; have := hcres h0; simp at this
    cases ar <;> simp_all [devicePolicy] <;> intros <;> omega

theorem times_setCompare (v : Status) (p now clock : Nat) (ch : Bool) (hnow : clock < now)
    (hat : v.approve.time ≤ clock) (hct : v.compare.time ≤ clock)
    (hne : v.approve.time = v.compare.time → v.compare.time = 0)
    (hcres : v.compare.time = 0 → v.compare.result = .none) :
    let v' := setCompare v p ch now
    v'.approve = v.approve ∧ v'.compare.time ≤ now ∧
    (v'.approve.time = v'.compare.time → v'.compare.time = 0) ∧
    (v'.compare.time = 0 → v'.compare.result = .none) := by
  obtain ⟨⟨ar, ap, atm⟩, ⟨cr, cp, ct⟩⟩ := v
  cases ch <;> simp_all [setCompare] <;> (try split) <;> (try simp_all) <;> omega

theorem inv_step (w : World) (e : Event × Nat) (h : Inv w)
    (hs : e.1 = .approveFailed → hazard w = false) : Inv (step w e) := by
  obtain ⟨ev, dt⟩ := e
  obtain ⟨⟨hat, hct, hne, hcres, hares, hnw⟩, hle, hsound⟩ := h
  cases ev with
  | newPolicy c =>
    simp only [step]
    refine ⟨⟨by simp; omega, by simp; omega, by simpa using hne, by simpa using hcres, by simpa using hares, by simpa using hnw⟩, ?_, ?_⟩
    · simp [World.cur] at *; omega
    · intro hd
      have := hsound hd
      simp only [World.cur] at hle
      simp only []
      simp only [World.codeOf] at this ⊢
      rw [codeAt_append _ _ _ hle]
      simpa using this
  | approveOk =>
    simp only [step]
    by_cases hc : w.cur = 0
    · simp only [World.cur] at hc
      simp only [World.cur, hc, if_true]
      refine ⟨⟨by simp; omega, by simp; omega, by simpa using hne, by simpa using hcres, by simpa using hares, by simpa using hnw⟩, ?_, ?_⟩
      · simpa [World.cur, hc] using hle
      · intro hd; simpa [World.codeOf] using hsound hd
    · have hc' : ¬ w.codes.length = 0 := by simpa [World.cur] using hc
      simp only [World.cur, hc', if_false]
      have hdp : devicePolicy (setApprove w.st w.codes.length false (w.clock + dt + 1)) = w.codes.length := by
        rw [devicePolicy_cases]; simp [setApprove, Status.approveGood]; omega
      refine ⟨⟨by simp [setApprove], by simp [setApprove]; omega, ?_, by simpa [setApprove] using hcres, by simp [setApprove], by simp [setApprove]⟩, ?_, ?_⟩
      · simp [setApprove]; omega
      · simp only []; rw [hdp]; simp [World.cur]
      · intro _; simp only []; rw [hdp]; simp [World.curCode, World.cur, World.codeOf, codeAt]
  | approveFailed =>
    simp only [step]
    by_cases hc : w.cur = 0
    · simp only [World.cur] at hc
      simp only [World.cur, hc, if_true]
      refine ⟨⟨by simp; omega, by simp; omega, by simpa using hne, by simpa using hcres, by simpa using hares, by simpa using hnw⟩, ?_, ?_⟩
      · simpa [World.cur, hc] using hle
      · intro hd; simpa [World.codeOf] using hsound hd
    · have hc' : ¬ w.codes.length = 0 := by simpa [World.cur] using hc
      simp only [World.cur, hc', if_false]
      have hz := hs rfl
      refine ⟨⟨by simp [setApprove], by simp [setApprove]; omega, ?_, by simpa [setApprove] using hcres, by simp [setApprove], by simp [setApprove]⟩, ?_, ?_⟩
      · simp [setApprove]; omega
      all_goals
        have key := dp_setApprove_failed w.st w.codes.length (w.clock + dt + 1)
          (by simpa [hazard, World.cur, hc'] using hz) hne
      · by_cases hz0 : devicePolicy (setApprove w.st w.codes.length true (w.clock + dt + 1)) = 0
        · simp only []; rw [hz0]; omega
        · simp only []; rw [key hz0]; simpa [World.cur] using hle
      · intro hd
        simp only [] at hd ⊢
        have hk := key hd
        rw [hk] at hd ⊢
        simpa [World.codeOf] using hsound hd
  | compare =>
    simp only [step]
    by_cases hc : w.cur = 0
    · simp only [World.cur] at hc
      simp only [World.cur, hc, if_true]
      refine ⟨⟨by simp; omega, by simp; omega, by simpa using hne, by simpa using hcres, by simpa using hares, by simpa using hnw⟩, ?_, ?_⟩
      · simpa [World.cur, hc] using hle
      · intro hd; simpa [World.codeOf] using hsound hd
    · have hc' : ¬ w.codes.length = 0 := by simpa [World.cur] using hc
      simp only [World.cur, hc', if_false, World.curCode, World.codeOf]
      suffices aux : ∀ ch : Bool, Inv
          { codes := w.codes, removed := w.removed, dev := w.dev,
            st := setCompare w.st w.codes.length ch (w.clock + dt + 1), clock := w.clock + dt + 1,
            obs := if ch = true then Obs.differs else Obs.carries (codeAt w.codes w.codes.length) w.codes.length } from
        aux _
      intro ch
      have hnow : w.clock < w.clock + dt + 1 := by omega
      obtain ⟨ha, hct', hne', hcres'⟩ :=
        times_setCompare w.st w.codes.length (w.clock + dt + 1) w.clock ch hnow hat hct hne hcres
      refine ⟨⟨by simp only []; rw [ha]; omega, hct', hne', hcres', by simp only []; rw [ha]; exact hares,
        by simp only []; rw [ha]; exact hnw⟩, ?_, ?_⟩
      · cases ch
        · simp only []; rw [dp_setCompare_same _ _ _ (by omega)]; simp [World.cur]
        · simp only []; rw [dp_setCompare_changed _ _ _ (by omega) hne hcres]; omega
      · cases ch
        · intro _; simp only []; rw [dp_setCompare_same _ _ _ (by omega)]; simp [World.codeOf]
        · intro hd; simp only [] at hd; rw [dp_setCompare_changed _ _ _ (by omega) hne hcres] at hd
          exact absurd rfl hd
  | compareErr =>
    simp only [step]
    by_cases hc : w.cur = 0
    · simp only [World.cur] at hc
      simp only [World.cur, hc, if_true]
      refine ⟨⟨by simp; omega, by simp; omega, by simpa using hne, by simpa using hcres, by simpa using hares, by simpa using hnw⟩, ?_, ?_⟩
      · simpa [World.cur, hc] using hle
      · intro hd; simpa [World.codeOf] using hsound hd
    · have hc' : ¬ w.codes.length = 0 := by simpa [World.cur] using hc
      simp only [World.cur, hc', if_false]
      have hnow : w.clock < w.clock + dt + 1 := by omega
      obtain ⟨ha, hct', hne', hcres'⟩ :=
        times_setCompare w.st w.codes.length (w.clock + dt + 1) w.clock true hnow hat hct hne hcres
      refine ⟨⟨by simp only []; rw [ha]; omega, hct', hne', hcres', by simp only []; rw [ha]; exact hares,
        by simp only []; rw [ha]; exact hnw⟩, ?_, ?_⟩
      · simp only []; rw [dp_setCompare_changed _ _ _ (by omega) hne hcres]; omega
      · intro hd; simp only [] at hd; rw [dp_setCompare_changed _ _ _ (by omega) hne hcres] at hd
        exact absurd rfl hd
  | drift c =>
    simp only [step]
    refine ⟨⟨by simp; omega, by simp; omega, by simpa using hne, by simpa using hcres, by simpa using hares, by simpa using hnw⟩, by simpa [World.cur] using hle, ?_⟩
    intro hd; simpa [World.codeOf] using hsound hd
  | bzip p =>
    simp only [step]
    refine ⟨⟨by simp; omega, by simp; omega, by simpa using hne, by simpa using hcres, by simpa using hares, by simpa using hnw⟩, by simpa [World.cur] using hle, ?_⟩
    intro hd; simpa [World.codeOf] using hsound hd
  | remove p =>
    simp only [step]
    split
    · refine ⟨⟨by simp; omega, by simp; omega, by simpa using hne, by simpa using hcres, by simpa using hares, by simpa using hnw⟩, by simpa [World.cur] using hle, ?_⟩
      intro hd; simpa [World.codeOf] using hsound hd
    · refine ⟨⟨by simp; omega, by simp; omega, by simpa using hne, by simpa using hcres, by simpa using hares, by simpa using hnw⟩, by simpa [World.cur] using hle, ?_⟩
      intro hd; simpa [World.codeOf] using hsound hd
  | damage =>
    simp only [step]
    refine ⟨⟨by simp, by simp, by simp, by simp, by simp, by simp⟩, by simp [devicePolicy], ?_⟩
    simp [devicePolicy]

end NA.C13

namespace NA.C13

theorem times_step (w : World) (e : Event × Nat) (h : TimesOK w) : TimesOK (step w e) := by
  obtain ⟨ev, dt⟩ := e
  obtain ⟨hat, hct, hne, hcres, hares, hnw⟩ := h
  have hnow : w.clock < w.clock + dt + 1 := by omega
  cases ev with
  | newPolicy c => exact ⟨by simp [step]; omega, by simp [step]; omega, by simpa [step] using hne, by simpa [step] using hcres, by simpa [step] using hares, by simpa [step] using hnw⟩
  | drift c => exact ⟨by simp [step]; omega, by simp [step]; omega, by simpa [step] using hne, by simpa [step] using hcres, by simpa [step] using hares, by simpa [step] using hnw⟩
  | bzip p => exact ⟨by simp [step]; omega, by simp [step]; omega, by simpa [step] using hne, by simpa [step] using hcres, by simpa [step] using hares, by simpa [step] using hnw⟩
  | remove p =>
    simp only [step]; split <;>
    exact ⟨by simp; omega, by simp; omega, by simpa using hne, by simpa using hcres, by simpa using hares, by simpa using hnw⟩
  | damage => exact ⟨by simp [step], by simp [step], by simp [step], by simp [step], by simp [step], by simp [step]⟩
  | approveOk =>
    simp only [step]; split
    · exact ⟨by simp; omega, by simp; omega, by simpa using hne, by simpa using hcres, by simpa using hares, by simpa using hnw⟩
    · exact ⟨by simp [setApprove], by simp [setApprove]; omega, by simp [setApprove]; omega,
        by simpa [setApprove] using hcres, by simp [setApprove], by simp [setApprove]⟩
  | approveFailed =>
    simp only [step]; split
    · exact ⟨by simp; omega, by simp; omega, by simpa using hne, by simpa using hcres, by simpa using hares, by simpa using hnw⟩
    · exact ⟨by simp [setApprove], by simp [setApprove]; omega, by simp [setApprove]; omega,
        by simpa [setApprove] using hcres, by simp [setApprove], by simp [setApprove]⟩
  | compare =>
    simp only [step]; split
    · exact ⟨by simp; omega, by simp; omega, by simpa using hne, by simpa using hcres, by simpa using hares, by simpa using hnw⟩
    · simp only [World.cur, World.curCode, World.codeOf]
      obtain ⟨ha, hct', hne', hcres'⟩ :=
        times_setCompare w.st w.codes.length (w.clock + dt + 1) w.clock (w.dev != codeAt w.codes w.codes.length) hnow hat hct hne hcres
      exact ⟨by simp only []; rw [ha]; omega, hct', hne', hcres', by simp only []; rw [ha]; exact hares,
        by simp only []; rw [ha]; exact hnw⟩
  | compareErr =>
    simp only [step]; split
    · exact ⟨by simp; omega, by simp; omega, by simpa using hne, by simpa using hcres, by simpa using hares, by simpa using hnw⟩
    · simp only [World.cur]
      obtain ⟨ha, hct', hne', hcres'⟩ :=
        times_setCompare w.st w.codes.length (w.clock + dt + 1) w.clock true hnow hat hct hne hcres
      exact ⟨by simp only []; rw [ha]; omega, hct', hne', hcres', by simp only []; rw [ha]; exact hares,
        by simp only []; rw [ha]; exact hnw⟩

end NA.C13

namespace NA.C13

/-- Shape of the compare slot in every reachable status. -/
def CmpOK (v : Status) : Prop :=
  v.compare.result = .uptodate ∨ v.compare.result = .diff ∨ (v.compare.result = .none ∧ v.compare.time = 0)

theorem cmpOK_setCompare (v : Status) (p now : Nat) (ch : Bool) (h : CmpOK v) : CmpOK (setCompare v p ch now) := by
  obtain ⟨⟨ar, ap, atm⟩, ⟨cr, cp, ct⟩⟩ := v
  unfold CmpOK at *
  cases ch
  · simp [setCompare]
  · simp only [setCompare]
    by_cases hd : cr ≠ .diff ∨ ct < atm
    · simp [hd]
    · simp only [hd]; exact h

theorem cmpOK_step (w : World) (e : Event × Nat) (h : CmpOK w.st) : CmpOK (step w e).st := by
  obtain ⟨ev, dt⟩ := e
  cases ev <;> simp only [step] <;> (try split) <;> (try exact h) <;>
    first
      | exact cmpOK_setCompare _ _ _ _ h
      | (simp [CmpOK] at h ⊢; try exact h)

/-- Does the event destroy what the status file knows about the latest conclusive observation? -/
def dirty (w : World) (e : Event) : Bool :=
  match e with
  | .approveFailed => w.st.approveGood && decide (w.st.compare.time < w.st.approve.time)
  | .compareErr | .damage => true
  | _ => false

def conclusive (e : Event) : Bool :=
  match e with | .approveOk | .compare => true | _ => false

/-- Ghost flag: nothing has disturbed the record of the latest conclusive observation. -/
def cleanStep (w : World) (cl : Bool) (e : Event × Nat) : Bool :=
  if conclusive e.1 && w.cur != 0 then true else if dirty w e.1 then false else cl

def runC : List (Event × Nat) → World × Bool → World × Bool
  | [], s => s
  | e :: es, s => runC es (step s.1 e, cleanStep s.1 s.2 e)

theorem runC_fst (es : List (Event × Nat)) (s : World × Bool) : (runC es s).1 = es.foldl step s.1 := by
  induction es generalizing s with
  | nil => rfl
  | cons e es ih => simp [runC, ih]

def J (w : World) (cl : Bool) : Prop :=
  cl = true → ∀ c p, w.obs = .carries c p →
    devicePolicy w.st = p ∧ p ≠ 0 ∧ p ≤ w.cur ∧ c = w.codeOf p

theorem dp_setApprove_failed_eq (v : Status) (p now : Nat)
    (hnd : (v.approveGood && decide (v.compare.time < v.approve.time)) = false)
    (hne : v.approve.time = v.compare.time → v.compare.time = 0)
    (hares : v.approve.time = 0 → v.approve.result = .none)
    (hc : CmpOK v) :
    devicePolicy (setApprove v p true now) = devicePolicy v := by
  obtain ⟨⟨ar, ap, atm⟩, ⟨cr, cp, ct⟩⟩ := v
  unfold CmpOK at hc
  cases ar <;> cases cr <;>
    simp_all [devicePolicy, setApprove, Status.approveGood] <;> (try split) <;> (try split) <;> omega

end NA.C13

namespace NA.C13

theorem j_step (w : World) (cl : Bool) (e : Event × Nat) (ht : TimesOK w) (hc : CmpOK w.st)
    (hj : J w cl) : J (step w e) (cleanStep w cl e) := by
  obtain ⟨ev, dt⟩ := e
  obtain ⟨hat, hct, hne, hcres, hares, hnw⟩ := ht
  unfold J at *
  cases ev with
  | newPolicy cd =>
    simp only [step, cleanStep, conclusive, dirty]
    intro hcl c p ho
    obtain ⟨h1, h2, h3, h4⟩ := hj (by simpa using hcl) c p (by simpa using ho)
    refine ⟨by simpa using h1, h2, by simp [World.cur] at *; omega, ?_⟩
    simp only [World.codeOf] at h4 ⊢
    rw [codeAt_append _ _ _ (by simpa [World.cur] using h3)]; exact h4
  | drift cd =>
    simp only [step, cleanStep, conclusive, dirty]
    intro hcl c p ho
    simpa [World.cur, World.codeOf] using hj (by simpa using hcl) c p (by simpa using ho)
  | bzip q =>
    simp only [step, cleanStep, conclusive, dirty]
    intro hcl c p ho
    simpa [World.cur, World.codeOf] using hj (by simpa using hcl) c p (by simpa using ho)
  | remove q =>
    simp only [step, cleanStep, conclusive, dirty]
    intro hcl c p ho
    split at ho <;> (try split) <;>
      simpa [World.cur, World.codeOf] using hj (by simpa using hcl) c p (by simpa using ho)
  | damage => simp [cleanStep, conclusive, dirty]
  | compareErr => simp [cleanStep, conclusive, dirty]
  | approveOk =>
    by_cases h0 : w.cur = 0
    · have h0' : w.codes.length = 0 := by simpa [World.cur] using h0
      simp only [step, cleanStep, conclusive, dirty, World.cur, h0']
      intro hcl c p ho
      simpa [World.cur, World.codeOf] using hj (by simpa using hcl) c p (by simpa using ho)
    · have h0' : ¬ w.codes.length = 0 := by simpa [World.cur] using h0
      simp only [step, World.cur, h0', if_false]
      intro _ c p ho
      have hdp : devicePolicy (setApprove w.st w.codes.length false (w.clock + dt + 1)) = w.codes.length := by
        rw [devicePolicy_cases]; simp [setApprove, Status.approveGood]; omega
      simp only [Obs.carries.injEq] at ho
      obtain ⟨rfl, rfl⟩ := ho
      refine ⟨hdp, h0', by simp [World.cur], by simp [World.curCode, World.codeOf, World.cur]⟩
  | compare =>
    by_cases h0 : w.cur = 0
    · have h0' : w.codes.length = 0 := by simpa [World.cur] using h0
      simp only [step, cleanStep, conclusive, dirty, World.cur, h0']
      intro hcl c p ho
      simpa [World.cur, World.codeOf] using hj (by simpa using hcl) c p (by simpa using ho)
    · have h0' : ¬ w.codes.length = 0 := by simpa [World.cur] using h0
      simp only [step, World.cur, h0', if_false, World.curCode, World.codeOf]
      intro _ c p ho
      cases hch : (w.dev != codeAt w.codes w.codes.length)
      · simp only [hch] at ho ⊢
        simp only [Bool.false_eq_true, if_false, Obs.carries.injEq] at ho
        obtain ⟨rfl, rfl⟩ := ho
        exact ⟨dp_setCompare_same _ _ _ (by omega), h0', by simp [World.cur], rfl⟩
      · simp [hch] at ho
  | approveFailed =>
    by_cases h0 : w.cur = 0
    · have h0' : w.codes.length = 0 := by simpa [World.cur] using h0
      simp only [step, cleanStep, conclusive, World.cur, h0']
      intro hcl c p ho
      have hcl' : cl = true := by
        revert hcl; simp only [Bool.false_and, Bool.false_eq_true, if_false]; split <;> simp
      simpa [World.cur, World.codeOf] using hj hcl' c p (by simpa using ho)
    · have h0' : ¬ w.codes.length = 0 := by simpa [World.cur] using h0
      simp only [step, cleanStep, conclusive, World.cur, h0', if_false]
      intro hcl c p ho
      have hnd : dirty w .approveFailed = false ∧ cl = true := by
        revert hcl; simp only [Bool.false_and, Bool.false_eq_true, if_false]; split <;> simp_all
      obtain ⟨hnd, hcl'⟩ := hnd
      have := dp_setApprove_failed_eq w.st w.codes.length (w.clock + dt + 1) (by simpa [dirty] using hnd) hne hares hc
      obtain ⟨h1, h2, h3, h4⟩ := hj hcl' c p (by simpa using ho)
      exact ⟨by rw [this]; exact h1, h2, by simpa [World.cur] using h3, by simpa [World.codeOf] using h4⟩

end NA.C13
