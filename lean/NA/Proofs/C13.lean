import NA.Model.Status
/-! Invariants of the status file along arbitrary histories (helper lemmas for C13).

Since the repair of `status.SetApprove` (a failed approve first saves a successful approve that is
newer than the compare record into the compare slot) the invariant `Inv` is preserved by EVERY
event without side hypothesis: a failed approve never changes the policy that `check` derives. -/
namespace NA.C13

def Status.approveGood (v : Status) : Bool :=
  v.approve.result == .ok || v.approve.result == .warnings

/-- Time bookkeeping that every reachable status satisfies. -/
structure TimesOK (w : World) : Prop where
  at_le : w.st.approve.time ≤ w.clock
  ct_le : w.st.compare.time ≤ w.clock
  ne    : w.st.approve.time = w.st.compare.time → w.st.compare.time = 0
  cres  : w.st.compare.time = 0 → w.st.compare.result = .none
  ares  : w.st.approve.time = 0 → w.st.approve.result = .none
  nowarn : w.st.approve.result ≠ .warnings

/-- Shape of the compare slot in every reachable status. -/
def CmpOK (v : Status) : Prop :=
  v.compare.result = .uptodate ∨ v.compare.result = .diff ∨ (v.compare.result = .none ∧ v.compare.time = 0)

/-- OBSOLETE since the repair of `SetApprove`: there is no hazard state any more.  The two names
are kept, as constants, only because the driver `NA/Drv/C13.lean` prints the fields `hz=` and
`safe=` (now constantly 0 and 1). -/
def hazard (_ : World) : Bool := false

def failSafeB (_ : List (Event × Nat)) (_ : World) : Bool := true

/-- Main invariant: whatever policy `check` derives from the status file is what the
latest conclusive observation says the device carries. -/
structure Inv (w : World) : Prop where
  times : TimesOK w
  cmp : CmpOK w.st
  dp_le : devicePolicy w.st ≤ w.cur
  sound : devicePolicy w.st ≠ 0 →
            w.obs = .carries (w.codeOf (devicePolicy w.st)) (devicePolicy w.st)

theorem codeAt_append (codes : List Code) (c : Code) (p : Nat) (h : p ≤ codes.length) :
    codeAt (codes ++ [c]) p = codeAt codes p := by
  unfold codeAt
  by_cases hp : p = 0
  · simp [hp]
  · simp only [hp, if_false]
    have : p - 1 < codes.length := by omega
    simp [List.getD_eq_getElem?_getD, List.getElem?_append_left this]

theorem inv_init : Inv ({} : World) := by
  refine ⟨⟨by simp, by simp, by simp, by simp, by simp, by simp⟩, by simp [CmpOK], by simp [devicePolicy], ?_⟩
  simp [devicePolicy]

theorem devicePolicy_cases (v : Status) :
    devicePolicy v =
      (if (if v.approveGood then v.approve.time else 0) < v.compare.time then
        (match v.compare.result with
          | .uptodate => v.compare.policy
          | .diff => 0
          | _ => if v.approveGood then v.approve.policy else 0)
       else if v.approveGood then v.approve.policy else 0) := by
  unfold devicePolicy Status.approveGood
  cases h : v.approve.result <;> cases h2 : v.compare.result <;> simp



theorem setApprove_failed_keep (ar cr : Res) (ap atm cp ct p now : Nat)
    (hk : ct < atm ∧ (ar = .ok ∨ ar = .warnings)) :
    setApprove ⟨⟨ar, ap, atm⟩, ⟨cr, cp, ct⟩⟩ p true now
      = ⟨⟨.failed, p, now⟩, ⟨.uptodate, ap, atm⟩⟩ := by
  rcases hk.2 with h | h <;> simp [setApprove, hk.1, h]

theorem setApprove_failed_nokeep (ar cr : Res) (ap atm cp ct p now : Nat)
    (hk : ¬ (ct < atm ∧ (ar = .ok ∨ ar = .warnings))) :
    setApprove ⟨⟨ar, ap, atm⟩, ⟨cr, cp, ct⟩⟩ p true now
      = ⟨⟨.failed, p, now⟩, ⟨cr, cp, ct⟩⟩ := by
  simp only [setApprove, Bool.true_and]
  have : (decide (ct < atm) && (ar == Res.ok || ar == Res.warnings)) = false := by
    cases hd : decide (ct < atm) && (ar == Res.ok || ar == Res.warnings) with
    | false => rfl
    | true =>
      exfalso; apply hk
      simp only [Bool.and_eq_true, decide_eq_true_eq, Bool.or_eq_true, beq_iff_eq] at hd
      exact hd
  simp [this]

/-- A failed approve never changes the policy derived from the status file. -/
theorem dp_setApprove_failed_eq (v : Status) (p now : Nat)
    (hne : v.approve.time = v.compare.time → v.compare.time = 0)
    (hares : v.approve.time = 0 → v.approve.result = .none)
    (hc : CmpOK v) :
    devicePolicy (setApprove v p true now) = devicePolicy v := by
  obtain ⟨⟨ar, ap, atm⟩, ⟨cr, cp, ct⟩⟩ := v
  unfold CmpOK at hc
  simp only at hne hares hc
  by_cases hk : ct < atm ∧ (ar = .ok ∨ ar = .warnings)
  · rw [setApprove_failed_keep _ _ _ _ _ _ _ _ hk]
    have h0 : 0 < atm := by omega
    have hn : ¬ atm < ct := by omega
    rcases hk.2 with h | h <;> subst h <;> simp [devicePolicy, h0, hn]
  · rw [setApprove_failed_nokeep _ _ _ _ _ _ _ _ hk]
    by_cases hg : ar = .ok ∨ ar = .warnings
    · have hlt : atm < ct := by
        have h1 : ¬ ct < atm := fun h => hk ⟨h, hg⟩
        have h2 : atm ≠ 0 := by
          intro h0; have := hares h0; rcases hg with h | h <;> rw [h] at this <;> cases this
        have h3 : atm ≠ ct := fun e => h2 (by have := hne e; omega)
        omega
      have h0 : 0 < ct := by omega
      have hcr : cr = .uptodate ∨ cr = .diff := by
        rcases hc with h | h | h
        · exact Or.inl h
        · exact Or.inr h
        · omega
      rcases hg with h | h <;> rcases hcr with h' | h' <;> subst h <;> subst h' <;>
        simp [devicePolicy, hlt, h0]
    · cases ar <;> simp_all [devicePolicy]

/-- Bookkeeping facts of `setApprove` (both outcomes). -/
theorem setApprove_facts (v : Status) (p now clock : Nat) (failed : Bool)
    (hat : v.approve.time ≤ clock) (hct : v.compare.time ≤ clock)
    (hcres : v.compare.time = 0 → v.compare.result = .none) :
    (setApprove v p failed now).approve.time = now ∧
    (setApprove v p failed now).approve.result ≠ .none ∧
    (setApprove v p failed now).approve.result ≠ .warnings ∧
    (setApprove v p failed now).compare.time ≤ clock ∧
    ((setApprove v p failed now).compare.time = 0 → (setApprove v p failed now).compare.result = .none) := by
  obtain ⟨⟨ar, ap, atm⟩, ⟨cr, cp, ct⟩⟩ := v
  cases failed
  · simp_all [setApprove]
  · by_cases hk : ct < atm ∧ (ar = .ok ∨ ar = .warnings)
    · rw [setApprove_failed_keep _ _ _ _ _ _ _ _ hk]
      refine ⟨rfl, by simp, by simp, by simpa using hat, ?_⟩
      intro h0; simp at h0; omega
    · rw [setApprove_failed_nokeep _ _ _ _ _ _ _ _ hk]
      exact ⟨rfl, by simp, by simp, by simpa using hct, by simpa using hcres⟩

theorem cmpOK_setApprove (v : Status) (p now : Nat) (failed : Bool) (hc : CmpOK v) :
    CmpOK (setApprove v p failed now) := by
  obtain ⟨⟨ar, ap, atm⟩, ⟨cr, cp, ct⟩⟩ := v
  unfold CmpOK at *
  cases failed
  · simpa [setApprove] using hc
  · by_cases hk : ct < atm ∧ (ar = .ok ∨ ar = .warnings)
    · rw [setApprove_failed_keep _ _ _ _ _ _ _ _ hk]; simp
    · rw [setApprove_failed_nokeep _ _ _ _ _ _ _ _ hk]; simpa using hc

/-- `TimesOK` after a `setApprove` at a later time. -/
theorem times_of_setApprove (w w' : World) (p now : Nat) (failed : Bool) (hnow : w.clock < now)
    (ht : TimesOK w) (hst : w'.st = setApprove w.st p failed now) (hcl : w'.clock = now) :
    TimesOK w' := by
  obtain ⟨hat, hct, _, hcres, _, _⟩ := ht
  obtain ⟨f1, f2, f3, f4, f5⟩ := setApprove_facts w.st p now w.clock failed hat hct hcres
  refine ⟨by rw [hst, hcl, f1]; exact Nat.le_refl _, by rw [hst, hcl]; omega, ?_, by rw [hst]; exact f5,
    ?_, by rw [hst]; exact f3⟩
  · rw [hst, f1]; intro e; omega
  · rw [hst, f1]; intro e; omega

theorem dp_setCompare_same (v : Status) (p now : Nat) (h : v.approve.time < now) :
    devicePolicy (setCompare v p false now) = p := by
  obtain ⟨⟨ar, ap, atm⟩, ⟨cr, cp, ct⟩⟩ := v
  cases ar <;> simp_all [devicePolicy, setCompare] <;> intros <;> omega

theorem dp_setCompare_changed (v : Status) (p now : Nat) (h : v.approve.time < now)
    (hne : v.approve.time = v.compare.time → v.compare.time = 0)
    (hcres : v.compare.time = 0 → v.compare.result = .none) :
    devicePolicy (setCompare v p true now) = 0 := by
  obtain ⟨⟨ar, ap, atm⟩, ⟨cr, cp, ct⟩⟩ := v
  simp only [setCompare]
  by_cases hd : cr ≠ .diff ∨ ct < atm
  · simp only [hd]
    cases ar <;> simp_all [devicePolicy] <;> intros <;> omega
  · have h1 : cr = .diff := by
      cases cr <;> simp_all
    have h2 : ¬ ct < atm := fun h => hd (Or.inr h)
    subst h1
    simp only [hd]
    have h3 : ct ≠ 0 := by intro h0; have := hcres h0; simp at this
    cases ar <;> simp_all [devicePolicy] <;> intros <;> omega

theorem times_setCompare (v : Status) (p now clock : Nat) (ch : Bool) (hnow : clock < now)
    (hat : v.approve.time ≤ clock) (hct : v.compare.time ≤ clock)
    (hne : v.approve.time = v.compare.time → v.compare.time = 0)
    (hcres : v.compare.time = 0 → v.compare.result = .none) :
    let v' := setCompare v p ch now
    v'.approve = v.approve ∧ v'.compare.time ≤ now ∧
    (v'.approve.time = v'.compare.time → v'.compare.time = 0) ∧
    (v'.compare.time = 0 → v'.compare.result = .none) := by
  obtain ⟨⟨ar, ap, atm⟩, ⟨cr, cp, ct⟩⟩ := v
  cases ch <;> simp_all [setCompare] <;> (try split) <;> (try simp_all) <;> omega

theorem times_step (w : World) (e : Event × Nat) (h : TimesOK w) : TimesOK (step w e) := by
  obtain ⟨ev, dt⟩ := e
  obtain ⟨hat, hct, hne, hcres, hares, hnw⟩ := h
  have hnow : w.clock < w.clock + dt + 1 := by omega
  cases ev with
  | newPolicy c => exact ⟨by simp [step]; omega, by simp [step]; omega, by simpa [step] using hne, by simpa [step] using hcres, by simpa [step] using hares, by simpa [step] using hnw⟩
  | drift c => exact ⟨by simp [step]; omega, by simp [step]; omega, by simpa [step] using hne, by simpa [step] using hcres, by simpa [step] using hares, by simpa [step] using hnw⟩
  | bzip p => exact ⟨by simp [step]; omega, by simp [step]; omega, by simpa [step] using hne, by simpa [step] using hcres, by simpa [step] using hares, by simpa [step] using hnw⟩
  | remove p =>
    simp only [step]; split <;>
    exact ⟨by simp; omega, by simp; omega, by simpa using hne, by simpa using hcres, by simpa using hares, by simpa using hnw⟩
  | damage => exact ⟨by simp [step], by simp [step], by simp [step], by simp [step], by simp [step], by simp [step]⟩
  | approveOk =>
    simp only [step]; split
    · exact ⟨by simp; omega, by simp; omega, by simpa using hne, by simpa using hcres, by simpa using hares, by simpa using hnw⟩
    · exact times_of_setApprove w _ _ (w.clock + dt + 1) _ hnow ⟨hat, hct, hne, hcres, hares, hnw⟩ rfl rfl
  | approveFailed =>
    simp only [step]; split
    · exact ⟨by simp; omega, by simp; omega, by simpa using hne, by simpa using hcres, by simpa using hares, by simpa using hnw⟩
    · exact times_of_setApprove w _ _ (w.clock + dt + 1) _ hnow ⟨hat, hct, hne, hcres, hares, hnw⟩ rfl rfl
  | compare =>
    simp only [step]; split
    · exact ⟨by simp; omega, by simp; omega, by simpa using hne, by simpa using hcres, by simpa using hares, by simpa using hnw⟩
    · simp only [World.cur, World.curCode, World.codeOf]
      obtain ⟨ha, hct', hne', hcres'⟩ :=
        times_setCompare w.st w.codes.length (w.clock + dt + 1) w.clock (w.dev != codeAt w.codes w.codes.length) hnow hat hct hne hcres
      exact ⟨by simp only []; rw [ha]; omega, hct', hne', hcres', by simp only []; rw [ha]; exact hares,
        by simp only []; rw [ha]; exact hnw⟩
  | compareErr =>
    simp only [step]; split
    · exact ⟨by simp; omega, by simp; omega, by simpa using hne, by simpa using hcres, by simpa using hares, by simpa using hnw⟩
    · simp only [World.cur]
      obtain ⟨ha, hct', hne', hcres'⟩ :=
        times_setCompare w.st w.codes.length (w.clock + dt + 1) w.clock true hnow hat hct hne hcres
      exact ⟨by simp only []; rw [ha]; omega, hct', hne', hcres', by simp only []; rw [ha]; exact hares,
        by simp only []; rw [ha]; exact hnw⟩

theorem cmpOK_setCompare (v : Status) (p now : Nat) (ch : Bool) (h : CmpOK v) : CmpOK (setCompare v p ch now) := by
  obtain ⟨⟨ar, ap, atm⟩, ⟨cr, cp, ct⟩⟩ := v
  unfold CmpOK at *
  cases ch
  · simp [setCompare]
  · simp only [setCompare]
    by_cases hd : cr ≠ .diff ∨ ct < atm
    · simp [hd]
    · simp only [hd]; exact h

theorem cmpOK_step (w : World) (e : Event × Nat) (h : CmpOK w.st) : CmpOK (step w e).st := by
  obtain ⟨ev, dt⟩ := e
  cases ev <;> simp only [step] <;> (try split) <;> (try exact h) <;>
    first
      | exact cmpOK_setCompare _ _ _ _ h
      | exact cmpOK_setApprove _ _ _ _ h
      | (simp [CmpOK] at h ⊢; try exact h)

/-- The policy derived from the status file stays below the current one and stays what the
latest conclusive observation established — for EVERY event. -/
theorem inv_core_step (w : World) (e : Event × Nat) (h : Inv w) :
    devicePolicy (step w e).st ≤ (step w e).cur ∧
    (devicePolicy (step w e).st ≠ 0 →
      (step w e).obs = .carries ((step w e).codeOf (devicePolicy (step w e).st))
        (devicePolicy (step w e).st)) := by
  obtain ⟨ev, dt⟩ := e
  obtain ⟨⟨hat, hct, hne, hcres, hares, hnw⟩, hcmp, hle, hsound⟩ := h
  cases ev with
  | newPolicy c =>
    simp only [step]
    refine ⟨?_, ?_⟩
    · simp [World.cur] at *; omega
    · intro hd
      have := hsound hd
      simp only [World.cur] at hle
      (try simp only [])
      simp only [World.codeOf] at this ⊢
      rw [codeAt_append _ _ _ hle]
      simpa using this
  | approveOk =>
    simp only [step]
    by_cases hc : w.cur = 0
    · simp only [World.cur] at hc
      simp only [World.cur, hc, if_true]
      refine ⟨?_, ?_⟩
      · simpa [World.cur, hc] using hle
      · intro hd; simpa [World.codeOf] using hsound hd
    · have hc' : ¬ w.codes.length = 0 := by simpa [World.cur] using hc
      simp only [World.cur, hc', if_false]
      have hdp : devicePolicy (setApprove w.st w.codes.length false (w.clock + dt + 1)) = w.codes.length := by
        rw [devicePolicy_cases]; simp [setApprove, Status.approveGood]; omega
      refine ⟨?_, ?_⟩
      · (try simp only []); rw [hdp]; simp
      · intro _; (try simp only []); rw [hdp]; simp [World.curCode, World.cur, World.codeOf, codeAt]
  | approveFailed =>
    simp only [step]
    by_cases hc : w.cur = 0
    · simp only [World.cur] at hc
      simp only [World.cur, hc, if_true]
      refine ⟨?_, ?_⟩
      · simpa [World.cur, hc] using hle
      · intro hd; simpa [World.codeOf] using hsound hd
    · have hc' : ¬ w.codes.length = 0 := by simpa [World.cur] using hc
      simp only [World.cur, hc', if_false]
      have key := dp_setApprove_failed_eq w.st w.codes.length (w.clock + dt + 1) hne hares hcmp
      refine ⟨?_, ?_⟩
      · (try simp only []); rw [key]; simpa [World.cur] using hle
      · intro hd
        (try simp only [] at hd ⊢)
        rw [key] at hd ⊢
        simpa [World.codeOf] using hsound hd
  | compare =>
    simp only [step]
    by_cases hc : w.cur = 0
    · simp only [World.cur] at hc
      simp only [World.cur, hc, if_true]
      refine ⟨?_, ?_⟩
      · simpa [World.cur, hc] using hle
      · intro hd; simpa [World.codeOf] using hsound hd
    · have hc' : ¬ w.codes.length = 0 := by simpa [World.cur] using hc
      simp only [World.cur, hc', if_false, World.curCode, World.codeOf]
      suffices aux : ∀ ch : Bool,
          devicePolicy (setCompare w.st w.codes.length ch (w.clock + dt + 1)) ≤ w.codes.length ∧
          (devicePolicy (setCompare w.st w.codes.length ch (w.clock + dt + 1)) ≠ 0 →
            (if ch = true then Obs.differs else Obs.carries (codeAt w.codes w.codes.length) w.codes.length) =
              Obs.carries (codeAt w.codes (devicePolicy (setCompare w.st w.codes.length ch (w.clock + dt + 1))))
                (devicePolicy (setCompare w.st w.codes.length ch (w.clock + dt + 1)))) from aux _
      intro ch
      cases ch
      · refine ⟨?_, ?_⟩
        · (try simp only []); rw [dp_setCompare_same _ _ _ (by omega)]; simp
        · intro _; (try simp only []); rw [dp_setCompare_same _ _ _ (by omega)]; simp
      · refine ⟨?_, ?_⟩
        · (try simp only []); rw [dp_setCompare_changed _ _ _ (by omega) hne hcres]; omega
        · intro hd; (try simp only [] at hd); rw [dp_setCompare_changed _ _ _ (by omega) hne hcres] at hd
          exact absurd rfl hd
  | compareErr =>
    simp only [step]
    by_cases hc : w.cur = 0
    · simp only [World.cur] at hc
      simp only [World.cur, hc, if_true]
      refine ⟨?_, ?_⟩
      · simpa [World.cur, hc] using hle
      · intro hd; simpa [World.codeOf] using hsound hd
    · have hc' : ¬ w.codes.length = 0 := by simpa [World.cur] using hc
      simp only [World.cur, hc', if_false]
      refine ⟨?_, ?_⟩
      · (try simp only []); rw [dp_setCompare_changed _ _ _ (by omega) hne hcres]; omega
      · intro hd; (try simp only [] at hd); rw [dp_setCompare_changed _ _ _ (by omega) hne hcres] at hd
        exact absurd rfl hd
  | drift c =>
    simp only [step]
    refine ⟨by simpa [World.cur] using hle, ?_⟩
    intro hd; simpa [World.codeOf] using hsound hd
  | bzip p =>
    simp only [step]
    refine ⟨by simpa [World.cur] using hle, ?_⟩
    intro hd; simpa [World.codeOf] using hsound hd
  | remove p =>
    simp only [step]
    split
    · refine ⟨by simpa [World.cur] using hle, ?_⟩
      intro hd; simpa [World.codeOf] using hsound hd
    · refine ⟨by simpa [World.cur] using hle, ?_⟩
      intro hd; simpa [World.codeOf] using hsound hd
  | damage =>
    simp only [step]
    refine ⟨by simp [devicePolicy], ?_⟩
    simp [devicePolicy]

/-- The invariant is preserved by every event — no side hypothesis. -/
theorem inv_step (w : World) (e : Event × Nat) (h : Inv w) : Inv (step w e) :=
  ⟨times_step w e h.times, cmpOK_step w e h.cmp, (inv_core_step w e h).1, (inv_core_step w e h).2⟩

/-- Does the event destroy what the status file knows about the latest conclusive observation?
Since the repair of `SetApprove` a failed approve does not. -/
def dirty (_ : World) (e : Event) : Bool :=
  match e with
  | .compareErr | .damage => true
  | _ => false

def conclusive (e : Event) : Bool :=
  match e with | .approveOk | .compare => true | _ => false

/-- Ghost flag: nothing has disturbed the record of the latest conclusive observation. -/
def cleanStep (w : World) (cl : Bool) (e : Event × Nat) : Bool :=
  if conclusive e.1 && w.cur != 0 then true else if dirty w e.1 then false else cl

def runC : List (Event × Nat) → World × Bool → World × Bool
  | [], s => s
  | e :: es, s => runC es (step s.1 e, cleanStep s.1 s.2 e)

theorem runC_fst (es : List (Event × Nat)) (s : World × Bool) : (runC es s).1 = es.foldl step s.1 := by
  induction es generalizing s with
  | nil => rfl
  | cons e es ih => simp [runC, ih]

def J (w : World) (cl : Bool) : Prop :=
  cl = true → ∀ c p, w.obs = .carries c p →
    devicePolicy w.st = p ∧ p ≠ 0 ∧ p ≤ w.cur ∧ c = w.codeOf p

theorem j_step (w : World) (cl : Bool) (e : Event × Nat) (ht : TimesOK w) (hc : CmpOK w.st)
    (hj : J w cl) : J (step w e) (cleanStep w cl e) := by
  obtain ⟨ev, dt⟩ := e
  obtain ⟨hat, hct, hne, hcres, hares, hnw⟩ := ht
  unfold J at *
  cases ev with
  | newPolicy cd =>
    simp only [step, cleanStep, conclusive, dirty]
    intro hcl c p ho
    obtain ⟨h1, h2, h3, h4⟩ := hj (by simpa using hcl) c p (by simpa using ho)
    refine ⟨by simpa using h1, h2, by simp [World.cur] at *; omega, ?_⟩
    simp only [World.codeOf] at h4 ⊢
    rw [codeAt_append _ _ _ (by simpa [World.cur] using h3)]; exact h4
  | drift cd =>
    simp only [step, cleanStep, conclusive, dirty]
    intro hcl c p ho
    simpa [World.cur, World.codeOf] using hj (by simpa using hcl) c p (by simpa using ho)
  | bzip q =>
    simp only [step, cleanStep, conclusive, dirty]
    intro hcl c p ho
    simpa [World.cur, World.codeOf] using hj (by simpa using hcl) c p (by simpa using ho)
  | remove q =>
    simp only [step, cleanStep, conclusive, dirty]
    intro hcl c p ho
    split at ho <;> (try split) <;>
      simpa [World.cur, World.codeOf] using hj (by simpa using hcl) c p (by simpa using ho)
  | damage => simp [cleanStep, conclusive, dirty]
  | compareErr => simp [cleanStep, conclusive, dirty]
  | approveOk =>
    by_cases h0 : w.cur = 0
    · have h0' : w.codes.length = 0 := by simpa [World.cur] using h0
      simp only [step, cleanStep, conclusive, dirty, World.cur, h0']
      intro hcl c p ho
      simpa [World.cur, World.codeOf] using hj (by simpa using hcl) c p (by simpa using ho)
    · have h0' : ¬ w.codes.length = 0 := by simpa [World.cur] using h0
      simp only [step, World.cur, h0', if_false]
      intro _ c p ho
      have hdp : devicePolicy (setApprove w.st w.codes.length false (w.clock + dt + 1)) = w.codes.length := by
        rw [devicePolicy_cases]; simp [setApprove, Status.approveGood]; omega
      simp only [Obs.carries.injEq] at ho
      obtain ⟨rfl, rfl⟩ := ho
      refine ⟨hdp, h0', by simp, by simp [World.curCode, World.codeOf, World.cur]⟩
  | compare =>
    by_cases h0 : w.cur = 0
    · have h0' : w.codes.length = 0 := by simpa [World.cur] using h0
      simp only [step, cleanStep, conclusive, dirty, World.cur, h0']
      intro hcl c p ho
      simpa [World.cur, World.codeOf] using hj (by simpa using hcl) c p (by simpa using ho)
    · have h0' : ¬ w.codes.length = 0 := by simpa [World.cur] using h0
      simp only [step, World.cur, h0', if_false, World.curCode, World.codeOf]
      intro _ c p ho
      cases hch : (w.dev != codeAt w.codes w.codes.length)
      · simp only [hch] at ho ⊢
        simp only [Bool.false_eq_true, if_false, Obs.carries.injEq] at ho
        obtain ⟨rfl, rfl⟩ := ho
        exact ⟨dp_setCompare_same _ _ _ (by omega), h0', by simp, rfl⟩
      · simp [hch] at ho
  | approveFailed =>
    by_cases h0 : w.cur = 0
    · have h0' : w.codes.length = 0 := by simpa [World.cur] using h0
      simp only [step, cleanStep, conclusive, World.cur, h0']
      intro hcl c p ho
      have hcl' : cl = true := by simpa [dirty] using hcl
      simpa [World.cur, World.codeOf] using hj hcl' c p (by simpa using ho)
    · have h0' : ¬ w.codes.length = 0 := by simpa [World.cur] using h0
      simp only [step, cleanStep, conclusive, World.cur, h0', if_false]
      intro hcl c p ho
      have hcl' : cl = true := by simpa [dirty] using hcl
      have := dp_setApprove_failed_eq w.st w.codes.length (w.clock + dt + 1) hne hares hc
      obtain ⟨h1, h2, h3, h4⟩ := hj hcl' c p (by simpa using ho)
      exact ⟨by rw [this]; exact h1, h2, by simpa [World.cur] using h3, by simpa [World.codeOf] using h4⟩

end NA.C13
