import NA.Proofs.F1Dev
/-!
# F1: executing the engine's object-group commands on the strict device
-/
namespace NA.F1
open NA.AsaDev
open NA.Acl (Range)

/-- The engine's `subCmdOf` and the device's open sub-mode agree. -/
def ModeRel (st : St) (d : Dev) : Prop := d.mode = if st.mode = "" then none else some st.mode

/-- `d'` differs from `d` at most in the members of group `g` and the open sub-mode. -/
structure OnlyGroup (d d' : Dev) (g : Name) : Prop where
  others : ∀ g', g' ≠ g → membersOf d' g' = membersOf d g'
  has : ∀ g', hasGroup d' g' = hasGroup d g'
  acls : d'.acls = d.acls
  binds : d'.binds = d.binds
  routes : d'.routes = d.routes
  intfs : d'.intfs = d.intfs

theorem OnlyGroup.refl (d : Dev) (g : Name) : OnlyGroup d d g := ⟨fun _ _ => rfl, fun _ => rfl, rfl, rfl, rfl, rfl⟩

theorem OnlyGroup.trans {d1 d2 d3 : Dev} {g : Name} (h1 : OnlyGroup d1 d2 g) (h2 : OnlyGroup d2 d3 g) : OnlyGroup d1 d3 g :=
  ⟨fun g' hg => (h2.others g' hg).trans (h1.others g' hg), fun g' => (h2.has g').trans (h1.has g'),
   h2.acls.trans h1.acls, h2.binds.trans h1.binds, h2.routes.trans h1.routes, h2.intfs.trans h1.intfs⟩

theorem OnlyGroup.of_mode (d : Dev) (g : Name) (md : Option Name) : OnlyGroup d { d with mode := md } g :=
  ⟨fun _ _ => rfl, fun _ => rfl, rfl, rfl, rfl, rfl⟩

def memChg : Bool × String → Chg
  | (true, m) => .mem m
  | (false, m) => .noMem m

/-- `setMode` on the device: afterwards the sub-mode of `n` is open, nothing else changed. -/
theorem setMode_exec (st : St) (d : Dev) (n : Name) (hm : ModeRel st d) (hg : hasGroup d n = true) (hn : n ≠ "") :
    ∃ cs, (setMode st n).out = st.out ++ cs ∧ exec d cs = some { d with mode := some n } ∧ (setMode st n).mode = n := by
  unfold setMode
  by_cases h1 : (st.mode == n) = true
  · have e : st.mode = n := by simpa using h1
    refine ⟨[], by simp [h1], ?_, by simp [h1, e]⟩
    unfold ModeRel at hm
    rw [e, if_neg hn] at hm
    rw [exec_nil]
    congr 1
    cases d; simp only at hm; subst hm; rfl
  · simp only [h1, Bool.false_eq_true, if_false]
    have hgrp : ∀ d0 : Dev, hasGroup d0 n = true → exec1 d0 (.grp n) = .ok { d0 with mode := some n } := by
      intro d0 h0; simp [exec1, h0]
    by_cases h2 : (st.mode != "") = true
    · have hne : st.mode ≠ "" := by simpa using h2
      simp only [h2, if_true]
      refine ⟨[.exit, .grp n], by simp [St.emit, St.hit], ?_⟩
      simp only [and_true]
      unfold ModeRel at hm
      rw [if_neg hne] at hm
      have e1 : exec1 d .exit = .ok { d with mode := none } := by simp [exec1, hm]
      rw [exec_cons]
      simp only [step, e1, Option.bind_some]
      exact exec_single (hgrp _ hg)
    · simp only [h2, Bool.false_eq_true, if_false]
      exact ⟨[.grp n], by simp [St.emit], by simp only [and_true]; exact exec_single (hgrp d hg)⟩

theorem modeRel_of_mode {st : St} {d : Dev} {n : Name} (h1 : st.mode = n) (h2 : d.mode = some n) (hn : n ≠ "") : ModeRel st d := by
  unfold ModeRel; rw [h1, if_neg hn]; exact h2

/-- One member command after `setMode`. -/
theorem memStep_exec (st : St) (d : Dev) (aN : Name) (op : Bool × String) (cur' : List String)
    (hm : ModeRel st d) (hg : hasGroup d aN = true) (hn : aN ≠ "")
    (ha : applyMem (membersOf d aN) [op] = some cur') :
    ∃ cs d', ((setMode st aN).emit (memChg op)).out = st.out ++ cs ∧ exec d cs = some d' ∧
      d'.mode = some aN ∧ membersOf d' aN = cur' ∧ OnlyGroup d d' aN := by
  obtain ⟨cs, ho, he, _⟩ := setMode_exec st d aN hm hg hn
  obtain ⟨k, m⟩ := op
  have hmem : membersOf { d with mode := some aN } aN = membersOf d aN := rfl
  cases k with
  | true =>
    simp only [applyMem] at ha
    split at ha
    · exact absurd ha (by simp)
    · rename_i hc
      simp only [Option.some.injEq] at ha
      have e1 : exec1 { d with mode := some aN } (.mem m) =
          .ok { d with groups := setAssoc d.groups aN (membersOf d aN ++ [m]), mode := some aN } := by
        have hc' : m ∉ membersOf d aN := by simpa using hc
        simp [exec1, hmem, hc']
      refine ⟨cs ++ [.mem m], _, by simp [St.emit, memChg, ho], exec_append_some he (exec_single e1), rfl, ?_, ?_⟩
      · rw [membersOf_setGroup_self]; exact ha
      · exact ⟨fun g' hg' => membersOf_setGroup_ne d aN g' _ _ hg', fun g' => by
          rw [hasGroup_setGroup]
          by_cases e : aN = g'
          · subst e; simp [hg]
          · have : (aN == g') = false := by simpa using e
            simp [this], rfl, rfl, rfl, rfl⟩
  | false =>
    simp only [applyMem] at ha
    split at ha
    · rename_i hc
      simp only [Option.some.injEq] at ha
      have e1 : exec1 { d with mode := some aN } (.noMem m) =
          .ok { d with groups := setAssoc d.groups aN ((membersOf d aN).filter (· != m)), mode := some aN } := by
        have hc' : m ∈ membersOf d aN := by simpa using hc
        simp [exec1, hmem, hc']
      refine ⟨cs ++ [.noMem m], _, by simp [St.emit, memChg, ho], exec_append_some he (exec_single e1), rfl, ?_, ?_⟩
      · rw [membersOf_setGroup_self]; exact ha
      · exact ⟨fun g' hg' => membersOf_setGroup_ne d aN g' _ _ hg', fun g' => by
          rw [hasGroup_setGroup]
          by_cases e : aN = g'
          · subst e; simp [hg]
          · have : (aN == g') = false := by simpa using e
            simp [this], rfl, rfl, rfl, rfl⟩
    · exact absurd ha (by simp)

theorem applyMem_append (cur : List String) (xs ys : List (Bool × String)) :
    applyMem cur (xs ++ ys) = (applyMem cur xs).bind fun c => applyMem c ys := by
  induction xs generalizing cur with
  | nil => simp [applyMem]
  | cons x xs ih =>
    obtain ⟨k, m⟩ := x
    cases k <;> simp only [List.cons_append, applyMem] <;> split <;> simp [ih]

/-- A sequence of member commands of one group, each preceded by `setMode`. -/
theorem memFold_exec (aN : Name) (hn : aN ≠ "") : ∀ (ops : List (Bool × String)) (st : St) (d : Dev) (cur' : List String),
    ModeRel st d → hasGroup d aN = true → applyMem (membersOf d aN) ops = some cur' →
    ∃ cs d', (ops.foldl (fun s op => (setMode s aN).emit (memChg op)) st).out = st.out ++ cs ∧ exec d cs = some d' ∧
      ModeRel (ops.foldl (fun s op => (setMode s aN).emit (memChg op)) st) d' ∧ membersOf d' aN = cur' ∧ OnlyGroup d d' aN := by
  intro ops
  induction ops with
  | nil =>
    intro st d cur' hm _ ha
    simp only [applyMem, Option.some.injEq] at ha
    exact ⟨[], d, by simp, exec_nil d, hm, ha, OnlyGroup.refl d aN⟩
  | cons op ops ih =>
    intro st d cur' hm hg ha
    have hsplit : applyMem (membersOf d aN) ([op] ++ ops) = some cur' := ha
    rw [applyMem_append] at hsplit
    cases h1 : applyMem (membersOf d aN) [op] with
    | none => rw [h1] at hsplit; exact absurd hsplit (by simp)
    | some c1 =>
      rw [h1] at hsplit
      simp only [Option.bind_some] at hsplit
      obtain ⟨cs1, d1, ho1, he1, hmode1, hmem1, hog1⟩ := memStep_exec st d aN op c1 hm hg hn h1
      have hst1 : ((setMode st aN).emit (memChg op)).mode = aN := by
        obtain ⟨_, _, _, hmd⟩ := setMode_exec st d aN hm hg hn
        exact hmd
      have hm1 : ModeRel ((setMode st aN).emit (memChg op)) d1 := modeRel_of_mode hst1 hmode1 hn
      have hg1 : hasGroup d1 aN = true := by rw [hog1.has]; exact hg
      obtain ⟨cs2, d2, ho2, he2, hm2, hmem2, hog2⟩ := ih _ d1 cur' hm1 hg1 (by rw [hmem1]; exact hsplit)
      refine ⟨cs1 ++ cs2, d2, ?_, exec_append_some he1 he2, hm2, hmem2, hog1.trans hog2⟩
      simp only [List.foldl_cons]
      rw [ho2, ho1, List.append_assoc]

theorem delMembers_eq_fold (st : St) (aN : Name) (ms : List String) :
    delMembers st aN ms = (ms.map (false, ·)).foldl (fun s op => (setMode s aN).emit (memChg op)) st := by
  unfold delMembers
  rw [List.foldl_map]
  rfl

theorem addMembers_eq_fold (st : St) (aN : Name) (ms : List String) :
    addMembers st aN ms = (ms.map (true, ·)).foldl (fun s op => (setMode s aN).emit (memChg op)) st := by
  unfold addMembers
  rw [List.foldl_map]
  rfl

theorem editMembers_eq_fold (aN : Name) (la lb : List String) : ∀ (rs : List Range) (st : St),
    editMembers st aN la lb rs = (memOps la lb rs).foldl (fun s op => (setMode s aN).emit (memChg op)) st := by
  intro rs
  induction rs with
  | nil => intro st; rfl
  | cons r rs ih =>
    intro st
    unfold editMembers
    rw [ih]
    simp only [memOps, List.foldl_append]
    by_cases hd : r.isDelete = true
    · simp only [hd, if_true, delMembers_eq_fold]
    · by_cases hi : r.isInsert = true
      · simp only [hd, hi, if_true, Bool.false_eq_true, if_false, addMembers_eq_fold]
      · simp only [hd, hi, Bool.false_eq_true, if_false, List.foldl_nil]

/-- The in-place edit on the device: if the strict member semantics accepts the member script, the strict
device accepts the emitted commands (including `exit` / `object-group` lines) and only the members of `aN` change. -/
theorem editMembers_exec (st : St) (d : Dev) (aN : Name) (la lb : List String) (rs : List Range) (cur' : List String)
    (hn : aN ≠ "") (hm : ModeRel st d) (hg : hasGroup d aN = true)
    (ha : applyMem (membersOf d aN) (memOps la lb rs) = some cur') :
    ∃ cs d', (editMembers st aN la lb rs).out = st.out ++ cs ∧ exec d cs = some d' ∧
      ModeRel (editMembers st aN la lb rs) d' ∧ membersOf d' aN = cur' ∧ OnlyGroup d d' aN := by
  rw [editMembers_eq_fold]
  exact memFold_exec aN hn _ st d cur' hm hg ha

/-- `group_equalize_converges` on the strict device: from a device group holding a permutation of `la`,
the emitted commands are accepted and leave a permutation of the target's members `lb`; all other groups,
all access lists, bindings and routes are unchanged. -/
theorem editMembers_converges (st : St) (d : Dev) (aN : Name) (la lb : List String) (rs : List Range)
    (hn : aN ≠ "") (hm : ModeRel st d) (hg : hasGroup d aN = true)
    (hv : scriptOK la lb rs 0 0 = true) (hna : la.Nodup) (hnb : lb.Nodup) (hcur : (membersOf d aN).Perm la)
    (hdisj : ∀ m ∈ inssOf lb rs, m ∉ delsOf la rs) :
    ∃ cs d', (editMembers st aN la lb rs).out = st.out ++ cs ∧ exec d cs = some d' ∧
      ModeRel (editMembers st aN la lb rs) d' ∧ (membersOf d' aN).Perm lb ∧ OnlyGroup d d' aN := by
  obtain ⟨l', h1, h2⟩ := memOps_converge la lb (membersOf d aN) rs hv hna hnb hcur hdisj
  obtain ⟨cs, d', ho, he, hm', hmem, hog⟩ := editMembers_exec st d aN la lb rs l' hn hm hg h1
  exact ⟨cs, d', ho, he, hm', hmem ▸ h2, hog⟩

end NA.F1
