import NA.Proofs.C19Number3
/-! # C19 — numbering: the invariant over all schedules -/
set_option linter.unusedVariables false
set_option linter.unnecessarySimpa false
namespace NA.C19
variable {a b : F2} {g g' : G} {p q : Proc}

/-! ### Facts of a process that does not move -/

theorem Γ2.congr (h : Γ2 b g q) (hlock : g.lock = some q.pid → g'.lock = some q.pid)
    (h1 : g'.store = g.store) (h2 : g'.remote = g.remote) (h3 : g'.nextHead = g.nextHead)
    (h4 : g'.current = g.current) (h5 : g'.hist = g.hist) : Γ2 b g' q := by
  have hp : ∀ i, polOf g' i = polOf g i := fun i => by simp [polOf, h1]
  have hR : Rg g' = Rg g := by simp [Rg, hp, h2]
  have hL : Lk g' = Lk g := by simp [Lk, h4]
  constructor
  · intro hf; exact hlock (h.holds hf)
  · intro hf; obtain ⟨hl, x, hx, he⟩ := h.hEqR hf; exact ⟨hlock hl, x, by rw [h3]; exact hx, by rw [hp, hp, h2]; exact he⟩
  · intro hf; obtain ⟨hl, he⟩ := h.baseR hf; exact ⟨hlock hl, by rw [hp, hp, h2]; exact he⟩
  · intro hf; obtain ⟨hl, x, r, hx, hr, hle⟩ := h.pfP hf
    exact ⟨hlock hl, x, r, by rw [h3]; exact hx, by rw [hp]; exact hr, by rw [hR]; exact hle⟩
  · intro hf; obtain ⟨hl, he⟩ := h.fcOk hf; exact ⟨hlock hl, by rw [hR]; exact he⟩
  · intro hf; obtain ⟨hl, he⟩ := h.rZero hf; exact ⟨hlock hl, by rw [hR]; exact he⟩
  · intro hf; obtain ⟨hl, he⟩ := h.fcGe hf; exact ⟨hlock hl, by rw [hR]; exact he⟩
  · intro hf; obtain ⟨hl, he⟩ := h.prevEq hf; exact ⟨hlock hl, by rw [h4]; exact he⟩
  · intro hf; exact h.prevSome hf
  · intro hf; obtain ⟨hl, he⟩ := h.lcOk hf; exact ⟨hlock hl, by rw [hL]; exact he⟩
  · intro hf; obtain ⟨hl, he⟩ := h.lkZero hf; exact ⟨hlock hl, by rw [hL]; exact he⟩
  · intro hf; obtain ⟨hl, he⟩ := h.lcGe hf; exact ⟨hlock hl, by rw [hL]; exact he⟩
  · intro hf; obtain ⟨hl, he⟩ := h.cntGe hf; exact ⟨hlock hl, by rw [hR, hL]; exact he⟩
  · intro hf; obtain ⟨hl, he⟩ := h.cntGt hf; exact ⟨hlock hl, by rw [hR, hL]; exact he⟩
  · intro hf; obtain ⟨hl, he⟩ := h.polGt hf; exact ⟨hlock hl, by rw [hR, hL]; exact he⟩
  · intro hf; obtain ⟨hl, he⟩ := h.fresh hf; exact ⟨hlock hl, by rw [h5]; exact he⟩
  · intro hf; obtain ⟨hl, he⟩ := h.histLe hf; exact ⟨hlock hl, by rw [h5]; exact he⟩
  · intro hf; exact h.wOk hf
  · intro hf; exact h.sOk hf
  · intro hf; obtain ⟨hl, x, hx, he⟩ := h.hPol hf; exact ⟨hlock hl, x, by rw [h3]; exact hx, by rw [hp]; exact he⟩
  · intro hf; obtain ⟨hl, he⟩ := h.pushed hf; exact ⟨hlock hl, by rw [hR]; exact he⟩

/-- If somebody else holds the lock, `q` can claim nothing but facts about its own variables. -/
theorem Γ2.vacuous {pid : Nat} (h : Γ2 b g q) (hl : g.lock = some pid) (hne : q.pid ≠ pid) : Γ2 b g' q := by
  have no : g.lock = some q.pid → False := by
    intro h1; rw [hl] at h1; injection h1 with h1; exact hne h1.symm
  constructor
  · intro hf; exact (no (h.holds hf)).elim
  · intro hf; exact (no (h.hEqR hf).1).elim
  · intro hf; exact (no (h.baseR hf).1).elim
  · intro hf; exact (no (h.pfP hf).1).elim
  · intro hf; exact (no (h.fcOk hf).1).elim
  · intro hf; exact (no (h.rZero hf).1).elim
  · intro hf; exact (no (h.fcGe hf).1).elim
  · intro hf; exact (no (h.prevEq hf).1).elim
  · intro hf; exact h.prevSome hf
  · intro hf; exact (no (h.lcOk hf).1).elim
  · intro hf; exact (no (h.lkZero hf).1).elim
  · intro hf; exact (no (h.lcGe hf).1).elim
  · intro hf; exact (no (h.cntGe hf).1).elim
  · intro hf; exact (no (h.cntGt hf).1).elim
  · intro hf; exact (no (h.polGt hf).1).elim
  · intro hf; exact (no (h.fresh hf).1).elim
  · intro hf; exact (no (h.histLe hf).1).elim
  · intro hf; exact h.wOk hf
  · intro hf; exact h.sOk hf
  · intro hf; exact (no (h.hPol hf).1).elim
  · intro hf; exact (no (h.pushed hf).1).elim

theorem Γ2.release {pid : Nat} (h : Γ2 b g q) (hne : q.pid ≠ pid) : Γ2 b (release g pid) q := by
  unfold NA.C19.release
  split
  · next hl => exact h.vacuous hl hne
  · exact h

theorem nonmut_writes {c : Cmd} (h : c.mutating = false) :
    c.wStore = false ∧ c.wRemote = false ∧ c.wHead = false ∧ c.wCurrent = false ∧ c.wHist = false := by
  cases c <;> simp [Cmd.mutating] at h <;> simp [Cmd.wStore, Cmd.wRemote, Cmd.wHead, Cmd.wCurrent, Cmd.wHist]

/-- Steps of another process. -/
theorem other2 {c : Cmd} (h : Γ2 b g q) (hne : q.pid ≠ p.pid) (hmut : c.mutating = true → g.lock = some p.pid) :
    Γ2 b (exec c g p).1 q := by
  cases hm : c.mutating
  · obtain ⟨w1, w2, w3, w4, w5⟩ := nonmut_writes hm
    refine h.congr ?_ (fr_store c g p w1) (fr_remote c g p w2) (fr_head c g p w3) (fr_current c g p w4) (fr_hist c g p w5)
    intro hl
    rcases exec_lock c g p with h1 | ⟨h0, _⟩
    · rw [h1]; exact hl
    · rw [h0] at hl; cases hl
  · exact h.vacuous (hmut hm) hne

/-- A user commit that does not touch POLICY. -/
theorem Γ2.commit {good email : Bool} (h : Γ2 b g q) (hvg : VG g) (hvp : VP g q) :
    Γ2 b (applyCommit g good none email) q := by
  have hp : ∀ i, i ≤ g.store.length → polOf (applyCommit g good none email) i = polOf g i := by
    intro i hi; simp [polOf, applyCommit, commitAt_append hi]
  have hr : polOf (applyCommit g good none email) (applyCommit g good none email).remote = polOf g g.remote := by
    simp [polOf, applyCommit, commitAt_new]
  have hR : Rg (applyCommit g good none email) = Rg g := by simp [Rg, hr]
  have hL : Lk (applyCommit g good none email) = Lk g := by simp [Lk, applyCommit]
  have hh : (applyCommit g good none email).nextHead = g.nextHead := by simp [G.nextHead, applyCommit]
  have hlock : (applyCommit g good none email).lock = g.lock := by simp [applyCommit]
  constructor
  · intro hf; rw [hlock]; exact h.holds hf
  · intro hf; obtain ⟨hl, x, hx, he⟩ := h.hEqR hf
    exact ⟨by rw [hlock]; exact hl, x, by rw [hh]; exact hx, by rw [hr, hp x (hvg.head x hx)]; exact he⟩
  · intro hf; obtain ⟨hl, he⟩ := h.baseR hf
    exact ⟨by rw [hlock]; exact hl, by rw [hr, hp _ hvp.base]; exact he⟩
  · intro hf; obtain ⟨hl, x, r, hx, hr', hle⟩ := h.pfP hf
    exact ⟨by rw [hlock]; exact hl, x, r, by rw [hh]; exact hx, by rw [hp x (hvg.head x hx)]; exact hr', by rw [hR]; exact hle⟩
  · intro hf; obtain ⟨hl, he⟩ := h.fcOk hf; exact ⟨by rw [hlock]; exact hl, by rw [hR]; exact he⟩
  · intro hf; obtain ⟨hl, he⟩ := h.rZero hf; exact ⟨by rw [hlock]; exact hl, by rw [hR]; exact he⟩
  · intro hf; obtain ⟨hl, he⟩ := h.fcGe hf; exact ⟨by rw [hlock]; exact hl, by rw [hR]; exact he⟩
  · intro hf; obtain ⟨hl, he⟩ := h.prevEq hf; exact ⟨by rw [hlock]; exact hl, by simpa [applyCommit] using he⟩
  · intro hf; exact h.prevSome hf
  · intro hf; obtain ⟨hl, he⟩ := h.lcOk hf; exact ⟨by rw [hlock]; exact hl, by rw [hL]; exact he⟩
  · intro hf; obtain ⟨hl, he⟩ := h.lkZero hf; exact ⟨by rw [hlock]; exact hl, by rw [hL]; exact he⟩
  · intro hf; obtain ⟨hl, he⟩ := h.lcGe hf; exact ⟨by rw [hlock]; exact hl, by rw [hL]; exact he⟩
  · intro hf; obtain ⟨hl, he⟩ := h.cntGe hf; exact ⟨by rw [hlock]; exact hl, by rw [hR, hL]; exact he⟩
  · intro hf; obtain ⟨hl, he⟩ := h.cntGt hf; exact ⟨by rw [hlock]; exact hl, by rw [hR, hL]; exact he⟩
  · intro hf; obtain ⟨hl, he⟩ := h.polGt hf; exact ⟨by rw [hlock]; exact hl, by rw [hR, hL]; exact he⟩
  · intro hf; obtain ⟨hl, he⟩ := h.fresh hf; exact ⟨by rw [hlock]; exact hl, by simpa [applyCommit] using he⟩
  · intro hf; obtain ⟨hl, he⟩ := h.histLe hf; exact ⟨by rw [hlock]; exact hl, by simpa [applyCommit] using he⟩
  · intro hf; exact h.wOk hf
  · intro hf; exact h.sOk hf
  · intro hf; obtain ⟨hl, x, hx, he⟩ := h.hPol hf
    exact ⟨by rw [hlock]; exact hl, x, by rw [hh]; exact hx, by rw [hp x (hvg.head x hx)]; exact he⟩
  · intro hf; obtain ⟨hl, he⟩ := h.pushed hf; exact ⟨by rw [hlock]; exact hl, by rw [hR]; exact he⟩

end NA.C19

namespace NA.C19
variable {a b : F2} {g g' : G} {p q : Proc}

/-! ### Ids stay in range -/

theorem snh_head_some {g : G} {k h : Nat} (hh : (g.setNextHead k).nextHead = some h) : h = k := by
  rw [snh_head] at hh
  split at hh
  · injection hh with hh; exact hh.symm
  · cases hh

/-- Where the HEAD of next/src can come from. -/
theorem head_exec (c : Cmd) (g : G) (p : Proc) (h : Nat) (hh : (exec c g p).1.nextHead = some h) :
    g.nextHead = some h ∨ h = g.remote ∨ (h = g.store.length + 1 ∧ g.store.length + 1 ≤ (exec c g p).1.store.length) ∨
      (h = p.hash ∧ p.hash ≠ 0) := by
  by_cases hc : c.wHead = false
  · left; rw [← fr_head c g p hc]; exact hh
  · revert hh
    cases c <;> simp [Cmd.wHead] at hc
    · -- rm -rf next
      simp [exec, G.nextHead]
    · -- mkdir next
      simp only [exec]
      split
      · simp [G.nextHead]
      · intro hh; exact Or.inl hh
    · -- rm -rf next/src
      simp only [exec]
      split
      · simp [G.nextHead]
      · intro hh; exact Or.inl hh
    · -- git clone
      simp only [exec]
      split
      · split
        · intro hh; simp [G.nextHead] at hh; exact Or.inr (Or.inl hh.symm)
        · intro hh; exact Or.inl (by simpa [G.nextHead] using hh)
      · intro hh; exact Or.inl (by simpa [G.nextHead] using hh)
    · -- git commit
      simp only [exec]
      split
      · split
        · intro hh; exact Or.inl (by simpa [G.nextHead] using hh)
        · intro hh
          exact Or.inr (Or.inr (Or.inl ⟨snh_head_some hh, by simp⟩))
      · intro hh; exact Or.inl (by simpa [G.nextHead] using hh)
    · -- git pull --no-rebase
      simp only [exec]
      split
      · split
        · intro hh; exact Or.inl hh
        · split
          · intro hh
            exact Or.inr (Or.inl (snh_head_some hh))
          · split
            · intro hh; exact Or.inl (by simpa [G.nextHead] using hh)
            · intro hh
              exact Or.inr (Or.inr (Or.inl ⟨snh_head_some hh, by simp⟩))
      · intro hh; exact Or.inl (by simpa [G.nextHead] using hh)
    · -- git reset --hard
      simp only [exec]
      split
      · intro hh; exact Or.inl hh
      · next hne =>
        intro hh
        exact Or.inr (Or.inr (Or.inr ⟨snh_head_some hh, hne⟩))
    · -- mv next pN
      simp only [exec]
      split
      · intro hh; exact Or.inl hh
      · split
        · simp [G.nextHead]
        · split
          · intro hh; exact Or.inl hh
          · simp [G.nextHead]
    · -- git revert
      simp only [exec]
      split
      · split
        · intro hh; exact Or.inl hh
        · intro hh
          exact Or.inr (Or.inr (Or.inl ⟨snh_head_some hh, by simp⟩))
      · intro hh; exact Or.inl hh
    · -- git pull
      simp only [exec]
      split
      · split
        · intro hh; exact Or.inl hh
        · split
          · intro hh
            exact Or.inr (Or.inl (snh_head_some hh))
          · intro hh; exact Or.inl hh
      · intro hh; exact Or.inl hh

theorem VG_exec {c : Cmd} (hvg : VG g) (hvp : VP g p) : VG (exec c g p).1 := by
  have hlen := len_exec c (g := g) (p := p)
  constructor
  · by_cases hc : c.wRemote = true
    · cases c <;> simp [Cmd.wRemote] at hc
      simp only [exec]
      cases hh : g.nextHead with
      | none => simp; exact hvg.remote
      | some h =>
        have := hvg.head h hh
        simp only []
        split
        · simpa using this
        · simpa using hvg.remote
    · have hc' : c.wRemote = false := by simpa using hc
      rw [fr_remote c g p hc']; exact Nat.le_trans hvg.remote hlen
  · intro h hh
    rcases head_exec c g p h hh with h1 | h1 | ⟨h1, h2⟩ | h1
    · exact Nat.le_trans (hvg.head h h1) hlen
    · rw [h1]; exact Nat.le_trans hvg.remote hlen
    · rw [h1]; exact h2
    · rw [h1.1]; exact Nat.le_trans hvp.hash hlen

/-- Where `origin/master` and `$HASH` of the moving process can come from. -/
theorem VP_exec_own {c : Cmd} {pc : Nat} {t : Bool} (hvg : VG g) (hvp : VP g p) :
    VP (exec c g p).1 (upd (exec c g p).2.1 pc t) := by
  have hlen := len_exec c (g := g) (p := p)
  constructor
  · show (exec c g p).2.1.base ≤ _
    by_cases hc : c.wBase = false
    · rw [fr_base c g p hc]; exact Nat.le_trans hvp.base hlen
    · have hr := hvg.remote
      have hb := hvp.base
      cases c <;> simp [Cmd.wBase] at hc <;> simp only [exec] <;> (repeat' split) <;> simp_all <;>
        first
        | omega
        | exact hvg.head _ (by assumption)
        | skip
  · show (exec c g p).2.1.hash ≤ _
    by_cases hc : c.wHash = false
    · rw [fr_hash c g p hc]; exact Nat.le_trans hvp.hash hlen
    · cases c <;> simp [Cmd.wHash] at hc
      simp only [exec]
      cases hh : g.nextHead with
      | none => simp
      | some h => simpa using hvg.head h hh

theorem VP_exec_other {c : Cmd} (hvp : VP g q) : VP (exec c g p).1 q :=
  ⟨Nat.le_trans hvp.base (len_exec c), Nat.le_trans hvp.hash (len_exec c)⟩

end NA.C19

namespace NA.C19
variable {a b : F2} {g g' : G} {p q : Proc}

/-! ### The numbering invariant proper -/

theorem le_max_of_le_left {a b c : Nat} (h : a ≤ b) : a ≤ max b c := Nat.le_trans h (Nat.le_max_left b c)

theorem N_exec {c : Cmd} (hN : N g) (hΓ : Γ2 a g p) (hreq : req2 c a = true) (hvg : VG g)
    (hq : quiet (exec c g p).1) : N (exec c g p).1 := by
  by_cases c1 : c = .gitPush
  · subst c1
    obtain ⟨h, hh, f4, f3, f1, _, _⟩ := push_form hq.1
    have hR : Rg g ≤ Rg (exec Cmd.gitPush g p).1 := by
      simp only [req2, Bool.or_eq_true, Bool.and_eq_true] at hreq
      have : Rg (exec Cmd.gitPush g p).1 = (polOf g h).getD 0 := by
        have hpol : ∀ i, polOf (exec Cmd.gitPush g p).1 i = polOf g i := fun i => by simp [polOf, f3]
        simp [Rg, hpol, f1]
      rw [this]
      rcases hreq with hr | ⟨hr1, hr2⟩
      · obtain ⟨_, h', hh', he⟩ := hΓ.hEqR hr
        rw [hh] at hh'; injection hh' with hh'; subst hh'
        simp [Rg, he]
      · obtain ⟨_, h', hh', he⟩ := hΓ.hPol hr1
        rw [hh] at hh'; injection hh' with hh'; subst hh'
        have := (hΓ.polGt hr2).2.1
        simp [he]; omega
    have hL : Lk (exec Cmd.gitPush g p).1 = Lk g := Lk_exec _ rfl
    have hH : (exec Cmd.gitPush g p).1.hist = g.hist := fr_hist _ g p rfl
    constructor
    · intro x hx
      rw [hH] at hx
      have := hN.bound x hx
      rw [hL]
      rcases Nat.le_total (Rg g) (Lk g) with hle | hle
      · rw [Nat.max_eq_right hle] at this; exact Nat.le_trans this (Nat.le_max_right _ _)
      · rw [Nat.max_eq_left hle] at this; exact le_max_of_le_left (Nat.le_trans this hR)
    · rw [hH]; exact hN.incr
  by_cases c2 : c = .rmCurrent
  · subst c2
    simp only [req2, Bool.and_eq_true] at hreq
    obtain ⟨_, hp⟩ := hΓ.pushed hreq.1
    obtain ⟨_, hf⟩ := hΓ.histLe hreq.2
    have hR : Rg (exec Cmd.rmCurrent g p).1 = Rg g := Rg_exec _ rfl hvg.remote
    have hH : (exec Cmd.rmCurrent g p).1.hist = g.hist := fr_hist _ g p rfl
    constructor
    · intro x hx
      rw [hH] at hx
      have := hf x hx
      rw [hR]
      exact le_max_of_le_left (by omega)
    · rw [hH]; exact hN.incr
  by_cases c3 : c = .lnCurrent
  · subst c3
    have hR : Rg (exec Cmd.lnCurrent g p).1 = Rg g := Rg_exec _ rfl hvg.remote
    have hH : (exec Cmd.lnCurrent g p).1.hist = g.hist := fr_hist _ g p rfl
    cases hc : g.current with
    | some k =>
      have e : (exec Cmd.lnCurrent g p).1 = g := by simp [exec, hc]
      rw [e]; exact hN
    | none =>
      have e2 : Lk (exec Cmd.lnCurrent g p).1 = p.policy := by simp [exec, hc, Lk]
      have e0 : Lk g = 0 := by simp [Lk, hc]
      constructor
      · intro x hx
        rw [hH] at hx
        have := hN.bound x hx
        rw [hR, e2]
        rw [e0] at this
        have h0 : max (Rg g) 0 = Rg g := Nat.max_eq_left (Nat.zero_le _)
        rw [h0] at this
        exact le_max_of_le_left this
      · rw [hH]; exact hN.incr
  by_cases c4 : c = .mvNextTo
  · subst c4
    simp only [req2, Bool.and_eq_true] at hreq
    obtain ⟨_, hp⟩ := hΓ.pushed hreq.1
    obtain ⟨_, hf⟩ := hΓ.fresh hreq.2
    have hR : Rg (exec Cmd.mvNextTo g p).1 = Rg g := Rg_exec _ rfl hvg.remote
    have hL : Lk (exec Cmd.mvNextTo g p).1 = Lk g := Lk_exec _ rfl
    have hH : (exec Cmd.mvNextTo g p).1.hist = g.hist ∨ (exec Cmd.mvNextTo g p).1.hist = p.policy :: g.hist := by
      simp only [exec]
      (repeat' split) <;> simp
    rcases hH with hH | hH
    · exact ⟨by rw [hH, hR, hL]; exact hN.bound, by rw [hH]; exact hN.incr⟩
    · constructor
      · intro x hx
        rw [hH] at hx
        rw [hR, hL]
        rcases List.mem_cons.mp hx with hx | hx
        · rw [hx]; exact le_max_of_le_left hp
        · exact hN.bound x hx
      · rw [hH]
        exact List.pairwise_cons.mpr ⟨fun x hx => hf x hx, hN.incr⟩
  · have w1 : c.wRemote = false := by cases c <;> simp_all [Cmd.wRemote]
    have w2 : c.wCurrent = false := by cases c <;> simp_all [Cmd.wCurrent]
    have w3 : c.wHist = false := by cases c <;> simp_all [Cmd.wHist]
    have hR := Rg_exec c (g := g) (p := p) w1 hvg.remote
    have hL := Lk_exec c (g := g) (p := p) w2
    have hH := fr_hist c g p w3
    exact ⟨by rw [hH, hR, hL]; exact hN.bound, by rw [hH]; exact hN.incr⟩

theorem N_commit {good email : Bool} (hN : N g) (hvg : VG g) : N (applyCommit g good none email) := by
  have hR : Rg (applyCommit g good none email) = Rg g := by simp [Rg, polOf, applyCommit, commitAt_new]
  have hL : Lk (applyCommit g good none email) = Lk g := by simp [Lk, applyCommit]
  have hH : (applyCommit g good none email).hist = g.hist := by simp [applyCommit]
  exact ⟨by rw [hH, hR, hL]; exact hN.bound, by rw [hH]; exact hN.incr⟩

theorem N_release {pid : Nat} (hN : N g) : N (release g pid) := by
  unfold release; split
  · exact ⟨hN.bound, hN.incr⟩
  · exact hN

/-! ### Invariant over all schedules -/

/-- Every policy directory got its number through a recorded `mv next pN`. -/
def DirsInHist (g : G) : Prop := ∀ n d, lookupDir g.dirs n = some d → n ∈ g.hist

theorem lookupDir_setNested_some {ds : List (Nat × Dir)} {m n : Nat} {d : Dir}
    (h : lookupDir (setNested ds m) n = some d) : ∃ d0, lookupDir ds n = some d0 :=
  lookupDir_setNested.mp ⟨d, h⟩

theorem dh_exec {c : Cmd} {g : G} {p : Proc} (h : DirsInHist g) : DirsInHist (exec c g p).1 := by
  by_cases hc : c = .mvNextTo
  · subst hc
    intro n d
    simp only [exec]
    cases hn : g.next with
    | none => simpa using h n d
    | some d0 =>
      cases he : lookupDir g.dirs p.policy with
      | none =>
        simp only [lookupDir]
        by_cases hpn : p.policy = n
        · simp [hpn]
        · simp [hpn]; intro hd; exact Or.inr (h n d hd)
      | some e =>
        by_cases hne : e.nested = true
        · simp [hne]; intro hd; exact Or.inr (h n d hd)
        · simp [hne]
          intro hd
          obtain ⟨d1, h1⟩ := lookupDir_setNested_some hd
          exact Or.inr (h n d1 h1)
  · intro n d hd
    rw [exec_dirs g p hc] at hd
    have hw : c.wHist = false := by cases c <;> simp_all [Cmd.wHist]
    rw [fr_hist c g p hw]; exact h n d hd

structure Inv2 (ann : Ann numbering) (s : State) : Prop where
  dh    : DirsInHist s.g
  vg    : VG s.g
  vp    : ∀ p ∈ s.procs, VP s.g p
  n     : quiet s.g → N s.g
  procs : quiet s.g → ∀ p ∈ s.procs, p.alive = true → ∃ b, numbering.at ann p.pc = some b ∧ Γ2 b s.g p

theorem Γ2_entry (g : G) (p : Proc) : Γ2 numbering.entry g p := by
  constructor <;> intro h <;> simp [numbering] at h

theorem quiet_release {pid : Nat} : quiet (release g pid) ↔ quiet g := by
  unfold release quiet; split <;> simp

theorem VG_release {pid : Nat} (h : VG g) : VG (release g pid) := by
  unfold release; split
  · exact ⟨h.remote, fun x hx => h.head x (by simpa [G.nextHead] using hx)⟩
  · exact h

theorem dh_release {pid : Nat} (h : DirsInHist g) : DirsInHist (release g pid) := by
  unfold release; split
  · exact h
  · exact h

theorem VP_release {pid : Nat} (h : VP g q) : VP (release g pid) q := by
  unfold release; split
  · exact ⟨h.base, h.hash⟩
  · exact h

end NA.C19

namespace NA.C19

theorem inv2_init {prog : Prog} {ann : Ann numbering} (se : Bool) : Inv2 ann (init se) := by
  refine ⟨fun n d h => by simp [init, lookupDir] at h, ⟨by simp [init], fun h hh => by simp [init, G.nextHead] at hh⟩, fun p hp => by simp [init] at hp,
    fun _ => ⟨fun h hh => by simp [init] at hh, by simp [init]⟩, fun _ p hp => by simp [init] at hp⟩

theorem quiet_commit {g : G} {good email : Bool} {pol : Option Nat} (h : quiet (applyCommit g good pol email)) :
    quiet g ∧ pol = none := by
  simp [quiet, applyCommit] at h
  obtain ⟨h1, h2, h3⟩ := h
  exact ⟨⟨h1, h2⟩, by cases pol <;> simp_all⟩

theorem inv2_stepCore {prog : Prog} {ann1 : Ann safety} {ann : Ann numbering}
    (hc1 : check safety prog ann1 = true) (hc : check numbering prog ann = true) {s : State}
    (hinv1 : Inv1 ann1 s) (hinv : Inv2 ann s) (e : Event) : Inv2 ann (stepCore prog s e) := by
  obtain ⟨hdh, hvg, hvp, hn, hprocs⟩ := hinv
  cases e with
  | commit good pol email =>
    simp only [stepCore]
    have hlen : s.g.store.length ≤ (applyCommit s.g good pol email).store.length := by simp [applyCommit]
    refine ⟨fun n d h => by simpa [applyCommit] using hdh n d (by simpa [applyCommit] using h), ⟨by simp [applyCommit], fun h hh => ?_⟩, fun p hp => ⟨Nat.le_trans (hvp p hp).base hlen, Nat.le_trans (hvp p hp).hash hlen⟩, ?_, ?_⟩
    · have : s.g.nextHead = some h := by simpa [G.nextHead, applyCommit] using hh
      exact Nat.le_trans (hvg.head h this) hlen
    · intro hq
      have hq' : quiet (applyCommit s.g good pol email) := hq
      obtain ⟨hq0, hpol⟩ := quiet_commit hq'
      subst hpol
      have := N_commit (good := good) (email := email) (hn hq0) hvg
      exact ⟨this.bound, this.incr⟩
    · intro hq p hp hal
      have hq' : quiet (applyCommit s.g good pol email) := hq
      obtain ⟨hq0, hpol⟩ := quiet_commit hq'
      subst hpol
      obtain ⟨b, hb, hΓ⟩ := hprocs hq0 p hp hal
      exact ⟨b, hb, (hΓ.commit (good := good) (email := email) hvg (hvp p hp)).congr (fun h => h) rfl rfl rfl rfl rfl⟩
  | spawn =>
    simp only [stepCore]
    refine ⟨hdh, hvg, ?_, hn, ?_⟩
    · intro p hp
      simp only [List.mem_append, List.mem_singleton] at hp
      rcases hp with hp | hp
      · exact hvp p hp
      · subst hp; exact ⟨Nat.zero_le _, Nat.zero_le _⟩
    · intro hq p hp hal
      simp only [List.mem_append, List.mem_singleton] at hp
      rcases hp with hp | hp
      · exact hprocs hq p hp hal
      · subst hp
        obtain ⟨a, h1, h2⟩ := check_entry hc
        exact ⟨a, h1, (Γ2_entry s.g _).mono h2⟩
  | kill pid =>
    simp only [stepCore]
    cases hf : findProc s.procs pid with
    | none => exact ⟨hdh, hvg, hvp, hn, hprocs⟩
    | some p =>
      obtain ⟨hpm, hpp⟩ := findProc_some hf
      by_cases hal : p.alive = true
      · simp only [hal, if_true]
        refine ⟨dh_release hdh, VG_release hvg, ?_, fun hq => N_release (hn (quiet_release.mp hq)), ?_⟩
        · intro q hq
          rcases mem_replaceProc hq with ⟨rfl, _⟩ | ⟨hq1, _⟩
          · exact VP_release ⟨(hvp p hpm).base, (hvp p hpm).hash⟩
          · exact VP_release (hvp q hq1)
        · intro hqu q hq hqa
          rcases mem_replaceProc hq with ⟨rfl, _⟩ | ⟨hq1, hq2⟩
          · simp at hqa
          · obtain ⟨b, h1, h2⟩ := hprocs (quiet_release.mp hqu) q hq1 hqa
            exact ⟨b, h1, h2.release (by simpa [hpp] using hq2)⟩
      · simp [hal]; exact ⟨hdh, hvg, hvp, hn, hprocs⟩
  | step pid =>
    simp only [stepCore]
    cases hf : findProc s.procs pid with
    | none => exact ⟨hdh, hvg, hvp, hn, hprocs⟩
    | some p =>
      obtain ⟨hpm, hpp⟩ := findProc_some hf
      by_cases hal : p.alive = true
      · simp only [hal, if_true]
        -- the safety layer tells us where the program counter is and that writers hold the lock
        obtain ⟨a1, ha1, hΓ1⟩ := hinv1.procs p hpm hal
        have hlt : p.pc < prog.length := by rw [← check_len hc1]; exact at_some_lt ha1
        have hi : instrAt prog p.pc = some prog[p.pc] := by simp [instrAt, hlt]
        generalize prog[p.pc] = i at hi
        obtain ⟨hreq1, _⟩ := check_step hc1 (by simpa [instrAt] using hi) ha1
        have hmut : i.cmd.mutating = true → s.g.lock = some p.pid := by
          intro hm
          have hr : req1 i.cmd a1 = true := hreq1
          simp [req1, hm] at hr
          exact hΓ1.holds hr.1
        by_cases hex : ∃ n, i.cmd = .exit n
        · obtain ⟨n, hnn⟩ := hex
          rw [stepProc_exit hi hnn]
          refine ⟨dh_release hdh, VG_release hvg, ?_, fun hq => N_release (hn (quiet_release.mp hq)), ?_⟩
          · intro q hq
            rcases mem_replaceProc hq with ⟨rfl, _⟩ | ⟨hq1, _⟩
            · exact VP_release ⟨(hvp p hpm).base, (hvp p hpm).hash⟩
            · exact VP_release (hvp q hq1)
          · intro hqu q hq hqa
            rcases mem_replaceProc hq with ⟨rfl, _⟩ | ⟨hq1, hq2⟩
            · simp at hqa
            · obtain ⟨b, h1, h2⟩ := hprocs (quiet_release.mp hqu) q hq1 hqa
              exact ⟨b, h1, h2.release (by simpa using hq2)⟩
        · have hne : ∀ n, i.cmd ≠ .exit n := fun n h => hex ⟨n, h⟩
          rw [stepProc_nonexit hi hne]
          refine ⟨dh_exec hdh, VG_exec hvg (hvp p hpm), ?_, ?_, ?_⟩
          · intro q hq
            rcases mem_replaceProc hq with ⟨rfl, _⟩ | ⟨hq1, _⟩
            · exact VP_exec_own hvg (hvp p hpm)
            · exact VP_exec_other (hvp q hq1)
          · intro hqu
            have hq0 := quiet_exec hqu
            obtain ⟨a, ha, hΓ⟩ := hprocs hq0 p hpm hal
            obtain ⟨hreq, _⟩ := check_step hc (by simpa [instrAt] using hi) ha
            exact N_exec (hn hq0) hΓ hreq hvg hqu
          · intro hqu q hq hqa
            have hq0 := quiet_exec hqu
            rcases mem_replaceProc hq with ⟨rfl, _⟩ | ⟨hq1, hq2⟩
            · obtain ⟨a, ha, hΓ⟩ := hprocs hq0 p hpm hal
              obtain ⟨hreq, _, _, hedge1, hedge2⟩ := check_step hc (by simpa [instrAt] using hi) ha
              cases htf : tf2 i.cmd a (exec i.cmd s.g p).2.2 with
              | none =>
                -- `tf2` never answers "impossible"
                exfalso
                revert htf
                cases i.cmd <;> simp [tf2] <;> (try split) <;> simp <;> (try split) <;> simp
              | some x =>
                have hΓ' : Γ2 x (exec i.cmd s.g p).1 (after i s.g p) :=
                  own2 hΓ (hn hq0) hvg (hvp p hpm) hqu htf
                cases hok : (exec i.cmd s.g p).2.2
                · obtain ⟨b, hb1, hb2⟩ := hedge2 x (by rw [hok] at htf; exact htf)
                  refine ⟨b, ?_, hΓ'.mono hb2⟩
                  simp [after, hok]; exact hb1
                · obtain ⟨b, hb1, hb2⟩ := hedge1 x (by rw [hok] at htf; exact htf)
                  refine ⟨b, ?_, hΓ'.mono hb2⟩
                  simp [after, hok]; exact hb1
            · obtain ⟨b, h1, h2⟩ := hprocs hq0 q hq1 hqa
              rw [after_pid] at hq2
              exact ⟨b, h1, other2 h2 hq2 hmut⟩
      · simp [hal]; exact ⟨hdh, hvg, hvp, hn, hprocs⟩
  | killDuring pid => exact ⟨hdh, hvg, hvp, hn, hprocs⟩

theorem Inv2.dying {ann : Ann numbering} {s : State} {d : List Nat} (h : Inv2 ann s) : Inv2 ann { s with dying := d } :=
  ⟨h.dh, h.vg, h.vp, h.n, h.procs⟩

/-- Both layers together, for all events. -/
theorem inv12_step {prog : Prog} {ann1 : Ann safety} {ann : Ann numbering} (hinh : inhOK prog = true)
    (hc1 : check safety prog ann1 = true) (hc : check numbering prog ann = true) {s : State}
    (h : Inv1 ann1 s ∧ Inv2 ann s) (e : Event) : Inv1 ann1 (step prog s e) ∧ Inv2 ann (step prog s e) :=
  step_lift hinh (P := fun s => Inv1 ann1 s ∧ Inv2 ann s)
    (fun _ e h => ⟨inv1_stepCore hc1 h.1 e, inv2_stepCore hc1 hc h.1 h.2 e⟩)
    (fun _ _ h => ⟨h.1.dying, h.2.dying⟩) s e h

theorem inv2_step {prog : Prog} {ann1 : Ann safety} {ann : Ann numbering} (hinh : inhOK prog = true)
    (hc1 : check safety prog ann1 = true) (hc : check numbering prog ann = true) {s : State}
    (hinv1 : Inv1 ann1 s) (hinv : Inv2 ann s) (e : Event) : Inv2 ann (step prog s e) :=
  (inv12_step hinh hc1 hc ⟨hinv1, hinv⟩ e).2

theorem inv2_run {prog : Prog} {ann1 : Ann safety} {ann : Ann numbering} (hinh : inhOK prog = true)
    (hc1 : check safety prog ann1 = true) (hc : check numbering prog ann = true) (se : Bool) (es : List Event) :
    Inv1 ann1 (run prog se es) ∧ Inv2 ann (run prog se es) := by
  unfold run
  have h0 : Inv1 ann1 (init se) ∧ Inv2 ann (init se) := ⟨inv1_init hc1 se, inv2_init (prog := prog) se⟩
  generalize init se = s0 at h0
  induction es generalizing s0 with
  | nil => exact h0
  | cons e es ih => exact ih _ (inv12_step hinh hc1 hc h0 e)

theorem tf2_total (c : Cmd) (a : F2) (ok : Bool) : ∃ x, tf2 c a ok = some x := by
  cases c <;> simp [tf2] <;> (try split) <;> simp <;> (try split) <;> simp

end NA.C19
