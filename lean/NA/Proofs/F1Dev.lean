import NA.Spec.AsaDev
import NA.Proofs.F1Equalize
/-!
# F1: the strict device — basic lemmas (association lists, single commands, scripts)
-/
namespace NA.AsaDev
open NA.F1

/-! ## Association lists -/

def mapSet {κ β : Type} [BEq κ] [LawfulBEq κ] (m : List (κ × β)) (k : κ) (v : β) : List (κ × β) :=
  m.map fun p => if p.1 == k then (k, v) else p

theorem setAssoc_eq {κ β : Type} [BEq κ] [LawfulBEq κ] (m : List (κ × β)) (k : κ) (v : β) :
    setAssoc m k v = if m.any (·.1 == k) then mapSet m k v else m ++ [(k, v)] := rfl

theorem lookup_mapSet_ne {κ β : Type} [BEq κ] [LawfulBEq κ] (k k' : κ) (v : β) (hne : k' ≠ k) : ∀ (m : List (κ × β)),
    (mapSet m k v).lookup k' = m.lookup k' := by
  intro m
  induction m with
  | nil => rfl
  | cons p ps ih =>
    obtain ⟨k2, v2⟩ := p
    unfold mapSet at ih ⊢
    by_cases e : k2 = k
    · subst e
      have hb : (k' == k2) = false := by simpa using hne
      simp only [List.map_cons, beq_self_eq_true, if_true, List.lookup, hb]
      exact ih
    · have hb : (k2 == k) = false := by simpa using e
      simp only [List.map_cons, hb, Bool.false_eq_true, if_false, List.lookup]
      cases (k' == k2)
      · exact ih
      · rfl

theorem lookup_mapSet_self {κ β : Type} [BEq κ] [LawfulBEq κ] (k : κ) (v : β) : ∀ (m : List (κ × β)), m.any (·.1 == k) = true →
    (mapSet m k v).lookup k = some v := by
  intro m
  induction m with
  | nil => intro h; simp at h
  | cons p ps ih =>
    intro h
    obtain ⟨k2, v2⟩ := p
    unfold mapSet at ih ⊢
    by_cases e : k2 = k
    · subst e
      simp only [List.map_cons, beq_self_eq_true, if_true, List.lookup]
    · have hb : (k2 == k) = false := by simpa using e
      have hb' : (k == k2) = false := by rw [beq_eq_false_iff_ne]; exact fun h => e h.symm
      simp only [List.any_cons, hb, Bool.false_or] at h
      simp only [List.map_cons, hb, Bool.false_eq_true, if_false, List.lookup, hb']
      exact ih h

theorem anyKey_mapSet {κ β : Type} [BEq κ] [LawfulBEq κ] (k k' : κ) (v : β) : ∀ (m : List (κ × β)),
    (mapSet m k v).any (·.1 == k') = m.any (·.1 == k') := by
  intro m
  induction m with
  | nil => rfl
  | cons p ps ih =>
    obtain ⟨k2, v2⟩ := p
    unfold mapSet at ih ⊢
    by_cases e : k2 = k
    · subst e
      simp only [List.map_cons, beq_self_eq_true, if_true, List.any_cons, ih]
    · have hb : (k2 == k) = false := by simpa using e
      simp only [List.map_cons, hb, Bool.false_eq_true, if_false, List.any_cons, ih]

theorem lookup_append_single {κ β : Type} [BEq κ] [LawfulBEq κ] (k k' : κ) (v : β) : ∀ (m : List (κ × β)),
    (m ++ [(k, v)]).lookup k' = (m.lookup k').or (if k' == k then some v else none) := by
  intro m
  induction m with
  | nil => simp only [List.nil_append, List.lookup]; cases (k' == k) <;> rfl
  | cons p ps ih =>
    obtain ⟨k2, v2⟩ := p
    simp only [List.cons_append, List.lookup]
    cases (k' == k2)
    · exact ih
    · rfl

theorem lookup_none_of_not_any {κ β : Type} [BEq κ] [LawfulBEq κ] (k : κ) : ∀ (m : List (κ × β)), m.any (·.1 == k) = false →
    m.lookup k = none := by
  intro m
  induction m with
  | nil => intro _; rfl
  | cons p ps ih =>
    intro h
    obtain ⟨k2, v2⟩ := p
    simp only [List.any_cons, Bool.or_eq_false_iff] at h
    have hb' : (k == k2) = false := by
      have : k2 ≠ k := by simpa using h.1
      rw [beq_eq_false_iff_ne]; exact fun h => this h.symm
    simp only [List.lookup, hb']
    exact ih h.2

theorem lookup_setAssoc_self {κ β : Type} [BEq κ] [LawfulBEq κ] (m : List (κ × β)) (k : κ) (v : β) :
    (setAssoc m k v).lookup k = some v := by
  rw [setAssoc_eq]
  split
  · rename_i h; exact lookup_mapSet_self k v m h
  · rename_i h
    have h' : m.any (·.1 == k) = false := by
      cases hh : m.any (·.1 == k)
      · rfl
      · exact absurd hh h
    rw [lookup_append_single, lookup_none_of_not_any k m h']
    simp

theorem lookup_setAssoc_ne {κ β : Type} [BEq κ] [LawfulBEq κ] (m : List (κ × β)) (k k' : κ) (v : β) (hne : k' ≠ k) :
    (setAssoc m k v).lookup k' = m.lookup k' := by
  rw [setAssoc_eq]
  split
  · exact lookup_mapSet_ne k k' v hne m
  · have hb : (k' == k) = false := by simpa using hne
    rw [lookup_append_single, hb]
    simp

theorem anyKey_setAssoc {κ β : Type} [BEq κ] [LawfulBEq κ] (m : List (κ × β)) (k k' : κ) (v : β) :
    (setAssoc m k v).any (·.1 == k') = (k == k' || m.any (·.1 == k')) := by
  rw [setAssoc_eq]
  split
  · rename_i h
    rw [anyKey_mapSet]
    by_cases e : k = k'
    · subst e; simp [h]
    · have hb : (k == k') = false := by simpa using e
      simp [hb]
  · simp [List.any_append, Bool.or_comm]

theorem lookup_delAssoc_ne {κ β : Type} [BEq κ] [LawfulBEq κ] (k k' : κ) (hne : k' ≠ k) : ∀ (m : List (κ × β)),
    (delAssoc m k).lookup k' = m.lookup k' := by
  intro m
  unfold delAssoc
  induction m with
  | nil => rfl
  | cons p ps ih =>
    obtain ⟨k2, v2⟩ := p
    by_cases e : k2 = k
    · subst e
      have hb : (k' == k2) = false := by simpa using hne
      simp only [List.filter, beq_self_eq_true, Bool.not_true, List.lookup, hb]
      exact ih
    · have hb : (k2 == k) = false := by simpa using e
      simp only [List.filter, hb, Bool.not_false, List.lookup]
      cases (k' == k2)
      · exact ih
      · rfl

theorem keys_mapSet {κ β : Type} [BEq κ] [LawfulBEq κ] (k : κ) (v : β) : ∀ (m : List (κ × β)), (mapSet m k v).map (·.1) = m.map (·.1) := by
  intro m
  induction m with
  | nil => rfl
  | cons p ps ih =>
    obtain ⟨k2, v2⟩ := p
    unfold mapSet at ih ⊢
    by_cases e : k2 = k
    · subst e; simp only [List.map_cons, beq_self_eq_true, if_true, ih]
    · have hb : (k2 == k) = false := by simpa using e
      simp only [List.map_cons, hb, Bool.false_eq_true, if_false, ih]

theorem keys_setAssoc_existing {κ β : Type} [BEq κ] [LawfulBEq κ] (m : List (κ × β)) (k : κ) (v : β) (h : m.any (·.1 == k) = true) :
    (setAssoc m k v).map (·.1) = m.map (·.1) := by
  rw [setAssoc_eq, if_pos h]; exact keys_mapSet k v m

/-! ## Scripts -/

def step (d : Dev) (c : Chg) : Option Dev := match exec1 d c with | .ok d' => some d' | .error _ => none

theorem exec_eq (d : Dev) (cs : List Chg) : exec d cs = cs.foldlM step d := rfl

theorem exec_nil (d : Dev) : exec d [] = some d := rfl

theorem exec_cons (d : Dev) (c : Chg) (cs : List Chg) : exec d (c :: cs) = (step d c).bind fun d' => exec d' cs := by
  simp [exec_eq, List.foldlM_cons, Option.bind_eq_bind]

theorem exec_append (d : Dev) (xs ys : List Chg) : exec d (xs ++ ys) = (exec d xs).bind fun d' => exec d' ys := by
  simp [exec_eq, List.foldlM_append, Option.bind_eq_bind]

theorem exec_append_some {d d1 d2 : Dev} {xs ys : List Chg} (h1 : exec d xs = some d1) (h2 : exec d1 ys = some d2) :
    exec d (xs ++ ys) = some d2 := by rw [exec_append, h1]; exact h2

theorem exec_single {d d' : Dev} {c : Chg} (h : exec1 d c = .ok d') : exec d [c] = some d' := by
  simp [exec_cons, step, h, exec_nil]

/-! ## Groups -/

theorem membersOf_setGroup_self (d : Dev) (g : Name) (ms : List String) (md : Option Name) :
    membersOf { d with groups := setAssoc d.groups g ms, mode := md } g = ms := by
  simp [membersOf, lookup_setAssoc_self]

theorem membersOf_setGroup_ne (d : Dev) (g g' : Name) (ms : List String) (md : Option Name) (h : g' ≠ g) :
    membersOf { d with groups := setAssoc d.groups g ms, mode := md } g' = membersOf d g' := by
  simp [membersOf, lookup_setAssoc_ne _ _ _ _ h]

theorem hasGroup_setGroup (d : Dev) (g g' : Name) (ms : List String) (md : Option Name) :
    hasGroup { d with groups := setAssoc d.groups g ms, mode := md } g' = (g == g' || hasGroup d g') := by
  simp [hasGroup, anyKey_setAssoc]

end NA.AsaDev
