import NA.Proofs.VpnGraphTargets
/-!
Frame (C07), whole run: the targets of the clean-up are the pending deletions; an object outside the
reference-closed set `R`, not a new name and not a pending deletion keeps its definition on every strict
device that accepts the script.  Untagged objects outside `R` are never pending deletions.
-/
namespace NA.Vpn.G

theorem mem_insertD (x p : DelObj) : ∀ (l : List DelObj), p ∈ insertD x l ↔ p = x ∨ p ∈ l
  | [] => by simp [insertD]
  | y :: ys => by
    unfold insertD
    split
    · simp
    · simp only [List.mem_cons, mem_insertD x p ys]
      constructor
      · rintro (h | h | h)
        · exact Or.inr (Or.inl h)
        · exact Or.inl h
        · exact Or.inr (Or.inr h)
      · rintro (h | h | h)
        · exact Or.inr (Or.inl h)
        · exact Or.inl h
        · exact Or.inr (Or.inr h)

theorem mem_foldr_insertD (p : DelObj) : ∀ (l : List DelObj), p ∈ l.foldr insertD [] ↔ p ∈ l
  | [] => by simp
  | x :: xs => by
    simp only [List.foldr_cons, mem_insertD, mem_foldr_insertD p xs, List.mem_cons]

theorem mem_delRounds : ∀ (f : Nat) (objs : List DelObj) (c : Chg), c ∈ delRounds f objs → ∃ p ∈ objs, c ∈ p.lines
  | 0, _, _, h => by simp [delRounds] at h
  | _ + 1, [], _, h => by simp [delRounds] at h
  | f + 1, o :: os, c, h => by
    unfold delRounds at h
    rcases List.mem_append.1 h with h | h
    · obtain ⟨p, hp, hc⟩ := List.mem_flatMap.1 h
      exact ⟨p, (List.mem_filter.1 hp).1, hc⟩
    · obtain ⟨p, hp, hc⟩ := mem_delRounds f _ c h
      exact ⟨p, (List.mem_filter.1 hp).1, hc⟩

/-- a target is the target of some command of the list, in some mode -/
theorem mem_targets : ∀ (l : List Chg) (m : Mode) (r : Ref), r ∈ targets m l → ∃ c ∈ l, ∃ m', targetOf m' c = some r
  | [], _, _, h => by cases h
  | c :: cs, m, r, h => by
    simp only [targets, List.mem_append] at h
    rcases h with h | h
    · refine ⟨c, List.mem_cons_self, m, ?_⟩
      cases ht : targetOf m c with
      | none => rw [ht] at h; cases h
      | some t => rw [ht] at h; simp at h; rw [h]
    · obtain ⟨c', hc', m', hm'⟩ := mem_targets cs _ r h
      exact ⟨c', List.mem_cons_of_mem _ hc', m', hm'⟩

theorem delLines_target (o : Obj) (c : Chg) (m : Mode) (r : Ref) (hc : c ∈ delLines o) (ht : targetOf m c = some r) : r = o.id := by
  unfold delLines at hc
  cases hk : o.kind <;> simp only [hk, List.mem_singleton] at hc <;> subst hc <;> simp only [targetOf, Option.some.injEq] at ht <;>
    rw [← ht] <;> unfold Obj.id <;> rw [hk]

/-- the objects `deleteUnused` removes: not needed, marked `toDelete` or tagged, not protected -/
theorem mem_pendingDel (st : St) (p : DelObj) (h : p ∈ pendingDel st) :
    ∃ o ∈ st.a, p.id = o.id ∧ p.lines = delLines o ∧ p.refs = o.refs ∧ eligible st o = true ∧ (stillSet st).contains o.id = false := by
  unfold pendingDel at h
  rw [mem_foldr_insertD] at h
  obtain ⟨o, ho, hp⟩ := List.mem_map.1 h
  have ho' := List.mem_filter.1 ho
  have h2 : eligible st o = true ∧ (stillSet st).contains o.id = false := by simpa using ho'.2
  exact ⟨o, ho'.1, by rw [← hp], by rw [← hp], by rw [← hp], h2.1, h2.2⟩

/-- the targets of what `deleteUnused` appends are pending deletions -/
theorem tail_targets (st : St) (m : Mode) (r : Ref)
    (h : r ∈ targets m ((if !(pendingDel st).isEmpty && st.mode.isSome then [Chg.exit] else []) ++
      delRounds ((pendingDel st).length + 1) (pendingDel st))) : ∃ p ∈ pendingDel st, p.id = r := by
  obtain ⟨c, hc, m', hm'⟩ := mem_targets _ _ r h
  rcases List.mem_append.1 hc with h1 | h1
  · split at h1
    · simp at h1; subst h1; cases hm'
    · cases h1
  · obtain ⟨p, hp, hcp⟩ := mem_delRounds _ _ c h1
    obtain ⟨o, _, hid, hl, _⟩ := mem_pendingDel st p hp
    rw [hl] at hcp
    exact ⟨p, hp, by rw [hid]; exact (delLines_target o c m' r hcp hm').symm⟩

theorem deleteUnused_out (st : St) :
    (deleteUnused st).out = st.out ++ ((if !(pendingDel st).isEmpty && st.mode.isSome then [Chg.exit] else []) ++
      delRounds ((pendingDel st).length + 1) (pendingDel st)) := by
  unfold deleteUnused
  dsimp only
  split
  · simp [St.emit, List.append_assoc]
  · simp

variable {R : Ref → Prop}

/-- **Objects outside Netspoc's scope are left untouched** (C07, fragment G).  `R`: a set of device references that
contains the device's anchors and is closed under references (e.g. everything reachable from the anchors).  An object
`r` outside `R` whose name is not one the run creates objects under, and which is not among the pending deletions
of the clean-up, has the same definition after ANY accepted execution of the script as before. -/
theorem unmanaged_untouched (a b : List Obj) (hc : Closed R a) (hanch : ∀ o ∈ a, o.anchor = true → R o.id)
    (hkk : ∀ x ∈ a, ∀ y ∈ b, ∀ sx ∈ x.secs, ∀ sy ∈ y.secs, KindByKey sx.subs sy.subs)
    (body : St) (hbody : ((diffAnchors (initSt a b) .tg).bind fun st => diffAnchors st .user) = some body)
    (d' : Dev) (hex : execAll { objs := a } (deleteUnused body).out = some d')
    (r : Ref) (hR : ¬ R r) (hnew : ∀ rb : Ref, r ≠ (rb.1, genOf (initSt a b).gen rb))
    (hpend : ∀ p ∈ pendingDel body, p.id ≠ r) :
    d'.obj r = ({ objs := a } : Dev).obj r := by
  have hb := body_targets a b hc hanch hkk body hbody
  have hf := execAll_frame _ _ _ hex
  apply hf.2 r
  rw [deleteUnused_out, targets_append]
  intro hm
  rcases List.mem_append.1 hm with h1 | h1
  · rcases hb.1 r h1 with h2 | ⟨rb, h2⟩
    · exact hR h2
    · exact hnew rb h2
  · obtain ⟨p, hp, hid⟩ := tail_targets body _ r h1
    exact hpend p hp hid

/-- An untagged object outside `R` is never a pending deletion: `toDelete` marks stay inside `R`. -/
theorem untagged_not_pending (a b : List Obj) (hc : Closed R a) (hanch : ∀ o ∈ a, o.anchor = true → R o.id)
    (hkk : ∀ x ∈ a, ∀ y ∈ b, ∀ sx ∈ x.secs, ∀ sy ∈ y.secs, KindByKey sx.subs sy.subs)
    (body : St) (hbody : ((diffAnchors (initSt a b) .tg).bind fun st => diffAnchors st .user) = some body)
    (r : Ref) (hR : ¬ R r) (hdrc : ∀ o ∈ a, o.id = r → o.drc = false) :
    ∀ p ∈ pendingDel body, p.id ≠ r := by
  intro p hp hid
  have hb := body_targets a b hc hanch hkk body hbody
  obtain ⟨o, ho, hpo, _, _, hel, _⟩ := mem_pendingDel body p hp
  rw [hb.2.2.2] at ho
  have hor : o.id = r := by rw [← hpo]; exact hid
  unfold eligible at hel
  have h3 : (body.toDel.contains o.id || o.drc) = true := by
    have : (!body.isNeeded o.id && (body.toDel.contains o.id || o.drc)) = true := by
      cases h1 : (!body.isNeeded o.id && (body.toDel.contains o.id || o.drc)) with
      | true => rfl
      | false => rw [h1] at hel; simp at hel
    cases h2 : (body.toDel.contains o.id || o.drc) with
    | true => rfl
    | false => rw [h2] at this; simp at this
  rw [hdrc o ho hor, Bool.or_false] at h3
  have : o.id ∈ body.toDel := by simpa using h3
  exact hR (by rw [← hor]; exact hb.2.1 _ this)

/-! ## `stillReferenced`: what unneeded objects that stay reference is protected -/

def stillStep (f : Nat) (st : St) (acc : List Ref) (x : Ref) : List Ref :=
  if st.isNeeded x || (st.aObj x).isNone then acc
  else stillFrom f st (if acc.contains x then acc else x :: acc) x

theorem foldl_mono {α : Type} (g : List Ref → α → List Ref) (hg : ∀ acc x, ∀ r ∈ acc, r ∈ g acc x) :
    ∀ (l : List α) (acc : List Ref), ∀ r ∈ acc, r ∈ l.foldl g acc
  | [], _, _, h => h
  | x :: xs, acc, r, h => foldl_mono g hg xs (g acc x) r (hg acc x r h)

theorem stillFrom_mono : ∀ (f : Nat) (st : St) (acc : List Ref) (r0 : Ref), ∀ r ∈ acc, r ∈ stillFrom f st acc r0
  | 0, _, _, _, _, h => h
  | f + 1, st, acc, r0, r, h => by
    unfold stillFrom
    cases st.aObj r0 with
    | none => exact h
    | some o =>
      apply foldl_mono (fun acc x => if st.isNeeded x || (st.aObj x).isNone then acc
          else stillFrom f st (if acc.contains x then acc else x :: acc) x) _ o.refs acc r h
      intro acc x r hr
      split
      · exact hr
      · apply stillFrom_mono f
        split
        · exact hr
        · exact List.mem_cons_of_mem _ hr

/-- a chain of references from `r0` to `r` through objects of the device that are not needed -/
inductive Chain (st : St) : Nat → Ref → Ref → Prop
  | nil (r : Ref) : Chain st 0 r r
  | cons (n : Nat) (r0 x r : Ref) (o : Obj) : st.aObj r0 = some o → x ∈ o.refs → st.isNeeded x = false →
      (st.aObj x).isSome = true → Chain st n x r → Chain st (n + 1) r0 r

theorem foldl_reaches {α : Type} (g : List Ref → α → List Ref) (hg : ∀ acc x, ∀ r ∈ acc, r ∈ g acc x)
    (r : Ref) (x : α) (hx : ∀ acc, r ∈ g acc x) : ∀ (l : List α) (acc : List Ref), x ∈ l → r ∈ l.foldl g acc
  | [], _, h => by cases h
  | y :: ys, acc, h => by
    rw [List.foldl_cons]
    cases h with
    | head => exact foldl_mono g hg ys _ r (hx acc)
    | tail _ h => exact foldl_reaches g hg r x hx ys _ h

theorem stillFrom_chain : ∀ (n f : Nat) (st : St) (acc : List Ref) (r0 r : Ref),
    Chain st (n + 1) r0 r → n + 1 ≤ f → r ∈ stillFrom f st acc r0
  | n, 0, _, _, _, _, _, hf => by omega
  | n, f + 1, st, acc, r0, r, hch, hf => by
    cases hch with
    | cons _ _ x _ o ho hx hnn hex hrest =>
      unfold stillFrom
      rw [ho]
      dsimp only
      apply foldl_reaches (fun acc x => if st.isNeeded x || (st.aObj x).isNone then acc
          else stillFrom f st (if acc.contains x then acc else x :: acc) x) _ r x _ o.refs acc hx
      · intro acc y r' hr'
        split
        · exact hr'
        · apply stillFrom_mono f
          split
          · exact hr'
          · exact List.mem_cons_of_mem _ hr'
      · intro acc'
        have hcond : (st.isNeeded x || (st.aObj x).isNone) = false := by
          rw [hnn]
          cases h : st.aObj x with
          | none => rw [h] at hex; cases hex
          | some _ => rfl
        rw [hcond]
        simp only [Bool.false_eq_true, if_false]
        cases n with
        | zero =>
          cases hrest
          apply stillFrom_mono f
          split
          · rename_i hc; simpa using hc
          · exact List.mem_cons_self
        | succ n' => exact stillFrom_chain n' f st _ x r hrest (by omega)

/-- **Protection of what unmanaged objects reference**: an object that is reached by a chain of at most `fuel`
references (through objects nothing needs) from an object that stays although nothing needs it is in `stillSet`,
hence never a pending deletion — tagged or not. -/
theorem chain_protected (st : St) (k : Obj) (hk : k ∈ st.a) (hkeep : (!st.isNeeded k.id && !eligible st k) = true)
    (n : Nat) (r : Ref) (hch : Chain st (n + 1) k.id r) (hn : n + 1 ≤ fuel) : r ∈ stillSet st := by
  unfold stillSet
  apply foldl_reaches (fun acc (o : Obj) => stillFrom fuel st acc o.id) _ r k _ _ [] (List.mem_filter.2 ⟨hk, hkeep⟩)
  · intro acc o r' hr'; exact stillFrom_mono fuel st acc o.id r' hr'
  · intro acc; exact stillFrom_chain n fuel st acc k.id r hch hn

theorem protected_not_pending (st : St) (r : Ref) (h : r ∈ stillSet st) : ∀ p ∈ pendingDel st, p.id ≠ r := by
  intro p hp hid
  obtain ⟨o, _, hpo, _, _, _, hns⟩ := mem_pendingDel st p hp
  have : (stillSet st).contains o.id = true := by
    rw [← hpo, hid]; simpa using h
  rw [this] at hns; cases hns

/-! ## decidable forms of the hypotheses -/

/-- `S` contains, with every object of the device it lists, everything that object references -/
def closedB (S : List Ref) (a : List Obj) : Bool :=
  S.all fun r => match a.find? (fun o => o.id == r) with
    | some o => o.refs.all fun x => S.contains x
    | none => true

theorem closed_of_closedB (S : List Ref) (a : List Obj) (h : closedB S a = true) : Closed (fun r => r ∈ S) a := by
  intro r o hr ho x hx
  unfold closedB at h
  have h1 := (List.all_eq_true.1 h) r hr
  rw [ho] at h1
  have := (List.all_eq_true.1 h1) x hx
  simpa using this

def anchorsB (S : List Ref) (a : List Obj) : Bool := a.all fun o => !o.anchor || S.contains o.id

theorem anchors_of_anchorsB (S : List Ref) (a : List Obj) (h : anchorsB S a = true) :
    ∀ o ∈ a, o.anchor = true → (fun r => r ∈ S) o.id := by
  intro o ho han
  have := (List.all_eq_true.1 h) o ho
  rw [han] at this
  simpa using this

/-- sub-commands with equal keys reference objects of equal kind (true of the templates of `asa/cmd-info.go`) -/
def kindByKeyB (a b : List Obj) : Bool :=
  a.all fun x => b.all fun y => x.secs.all fun sx => y.secs.all fun sy =>
    sx.subs.all fun s => sy.subs.all fun s' =>
      !(s.key == s'.key) || (match s.ref, s'.ref with
        | some xa, some xb => xa.1 == xb.1
        | _, _ => true)

theorem kindByKey_of_B (a b : List Obj) (h : kindByKeyB a b = true) :
    ∀ x ∈ a, ∀ y ∈ b, ∀ sx ∈ x.secs, ∀ sy ∈ y.secs, KindByKey sx.subs sy.subs := by
  intro x hx y hy sx hsx sy hsy s hs s' hs' hkey xa xb hxa hxb
  unfold kindByKeyB at h
  have h1 := (List.all_eq_true.1 h) x hx
  have h2 := (List.all_eq_true.1 h1) y hy
  have h3 := (List.all_eq_true.1 h2) sx hsx
  have h4 := (List.all_eq_true.1 h3) sy hsy
  have h5 := (List.all_eq_true.1 h4) s hs
  have h6 := (List.all_eq_true.1 h5) s' hs'
  rw [hxa, hxb] at h6
  have hk : (s.key == s'.key) = true := by simpa using hkey
  rw [hk] at h6
  simpa using h6

end NA.Vpn.G
