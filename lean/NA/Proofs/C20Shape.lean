import NA.Proofs.C20
/-!
C20 — shape of what `matchCmd` stores in `cmd.parsed`: it has at least as many white-space
separated words as the prefix and the template have tokens.  This is the invariant behind every
`strings.Fields(c.parsed)[k]` / `tokens[k]` in `postprocessParsed`, `alignVRFs` and the
interface checks: the index is below the number of template tokens.
-/
namespace NA.C20
open Res

/-! ### strings.Fields of a joined list -/

theorem fields_space_cons (c : Char) (cs : Str) (h : isSpace c = true) : fields (c :: cs) = fields cs := by
  rw [fields.eq_def]; simp [h]

theorem fields_single (c : Char) (h : isSpace c = false) : fields [c] = [[c]] := by
  rw [fields.eq_def]; simp [h]

theorem fields_word_end (c d : Char) (cs : Str) (h : isSpace c = false) (hd : isSpace d = true) :
    fields (c :: d :: cs) = [c] :: fields (d :: cs) := by
  rw [fields.eq_def]; simp [h, hd]

theorem fields_word_cont (c d : Char) (cs : Str) (w : Str) (ws : List Str) (h : isSpace c = false)
    (hd : isSpace d = false) (hf : fields (d :: cs) = w :: ws) : fields (c :: d :: cs) = (c :: w) :: ws := by
  rw [fields.eq_def]; simp [h, hd, hf]

theorem fields_append_space : ∀ (a b : Str), fields (a ++ ' ' :: b) = fields a ++ fields b
  | [], b => by
    simp only [List.nil_append]
    rw [fields_space_cons _ _ (by decide)]
    simp [fields]
  | c :: cs, b => by
    have ih := fields_append_space cs b
    by_cases hc : isSpace c = true
    · simp only [List.cons_append]
      rw [fields_space_cons _ _ hc, fields_space_cons _ _ hc, ih]
    · have hc' : isSpace c = false := by simpa using hc
      cases cs with
      | nil =>
        simp only [List.cons_append, List.nil_append]
        rw [fields_word_end c ' ' b hc' (by decide), fields_space_cons _ _ (by decide), fields_single c hc']
        rfl
      | cons d cs' =>
        simp only [List.cons_append] at ih ⊢
        by_cases hd : isSpace d = true
        · rw [fields_word_end c d _ hc' hd, fields_word_end c d _ hc' hd, ih]; rfl
        · have hd' : isSpace d = false := by simpa using hd
          have hne : fields (d :: cs') ≠ [] := fields_cons_ne_nil cs' hd'
          cases hf : fields (d :: cs') with
          | nil => exact absurd hf hne
          | cons w ws =>
            rw [fields_word_cont c d _ w (ws ++ fields b) hc' hd' (by rw [ih, hf]; rfl),
              fields_word_cont c d _ w ws hc' hd' hf]
            rfl

theorem fields_join : ∀ ws : List Str, fields (join ws) = ws.flatMap fields
  | [] => by simp [join, fields]
  | [w] => by simp [join]
  | w :: w' :: ws => by
    have ih := fields_join (w' :: ws)
    rw [join.eq_3 _ _ (by simp), fields_append_space, ih]
    simp

/-- a string with a character that is not white space has at least one field. -/
theorem fields_ne_nil_of_mem : ∀ (s : Str), (∃ c ∈ s, isSpace c = false) → fields s ≠ []
  | [], h => by simp at h
  | c :: cs, h => by
    by_cases hc : isSpace c = true
    · rw [fields_space_cons _ _ hc]
      apply fields_ne_nil_of_mem cs
      obtain ⟨d, hd, hs⟩ := h
      simp at hd
      rcases hd with rfl | hd
      · rw [hc] at hs; cases hs
      · exact ⟨d, hd, hs⟩
    · exact fields_cons_ne_nil cs (by simpa using hc)

/-- `Nonblank s`: some character of `s` is not white space. -/
def Nonblank (s : Str) : Prop := ∃ c ∈ s, isSpace c = false

theorem flatMap_fields_length_ge : ∀ ws : List Str, (∀ w ∈ ws, Nonblank w) →
    ws.length ≤ (ws.flatMap fields).length
  | [], _ => by simp
  | w :: ws, h => by
    have h1 : fields w ≠ [] := fields_ne_nil_of_mem w (h w (by simp))
    have h2 := flatMap_fields_length_ge ws (fun x hx => h x (List.mem_cons_of_mem _ hx))
    simp only [List.flatMap_cons, List.length_append, List.length_cons]
    have : 1 ≤ (fields w).length := by
      cases hf : fields w with
      | nil => exact absurd hf h1
      | cons _ _ => simp
    omega

/-- The number of words of a joined list of non-blank strings is at least the number of strings. -/
theorem fields_join_length_ge (ws : List Str) (h : ∀ w ∈ ws, Nonblank w) :
    ws.length ≤ (fields (join ws)).length := by
  rw [fields_join]; exact flatMap_fields_length_ge ws h

/-! ### the template loop pushes one non-blank string per template token -/

/-- the last word has a character that is not white space (the line was right-trimmed). -/
def LastNonblank (args : List Str) : Prop := ∀ w, args.getLast? = some w → Nonblank w

theorem LastNonblank.tail {w : Str} {rest : List Str} (h : LastNonblank (w :: rest)) (hr : rest ≠ []) :
    LastNonblank rest := by
  intro x hx
  apply h x
  cases rest with
  | nil => exact absurd rfl hr
  | cons a as => simpa [List.getLast?_cons_cons] using hx

theorem lastNonblank_drop : ∀ (n : Nat) (args : List Str), LastNonblank args → LastNonblank (args.drop n)
  | 0, args, h => by simpa using h
  | n + 1, [], h => by simpa using h
  | n + 1, [a], _ => by
    intro x hx; simp at hx
  | n + 1, a :: b :: rest, h => by
    simp only [List.drop_succ_cons]
    exact lastNonblank_drop n (b :: rest) (h.tail (by simp))

theorem join_nonblank : ∀ (args : List Str), args ≠ [] → LastNonblank args → Nonblank (join args)
  | [], h, _ => absurd rfl h
  | [w], _, hl => by simpa [join] using hl w (by simp)
  | w :: w' :: ws, _, hl => by
    obtain ⟨c, hc, hs⟩ := join_nonblank (w' :: ws) (by simp) (hl.tail (by simp))
    exact ⟨c, by rw [join.eq_3 _ _ (by simp)]; simp [hc], hs⟩

/-- template tokens are words: not empty, no white space inside. -/
def CleanTok (t : Str) : Prop := t ≠ [] ∧ ∀ c ∈ t, isSpace c = false

theorem CleanTok.nonblank {t : Str} (h : CleanTok t) : Nonblank t := by
  obtain ⟨hne, hall⟩ := h
  cases t with
  | nil => exact absurd rfl hne
  | cons c cs => exact ⟨c, by simp, hall c (by simp)⟩

/-- What the `TEMPLATE` loop stores: for every template token processed one non-blank string;
all tokens are processed unless the template contains `*` (then all up to it — and `*` is last in
every table, `setupCmdDescr` panics otherwise). -/
theorem matchTemplate_shape : ∀ (tmpl args : List Str) (acc acc' : MatchAcc) (rest : List Str),
    (∀ t ∈ tmpl, CleanTok t) → lit "*" ∉ tmpl.dropLast → LastNonblank args →
    (∀ s ∈ acc.parsed, Nonblank s) →
    matchTemplate tmpl args acc = .ok (some (acc', rest)) →
    (∀ s ∈ acc'.parsed, Nonblank s) ∧ acc'.parsed.length = acc.parsed.length + tmpl.length
  | [], args, acc, acc', rest, _, _, _, hp, h => by
    simp only [matchTemplate] at h
    cases h
    exact ⟨hp, by simp⟩
  | tok :: ts, args, acc, acc', rest, hc, hstar, hl, hp, h => by
    have hct : CleanTok tok := hc tok (by simp)
    have hcts : ∀ t ∈ ts, CleanTok t := fun t ht => hc t (List.mem_cons_of_mem _ ht)
    have hstar' : lit "*" ∉ ts.dropLast := by
      intro hm
      apply hstar
      cases ts with
      | nil => simp at hm
      | cons a as => simp [List.dropLast] ; right; exact hm
    unfold matchTemplate at h
    split at h
    · cases h
    · rename_i w restw
      have hlr : LastNonblank restw := by
        cases restw with
        | nil => intro x hx; simp at hx
        | cons a as => exact hl.tail (by simp)
      have step : ∀ (a : MatchAcc) (s : Str), Nonblank s → a.parsed = s :: acc.parsed →
          ∀ args', LastNonblank args' →
          matchTemplate ts args' a = .ok (some (acc', rest)) →
          (∀ s ∈ acc'.parsed, Nonblank s) ∧ acc'.parsed.length = acc.parsed.length + (tok :: ts).length := by
        intro a s hs ha args' hl' hm
        have hpa : ∀ x ∈ a.parsed, Nonblank x := by
          intro x hx
          rw [ha] at hx
          simp at hx
          rcases hx with rfl | hx
          · exact hs
          · exact hp x hx
        obtain ⟨r1, r2⟩ := matchTemplate_shape ts args' a acc' rest hcts hstar' hl' hpa hm
        refine ⟨r1, ?_⟩
        rw [r2, ha]; simp; omega
      split at h
      · exact step _ tok hct.nonblank rfl restw hlr h
      · split at h
        · split at h
          · cases h
          · exact step _ tok hct.nonblank rfl restw hlr h
        · split at h
          · exact step _ tok hct.nonblank rfl restw hlr h
          · split at h
            · split at h
              · cases h
              · rename_i c tl
                split at h
                · split at h
                  · cases h
                  · rename_i j hj
                    refine step _ (join (List.take (j + 1) (( c :: tl) :: restw))) ?_ rfl _ (lastNonblank_drop _ _ hl) h
                    -- the joined string starts with the quote character
                    rename_i hq _
                    subst hq
                    refine ⟨'"', ?_, by decide⟩
                    simp only [List.take_succ_cons]
                    cases htk : List.take j restw with
                    | nil => simp [join]
                    | cons a as => simp [join]
                · exact step _ _ ⟨'"', by simp, by decide⟩ rfl restw hlr h
            · split at h
              · -- `*`: it is the last token of the template
                rename_i hst
                have hts : ts = [] := by
                  cases ts with
                  | nil => rfl
                  | cons a as =>
                    exfalso; apply hstar; subst hst; simp [List.dropLast]
                subst hts
                cases h
                refine ⟨?_, by simp⟩
                intro s hs
                simp at hs
                rcases hs with rfl | hs
                · exact join_nonblank _ (by simp) hl
                · exact hp s hs
              · split at h
                · cases h
                · rename_i hne
                  have hw : tok = w := by simpa using hne
                  exact step _ w (hw ▸ hct.nonblank) rfl restw hlr h

/-! ### from the template loop to `cmd.parsed` -/

/-- templates of a table: tokens are words, `*` only at the end (what `setupCmdDescr` enforces). -/
def CleanTemplate (tmpl : List Str) : Prop := (∀ t ∈ tmpl, CleanTok t) ∧ lit "*" ∉ tmpl.dropLast

theorem nonblank_flatMap_length (pre : Str) (ps : List Str) (hps : ∀ s ∈ ps, Nonblank s) :
    (fields pre).length + ps.length ≤ (fields (join (pre :: ps))).length := by
  rw [fields_join]
  simp only [List.flatMap_cons, List.length_append]
  have := flatMap_fields_length_ge ps hps
  omega

/-- `matchCmd`: the stored `parsed` has at least as many words as prefix and template have tokens. -/
theorem matchCmd_fields_ge (pre : Str) (words : List Str) (hl : LastNonblank words) (c : Cmd) :
    ∀ ds : List (Nat × List Str × Bool), (∀ d ∈ ds, CleanTemplate d.2.1) →
    matchCmd pre words ds = .ok (some c) →
    ∃ d ∈ ds, c.descr = d.1 ∧ (fields pre).length + d.2.1.length ≤ (fields c.parsed).length
  | [], _, h => by simp [matchCmd] at h
  | (i, tmpl, ign) :: ds, hc, h => by
    have hcd : ∀ d ∈ ds, CleanTemplate d.2.1 := fun d hd => hc d (List.mem_cons_of_mem _ hd)
    have next : matchCmd pre words ds = .ok (some c) →
        ∃ d ∈ (i, tmpl, ign) :: ds, c.descr = d.1 ∧ (fields pre).length + d.2.1.length ≤ (fields c.parsed).length := by
      intro h'
      obtain ⟨d, hd, r⟩ := matchCmd_fields_ge pre words hl c ds hcd h'
      exact ⟨d, List.mem_cons_of_mem _ hd, r⟩
    unfold matchCmd at h
    split at h
    · cases h
    · cases h
    · exact next h
    · rename_i acc rest hm
      split at h
      · exact next h
      · split at h
        · cases h
        · obtain ⟨hct, hst⟩ := hc (i, tmpl, ign) (by simp)
          obtain ⟨hnb, hlen⟩ := matchTemplate_shape tmpl words _ acc rest hct hst hl (by simp) hm
          simp at hlen
          simp only [Res.ok.injEq, Option.some.injEq] at h
          refine ⟨(i, tmpl, ign), by simp, ?_, ?_⟩
          · rw [← h]
          · rw [← h]
            simp only
            have hrev : ∀ s ∈ acc.parsed.reverse, Nonblank s := fun s hs => hnb s (by simpa using hs)
            by_cases hp : pre = []
            · subst hp
              simp only [ne_eq, not_true_eq_false, if_false]
              have := fields_join_length_ge acc.parsed.reverse hrev
              simp [fields] at this ⊢
              omega
            · simp only [ne_eq, hp, not_false_eq_true, if_true]
              have := nonblank_flatMap_length pre acc.parsed.reverse hrev
              simp at this
              omega

/-! ### words of a right-trimmed line -/

theorem splitSp_ne_nil : ∀ s : Str, splitSp s ≠ []
  | [] => by simp [splitSp]
  | c :: cs => by
    rw [splitSp.eq_def]
    simp only
    split
    · simp
    · split <;> simp

/-- the last word of `strings.Split(line, " ")` contains the last character of the line, if
that is not a blank. -/
theorem splitSp_last : ∀ (s : Str) (x : Char), s.getLast? = some x → x ≠ ' ' →
    ∀ w, (splitSp s).getLast? = some w → x ∈ w
  | [], x, h, _, _, _ => by simp at h
  | [c], x, h, hx, w, hw => by
    simp at h; subst h
    have : splitSp [c] = [[c]] := by
      rw [splitSp.eq_def]; simp [hx, splitSp]
    rw [this] at hw
    simp at hw; subst hw; simp
  | c :: d :: cs, x, h, hx, w, hw => by
    have h' : (d :: cs).getLast? = some x := by simpa [List.getLast?_cons_cons] using h
    have ih := splitSp_last (d :: cs) x h' hx
    have hne := splitSp_ne_nil (d :: cs)
    rw [splitSp.eq_def] at hw
    simp only at hw
    split at hw
    · cases hs : splitSp (d :: cs) with
      | nil => exact absurd hs hne
      | cons a as =>
        rw [hs] at hw ih
        rw [List.getLast?_cons_cons] at hw
        exact ih w hw
    · cases hs : splitSp (d :: cs) with
      | nil => exact absurd hs hne
      | cons a as =>
        rw [hs] at hw ih
        simp only at hw
        cases as with
        | nil =>
          simp at hw; subst hw
          have := ih a (by simp)
          simp [this]
        | cons b bs =>
          rw [List.getLast?_cons_cons] at hw
          exact ih w (by rw [List.getLast?_cons_cons]; exact hw)

theorem trimRight_last (s : Str) : ∀ x, (trimRight s).getLast? = some x → isSpace x = false := by
  intro x hx
  unfold trimRight at hx
  rw [List.getLast?_reverse] at hx
  cases hd : List.dropWhile isSpace s.reverse with
  | nil => rw [hd] at hx; simp at hx
  | cons a t =>
    rw [hd] at hx
    simp at hx; subst hx
    exact dropWhile_head_not isSpace _ a t hd

/-- The words of a right-trimmed non-empty line: the last one is not blank. -/
theorem splitSp_trimRight_lastNonblank (raw : Str) (hne : trimRight raw ≠ []) :
    LastNonblank (splitSp (trimRight raw)) := by
  intro w hw
  cases hl : (trimRight raw).getLast? with
  | none => exact absurd (by simpa using hl) hne
  | some x =>
    have hs := trimRight_last raw x hl
    exact ⟨x, splitSp_last _ x hl (not_space_ne_blank hs) w hw, hs⟩

theorem join_splitSp : ∀ s : Str, join (splitSp s) = s
  | [] => by simp [splitSp, join]
  | c :: cs => by
    have ih := join_splitSp cs
    have hne := splitSp_ne_nil cs
    rw [splitSp.eq_def]
    simp only
    split
    · rename_i hc
      rw [join.eq_3 _ _ (by simpa using hne), ih, hc]; rfl
    · cases hs : splitSp cs with
      | nil => exact absurd hs hne
      | cons w ws =>
        rw [hs] at ih
        simp only
        cases ws with
        | nil => simp [join] at ih ⊢; exact ih
        | cons a as =>
          rw [join.eq_3 _ _ (by simp)] at ih ⊢
          simp [← ih]

theorem fields_mem_nonblank : ∀ (s : Str) (w : Str), w ∈ fields s → Nonblank w
  | [], w, h => by simp [fields] at h
  | c :: cs, w, h => by
    by_cases hc : isSpace c = true
    · rw [fields_space_cons _ _ hc] at h
      exact fields_mem_nonblank cs w h
    · have hc' : isSpace c = false := by simpa using hc
      cases cs with
      | nil =>
        rw [fields_single c hc'] at h
        simp at h; subst h
        exact ⟨c, by simp, hc'⟩
      | cons d cs' =>
        by_cases hd : isSpace d = true
        · rw [fields_word_end c d cs' hc' hd] at h
          simp at h
          rcases h with rfl | h
          · exact ⟨c, by simp, hc'⟩
          · exact fields_mem_nonblank (d :: cs') w h
        · have hd' : isSpace d = false := by simpa using hd
          cases hf : fields (d :: cs') with
          | nil => exact absurd hf (fields_cons_ne_nil cs' hd')
          | cons w0 ws =>
            rw [fields_word_cont c d cs' w0 ws hc' hd' hf] at h
            simp at h
            rcases h with rfl | h
            · exact ⟨c, by simp, hc'⟩
            · exact fields_mem_nonblank (d :: cs') w (by rw [hf]; simp [h])

theorem lastNonblank_of_all {l : List Str} (h : ∀ w ∈ l, Nonblank w) : LastNonblank l := by
  intro w hw
  exact h w (List.mem_of_getLast? hw)

/-- sub commands: the words come from `strings.Fields`. -/
theorem fields_lastNonblank (s : Str) : LastNonblank (fields s) :=
  lastNonblank_of_all (fields_mem_nonblank s)

/-- all templates of a table (top level) are clean. -/
def CleanTop (ds : List Descr) : Prop := ∀ d ∈ ds, CleanTemplate d.template

theorem lookupAux_fields_ge (ds : List (Nat × Descr)) (hc : ∀ d ∈ ds, CleanTemplate d.2.template) (c : Cmd) :
    ∀ (words pre : List Str), LastNonblank words → lookupAux ds pre words = .ok (some c) →
    ∃ d ∈ ds, c.descr = d.1 ∧ (fields d.2.pre).length + d.2.template.length ≤ (fields c.parsed).length
  | [], pre, _, h => by simp [lookupAux] at h
  | w :: rest, pre, hl, h => by
    have hlr : LastNonblank rest := by
      cases rest with
      | nil => intro x hx; simp at hx
      | cons a as => exact hl.tail (by simp)
    unfold lookupAux at h
    simp only at h
    split at h
    · cases h
    · split at h
      · obtain ⟨d, hd, h1, h2⟩ := matchCmd_fields_ge (join (pre ++ [w])) rest hlr c _ (by
            intro d hd
            simp at hd
            obtain ⟨a, b, hab, rfl⟩ := hd
            exact hc (a, b) hab.1) h
        simp at hd
        obtain ⟨a, b, hab, rfl⟩ := hd
        refine ⟨(a, b), hab.1, h1, ?_⟩
        have : join (pre ++ [w]) = b.pre := by
          have := hab.2
          rw [← this, join_splitSp]
        rw [this] at h2
        exact h2
      · exact lookupAux_fields_ge ds hc c rest _ hlr h

/-- `lookupCmd` on a right-trimmed non-empty line: the command found has at least as many words
in `parsed` as its prefix and template have tokens. -/
theorem lookupCmd_fields_ge (ds : List Descr) (hc : CleanTop ds) (raw : Str) (hne : trimRight raw ≠ [])
    (c : Cmd) (h : lookupCmd ds (trimRight raw) = .ok (some c)) :
    ∃ d ∈ indexed ds, c.descr = d.1 ∧
      (fields d.2.pre).length + d.2.template.length ≤ (fields c.parsed).length := by
  unfold lookupCmd at h
  exact lookupAux_fields_ge _ (fun d hd => hc d.2 (mem_indexed hd)) c _ _
    (splitSp_trimRight_lastNonblank raw hne) h

end NA.C20
