import NA.Model.MaskSsh
import NA.Proofs.C17Sinks
/-!
# Lemmas for C17: a dialogue program cannot reveal the password

The password is a symbolic command of the step language; `run` only ever puts it into `Op.send`.
By induction over programs (the continuation of an expect is quantified over all outputs) two runs
with different passwords against the same device produce traces that differ in `send` payloads only.
-/
namespace NA.Mask

theorem map_erase_cons (o : Op) (r : RunOut) : (r.cons o).ops.map Op.erase = o.erase :: r.ops.map Op.erase := rfl

theorem run_erase (p1 p2 errText : Str) : ∀ (prog : Prog) (left : Str) (segs : List Seg),
    (run p1 errText prog left segs).ops.map Op.erase = (run p2 errText prog left segs).ops.map Op.erase ∧
    (run p1 errText prog left segs).rest = (run p2 errText prog left segs).rest ∧
    (run p1 errText prog left segs).finished = (run p2 errText prog left segs).finished := by
  intro prog
  induction prog with
  | tail => intro left segs; exact ⟨rfl, rfl, rfl⟩
  | send c k ih =>
    intro left segs
    obtain ⟨h1, h2, h3⟩ := ih left segs
    refine ⟨?_, ?_, ?_⟩
    · simp only [run, map_erase_cons, h1]
      cases c <;> rfl
    · simpa [run, RunOut.cons] using h2
    · simpa [run, RunOut.cons] using h3
  | expect w re pw ok k ih =>
    intro left segs
    cases segs with
    | nil => exact ⟨rfl, rfl, rfl⟩
    | cons s r =>
      cases s with
      | full s =>
        obtain ⟨h1, h2, h3⟩ := ih (crlf2lf (if pw then cutPassword (left ++ s) else (left ++ s, [])).1)
          (if pw then cutPassword (left ++ s) else (left ++ s, [])).2 r
        by_cases hok : ok (crlf2lf (if pw then cutPassword (left ++ s) else (left ++ s, [])).1) = true
        · refine ⟨?_, ?_, ?_⟩
          · simp only [run, hok, if_true, map_erase_cons, h1]
          · simpa [run, hok, RunOut.cons] using h2
          · simpa [run, hok, RunOut.cons] using h3
        · simp only [run, hok]
          exact ⟨rfl, rfl, rfl⟩
      | part s => exact ⟨rfl, rfl, rfl⟩
  | setLog l k ih =>
    intro left segs
    obtain ⟨h1, h2, h3⟩ := ih left segs
    refine ⟨?_, ?_, ?_⟩
    · simp only [run, map_erase_cons, h1]
    · simpa [run, RunOut.cons] using h2
    · simpa [run, RunOut.cons] using h3
  | abort m => intro left segs; exact ⟨rfl, rfl, rfl⟩

theorem sessionOps_erase (prog : Prog) (p1 p2 errText : Str) (segs : List Seg) (applies : Bool)
    (tl : List (Str × Option Str)) (tailAbort : Str) :
    (sessionOps prog p1 errText segs applies tl tailAbort).map Op.erase =
      (sessionOps prog p2 errText segs applies tl tailAbort).map Op.erase := by
  obtain ⟨h1, _, h3⟩ := run_erase p1 p2 errText prog [] segs
  unfold sessionOps
  simp only [h3]
  split
  · simp only [List.map_append, h1]
  · exact h1

/-! ## the password is only ever sent in answer to a password prompt -/

/-- `Guarded b prog`: in every execution of `prog` (for every device) each `send pass` follows
immediately an expect whose chunk ends in `password:`; `b` says whether that is the case right now. -/
inductive Guarded : Bool → Prog → Prop where
  | tail (b : Bool) : Guarded b .tail
  | abort (b : Bool) (m : Str) : Guarded b (.abort m)
  | sendLit (b : Bool) (s : Str) (k : Prog) : Guarded false k → Guarded b (.send (.lit s) k)
  | sendPass (k : Prog) : Guarded false k → Guarded true (.send .pass k)
  | expect (b : Bool) (w re : Str) (pw : Bool) (ok : Str → Bool) (k : Str → Prog) :
      (∀ out, ok out = true → Guarded (isPwPrompt out) (k out)) → Guarded b (.expect w re pw ok k)
  | setLog (b : Bool) (l : Option Log) (k : Prog) : Guarded b k → Guarded b (.setLog l k)

theorem Guarded.mono {b : Bool} {p : Prog} (h : Guarded b p) : b = false → ∀ b', Guarded b' p := by
  induction h with
  | tail b => intro _ b'; exact .tail b'
  | abort b m => intro _ b'; exact .abort b' m
  | sendLit b s k hk _ => intro _ b'; exact .sendLit b' s k hk
  | sendPass k _ _ => intro hb; cases hb
  | expect b w re pw ok k hk _ => intro _ b'; exact .expect b' w re pw ok k hk
  | setLog b l k _ ih => intro hb b'; exact .setLog b' l k (ih hb b')

theorem Guarded.weaken {p : Prog} (h : Guarded false p) (b : Bool) : Guarded b p := h.mono rfl b

theorem guarded_issue_lit (b : Bool) (s re : Str) (pw : Bool) (ok : Str → Bool) (k : Str → Prog)
    (h : ∀ out, ok out = true → Guarded (isPwPrompt out) (k out)) : Guarded b (issue (.lit s) re k pw ok) :=
  .sendLit b s _ (.expect false _ _ _ _ _ h)

theorem guarded_issue_pass (re : Str) (pw : Bool) (ok : Str → Bool) (k : Str → Prog)
    (h : ∀ out, ok out = true → Guarded (isPwPrompt out) (k out)) : Guarded true (issue .pass re k pw ok) :=
  .sendPass _ (.expect false _ _ _ _ _ h)

theorem guarded_sendCmd (b : Bool) (re cmd : Str) (k : Prog) (h : Guarded false k) : Guarded b (sendCmd re cmd k) :=
  guarded_issue_lit b cmd re false anyOut _ fun out _ => h.weaken _

theorem guarded_getCmd (b : Bool) (re cmd : Str) (k : Str → Prog) (h : ∀ out, Guarded false (k out)) :
    Guarded b (getCmd re cmd k) := by
  refine guarded_issue_lit b cmd re false anyOut _ fun seg _ => ?_
  first | dsimp only | skip
  split
  · exact .abort _ _
  · exact (h _).weaken _

theorem guarded_ciscoPrompt (b : Bool) (k : Str → Prog) (h : ∀ re, Guarded false (k re)) : Guarded b (ciscoPrompt k) :=
  guarded_issue_lit b [] reHash false anyOut _ fun out _ => (h _).weaken _

theorem guarded_ciscoAuth (k : Str → Prog) (h : ∀ re, Guarded false (k re)) : Guarded true (ciscoAuth k) := by
  refine guarded_issue_pass _ _ _ _ fun o1 _ => ?_
  first | dsimp only | skip
  split
  · refine guarded_issue_lit _ _ _ _ _ _ fun o2 _ => ?_
    first | dsimp only | skip
    split
    · exact guarded_ciscoPrompt _ k h
    · split
      · rename_i hp
        rw [hp]
        refine guarded_issue_pass _ _ _ _ fun o3 _ => ?_
        first | dsimp only | skip
        split
        · exact guarded_ciscoPrompt _ k h
        · exact .abort _ _
      · exact .abort _ _
  · split
    · exact guarded_ciscoPrompt _ k h
    · exact .abort _ _

theorem guarded_ciscoLogin (k : Str → Prog) (h : ∀ re, Guarded false (k re)) : Guarded false (ciscoLogin k) := by
  unfold ciscoLogin ciscoLoginWith
  refine .expect _ _ _ _ _ _ fun o hok => ?_
  first | dsimp only | skip
  split
  · refine guarded_issue_lit _ _ _ _ _ _ fun out hp => ?_
    rw [hp]
    exact guarded_ciscoAuth k h
  · rename_i hq
    have : isPwPrompt o = true := by
      simp only [okCiscoLogin, Bool.or_eq_true] at hok
      rcases hok with h1 | h2
      · exact h1
      · exact absurd h2 hq
    rw [this]
    exact guarded_ciscoAuth k h

theorem guarded_asaK2 (b : Bool) (host re : Str) : Guarded b (asaK2 host re) := by
  unfold asaK2
  refine guarded_getCmd _ _ _ _ fun _ => guarded_getCmd _ _ _ _ fun o => ?_
  first | dsimp only | skip
  split
  · exact .abort _ _
  · exact .setLog _ _ _ (guarded_getCmd _ _ _ _ fun _ => .tail _)

theorem guarded_asaK1 (b : Bool) (host re : Str) : Guarded b (asaK1 host re) := by
  unfold asaK1
  refine guarded_getCmd _ _ _ _ fun o2 => ?_
  first | dsimp only | skip
  split
  · exact guarded_asaK2 _ host re
  · exact guarded_sendCmd _ _ _ _ (guarded_sendCmd _ _ _ _ (guarded_sendCmd _ _ _ _ (guarded_asaK2 _ host re)))

theorem guarded_asaLoad (host : Str) : Guarded false (asaLoad host) := by
  unfold asaLoad
  refine guarded_ciscoLogin _ fun re => guarded_getCmd _ _ _ _ fun o1 => ?_
  first | dsimp only | skip
  split
  · exact guarded_asaK1 _ host re
  · exact guarded_sendCmd _ _ _ _ (guarded_asaK1 _ host re)

theorem guarded_iosLoad (host : Str) : Guarded false (iosLoad host) := by
  unfold iosLoad
  refine guarded_ciscoLogin _ fun re => ?_
  refine guarded_sendCmd _ _ _ _ (guarded_sendCmd _ _ _ _ (guarded_getCmd _ _ _ _ fun _ => ?_))
  refine guarded_issue_lit _ _ _ _ _ _ fun o _ => ?_
  first | dsimp only | skip
  split
  · exact .abort _ _
  · exact .setLog _ _ _ (guarded_getCmd _ _ _ _ fun _ => .tail _)

theorem guarded_linuxRest (b : Bool) (host banner : Str) : Guarded b (linuxRest host banner) := by
  unfold linuxRest
  refine guarded_issue_lit _ _ _ _ _ _ fun _ _ => ?_
  refine guarded_getCmd _ _ _ _ fun _ => guarded_getCmd _ _ _ _ fun _ => guarded_getCmd _ _ _ _ fun o => ?_
  first | dsimp only | skip
  split
  · exact .abort _ _
  · refine guarded_getCmd _ _ _ _ fun _ => .setLog _ _ _ ?_
    exact guarded_getCmd _ _ _ _ fun _ => guarded_getCmd _ _ _ _ fun _ => .tail _

theorem guarded_linuxAfterYes (host banner o : Str) (hok : okLinux o = true) :
    Guarded (isPwPrompt o) (linuxAfterYes host banner o) := by
  unfold linuxAfterYes
  split
  · rename_i hw
    have : isPwPrompt o = true := by
      simp only [okLinux, Bool.or_eq_true, Bool.not_eq_true'] at hok
      rcases hok with h | h
      · exact h
      · rw [hw] at h; cases h
    rw [this]
    refine guarded_issue_pass _ _ _ _ fun o2 _ => ?_
    first | dsimp only | skip
    split
    · exact .abort _ _
    · exact guarded_linuxRest _ host banner
  · exact guarded_linuxRest _ host banner

theorem guarded_linuxLoad (host banner : Str) : Guarded false (linuxLoad host banner) := by
  unfold linuxLoad
  refine .expect _ _ _ _ _ _ fun o hok => ?_
  first | dsimp only | skip
  split
  · exact guarded_issue_lit _ _ _ _ _ _ fun o' hok' => guarded_linuxAfterYes host banner o' hok'
  · exact guarded_linuxAfterYes host banner o hok

/-! ## a device that echoes, but not at its password prompts -/

theorem prefixCI_nl (p a b : Str) (hp : ∀ d ∈ p, lowerEq d '\n' = false) (hne : p ≠ []) :
    prefixCI p (a ++ '\n' :: b) = prefixCI p a := by
  induction p generalizing a with
  | nil => exact absurd rfl hne
  | cons d ds ih =>
    cases a with
    | nil => simp [prefixCI, hp d (by simp)]
    | cons x xs =>
      simp only [List.cons_append, prefixCI]
      cases ds with
      | nil => simp [prefixCI]
      | cons d' ds' => rw [ih xs (fun e he => hp e (by simp [he])) (by simp)]

/-- An echoed line ends with a newline: whether the chunk ends in `password:` is decided by the text
behind the echo. -/
theorem isPwPrompt_echo (x t : Str) : isPwPrompt (x ++ '\n' :: t) = isPwPrompt t := by
  unfold isPwPrompt
  rw [List.reverse_append, List.reverse_cons, List.append_assoc]
  exact prefixCI_nl _ _ _ (by decide) (by decide)

def headNoEcho : EDev → Prop
  | [] => True
  | (_, _, e) :: _ => e = false

theorem runE_erase (p1 p2 : Str) {b : Bool} {prog : Prog} (hg : Guarded b prog) :
    ∀ (last1 last2 : Str) (dev : EDev), (last1 = last2 ∨ headNoEcho dev) → (b = true → headNoEcho dev) →
      noEchoAtPasswordPrompt dev = true →
      (runE p1 prog last1 dev).map Op.erase = (runE p2 prog last2 dev).map Op.erase := by
  induction hg with
  | tail b => intros; rfl
  | abort b m => intros; rfl
  | sendLit b s k _ ih =>
    intro last1 last2 dev _ _ hc
    simp only [runE, Cmd.text, List.map_cons]
    rw [ih s s dev (Or.inl rfl) (fun h => by cases h) hc]
  | sendPass k _ ih =>
    intro last1 last2 dev _ hb hc
    simp only [runE, Cmd.text, List.map_cons, Op.erase]
    rw [ih p1 p2 dev (Or.inr (hb rfl)) (fun h => by cases h) hc]
  | setLog b l k _ ih =>
    intro last1 last2 dev h1 hb hc
    simp only [runE, List.map_cons]
    rw [ih last1 last2 dev h1 hb hc]
  | expect b w re pw ok k _ ih =>
    intro last1 last2 dev h1 _ hc
    cases dev with
    | nil => rfl
    | cons d r =>
      obtain ⟨pre, t, e⟩ := d
      have hout : (if e then pre ++ last1 ++ ['\n'] else []) ++ t = (if e then pre ++ last2 ++ ['\n'] else []) ++ t := by
        rcases h1 with h | h
        · rw [h]
        · simp only [headNoEcho] at h
          simp [h]
      simp only [runE, hout]
      by_cases hok : ok ((if e then pre ++ last2 ++ ['\n'] else []) ++ t) = true
      · simp only [hok, if_true, List.map_cons]
        have hr : noEchoAtPasswordPrompt r = true := by
          cases r with
          | nil => rfl
          | cons d' r' =>
            obtain ⟨pre', t', e'⟩ := d'
            simp only [noEchoAtPasswordPrompt, Bool.and_eq_true] at hc
            exact hc.2
        have hb' : isPwPrompt ((if e then pre ++ last2 ++ ['\n'] else []) ++ t) = true → headNoEcho r := by
          intro hp
          cases r with
          | nil => trivial
          | cons d' r' =>
            obtain ⟨pre', t', e'⟩ := d'
            simp only [noEchoAtPasswordPrompt, Bool.and_eq_true, Bool.or_eq_true, Bool.not_eq_true'] at hc
            rcases hc.1 with h | hn
            · exact h
            · have ht : isPwPrompt t = true := by
                cases e with
                | false => simpa using hp
                | true =>
                  have := isPwPrompt_echo (pre ++ last2) t
                  simp only [if_true, List.append_assoc, List.singleton_append] at hp this
                  rw [this] at hp; exact hp
              rw [ht] at hn; cases hn
        rw [ih _ hok [] [] r (Or.inl rfl) hb' hr]
      · simp only [hok]
        rfl

/-! ## the change phase -/

theorem Guarded.andThen {b : Bool} {p : Prog} (hp : Guarded b p) {q : Prog} (hq : Guarded false q) :
    Guarded b (p.andThen q) := by
  induction hp with
  | tail b => exact hq.weaken b
  | abort b m => exact .abort b m
  | sendLit b s k _ ih => exact .sendLit b s _ ih
  | sendPass k _ ih => exact .sendPass _ ih
  | expect b w re pw ok k _ ih => exact .expect b w re pw ok _ fun out h => ih out h
  | setLog b l k _ ih => exact .setLog b l _ ih

theorem guarded_scriptProg : ∀ script : List Str, Guarded false (scriptProg script)
  | [] => .tail false
  | c :: cs => guarded_issue_lit false c [] false anyOut _ fun _ _ => (guarded_scriptProg cs).weaken _

theorem guarded_changeProg (applies : Bool) (script : List Str) : Guarded false (changeProg applies script) := by
  unfold changeProg
  cases applies
  · exact guarded_scriptProg script
  · exact .setLog false _ _ (guarded_scriptProg script)

/-- The steps of the change phase are a function of the script and of what the device writes: the
password is no argument of it (whatever the device echoes, whatever was sent last). -/
theorem runE_scriptProg (p1 p2 : Str) : ∀ (script : List Str) (last1 last2 : Str) (dev : EDev),
    runE p1 (scriptProg script) last1 dev = runE p2 (scriptProg script) last2 dev
  | [], _, _, _ => rfl
  | c :: cs, _, _, dev => by
    cases dev with
    | nil => rfl
    | cons d r =>
      obtain ⟨pre, t, e⟩ := d
      simp only [scriptProg, issue, runE, Cmd.text, anyOut, if_true]
      rw [runE_scriptProg p1 p2 cs [] [] r]

theorem runE_changeProg (p1 p2 : Str) (applies : Bool) (script : List Str) (last1 last2 : Str) (dev : EDev) :
    runE p1 (changeProg applies script) last1 dev = runE p2 (changeProg applies script) last2 dev := by
  unfold changeProg
  cases applies
  · exact runE_scriptProg p1 p2 script last1 last2 dev
  · simp only [if_true, runE]
    rw [runE_scriptProg p1 p2 script last1 last2 dev]

end NA.Mask
