import NA.Model.MaskSsh
import NA.Proofs.C17Sinks
/-!
# Lemmas for C17: a dialogue program cannot reveal the password

The password is a symbolic command of the step language; `run` only ever puts it into `Op.send`.
By induction over programs (the continuation of an expect is quantified over all outputs) two runs
with different passwords against the same device produce traces that differ in `send` payloads only.
-/
namespace NA.Mask

theorem map_erase_cons (o : Op) (r : RunOut) : (r.cons o).ops.map Op.erase = o.erase :: r.ops.map Op.erase := rfl

theorem run_erase (p1 p2 errText : Str) : ∀ (prog : Prog) (left : Str) (segs : List Seg),
    (run p1 errText prog left segs).ops.map Op.erase = (run p2 errText prog left segs).ops.map Op.erase ∧
    (run p1 errText prog left segs).rest = (run p2 errText prog left segs).rest ∧
    (run p1 errText prog left segs).finished = (run p2 errText prog left segs).finished := by
  intro prog
  induction prog with
  | tail => intro left segs; exact ⟨rfl, rfl, rfl⟩
  | send c k ih =>
    intro left segs
    obtain ⟨h1, h2, h3⟩ := ih left segs
    refine ⟨?_, ?_, ?_⟩
    · simp only [run, map_erase_cons, h1]
      cases c <;> rfl
    · simpa [run, RunOut.cons] using h2
    · simpa [run, RunOut.cons] using h3
  | expect w re pw k ih =>
    intro left segs
    cases segs with
    | nil => exact ⟨rfl, rfl, rfl⟩
    | cons s r =>
      cases s with
      | full s =>
        obtain ⟨h1, h2, h3⟩ := ih (crlf2lf (if pw then cutPassword (left ++ s) else (left ++ s, [])).1)
          (if pw then cutPassword (left ++ s) else (left ++ s, [])).2 r
        refine ⟨?_, ?_, ?_⟩
        · simp only [run, map_erase_cons, h1]
        · simpa [run, RunOut.cons] using h2
        · simpa [run, RunOut.cons] using h3
      | part s => exact ⟨rfl, rfl, rfl⟩
  | setLog l k ih =>
    intro left segs
    obtain ⟨h1, h2, h3⟩ := ih left segs
    refine ⟨?_, ?_, ?_⟩
    · simp only [run, map_erase_cons, h1]
    · simpa [run, RunOut.cons] using h2
    · simpa [run, RunOut.cons] using h3
  | abort m => intro left segs; exact ⟨rfl, rfl, rfl⟩

theorem sessionOps_erase (prog : Prog) (p1 p2 errText : Str) (segs : List Seg) (applies : Bool)
    (tl : List (Str × Option Str)) (tailAbort : Str) :
    (sessionOps prog p1 errText segs applies tl tailAbort).map Op.erase =
      (sessionOps prog p2 errText segs applies tl tailAbort).map Op.erase := by
  obtain ⟨h1, _, h3⟩ := run_erase p1 p2 errText prog [] segs
  unfold sessionOps
  simp only [h3]
  split
  · simp only [List.map_append, h1]
  · exact h1

end NA.Mask
