import NA.Proofs.C03Whole
/-
C03 / C10, whole-vsys theorems, part 15: the device-side half of `PlainPair` is preserved by
every accepted request of a plan (`exec_devOk`), and every request of a plan for a `PlainPair`
is of that kind (`plan_cmdOk`).  Hence the state after any prefix of the plan is again a
legitimate start for the planner.  Core Lean only.
-/
namespace NA.PanOs

/-- The device-side half of `PlainPair`. -/
def DevOk (sh : Shared) (v : Vsys) : Prop :=
  v.groups = [] ∧ v.sgroups = [] ∧ (ruleNames v.rules).Nodup ∧
  (v.addrs.map (·.name)).Nodup ∧ (v.svcs.map (·.name)).Nodup ∧
  (∀ r ∈ v.rules, r.src.Nodup ∧ r.dst.Nodup) ∧
  (∀ x ∈ v.addrs.map (·.name), x ≠ "any" ∧ x ∉ sh) ∧
  (∀ x ∈ v.svcs.map (·.name), x ≠ "any" ∧ x ≠ "application-default" ∧ x ∉ sh)

/-- The target-side half of `PlainPair`. -/
def TgtOk (sh : Shared) (b : Vsys) : Prop :=
  b.groups = [] ∧ b.sgroups = [] ∧ (ruleNames b.rules).Nodup ∧
  (b.addrs.map (·.name)).Nodup ∧ (b.svcs.map (·.name)).Nodup ∧
  (∀ r ∈ b.rules, r.src.Nodup ∧ r.dst.Nodup) ∧
  (∀ r ∈ b.rules, (∀ x ∈ r.src ++ r.dst, x = "any" ∨ x ∈ sh ∨ x ∈ b.addrs.map (·.name)) ∧
    (∀ x ∈ r.srv, x = "any" ∨ x = "application-default" ∨ x ∈ sh ∨ x ∈ b.svcs.map (·.name)))

theorem plainPair_iff (sh : Shared) (a b : Vsys) : PlainPair sh a b ↔ DevOk sh a ∧ TgtOk sh b := by
  unfold PlainPair DevOk TgtOk
  constructor
  · rintro ⟨h1, h2, h3, h4, h5, h6, h7, h8, h9, h10, h11, h12, h13, h14, h15⟩
    exact ⟨⟨h1, h3, h5, h7, h9, h11, h14, h15⟩, ⟨h2, h4, h6, h8, h10, h12, h13⟩⟩
  · rintro ⟨⟨h1, h3, h5, h7, h9, h11, h14, h15⟩, ⟨h2, h4, h6, h8, h10, h12, h13⟩⟩
    exact ⟨h1, h2, h3, h4, h5, h6, h7, h8, h9, h10, h11, h12, h13, h14, h15⟩

/-- Requests a plan for a `PlainPair` consists of. -/
def CmdOk (sh : Shared) : Cmd → Prop
  | .setAddr n _ => n ≠ "any" ∧ n ∉ sh
  | .setSvc n _ => n ≠ "any" ∧ n ≠ "application-default" ∧ n ∉ sh
  | .editAddr .. | .editSvc .. | .delRule .. | .move .. | .delMem .. | .addMem .. | .delAddr .. | .delSvc .. => True
  | .editList _ f ms => f = .srv ∨ ms.Nodup
  | .setRule r => r.src.Nodup ∧ r.dst.Nodup
  | _ => False

theorem mergeMembers_nodup (old new : List String) (h : old.Nodup) : (mergeMembers old new).Nodup := by
  unfold mergeMembers
  induction new generalizing old with
  | nil => simpa using h
  | cons x xs ih =>
    simp only [List.foldl_cons]
    apply ih
    split
    · exact h
    · rename_i hc
      rw [List.nodup_append]
      refine ⟨h, by simp, ?_⟩
      intro a ha b hb e
      simp at hb
      subst hb; subst e
      exact hc (by simpa using ha)

theorem mem_modifyRule {rs : List Rule} {n : String} {g : Rule → Rule} {r' : Rule} (h : r' ∈ modifyRule rs n g) :
    ∃ r ∈ rs, r' = r ∨ r' = g r := by
  unfold modifyRule at h
  obtain ⟨r, hr, he⟩ := List.mem_map.mp h
  refine ⟨r, hr, ?_⟩
  split at he
  · exact Or.inr he.symm
  · exact Or.inl he.symm

theorem mem_insertBefore {d : String} {r x : Rule} {rs : List Rule} (h : x ∈ insertBefore d r rs) :
    x = r ∨ x ∈ rs := by
  induction rs with
  | nil => simp [insertBefore] at h; exact Or.inl h
  | cons y ys ih =>
    simp only [insertBefore] at h
    split at h
    · rcases List.mem_cons.mp h with h | h
      · exact Or.inl h
      · exact Or.inr h
    · rcases List.mem_cons.mp h with h | h
      · exact Or.inr (by simp [h])
      · rcases ih h with h | h
        · exact Or.inl h
        · exact Or.inr (List.mem_cons_of_mem _ h)

theorem Rule.set_lists (r : Rule) (f : Fld) (l : List String) (h : r.src.Nodup ∧ r.dst.Nodup)
    (hl : f = .srv ∨ l.Nodup) : (r.set f l).src.Nodup ∧ (r.set f l).dst.Nodup := by
  cases f with
  | src =>
    rcases hl with hl | hl
    · cases hl
    · exact ⟨hl, h.2⟩
  | dst =>
    rcases hl with hl | hl
    · cases hl
    · exact ⟨h.1, hl⟩
  | srv => exact h

theorem Rule.get_nodup (r : Rule) (f : Fld) (h : r.src.Nodup ∧ r.dst.Nodup) : f = .srv ∨ (r.get f).Nodup := by
  cases f with
  | src => exact Or.inr h.1
  | dst => exact Or.inr h.2
  | srv => exact Or.inl rfl

/-- **An accepted request of a plan keeps the device a legitimate start for the planner.** -/
theorem exec_devOk {sh : Shared} {v v' : Vsys} {c : Cmd} (hv : DevOk sh v) (hc : CmdOk sh c)
    (h : exec sh v c = .ok v') : DevOk sh v' := by
  obtain ⟨g1, g2, g3, g4, g5, g6, g7, g8⟩ := hv
  -- requests on rules: tables static, names by the order effect, lists case by case
  have onRules : c.onRules = true → (∀ r' ∈ v'.rules, r'.src.Nodup ∧ r'.dst.Nodup) → DevOk sh v' := by
    intro hr hl
    obtain ⟨s1, s2, s3, s4, _⟩ := exec_onRules_static h hr
    have hnames : (ruleNames v'.rules).Nodup := by
      have ho := exec_ord h
      cases hco : ordOf c with
      | none => rw [hco] at ho; simp only at ho; rw [ho]; exact g3
      | some o => rw [hco] at ho; simp only at ho; exact applyOrd_nodup ho g3
    exact ⟨by rw [s3]; exact g1, by rw [s4]; exact g2, hnames, by rw [s1]; exact g4, by rw [s2]; exact g5, hl,
      by rw [s1]; exact g7, by rw [s2]; exact g8⟩
  cases c with
  | setAddr n val =>
    simp only [exec] at h
    split at h
    · split at h
      · cases h; exact ⟨g1, g2, g3, g4, g5, g6, g7, g8⟩
      · cases h
    · rename_i hf
      cases h
      have hn : n ∉ v.addrs.map (·.name) := by
        rw [List.find?_eq_none] at hf
        intro hm
        obtain ⟨o, ho, he⟩ := List.mem_map.mp hm
        exact hf o ho (by simp [he])
      refine ⟨g1, g2, g3, ?_, g5, g6, ?_, g8⟩
      · simp only [List.map_append, List.map_cons, List.map_nil]
        rw [List.nodup_append]
        refine ⟨g4, by simp, ?_⟩
        intro a ha b hb e
        simp at hb
        subst hb; subst e
        exact hn ha
      · intro x hx
        simp only [List.map_append, List.map_cons, List.map_nil, List.mem_append, List.mem_cons,
          List.not_mem_nil, or_false] at hx
        rcases hx with hx | hx
        · exact g7 x hx
        · subst hx; exact hc
  | setSvc n val =>
    simp only [exec] at h
    split at h
    · split at h
      · cases h; exact ⟨g1, g2, g3, g4, g5, g6, g7, g8⟩
      · cases h
    · rename_i hf
      cases h
      have hn : n ∉ v.svcs.map (·.name) := by
        rw [List.find?_eq_none] at hf
        intro hm
        obtain ⟨o, ho, he⟩ := List.mem_map.mp hm
        exact hf o ho (by simp [he])
      refine ⟨g1, g2, g3, g4, ?_, g6, g7, ?_⟩
      · simp only [List.map_append, List.map_cons, List.map_nil]
        rw [List.nodup_append]
        refine ⟨g5, by simp, ?_⟩
        intro a ha b hb e
        simp at hb
        subst hb; subst e
        exact hn ha
      · intro x hx
        simp only [List.map_append, List.map_cons, List.map_nil, List.mem_append, List.mem_cons,
          List.not_mem_nil, or_false] at hx
        rcases hx with hx | hx
        · exact g8 x hx
        · subst hx; exact hc
  | editAddr n val =>
    simp only [exec] at h
    split at h
    · cases h
      exact ⟨g1, g2, g3, by simpa [setVal_names] using g4, g5, g6, by simpa [setVal_names] using g7, g8⟩
    · cases h
  | editSvc n val =>
    simp only [exec] at h
    split at h
    · cases h
      exact ⟨g1, g2, g3, g4, by simpa [setVal_names] using g5, g6, g7, by simpa [setVal_names] using g8⟩
    · cases h
  | delAddr n =>
    simp only [exec] at h
    split at h
    · cases h
    · split at h
      · cases h
      · cases h
        refine ⟨g1, g2, g3, (List.Sublist.map _ List.filter_sublist).nodup g4, g5, g6, ?_, g8⟩
        intro x hx
        obtain ⟨o, ho, he⟩ := List.mem_map.mp hx
        exact g7 x (List.mem_map.mpr ⟨o, (List.mem_filter.mp ho).1, he⟩)
  | delSvc n =>
    simp only [exec] at h
    split at h
    · cases h
    · split at h
      · cases h
      · cases h
        refine ⟨g1, g2, g3, g4, (List.Sublist.map _ List.filter_sublist).nodup g5, g6, g7, ?_⟩
        intro x hx
        obtain ⟨o, ho, he⟩ := List.mem_map.mp hx
        exact g8 x (List.mem_map.mpr ⟨o, (List.mem_filter.mp ho).1, he⟩)
  | delRule n =>
    apply onRules rfl
    simp only [exec] at h
    split at h
    · cases h
      intro r' hr'
      exact g6 r' (List.mem_filter.mp hr').1
    · cases h
  | setRule r =>
    apply onRules rfl
    simp only [exec] at h
    split at h
    · cases h
    · split at h
      · cases h
      · split at h
        · cases h
        · cases h
          intro r' hr'
          rcases List.mem_append.mp hr' with hr' | hr'
          · exact g6 r' hr'
          · simp at hr'; subst hr'; exact hc
  | move n d =>
    apply onRules rfl
    simp only [exec] at h
    split at h
    · cases h
    · rename_i r hf
      split at h
      · cases h
      · split at h
        · cases h
        · cases h
          intro r' hr'
          rcases mem_insertBefore hr' with hr' | hr'
          · subst hr'
            exact g6 _ (List.mem_of_find?_eq_some hf)
          · exact g6 r' (List.mem_filter.mp hr').1
  | delMem n f m =>
    apply onRules rfl
    simp only [exec] at h
    split at h
    · cases h
    · split at h
      · cases h
        intro r' hr'
        obtain ⟨r0, hr0, he⟩ := mem_modifyRule hr'
        rcases he with he | he
        · subst he; exact g6 _ hr0
        · subst he
          refine Rule.set_lists r0 f _ (g6 _ hr0) ?_
          rcases Rule.get_nodup r0 f (g6 _ hr0) with hh | hh
          · exact Or.inl hh
          · exact Or.inr ((List.filter_sublist).nodup hh)
      · cases h
  | addMem n f ms =>
    apply onRules rfl
    simp only [exec] at h
    split at h
    · cases h
    · split at h
      · cases h
      · cases h
        intro r' hr'
        obtain ⟨r0, hr0, he⟩ := mem_modifyRule hr'
        rcases he with he | he
        · subst he; exact g6 _ hr0
        · subst he
          refine Rule.set_lists r0 f _ (g6 _ hr0) ?_
          rcases Rule.get_nodup r0 f (g6 _ hr0) with hh | hh
          · exact Or.inl hh
          · exact Or.inr (mergeMembers_nodup _ _ hh)
  | editList n f ms =>
    apply onRules rfl
    simp only [exec] at h
    split at h
    · cases h
    · split at h
      · cases h
      · cases h
        intro r' hr'
        obtain ⟨r0, hr0, he⟩ := mem_modifyRule hr'
        rcases he with he | he
        · subst he; exact g6 _ hr0
        · subst he
          exact Rule.set_lists r0 f _ (g6 _ hr0) hc
  | setGrp _ _ | setSGrp _ _ | delGMem _ _ | delGrp _ | delSGrp _ | bad _ => exact absurd hc (by simp [CmdOk])

theorem runs_devOk {sh : Shared} : ∀ (cs : List Cmd) (v w : Vsys), DevOk sh v → (∀ c ∈ cs, CmdOk sh c) →
    Runs sh v cs w → DevOk sh w := by
  intro cs
  induction cs with
  | nil =>
    intro v w hv _ hr
    unfold Runs at hr
    simp only [execAll, Prod.mk.injEq] at hr
    rw [← hr.1]; exact hv
  | cons c cs ih =>
    intro v w hv hc hr
    cases hx : exec sh v c with
    | error e =>
      unfold Runs at hr
      rw [execAll_cons_err hx] at hr
      simp at hr
    | ok v' =>
      unfold Runs at hr
      rw [execAll_cons_ok hx] at hr
      simp only [Prod.mk.injEq, List.length_cons, Nat.add_right_cancel_iff] at hr
      apply ih v' w (exec_devOk hv (hc c (by simp)) hx) (fun c' h' => hc c' (List.mem_cons_of_mem _ h'))
      unfold Runs
      rw [show execAll sh v' cs = ((execAll sh v' cs).1, (execAll sh v' cs).2.1, (execAll sh v' cs).2.2) from rfl]
      rw [hr.1, hr.2.1, hr.2.2]

/-! ### Every request of a plan for a `PlainPair` is `CmdOk` -/

theorem listCmds_cmdOk (sh : Shared) (n : String) (f : Fld) (la lb : List String) (rs : List Range) :
    ∀ c ∈ listCmds (.rule n f) la lb rs, CmdOk sh c := by
  intro c hc
  unfold listCmds at hc
  rcases List.mem_append.mp hc with hc | hc
  · obtain ⟨x, _, rfl⟩ := List.mem_map.mp hc
    exact True.intro
  · split at hc
    · cases hc
    · simp only [List.mem_cons, List.not_mem_nil, or_false] at hc
      subst hc
      exact True.intro

theorem fieldCmds_cmdOk (sh : Shared) (diff : Differ) (n : String) (f : Fld) (la lb : List String)
    (hlb : f = .srv ∨ lb.Nodup) : ∀ c ∈ fieldCmds diff n f la lb, CmdOk sh c := by
  intro c hc
  unfold fieldCmds at hc
  split at hc
  · simp only [List.mem_cons, List.not_mem_nil, or_false] at hc
    subst hc
    exact hlb
  · exact listCmds_cmdOk sh n f la lb _ c hc

theorem eqCmds_cmdOk (sh : Shared) (diff : Differ) (ra rb : Rule) (h : rb.src.Nodup ∧ rb.dst.Nodup) :
    ∀ c ∈ eqCmds diff ra rb, CmdOk sh c := by
  intro c hc
  unfold eqCmds at hc
  rcases List.mem_append.mp hc with hc | hc
  · rcases List.mem_append.mp hc with hc | hc
    · exact fieldCmds_cmdOk sh diff _ _ _ _ (Or.inr h.1) c hc
    · exact fieldCmds_cmdOk sh diff _ _ _ _ (Or.inr h.2) c hc
  · split at hc
    · simp only [List.mem_cons, List.not_mem_nil, or_false] at hc
      subst hc
      exact Or.inl rfl
    · cases hc

theorem phase1Cmds_cmdOk (sh : Shared) (diff : Differ) (A B : List Rule)
    (hB : ∀ j, (B.getD j default).src.Nodup ∧ (B.getD j default).dst.Nodup) :
    ∀ (rs : List Range), ∀ c ∈ phase1Cmds diff A B rs, CmdOk sh c := by
  intro rs
  induction rs with
  | nil => intro c hc; cases hc
  | cons r rs ih =>
    intro c hc
    simp only [phase1Cmds] at hc
    rcases List.mem_append.mp hc with hc | hc
    · split at hc
      · obtain ⟨ru, _, rfl⟩ := List.mem_map.mp hc
        exact True.intro
      · cases hc
      · obtain ⟨k, _, hk⟩ := List.mem_flatMap.mp hc
        exact eqCmds_cmdOk sh diff _ _ (hB _) c hk
    · exact ih c hc

theorem phase2Cmds_cmdOk (sh : Shared) (B : List Rule)
    (hB : ∀ j, (B.getD j default).src.Nodup ∧ (B.getD j default).dst.Nodup) (gs : List InsGroup) :
    ∀ c ∈ phase2Cmds B gs, CmdOk sh c := by
  intro c hc
  unfold phase2Cmds at hc
  obtain ⟨g, _, hc⟩ := List.mem_flatMap.mp hc
  obtain ⟨ru, hru, hc⟩ := List.mem_flatMap.mp hc
  have hruB : ru ∈ B := by
    simp only [List.extract] at hru
    exact List.mem_of_mem_drop (List.mem_of_mem_take hru)
  obtain ⟨j, hj, hje⟩ := List.getElem_of_mem hruB
  have hnd : ru.src.Nodup ∧ ru.dst.Nodup := by
    have := hB j
    rw [List.getD_eq_getElem?_getD, List.getElem?_eq_getElem hj, Option.getD_some, hje] at this
    exact this
  rcases List.mem_cons.mp hc with hc | hc
  · subst hc; exact hnd
  · split at hc
    · simp only [List.mem_cons, List.not_mem_nil, or_false] at hc
      subst hc; exact True.intro
    · cases hc

theorem bRulesOf_nodup (a b : Vsys) (hbl : ∀ r ∈ b.rules, r.src.Nodup ∧ r.dst.Nodup) (j : Nat) :
    ((bRulesOf a b).getD j default).src.Nodup ∧ ((bRulesOf a b).getD j default).dst.Nodup := by
  by_cases hj : j < b.rules.length
  · obtain ⟨_, h1, h2, _⟩ := bRulesOf_getD a b j hj
    have hmem : b.rules.getD j default ∈ b.rules := List.mem_of_getElem? (getElem?_of_lt b.rules j hj)
    rw [h1, h2]
    exact ⟨sortStrings_nodup (hbl _ hmem).1, sortStrings_nodup (hbl _ hmem).2⟩
  · have : (bRulesOf a b).getD j default = default := by
      rw [List.getD_eq_getElem?_getD, List.getElem?_eq_none (by rw [bRulesOf_length]; omega)]
      rfl
    rw [this]
    exact ⟨List.nodup_nil, List.nodup_nil⟩

/-- **Every request of a plan for a `PlainPair` is one of those that keep the device a
legitimate start**, provided the target defines no object under a reserved or shared name. -/
theorem plan_cmdOk (sh : Shared) (diff : Differ) (hd : GoodDiffer diff) (a b : Vsys)
    (hP : PlainPair sh a b) (hN : TgtNames sh b) : ∀ c ∈ planVsys diff a b, CmdOk sh c := by
  obtain ⟨hag, hbg, hasg, hbsg, han, hbn, haan, hban, hasn, hbsn, hal, hbl, hbr, hres, hsres⟩ := hP
  obtain ⟨q1, q2, q3, q4, hout⟩ := planState_plain diff hd a b hag hbg hasg hbsg
  have hflags := planState_planFlags diff a b hbg hbsg
  have hA := addrSummary_of_planFlags hflags haan
  have hS := svcSummary_of_planFlags hflags hasn
  intro c hc
  unfold planVsys at hc
  simp only at hc
  rw [transferCmds_plain _ q2 q4, removeCmds_plain _ q1 q3, hout] at hc
  rcases List.mem_append.mp hc with hc | hc
  · rcases List.mem_append.mp hc with hc | hc
    · rcases List.mem_append.mp hc with hc | hc
      · unfold addrTransfer at hc
        obtain ⟨o, ho, he⟩ := List.mem_filterMap.mp hc
        split at he
        · cases he; exact True.intro
        · split at he
          · cases he
            apply hN.1
            rw [← hA.bdefs]
            exact List.mem_map.mpr ⟨o.o, List.mem_map_of_mem ho, rfl⟩
          · cases he
      · unfold svcTransfer at hc
        obtain ⟨o, ho, he⟩ := List.mem_filterMap.mp hc
        split at he
        · cases he; exact True.intro
        · split at he
          · cases he
            apply hN.2
            rw [← hS.bdefs]
            exact List.mem_map.mpr ⟨o.o, List.mem_map_of_mem ho, rfl⟩
          · cases he
    · unfold plainRuleCmds at hc
      rcases List.mem_append.mp hc with hc | hc
      · exact phase1Cmds_cmdOk sh diff _ _ (bRulesOf_nodup a b hbl) _ c hc
      · exact phase2Cmds_cmdOk sh _ (bRulesOf_nodup a b hbl) _ c hc
  · rcases List.mem_append.mp hc with hc | hc
    · obtain ⟨o, _, rfl⟩ := List.mem_map.mp hc
      exact True.intro
    · obtain ⟨o, _, rfl⟩ := List.mem_map.mp hc
      exact True.intro

theorem Runs.of_append {sh : Shared} : ∀ (cs ds : List Cmd) (v u : Vsys), Runs sh v (cs ++ ds) u →
    ∃ w, Runs sh v cs w ∧ Runs sh w ds u := by
  intro cs
  induction cs with
  | nil => intro ds v u h; exact ⟨v, Runs.nil sh v, h⟩
  | cons c cs ih =>
    intro ds v u h
    cases hx : exec sh v c with
    | error e =>
      unfold Runs at h
      simp only [List.cons_append] at h
      rw [execAll_cons_err hx] at h
      simp at h
    | ok v' =>
      have h' : Runs sh v' (cs ++ ds) u := by
        unfold Runs at h ⊢
        simp only [List.cons_append] at h
        rw [execAll_cons_ok hx] at h
        simp only [Prod.mk.injEq, List.length_cons, Nat.add_right_cancel_iff] at h
        rw [show execAll sh v' (cs ++ ds) = ((execAll sh v' (cs ++ ds)).1, (execAll sh v' (cs ++ ds)).2.1,
          (execAll sh v' (cs ++ ds)).2.2) from rfl]
        rw [h.1, h.2.1, h.2.2]
      obtain ⟨w, h1, h2⟩ := ih ds v' u h'
      exact ⟨w, Runs.cons hx h1, h2⟩

/-- The device after any executed prefix of the plan. -/
theorem prefix_devOk (sh : Shared) (diff : Differ) (hd : GoodDiffer diff) (a b : Vsys)
    (hP : PlainPair sh a b) (hN : TgtNames sh b) (k : Nat) :
    ∃ ak, Runs sh a ((planVsys diff a b).take k) ak ∧ PlainPair sh ak b := by
  obtain ⟨w, hw, _⟩ := plain_converges sh diff hd a b hP
  have hsplit : planVsys diff a b = (planVsys diff a b).take k ++ (planVsys diff a b).drop k :=
    (List.take_append_drop k _).symm
  rw [hsplit] at hw
  obtain ⟨ak, h1, _⟩ := Runs.of_append _ _ _ _ hw
  refine ⟨ak, h1, ?_⟩
  rw [plainPair_iff] at hP ⊢
  exact ⟨runs_devOk _ a ak hP.1 (fun c hc => plan_cmdOk sh diff hd a b ((plainPair_iff sh a b).mpr hP) hN c
    (List.mem_of_mem_take hc)) h1, hP.2⟩

/-- **Resume, for every pair of the group-free fragment**: whatever prefix of the plan was
executed, planning again from the state reached and executing that plan is accepted by the
strict device throughout and ends in a rulebase equivalent to the target. -/
theorem plain_resume (sh : Shared) (diff : Differ) (hd : GoodDiffer diff) (a b : Vsys)
    (hP : PlainPair sh a b) (hN : TgtNames sh b) (k : Nat) :
    ∃ ak w, Runs sh a ((planVsys diff a b).take k) ak ∧ Runs sh ak (planVsys diff ak b) w ∧
      equiv w b = true := by
  obtain ⟨ak, h1, hPk⟩ := prefix_devOk sh diff hd a b hP hN k
  obtain ⟨w, hw, he, _⟩ := plain_converges sh diff hd ak b hPk
  exact ⟨ak, w, h1, hw, he⟩

end NA.PanOs
