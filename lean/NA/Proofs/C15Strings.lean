import NA.Model.IosSession
/-!
# C15 helper lemmas, part 3: the matchers on structured strings
-/
namespace NA.Ios

/-! ### prefixes -/

theorem isPrefixOf_append_of_not_mem (p a w : Str) (c : Char) (hc : c ∉ p) :
    p.isPrefixOf (a ++ c :: w) = p.isPrefixOf a := by
  induction p generalizing a with
  | nil => simp
  | cons x p ih =>
    have hx : x ≠ c := fun h => hc (by simp [h])
    have hp : c ∉ p := fun h => hc (by simp [h])
    cases a with
    | nil => simp [List.isPrefixOf, hx]
    | cons y a => simp [List.isPrefixOf, ih a hp]

theorem isPrefixOf_self_append (p s : Str) : p.isPrefixOf (p ++ s) = true := by
  induction p with
  | nil => simp
  | cons x p ih => simp [ih]

theorem drop_length_append (p s : Str) : (p ++ s).drop p.length = s := by simp

/-! ### the prompt -/

def routerName : Str := lit "router"

theorem promptHead_eq : promptHead = '\n' :: routerName := by decide

/-- no line feed is followed by the device name -/
def noPH : Str → Bool
  | [] => true
  | c :: t => (c != '\n' || !routerName.isPrefixOf t) && noPH t

theorem noPH_append_nl (a b : Str) :
    noPH (a ++ '\n' :: b) = (noPH a && !routerName.isPrefixOf b && noPH b) := by
  induction a with
  | nil => simp [noPH]
  | cons c a ih =>
    have : routerName.isPrefixOf (a ++ '\n' :: b) = routerName.isPrefixOf a :=
      isPrefixOf_append_of_not_mem _ _ _ _ (by decide)
    simp only [List.cons_append, noPH, ih, this]
    cases (c != '\n' || !routerName.isPrefixOf a) <;> simp [Bool.and_assoc]

theorem noPH_of_no_nl (p : Str) (h : '\n' ∉ p) : noPH p = true := by
  induction p with
  | nil => rfl
  | cons c p ih =>
    have hc : c ≠ '\n' := fun e => h (by simp [e])
    simp [noPH, hc, ih (fun e => h (by simp [e]))]

/-- the first run of non-space characters contains no `#` -/
def runNoHash : Str → Bool
  | [] => true
  | c :: t => isReSpace c || (c != '#' && runNoHash t)

theorem lastHash_of_runNoHash (v : Str) (i : Nat) (acc : Option Nat) (h : runNoHash v = true) :
    lastHash v i acc = acc := by
  induction v generalizing i acc with
  | nil => rfl
  | cons c v ih =>
    unfold lastHash
    unfold runNoHash at h
    cases hs : isReSpace c with
    | true => simp
    | false =>
      simp [hs] at h
      have hc : (c == '#') = false := by simpa using h.1
      simp [hc, ih _ _ h.2]

theorem promptFind_at (u v : Str) (hu : noPH u = true) (hv : runNoHash v = true) :
    promptFind (u ++ promptHead ++ '#' :: v) = some (u.length, u.length + 8) := by
  induction u with
  | nil =>
    have h1 : promptHead.isPrefixOf (promptHead ++ '#' :: v) = true := isPrefixOf_self_append _ _
    have hl : promptHead.length = 7 := by decide
    have h2 : (promptHead ++ '#' :: v).drop 7 = '#' :: v := by
      have := drop_length_append promptHead ('#' :: v); rwa [hl] at this
    have h3 : lastHash ('#' :: v) 0 none = some 1 := by
      unfold lastHash
      simp [show isReSpace '#' = false by decide, lastHash_of_runNoHash v 1 (some 1) hv]
    show promptFind ([] ++ promptHead ++ '#' :: v) = _
    simp only [List.nil_append]
    have hne : promptHead ++ '#' :: v = '\n' :: (routerName ++ '#' :: v) := by
      rw [promptHead_eq]; rfl
    rw [hne]
    unfold promptFind
    rw [← hne, h1]
    simp only [if_true, hl, h2, h3, Option.map_some]
    rfl
  | cons c u ih =>
    unfold noPH at hu
    simp only [Bool.and_eq_true, Bool.or_eq_true, bne_iff_ne, ne_eq, Bool.not_eq_true'] at hu
    have hhere : promptHead.isPrefixOf (c :: (u ++ promptHead ++ '#' :: v)) = false := by
      rw [promptHead_eq]
      simp only [List.isPrefixOf]
      cases hc : (('\n' : Char) == c) with
      | false => simp
      | true =>
        have hc' : c = '\n' := by
          have := beq_iff_eq.1 hc; exact this.symm
        have hr : routerName.isPrefixOf u = false := by
          rcases hu.1 with h | h
          · exact absurd hc' h
          · exact h
        have : routerName.isPrefixOf (u ++ '\n' :: (routerName ++ '#' :: v)) = routerName.isPrefixOf u :=
          isPrefixOf_append_of_not_mem _ _ _ _ (by decide)
        simp only [List.append_assoc, List.cons_append] at this ⊢
        simp [this, hr]
    show promptFind (c :: (u ++ promptHead ++ '#' :: v)) = _
    unfold promptFind
    simp only [hhere, Bool.false_eq_true, if_false]
    rw [ih hu.2]
    simp [Nat.add_comm, Nat.add_left_comm, Nat.add_assoc]

/-! ### the banner -/

theorem mem_take_append {x : Char} (n : Nat) (a b : Str) (h : x ∈ (a ++ b).take n) :
    x ∈ a ∨ x ∈ b.take n := by
  induction a generalizing n with
  | nil => exact .inr (by simpa using h)
  | cons c a ih =>
    cases n with
    | zero => simp at h
    | succ n =>
      simp only [List.cons_append, List.take_succ_cons, List.mem_cons] at h
      rcases h with h | h
      · exact .inl (by simp [h])
      · rcases ih n h with h | h
        · exact .inl (by simp [h])
        · exact .inr (List.mem_of_mem_take (List.take_subset_take_left _ (Nat.le_succ n) h) |> fun _ => by
            exact List.take_subset_take_left b (Nat.le_succ n) h)


theorem takeWhile_append_stop (p : Char → Bool) (m r : Str) (c : Char)
    (hm : ∀ x ∈ m, p x = true) (hc : p c = false) : (m ++ c :: r).takeWhile p = m := by
  induction m with
  | nil => simp [hc]
  | cons x m ih =>
    simp [hm x (by simp), ih (fun y hy => hm y (by simp [hy]))]

theorem dropWhile_append_stop (p : Char → Bool) (m r : Str) (c : Char)
    (hm : ∀ x ∈ m, p x = true) (hc : p c = false) : (m ++ c :: r).dropWhile p = c :: r := by
  induction m with
  | nil => simp [hc]
  | cons x m ih =>
    simp [hm x (by simp), ih (fun y hy => hm y (by simp [hy]))]

theorem bannerText_eq (msg : Str) : bannerText msg = bannerHead ++ msg ++ bannerTail := rfl

theorem bannerTail_eq : bannerTail = '\n' :: lit "***\n" := by decide

/-- the banner at the beginning of a string is recognised -/
theorem bannerAt_banner (msg post : Str) (hne : msg ≠ []) (hnl : '\n' ∉ msg) :
    bannerAt (bannerText msg ++ post) = some (msg, post) := by
  have hm : ∀ x ∈ msg, (x != '\n') = true := by
    intro x hx; simp; intro e; exact hnl (e ▸ hx)
  have e1 : bannerText msg ++ post = bannerHead ++ (msg ++ '\n' :: (lit "***\n" ++ post)) := by
    rw [bannerText_eq, bannerTail_eq]; simp
  have e2 : lit "***\n" ++ post = (lit "***\n" ++ post) := rfl
  unfold bannerAt
  rw [e1, isPrefixOf_self_append, if_pos rfl]
  simp only [drop_length_append]
  rw [takeWhile_append_stop _ _ _ _ hm (by decide), dropWhile_append_stop _ _ _ _ hm (by decide)]
  have h3 : bannerTail.isPrefixOf ('\n' :: (lit "***\n" ++ post)) = true := by
    have : '\n' :: (lit "***\n" ++ post) = bannerTail ++ post := by rw [bannerTail_eq]; rfl
    rw [this]; exact isPrefixOf_self_append _ _
  have h4 : ('\n' :: (lit "***\n" ++ post)).drop bannerTail.length = post := by
    have : '\n' :: (lit "***\n" ++ post) = bannerTail ++ post := by rw [bannerTail_eq]; rfl
    rw [this]; exact drop_length_append _ _
  have h5 : msg.isEmpty = false := by cases msg with | nil => exact absurd rfl hne | cons _ _ => rfl
  simp [h3, h4, h5]

theorem bannerHead_list : bannerHead = ['\n', '\n', '\n', '\x07', '*', '*', '*', '\n', '*', '*', '*'] := by
  decide

/-- no match of the banner starts inside a bell-free text that precedes a banner -/
theorem bannerAt_none_before (c : Char) (p msg post : Str) (hb : '\x07' ∉ c :: p) :
    bannerAt (c :: p ++ bannerText msg ++ post) = none := by
  have hpre : bannerHead.isPrefixOf (c :: p ++ bannerText msg ++ post) = false := by
    rw [bannerHead_list, bannerText_eq, bannerHead_list]
    have hc : c ≠ '\x07' := fun e => hb (by simp [e])
    cases p with
    | nil => simp [List.isPrefixOf]
    | cons x p =>
      cases p with
      | nil => simp [List.isPrefixOf]
      | cons y p =>
        cases p with
        | nil => simp [List.isPrefixOf]
        | cons z p =>
          have hz : z ≠ '\x07' := fun e => hb (by simp [e])
          have : (('\x07' : Char) == z) = false := by
            simp; exact fun e => hz e.symm
          simp [List.isPrefixOf, this]
  unfold bannerAt
  rw [hpre]; rfl

/-- **leftmost match of `bannerRe`** in `pre ++ banner ++ post` when `pre` has no BEL -/
theorem bannerFind_banner (pre msg post : Str) (hb : '\x07' ∉ pre) (hne : msg ≠ []) (hnl : '\n' ∉ msg) :
    bannerFind (pre ++ bannerText msg ++ post) = some (pre, msg, post) := by
  induction pre with
  | nil =>
    have : bannerText msg ++ post ≠ [] := by rw [bannerText_eq, bannerHead_list]; simp
    cases h : bannerText msg ++ post with
    | nil => exact absurd h this
    | cons c s =>
      show bannerFind ([] ++ bannerText msg ++ post) = _
      simp only [List.nil_append]
      rw [h]
      unfold bannerFind
      rw [← h, bannerAt_banner msg post hne hnl]
  | cons c p ih =>
    show bannerFind (c :: (p ++ bannerText msg ++ post)) = _
    unfold bannerFind
    have := bannerAt_none_before c p msg post hb
    simp only [List.cons_append] at this
    rw [this, ih (fun e => hb (by simp [e]))]
    rfl

/-- no banner in a bell-free text -/
theorem bannerFind_none (s : Str) (hb : '\x07' ∉ s) : bannerFind s = none := by
  induction s with
  | nil => rfl
  | cons c s ih =>
    unfold bannerFind
    have hat : bannerAt (c :: s) = none := by
      unfold bannerAt
      have : bannerHead.isPrefixOf (c :: s) = false := by
        rw [bannerHead_list]
        have hc : c ≠ '\x07' := fun e => hb (by simp [e])
        cases s with
        | nil => simp [List.isPrefixOf]
        | cons x s =>
          cases s with
          | nil => simp [List.isPrefixOf]
          | cons y s =>
            cases s with
            | nil => simp [List.isPrefixOf]
            | cons z s =>
              have hz : z ≠ '\x07' := fun e => hb (by simp [e])
              have : (('\x07' : Char) == z) = false := by simp; exact fun e => hz e.symm
              simp [List.isPrefixOf, this]
      rw [this]; rfl
    rw [hat, ih (fun e => hb (by simp [e]))]; rfl

/-! ### lines -/

theorem splitOnNL_ne_nil (s : Str) : splitOnNL s ≠ [] := by
  induction s with
  | nil => simp [splitOnNL]
  | cons c s ih =>
    unfold splitOnNL
    cases h : splitOnNL s with
    | nil => simp
    | cons l ls => by_cases hc : (c == '\n') = true <;> simp [hc]

theorem splitOnNL_cons (c : Char) (s : Str) :
    splitOnNL (c :: s) =
      (match splitOnNL s with
       | [] => [[c]]
       | l :: ls => if c == '\n' then [] :: l :: ls else (c :: l) :: ls) := by
  rw [splitOnNL]; cases splitOnNL s <;> rfl

theorem splitOnNL_append_nl (a b : Str) : splitOnNL (a ++ '\n' :: b) = splitOnNL a ++ splitOnNL b := by
  induction a with
  | nil =>
    show splitOnNL ('\n' :: b) = [[]] ++ splitOnNL b
    rw [splitOnNL_cons]
    cases h : splitOnNL b with
    | nil => exact absurd h (splitOnNL_ne_nil b)
    | cons l ls => simp
  | cons c a ih =>
    show splitOnNL (c :: (a ++ '\n' :: b)) = splitOnNL (c :: a) ++ splitOnNL b
    rw [splitOnNL_cons, splitOnNL_cons c a, ih]
    cases h : splitOnNL a with
    | nil => exact absurd h (splitOnNL_ne_nil a)
    | cons l ls => by_cases hc : (c == '\n') = true <;> simp [hc]

theorem splitOnNL_no_nl (s : Str) (h : '\n' ∉ s) : splitOnNL s = [s] := by
  induction s with
  | nil => rfl
  | cons c s ih =>
    have hc : (c == '\n') = false := by simp; exact fun e => h (by simp [e])
    rw [splitOnNL_cons, ih (fun e => h (by simp [e]))]
    simp [hc]

theorem validOutput_cons (l : Str) (ls : List Str) :
    validOutput (l :: ls) =
      (match lineKind l with
       | .bad => ([], false)
       | .warning => ((l :: (validOutput ls).1), (validOutput ls).2)
       | _ => validOutput ls) := by
  rw [validOutput]; cases lineKind l <;> rfl

/-- `isValidOutput` ignores empty lines -/
theorem validOutput_filter (ls : List Str) :
    validOutput ls = validOutput (ls.filter (fun l => !l.isEmpty)) := by
  induction ls with
  | nil => rfl
  | cons l ls ih =>
    cases hl : l.isEmpty with
    | true =>
      have : lineKind l = .empty := by simp [lineKind, hl]
      simp only [List.filter, hl, Bool.not_true]
      rw [validOutput_cons, this]; exact ih
    | false =>
      simp only [List.filter, hl, Bool.not_false]
      rw [validOutput_cons, validOutput_cons, ih]

/-- the non-empty lines of a text -/
def neLines (s : Str) : List Str := (splitOnNL s).filter (fun l => !l.isEmpty)

theorem neLines_append_nl (a b : Str) : neLines (a ++ '\n' :: b) = neLines a ++ neLines b := by
  simp [neLines, splitOnNL_append_nl]

theorem neLines_nls (n : Nat) : neLines (nls n) = [] := by
  induction n with
  | zero => rfl
  | succ n ih =>
    show neLines ([] ++ '\n' :: nls n) = []
    rw [neLines_append_nl, ih]; rfl

theorem validOutput_neLines (s : Str) : validOutput (splitOnNL s) = validOutput (neLines s) :=
  validOutput_filter _

end NA.Ios
