import NA.Proofs.C03Phase1
/-
C03, whole-vsys theorems, part 10: executing the second loop of `diffRules` (`phase2Cmds`) on
the strict device: every inserted rule is accepted (`set`, then `move` before its anchor) and is
afterwards found under its new name with the target's content.  Core Lean only.
-/
namespace NA.PanOs

/-- One insert group: `set` each rule, `move` it before the anchor (if any). -/
theorem runs_insertGroup (sh : Shared) (anchor : Option String) :
    ∀ (l : List Rule) (v : Vsys), (ruleNames l).Nodup →
      (∀ ru ∈ l, findRule v.rules ru.name = none) →
      (∀ ru ∈ l, (∀ m ∈ ru.src, refOk sh v .src m = true) ∧ (∀ m ∈ ru.dst, refOk sh v .dst m = true) ∧
        (∀ m ∈ ru.srv, refOk sh v .srv m = true)) →
      (∀ d, anchor = some d → (findRule v.rules d).isSome ∧ ∀ ru ∈ l, ru.name ≠ d) →
      ∃ w, Runs sh v (l.flatMap (fun ru =>
          Cmd.setRule ru :: (match anchor with | some d => [Cmd.move ru.name d] | none => []))) w ∧
        (∀ ru ∈ l, findRule w.rules ru.name = some ru) ∧
        (∀ m, m ∉ ruleNames l → findRule w.rules m = findRule v.rules m) ∧
        w.addrs = v.addrs ∧ w.svcs = v.svcs ∧ w.groups = v.groups ∧ w.sgroups = v.sgroups ∧ w.name = v.name := by
  intro l
  induction l with
  | nil => intro v _ _ _ _; exact ⟨v, Runs.nil sh v, by simp, by simp, rfl, rfl, rfl, rfl, rfl⟩
  | cons ru l ih =>
    intro v hnd hnone href hanc
    simp only [ruleNames, List.map_cons, List.nodup_cons] at hnd
    obtain ⟨r1, r2, r3⟩ := href ru (by simp)
    obtain ⟨v1, hv1⟩ := exec_setRule_ok sh v ru (hnone ru (by simp)) r1 r2 r3
    obtain ⟨s1, s2, s3, s4, s5⟩ := exec_onRules_static hv1 rfl
    have hl1 : ∀ m, findRule v1.rules m = if ru.name == m then some ru else findRule v.rules m := by
      intro m; rw [exec_findRule hv1 m]; rfl
    -- the optional move
    have hmove : ∃ v2, Runs sh v1 (match anchor with | some d => [Cmd.move ru.name d] | none => []) v2 ∧
        (∀ m, findRule v2.rules m = findRule v1.rules m) ∧
        v2.addrs = v1.addrs ∧ v2.svcs = v1.svcs ∧ v2.groups = v1.groups ∧ v2.sgroups = v1.sgroups ∧ v2.name = v1.name := by
      cases ha : anchor with
      | none => exact ⟨v1, Runs.nil sh v1, fun _ => rfl, rfl, rfl, rfl, rfl, rfl⟩
      | some d =>
        obtain ⟨hd1, hd2⟩ := hanc d ha
        have hne : ru.name ≠ d := hd2 ru (by simp)
        obtain ⟨v2, hv2⟩ := exec_move_ok sh v1 ru.name d (by rw [hl1]; simp)
          (by
            rw [hl1]
            have : (ru.name == d) = false := by simpa using hne
            simp only [this, Bool.false_eq_true, if_false]
            exact hd1) hne
        obtain ⟨t1, t2, t3, t4, t5⟩ := exec_onRules_static hv2 rfl
        exact ⟨v2, Runs.single hv2, fun m => by rw [exec_findRule hv2 m]; rfl, t1, t2, t3, t4, t5⟩
    obtain ⟨v2, hv2, hl2, t1, t2, t3, t4, t5⟩ := hmove
    have hne' : ∀ ru' ∈ l, ru'.name ≠ ru.name := fun ru' h e => hnd.1 (e ▸ List.mem_map_of_mem h)
    obtain ⟨w, hw, p1, p2, u1, u2, u3, u4, u5⟩ := ih v2 hnd.2
      (by
        intro ru' hru'
        rw [hl2, hl1]
        have : (ru.name == ru'.name) = false := by simpa using (hne' ru' hru').symm
        simp only [this, Bool.false_eq_true, if_false]
        exact hnone ru' (List.mem_cons_of_mem _ hru'))
      (by
        intro ru' hru'
        obtain ⟨a, b, c⟩ := href ru' (List.mem_cons_of_mem _ hru')
        have e1 := t1.trans s1; have e2 := t2.trans s2; have e3 := t3.trans s3; have e4 := t4.trans s4
        exact ⟨fun m hm => by rw [refOk_congr sh e1 e2 e3 e4]; exact a m hm,
          fun m hm => by rw [refOk_congr sh e1 e2 e3 e4]; exact b m hm,
          fun m hm => by rw [refOk_congr sh e1 e2 e3 e4]; exact c m hm⟩)
      (by
        intro d hd
        obtain ⟨hd1, hd2⟩ := hanc d hd
        refine ⟨?_, fun ru' h => hd2 ru' (List.mem_cons_of_mem _ h)⟩
        rw [hl2, hl1]
        have : (ru.name == d) = false := by simpa using hd2 ru (by simp)
        simp only [this, Bool.false_eq_true, if_false]
        exact hd1)
    refine ⟨w, ?_, ?_, ?_, u1.trans (t1.trans s1), u2.trans (t2.trans s2), u3.trans (t3.trans s3),
      u4.trans (t4.trans s4), u5.trans (t5.trans s5)⟩
    · simp only [List.flatMap_cons]
      exact (Runs.cons hv1 hv2).append hw
    · intro ru' hru'
      rcases List.mem_cons.mp hru' with rfl | hru'
      · rw [p2 _ (fun h => hnd.1 h), hl2, hl1]; simp
      · exact p1 ru' hru'
    · intro m hm
      simp only [ruleNames, List.map_cons, List.mem_cons, not_or] at hm
      rw [p2 m hm.2, hl2, hl1]
      have : (ru.name == m) = false := by simpa using (Ne.symm hm.1)
      simp [this]

/-- Target indices of the insert ranges. -/
def insIdxs : List Range → List Nat
  | [] => []
  | r :: rs =>
    (match r.kind with
     | .ins => (List.range (r.highB - r.lowB)).map (fun k => r.lowB + k)
     | _ => []) ++ insIdxs rs

/-- **Second loop of `diffRules` on the device.** -/
theorem runs_phase2 (sh : Shared) (A B : List Rule) (hndB : (ruleNames B).Nodup)
    (hdisj : ∀ i j, i < A.length → j < B.length → (A.getD i default).name ≠ (B.getD j default).name)
    (eq : Nat → Nat → Bool) :
    ∀ (rs : List Range) (x y d : Nat) (v : Vsys), validFrom eq A.length B.length x y rs = true →
      normalised rs = true → d ≤ x →
      (∀ rb ∈ B, (∀ m ∈ rb.src, refOk sh v .src m = true) ∧ (∀ m ∈ rb.dst, refOk sh v .dst m = true) ∧
        (∀ m ∈ rb.srv, refOk sh v .srv m = true)) →
      (∀ j, y ≤ j → j < B.length → findRule v.rules (B.getD j default).name = none) →
      (∀ p ∈ eqPairs rs, (findRule v.rules (A.getD p.1 default).name).isSome) →
      ∃ w, Runs sh v (phase2Cmds B (insGroupsFrom (ruleNames A) d rs)) w ∧
        (∀ j ∈ insIdxs rs, findRule w.rules (B.getD j default).name = some (B.getD j default)) ∧
        (∀ m, (∀ j, y ≤ j → j < B.length → m ≠ (B.getD j default).name) →
          findRule w.rules m = findRule v.rules m) ∧
        (∀ j ∈ insIdxs rs, y ≤ j ∧ j < B.length) ∧
        w.addrs = v.addrs ∧ w.svcs = v.svcs ∧ w.groups = v.groups ∧ w.sgroups = v.sgroups ∧ w.name = v.name := by
  intro rs
  induction rs with
  | nil =>
    intro x y d v _ _ _ _ _ _
    exact ⟨v, Runs.nil sh v, by simp [insIdxs], fun _ _ => rfl, by simp [insIdxs], rfl, rfl, rfl, rfl, rfl⟩
  | cons r rs ih =>
    intro x y d v hv hn hd href hnone hsurv
    obtain ⟨h1, h2, h3, h4, h5, h6, h7⟩ := validFrom_cons hv
    subst h1; subst h2
    have hn' := normalised_tail hn
    cases hk : r.kind with
    | del =>
      have hlb := kind_del_lowB hk
      obtain ⟨w, hw, p1, p2, p3, s⟩ := ih r.highA r.highB r.highA v h7 hn' (Nat.le_refl _) href
        (fun j hj hjB => hnone j (by omega) hjB)
        (fun p hp => hsurv p (by simp only [eqPairs, hk, List.nil_append]; exact hp))
      refine ⟨w, by simp only [insGroupsFrom, hk]; exact hw, by simpa [insIdxs, hk] using p1,
        fun m hm => p2 m (fun j hj hjB => hm j (by omega) hjB), ?_, s⟩
      intro j hj
      simp only [insIdxs, hk, List.nil_append] at hj
      obtain ⟨a, b⟩ := p3 j hj
      exact ⟨by omega, b⟩
    | eq =>
      obtain ⟨hlen, _⟩ := kind_eq_len hv hk
      obtain ⟨w, hw, p1, p2, p3, s⟩ := ih r.highA r.highB d v h7 hn' (by omega) href
        (fun j hj hjB => hnone j (by omega) hjB)
        (fun p hp => hsurv p (by simp only [eqPairs, hk, List.mem_append]; exact Or.inr hp))
      refine ⟨w, by simp only [insGroupsFrom, hk]; exact hw, by simpa [insIdxs, hk] using p1,
        fun m hm => p2 m (fun j hj hjB => hm j (by omega) hjB), ?_, s⟩
      intro j hj
      simp only [insIdxs, hk, List.nil_append] at hj
      obtain ⟨a, b⟩ := p3 j hj
      exact ⟨by omega, b⟩
    | ins =>
      obtain ⟨hi, _⟩ := kind_ins_lowA hk
      have hmax : max r.lowA d = r.lowA := Nat.max_eq_left (by omega)
      -- the group's rules
      have hmem : ∀ ru, ru ∈ B.extract r.lowB r.highB ↔ ∃ j, r.lowB ≤ j ∧ j < r.highB ∧ ru = B.getD j default := by
        intro ru
        rw [mem_extract_iff]
        constructor
        · rintro ⟨j, a, b, c⟩; exact ⟨j, a, b, (getD_of_getElem? c).symm⟩
        · rintro ⟨j, a, b, rfl⟩; exact ⟨j, a, b, getElem?_of_lt B j (by omega)⟩
      -- the anchor
      have hanchor : ∀ dd, (ruleNames A)[r.lowA]? = some dd →
          (findRule v.rules dd).isSome ∧ ∀ ru ∈ B.extract r.lowB r.highB, ru.name ≠ dd := by
        intro dd hdd
        have hlt : r.lowA < A.length := by
          have := (List.getElem?_eq_some_iff.mp hdd).1
          simpa [ruleNames] using this
        have hname : dd = (A.getD r.lowA default).name := by
          rw [ruleNames, List.getElem?_map, getElem?_of_lt A r.lowA hlt] at hdd
          simpa using hdd.symm
        constructor
        · cases rs with
          | nil =>
            obtain ⟨hx, _⟩ := validFrom_nil h7
            omega
          | cons c rs' =>
            obtain ⟨hck, hcne⟩ := normalised_after_ins hn hk
            obtain ⟨c1, c2, c3, _, _, _, _⟩ := validFrom_cons h7
            have hp : (r.lowA, c.lowB) ∈ eqPairs (r :: c :: rs') := by
              simp only [eqPairs, hk, hck, List.nil_append, List.mem_append, List.mem_map, List.mem_range]
              left
              exact ⟨0, by omega, by simp; omega⟩
            rw [hname]
            exact hsurv _ hp
        · intro ru hru e
          obtain ⟨j, a, b, rfl⟩ := (hmem ru).mp hru
          rw [hname] at e
          exact hdisj r.lowA j hlt (by omega) e.symm
      obtain ⟨w1, hw1, q1, q2, s1, s2, s3, s4, s5⟩ := runs_insertGroup sh ((ruleNames A)[r.lowA]?)
        (B.extract r.lowB r.highB) v
        (by
          rw [ruleNames, extract_map_name]
          exact (List.Sublist.nodup (by
            simp only [List.extract]
            exact (List.take_sublist _ _).trans (List.drop_sublist _ _)) hndB))
        (by
          intro ru hru
          obtain ⟨j, a, b, rfl⟩ := (hmem ru).mp hru
          exact hnone j a (by omega))
        (by
          intro ru hru
          obtain ⟨j, a, b, rfl⟩ := (hmem ru).mp hru
          exact href _ (List.mem_of_getElem? (getElem?_of_lt B j (by omega))))
        hanchor
      have hframe1 : ∀ m, (∀ j, r.lowB ≤ j → j < r.highB → m ≠ (B.getD j default).name) →
          findRule w1.rules m = findRule v.rules m := by
        intro m hm
        apply q2
        intro hmem'
        simp only [ruleNames, List.mem_map] at hmem'
        obtain ⟨ru, hru, rfl⟩ := hmem'
        obtain ⟨j, a, b, rfl⟩ := (hmem ru).mp hru
        exact hm j a b rfl
      obtain ⟨w, hw, p1, p2, p3, t1, t2, t3, t4, t5⟩ := ih r.highA r.highB d w1 h7 hn' (by omega)
        (by
          intro rb hrb
          obtain ⟨a, b, c⟩ := href rb hrb
          exact ⟨fun m hm => by rw [refOk_congr sh s1 s2 s3 s4]; exact a m hm,
            fun m hm => by rw [refOk_congr sh s1 s2 s3 s4]; exact b m hm,
            fun m hm => by rw [refOk_congr sh s1 s2 s3 s4]; exact c m hm⟩)
        (by
          intro j hj hjB
          rw [hframe1 _ ?_]
          · exact hnone j (by omega) hjB
          · intro j' a b
            exact name_ne_of_idx_ne hndB hjB (by omega) (by omega))
        (by
          intro p hp
          have hpA := hsurv p (by simp only [eqPairs, hk, List.nil_append]; exact hp)
          rw [hframe1 _ ?_]
          · exact hpA
          · intro j' a b
            -- an A-name is never a B-name
            have hlt : p.1 < A.length := (eqPairs_bounds eq rs r.highA r.highB h7 p hp).2.1
            exact hdisj p.1 j' hlt (by omega))
      refine ⟨w, ?_, ?_, ?_, ?_, t1.trans s1, t2.trans s2, t3.trans s3, t4.trans s4, t5.trans s5⟩
      · simp only [insGroupsFrom, hk, hmax, phase2Cmds, List.flatMap_cons]
        exact hw1.append hw
      · intro j hj
        simp only [insIdxs, hk, List.mem_append, List.mem_map, List.mem_range] at hj
        rcases hj with ⟨k, hk', rfl⟩ | hj
        · rw [p2 _ ?_]
          · exact q1 _ ((hmem _).mpr ⟨r.lowB + k, by omega, by omega, rfl⟩)
          · intro j' a b
            exact name_ne_of_idx_ne hndB (by omega) b (by omega)
        · exact p1 j hj
      · intro m hm
        rw [p2 m (fun j hj hjB => hm j (by omega) hjB), hframe1 m (fun j a b => hm j a (by omega))]
      · intro j hj
        simp only [insIdxs, hk, List.mem_append, List.mem_map, List.mem_range] at hj
        rcases hj with ⟨k, hk', rfl⟩ | hj
        · exact ⟨by omega, by omega⟩
        · obtain ⟨a, b⟩ := p3 j hj
          exact ⟨by omega, b⟩

end NA.PanOs
