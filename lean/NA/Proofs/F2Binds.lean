import NA.Proofs.F2Sem
import NA.Proofs.F2Unordered
/-!
# F2: the sub-commands of one interface pair (`diffBinds`) on the strict device
-/
namespace NA.F2
open NA.IosDev2
open NA.F1 (diffUnordered slice lastIdx)

/-- Several updates of the status of interface `x`. -/
def updAll (σ : String → String → Status) (x : String) (us : List (String × Status)) : String → String → Status :=
  us.foldl (fun σ u => updσ σ x u.1 u.2) σ

theorem updAll_other (σ : String → String → Status) (x y : String) (us : List (String × Status)) (h : y ≠ x)
    (dir : String) : updAll σ x us y dir = σ y dir := by
  induction us generalizing σ with
  | nil => rfl
  | cons u us ih =>
    simp only [updAll, List.foldl_cons]
    have := ih (updσ σ x u.1 u.2)
    simp only [updAll] at this
    rw [this]
    simp [updσ, h]

theorem updAll_notin (σ : String → String → Status) (x : String) (us : List (String × Status)) (dir : String)
    (h : dir ∉ us.map (·.1)) : updAll σ x us x dir = σ x dir := by
  induction us generalizing σ with
  | nil => rfl
  | cons u us ih =>
    simp only [List.map_cons, List.mem_cons, not_or] at h
    simp only [updAll, List.foldl_cons]
    have := ih (updσ σ x u.1 u.2) h.2
    simp only [updAll] at this
    rw [this]
    simp [updσ, h.1]

theorem updAll_in (σ : String → String → Status) (x : String) (us : List (String × Status))
    (hnd : (us.map (·.1)).Nodup) (u : String × Status) (hu : u ∈ us) : updAll σ x us x u.1 = u.2 := by
  induction us generalizing σ with
  | nil => cases hu
  | cons v us ih =>
    simp only [List.map_cons, List.nodup_cons] at hnd
    simp only [updAll, List.foldl_cons]
    rcases List.mem_cons.mp hu with rfl | hu'
    · have := updAll_notin (updσ σ x u.1 u.2) x us u.1 hnd.1
      simp only [updAll] at this
      rw [this]
      simp [updσ]
    · have := ih (updσ σ x v.1 v.2) hnd.2 hu'
      simp only [updAll] at this
      exact this

theorem updAll_append (σ : String → String → Status) (x : String) (us vs : List (String × Status)) :
    updAll σ x (us ++ vs) = updAll (updAll σ x us) x vs := by
  simp [updAll, List.foldl_append]

/-- What is known about the binds `al` of the device interface `x` (index `i`). -/
structure BindsA (e : Env) (d0 : Dev) (x : String) (al : List Bind) : Prop where
  dirsNd : (al.map (·.dir)).Nodup
  dirs : ∀ bd ∈ al, isDir bd.dir = true
  closed : ∀ bd ∈ al, e.a.hasAcl bd.acl = true
  hasIntf : hasIntf d0 x = true
  slots : ∀ bd ∈ al, slotOf d0 x bd.dir = some bd.acl

structure BindsB (e : Env) (bl : List Bind) : Prop where
  dirsNd : (bl.map (·.dir)).Nodup
  dirs : ∀ bd ∈ bl, isDir bd.dir = true
  closed : ∀ bd ∈ bl, e.b.hasAcl bd.acl = true

theorem getD_mem {α : Type} [Inhabited α] (l : List α) (k : Nat) (h : k < l.length) : l.getD k default ∈ l :=
  getD_mem_of_lt l k h

/-- Deleting the device sub-commands `ks` (indices into `al`). -/
theorem proc_dels {e : Env} {P : List Name} {d0 : Dev} (i : Nat) (x : String) (al : List Bind) (hA : BindsA e d0 x al)
    (ks : List Nat) (hks : ∀ k ∈ ks, k < al.length) (hnd : ks.Nodup)
    {st : St} {d : Dev} {σ : String → String → Status} {π : List (Nat × Nat)} (h : Sem e P d0 st d σ π)
    (hπ : ∀ k ∈ ks, (i, k) ∉ π) (hσ : ∀ k ∈ ks, σ x (al.getD k default).dir = .orig) :
    ∃ d', Sem e P d0 (ks.foldl (delBind1 e i x al) st) d'
      (updAll σ x (ks.map fun k => ((al.getD k default).dir, Status.cleared))) (ks.reverse.map (fun k => (i, k)) ++ π) := by
  induction ks generalizing st d σ π with
  | nil => exact ⟨d, by simpa [updAll] using h⟩
  | cons k ks ih =>
    have hk := hks k (List.mem_cons_self ..)
    have hmem := getD_mem al k hk
    obtain ⟨d1, h1⟩ := sem_delBind1 h i x al k (hπ k (List.mem_cons_self ..)) (hA.dirs _ hmem) hA.hasIntf
      (hσ k (List.mem_cons_self ..)) (hA.slots _ hmem)
    simp only [List.nodup_cons] at hnd
    have hdirne : ∀ k' ∈ ks, (al.getD k' default).dir ≠ (al.getD k default).dir := by
      intro k' hk' hc
      have hk'l := hks k' (List.mem_cons_of_mem _ hk')
      -- equal directions at two positions of a list without repeated directions
      have h1' : (al.map (·.dir))[k']'(by simpa using hk'l) = (al.map (·.dir))[k]'(by simpa using hk) := by
        simp only [List.getElem_map]
        rw [List.getD_eq_getElem?_getD, List.getElem?_eq_getElem hk'l, Option.getD_some] at hc
        rw [List.getD_eq_getElem?_getD, List.getElem?_eq_getElem hk, Option.getD_some] at hc
        exact hc
      have := (List.getElem_inj hA.dirsNd).mp h1'
      exact hnd.1 (this ▸ hk')
    obtain ⟨d', h'⟩ := ih (fun k' hk' => hks k' (List.mem_cons_of_mem _ hk')) hnd.2 h1
      (by
        intro k' hk' hc
        rcases List.mem_cons.mp hc with hc | hc
        · have : k' = k := (Prod.mk.inj hc).2
          exact hnd.1 (this ▸ hk')
        · exact hπ k' (List.mem_cons_of_mem _ hk') hc)
      (by
        intro k' hk'
        simp only [updσ, hdirne k' hk', and_false, ↓reduceIte]
        exact hσ k' (List.mem_cons_of_mem _ hk'))
    refine ⟨d', ?_⟩
    simp only [List.foldl_cons, List.map_cons, List.reverse_cons, List.map_append, List.map_nil, List.append_assoc,
      List.cons_append, List.nil_append]
    have hσeq : updAll σ x (((al.getD k default).dir, Status.cleared) ::
        ks.map fun k => ((al.getD k default).dir, Status.cleared)) =
        updAll (updσ σ x (al.getD k default).dir .cleared) x (ks.map fun k => ((al.getD k default).dir, Status.cleared)) := rfl
    rw [hσeq]
    exact h'


theorem dir_ne_of_ne {al : List Bind} (hnd : (al.map (·.dir)).Nodup) {k k' : Nat} (hk : k < al.length)
    (hk' : k' < al.length) (hne : k' ≠ k) : (al.getD k' default).dir ≠ (al.getD k default).dir := by
  intro hc
  have h1' : (al.map (·.dir))[k']'(by simpa using hk') = (al.map (·.dir))[k]'(by simpa using hk) := by
    simp only [List.getElem_map]
    rw [List.getD_eq_getElem?_getD, List.getElem?_eq_getElem hk', Option.getD_some] at hc
    rw [List.getD_eq_getElem?_getD, List.getElem?_eq_getElem hk, Option.getD_some] at hc
    exact hc
  exact hne ((List.getElem_inj hnd).mp h1')

/-- Equalising the pairs `(k, b)`: device sub-command `al[k]` and target sub-command `b` of the same direction. -/
theorem proc_eqs {e : Env} (hwf : WFE e) {P : List Name} {d0 : Dev} (i : Nat) (x : String) (al : List Bind) (hA : BindsA e d0 x al)
    (ps : List (Nat × Bind)) (hks : ∀ p ∈ ps, p.1 < al.length ∧ (al.getD p.1 default).dir = p.2.dir ∧
      e.b.hasAcl p.2.acl = true ∧ Cmp e (al.getD p.1 default).acl p.2.acl)
    (hnd : (ps.map (·.1)).Nodup)
    {st : St} {d : Dev} {σ : String → String → Status} {π : List (Nat × Nat)} (h : Sem e P d0 st d σ π)
    (hπ : ∀ p ∈ ps, (i, p.1) ∉ π) (hσ : ∀ p ∈ ps, σ x p.2.dir = .orig) :
    ∃ d', Sem e P d0 (ps.foldl (fun st p => makeEqualBind e st i p.1 x (al.getD p.1 default) p.2) st) d'
      (updAll σ x (ps.map fun p => (p.2.dir, Status.settled p.2.acl))) (ps.reverse.map (fun p => (i, p.1)) ++ π) := by
  induction ps generalizing st d σ π with
  | nil => exact ⟨d, by simpa [updAll] using h⟩
  | cons p ps ih =>
    obtain ⟨hk, hdir, hb, hcmp⟩ := hks p (List.mem_cons_self ..)
    have hmem := getD_mem al p.1 hk
    have hdb : isDir p.2.dir = true := by rw [← hdir]; exact hA.dirs _ hmem
    obtain ⟨d1, h1⟩ := sem_makeEqualBind hwf h i p.1 x (al.getD p.1 default) p.2 (hA.closed _ hmem) hb hcmp hdir hdb
      hA.hasIntf (hσ p (List.mem_cons_self ..)) (by rw [← hdir]; exact hA.slots _ hmem)
    simp only [List.map_cons, List.nodup_cons] at hnd
    have hdirne : ∀ p' ∈ ps, p'.2.dir ≠ p.2.dir := by
      intro p' hp' hc
      obtain ⟨hk', hdir', _, _⟩ := hks p' (List.mem_cons_of_mem _ hp')
      have hne : p'.1 ≠ p.1 := fun hc' => hnd.1 (hc' ▸ List.mem_map_of_mem (f := (·.1)) hp')
      exact dir_ne_of_ne hA.dirsNd hk hk' hne (by rw [hdir, hdir', hc])
    obtain ⟨d', h'⟩ := ih (fun p' hp' => hks p' (List.mem_cons_of_mem _ hp')) hnd.2 h1
      (by
        intro p' hp' hc
        rcases List.mem_cons.mp hc with hc | hc
        · have : p'.1 = p.1 := (Prod.mk.inj hc).2
          exact hnd.1 (this ▸ List.mem_map_of_mem (f := (·.1)) hp')
        · exact hπ p' (List.mem_cons_of_mem _ hp') hc)
      (by
        intro p' hp'
        simp only [updσ, hdirne p' hp', and_false, ↓reduceIte]
        exact hσ p' (List.mem_cons_of_mem _ hp'))
    refine ⟨d', ?_⟩
    simp only [List.foldl_cons, List.map_cons, List.reverse_cons, List.map_append, List.map_nil, List.append_assoc,
      List.cons_append, List.nil_append]
    exact h'

/-- Adding the target sub-commands `bs`. -/
theorem proc_inss {e : Env} (hwf : WFE e) {P : List Name} {d0 : Dev} (x : String) (hx : hasIntf d0 x = true)
    (bs : List Bind) (hbs : ∀ b ∈ bs, isDir b.dir = true ∧ e.b.hasAcl b.acl = true)
    {st : St} {d : Dev} {σ : String → String → Status} {π : List (Nat × Nat)} (h : Sem e P d0 st d σ π) :
    ∃ d', Sem e P d0 (bs.foldl (addBind1 e x) st) d'
      (updAll σ x (bs.map fun b => (b.dir, Status.settled b.acl))) π := by
  induction bs generalizing st d σ with
  | nil => exact ⟨d, by simpa [updAll] using h⟩
  | cons b bs ih =>
    obtain ⟨hd, hb⟩ := hbs b (List.mem_cons_self ..)
    obtain ⟨d1, h1⟩ := sem_addBind1 hwf h x b hb hd hx
    obtain ⟨d', h'⟩ := ih (fun b' hb' => hbs b' (List.mem_cons_of_mem _ hb')) h1
    exact ⟨d', by simpa [updAll] using h'⟩


/-! ## the folds over ranges of `diffBinds` are folds over the flattened items -/

open NA.Acl (Range)

theorem kind_cases {n m : Nat} {r : Range} (h : (kindOf n m r).isSome = true) :
    kindOf n m r = some .del ∨ kindOf n m r = some .eq ∨ kindOf n m r = some .ins := by
  cases hk : kindOf n m r with
  | none => rw [hk] at h; cases h
  | some k => cases k <;> simp

theorem phase1_fold (e : Env) (i : Nat) (x : String) (al : List Bind) (m : Nat) (rs : List Range)
    (hk : ∀ r ∈ rs, (kindOf al.length m r).isSome = true) (st : St) :
    rs.foldl (fun st r => if r.isDelete then delBinds e st i x al (slice (List.range al.length) r.lowA r.highA) else st) st =
      (fDel rs).foldl (delBind1 e i x al) st := by
  induction rs generalizing st with
  | nil => rfl
  | cons r rs ih =>
    have hr := hk r (List.mem_cons_self ..)
    have hcons : fDel (r :: rs) = gDel r ++ fDel rs := rfl
    rw [List.foldl_cons, hcons, List.foldl_append, ih (fun r' h' => hk r' (List.mem_cons_of_mem _ h'))]
    congr 1
    rcases kind_cases hr with h | h | h
    · obtain ⟨h1, h2, _⟩ := tests_del h
      obtain ⟨_, q2, _, _⟩ := kind_del h
      simp only [gDel, h1, ↓reduceIte, delBinds, slice_range _ _ _ q2]
    · obtain ⟨h1, _, _⟩ := tests_eq h
      simp [gDel, h1]
    · obtain ⟨h1, _, _⟩ := tests_ins h
      simp [gDel, h1]

/-- Second phase on the device-side ranges (delete / equal kinds). -/
theorem phase2_foldA (e : Env) (i : Nat) (x : String) (al bl : List Bind) (rs : List Range)
    (hk : ∀ r ∈ rs, kindOf al.length bl.length r = some .del ∨ kindOf al.length bl.length r = some .eq) (st : St) :
    rs.foldl (fun st r =>
        if r.isInsert then (if r.highB ≤ r.lowB then st else addBinds e st x (slice bl r.lowB r.highB))
        else if r.isEqual then
          ((slice (List.range al.length) r.lowA r.highA).zip (slice bl r.lowB r.highB)).foldl
            (fun st p => makeEqualBind e st i p.1 x (al.getD p.1 default) p.2) st
        else st) st =
      ((fEq rs).map fun p => (p.1, bl.getD p.2 default)).foldl
        (fun st p => makeEqualBind e st i p.1 x (al.getD p.1 default) p.2) st := by
  induction rs generalizing st with
  | nil => rfl
  | cons r rs ih =>
    have hr := hk r (List.mem_cons_self ..)
    have hcons : fEq (r :: rs) = gEq r ++ fEq rs := rfl
    rw [List.foldl_cons, hcons, List.map_append, List.foldl_append, ih (fun r' h' => hk r' (List.mem_cons_of_mem _ h'))]
    congr 1
    rcases hr with h | h
    · obtain ⟨_, h2, h3⟩ := tests_del h
      simp [gEq, h2, h3]
    · obtain ⟨_, h2, h3⟩ := tests_eq h
      obtain ⟨_, q2, _, q4, _⟩ := kind_eq h
      simp only [gEq, h2, Bool.false_eq_true, ↓reduceIte, h3, slice_range _ _ _ q2, slice_eq_idxs bl _ _ q4,
        List.zip_map_right]
      rfl

/-- Second phase on the target-side ranges (insert kind). -/
theorem phase2_foldB (e : Env) (i : Nat) (x : String) (al bl : List Bind) (rs : List Range)
    (hk : ∀ r ∈ rs, kindOf al.length bl.length r = some .ins) (st : St) :
    rs.foldl (fun st r =>
        if r.isInsert then (if r.highB ≤ r.lowB then st else addBinds e st x (slice bl r.lowB r.highB))
        else if r.isEqual then
          ((slice (List.range al.length) r.lowA r.highA).zip (slice bl r.lowB r.highB)).foldl
            (fun st p => makeEqualBind e st i p.1 x (al.getD p.1 default) p.2) st
        else st) st =
      ((fIns rs).map fun j => bl.getD j default).foldl (addBind1 e x) st := by
  induction rs generalizing st with
  | nil => rfl
  | cons r rs ih =>
    have h := hk r (List.mem_cons_self ..)
    have hcons : fIns (r :: rs) = gIns r ++ fIns rs := rfl
    rw [List.foldl_cons, hcons, List.map_append, List.foldl_append, ih (fun r' h' => hk r' (List.mem_cons_of_mem _ h'))]
    congr 1
    obtain ⟨_, h2, _⟩ := tests_ins h
    obtain ⟨_, _, q3, q4⟩ := kind_ins h
    have : ¬ r.highB ≤ r.lowB := by omega
    simp only [gIns, h2, ↓reduceIte, this, addBinds, slice_eq_idxs bl _ _ q4]


/-! ## keys of the sub-commands -/

theorem key_inj {d1 d2 : String} (h1 : isDir d1 = true) (h2 : isDir d2 = true) (h : "$REF " ++ d1 = "$REF " ++ d2) :
    d1 = d2 := by
  simp only [isDir, Bool.or_eq_true, beq_iff_eq] at h1 h2
  rcases h1 with rfl | rfl <;> rcases h2 with rfl | rfl
  · rfl
  · exact absurd h (by decide)
  · exact absurd h (by decide)
  · rfl

theorem updAll_same (σ : String → String → Status) (x : String) (us : List (String × Status)) (dir : String) (s : Status)
    (hex : ∃ u ∈ us, u.1 = dir) (hall : ∀ u ∈ us, u.1 = dir → u.2 = s) : updAll σ x us x dir = s := by
  induction us generalizing σ with
  | nil => obtain ⟨u, hu, _⟩ := hex; cases hu
  | cons v us ih =>
    simp only [updAll, List.foldl_cons]
    by_cases hlater : ∃ u ∈ us, u.1 = dir
    · exact ih (updσ σ x v.1 v.2) hlater (fun u hu => hall u (List.mem_cons_of_mem _ hu))
    · have hn : dir ∉ us.map (·.1) := by
        intro hc
        obtain ⟨u, hu, hud⟩ := List.mem_map.mp hc
        exact hlater ⟨u, hu, hud⟩
      have := updAll_notin (updσ σ x v.1 v.2) x us dir hn
      simp only [updAll] at this
      rw [this]
      obtain ⟨u, hu, hud⟩ := hex
      rcases List.mem_cons.mp hu with rfl | hu'
      · simp [updσ, hud, hall u (List.mem_cons_self ..) hud]
      · exact absurd ⟨u, hu', hud⟩ hlater

theorem sem_hit {e : Env} {P : List Name} {d0 : Dev} {st : St} {d : Dev} {σ : String → String → Status} {π : List (Nat × Nat)}
    (h : Sem e P d0 st d σ π) (s : String) : Sem e P d0 (st.hit s) d σ π :=
  ⟨h.run, h.prot, h.mode, h.namesNd, h.intfs, h.routes, h.aHas, h.aKeep, h.ready, h.fresh, h.slots, h.bNeeded⟩

theorem any_isEqual_of_fEq {n m : Nat} {rs : List Range} (hk : ∀ r ∈ rs, (kindOf n m r).isSome = true)
    {p : Nat × Nat} (hp : p ∈ fEq rs) : rs.any (·.isEqual) = true := by
  simp only [fEq, List.mem_flatMap] at hp
  obtain ⟨r, hr, hpr⟩ := hp
  rw [List.any_eq_true]
  refine ⟨r, hr, ?_⟩
  rcases kind_cases (hk r hr) with h | h | h
  · obtain ⟨_, h2, h3⟩ := tests_del h
    simp [h2, h3] at hpr
  · exact (tests_eq h).2.2
  · obtain ⟨_, h2, _⟩ := tests_ins h
    simp [h2] at hpr


/-! ## `diffBinds` -/

theorem getD_map_str {α : Type} [Inhabited α] (l : List α) (f : α → String) (k : Nat) (hk : k < l.length) :
    (l.map f).getD k "" = f (l.getD k default) := by
  rw [List.getD_eq_getElem?_getD, List.getElem?_eq_getElem (by simpa using hk), Option.getD_some, List.getElem_map,
    List.getD_eq_getElem?_getD, List.getElem?_eq_getElem hk, Option.getD_some]

/-- `diffBinds` as three folds over items: device sub-commands without partner (`ks`, deleted), pairs of
equal direction (`ps`, equalised), target sub-commands without partner (`bs`, added). -/
theorem diffBinds_canon (e : Env) (i : Nat) (x : String) (al bl : List Bind)
    (hAn : (al.map (·.dir)).Nodup) (hAd : ∀ bd ∈ al, isDir bd.dir = true) (hAc : ∀ bd ∈ al, e.a.hasAcl bd.acl = true)
    (hB : BindsB e bl) (st : St) :
    ∃ (st0 : St) (ks : List Nat) (ps : List (Nat × Bind)) (bs : List Bind),
      (st0 = st ∨ st0 = st.hit "bind:no-parts-equal") ∧
      diffBinds e st i x al bl =
        (bs.foldl (addBind1 e x)
          ((ps.foldl (fun st p => makeEqualBind e st i p.1 x (al.getD p.1 default) p.2)
            (ks.foldl (delBind1 e i x al) st0)))) ∧
      (∀ k ∈ ks, k < al.length ∧ (al.getD k default).dir ∉ bl.map (·.dir)) ∧ ks.Nodup ∧
      (∀ p ∈ ps, p.1 < al.length ∧ (al.getD p.1 default).dir = p.2.dir ∧ p.2 ∈ bl) ∧ (ps.map (·.1)).Nodup ∧
      (∀ k ∈ ks, k ∉ ps.map (·.1)) ∧ (∀ b ∈ bs, b ∈ bl ∧ b.dir ∉ al.map (·.dir)) ∧
      (∀ k, k < al.length → (al.getD k default).dir ∉ bl.map (·.dir) → k ∈ ks) ∧
      (∀ b ∈ bl, b ∈ bs ∨ ∃ k, (k, b) ∈ ps) := by
  -- keys
  have hkeyA : ∀ bd ∈ al, bindKey e.a bd = "$REF " ++ bd.dir := fun bd hbd => by simp [bindKey, hAc bd hbd]
  have hkeyB : ∀ bd ∈ bl, bindKey e.b bd = "$REF " ++ bd.dir := fun bd hbd => by simp [bindKey, hB.closed bd hbd]
  obtain ⟨ka, hka⟩ : ∃ ka, ka = al.map (bindKey e.a) := ⟨_, rfl⟩
  obtain ⟨kb, hkb⟩ : ∃ kb, kb = bl.map (bindKey e.b) := ⟨_, rfl⟩
  have hkaL : ka.length = al.length := by simp [hka]
  have hkbL : kb.length = bl.length := by simp [hkb]
  have hkaG : ∀ k, k < al.length → ka.getD k "" = "$REF " ++ (al.getD k default).dir := by
    intro k hk; rw [hka, getD_map_str al _ k hk]; exact hkeyA _ (getD_mem al k hk)
  have hkbG : ∀ j, j < bl.length → kb.getD j "" = "$REF " ++ (bl.getD j default).dir := by
    intro j hj; rw [hkb, getD_map_str bl _ j hj]; exact hkeyB _ (getD_mem bl j hj)
  have hkaNd : ka.Nodup := by
    rw [hka, List.Nodup, List.pairwise_map]
    have := hAn
    rw [List.Nodup, List.pairwise_map] at this
    apply List.Pairwise.imp_of_mem _ this
    intro a b ha hb hne hc
    rw [hkeyA a ha, hkeyA b hb] at hc
    exact hne (key_inj (hAd a ha) (hAd b hb) hc)
  -- membership in `kb` in terms of directions
  have hmemKb : ∀ dir, isDir dir = true → (("$REF " ++ dir) ∈ kb ↔ dir ∈ bl.map (·.dir)) := by
    intro dir hd
    rw [hkb]
    constructor
    · intro hm
      obtain ⟨bd, hbd, hk⟩ := List.mem_map.mp hm
      rw [hkeyB bd hbd] at hk
      exact List.mem_map.mpr ⟨bd, hbd, key_inj (hB.dirs bd hbd) hd hk⟩
    · intro hm
      obtain ⟨bd, hbd, rfl⟩ := List.mem_map.mp hm
      exact List.mem_map.mpr ⟨bd, hbd, hkeyB bd hbd⟩
  have hmemKa : ∀ dir, isDir dir = true → (("$REF " ++ dir) ∈ ka ↔ dir ∈ al.map (·.dir)) := by
    intro dir hd
    rw [hka]
    constructor
    · intro hm
      obtain ⟨bd, hbd, hk⟩ := List.mem_map.mp hm
      rw [hkeyA bd hbd] at hk
      exact List.mem_map.mpr ⟨bd, hbd, key_inj (hAd bd hbd) hd hk⟩
    · intro hm
      obtain ⟨bd, hbd, rfl⟩ := List.mem_map.mp hm
      exact List.mem_map.mpr ⟨bd, hbd, hkeyA bd hbd⟩
  obtain ⟨rsA, rsB, hrs, hkA, hkB, hfD, hfE, hfI⟩ := diffUnordered_spec ka kb hkaNd
  rw [hkaL, hkbL] at hkA hkB
  -- the items
  obtain ⟨D, hD⟩ : ∃ D, D = sDel kb 0 ka := ⟨_, rfl⟩
  obtain ⟨E, hE⟩ : ∃ E, E = sEq kb 0 ka := ⟨_, rfl⟩
  obtain ⟨I, hI⟩ : ∃ I, I = sIns ka 0 kb := ⟨_, rfl⟩
  have hDmem : ∀ k ∈ D, k < al.length ∧ (al.getD k default).dir ∉ bl.map (·.dir) := by
    intro k hk
    rw [hD] at hk
    obtain ⟨t, ht, rfl, hl⟩ := mem_sDel.mp hk
    rw [hkaL] at ht
    simp only [Nat.zero_add]
    refine ⟨ht, ?_⟩
    have := lastIdx_none.mp hl
    rw [hkaG t ht] at this
    exact fun hc => this ((hmemKb _ (hAd _ (getD_mem al t ht))).mpr hc)
  have hEmem : ∀ p ∈ E, p.1 < al.length ∧ p.2 < bl.length ∧ (al.getD p.1 default).dir = (bl.getD p.2 default).dir := by
    intro p hp
    rw [hE] at hp
    obtain ⟨t, ht, h1, hl⟩ := mem_sEq.mp (show (p.1, p.2) ∈ sEq kb 0 ka from hp)
    rw [hkaL] at ht
    simp only [Nat.zero_add] at h1
    obtain ⟨hj, hjk⟩ := lastIdx_some hl
    rw [hkbL] at hj
    rw [h1]
    refine ⟨ht, hj, ?_⟩
    rw [hkbG _ hj, hkaG t ht] at hjk
    exact (key_inj (hB.dirs _ (getD_mem bl _ hj)) (hAd _ (getD_mem al t ht)) hjk).symm
  have hImem : ∀ j ∈ I, j < bl.length ∧ (bl.getD j default).dir ∉ al.map (·.dir) := by
    intro j hj
    rw [hI] at hj
    obtain ⟨t, ht, rfl, hl⟩ := mem_sIns.mp hj
    rw [hkbL] at ht
    simp only [Nat.zero_add]
    refine ⟨ht, ?_⟩
    rw [hkbG t ht] at hl
    intro hc
    have := (hmemKa _ (hB.dirs _ (getD_mem bl t ht))).mpr hc
    rw [List.contains_iff_mem.mpr this] at hl
    cases hl
  -- coverage
  have hcovA : ∀ k, k < al.length → (al.getD k default).dir ∉ bl.map (·.dir) → k ∈ D := by
    intro k hk hn
    rw [hD]
    refine mem_sDel.mpr ⟨k, by rw [hkaL]; exact hk, by omega, lastIdx_none.mpr ?_⟩
    rw [hkaG k hk]
    exact fun hc => hn ((hmemKb _ (hAd _ (getD_mem al k hk))).mp hc)
  have hcovB : ∀ j, j < bl.length → (j ∈ I ∨ ∃ k, (k, j) ∈ E) := by
    intro j hj
    by_cases hc : (bl.getD j default).dir ∈ al.map (·.dir)
    · right
      obtain ⟨bd, hbd, hdir⟩ := List.mem_map.mp hc
      obtain ⟨k, hk, hkbd⟩ := List.getElem_of_mem hbd
      have hgk : al.getD k default = bd := by
        rw [List.getD_eq_getElem?_getD, List.getElem?_eq_getElem hk, Option.getD_some, hkbd]
      have hkey : ka.getD k "" ∈ kb := by
        rw [hkaG k hk, hgk, hdir]
        exact (hmemKb _ (hB.dirs _ (getD_mem bl j hj))).mpr (List.mem_map_of_mem (getD_mem bl j hj))
      cases hl : lastIdx (ka.getD k "") kb with
      | none => exact absurd hkey (lastIdx_none.mp hl)
      | some j' =>
        obtain ⟨hj', hjk'⟩ := lastIdx_some hl
        rw [hkbL] at hj'
        have hdd : (bl.getD j' default).dir = (bl.getD j default).dir := by
          rw [hkbG j' hj', hkaG k hk, hgk, hdir] at hjk'
          exact key_inj (hB.dirs _ (getD_mem bl j' hj')) (hB.dirs _ (getD_mem bl j hj)) hjk'
        have : j' = j := by
          by_cases hjj : j' = j
          · exact hjj
          · exact absurd hdd (dir_ne_of_ne hB.dirsNd hj hj' hjj)
        subst this
        refine ⟨k, ?_⟩
        rw [hE]
        exact mem_sEq.mpr ⟨k, by rw [hkaL]; exact hk, by omega, hl⟩
    · left
      rw [hI]
      refine mem_sIns.mpr ⟨j, by rw [hkbL]; exact hj, by omega, ?_⟩
      rw [hkbG j hj, Bool.eq_false_iff]
      intro hcc
      exact hc ((hmemKa _ (hB.dirs _ (getD_mem bl j hj))).mp (by simpa using hcc))
  have hkAll : ∀ r ∈ rsA ++ rsB, (kindOf al.length bl.length r).isSome = true := by
    intro r hr
    rcases List.mem_append.mp hr with h1 | h1
    · rcases hkA r h1 with h2 | h2 <;> simp [h2]
    · simp [hkB r h1]
  have hfDall : fDel (rsA ++ rsB) = D := by
    have : fDel rsB = [] := by
      simp only [fDel, List.flatMap_eq_nil_iff]
      intro r hr
      simp [(tests_ins (hkB r hr)).1]
    simp only [fDel, List.flatMap_append] at this ⊢
    rw [this, List.append_nil]; exact hfD.trans hD.symm
  by_cases hany : ((rsA ++ rsB).any fun r => r.isEqual) = true
  · refine ⟨st, D, E.map fun p => (p.1, bl.getD p.2 default), I.map fun j => bl.getD j default, Or.inl rfl, ?_,
      hDmem, by rw [hD]; exact nodup_sDel .., ?_, ?_, ?_, ?_, hcovA, ?_⟩
    · unfold diffBinds
      simp only [← hka, ← hkb, hrs, hany, Bool.not_true, Bool.false_eq_true, ↓reduceIte]
      rw [phase1_fold e i x al bl.length (rsA ++ rsB) hkAll, hfDall, List.foldl_append,
        phase2_foldA e i x al bl rsA hkA, phase2_foldB e i x al bl rsB hkB, hfE, hfI, ← hE, ← hI]
    · intro p hp
      obtain ⟨q, hq, rfl⟩ := List.mem_map.mp hp
      obtain ⟨h1, h2, h3⟩ := hEmem q hq
      exact ⟨h1, h3, getD_mem bl _ h2⟩
    · rw [List.map_map]
      have : ((fun p : Nat × Bind => p.1) ∘ fun p : Nat × Nat => (p.1, bl.getD p.2 default)) = (·.1) := rfl
      rw [this, hE]; exact nodup_sEq_fst ..
    · intro k hk hc
      rw [List.map_map] at hc
      have : ((fun p : Nat × Bind => p.1) ∘ fun p : Nat × Nat => (p.1, bl.getD p.2 default)) = (·.1) := rfl
      rw [this] at hc
      rw [hD] at hk; rw [hE] at hc
      exact sDel_sEq_disjoint hk hc
    · intro b hb
      obtain ⟨j, hj, rfl⟩ := List.mem_map.mp hb
      exact ⟨getD_mem bl j (hImem j hj).1, (hImem j hj).2⟩
    · intro b hb
      obtain ⟨j, hj, hjb⟩ := List.getElem_of_mem hb
      have hgj : bl.getD j default = b := by
        rw [List.getD_eq_getElem?_getD, List.getElem?_eq_getElem hj, Option.getD_some, hjb]
      rcases hcovB j hj with h1 | ⟨k, h1⟩
      · left; exact List.mem_map.mpr ⟨j, h1, hgj⟩
      · right; exact ⟨k, List.mem_map.mpr ⟨(k, j), h1, by rw [hgj]⟩⟩
  · -- nothing in common: everything deleted, everything added
    have hEnil : E = [] := by
      cases hE' : E with
      | nil => rfl
      | cons p ps =>
        exfalso
        apply hany
        have hp : p ∈ fEq (rsA ++ rsB) := by
          simp only [fEq, List.flatMap_append, List.mem_append]
          left
          have : p ∈ fEq rsA := by rw [hfE, ← hE, hE']; exact List.mem_cons_self ..
          exact this
        exact any_isEqual_of_fEq hkAll hp
    have hnocommon : ∀ k, k < al.length → (al.getD k default).dir ∉ bl.map (·.dir) := by
      intro k hk hc
      have hkey : ka.getD k "" ∈ kb := by
        rw [hkaG k hk]; exact (hmemKb _ (hAd _ (getD_mem al k hk))).mpr hc
      cases hl : lastIdx (ka.getD k "") kb with
      | none => exact absurd hkey (lastIdx_none.mp hl)
      | some j =>
        have : (k, j) ∈ E := by
          rw [hE]; exact mem_sEq.mpr ⟨k, by rw [hkaL]; exact hk, by omega, hl⟩
        rw [hEnil] at this; cases this
    refine ⟨if al.isEmpty then st else st.hit "bind:no-parts-equal", List.range al.length, [], bl, ?_, ?_,
      fun k hk => ⟨List.mem_range.mp hk, hnocommon k (List.mem_range.mp hk)⟩, List.nodup_range, by simp, by simp,
      by simp, fun b hb => ⟨hb, fun hc => by
        obtain ⟨a, ha, had⟩ := List.mem_map.mp hc
        obtain ⟨k, hk, hka'⟩ := List.getElem_of_mem ha
        have hgk : al.getD k default = a := by
          rw [List.getD_eq_getElem?_getD, List.getElem?_eq_getElem hk, Option.getD_some, hka']
        exact hnocommon k hk (by rw [hgk, had]; exact List.mem_map_of_mem hb)⟩,
      fun k hk _ => List.mem_range.mpr hk, fun b hb => Or.inl hb⟩
    · split
      · exact Or.inl rfl
      · exact Or.inr rfl
    · unfold diffBinds
      simp only [← hka, ← hkb, hrs, hany, Bool.not_false, ↓reduceIte, List.foldl_nil]
      by_cases hal : al.isEmpty = true
      · have : al = [] := List.isEmpty_iff.mp hal
        subst this
        simp only [List.isEmpty_nil, ↓reduceIte, List.length_nil, List.range_zero, List.foldl_nil]
        split
        · rename_i hbl
          have : bl = [] := List.isEmpty_iff.mp hbl
          subst this; rfl
        · rfl
      · simp only [hal, Bool.false_eq_true, ↓reduceIte, delBinds]
        split
        · rename_i hbl
          have : bl = [] := List.isEmpty_iff.mp hbl
          subst this; rfl
        · rfl

/-- `diffCmds(a.sub, b.sub)` for one interface pair: afterwards every direction of the interface is
bound as the target says (`settled`), or unbound if only the device had a binding (`cleared`). -/
theorem sem_diffBinds {e : Env} (hwf : WFE e) {P : List Name} {d0 : Dev} (i : Nat) (x : String) (al bl : List Bind)
    (hA : BindsA e d0 x al) (hB : BindsB e bl)
    (hC : ∀ a ∈ al, ∀ b ∈ bl, a.dir = b.dir → Cmp e a.acl b.acl)
    {st : St} {d : Dev} {σ : String → String → Status} {π : List (Nat × Nat)} (h : Sem e P d0 st d σ π)
    (hπ : ∀ k, (i, k) ∉ π) (hσ : ∀ dir, σ x dir = .orig) :
    ∃ d' σ' π', Sem e P d0 (diffBinds e st i x al bl) d' σ' π' ∧
      (∀ y, y ≠ x → ∀ dir, σ' y dir = σ y dir) ∧
      (∀ b ∈ bl, σ' x b.dir = .settled b.acl) ∧
      (∀ a ∈ al, a.dir ∉ bl.map (·.dir) → σ' x a.dir = .cleared) ∧
      (∀ dir, dir ∉ al.map (·.dir) → dir ∉ bl.map (·.dir) → σ' x dir = .orig) ∧
      (∀ p ∈ π', p ∈ π ∨ p.1 = i) := by
  obtain ⟨st0, ks, ps, bs, hst0, hcompEq, hks, hksNd, hps, hpsNd, hdisj, hbs', hcovK, hcovBl⟩ :=
    diffBinds_canon e i x al bl hA.dirsNd hA.dirs hA.closed hB st
  have hbs : ∀ b ∈ bs, b ∈ bl := fun b hb => (hbs' b hb).1
  have h0 : Sem e P d0 st0 d σ π := by
    rcases hst0 with rfl | rfl
    · exact h
    · exact sem_hit h _
  -- phase 1
  obtain ⟨d1, h1⟩ := proc_dels i x al hA ks (fun k hk => (hks k hk).1) hksNd h0 (fun k _ => hπ k) (fun k _ => hσ _)
  -- phase 2, pairs
  obtain ⟨d2, h2⟩ := proc_eqs hwf i x al hA ps
    (fun p hp => ⟨(hps p hp).1, (hps p hp).2.1, hB.closed _ (hps p hp).2.2,
      hC _ (getD_mem al p.1 (hps p hp).1) _ (hps p hp).2.2 (hps p hp).2.1⟩) hpsNd h1
    (by
      intro p hp hc
      rcases List.mem_append.mp hc with hc | hc
      · obtain ⟨k, hk, hkp⟩ := List.mem_map.mp hc
        have : k = p.1 := (Prod.mk.inj hkp).2
        subst this
        exact hdisj _ (List.mem_reverse.mp hk) (List.mem_map_of_mem (f := (·.1)) hp)
      · exact hπ _ hc)
    (by
      intro p hp
      obtain ⟨hp1, hp2, _⟩ := hps p hp
      rw [updAll_notin]
      · exact hσ _
      · intro hc
        obtain ⟨u, hu, hud⟩ := List.mem_map.mp hc
        obtain ⟨k, hk, rfl⟩ := List.mem_map.mp hu
        simp only at hud
        have hne : k ≠ p.1 := fun hc' => hdisj k hk (hc' ▸ List.mem_map_of_mem (f := (·.1)) hp)
        exact dir_ne_of_ne hA.dirsNd hp1 (hks k hk).1 hne (by rw [hud, hp2]))
  -- phase 2, added sub-commands
  obtain ⟨d3, h3⟩ := proc_inss hwf x hA.hasIntf bs (fun b hb => ⟨hB.dirs b (hbs b hb), hB.closed b (hbs b hb)⟩) h2
  rw [← hcompEq] at h3
  have h3' : Sem e P d0 (diffBinds e st i x al bl) d3
      (updAll σ x ((ks.map fun k => ((al.getD k default).dir, Status.cleared)) ++
        ((ps.map fun p => (p.2.dir, Status.settled p.2.acl)) ++ (bs.map fun b => (b.dir, Status.settled b.acl)))))
      (ps.reverse.map (fun p => (i, p.1)) ++ (ks.reverse.map (fun k => (i, k)) ++ π)) := by
    rw [updAll_append, updAll_append]; exact h3
  refine ⟨d3, _, _, h3', ?_, ?_, ?_, ?_, ?_⟩
  · intro y hy dir; exact updAll_other σ x y _ hy dir
  · -- every target binding is settled
    intro b hb
    apply updAll_same
    · rcases hcovBl b hb with h4 | ⟨k, h4⟩
      · exact ⟨(b.dir, .settled b.acl), by
          simp only [List.mem_append, List.mem_map]
          exact Or.inr (Or.inr ⟨b, h4, rfl⟩), rfl⟩
      · exact ⟨(b.dir, .settled b.acl), by
          simp only [List.mem_append, List.mem_map]
          exact Or.inr (Or.inl ⟨(k, b), h4, rfl⟩), rfl⟩
    · intro u hu hud
      simp only [List.mem_append, List.mem_map] at hu
      rcases hu with ⟨k, hk, rfl⟩ | ⟨p, hp, rfl⟩ | ⟨b', hb', rfl⟩
      · exfalso
        simp only at hud
        exact (hks k hk).2 (hud ▸ List.mem_map_of_mem hb)
      · simp only at hud ⊢
        have hp2 := (hps p hp).2.2
        have : p.2 = b := by
          obtain ⟨j, hj, hjb⟩ := List.getElem_of_mem hp2
          obtain ⟨j', hj', hjb'⟩ := List.getElem_of_mem hb
          by_cases hjj : j = j'
          · subst hjj; rw [← hjb, ← hjb']
          · exfalso
            have := dir_ne_of_ne hB.dirsNd hj' hj hjj
            rw [List.getD_eq_getElem?_getD, List.getElem?_eq_getElem hj, Option.getD_some, hjb,
              List.getD_eq_getElem?_getD, List.getElem?_eq_getElem hj', Option.getD_some, hjb'] at this
            exact this hud
        rw [this]
      · simp only at hud ⊢
        have hp2 := hbs b' hb'
        have : b' = b := by
          obtain ⟨j, hj, hjb⟩ := List.getElem_of_mem hp2
          obtain ⟨j', hj', hjb'⟩ := List.getElem_of_mem hb
          by_cases hjj : j = j'
          · subst hjj; rw [← hjb, ← hjb']
          · exfalso
            have := dir_ne_of_ne hB.dirsNd hj' hj hjj
            rw [List.getD_eq_getElem?_getD, List.getElem?_eq_getElem hj, Option.getD_some, hjb,
              List.getD_eq_getElem?_getD, List.getElem?_eq_getElem hj', Option.getD_some, hjb'] at this
            exact this hud
        rw [this]
  · -- device bindings without partner are cleared
    intro a ha hna
    obtain ⟨k, hk, hka'⟩ := List.getElem_of_mem ha
    have hgk : al.getD k default = a := by
      rw [List.getD_eq_getElem?_getD, List.getElem?_eq_getElem hk, Option.getD_some, hka']
    have hkk : k ∈ ks := hcovK k hk (by rw [hgk]; exact hna)
    apply updAll_same
    · exact ⟨(a.dir, .cleared), by
        simp only [List.mem_append, List.mem_map]
        exact Or.inl ⟨k, hkk, by rw [hgk]⟩, rfl⟩
    · intro u hu hud
      simp only [List.mem_append, List.mem_map] at hu
      rcases hu with ⟨k', hk', rfl⟩ | ⟨p, hp, rfl⟩ | ⟨b', hb', rfl⟩
      · rfl
      · exfalso
        simp only at hud
        exact hna (hud ▸ List.mem_map_of_mem (hps p hp).2.2)
      · exfalso
        simp only at hud
        exact hna (hud ▸ List.mem_map_of_mem (hbs b' hb'))
  · intro dir hna hnb
    rw [updAll_notin]
    · exact hσ dir
    · intro hc
      simp only [List.map_append, List.map_map, List.mem_append, List.mem_map, Function.comp] at hc
      rcases hc with ⟨k, hk, rfl⟩ | ⟨p, hp, rfl⟩ | ⟨b', hb', rfl⟩
      · exact hna (List.mem_map_of_mem (getD_mem al k (hks k hk).1))
      · exact hnb (List.mem_map_of_mem (hps p hp).2.2)
      · exact hnb (List.mem_map_of_mem (hbs b' hb'))
  · intro p hp
    simp only [List.mem_append, List.mem_map, List.mem_reverse] at hp
    rcases hp with ⟨q, _, rfl⟩ | ⟨k, _, rfl⟩ | hp
    · exact Or.inr rfl
    · exact Or.inr rfl
    · exact Or.inl hp

end NA.F2
