import NA.Proofs.C09Checked
import NA.Proofs.C09Struct
/-!
# C09: `defer`, and the ASA / IOS / Linux programs as a whole
-/
namespace NA.C09
open NA.Sess NA.Apply NA.Spec.C09

theorem presV_defer (bad : Role → Reply → Bool) {c b : Sess} (hb : PresV bad b) (hc : PresV bad c)
    (hq : quiet c = true) (hr : noRet c = true) (hk : noCont c = true) : PresV bad (.defer c b) := by
  intro env s hj hm
  have h1 := hb env s hj hm
  simp only [exec, hm, if_true]
  split
  · exact h1
  · rename_i hdiv
    cases hf : faulted bad (exec b env s).tr with
    | false =>
      have hj1 : J bad { exec b env s with mode := Mode.run } :=
        (jv_of_clean bad (s' := { exec b env s with mode := Mode.run }) ⟨h1.safe, hf⟩).toJ
      have h2 := hc env _ hj1 rfl
      split
      · rename_i hrun
        exact jv_of_clean bad ⟨h2.safe, h2.run hrun⟩
      · exact h2
    | true =>
      have hs2 : safe bad (exec c env { exec b env s with mode := Mode.run }).tr = true :=
        quiet_safe bad c hq env _ h1.safe
      have hnr := noRet_mode c hr env { exec b env s with mode := Mode.run } (by simp)
      have hnc := noCont_mode c hk env { exec b env s with mode := Mode.run } (by simp)
      have hm1 : (exec b env s).mode = .panic := by
        cases hmode : (exec b env s).mode with
        | run => have := h1.run hmode; rw [hf] at this; cases this
        | cont => have := h1.cont hmode; rw [hf] at this; cases this
        | ret => have := h1.ret hmode; rw [hf] at this; cases this
        | diverge => exact absurd hmode hdiv
        | panic => rfl
      split
      · exact ⟨hs2, by simp [hm1], by simp [hm1], by simp [hm1]⟩
      · rename_i hnrun
        exact ⟨hs2, fun h => absurd h hnrun, fun h => absurd h hnc, fun h => absurd h hnr⟩


/-! ## a checker for "this program keeps the invariant", and its soundness

`chk bl w p`: every wait in `p` is inside a block listed in `bl` (each proved separately to
keep the invariant) or is a plain wait-and-abort accepted by `w`; everything else is
composition.  The per-backend theorems are then kernel evaluations of `chk`. -/

def markOk : Ev → Bool
  | .got _ _ => false
  | _ => true

def chk (bl : List Sess) (w : Sess → Bool) : Sess → Bool
  | .skip | .abort _ | .warn _ | .ret _ _ | .cont | .setCtr _ | .decCtr | .setPlan | .assumeBanner
  | .recvMore _ | .send _ _ => true
  | .mark e => markOk e
  | .recv _ _ => false
  | .roundTrip _ _ _ => false
  | .seq a b => bl.contains (.seq a b) || (chk bl w a && chk bl w b)
  | .ite c l t e => bl.contains (.ite c l t e) || (chk bl w t && chk bl w e)
  | .forEach b => chk bl w b
  | .defer c b => chk bl w c && chk bl w b && quiet c && noRet c && noCont c
  | .loopN _ b => chk bl w b
  | .loopFuel b => chk bl w b
  | .call n l b => bl.contains (.call n l b) || w (.call n l b) || chk bl w b
  | .scope _ b => chk bl w b
  | .when _ b => chk bl w b

theorem chk_sound (bad : Role → Reply → Bool) (bl : List Sess) (w : Sess → Bool)
    (hbl : ∀ q ∈ bl, PresV bad q) (hw : ∀ q, w q = true → PresV bad q) :
    ∀ p, chk bl w p = true → PresV bad p := by
  intro p
  induction p with
  | skip => intro _; exact presV_skip bad
  | send ρ t => intro _; exact presV_send bad ρ t
  | recv ρ p => intro h; simp [chk] at h
  | recvMore p => intro _; exact presV_recvMore bad p
  | roundTrip ρ t r => intro h; simp [chk] at h
  | ite c l t e iht ihe =>
    intro h
    simp only [chk, Bool.or_eq_true, Bool.and_eq_true] at h
    rcases h with h | h
    · exact hbl _ (by simpa using h)
    · exact presV_ite bad (iht h.1) (ihe h.2)
  | abort l => intro _; exact presV_abort bad l
  | warn l => intro _; exact presV_warn bad l
  | mark e =>
    intro h
    refine presV_mark bad e ?_
    cases e <;> simp_all [chk, markOk, isBadGot]
  | seq a b iha ihb =>
    intro h
    simp only [chk, Bool.or_eq_true, Bool.and_eq_true] at h
    rcases h with h | h
    · exact hbl _ (by simpa using h)
    · exact presV_seq bad (iha h.1) (ihb h.2)
  | forEach b ih => intro h; exact presV_forEach bad (ih h)
  | defer c b ihc ihb =>
    intro h
    simp only [chk, Bool.and_eq_true] at h
    exact presV_defer bad (ihb h.1.1.1.2) (ihc h.1.1.1.1) h.1.1.2 h.1.2 h.2
  | loopN n b ih => intro h; exact presV_loopN bad (ih h)
  | loopFuel b ih => intro h; exact presV_loopFuel bad (ih h)
  | cont => intro _; exact presV_cont bad
  | ret v l => intro _; exact presV_ret bad v l
  | setCtr n => intro _; exact presV_setCtr bad n
  | decCtr => intro _; exact presV_decCtr bad
  | setPlan => intro _; exact presV_setPlan bad
  | call n l b ih =>
    intro h
    simp only [chk, Bool.or_eq_true] at h
    rcases h with (h | h) | h
    · exact hbl _ (by simpa using h)
    · exact hw _ h
    · exact presV_call bad (ih h)
  | scope c b ih => intro h; exact presV_scope bad (ih h)
  | «when» c b ih => intro h; exact presV_when bad (ih h)
  | assumeBanner => intro _; exact presV_assumeBanner bad

/-- a plain wait-and-abort (`waitPrompt`, `WaitShort`, `WaitLogin`) under a role that is inspected
only for arrival, waiting for prompts that count as arrival -/
def isArrivalWait : Sess → Bool
  | .call n cl (.seq (.call "expectLog" ["_", "_"] (.seq (.recv ρ p) (.ret .keep ["_", "err"])))
      (.seq (.ite .err "err != nil" (.abort lits) .skip) (.ret .none ["_"]))) =>
    Role.arrivalOnly ρ && Pat.okFlags p
  | _ => false

theorem isArrivalWait_sound (b : Backend) (hb : Backend.isConsole b = true) (q : Sess) (h : isArrivalWait q = true) :
    PresV (badChecked b) q := by
  unfold isArrivalWait at h
  split at h
  · rename_i n cl ρ p lits
    simp only [Bool.and_eq_true] at h
    exact presV_waitCall b hb n cl lits ρ h.1 p h.2
  · cases h

/-- the exchanges of the console backends whose reply is inspected beyond arrival -/
def consoleBlocks : List Sess := [
  asaCheck .change, iosCheck .change, linuxCheck .change,
  (GetCmdOutput .probe (.lit "echo $?") ["echo $?"] ;;
   .ite (.not (.flag .status0)) "$r.conn.GetCmdOutput(\"echo $?\") != \"0\\n\""
     (.abort ["%s failed (exit status)", "_"]) .skip),
  (GetCmdOutput .save (.lit "write memory") ["write memory"] ;;
   .ite (.not (.flag .okMark)) "¬strings.Contains($GetCmdOutput, \"[OK]\")"
     (.abort ["Command 'write memory' failed, missing [OK] in output:\n%s", "_"]) .skip),
  (IssueCmd .save (.lit "write memory") (.stdOr [.confirm]) ["write memory", "#[ ]?|\\[confirm\\]"] ;;
   .ite (.flag .overwrite) "strings.Contains($IssueCmd, \"Overwrite the previous NVRAM configuration\")"
     (GetCmdOutput .save (.lit "") [""]) .skip ;;
   .ite (.flag .okMark) "strings.Contains($IssueCmd, \"[OK]\")" (.ret .none []) .skip ;;
   .ite (.flag .openFailed) "strings.Contains($IssueCmd, \"startup-config file open failed\")"
     (.ite .ctrPos "$v > 0" (.decCtr ;; .cont) .skip ;;
      .abort ["write mem: startup-config open failed - giving up"]) .skip ;;
   .abort ["write mem: unexpected result: %s", "_"]) ]

theorem consoleBlocks_sound (b : Backend) (hb : Backend.isConsole b = true) :
    ∀ q ∈ consoleBlocks, PresV (badChecked b) q := by
  intro q hq
  simp only [consoleBlocks, List.mem_cons, List.mem_nil_iff, or_false] at hq
  rcases hq with rfl | rfl | rfl | rfl | rfl | rfl
  · exact presV_asaCheck_change b hb
  · exact presV_iosCheck_change b hb
  · exact presV_linuxCheck_change b hb
  · exact presV_linuxProbe b hb
  · exact presV_asaSave b hb
  · exact presV_iosWriteMemRound b hb

/-- ASA, IOS: a program that passes the check keeps the invariant -/
theorem console_sound (b : Backend) (hb : Backend.isConsole b = true) (p : Sess)
    (h : chk consoleBlocks isArrivalWait p = true) : PresV (badChecked b) p :=
  chk_sound _ _ _ (consoleBlocks_sound b hb) (isArrivalWait_sound b hb) p h


def scpBlock (what : String) : Sess :=
  .call "Run" [] (.send .save (.lit ("scp " ++ what)) ;; .recv .save .http) ;;
  .ite .err "err != nil" (.abort ["%s failed: %v", "_", "err"]) .skip

def linuxBlocks : List Sess := consoleBlocks ++ [scpBlock "iptables", scpBlock "routing"]

theorem linux_sound (p : Sess) (h : chk linuxBlocks isArrivalWait p = true) : PresV (badChecked .linux) p := by
  refine chk_sound _ _ _ ?_ (isArrivalWait_sound .linux rfl) p h
  intro q hq
  simp only [linuxBlocks, List.mem_append, List.mem_cons, List.mem_nil_iff, or_false] at hq
  rcases hq with hq | rfl | rfl
  · exact consoleBlocks_sound .linux rfl q hq
  · exact presV_linuxScpRun .linux rfl rfl "iptables"
  · exact presV_linuxScpRun .linux rfl rfl "routing"

set_option maxRecDepth 100000 in
theorem presV_run_asa : PresV (badChecked .asa) (approveOrCompareBody .asa) :=
  console_sound .asa rfl _ (by decide)

set_option maxRecDepth 100000 in
theorem presV_run_ios : PresV (badChecked .ios) (approveOrCompareBody .ios) :=
  console_sound .ios rfl _ (by decide)

set_option maxRecDepth 100000 in
theorem presV_run_linux : PresV (badChecked .linux) (approveOrCompareBody .linux) :=
  linux_sound _ (by decide)

end NA.C09
