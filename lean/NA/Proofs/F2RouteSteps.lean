import NA.Proofs.F2Routes
import NA.Model.IosEngineRoutes
import NA.Proofs.C14Routes
import NA.Props.C14
/-!
# F2: route coverage at every step (C14) — `NA.Route.routes_covered` closed for the model of `diffRoutes`

`NA.Route.routes_covered` (NA/Proofs/C14Routes.lean, not mine) is about abstract scripts of the shape
`phaseA` (adds / same-destination replacements) then `phaseB` (removals of non-target routes) that
reach the target (`hall`).  Here the three hypotheses are PROVED for the plan of the tied model
`routePlan` (`routes_run_full`), under the numeric encoding `encRoute`, and the theorem is applied.
-/
namespace NA.F2
open NA.IosDev2
open NA.Route (ROp rexec1 rtrace covered phaseA phaseB)

def actTexts : MA → List String
  | .route r => [r]
  | .replRoute o n => [o, n]
  | .noRoute r => [r]
  | _ => []

def addedText : MA → List String
  | .route r => [r]
  | .replRoute _ n => [n]
  | _ => []

variable {keyOf : String → String × String} {U : List String}

theorem enc_inj {t t' : String} (ht : t ∈ U) (ht' : t' ∈ U) (h : encRoute keyOf U t = encRoute keyOf U t') : t = t' :=
  idxOf_inj ht ht' (congrArg NA.Route.Route.hop h)

theorem enc_key {t t' : String} (ht : t ∈ U) (ht' : t' ∈ U) :
    ((encRoute keyOf U t).vrf = (encRoute keyOf U t').vrf ∧ (encRoute keyOf U t).dst = (encRoute keyOf U t').dst) ↔
      keyOf t = keyOf t' := by
  constructor
  · rintro ⟨h1, h2⟩
    have m1 : (keyOf t).1 ∈ U.map fun u => (keyOf u).1 := List.mem_map.mpr ⟨t, ht, rfl⟩
    have m1' : (keyOf t').1 ∈ U.map fun u => (keyOf u).1 := List.mem_map.mpr ⟨t', ht', rfl⟩
    have m2 : (keyOf t).2 ∈ U.map fun u => (keyOf u).2 := List.mem_map.mpr ⟨t, ht, rfl⟩
    have m2' : (keyOf t').2 ∈ U.map fun u => (keyOf u).2 := List.mem_map.mpr ⟨t', ht', rfl⟩
    exact Prod.ext (idxOf_inj m1 m1' h1) (idxOf_inj m2 m2' h2)
  · intro h
    simp only [encRoute, h, and_self]

theorem filter_enc (T : List String) (o : String) (hT : ∀ t ∈ T, t ∈ U) (ho : o ∈ U) :
    (T.filter (· != o)).map (encRoute keyOf U) = (T.map (encRoute keyOf U)).filter (· != encRoute keyOf U o) := by
  rw [List.filter_map]
  congr 1
  apply List.filter_congr
  intro t ht
  simp only [Function.comp]
  by_cases h : t = o
  · subst h
    simp only [bne_self_eq_false]
  · have : encRoute keyOf U t ≠ encRoute keyOf U o := fun hc => h (enc_inj (hT t ht) ho hc)
    have e1 : (encRoute keyOf U t != encRoute keyOf U o) = true := bne_iff_ne.mpr this
    have e2 : (t != o) = true := bne_iff_ne.mpr h
    rw [e1, e2]

/-- One accepted route command of the model is the abstract step on the encoded table. -/
theorem sim_step (T T' : List String) (a : MA) (h : rStep T a = some T') (hT : ∀ t ∈ T, t ∈ U)
    (ha : ∀ t ∈ actTexts a, t ∈ U) :
    T'.map (encRoute keyOf U) = rexec1 (T.map (encRoute keyOf U)) (encOp keyOf U a) ∧ (∀ t ∈ T', t ∈ U) ∧
      (∀ t ∈ T', t ∈ T ∨ t ∈ addedText a) ∧ (∀ t ∈ T, t ∈ T' ∨ t ∈ actTexts a) := by
  cases a with
  | route r =>
    simp only [rStep] at h
    split at h
    · cases h
    · injection h with h
      rw [← h]
      refine ⟨by simp [rexec1, encOp], ?_, ?_, ?_⟩
      · intro t ht
        rcases List.mem_append.mp ht with k | k
        · exact hT t k
        · exact ha t (by simpa [actTexts] using k)
      · intro t ht
        rcases List.mem_append.mp ht with k | k
        · exact Or.inl k
        · exact Or.inr (by simpa [addedText] using k)
      · intro t ht; exact Or.inl (List.mem_append_left _ ht)
  | noRoute r =>
    simp only [rStep] at h
    split at h
    · injection h with h
      rw [← h]
      refine ⟨?_, ?_, ?_, ?_⟩
      · simp only [rexec1, encOp]
        exact filter_enc T r hT (ha r (by simp [actTexts]))
      · intro t ht; exact hT t (List.mem_filter.mp ht).1
      · intro t ht; exact Or.inl (List.mem_filter.mp ht).1
      · intro t ht
        by_cases htr : t = r
        · exact Or.inr (by simp [actTexts, htr])
        · exact Or.inl (List.mem_filter.mpr ⟨ht, by simpa using htr⟩)
    · cases h
  | replRoute o n =>
    simp only [rStep] at h
    split at h
    · cases h
    · split at h
      · cases h
      · injection h with h
        rw [← h]
        refine ⟨?_, ?_, ?_, ?_⟩
        · simp only [rexec1, encOp, List.map_append, List.map_cons, List.map_nil]
          rw [filter_enc T o hT (ha o (by simp [actTexts]))]
        · intro t ht
          rcases List.mem_append.mp ht with k | k
          · exact hT t (List.mem_filter.mp k).1
          · exact ha t (by simp only [List.mem_singleton] at k; simp [actTexts, k])
        · intro t ht
          rcases List.mem_append.mp ht with k | k
          · exact Or.inl (List.mem_filter.mp k).1
          · exact Or.inr (by simpa [addedText] using k)
        · intro t ht
          by_cases hto : t = o
          · exact Or.inr (by simp [actTexts, hto])
          · exact Or.inl (List.mem_append_left _ (List.mem_filter.mpr ⟨ht, by simpa using hto⟩))
  | transfer _ _ => simp [rStep] at h
  | edit _ _ _ _ => simp [rStep] at h
  | bind _ _ _ => simp [rStep] at h
  | unbind _ _ _ => simp [rStep] at h
  | cleanup _ => simp [rStep] at h

theorem rRun_cons (T : List String) (a : MA) (acts : List MA) :
    rRun T (a :: acts) = (rStep T a).bind fun T1 => rRun T1 acts := by
  simp [rRun, List.foldlM_cons]

/-- The whole run: the final table, encoded, is the abstract fold; all tables stay in the universe. -/
theorem sim_run (acts : List MA) (T T' : List String) (h : rRun T acts = some T') (hT : ∀ t ∈ T, t ∈ U)
    (ha : ∀ a ∈ acts, ∀ t ∈ actTexts a, t ∈ U) :
    T'.map (encRoute keyOf U) = (acts.map (encOp keyOf U)).foldl rexec1 (T.map (encRoute keyOf U)) ∧ (∀ t ∈ T', t ∈ U) := by
  induction acts generalizing T with
  | nil =>
    have : T = T' := by simpa [rRun] using h
    rw [← this]; exact ⟨rfl, hT⟩
  | cons a acts ih =>
    rw [rRun_cons] at h
    cases h1 : rStep T a with
    | none => rw [h1] at h; cases h
    | some T1 =>
      rw [h1, Option.bind_some] at h
      obtain ⟨k1, k2, _, _⟩ := sim_step (keyOf := keyOf) T T1 a h1 hT (ha a (List.mem_cons_self ..))
      obtain ⟨j1, j2⟩ := ih T1 h k2 (fun a' ha' => ha a' (List.mem_cons_of_mem _ ha'))
      refine ⟨?_, j2⟩
      simp only [List.map_cons, List.foldl_cons]
      rw [j1, k1]

/-- Every prefix of an accepted run is accepted. -/
theorem rRun_take (acts : List MA) (T T' : List String) (h : rRun T acts = some T') (k : Nat) :
    ∃ Tk, rRun T (acts.take k) = some Tk ∧ rRun Tk (acts.drop k) = some T' := by
  induction acts generalizing T k with
  | nil => exact ⟨T, by simp [rRun], by simpa using h⟩
  | cons a acts ih =>
    cases k with
    | zero => exact ⟨T, by simp [rRun], by simpa using h⟩
    | succ k =>
      rw [rRun_cons] at h
      cases h1 : rStep T a with
      | none => rw [h1] at h; cases h
      | some T1 =>
        rw [h1, Option.bind_some] at h
        obtain ⟨Tk, j1, j2⟩ := ih T1 h k
        refine ⟨Tk, ?_, by simpa using j2⟩
        simp only [List.take_succ_cons]
        rw [rRun_cons, h1, Option.bind_some]; exact j1

/-- The table after a non-empty prefix, encoded, is one of the intermediate tables of the abstract trace. -/
theorem trace_mem (acts : List MA) (T Tk : List String) (k : Nat) (hk : 0 < k) (hk2 : k ≤ acts.length)
    (h : rRun T (acts.take k) = some Tk) (hT : ∀ t ∈ T, t ∈ U) (ha : ∀ a ∈ acts, ∀ t ∈ actTexts a, t ∈ U) :
    Tk.map (encRoute keyOf U) ∈ rtrace (T.map (encRoute keyOf U)) (acts.map (encOp keyOf U)) := by
  induction acts generalizing T k with
  | nil => simp at hk2; omega
  | cons a acts ih =>
    cases k with
    | zero => omega
    | succ k =>
      simp only [List.take_succ_cons] at h
      rw [rRun_cons] at h
      cases h1 : rStep T a with
      | none => rw [h1] at h; cases h
      | some T1 =>
        rw [h1, Option.bind_some] at h
        obtain ⟨k1, k2, _, _⟩ := sim_step (keyOf := keyOf) T T1 a h1 hT (ha a (List.mem_cons_self ..))
        simp only [List.map_cons, rtrace, List.mem_cons]
        by_cases hk0 : k = 0
        · left
          subst hk0
          have : T1 = Tk := by simpa [rRun] using h
          rw [← this, k1]
        · right
          rw [← k1]
          exact ih T1 k (by omega) (by simpa using hk2) h k2 (fun a' ha' => ha a' (List.mem_cons_of_mem _ ha'))

/-- A line of the final table that no command adds was there all the time. -/
theorem persist (acts : List MA) (T T' : List String) (h : rRun T acts = some T') (t : String) (ht : t ∈ T')
    (hadd : ∀ a ∈ acts, t ∉ addedText a) : t ∈ T := by
  induction acts generalizing T with
  | nil =>
    have : T = T' := by simpa [rRun] using h
    rw [this]; exact ht
  | cons a acts ih =>
    rw [rRun_cons] at h
    cases h1 : rStep T a with
    | none => rw [h1] at h; cases h
    | some T1 =>
      rw [h1, Option.bind_some] at h
      have h2 := ih T1 h (fun a' ha' => hadd a' (List.mem_cons_of_mem _ ha'))
      cases a with
      | route r =>
        simp only [rStep] at h1
        split at h1
        · cases h1
        · injection h1 with h1
          rw [← h1] at h2
          rcases List.mem_append.mp h2 with k | k
          · exact k
          · exact absurd (by simpa [addedText] using k) (hadd _ (List.mem_cons_self ..))
      | noRoute r =>
        simp only [rStep] at h1
        split at h1
        · injection h1 with h1
          rw [← h1] at h2
          exact (List.mem_filter.mp h2).1
        · cases h1
      | replRoute o n =>
        simp only [rStep] at h1
        split at h1
        · cases h1
        · split at h1
          · cases h1
          · injection h1 with h1
            rw [← h1] at h2
            rcases List.mem_append.mp h2 with k | k
            · exact (List.mem_filter.mp k).1
            · exact absurd (by simpa [addedText] using k) (hadd _ (List.mem_cons_self ..))
      | transfer _ _ => simp [rStep] at h1
      | edit _ _ _ _ => simp [rStep] at h1
      | bind _ _ _ => simp [rStep] at h1
      | unbind _ _ _ => simp [rStep] at h1
      | cleanup _ => simp [rStep] at h1

theorem covered_enc (T : List String) (hT : ∀ t ∈ T, t ∈ U) (t0 : String) (h0 : t0 ∈ U) :
    covered (T.map (encRoute keyOf U)) (encRoute keyOf U t0).vrf (encRoute keyOf U t0).dst = true ↔
      ∃ t ∈ T, keyOf t = keyOf t0 := by
  simp only [covered, List.any_map, List.any_eq_true, Function.comp, Bool.and_eq_true, beq_iff_eq]
  constructor
  · rintro ⟨t, ht, h1, h2⟩
    exact ⟨t, ht, (enc_key (hT t ht) h0).mp ⟨h1, h2⟩⟩
  · rintro ⟨t, ht, hk⟩
    obtain ⟨h1, h2⟩ := (enc_key (keyOf := keyOf) (hT t ht) h0).mpr hk
    exact ⟨t, ht, h1, h2⟩

/-- **Coverage at every step**, route-table level.  `al`/`bl`: compared device routes / target routes
(sorted), `R`: all route lines of the device, `keyOf`: (VRF, destination) of a route line as the
parser reads it.  Every command of the plan is accepted; after each command (`take k`: a
replacement is ONE command) every destination that has a route before (`t0 ∈ R`) and after the whole
plan has a route.  The three hypotheses of `NA.Route.routes_covered` are proved for the encoded plan. -/
theorem routes_covered_every_step (al bl : List Route) (R : List String) (keyOf : String → String × String)
    (h : RoutesWF al bl R) (hkey : ∀ r ∈ al ++ bl, keyOf r.text = r.key) :
    ∃ R' pa pb, (routePlan al bl).1 = pa ++ pb ∧ rRun R (routePlan al bl).1 = some R' ∧
      phaseA (pa.map (encOp keyOf (R ++ bl.map (·.text)))) = true ∧
      phaseB ((bl.map (·.text)).map (encRoute keyOf (R ++ bl.map (·.text)))) (pb.map (encOp keyOf (R ++ bl.map (·.text)))) = true ∧
      (∀ r ∈ (bl.map (·.text)).map (encRoute keyOf (R ++ bl.map (·.text))),
        r ∈ (pa.map (encOp keyOf (R ++ bl.map (·.text)))).foldl rexec1 (R.map (encRoute keyOf (R ++ bl.map (·.text))))) ∧
      ∀ k, ∃ Rk, rRun R ((routePlan al bl).1.take k) = some Rk ∧
        ∀ t0 ∈ R, (∃ t ∈ R', keyOf t = keyOf t0) → ∃ t ∈ Rk, keyOf t = keyOf t0 := by
  obtain ⟨R', pa, pb, Ra, hplan, hrunA, hrunB, hshA, hshB, hallT, hchar⟩ := routes_run_full al bl R h
  obtain ⟨U, hU⟩ : ∃ U, U = R ++ bl.map (·.text) := ⟨_, rfl⟩
  rw [← hU]
  have hRU : ∀ t ∈ R, t ∈ U := fun t ht => by rw [hU]; exact List.mem_append_left _ ht
  have hBU : ∀ r ∈ bl, r.text ∈ U := fun r hr => by rw [hU]; exact List.mem_append_right _ (List.mem_map_of_mem hr)
  have hAU : ∀ o ∈ al, o.text ∈ U := fun o ho => hRU _ (h.aIn o ho)
  have htA : ∀ a ∈ pa, ∀ t ∈ actTexts a, t ∈ U := by
    intro a ha t ht
    rcases hshA a ha with ⟨r, hr, rfl⟩ | ⟨o, ho, r, hr, rfl, _⟩
    · simp only [actTexts, List.mem_singleton] at ht; rw [ht]; exact hBU r hr
    · simp only [actTexts, List.mem_cons, List.not_mem_nil, or_false] at ht
      rcases ht with rfl | rfl
      · exact hAU o ho
      · exact hBU r hr
  have htB : ∀ a ∈ pb, ∀ t ∈ actTexts a, t ∈ U := by
    intro a ha t ht
    obtain ⟨o, ho, rfl, _⟩ := hshB a ha
    simp only [actTexts, List.mem_singleton] at ht; rw [ht]; exact hAU o ho
  have hrun : rRun R (routePlan al bl).1 = some R' := by rw [hplan, rRun_append, hrunA]; exact hrunB
  obtain ⟨simA, hRaU⟩ := sim_run (keyOf := keyOf) pa R Ra hrunA hRU htA
  -- the three hypotheses of `NA.Route.routes_covered`
  have hA : phaseA (pa.map (encOp keyOf U)) = true := by
    simp only [phaseA, List.all_map, List.all_eq_true, Function.comp]
    intro a ha
    rcases hshA a ha with ⟨r, hr, rfl⟩ | ⟨o, ho, r, hr, rfl, hk⟩
    · rfl
    · have hk' : keyOf o.text = keyOf r.text := by
        rw [hkey o (List.mem_append_left _ ho), hkey r (List.mem_append_right _ hr), hk]
      obtain ⟨e1, e2⟩ := (enc_key (keyOf := keyOf) (hAU o ho) (hBU r hr)).mpr hk'
      simp only [encOp, e1, e2, beq_self_eq_true, Bool.and_self]
  have hB : phaseB ((bl.map (·.text)).map (encRoute keyOf U)) (pb.map (encOp keyOf U)) = true := by
    simp only [phaseB, List.all_map, List.all_eq_true, Function.comp]
    intro a ha
    obtain ⟨o, ho, rfl, hnot⟩ := hshB a ha
    simp only [encOp, Bool.not_eq_true']
    rw [Bool.eq_false_iff]
    intro hc
    obtain ⟨t, ht, het⟩ := List.mem_map.mp (List.contains_iff_mem.mp hc)
    obtain ⟨r, hr, rfl⟩ := List.mem_map.mp ht
    exact hnot (by rw [← enc_inj (hBU r hr) (hAU o ho) het]; exact List.mem_map_of_mem hr)
  have hall : ∀ r ∈ (bl.map (·.text)).map (encRoute keyOf U),
      r ∈ (pa.map (encOp keyOf U)).foldl rexec1 (R.map (encRoute keyOf U)) := by
    intro r hr
    obtain ⟨t, ht, rfl⟩ := List.mem_map.mp hr
    obtain ⟨b, hb, rfl⟩ := List.mem_map.mp ht
    rw [← simA]
    exact List.mem_map_of_mem (hallT b hb)
  refine ⟨R', pa, pb, hplan, hrun, hA, hB, hall, ?_⟩
  intro k
  obtain ⟨Rk, hk1, hk2⟩ := rRun_take _ R R' hrun k
  refine ⟨Rk, hk1, ?_⟩
  intro t0 ht0 ⟨t, htR', htk⟩
  -- only `min k (length)` commands matter
  obtain ⟨k', hk'⟩ : ∃ k', k' = min k (routePlan al bl).1.length := ⟨_, rfl⟩
  have htake : (routePlan al bl).1.take k = (routePlan al bl).1.take k' := by
    rw [hk']
    by_cases hc : k ≤ (routePlan al bl).1.length
    · rw [Nat.min_eq_left hc]
    · rw [Nat.min_eq_right (by omega), List.take_of_length_le (by omega), List.take_length]
  have hk'le : k' ≤ pa.length + pb.length := by
    rw [hk', hplan, List.length_append]; exact Nat.min_le_right _ _
  rw [htake] at hk1
  by_cases hk0 : k' = 0
  · rw [hk0] at hk1
    have : R = Rk := by simpa [rRun] using hk1
    rw [← this]; exact ⟨t0, ht0, rfl⟩
  by_cases htb : t ∈ bl.map (·.text)
  · -- covered by a target route afterwards: `routes_covered`
    have hold : covered (R.map (encRoute keyOf U)) (encRoute keyOf U t0).vrf (encRoute keyOf U t0).dst = true :=
      (covered_enc R hRU t0 (hRU t0 ht0)).mpr ⟨t0, ht0, rfl⟩
    have hnew : covered ((bl.map (·.text)).map (encRoute keyOf U)) (encRoute keyOf U t0).vrf (encRoute keyOf U t0).dst = true :=
      (covered_enc (bl.map (·.text)) (fun x hx => by
        obtain ⟨r, hr, rfl⟩ := List.mem_map.mp hx; exact hBU r hr) t0 (hRU t0 ht0)).mpr ⟨t, htb, htk⟩
    have hcov := NA.Route.routes_covered (R.map (encRoute keyOf U)) ((bl.map (·.text)).map (encRoute keyOf U))
      (pa.map (encOp keyOf U)) (pb.map (encOp keyOf U)) _ _ hA hB hall hold hnew
    -- the table after `k` commands is in the trace
    have hRkU : ∀ x ∈ Rk, x ∈ U := by
      have hall_texts : ∀ a ∈ (routePlan al bl).1.take k', ∀ x ∈ actTexts a, x ∈ U := by
        intro a ha x hx
        have ha' : a ∈ (routePlan al bl).1 := List.mem_of_mem_take ha
        rw [hplan] at ha'
        rcases List.mem_append.mp ha' with k'' | k''
        · exact htA a k'' x hx
        · exact htB a k'' x hx
      exact (sim_run (keyOf := keyOf) _ R Rk hk1 hRU hall_texts).2
    have hmem : Rk.map (encRoute keyOf U) ∈ rtrace (R.map (encRoute keyOf U)) (pa.map (encOp keyOf U)) ++
        rtrace ((pa.map (encOp keyOf U)).foldl rexec1 (R.map (encRoute keyOf U))) (pb.map (encOp keyOf U)) := by
      by_cases hle : k' ≤ pa.length
      · apply List.mem_append_left
        have : (routePlan al bl).1.take k' = pa.take k' := by
          rw [hplan, List.take_append_of_le_length hle]
        rw [this] at hk1
        exact trace_mem pa R Rk k' (by omega) hle hk1 hRU htA
      · apply List.mem_append_right
        rw [← simA]
        have : (routePlan al bl).1.take k' = pa ++ pb.take (k' - pa.length) := by
          rw [hplan, List.take_append, List.take_of_length_le (by omega)]
        rw [this, rRun_append, hrunA] at hk1
        exact trace_mem pb Ra Rk (k' - pa.length) (by omega) (by omega) hk1 hRaU htB
    exact (covered_enc Rk hRkU t0 (hRU t0 ht0)).mp (hcov _ hmem)
  · -- covered afterwards by a line that is not a target route: it was never touched
    refine ⟨t, ?_, htk⟩
    apply persist _ Rk R' hk2 t htR'
    intro a ha hc
    have ha' : a ∈ (routePlan al bl).1 := List.mem_of_mem_drop ha
    rw [hplan] at ha'
    rcases List.mem_append.mp ha' with k' | k'
    · rcases hshA a k' with ⟨r, hr, rfl⟩ | ⟨o, ho, r, hr, rfl, _⟩
      · simp only [addedText, List.mem_singleton] at hc
        exact htb (hc ▸ List.mem_map_of_mem hr)
      · simp only [addedText, List.mem_singleton] at hc
        exact htb (hc ▸ List.mem_map_of_mem hr)
    · obtain ⟨o, ho, rfl, _⟩ := hshB a k'
      simp [addedText] at hc

end NA.F2
