import NA.Proofs.IosConvExec
import NA.Proofs.IosConvBlock
/-!
Helpers for the convergence of the IOS planner, part 4: suppressed moves.

A suppressed move leaves a line at its old position `d` instead of its new position `j`.
If every line that is present between the two positions has the same action (or is a remark),
the two lists are `BlockEq`.  `finalMask_blockEq`: the final device list of a plan with
suppressed moves is `BlockEq` to the target, provided every suppressed move satisfies that
condition (`SupprOK`).
-/
namespace NA.Acl

attribute [-simp] List.getD_eq_getElem?_getD

theorem getD_cons_zero' (m : Bool) (μ : List Bool) : (m :: μ).getD 0 false = m := by
  simp [List.getD_eq_getElem?_getD]

theorem getD_cons_succ'' (m : Bool) (μ : List Bool) (k : Nat) :
    (m :: μ).getD (k + 1) false = μ.getD k false := by
  simp [List.getD_eq_getElem?_getD]

/-- Pull the present line at `d` to the front, across the present lines before it. -/
theorem pick_pull_front (L : List Line) (μ : List Bool) (d : Nat) (hd : d < L.length)
    (hl : μ.length = L.length) (ht : μ.getD d false = true)
    (hsw : ∀ k, (hk : k < L.length) → k < d → μ.getD k false = true → swappable L[d] L[k]) :
    BlockEq (pick L μ) (L[d] :: pick L (μ.set d false)) := by
  induction L generalizing μ d with
  | nil => simp at hd
  | cons y L ih =>
    cases μ with
    | nil => simp at hl
    | cons m ν =>
      cases d with
      | zero =>
        rw [getD_cons_zero'] at ht
        subst ht
        simp only [List.getElem_cons_zero, List.set_cons_zero, pick]
        exact BlockEq.refl _
      | succ e =>
        have he : e < L.length := by simpa using hd
        rw [getD_cons_succ''] at ht
        have ih' := ih ν e he (by simpa using hl) ht (by
          intro k hk hke hp
          have := hsw (k + 1) (by simpa using hk) (by omega) (by rw [getD_cons_succ'']; exact hp)
          simpa using this)
        simp only [List.getElem_cons_succ, List.set_cons_succ]
        cases m with
        | false => simpa [pick] using ih'
        | true =>
          simp only [pick]
          have hs : swappable L[e] y := by
            have := hsw 0 (by simp) (by omega) (by rw [getD_cons_zero'])
            simpa using this
          exact (ih'.cons y).trans (BlockEq.swap [] _ y L[e] (swappable_symm hs))

theorem set_self_false (μ : List Bool) (j : Nat) (h : μ.getD j false = false) : μ.set j false = μ := by
  apply List.ext_getElem
  · simp
  · intro i h1 h2
    rw [List.getElem_set]
    split
    · rename_i hji
      subst hji
      have : μ.getD j false = μ[j] := by simp [List.getD_eq_getElem?_getD, h2]
      rw [← this, h]
    · rfl

/-- Push a line from the front down to the absent position `j`. -/
theorem pick_push_front (L : List Line) (μ : List Bool) (j : Nat) (hj : j < L.length)
    (hl : μ.length = L.length) (hf : μ.getD j false = false)
    (hsw : ∀ k, (hk : k < L.length) → k < j → μ.getD k false = true → swappable L[j] L[k]) :
    BlockEq (L[j] :: pick L μ) (pick L (μ.set j true)) := by
  have h := pick_pull_front L (μ.set j true) j hj (by simpa using hl)
    (by rw [getD_set]; simp [hl, hj])
    (by
      intro k hk hkj hp
      rw [getD_set] at hp
      have : j ≠ k := by omega
      simp only [this, false_and, if_false] at hp
      exact hsw k hk hkj hp)
  rw [List.set_set, set_self_false μ j hf] at h
  exact h.symm

/-- The lines at absent `j` and present `d > j` are `E`-related: moving it up. -/
theorem pick_move_up (E : Line → Line → Prop) (L : List Line) (μ : List Bool) (j d : Nat)
    (hjd : j < d) (hd : d < L.length)
    (hl : μ.length = L.length) (hf : μ.getD j false = false) (ht : μ.getD d false = true)
    (heq : E L[d] L[j])
    (hsw : ∀ k, (hk : k < L.length) → j < k → k < d → μ.getD k false = true → swappable L[d] L[k]) :
    BlockEqG E (pick L μ) (pick L ((μ.set d false).set j true)) := by
  induction L generalizing μ j d with
  | nil => simp at hd
  | cons y L ih =>
    cases μ with
    | nil => simp at hl
    | cons m ν =>
      cases d with
      | zero => omega
      | succ e =>
        have he : e < L.length := by simpa using hd
        rw [getD_cons_succ''] at ht
        cases j with
        | zero =>
          rw [getD_cons_zero'] at hf
          subst hf
          simp only [List.getElem_cons_zero, List.getElem_cons_succ] at heq
          simp only [List.set_cons_succ, List.set_cons_zero, pick]
          refine BlockEqG.trans (BlockEq.toG E ?_) (BlockEqG.repl [] _ L[e] y heq)
          apply pick_pull_front L ν e he (by simpa using hl) ht
          intro k hk hke hp
          have := hsw (k + 1) (by simpa using hk) (by omega) (by omega)
            (by rw [getD_cons_succ'']; exact hp)
          simpa using this
        | succ i =>
          rw [getD_cons_succ''] at hf
          simp only [List.getElem_cons_succ] at heq
          have ih' := ih ν i e (by omega) he (by simpa using hl) hf ht heq (by
            intro k hk hik hke hp
            have := hsw (k + 1) (by simpa using hk) (by omega) (by omega)
              (by rw [getD_cons_succ'']; exact hp)
            simpa using this)
          simp only [List.set_cons_succ]
          cases m with
          | false => simpa [pick] using ih'
          | true => simpa [pick] using ih'.cons y

/-- The same, moving down (`d < j`). -/
theorem pick_move_down (E : Line → Line → Prop)
    (hEsw : ∀ a b c, E a b → swappable a c → swappable b c)
    (L : List Line) (μ : List Bool) (j d : Nat) (hdj : d < j) (hj : j < L.length)
    (hl : μ.length = L.length) (hf : μ.getD j false = false) (ht : μ.getD d false = true)
    (heq : E L[d] L[j])
    (hsw : ∀ k, (hk : k < L.length) → d < k → k < j → μ.getD k false = true → swappable L[d] L[k]) :
    BlockEqG E (pick L μ) (pick L ((μ.set d false).set j true)) := by
  induction L generalizing μ j d with
  | nil => simp at hj
  | cons y L ih =>
    cases μ with
    | nil => simp at hl
    | cons m ν =>
      cases j with
      | zero => omega
      | succ e =>
        have he : e < L.length := by simpa using hj
        rw [getD_cons_succ''] at hf
        cases d with
        | zero =>
          rw [getD_cons_zero'] at ht
          subst ht
          simp only [List.getElem_cons_zero, List.getElem_cons_succ] at heq
          simp only [List.set_cons_succ, List.set_cons_zero, pick]
          refine BlockEqG.trans (BlockEqG.repl [] _ y L[e] heq) (BlockEq.toG E ?_)
          apply pick_push_front L ν e he (by simpa using hl) hf
          intro k hk hke hp
          have := hsw (k + 1) (by simpa using hk) (by omega) (by omega)
            (by rw [getD_cons_succ'']; exact hp)
          simp only [List.getElem_cons_zero, List.getElem_cons_succ] at this
          exact hEsw _ _ _ heq this
        | succ i =>
          rw [getD_cons_succ''] at ht
          simp only [List.getElem_cons_succ] at heq
          have ih' := ih ν e i (by omega) he (by simpa using hl) hf ht heq (by
            intro k hk hik hke hp
            have := hsw (k + 1) (by simpa using hk) (by omega) (by omega)
              (by rw [getD_cons_succ'']; exact hp)
            simpa using this)
          simp only [List.set_cons_succ]
          cases m with
          | false => simpa [pick] using ih'
          | true => simpa [pick] using ih'.cons y

/-- Both directions, on cells. -/
theorem masked_move (E : Line → Line → Prop)
    (hEsw : ∀ a b c, E a b → swappable a c → swappable b c)
    (M : List Cell) (μ : List Bool) (j d : Nat) (hj : j < M.length) (hd : d < M.length)
    (hl : μ.length = M.length) (hf : μ.getD j false = false) (ht : μ.getD d false = true)
    (heq : E (M.getD d default).line (M.getD j default).line)
    (hsw : ∀ k, k < M.length → (j < k ∧ k < d ∨ d < k ∧ k < j) → μ.getD k false = true →
      swappable (M.getD d default).line (M.getD k default).line) :
    BlockEqG E (masked M μ) (masked M ((μ.set d false).set j true)) := by
  rw [masked_eq_pick, masked_eq_pick]
  have hg : ∀ k (hk : k < (M.map (·.line)).length), (M.map (·.line))[k] = (M.getD k default).line := by
    intro k hk
    have : k < M.length := by simpa using hk
    simp [List.getD_eq_getElem?_getD, this]
  have hjd : j ≠ d := by intro e; subst e; rw [hf] at ht; exact Bool.noConfusion ht
  rcases Nat.lt_or_gt_of_ne hjd with h | h
  · apply pick_move_up E _ μ j d h (by simpa using hd) (by simpa using hl) hf ht
    · rw [hg, hg]; exact heq
    · intro k hk h1 h2 hp
      rw [hg, hg]
      exact hsw k (by simpa using hk) (Or.inl ⟨h1, h2⟩) hp
  · apply pick_move_down E hEsw _ μ j d h (by simpa using hj) (by simpa using hl) hf ht
    · rw [hg, hg]; exact heq
    · intro k hk h1 h2 hp
      rw [hg, hg]
      exact hsw k (by simpa using hk) (Or.inr ⟨h1, h2⟩) hp

/-! ### From the final device list to the target, one suppressed move at a time -/

/-- Every suppressed move (new-only `j ∈ S`, deleted partner `d`) keeps an `E`-related line, and every cell
strictly between the two positions that belongs to the target, or is itself kept by a suppressed
move, may be swapped with it. -/
def SupprOK (E : Line → Line → Prop) (M : List Cell) (S : List Nat) : Prop :=
  ∀ j ∈ S, ∃ d ∈ delIdx M, (M.getD d default).line.mkey = (M.getD j default).line.mkey ∧
    E (M.getD d default).line (M.getD j default).line ∧
    ∀ k, k < M.length → (j < k ∧ k < d ∨ d < k ∧ k < j) →
      ((M.getD k default).new = true ∨
        ∃ j' ∈ S, (M.getD j' default).line.mkey = (M.getD k default).line.mkey) →
      swappable (M.getD d default).line (M.getD k default).line

theorem finalMask_present {M : List Cell} {S : List Nat} {k : Nat} (hk : k < M.length)
    (hp : (finalMask M S).getD k false = true) :
    (M.getD k default).new = true ∨
      ∃ j' ∈ S, (M.getD j' default).line.mkey = (M.getD k default).line.mkey := by
  rw [finalMask_getD M S k hk] at hp
  cases hn : (M.getD k default).new with
  | true => exact Or.inl rfl
  | false =>
    right
    simp only [hn, Bool.false_eq_true, if_false, Bool.and_eq_true, List.any_eq_true, beq_iff_eq] at hp
    exact hp.2

theorem finalMask_step (M : List Cell) (hno : ((olds M).map (·.mkey)).Nodup)
    (hnn : ((news M).map (·.mkey)).Nodup) (j : Nat) (S : List Nat) (hj : j ∈ addIdx M)
    (hjS : j ∉ S) (hS : ∀ j' ∈ S, j' ∈ addIdx M) (d : Nat) (hd : d ∈ delIdx M)
    (hm : (M.getD d default).line.mkey = (M.getD j default).line.mkey) :
    finalMask M S = ((finalMask M (j :: S)).set d false).set j true := by
  obtain ⟨hjl, hjn⟩ := mem_addIdxI.mp hj
  obtain ⟨hdl, hdo⟩ := mem_delIdxI.mp hd
  simp only [Cell.newOnly, Cell.oldOnly, Bool.and_eq_true, Bool.not_eq_true'] at hjn hdo
  apply List.ext_getElem
  · simp [finalMask]
  · intro i h1 h2
    have hi : i < M.length := by simpa [finalMask] using h1
    have e1 : (finalMask M S)[i] = (finalMask M S).getD i false := by
      simp [List.getD_eq_getElem?_getD, h1]
    have e2 : (((finalMask M (j :: S)).set d false).set j true)[i] =
        (((finalMask M (j :: S)).set d false).set j true).getD i false := by
      rw [List.getD_eq_getElem?_getD, List.getElem?_eq_getElem h2]; rfl
    have hlen : (finalMask M (j :: S)).length = M.length := by simp [finalMask]
    rw [e1, e2, getD_set, getD_set, finalMask_getD M S i hi, finalMask_getD M (j :: S) i hi]
    simp only [List.length_set, hlen]
    by_cases hji : j = i
    · subst hji
      simp [hjn.1, hjl, hjS]
    · simp only [hji, false_and, if_false]
      by_cases hdi : d = i
      · subst hdi
        simp only [hdl, and_self, if_true, hdo.2, Bool.false_eq_true, if_false, hdo.1, Bool.true_and]
        rw [List.any_eq_false]
        intro j' hj' hcon
        simp only [beq_iff_eq] at hcon
        obtain ⟨hjl', hjn'⟩ := mem_addIdxI.mp (hS j' hj')
        simp only [Cell.newOnly, Bool.and_eq_true] at hjn'
        have := new_mkey_inj M hnn hjl' hjl hjn'.1 hjn.1 (by rw [hcon, hm])
        subst this
        exact hjS hj'
      · simp only [hdi, false_and, if_false]
        cases hn : (M.getD i default).new with
        | true =>
          have : i ≠ j := fun e : i = j => hji e.symm
          simp [this]
        | false =>
          cases ho : (M.getD i default).old with
          | false => simp
          | true =>
            have : ((M.getD j default).line.mkey == (M.getD i default).line.mkey) = false := by
              rw [beq_eq_false_iff_ne]
              intro hcon
              exact hdi (old_mkey_inj M hno hdl hi hdo.1 ho (by rw [hm, hcon]))
            simp [List.any_cons, this]

/-- The final device list of a plan with suppressed moves `S` is block-equivalent (modulo `E`) to
the target if every suppressed move is harmless (`SupprOK`). -/
theorem finalMask_blockEq (E : Line → Line → Prop)
    (hEsw : ∀ a b c, E a b → swappable a c → swappable b c)
    (M : List Cell) (hno : ((olds M).map (·.mkey)).Nodup)
    (hnn : ((news M).map (·.mkey)).Nodup) (S : List Nat) (hS : ∀ j ∈ S, j ∈ addIdx M)
    (hnd : S.Nodup) (hok : SupprOK E M S) :
    BlockEqG E (masked M (finalMask M S)) (news M) := by
  induction S with
  | nil => rw [finalMask_nil, masked_new]; exact BlockEqG.refl _
  | cons j S ih =>
    obtain ⟨hjS, hnd'⟩ := List.nodup_cons.mp hnd
    have hj : j ∈ addIdx M := hS j List.mem_cons_self
    have hS' : ∀ j' ∈ S, j' ∈ addIdx M := fun j' h => hS j' (List.mem_cons_of_mem _ h)
    obtain ⟨d, hd, hm, hline, hsw⟩ := hok j List.mem_cons_self
    obtain ⟨hjl, hjn⟩ := mem_addIdxI.mp hj
    obtain ⟨hdl, hdo⟩ := mem_delIdxI.mp hd
    simp only [Cell.newOnly, Cell.oldOnly, Bool.and_eq_true, Bool.not_eq_true'] at hjn hdo
    have hok' : SupprOK E M S := by
      intro j' hj'
      obtain ⟨d', hd', hm', hline', hsw'⟩ := hok j' (List.mem_cons_of_mem _ hj')
      refine ⟨d', hd', hm', hline', ?_⟩
      intro k hk hb hp
      apply hsw' k hk hb
      rcases hp with hp | ⟨j'', hj'', hm''⟩
      · exact Or.inl hp
      · exact Or.inr ⟨j'', List.mem_cons_of_mem _ hj'', hm''⟩
    refine BlockEqG.trans ?_ (ih hS' hnd' hok')
    rw [finalMask_step M hno hnn j S hj hjS hS' d hd hm]
    apply masked_move E hEsw M _ j d hjl hdl (by simp [finalMask])
    · rw [finalMask_getD M _ j hjl]
      simp [hjn.1, hjn.2]
    · rw [finalMask_getD M _ d hdl]
      simp [hdo.1, hdo.2, hm]
    · exact hline
    · intro k hk hb hp
      exact hsw k hk hb (finalMask_present hk hp)

end NA.Acl
