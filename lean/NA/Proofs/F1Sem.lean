import NA.Proofs.F1DevGroups
import NA.Proofs.F1Names
/-!
# F1: semantic invariant between the engine's marks and the strict device (object-groups)

`Sem e st d`: the device groups of the original configuration still exist; a group that is not `needed`
still has its original members; every `ready` target group carries a name whose device group exists, has
the target's members and is frozen (it is `needed` or was created by this run, so nothing edits it any
more); a target group that is not `ready` still carries its generated name, which does not exist yet.
-/
namespace NA.F1
open NA.AsaDev
open NA.Acl (Range)

def Frozen (e : Env) (st : St) (x : Name) : Prop := x ∈ st.gNeeded ∨ x ∉ D0 e

def BNames (e : Env) : List Name := e.b.groups.map (·.1)

/-- Static well-formedness of the input. -/
structure WF (e : Env) : Prop where
  aNodup : ∀ g, (lookupD e.a.groups g).Nodup
  bNodup : ∀ g, (lookupD e.b.groups g).Nodup
  noEmptyName : "" ∉ D0 e
  /-- whenever the in-place edit can be taken, the passed script is a script for the two sorted member
  lists and does not delete and insert one member -/
  grpScripts : ∀ aN bN, aN ∈ D0 e → bN ∈ BNames e →
    (scriptStat (lookupD e.sc.grp (aN, bN))).1 + (scriptStat (lookupD e.sc.grp (aN, bN))).2 ≤ (e.bMembers bN).length →
    scriptOK (e.aMembers aN) (e.bMembers bN) (lookupD e.sc.grp (aN, bN)) 0 0 = true ∧
    ∀ m ∈ inssOf (e.bMembers bN) (lookupD e.sc.grp (aN, bN)), m ∉ delsOf (e.aMembers aN) (lookupD e.sc.grp (aN, bN))

/-- Decidable form of `WF` (evaluated by the driver on every case). -/
def wfB (e : Env) : Bool :=
  e.a.groups.all (fun p => decide p.2.Nodup) && e.b.groups.all (fun p => decide p.2.Nodup) &&
  !(D0 e).contains "" &&
  (D0 e).all fun aN => (BNames e).all fun bN =>
    !(decide ((scriptStat (lookupD e.sc.grp (aN, bN))).1 + (scriptStat (lookupD e.sc.grp (aN, bN))).2 ≤ (e.bMembers bN).length)) ||
    (scriptOK (e.aMembers aN) (e.bMembers bN) (lookupD e.sc.grp (aN, bN)) 0 0 &&
      (inssOf (e.bMembers bN) (lookupD e.sc.grp (aN, bN))).all fun m =>
        !(delsOf (e.aMembers aN) (lookupD e.sc.grp (aN, bN))).contains m)


/-- Device lines of target lines reference groups of the target (decidable form). -/
def refsClosedB (e : Env) : Bool :=
  e.b.acls.all fun a => a.2.all fun l => l.refs.all (BNames e).contains


/-- The bodies were split at their `$REF` placeholders: one more part than references. -/
def RefsMatchBody (ls : List Line) : Prop := ∀ l ∈ ls, l.refs.length + 1 = l.body.length


def refsMatchBodyB (ls : List Line) : Bool := ls.all fun l => l.refs.length + 1 == l.body.length

theorem RefsMatchBody.of_check {ls : List Line} (h : refsMatchBodyB ls = true) : RefsMatchBody ls := by
  intro l hl
  have := List.all_eq_true.mp h l hl
  simpa using this

/-- The class K1: device and target bind exactly one access list, at the same place; no routes; the passed
script of the pair keeps at least one line. -/
structure K1 (a b : Config) (sc : Scripts) (aAcl bAcl dir intf : Name) : Prop where
  abind : a.binds = [⟨aAcl, dir, intf⟩]
  bbind : b.binds = [⟨bAcl, dir, intf⟩]
  aroutes : a.routes = []
  broutes : b.routes = []
  hasEq : (lookupD sc.acl (aAcl, bAcl)).any (·.isEqual) = true


/-- The state in which `diffASAACLs` is called in class K1. -/
def k1Pre (e : Env) (st0 : St) (aAcl bAcl : Name) : St :=
  ({ st0 with bNeeded := [0], aName := (bAcl, aAcl) :: st0.aName }.hit "acl:incremental").hit
    (planCheck e { st0 with bNeeded := [0] } aAcl bAcl (lookupD e.sc.acl (aAcl, bAcl)))


/-- Decidable form of all hypotheses of the end-to-end theorem of class K1 (counted by the driver). -/
def k1Check (a b : Config) (sc : Scripts) : Bool :=
  match a.binds, b.binds with
  | [x], [y] =>
    x.dir == y.dir && x.intf == y.intf && a.routes.isEmpty && b.routes.isEmpty &&
    (lookupD sc.acl (x.acl, y.acl)).any (·.isEqual) &&
    wfB ⟨a, b, sc⟩ && refsClosedA ⟨a, b, sc⟩ && refsClosedB ⟨a, b, sc⟩ &&
    decide (a.acls.map (·.1)).Nodup && decide (a.groups.map (·.1)).Nodup &&
    refsMatchBodyB ((⟨a, b, sc⟩ : Env).aLines x.acl) && refsMatchBodyB ((⟨a, b, sc⟩ : Env).bLines y.acl) &&
    (a.acls.map (·.1)).contains x.acl &&
    scriptOK (((⟨a, b, sc⟩ : Env).aLines x.acl).map (·.body)) (((⟨a, b, sc⟩ : Env).bLines y.acl).map (·.body))
      (lookupD sc.acl (x.acl, y.acl)) 0 0 &&
    planCheck ⟨a, b, sc⟩ (k1Pre ⟨a, b, sc⟩ (generateNames ⟨a, b, sc⟩ {}) x.acl y.acl) x.acl y.acl
      (lookupD sc.acl (x.acl, y.acl)) == "hyp:ok"
  | _, _ => false

structure Sem (e : Env) (st : St) (d : Dev) : Prop where
  mode : ModeRel st d
  dev : ∀ g ∈ D0 e, hasGroup d g = true
  untouched : ∀ g ∈ D0 e, g ∉ st.gNeeded → membersOf d g = lookupD e.a.groups g
  ready : ∀ bN ∈ st.gReady, hasGroup d (st.gNameOf bN) = true ∧
    (membersOf d (st.gNameOf bN)).Perm (lookupD e.b.groups bN) ∧ Frozen e st (st.gNameOf bN)
  unready : ∀ bN ∈ BNames e, bN ∉ st.gReady →
    st.gNameOf bN = genName bN (D0 e) ∧ hasGroup d (genName bN (D0 e)) = false

/-- One step of the engine that touches only object-groups on the device. -/
structure GStep (e : Env) (st : St) (d : Dev) (st' : St) (d' : Dev) : Prop where
  sem : Sem e st' d'
  out : ∃ cs, st'.out = st.out ++ cs ∧ exec d cs = some d'
  stable : ∀ x, hasGroup d x = true → Frozen e st x → membersOf d' x = membersOf d x
  hasMono : ∀ x, hasGroup d x = true → hasGroup d' x = true
  grow : ∀ x ∈ st.gNeeded, x ∈ st'.gNeeded
  readyMono : ∀ g ∈ st.gReady, g ∈ st'.gReady
  acls : d'.acls = d.acls
  binds : d'.binds = d.binds
  routes : d'.routes = d.routes
  intfs : d'.intfs = d.intfs

theorem Frozen.mono {e : Env} {st st' : St} {x : Name} (h : Frozen e st x) (hg : ∀ y ∈ st.gNeeded, y ∈ st'.gNeeded) :
    Frozen e st' x := by
  rcases h with h | h
  · exact Or.inl (hg x h)
  · exact Or.inr h

theorem GStep.refl {e : Env} {st : St} {d : Dev} (h : Sem e st d) : GStep e st d st d :=
  ⟨h, ⟨[], by simp, exec_nil d⟩, fun _ _ _ => rfl, fun _ h => h, fun _ h => h, fun _ h => h, rfl, rfl, rfl, rfl⟩

theorem GStep.trans {e : Env} {s1 s2 s3 : St} {d1 d2 d3 : Dev} (h1 : GStep e s1 d1 s2 d2) (h2 : GStep e s2 d2 s3 d3) :
    GStep e s1 d1 s3 d3 := by
  obtain ⟨c1, o1, e1⟩ := h1.out
  obtain ⟨c2, o2, e2⟩ := h2.out
  refine ⟨h2.sem, ⟨c1 ++ c2, by rw [o2, o1, List.append_assoc], exec_append_some e1 e2⟩, ?_, ?_, ?_, ?_,
    h2.acls.trans h1.acls, h2.binds.trans h1.binds, h2.routes.trans h1.routes, h2.intfs.trans h1.intfs⟩
  · intro x hx hf
    rw [h2.stable x (h1.hasMono x hx) (hf.mono h1.grow), h1.stable x hx hf]
  · exact fun x hx => h2.hasMono x (h1.hasMono x hx)
  · exact fun x hx => h2.grow x (h1.grow x hx)
  · exact fun x hx => h2.readyMono x (h1.readyMono x hx)

/-- A step that changes marks only (same script, same device). -/
theorem GStep.marks {e : Env} {st st' : St} {d : Dev} (h : Sem e st' d) (ho : st'.out = st.out)
    (hg : ∀ x ∈ st.gNeeded, x ∈ st'.gNeeded) (hr : ∀ x ∈ st.gReady, x ∈ st'.gReady) : GStep e st d st' d :=
  ⟨h, ⟨[], by simp [ho], exec_nil d⟩, fun _ _ _ => rfl, fun _ h => h, hg, hr, rfl, rfl, rfl, rfl⟩

theorem gNameOf_cons_self (st : St) (bN aN : Name) (gn : List Name) (gr : List Name) (hs : List String) :
    ({ st with gNeeded := gn, gReady := gr, gName := (bN, aN) :: st.gName, hits := hs } : St).gNameOf bN = aN := by
  simp [St.gNameOf, List.lookup]

theorem gNameOf_cons_ne (st : St) (bN aN g : Name) (gn : List Name) (gr : List Name) (hs : List String) (h : g ≠ bN) :
    ({ st with gNeeded := gn, gReady := gr, gName := (bN, aN) :: st.gName, hits := hs } : St).gNameOf g = st.gNameOf g := by
  have hb : (g == bN) = false := by simpa using h
  simp [St.gNameOf, List.lookup, hb]

/-! ## `findGroupOnDevice` -/

theorem findGroup_gstep (e : Env) (st : St) (d : Dev) (h : Sem e st d) (bN : Name) :
    GStep e st d (findGroup e st bN) d := by
  cases findGroup_result e st bN with
  | unchanged he => rw [he]; exact GStep.refl h
  | adopted aN hdev hfree hnr hsame hst =>
    rw [hst]
    refine GStep.marks ?_ rfl (fun x hx => mem_addSet.mpr (Or.inr hx)) (fun x hx => List.mem_cons_of_mem _ hx)
    refine ⟨h.mode, h.dev, ?_, ?_, ?_⟩
    · intro g hg hn
      exact h.untouched g hg (fun hx => hn (mem_addSet.mpr (Or.inr hx)))
    · intro g hg
      by_cases eg : g = bN
      · subst eg
        rw [gNameOf_cons_self]
        refine ⟨h.dev aN hdev, ?_, Or.inl (mem_addSet.mpr (Or.inl rfl))⟩
        rw [h.untouched aN hdev hfree]; exact hsame
      · rw [gNameOf_cons_ne _ _ _ _ _ _ _ eg]
        have hg' : g ∈ st.gReady := by
          rcases List.mem_cons.mp hg with h1 | h1
          · exact absurd h1 eg
          · exact h1
        obtain ⟨r1, r2, r3⟩ := h.ready g hg'
        exact ⟨r1, r2, r3.mono (fun x hx => mem_addSet.mpr (Or.inr hx))⟩
    · intro g hgB hg
      have eg : g ≠ bN := fun e1 => hg (e1 ▸ List.mem_cons_self)
      rw [gNameOf_cons_ne _ _ _ _ _ _ _ eg]
      exact h.unready g hgB (fun hx => hg (List.mem_cons_of_mem _ hx))

/-! ## Transfer of a whole group -/

theorem genName_ne_empty (base : Name) (dev : List Name) : genName base dev ≠ "" := by
  intro h
  have := congrArg String.toList h
  unfold genName at this
  rw [drcName_toList] at this
  simp at this

theorem mems_exec (n : Name) : ∀ (ms : List String) (d : Dev), d.mode = some n → hasGroup d n = true →
    (membersOf d n ++ ms).Nodup →
    ∃ d', exec d (ms.map Chg.mem) = some d' ∧ d'.mode = some n ∧ membersOf d' n = membersOf d n ++ ms ∧ OnlyGroup d d' n := by
  intro ms
  induction ms with
  | nil => intro d hm _ _; exact ⟨d, exec_nil d, hm, by simp, OnlyGroup.refl d n⟩
  | cons m ms ih =>
    intro d hm hg hnd
    have hnot : m ∉ membersOf d n := by
      intro hmem
      have := (List.nodup_append.mp hnd).2.2 m hmem m List.mem_cons_self
      exact this rfl
    have e1 : exec1 d (.mem m) = .ok { d with groups := setAssoc d.groups n (membersOf d n ++ [m]), mode := some n } := by
      simp only [exec1, hm]
      have hc : (membersOf d n).contains m = false := by simpa using hnot
      rw [hc]
      simp only [Bool.false_eq_true, if_false]
    have hg1 : hasGroup { d with groups := setAssoc d.groups n (membersOf d n ++ [m]), mode := some n } n = true := by
      rw [hasGroup_setGroup]; simp
    obtain ⟨d', he, hm', hmem, hog⟩ := ih _ rfl hg1 (by rw [membersOf_setGroup_self]; simpa using hnd)
    refine ⟨d', ?_, hm', ?_, ?_⟩
    · rw [List.map_cons, exec_cons]; simp only [step, e1, Option.bind_some]; exact he
    · rw [hmem, membersOf_setGroup_self]; simp
    · refine OnlyGroup.trans ⟨fun g' hg' => membersOf_setGroup_ne d n g' _ _ hg', fun g' => ?_, rfl, rfl, rfl, rfl⟩ hog
      rw [hasGroup_setGroup]
      by_cases e : n = g'
      · subst e; simp [hg]
      · have : (n == g') = false := by simpa using e
        simp [this]

theorem transferGroup_gstep (e : Env) (hw : WF e) (st : St) (d : Dev) (h : Sem e st d) (bN : Name) (hb : bN ∈ BNames e) :
    ∃ d', GStep e st d (transferGroup e st bN) d' ∧ bN ∈ (transferGroup e st bN).gReady ∧
      (transferGroup e st bN).gName = st.gName := by
  unfold transferGroup
  by_cases hr : st.gReady.contains bN = true
  · simp only [hr, if_true]; exact ⟨d, GStep.refl h, by simpa using hr, trivial⟩
  · have hr' : bN ∉ st.gReady := by simpa using hr
    simp only [hr, Bool.false_eq_true, if_false]
    obtain ⟨hname, hno⟩ := h.unready bN hb hr'
    rw [hname]
    generalize hn : genName bN (D0 e) = n at hname hno
    have hnD : n ∉ D0 e := hn ▸ genName_fresh bN (D0 e)
    have hne : n ≠ "" := hn ▸ genName_ne_empty bN (D0 e)
    -- the device after `object-group network n`
    have e0 : exec1 d (.grp n) = .ok { d with groups := setAssoc d.groups n [], mode := some n } := by
      simp only [exec1, hno, Bool.false_eq_true, if_false]
      congr 2
      rw [setAssoc_eq]
      have : d.groups.any (·.1 == n) = false := hno
      simp [this]
    have hg1 : hasGroup { d with groups := setAssoc d.groups n [], mode := some n } n = true := by
      rw [hasGroup_setGroup]; simp
    have hnd : (membersOf { d with groups := setAssoc d.groups n [], mode := some n } n ++ e.bMembers bN).Nodup := by
      rw [membersOf_setGroup_self]
      simp only [List.nil_append]
      exact sortS_nodup (hw.bNodup bN)
    obtain ⟨d', he, hm', hmem, hog⟩ := mems_exec n (e.bMembers bN) _ rfl hg1 hnd
    rw [membersOf_setGroup_self] at hmem
    simp only [List.nil_append] at hmem
    -- observations on d'
    have hothers : ∀ g', g' ≠ n → membersOf d' g' = membersOf d g' := fun g' hg' => by
      rw [hog.others g' hg']; exact membersOf_setGroup_ne d n g' _ _ hg'
    have hhas : ∀ g', hasGroup d' g' = (n == g' || hasGroup d g') := fun g' => by
      rw [hog.has g', hasGroup_setGroup]
    have hmono : ∀ x, hasGroup d x = true → hasGroup d' x = true := fun x hx => by rw [hhas, hx]; simp
    have hstab : ∀ x, hasGroup d x = true → membersOf d' x = membersOf d x := fun x hx => by
      apply hothers
      intro e1; subst e1; rw [hno] at hx; exact absurd hx (by simp)
    refine ⟨d', ⟨?_, ⟨Chg.grp n :: (e.bMembers bN).map Chg.mem, rfl, ?_⟩, fun x hx _ => hstab x hx, hmono, fun x hx => hx,
      fun x hx => List.mem_cons_of_mem _ hx, hog.acls, hog.binds, hog.routes, hog.intfs⟩, by simp [St.hit], rfl⟩
    · -- Sem
      refine ⟨modeRel_of_mode rfl hm' hne, fun g hg => hmono g (h.dev g hg), ?_, ?_, ?_⟩
      · intro g hg hn'
        rw [hstab g (h.dev g hg)]
        exact h.untouched g hg hn'
      · intro g hg
        simp only [St.hit] at hg ⊢
        show hasGroup d' (st.gNameOf g) = true ∧ (membersOf d' (st.gNameOf g)).Perm (lookupD e.b.groups g) ∧
          (st.gNameOf g ∈ st.gNeeded ∨ st.gNameOf g ∉ D0 e)
        rcases List.mem_cons.mp hg with e1 | e1
        · subst e1
          rw [hname]
          refine ⟨by rw [hhas]; simp, ?_, Or.inr hnD⟩
          rw [hmem]; exact sortS_perm _
        · obtain ⟨r1, r2, r3⟩ := h.ready g e1
          exact ⟨hmono _ r1, by rw [hstab _ r1]; exact r2, r3⟩
      · intro g hgB hg
        simp only [St.hit] at hg ⊢
        have hg' : g ∉ st.gReady := fun hx => hg (List.mem_cons_of_mem _ hx)
        have egb : g ≠ bN := fun e1 => hg (e1 ▸ List.mem_cons_self)
        obtain ⟨u1, u2⟩ := h.unready g hgB hg'
        show st.gNameOf g = genName g (D0 e) ∧ hasGroup d' (genName g (D0 e)) = false
        refine ⟨u1, ?_⟩
        rw [hhas, u2]
        have : n ≠ genName g (D0 e) := fun e1 => egb (genName_injective (hn.trans e1)).symm
        simp [this]
    · rw [exec_cons]
      simp only [step, e0, Option.bind_some]
      exact he

/-! ## `equalizedGroups` -/

theorem gstep_hit {e : Env} {st st' : St} {d d' : Dev} (h : GStep e st d st' d') (x : String) : GStep e st d (st'.hit x) d' :=
  ⟨⟨h.sem.mode, h.sem.dev, h.sem.untouched, h.sem.ready, h.sem.unready⟩, h.out, h.stable, h.hasMono, h.grow,
   h.readyMono, h.acls, h.binds, h.routes, h.intfs⟩

theorem findGroup_ready_or_same (e : Env) (st : St) (bN : Name) :
    findGroup e st bN = st ∨ bN ∈ (findGroup e st bN).gReady := by
  cases findGroup_result e st bN with
  | unchanged he => exact Or.inl he
  | adopted aN _ _ _ _ hst => rw [hst]; exact Or.inr List.mem_cons_self

theorem equalizedGroups_gstep (e : Env) (hw : WF e) (st : St) (d : Dev) (h : Sem e st d) (aN bN : Name)
    (ha : aN ∈ D0 e) (hb : bN ∈ BNames e) :
    ∃ d', GStep e st d (equalizedGroups e st aN bN).1 d' ∧
      ((equalizedGroups e st aN bN).2 = true →
        bN ∈ (equalizedGroups e st aN bN).1.gReady ∧ (equalizedGroups e st aN bN).1.gNameOf bN = aN) := by
  unfold equalizedGroups
  split
  · split
    · rename_i hr
      have hr2 : bN ∈ st.gReady := by simpa using hr
      refine ⟨d, gstep_hit (GStep.refl h) _, fun hres => ⟨hr2, ?_⟩⟩
      have : aN = st.gNameOf bN := by simpa using hres
      exact this.symm
    · exact ⟨d, gstep_hit (findGroup_gstep e st d h bN) _, fun hres => absurd hres (by simp)⟩
  · rename_i hnot
    have hnot' : aN ∉ st.gNeeded := by simpa using hnot
    simp only []
    generalize hident : isIdentity (lookupD e.sc.grp (aN, bN)) = ident
    -- the state after the optional `findGroupOnDevice`
    have h1 : GStep e st d (if ident = true then st else findGroup e st bN) d := by
      split
      · exact GStep.refl h
      · exact findGroup_gstep e st d h bN
    have h1same : (if ident = true then st else findGroup e st bN) = st ∨
        (ident = false ∧ bN ∈ (if ident = true then st else findGroup e st bN).gReady) := by
      cases ident
      · simp only [Bool.false_eq_true, if_false]
        rcases findGroup_ready_or_same e st bN with h2 | h2
        · exact Or.inl h2
        · exact Or.inr ⟨trivial, h2⟩
      · exact Or.inl rfl
    generalize (if ident = true then st else findGroup e st bN) = st1 at h1 h1same
    split
    · rename_i hc
      simp only [Bool.and_eq_true, Bool.not_eq_true'] at hc
      have hr2 : bN ∈ st1.gReady := by simpa using hc.2
      refine ⟨d, gstep_hit h1 _, fun hres => ⟨hr2, ?_⟩⟩
      have : aN = st1.gNameOf bN := by simpa using hres
      exact this.symm
    · rename_i hc
      have hst1 : st1 = st := by
        rcases h1same with h2 | ⟨h2, h3⟩
        · exact h2
        · exfalso; apply hc; subst h2
          have : st1.gReady.contains bN = true := by simpa using h3
          rw [this]; rfl
      subst hst1
      generalize hstat : scriptStat (lookupD e.sc.grp (aN, bN)) = stat
      obtain ⟨ins, del⟩ := stat
      simp only []
      split
      · exact ⟨d, gstep_hit (GStep.refl h) _, fun hres => absurd hres (by simp)⟩
      · rename_i hbig
        -- the in-place edit
        have hsmall : (scriptStat (lookupD e.sc.grp (aN, bN))).1 + (scriptStat (lookupD e.sc.grp (aN, bN))).2 ≤ (e.bMembers bN).length := by
          rw [hstat]; simp only; omega
        obtain ⟨hv, hdisj⟩ := hw.grpScripts aN bN ha hb hsmall
        have hne : aN ≠ "" := fun e1 => hw.noEmptyName (e1 ▸ ha)
        have hcur : (membersOf d aN).Perm (e.aMembers aN) := by
          rw [h.untouched aN ha hnot']; exact (sortS_perm _).symm
        obtain ⟨cs, d', ho, he, hm', hmem, hog⟩ := editMembers_converges
          { st1 with gNeeded := addSet aN st1.gNeeded, gName := (bN, aN) :: st1.gName } d aN
          (e.aMembers aN) (e.bMembers bN) (lookupD e.sc.grp (aN, bN)) hne h.mode (h.dev aN ha) hv
          (sortS_nodup (hw.aNodup aN)) (sortS_nodup (hw.bNodup bN)) hcur hdisj
        have hmarks := editMembers_marks aN (e.aMembers aN) (e.bMembers bN) (lookupD e.sc.grp (aN, bN))
          { st1 with gNeeded := addSet aN st1.gNeeded, gName := (bN, aN) :: st1.gName }
        generalize hE : editMembers { st1 with gNeeded := addSet aN st1.gNeeded, gName := (bN, aN) :: st1.gName } aN
          (e.aMembers aN) (e.bMembers bN) (lookupD e.sc.grp (aN, bN)) = stE at ho hm' hmarks
        have hneed : stE.gNeeded = addSet aN st1.gNeeded := hmarks.gNeeded
        have hnames : stE.gName = (bN, aN) :: st1.gName := hmarks.gName
        have hready : stE.gReady = st1.gReady := hmarks.gReady
        -- frozen names are different from aN
        have hfrozen_ne : ∀ x, Frozen e st1 x → x ≠ aN := by
          intro x hf e1; subst e1
          rcases hf with h2 | h2
          · exact hnot' h2
          · exact h2 ha
        have hnameOf_self : ∀ (s : St), s.gName = (bN, aN) :: st1.gName → s.gNameOf bN = aN := by
          intro s hs; simp [St.gNameOf, hs, List.lookup]
        have hnameOf_ne : ∀ (s : St), s.gName = (bN, aN) :: st1.gName → ∀ g, g ≠ bN → s.gNameOf g = st1.gNameOf g := by
          intro s hs g hg
          have hb : (g == bN) = false := by simpa using hg
          simp [St.gNameOf, hs, List.lookup, hb]
        refine ⟨d', ⟨?_, ⟨cs, ho, he⟩, ?_, fun x hx => by rw [hog.has]; exact hx, ?_, ?_, hog.acls, hog.binds, hog.routes, hog.intfs⟩, ?_⟩
        · -- Sem
          refine ⟨hm', fun g hg => by rw [hog.has]; exact h.dev g hg, ?_, ?_, ?_⟩
          · intro g hg hn'
            have hn2 : g ∉ addSet aN st1.gNeeded := by
              simpa [St.hit, hneed] using hn'
            have hga : g ≠ aN := fun e1 => hn2 (mem_addSet.mpr (Or.inl e1))
            rw [hog.others g hga]
            exact h.untouched g hg (fun hx => hn2 (mem_addSet.mpr (Or.inr hx)))
          · intro g hg
            have hg2 : g = bN ∨ g ∈ st1.gReady := by
              have : g ∈ addSet bN stE.gReady := hg
              rw [hready] at this
              exact mem_addSet.mp this
            show hasGroup d' (stE.gNameOf g) = true ∧ (membersOf d' (stE.gNameOf g)).Perm (lookupD e.b.groups g) ∧
              (stE.gNameOf g ∈ stE.gNeeded ∨ stE.gNameOf g ∉ D0 e)
            by_cases eg : g = bN
            · subst eg
              rw [hnameOf_self stE hnames]
              refine ⟨by rw [hog.has]; exact h.dev aN ha, hmem.trans (sortS_perm _), Or.inl ?_⟩
              rw [hneed]; exact mem_addSet.mpr (Or.inl rfl)
            · have hg3 : g ∈ st1.gReady := by
                rcases hg2 with h2 | h2
                · exact absurd h2 eg
                · exact h2
              rw [hnameOf_ne stE hnames g eg]
              obtain ⟨r1, r2, r3⟩ := h.ready g hg3
              have hx : st1.gNameOf g ≠ aN := hfrozen_ne _ r3
              refine ⟨by rw [hog.has]; exact r1, by rw [hog.others _ hx]; exact r2, ?_⟩
              rcases r3 with r3 | r3
              · exact Or.inl (by rw [hneed]; exact mem_addSet.mpr (Or.inr r3))
              · exact Or.inr r3
          · intro g hgB hg
            have hg2 : g ∉ addSet bN stE.gReady := hg
            rw [hready] at hg2
            have egb : g ≠ bN := fun e1 => hg2 (mem_addSet.mpr (Or.inl e1))
            have hg3 : g ∉ st1.gReady := fun hx => hg2 (mem_addSet.mpr (Or.inr hx))
            obtain ⟨u1, u2⟩ := h.unready g hgB hg3
            show stE.gNameOf g = genName g (D0 e) ∧ hasGroup d' (genName g (D0 e)) = false
            rw [hnameOf_ne stE hnames g egb, hog.has]
            exact ⟨u1, u2⟩
        · intro x _ hf
          exact hog.others x (hfrozen_ne x hf)
        · intro x hx
          show x ∈ stE.gNeeded
          rw [hneed]; exact mem_addSet.mpr (Or.inr hx)
        · intro x hx
          show x ∈ addSet bN stE.gReady
          rw [hready]; exact mem_addSet.mpr (Or.inr hx)
        · intro _
          refine ⟨?_, ?_⟩
          · show bN ∈ addSet bN stE.gReady
            exact mem_addSet.mpr (Or.inl rfl)
          · show stE.gNameOf bN = aN
            exact hnameOf_self stE hnames

end NA.F1
