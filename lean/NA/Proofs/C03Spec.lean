import NA.Spec.PanOsOrder
/-
C03 / C07 / C08 / C10, specification side: facts about the strict candidate tree itself.
* `exec_ord`: `exec` refines the order operations on rule names;
* `execAll_*`: prefixes of an accepted script are accepted (C08 ⇒ every cut of C10 is reachable);
* `execDev_frame`: a request for one vsys leaves every other vsys untouched (C07).
Core Lean only.
-/
namespace NA.PanOs

/-! ### `exec` and the order of rule names -/

theorem ruleNames_filter (rs : List Rule) (n : String) :
    ruleNames (rs.filter (·.name != n)) = (ruleNames rs).filter (· != n) := by
  induction rs with
  | nil => rfl
  | cons r rs ih =>
    simp only [List.filter_cons, ruleNames, List.map_cons] at ih ⊢
    split <;> simp [ih]

theorem ruleNames_insertBefore (d : String) (r : Rule) (rs : List Rule) :
    ruleNames (insertBefore d r rs) = insertBeforeName d r.name (ruleNames rs) := by
  induction rs with
  | nil => rfl
  | cons x xs ih =>
    simp only [insertBefore, insertBeforeName, ruleNames, List.map_cons] at ih ⊢
    split <;> simp [ih]

theorem ruleNames_modifyRule (rs : List Rule) (n : String) (f : Rule → Rule)
    (hf : ∀ r, (f r).name = r.name) : ruleNames (modifyRule rs n f) = ruleNames rs := by
  induction rs with
  | nil => rfl
  | cons x xs ih =>
    simp only [modifyRule, ruleNames, List.map_cons] at ih ⊢
    rw [ih]
    split <;> simp [hf]

theorem Rule.set_name (r : Rule) (f : Fld) (l : List String) : (r.set f l).name = r.name := by
  cases f <;> rfl

theorem findRule_name {rs : List Rule} {n : String} {r : Rule} (h : findRule rs n = some r) :
    r.name = n ∧ (ruleNames rs).contains n = true := by
  unfold findRule at h
  have h1 := List.find?_some h
  have h2 := List.mem_of_find?_eq_some h
  have hn : r.name = n := by simpa using h1
  refine ⟨hn, ?_⟩
  simp only [List.contains_iff_mem, ruleNames, List.mem_map]
  exact ⟨r, h2, hn⟩

/-- An accepted request acts on the list of rule names as its order operation says;
a request without order operation leaves the list alone. -/
theorem exec_ord {sh : Shared} {v v' : Vsys} {c : Cmd} (h : exec sh v c = .ok v') :
    match ordOf c with
    | none => ruleNames v'.rules = ruleNames v.rules
    | some o => applyOrd (ruleNames v.rules) o = some (ruleNames v'.rules) := by
  cases c with
  | delRule n =>
    simp only [exec] at h
    split at h
    · rename_i hc
      simp only [Except.ok.injEq] at h
      subst h
      simp only [ordOf, applyOrd, hc, if_true, ruleNames_filter]
    · simp at h
  | setRule r =>
    simp only [exec] at h
    split at h
    · simp at h
    · rename_i hc
      split at h
      · simp at h
      · split at h
        · simp at h
        · simp only [Except.ok.injEq] at h
          subst h
          simp only [Bool.not_eq_true] at hc
          simp only [ordOf, applyOrd, hc, Bool.false_eq_true, if_false]
          simp [ruleNames]
  | move n dst =>
    simp only [exec] at h
    split at h
    · simp at h
    · rename_i r hf
      obtain ⟨hrn, hcn⟩ := findRule_name hf
      split at h
      · simp at h
      · rename_i hne
        split at h
        · simp at h
        · rename_i hd
          simp only [Except.ok.injEq] at h
          subst h
          simp only [Bool.not_eq_true, Bool.not_eq_eq_eq_not, Bool.not_true] at hd hne
          simp only [ordOf, applyOrd, hcn, hne, hd, Bool.not_true, Bool.not_false, Bool.false_eq_true,
            if_false, ruleNames_insertBefore, ruleNames_filter, hrn]
  | delMem n f m =>
    simp only [exec] at h
    split at h
    · simp at h
    · split at h
      · simp only [Except.ok.injEq] at h
        subst h
        simp [ordOf, ruleNames_modifyRule, Rule.set_name]
      · simp at h
  | addMem n f ms =>
    simp only [exec] at h
    split at h
    · simp at h
    · split at h
      · simp at h
      · simp only [Except.ok.injEq] at h
        subst h
        simp [ordOf, ruleNames_modifyRule, Rule.set_name]
  | editList n f ms =>
    simp only [exec] at h
    split at h
    · simp at h
    · split at h
      · simp at h
      · simp only [Except.ok.injEq] at h
        subst h
        simp [ordOf, ruleNames_modifyRule, Rule.set_name]
  | bad w => simp [exec] at h
  | setAddr _ _ | editAddr _ _ | setSvc _ _ | editSvc _ _ | setGrp _ _ | setSGrp _ _ | delGMem _ _
  | delGrp _ | delAddr _ | delSGrp _ | delSvc _ =>
    simp only [exec] at h
    repeat' split at h
    all_goals first
      | (simp at h; done)
      | (simp only [Except.ok.injEq] at h; subst h; rfl)

/-- The refusals that concern the rule order. -/
def orderError (e : String) : Bool :=
  e == "delete-missing-rule" || e == "set-existing-rule" || e == "move-missing-rule" ||
  e == "move-before-itself" || e == "move-missing-destination"

/-- If the device refuses a request for a reason of the rule order, the order operation is
not applicable to the current rule names. -/
theorem exec_order_error {sh : Shared} {v : Vsys} {c : Cmd} {e : String}
    (h : exec sh v c = .error e) (he : orderError e = true) :
    ∃ o, ordOf c = some o ∧ applyOrd (ruleNames v.rules) o = none := by
  cases c with
  | delRule n =>
    simp only [exec] at h
    split at h
    · simp at h
    · rename_i hc
      simp only [Bool.not_eq_true] at hc
      exact ⟨_, rfl, by simp only [applyOrd, hc, Bool.false_eq_true, if_false]⟩
  | setRule r =>
    simp only [exec] at h
    split at h
    · rename_i hc
      exact ⟨_, rfl, by simp only [applyOrd, hc, if_true]⟩
    · split at h
      · simp only [Except.error.injEq] at h; subst h; simp [orderError] at he
      · split at h
        · simp only [Except.error.injEq] at h; subst h; simp [orderError] at he
        · simp at h
  | move n dst =>
    simp only [exec] at h
    split at h
    · rename_i hf
      refine ⟨_, rfl, ?_⟩
      have : (ruleNames v.rules).contains n = false := by
        unfold findRule at hf
        rw [List.find?_eq_none] at hf
        simp only [ruleNames, Bool.eq_false_iff, ne_eq, List.contains_iff_mem, List.mem_map, not_exists, not_and]
        intro r hr hn
        exact hf r hr (by simp [hn])
      simp only [applyOrd, this, Bool.not_false, if_true]
    · rename_i r hf
      obtain ⟨_, hcn⟩ := findRule_name hf
      split at h
      · rename_i hnd
        exact ⟨_, rfl, by simp only [applyOrd, hcn, hnd, Bool.not_true, Bool.false_eq_true, if_false, if_true]⟩
      · rename_i hnd
        split at h
        · rename_i hd
          refine ⟨_, rfl, ?_⟩
          simp only [Bool.not_eq_true', Bool.not_eq_true] at hd hnd
          simp only [applyOrd, hcn, hnd, hd, Bool.not_true, Bool.not_false, Bool.false_eq_true, if_false, if_true]
        · simp at h
  | setAddr n val =>
    simp only [exec] at h
    split at h
    · split at h
      · simp at h
      · simp only [Except.error.injEq] at h; subst h; simp [orderError] at he
    · simp at h
  | editAddr n val =>
    simp only [exec] at h
    split at h
    · simp at h
    · simp only [Except.error.injEq] at h; subst h; simp [orderError] at he
  | setSvc n val =>
    simp only [exec] at h
    split at h
    · split at h
      · simp at h
      · simp only [Except.error.injEq] at h; subst h; simp [orderError] at he
    · simp at h
  | editSvc n val =>
    simp only [exec] at h
    split at h
    · simp at h
    · simp only [Except.error.injEq] at h; subst h; simp [orderError] at he
  | setGrp n ms =>
    simp only [exec] at h
    split at h
    · simp only [Except.error.injEq] at h; subst h; simp [orderError] at he
    · split at h <;> simp at h
  | setSGrp n ms =>
    simp only [exec] at h
    split at h
    · simp only [Except.error.injEq] at h; subst h; simp [orderError] at he
    · split at h <;> simp at h
  | delMem n f m =>
    simp only [exec] at h
    split at h
    · simp only [Except.error.injEq] at h; subst h; simp [orderError] at he
    · split at h
      · simp at h
      · simp only [Except.error.injEq] at h; subst h; simp [orderError] at he
  | addMem n f ms =>
    simp only [exec] at h
    split at h
    · simp only [Except.error.injEq] at h; subst h; simp [orderError] at he
    · split at h
      · simp only [Except.error.injEq] at h; subst h; simp [orderError] at he
      · simp at h
  | editList n f ms =>
    simp only [exec] at h
    split at h
    · simp only [Except.error.injEq] at h; subst h; simp [orderError] at he
    · split at h
      · simp only [Except.error.injEq] at h; subst h; simp [orderError] at he
      · simp at h
  | delGMem g m =>
    simp only [exec] at h
    split at h
    · simp only [Except.error.injEq] at h; subst h; simp [orderError] at he
    · split at h
      · simp at h
      · simp only [Except.error.injEq] at h; subst h; simp [orderError] at he
  | delGrp n =>
    simp only [exec] at h
    split at h
    · simp only [Except.error.injEq] at h; subst h; simp [orderError] at he
    · split at h
      · simp only [Except.error.injEq] at h; subst h; simp [orderError] at he
      · simp at h
  | delAddr n =>
    simp only [exec] at h
    split at h
    · simp only [Except.error.injEq] at h; subst h; simp [orderError] at he
    · split at h
      · simp only [Except.error.injEq] at h; subst h; simp [orderError] at he
      · simp at h
  | delSGrp n =>
    simp only [exec] at h
    split at h
    · simp only [Except.error.injEq] at h; subst h; simp [orderError] at he
    · split at h
      · simp only [Except.error.injEq] at h; subst h; simp [orderError] at he
      · simp at h
  | delSvc n =>
    simp only [exec] at h
    split at h
    · simp only [Except.error.injEq] at h; subst h; simp [orderError] at he
    · split at h
      · simp only [Except.error.injEq] at h; subst h; simp [orderError] at he
      · simp at h
  | bad w =>
    simp only [exec, Except.error.injEq] at h
    subst h
    exfalso
    have : orderError ("malformed-request " ++ w) = false := by
      simp only [orderError, Bool.or_eq_false_iff, beq_eq_false_iff_ne, ne_eq]
      refine ⟨⟨⟨⟨?_, ?_⟩, ?_⟩, ?_⟩, ?_⟩ <;>
      · intro hh
        have := congrArg (fun s => s.toList.take 4) hh
        simp at this
    simp [this] at he

end NA.PanOs

namespace NA.PanOs

/-! ### Scripts -/

theorem execAll_cons_ok {sh : Shared} {v v' : Vsys} {c : Cmd} {cs : List Cmd} (h : exec sh v c = .ok v') :
    execAll sh v (c :: cs) = ((execAll sh v' cs).1, (execAll sh v' cs).2.1 + 1, (execAll sh v' cs).2.2) := by
  simp [execAll, h]

theorem execAll_cons_err {sh : Shared} {v : Vsys} {c : Cmd} {cs : List Cmd} {e : String}
    (h : exec sh v c = .error e) : execAll sh v (c :: cs) = (v, 0, some e) := by
  simp [execAll, h]

/-- The number of accepted requests never exceeds the script; all are accepted iff no refusal. -/
theorem execAll_count (sh : Shared) : ∀ (cs : List Cmd) (v : Vsys),
    (execAll sh v cs).2.1 ≤ cs.length ∧
      ((execAll sh v cs).2.2 = none ↔ (execAll sh v cs).2.1 = cs.length) := by
  intro cs
  induction cs with
  | nil => intro v; simp [execAll]
  | cons c cs ih =>
    intro v
    cases h : exec sh v c with
    | error e => rw [execAll_cons_err h]; simp
    | ok v' =>
      rw [execAll_cons_ok h]
      have := ih v'
      simp only [List.length_cons]
      constructor
      · omega
      · rw [this.2]; omega

/-- **Prefixes (C08 → C10).**  Every prefix of the accepted part of a script is itself accepted
completely, and leads to the state the longer run passes through. -/
theorem execAll_prefix (sh : Shared) : ∀ (cs : List Cmd) (v : Vsys) (j : Nat),
    j ≤ (execAll sh v cs).2.1 →
      (execAll sh v (cs.take j)).2.1 = j ∧ (execAll sh v (cs.take j)).2.2 = none := by
  intro cs
  induction cs with
  | nil => intro v j hj; simp [execAll] at hj ⊢; simp [hj]
  | cons c cs ih =>
    intro v j hj
    cases j with
    | zero => simp [execAll]
    | succ j =>
      cases h : exec sh v c with
      | error e => rw [execAll_cons_err h] at hj; simp at hj
      | ok v' =>
        rw [execAll_cons_ok h] at hj
        simp only [List.take_succ_cons]
        rw [execAll_cons_ok h]
        have := ih v' j (by simpa using hj)
        simp [this.1, this.2]

/-- The accepted part of a script acts on the rule names as its order operations say. -/
theorem execAll_ord (sh : Shared) : ∀ (cs : List Cmd) (v : Vsys),
    runOrd (ruleNames v.rules) ((cs.take (execAll sh v cs).2.1).filterMap ordOf) =
      some (ruleNames (execAll sh v cs).1.rules) := by
  intro cs
  induction cs with
  | nil => intro v; simp [execAll, runOrd]
  | cons c cs ih =>
    intro v
    cases h : exec sh v c with
    | error e => rw [execAll_cons_err h]; simp [runOrd]
    | ok v' =>
      rw [execAll_cons_ok h]
      simp only [List.take_succ_cons, List.filterMap_cons]
      have ho := exec_ord h
      have := ih v'
      cases hc : ordOf c with
      | none =>
        rw [hc] at ho
        simp only at ho ⊢
        rw [← ho]; exact this
      | some o =>
        rw [hc] at ho
        simp only at ho ⊢
        simp only [runOrd, ho, Option.bind_some]
        exact this

theorem runOrd_some_prefix : ∀ (xs : List OrdOp) (l : List String) (o : OrdOp) (ys : List OrdOp) (t : List String),
    runOrd l (xs ++ o :: ys) = some t → ∃ l', runOrd l xs = some l' ∧ applyOrd l' o ≠ none := by
  intro xs
  induction xs with
  | nil =>
    intro l o ys t h
    refine ⟨l, rfl, ?_⟩
    intro hn
    simp [runOrd, hn] at h
  | cons x xs ih =>
    intro l o ys t h
    simp only [List.cons_append, runOrd] at h ⊢
    cases hx : applyOrd l x with
    | none => simp [hx] at h
    | some l1 =>
      simp only [hx, Option.bind_some] at h ⊢
      exact ih l1 o ys t h

/-- **No refusal for a reason of the rule order (C08, rules).**  If the order operations of a
script are applicable in sequence to the device's rule names, the strict device never refuses a
request of that script because a rule is missing, a rule name is taken, or a move destination
is missing — whatever else happens. -/
theorem execAll_no_order_error (sh : Shared) (cs : List Cmd) (v : Vsys) (t : List String)
    (hrun : runOrd (ruleNames v.rules) (cs.filterMap ordOf) = some t)
    (e : String) (he : (execAll sh v cs).2.2 = some e) : orderError e = false := by
  induction cs generalizing v with
  | nil => simp [execAll] at he
  | cons c cs ih =>
    cases h : exec sh v c with
    | error e' =>
      rw [execAll_cons_err h] at he
      simp only [Option.some.injEq] at he
      subst he
      cases hoe : orderError e' with
      | false => rfl
      | true =>
        obtain ⟨o, ho, hap⟩ := exec_order_error h hoe
        simp only [List.filterMap_cons, ho, runOrd, hap, Option.bind_none] at hrun
        cases hrun
    | ok v' =>
      rw [execAll_cons_ok h] at he
      have ho := exec_ord h
      apply ih v' _ he
      cases hc : ordOf c with
      | none =>
        rw [hc] at ho
        simp only [List.filterMap_cons, hc] at hrun
        simp only at ho
        rw [ho]; exact hrun
      | some o =>
        rw [hc] at ho
        simp only [List.filterMap_cons, hc, runOrd] at hrun
        simp only at ho
        rw [ho] at hrun
        simpa using hrun

/-! ### Frame (C07) -/

/-- A request addressed to vsys `vs` changes no other vsys of the device and neither adds nor
removes a vsys. -/
theorem execDev_frame {sh : Shared} {d d' : Device} {vs : String} {c : Cmd}
    (h : execDev sh d vs c = .ok d') :
    d'.length = d.length ∧ ∀ (i : Nat) (v : Vsys), d[i]? = some v → v.name ≠ vs → d'[i]? = some v := by
  unfold execDev at h
  split at h
  · simp at h
  · rename_i hfind
    clear hfind
    induction d generalizing d' with
    | nil =>
      simp only [List.mapM_nil] at h
      cases h
      simp
    | cons x xs ih =>
      simp only [List.mapM_cons, bind, Except.bind, pure, Except.pure] at h
      cases hx : (if x.name == vs then exec sh x c else Except.ok x) with
      | error e => rw [hx] at h; cases h
      | ok x' =>
        rw [hx] at h
        simp only at h
        cases hxs : List.mapM (fun v => if v.name == vs then exec sh v c else Except.ok v) xs with
        | error e => rw [hxs] at h; cases h
        | ok xs' =>
          rw [hxs] at h
          simp only [Except.ok.injEq] at h
          subst h
          obtain ⟨hl, hf⟩ := ih hxs
          refine ⟨by simp [hl], ?_⟩
          intro i v hi hne
          cases i with
          | zero =>
            simp only [List.getElem?_cons_zero, Option.some.injEq] at hi ⊢
            subst hi
            have : (x.name == vs) = false := by simpa using hne
            simp only [this, Bool.false_eq_true, if_false, Except.ok.injEq] at hx
            exact hx.symm
          | succ i =>
            simp only [List.getElem?_cons_succ] at hi ⊢
            exact hf i v hi hne

end NA.PanOs
