import NA.Proofs.C03GrpMarks
import NA.Proofs.C03GrpRule
import NA.Proofs.C03RulePhase
import NA.Model.PanOsGrpPair
/-
C03, whole-vsys theorems with address-groups, part 10: the planner state before the rule phase
(after `markObjects`) — flags of the addresses for every name a rule uses directly or through
a group, flags of the groups.  Core Lean only.
-/
namespace NA.PanOs

/-- The planner state at the start. -/
def st0 (a b : Vsys) : St := initSt (sortVsys a) (sortVsys b) (newGroupNames a b)

def fuelOf (a b : Vsys) : Nat := (sortVsys a).groups.length + (sortVsys b).groups.length + (sortVsys b).sgroups.length

/-- The planner state after `markObjects`. -/
def stM (a b : Vsys) : St := markObjects (fuelOf a b + 2) (st0 a b) (sortVsys b).rules

theorem planState_def (diff : Differ) (a b : Vsys) :
    planState diff a b =
      diffRules diff (fuelOf a b + 2) (stM a b) (sortVsys a) (sortVsys b) (sortVsys a).rules (bRulesOf a b) := rfl

/-- An address the target's rules use, directly or as member of a group they name. -/
def RefAddrD (b : Vsys) (m : String) : Prop :=
  ∃ r ∈ b.rules, (m ∈ r.src ∨ m ∈ r.dst) ∨
    ∃ gr ∈ b.groups, (gr.name ∈ r.src ∨ gr.name ∈ r.dst) ∧ m ∈ gr.members

theorem sortVsys_groups_names (v : Vsys) : (sortVsys v).groups.map (·.name) = v.groups.map (·.name) := by
  simp [sortVsys, List.map_map, Function.comp_def]

theorem st0_bGrp_names (a b : Vsys) : (st0 a b).bGrp.map (·.g.name) = b.groups.map (·.name) := by
  unfold st0 initSt
  simp only
  rw [List.map_map]
  have hl : (newGroupNames a b).length = (sortVsys b).groups.length := by
    unfold newGroupNames; rw [groupNamesFor_length]
  have : ((sortVsys b).groups.zip (newGroupNames a b)).map ((fun x => x.g.name) ∘ fun x => ({ g := x.1, newName := x.2 } : BGrp)) =
      ((sortVsys b).groups.zip (newGroupNames a b)).map (fun p => p.1.name) := by
    apply List.map_congr_left; intro p _; rfl
  rw [this]
  have h2 : ((sortVsys b).groups.zip (newGroupNames a b)).map (fun p => p.1.name) =
      (((sortVsys b).groups.zip (newGroupNames a b)).map Prod.fst).map (·.name) := by
    rw [List.map_map]; rfl
  rw [h2, List.map_fst_zip (by omega), sortVsys_groups_names]

/-- The members of a target group, as the planner state knows them. -/
theorem grpMembers_st0 (a b : Vsys) (hnd : (b.groups.map (·.name)).Nodup) (gr : Grp) (hgr : gr ∈ b.groups) :
    grpMembers (st0 a b) gr.name = sortStrings gr.members ∧ (st0 a b).bGrpIdx gr.name ≠ none := by
  have hmem : gr.name ∈ (st0 a b).bGrp.map (·.g.name) := by
    rw [st0_bGrp_names]; exact List.mem_map_of_mem hgr
  have hsome := lastIdx_isSome_of_mem hmem
  cases hgi : (st0 a b).bGrpIdx gr.name with
  | none => unfold St.bGrpIdx at hgi; rw [hgi] at hsome; cases hsome
  | some gi =>
    refine ⟨?_, by simp⟩
    obtain ⟨gb, hgb, hname⟩ := bGrp_of_idx hgi
    unfold grpMembers
    rw [hgi]
    simp only [hgb, Option.map_some, Option.getD_some]
    -- gb.g is the sorted copy of a group of b with that name: it is gr's
    have hgbmem : gb ∈ (st0 a b).bGrp := List.mem_of_getElem? hgb
    unfold st0 initSt at hgbmem
    simp only [List.mem_map] at hgbmem
    obtain ⟨p, hp, rfl⟩ := hgbmem
    have hp1 : p.1 ∈ (sortVsys b).groups := (List.of_mem_zip hp).1
    simp only [sortVsys, List.mem_map] at hp1
    obtain ⟨g0, hg0, hg0e⟩ := hp1
    have hn0 : g0.name = gr.name := by
      have : p.1.name = gr.name := hname
      rw [← hg0e] at this
      exact this
    have : g0 = gr := by
      obtain ⟨i, hi⟩ := List.getElem?_of_mem hg0
      obtain ⟨j, hj⟩ := List.getElem?_of_mem hgr
      have h1 : (b.groups.map (·.name))[i]? = some gr.name := by rw [List.getElem?_map, hi]; simp [hn0]
      have h2 : (b.groups.map (·.name))[j]? = some gr.name := by rw [List.getElem?_map, hj]; rfl
      have := nodup_getElem?_inj hnd h1 h2
      subst this
      rw [hi] at hj; exact Option.some.inj hj
    subst this
    rw [← hg0e]

theorem st0_bGrpIdx_none (a b : Vsys) (m : String) (h : m ∉ b.groups.map (·.name)) : (st0 a b).bGrpIdx m = none := by
  unfold St.bGrpIdx
  apply lastIdx_none_of_not_mem
  rw [st0_bGrp_names]; exact h

theorem sorted_rule_mem (b : Vsys) {r : Rule} (hr : r ∈ b.rules) :
    ({ r with src := sortStrings r.src, dst := sortStrings r.dst, srv := sortStrings r.srv } : Rule) ∈
      (sortVsys b).rules := by
  simp only [sortVsys, List.mem_map]
  exact ⟨r, hr, rfl⟩

/-- **Flags of the addresses after `markObjects`**, for targets with un-nested groups. -/
theorem stM_addrFlags (a b : Vsys) (hbn : (b.groups.map (·.name)).Nodup) :
    FlagSound (stM a b) ∧ (stM a b).aAddr.map (·.o) = a.addrs ∧ (stM a b).bAddr.map (·.o) = b.addrs ∧
    ∀ m, RefAddrD b m → m ∉ b.groups.map (·.name) → m ∈ b.addrs.map (·.name) →
      Covered (stM a b) m ∧ Marked (stM a b) m := by
  have s0 := initSt_flagSound (sortVsys a) (sortVsys b) (newGroupNames a b)
  have hf := (markObjects_flags (fuelOf a b + 1) (sortVsys b).rules (st0 a b) s0).1
  have i1 := markObjects_inv (fuelOf a b + 2) (st0 a b) (sortVsys b).rules
  refine ⟨hf, ?_, ?_, ?_⟩
  · unfold stM; rw [i1.1]; simp [st0, initSt, sortVsys, List.map_map, Function.comp_def]
  · unfold stM; rw [i1.2.1]; simp [st0, initSt, sortVsys, List.map_map, Function.comp_def]
  · intro m ⟨r, hr, hcase⟩ hng hdef
    have hsome : ((st0 a b).bAddrIdx m).isSome := by
      unfold St.bAddrIdx
      apply lastIdx_isSome_of_mem
      simpa [st0, initSt, sortVsys, List.map_map, Function.comp_def] using hdef
    have hdeep : Deep (st0 a b) (sortStrings r.src) m ∨ Deep (st0 a b) (sortStrings r.dst) m := by
      rcases hcase with (h | h) | ⟨gr, hgr, (h | h), hm⟩
      · exact Or.inl (Or.inl ((mem_sortStrings m _).mpr h))
      · exact Or.inr (Or.inl ((mem_sortStrings m _).mpr h))
      · exact Or.inl (Or.inr ⟨gr.name, (mem_sortStrings _ _).mpr h, by
          rw [(grpMembers_st0 a b hbn gr hgr).1]; exact (mem_sortStrings m _).mpr hm⟩)
      · exact Or.inr (Or.inr ⟨gr.name, (mem_sortStrings _ _).mpr h, by
          rw [(grpMembers_st0 a b hbn gr hgr).1]; exact (mem_sortStrings m _).mpr hm⟩)
    obtain ⟨c1, c2⟩ := markObjects_deep (fuelOf a b) (sortVsys b).rules (st0 a b) s0 _ m (sorted_rule_mem b hr) hdeep
      (st0_bGrpIdx_none a b m hng)
    exact ⟨c1, c2 hsome⟩

/-- Flags of the services after `markObjects` (no service-groups). -/
theorem stM_svcFlags (a b : Vsys) (hbs : b.sgroups = []) :
    SFlagSound (stM a b) ∧ (stM a b).aSvc.map (·.o) = a.svcs ∧ (stM a b).bSvc.map (·.o) = b.svcs ∧
    ∀ x, RefSvc b x → x ∈ b.svcs.map (·.name) → SCovered (stM a b) x ∧ SMarked (stM a b) x := by
  have t0 := initSt_sflagSound (sortVsys a) (sortVsys b) (newGroupNames a b)
  obtain ⟨f2, _, c2⟩ := markObjects_sflags (fuelOf a b + 1) (sortVsys b).rules (st0 a b) t0
  have i2 := markObjects_sinv (fuelOf a b + 2) (st0 a b) (sortVsys b).rules
  have hbSG : ∀ x, (st0 a b).bSGIdx x = none := by
    intro x
    simp [St.bSGIdx, st0, initSt, sortVsys, hbs, lastIdx, lastIdxFrom]
  refine ⟨f2, ?_, ?_, ?_⟩
  · unfold stM; rw [i2.1]; simp [st0, initSt, sortVsys, List.map_map, Function.comp_def]
  · unfold stM; rw [i2.2.1]; simp [st0, initSt, sortVsys, List.map_map, Function.comp_def]
  · intro x ⟨r, hr, hx⟩ hdef
    have hsome : ((st0 a b).bSvcIdx x).isSome := by
      unfold St.bSvcIdx
      apply lastIdx_isSome_of_mem
      simpa [st0, initSt, sortVsys, List.map_map, Function.comp_def] using hdef
    exact ⟨c2 _ x (sorted_rule_mem b hr) ((mem_sortStrings x _).mpr hx) (hbSG x),
      markObjects_smarks (fuelOf a b + 1) _ _ _ x (sorted_rule_mem b hr) ((mem_sortStrings x _).mpr hx) (hbSG x) hsome⟩

/-! ### The groups after `markObjects` -/

/-- The target's rules name `x` in a source or destination. -/
def RefG (b : Vsys) (x : String) : Prop := ∃ r ∈ b.rules, x ∈ r.src ∨ x ∈ r.dst

theorem stM_gmark (a b : Vsys) : GMark (st0 a b) (stM a b) := markObjects_gmark _ _ _

theorem stM_aGrp (a b : Vsys) :
    (stM a b).aGrp = a.groups.map (fun g => ({ g := { g with members := sortStrings g.members } } : AGrp)) := by
  rw [(stM_gmark a b).ag]
  simp [st0, initSt, sortVsys, List.map_map, Function.comp_def]

theorem stM_aGrp_names (a b : Vsys) : (stM a b).aGrp.map (·.g.name) = a.groups.map (·.name) := by
  rw [stM_aGrp]; simp [List.map_map, Function.comp_def]

theorem stM_bGrp_names (a b : Vsys) : (stM a b).bGrp.map (·.g.name) = b.groups.map (·.name) := by
  have := congrArg (List.map (fun p : Grp × String × String => p.1.name)) (stM_gmark a b).bg
  simp only [List.map_map, Function.comp_def] at this
  rw [this, st0_bGrp_names]

theorem stM_aGrp_mem (a b : Vsys) {ga : AGrp} (h : ga ∈ (stM a b).aGrp) :
    ∃ gr ∈ a.groups, ga.g = { gr with members := sortStrings gr.members } ∧ ga.needed = false := by
  rw [stM_aGrp] at h
  obtain ⟨gr, hgr, rfl⟩ := List.mem_map.mp h
  exact ⟨gr, hgr, rfl, rfl⟩

theorem stM_bGrp_mem (a b : Vsys) {gb : BGrp} (h : gb ∈ (stM a b).bGrp) :
    ∃ gr ∈ b.groups, gb.g = { gr with members := sortStrings gr.members } ∧ gb.newName ∈ newGroupNames a b ∧
      gb.onDev = "" := by
  obtain ⟨gb0, hgb0, e⟩ := mem_of_map_eq (stM_gmark a b).bg h
  simp only [Prod.mk.injEq] at e
  unfold st0 initSt at hgb0
  simp only [List.mem_map] at hgb0
  obtain ⟨p, hp, rfl⟩ := hgb0
  obtain ⟨hp1, hp2⟩ := List.of_mem_zip hp
  simp only [sortVsys, List.mem_map] at hp1
  obtain ⟨gr, hgr, hge⟩ := hp1
  refine ⟨gr, hgr, ?_, ?_, ?_⟩
  · rw [← e.1]; exact hge.symm
  · rw [← e.2.1]; exact hp2
  · rw [← e.2.2]

theorem bgrp_eq_of_name {l : List BGrp} (hnd : (l.map (·.g.name)).Nodup) {x y : BGrp} (hx : x ∈ l) (hy : y ∈ l)
    (e : x.g.name = y.g.name) : x = y := by
  obtain ⟨i, hi⟩ := List.getElem?_of_mem hx
  obtain ⟨j, hj⟩ := List.getElem?_of_mem hy
  have h1 : (l.map (·.g.name))[i]? = some x.g.name := by rw [List.getElem?_map, hi]; rfl
  have h2 : (l.map (·.g.name))[j]? = some x.g.name := by rw [List.getElem?_map, hj, e]; rfl
  have := nodup_getElem?_inj hnd h1 h2
  subst this
  rw [hi] at hj
  exact Option.some.inj hj

/-- **The invariant of the claims holds before the rule phase.** -/
theorem stM_ginv (sh : Shared) (a b : Vsys) (hP : GrpPair sh a b) : GInv (RefG b) (stM a b) := by
  obtain ⟨_, _, _, _, _, _, _, _, hagn, hbgn, hagm, hbgm, hnames, _, _, _, _, _, _⟩ := hP
  have hname_a : ∀ x ∈ a.groups.map (·.name), x ≠ "" ∧ x ≠ "any" ∧ x ∉ sh ∧ x ∉ a.addrs.map (·.name) ∧
      x ∉ b.addrs.map (·.name) := fun x hx => hnames x (by simp [hx])
  have hname_b : ∀ x ∈ b.groups.map (·.name), x ≠ "" ∧ x ≠ "any" ∧ x ∉ sh ∧ x ∉ a.addrs.map (·.name) ∧
      x ∉ b.addrs.map (·.name) := fun x hx => hnames x (by simp [hx])
  have hname_n : ∀ x ∈ newGroupNames a b, x ≠ "" ∧ x ≠ "any" ∧ x ∉ sh ∧ x ∉ a.addrs.map (·.name) ∧
      x ∉ b.addrs.map (·.name) := fun x hx => hnames x (by simp [hx])
  obtain ⟨hfresh, _, _, _⟩ := groupNamesFor_spec suffixInj (sortVsys a) (sortVsys b)
    (by rw [sortVsys_groups_names]; exact hbgn)
  have aidx_none : ∀ m, m ∉ a.groups.map (·.name) → (stM a b).aGrpIdx m = none := by
    intro m hm
    unfold St.aGrpIdx
    apply lastIdx_none_of_not_mem
    rw [stM_aGrp_names]; exact hm
  have bidx_none : ∀ m, m ∉ b.groups.map (·.name) → (stM a b).bGrpIdx m = none := by
    intro m hm
    unfold St.bGrpIdx
    apply lastIdx_none_of_not_mem
    rw [stM_bGrp_names]; exact hm
  refine ⟨by rw [stM_aGrp_names]; exact hagn, by rw [stM_bGrp_names]; exact hbgn, ?_, ?_, ?_, ?_, ?_, ?_, ?_, ?_,
    ?_, ?_, ?_, ?_, ?_⟩
  rotate_right
  · intro gb hgb hne
    exact absurd (stM_bGrp_mem a b hgb).choose_spec.2.2.2 hne
  rotate_right
  · intro ga hga hn
    obtain ⟨_, _, _, hnn⟩ := stM_aGrp_mem a b hga
    rw [hnn] at hn; cases hn
  · intro ga hga
    obtain ⟨gr, hgr, e, _⟩ := stM_aGrp_mem a b hga
    rw [e]
    exact (hname_a gr.name (List.mem_map_of_mem hgr)).1
  · intro gb hgb
    obtain ⟨gr, hgr, e, hn, _⟩ := stM_bGrp_mem a b hgb
    refine ⟨(hname_n _ hn).1, ?_⟩
    rw [stM_aGrp_names, ← sortVsys_groups_names]
    exact hfresh _ hn
  · intro ga hga m hm
    obtain ⟨gr, hgr, e, _⟩ := stM_aGrp_mem a b hga
    rw [e] at hm
    have hm' : m ∈ gr.members := (mem_sortStrings m _).mp hm
    have hma := (hagm gr hgr).2 m hm'
    exact aidx_none m (fun h => (hname_a m h).2.2.2.1 hma)
  · intro gb hgb m hm
    obtain ⟨gr, hgr, e, _, _⟩ := stM_bGrp_mem a b hgb
    rw [e] at hm
    have hm' : m ∈ gr.members := (mem_sortStrings m _).mp hm
    have hmb := (hbgm gr hgr).2 m hm'
    exact bidx_none m (fun h => (hname_b m h).2.2.2.2 hmb)
  · intro ga hga
    obtain ⟨gr, hgr, e, _⟩ := stM_aGrp_mem a b hga
    rw [e]; exact sortStrings_nodup (hagm gr hgr).1
  · intro gb hgb
    obtain ⟨gr, hgr, e, _, _⟩ := stM_bGrp_mem a b hgb
    rw [e]; exact sortStrings_nodup (hbgm gr hgr).1
  · -- c0: a group the rules name is needed
    intro gb hgb _ ⟨r, hr, hx⟩
    have hnm : gb.g.name ∈ b.groups.map (·.name) := by
      rw [← stM_bGrp_names]; exact List.mem_map_of_mem hgb
    have hsome := lastIdx_isSome_of_mem (names := (st0 a b).bGrp.map (·.g.name)) (n := gb.g.name)
      (by rw [st0_bGrp_names]; exact hnm)
    cases hgi : (st0 a b).bGrpIdx gb.g.name with
    | none => unfold St.bGrpIdx at hgi; rw [hgi] at hsome; cases hsome
    | some gi =>
      obtain ⟨gb', hgb', hn'⟩ := markObjects_grp_needed (fuelOf a b + 1) (sortVsys b).rules (st0 a b) _ gb.g.name gi
        (sorted_rule_mem b hr) (by
          rcases hx with hx | hx
          · exact Or.inl ((mem_sortStrings _ _).mpr hx)
          · exact Or.inr ((mem_sortStrings _ _).mpr hx)) hgi
      have hgi' : (stM a b).bGrpIdx gb.g.name = some gi := by rw [(stM_gmark a b).bIdx]; exact hgi
      obtain ⟨gb'', hgb'', hname''⟩ := bGrp_of_idx hgi'
      have hgb2 : (stM a b).bGrp[gi]? = some gb' := hgb'
      rw [hgb''] at hgb2
      cases hgb2
      have := bgrp_eq_of_name (by rw [stM_bGrp_names]; exact hbgn) (List.mem_of_getElem? hgb'') hgb hname''
      rw [← this]; exact hn'
  · intro gb hgb he
    obtain ⟨_, _, _, hn, hon⟩ := stM_bGrp_mem a b hgb
    rw [hon] at he
    exact absurd he.symm (hname_n _ hn).1
  · intro gb hgb ga hga he
    obtain ⟨_, _, _, _, hon⟩ := stM_bGrp_mem a b hgb
    obtain ⟨gr, hgr, e, _⟩ := stM_aGrp_mem a b hga
    rw [hon, e] at he
    exact absurd he.symm (hname_a gr.name (List.mem_map_of_mem hgr)).1
  · intro gb hgb
    exact Or.inl (stM_bGrp_mem a b hgb).choose_spec.2.2.2
  · intro gb hgb
    obtain ⟨gr, hgr, e, _, _⟩ := stM_bGrp_mem a b hgb
    rw [e]
    exact (hname_b gr.name (List.mem_map_of_mem hgr)).1

/-! ### Shapes of the lists -/

theorem isGrpOf_iff (v : Vsys) (x : String) : isGrpOf v x = true ↔ x ∈ v.groups.map (·.name) := by
  unfold isGrpOf
  simp only [List.any_eq_true, beq_iff_eq, List.mem_map]

theorem sortStrings_single (g : String) : sortStrings [g] = [g] := by
  simp [sortStrings, insertSorted]

theorem sortStrings_ne_nil {l : List String} (h : l ≠ []) : sortStrings l ≠ [] := by
  intro e
  have := (sortStrings_perm l).length_eq
  rw [e] at this
  exact h (List.eq_nil_of_length_eq_zero this.symm)

theorem singleGrp_spec {v : Vsys} {l : List String} (h : singleGrp v l = true) : ∃ g, l = [g] ∧ isGrpOf v g = true := by
  match l, h with
  | [g], h => exact ⟨g, rfl, h⟩

theorem bRulesOf_mem (a b : Vsys) {rb : Rule} (h : rb ∈ bRulesOf a b) :
    ∃ r ∈ b.rules, rb.src = sortStrings r.src ∧ rb.dst = sortStrings r.dst ∧ rb.srv = sortStrings r.srv ∧
      rb.hdr = r.hdr := by
  unfold bRulesOf at h
  simp only [List.mem_map] at h
  obtain ⟨p, hp, rfl⟩ := h
  have hp1 := (List.of_mem_zip hp).1
  simp only [sortVsys, List.mem_map] at hp1
  obtain ⟨r, hr, e⟩ := hp1
  exact ⟨r, hr, by rw [← e], by rw [← e], by rw [← e], by rw [← e]⟩

/-- **The lists of the device's rules and of the target's rules have the shapes the rule phase
needs**, in the planner state before the rule phase. -/
theorem stM_shapes (sh : Shared) (a b : Vsys) (hP : GrpPair sh a b) :
    (∀ ra ∈ (sortVsys a).rules, AShape (stM a b) ra.src ∧ AShape (stM a b) ra.dst) ∧
    (∀ rb ∈ bRulesOf a b, BShape (RefG b) (stM a b) rb.src ∧ BShape (RefG b) (stM a b) rb.dst) := by
  obtain ⟨_, _, _, _, _, _, _, _, hagn, hbgn, hagm, hbgm, hnames, hal, hbl, har, hbr, _, _⟩ := hP
  have hname_a : ∀ x ∈ a.groups.map (·.name), x ≠ "" ∧ x ≠ "any" ∧ x ∉ sh ∧ x ∉ a.addrs.map (·.name) ∧
      x ∉ b.addrs.map (·.name) := fun x hx => hnames x (by simp [hx])
  have hname_n : ∀ x ∈ newGroupNames a b, x ≠ "" ∧ x ≠ "any" ∧ x ∉ sh ∧ x ∉ a.addrs.map (·.name) ∧
      x ∉ b.addrs.map (·.name) := fun x hx => hnames x (by simp [hx])
  have aidx_none : ∀ m, isGrpOf a m = false → (stM a b).aGrpIdx m = none := by
    intro m hm
    unfold St.aGrpIdx
    apply lastIdx_none_of_not_mem
    rw [stM_aGrp_names]
    intro h
    rw [(isGrpOf_iff a m).mpr h] at hm; cases hm
  have aidx_some : ∀ m, isGrpOf a m = true → ((stM a b).aGrpIdx m).isSome = true := by
    intro m hm
    unfold St.aGrpIdx
    apply lastIdx_isSome_of_mem
    rw [stM_aGrp_names]; exact (isGrpOf_iff a m).mp hm
  have bidx_none : ∀ m, isGrpOf b m = false → (stM a b).bGrpIdx m = none := by
    intro m hm
    unfold St.bGrpIdx
    apply lastIdx_none_of_not_mem
    rw [stM_bGrp_names]
    intro h
    rw [(isGrpOf_iff b m).mpr h] at hm; cases hm
  have bidx_some : ∀ m, isGrpOf b m = true → ((stM a b).bGrpIdx m).isSome = true := by
    intro m hm
    unfold St.bGrpIdx
    apply lastIdx_isSome_of_mem
    rw [stM_bGrp_names]; exact (isGrpOf_iff b m).mp hm
  -- one list of a device rule
  have ashape : ∀ r ∈ a.rules, ∀ l, (l = r.src ∨ l = r.dst) → ListShape a l → AShape (stM a b) (sortStrings l) := by
    intro r hr l hl hs
    obtain ⟨hne, hcase⟩ := hs
    refine ⟨sortStrings_ne_nil hne, ?_, ?_⟩
    · rcases hcase with ⟨h1, _⟩ | h1
      · exact Or.inl (fun x hx => aidx_none x (h1 x ((mem_sortStrings x l).mp hx)))
      · obtain ⟨g, rfl, hg⟩ := singleGrp_spec h1
        exact Or.inr ⟨g, sortStrings_single g, aidx_some g hg⟩
    · intro x hx hidx gb hgb e
      have hxl : x ∈ l := (mem_sortStrings x l).mp hx
      obtain ⟨_, _, _, hn, _⟩ := stM_bGrp_mem a b hgb
      rw [← e] at hn
      obtain ⟨_, n2, n3, n4, _⟩ := hname_n x hn
      have hres := har r hr x (by
        rcases hl with rfl | rfl
        · simp [hxl]
        · simp [hxl])
      rcases hres with h | h | h | h
      · exact n2 h
      · exact n3 h
      · exact n4 h
      · have := aidx_some x ((isGrpOf_iff a x).mpr h)
        rw [hidx] at this; cases this
  have bshape : ∀ r ∈ b.rules, ∀ l, (l = r.src ∨ l = r.dst) → ListShape b l →
      BShape (RefG b) (stM a b) (sortStrings l) := by
    intro r hr l hl hs
    obtain ⟨hne, hcase⟩ := hs
    refine ⟨?_, ?_⟩
    · rcases hcase with ⟨h1, _⟩ | h1
      · exact Or.inl (fun x hx => bidx_none x (h1 x ((mem_sortStrings x l).mp hx)))
      · obtain ⟨g, rfl, hg⟩ := singleGrp_spec h1
        refine Or.inr ⟨g, sortStrings_single g, bidx_some g hg, r, hr, ?_⟩
        rcases hl with e | e
        · exact Or.inl (by rw [← e]; simp)
        · exact Or.inr (by rw [← e]; simp)
    · intro y hy hidx ga hga e
      have hyl : y ∈ l := (mem_sortStrings y l).mp hy
      obtain ⟨gr, hgr, eg, _⟩ := stM_aGrp_mem a b hga
      have hyn : y ∈ a.groups.map (·.name) := by
        rw [e, eg]; exact List.mem_map.mpr ⟨gr, hgr, rfl⟩
      obtain ⟨_, n2, n3, _, n5⟩ := hname_a y hyn
      have hres := (hbr r hr).1 y (by
        rcases hl with rfl | rfl
        · simp [hyl]
        · simp [hyl])
      rcases hres with h | h | h | h
      · exact n2 h
      · exact n3 h
      · exact n5 h
      · have := bidx_some y ((isGrpOf_iff b y).mpr h)
        rw [hidx] at this; cases this
  constructor
  · intro ra hra
    simp only [sortVsys, List.mem_map] at hra
    obtain ⟨r, hr, rfl⟩ := hra
    exact ⟨ashape r hr r.src (Or.inl rfl) (hal r hr).1, ashape r hr r.dst (Or.inr rfl) (hal r hr).2⟩
  · intro rb hrb
    obtain ⟨r, hr, e1, e2, _, _⟩ := bRulesOf_mem a b hrb
    rw [e1, e2]
    exact ⟨bshape r hr r.src (Or.inl rfl) (hbl r hr).1, bshape r hr r.dst (Or.inr rfl) (hbl r hr).2⟩

end NA.PanOs
