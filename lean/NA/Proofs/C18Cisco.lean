import NA.Model.MergeCisco
import NA.Proofs.C18
/-! Lemmas about the general model of cisco MergeSpoc (`NA/Model/MergeCisco.lean`). -/
namespace NA.C18.G

/-! ### The invariant: references only accumulate; each non-simple object is handed over once -/

def LogInv (s : St) : Prop := s.log.Nodup ∧ ∀ k ∈ s.log, s.isRefd k = true

theorem assocGet_assocSet {β : Type} (t : List (String × β)) (k k' : String) (v : β) :
    assocGet (assocSet t k v) k' = if k == k' then some v else assocGet t k' := by
  induction t with
  | nil => by_cases h : k == k' <;> simp [assocSet, assocGet, h]
  | cons p t ih =>
    unfold assocSet
    by_cases hp : p.1 == k
    · have hpk : p.1 = k := by simpa using hp
      by_cases h : k == k'
      · simp [hp, h, assocGet]
      · have h' : (k == k') = false := by simpa using h
        have : (p.1 == k') = false := by rw [hpk]; exact h'
        simp [hp, h', assocGet, List.find?_cons, this]
    · have hp' : (p.1 == k) = false := by simpa using hp
      simp only [hp', Bool.false_eq_true, if_false]
      unfold assocGet at ih ⊢
      simp only [List.find?_cons]
      by_cases hpk' : p.1 == k'
      · have hne : (k == k') = false := by
          have h1 : p.1 = k' := by simpa using hpk'
          have h2 : ¬ p.1 = k := by simpa using hp
          simp; intro h3; exact h2 (h1.trans h3.symm)
        simp [hpk', hne]
      · have hpk'' : (p.1 == k') = false := by simpa using hpk'
        simp only [hpk'']
        exact ih

/-- `set` never removes a key of the table. -/
theorem Tbl.has_set_of_has (t : Tbl) (p n p' n' : String) (l : List Cmd) (h : t.has p' n' = true) :
    (t.set p n l).has p' n' = true := by
  unfold Tbl.has Tbl.names Tbl.set at *
  rw [assocGet_assocSet]
  by_cases hp : p == p'
  · have hpp : p = p' := by simpa using hp
    subst hpp
    simp only [hp, if_true, Option.getD_some]
    rw [assocGet_assocSet]
    by_cases hn : n == n'
    · simp [hn]
    · have hn' : (n == n') = false := by simpa using hn
      simp only [hn', Bool.false_eq_true, if_false]
      exact h
  · have hp' : (p == p') = false := by simpa using hp
    simp only [hp', Bool.false_eq_true, if_false]
    exact h

theorem Tbl.get_set (t : Tbl) (p n p' n' : String) (l : List Cmd) :
    (t.set p n l).get p' n' = if p = p' ∧ n = n' then l else t.get p' n' := by
  unfold Tbl.get Tbl.names Tbl.set
  rw [assocGet_assocSet]
  by_cases hp : p = p'
  · subst hp
    simp only [beq_self_eq_true, if_true, Option.getD_some, true_and]
    rw [assocGet_assocSet]
    by_cases hn : n = n'
    · subst hn; simp
    · have : (n == n') = false := by simpa using hn
      simp [this, hn, Tbl.names]
  · have : (p == p') = false := by simpa using hp
    simp [this, hp]

/-- The list written last for key `(p, n)`. -/
def lastWrite (w : List (Key × List Cmd)) (p n : String) : Option (List Cmd) :=
  ((w.filter (fun x => x.1.1 == p && x.1.2 == n)).getLast?).map (·.2)

theorem lastWrite_append (w : List (Key × List Cmd)) (p n p' n' : String) (l : List Cmd) :
    lastWrite (w ++ [((p, n), l)]) p' n' = if p = p' ∧ n = n' then some l else lastWrite w p' n' := by
  unfold lastWrite
  rw [List.filter_append]
  by_cases h : p = p' ∧ n = n'
  · obtain ⟨rfl, rfl⟩ := h
    simp [List.filter_cons]
  · have : ((p == p') && (n == n')) = false := by
      simp only [Bool.and_eq_false_iff, beq_eq_false_iff_ne]
      by_cases hp : p = p'
      · exact Or.inr (fun hn => h ⟨hp, hn⟩)
      · exact Or.inl hp
    simp [List.filter_cons, this, h]

/-- The table holds, for every key written during the merge, the list written last. -/
def LogOK (s : St) : Prop := ∀ p n l, lastWrite s.writes p n = some l → s.a.get p n = l

structure Ext (s s' : St) : Prop where
  tbl  : LogOK s → LogOK s'
  wsub : ∀ x, x ∈ s.writes → x ∈ s'.writes
  keys : ∀ p n, s.a.has p n = true → s'.a.has p n = true
  tru  : ∀ k, s.isRefd k = true → s'.isRefd k = true
  seen : ∀ k, k ∈ s.seen → k ∈ s'.seen
  sub  : ∀ k, k ∈ s.log → k ∈ s'.log
  inv  : LogInv s → LogInv s'

theorem Ext.refl (s : St) : Ext s s := ⟨fun h => h, fun _ h => h, fun _ _ h => h, fun _ h => h, fun _ h => h, fun _ h => h, fun h => h⟩

theorem Ext.trans {a b c : St} (h1 : Ext a b) (h2 : Ext b c) : Ext a c :=
  ⟨fun h => h2.tbl (h1.tbl h), fun x h => h2.wsub x (h1.wsub x h), fun p n h => h2.keys p n (h1.keys p n h), fun k h => h2.tru k (h1.tru k h), fun k h => h2.seen k (h1.seen k h), fun k h => h2.sub k (h1.sub k h),
   fun h => h2.inv (h1.inv h)⟩

/-- Storing a list in the table. -/
theorem Ext.setA (s : St) (p n : String) (l : List Cmd) : Ext s (s.store p n l) := by
  refine ⟨fun h p' n' l' hl => ?_, fun x hx => List.mem_append_left _ hx,
    fun p' n' h => Tbl.has_set_of_has _ _ _ _ _ _ h, fun _ h => h, fun _ h => h, fun _ h => h, fun h => h⟩
  simp only [St.store] at hl ⊢
  rw [lastWrite_append] at hl
  rw [Tbl.get_set]
  by_cases hk : p = p' ∧ n = n'
  · simp only [hk, and_self, if_true, Option.some.injEq] at hl ⊢
    exact hl
  · simp only [hk, if_false] at hl ⊢
    exact h p' n' l' hl

theorem isRefd_markRef (s : St) (k k' : Key) :
    (s.markRef k).isRefd k' = true ↔ k' = k ∨ s.isRefd k' = true := by
  simp [St.markRef, St.isRefd]

theorem Ext.markRef (s : St) (k : Key) : Ext s (s.markRef k) := by
  refine ⟨fun h => h, fun _ h => h, fun _ _ h => h, fun k' h => ?_, fun _ h => h, fun _ h => h, fun h => ⟨h.1, fun k' hk' => ?_⟩⟩
  · exact (isRefd_markRef s k k').mpr (Or.inr h)
  · exact (isRefd_markRef s k k').mpr (Or.inr (h.2 k' hk'))

theorem Ext.markSeen (s : St) (k : Key) : Ext s (s.markSeen k) :=
  ⟨fun h => h, fun _ h => h, fun _ _ h => h, fun _ h => h, fun _ h => List.mem_append_left _ h, fun _ h => h, fun h => h⟩

/-- Handing a not yet referenced object over to `mergeCmds`. -/
theorem Ext.handOver (s : St) (k : Key) (hk : s.isRefd k = false) :
    Ext s { s.markRef k with log := s.log ++ [k] } := by
  refine ⟨fun h => h, fun _ h => h, fun _ _ h => h, fun k' h => ?_, fun _ h => h, fun k' h => List.mem_append_left _ h, fun h => ⟨?_, fun k' hk' => ?_⟩⟩
  · show (s.markRef k).isRefd k' = true
    exact (Ext.markRef s k).tru k' h
  · show (s.log ++ [k]).Nodup
    rw [List.nodup_append]
    refine ⟨h.1, by simp, ?_⟩
    intro a ha c hc
    have hck : c = k := by simpa using hc
    subst hck
    intro hab
    subst hab
    have := h.2 a ha
    rw [hk] at this; cases this
  · show (s.markRef k).isRefd k' = true
    have hk'' : k' ∈ s.log ++ [k] := hk'
    rcases List.mem_append.mp hk'' with h1 | h1
    · exact (isRefd_markRef s k k').mpr (Or.inr (h.2 k' h1))
    · exact (isRefd_markRef s k k').mpr (Or.inl (by simpa using h1))

theorem simpleFinish_fst (st : St) (al : List Cmd) (aref : Option (List String)) (bref : List String) (i : Nat) :
    (simpleFinish st al aref bref i).1 = st := by
  unfold simpleFinish; split <;> rfl

def RecExt (rec : Rec) : Prop := ∀ st al bl n p st', rec st al bl n p = .ok st' → Ext st st'

theorem foldE_ext {σ β : Type} (π : σ → St) (f : σ → β → Except Err σ)
    (hf : ∀ s x s', f s x = .ok s' → Ext (π s) (π s')) :
    ∀ (l : List β) (s s' : σ), foldE f s l = .ok s' → Ext (π s) (π s') := by
  intro l
  induction l with
  | nil => intro s s' h; simp only [foldE, Except.ok.injEq] at h; subst h; exact Ext.refl _
  | cons x xs ih =>
    intro s s' h
    simp only [foldE] at h
    cases hx : f s x with
    | error e => rw [hx] at h; cases h
    | ok s1 => rw [hx] at h; exact (hf s x s1 hx).trans (ih s1 s' h)

section
variable (rec : Rec) (b : Tbl) (raw : Bool) (hrec : RecExt rec)
include hrec

theorem refStep_ext (acc acc' : St × Option (List String) × List String) (i : Nat) (bName pfx : String)
    (h : refStep rec b raw acc i bName pfx = .ok acc') : Ext acc.1 acc'.1 := by
  obtain ⟨st, aref, bref⟩ := acc
  unfold refStep at h
  simp only at h
  split at h
  · cases h
  · rename_i refCmd rest _
    split at h
    · -- simple object
      split at h
      · cases h
        rw [simpleFinish_fst]
        exact Ext.markRef _ _
      · split at h
        · cases h
        · cases h
          rw [simpleFinish_fst]
          exact (Ext.markRef st _).trans (Ext.setA _ _ _ _)
    · split at h
      · rename_i ar
        split at h
        · cases h
        · rename_i hnot
          split at h
          · rename_i st' hr
            cases h
            exact (Ext.handOver st _ (by simpa using hnot)).trans (hrec _ _ _ _ _ _ hr)
          · cases h
      · split at h
        · cases h
        · split at h
          · cases h
          · split at h
            · cases h
            · rename_i hnot
              split at h
              · rename_i st' hr
                cases h
                exact (Ext.handOver st _ (by simpa using hnot)).trans (hrec _ _ _ _ _ _ hr)
              · cases h

theorem mergeRefs_ext (st : St) (aref : Option (List String)) (bref brefPfx : List String)
    (r : St × Option (List String) × List String)
    (h : mergeRefs rec b raw st aref bref brefPfx = .ok r) : Ext st r.1 := by
  unfold mergeRefs at h
  exact foldE_ext (fun (a : St × Option (List String) × List String) => a.1) _
    (fun s x s' hs => refStep_ext rec b raw hrec s s' _ _ _ hs) _ _ _ h

theorem subStep_ext (keys : List String) (acc acc' : St × List Sub) (bs : Sub)
    (h : subStep rec b raw keys acc bs = .ok acc') : Ext acc.1 acc'.1 := by
  obtain ⟨st, asub⟩ := acc
  unfold subStep at h
  simp only at h
  split at h
  · split at h
    · cases h
    · split at h
      · rename_i hm; cases h; exact mergeRefs_ext rec b raw hrec _ _ _ _ _ hm
      · cases h
  · split at h
    · rename_i hm; cases h; exact mergeRefs_ext rec b raw hrec _ _ _ _ _ hm
    · cases h

theorem mergeSubCmds_ext (st : St) (a bc : Cmd) (r : St × Cmd)
    (h : mergeSubCmds rec b raw st a bc = .ok r) : Ext st r.1 := by
  unfold mergeSubCmds at h
  split at h
  · rename_i hf; cases h
    exact foldE_ext (fun (a : St × List Sub) => a.1) _ (fun s x s' hs => subStep_ext rec b raw hrec _ s s' x hs) _ _ _ hf
  · cases h

theorem newSubStep_ext (acc acc' : St × List Sub) (bs : Sub)
    (h : newSubStep rec b raw acc bs = .ok acc') : Ext acc.1 acc'.1 := by
  unfold newSubStep at h
  split at h
  · rename_i hm; cases h; exact mergeRefs_ext rec b raw hrec _ _ _ _ _ hm
  · cases h

theorem genericStep_ext (keys : List String) (acc acc' : St × List Cmd) (bc : Cmd)
    (h : genericStep rec b raw keys acc bc = .ok acc') : Ext acc.1 acc'.1 := by
  obtain ⟨st, al⟩ := acc
  unfold genericStep at h
  simp only at h
  split at h
  · split at h
    · cases h
    · split at h
      · cases h
      · rename_i hs
        split at h
        · rename_i hm; cases h
          exact (mergeSubCmds_ext rec b raw hrec _ _ _ _ hs).trans (mergeRefs_ext rec b raw hrec _ _ _ _ _ hm)
        · cases h
  · split at h
    · cases h
    · rename_i hf
      split at h
      · rename_i hm; cases h
        exact (foldE_ext (fun (a : St × List Sub) => a.1) _
          (fun s x s' hs => newSubStep_ext rec b raw hrec s s' x hs) _ _ _ hf).trans
          (mergeRefs_ext rec b raw hrec _ _ _ _ _ hm)
      · cases h

theorem mergeGeneric_ext (st st' : St) (al bl : List Cmd) (name pfx : String)
    (h : mergeGeneric rec b raw st al bl name pfx = .ok st') : Ext st st' := by
  unfold mergeGeneric at h
  split at h
  · rename_i hf; cases h
    exact (foldE_ext (fun (a : St × List Cmd) => a.1) _
      (fun s x s' hs => genericStep_ext rec b raw hrec _ s s' x hs) _ _ _ hf).trans (Ext.setA _ _ _ _)
  · cases h

theorem aclRefStep_ext (acc acc' : St × List Cmd) (bc : Cmd)
    (h : aclRefStep rec b raw acc bc = .ok acc') : Ext acc.1 acc'.1 := by
  unfold aclRefStep at h
  split at h
  · rename_i hm; cases h; exact mergeRefs_ext rec b raw hrec _ _ _ _ _ hm
  · cases h

theorem mergeAsaAcl_ext (st st' : St) (al bl : List Cmd) (name pfx : String)
    (h : mergeAsaAcl rec b raw st al bl name pfx = .ok st') : Ext st st' := by
  unfold mergeAsaAcl at h
  split at h
  · cases h
  · rename_i hf; cases h
    exact (foldE_ext (fun (a : St × List Cmd) => a.1) _
      (fun s x s' hs => aclRefStep_ext rec b raw hrec s s' x hs) _ _ _ hf).trans (Ext.setA _ _ _ _)

theorem cryptoStep_ext (keys : List (String × String)) (al0 : List Cmd)
    (acc acc' : St × List Cmd × List Cmd) (bc : Cmd)
    (h : cryptoStep rec b raw keys al0 acc bc = .ok acc') : Ext acc.1 acc'.1 := by
  obtain ⟨st, al, add⟩ := acc
  unfold cryptoStep cryptoStepG at h
  simp only [if_true] at h
  split at h
  · split at h
    · cases h
    · split at h
      · split at h
        · cases h
        · rename_i hs
          split at h
          · rename_i hm; cases h
            exact (mergeSubCmds_ext rec b raw hrec _ _ _ _ hs).trans (mergeRefs_ext rec b raw hrec _ _ _ _ _ hm)
          · cases h
      · split at h
        · rename_i hm; cases h; exact mergeRefs_ext rec b raw hrec _ _ _ _ _ hm
        · cases h
  · split at h
    · cases h
    · rename_i hf
      split at h
      · rename_i hm; cases h
        exact (foldE_ext (fun (a : St × List Sub) => a.1) _
          (fun s x s' hs => newSubStep_ext rec b raw hrec s s' x hs) _ _ _ hf).trans
          (mergeRefs_ext rec b raw hrec _ _ _ _ _ hm)
      · cases h

theorem cryptoCommon_ext (st : St) (al bl : List Cmd) (r : St × List Cmd × List Cmd)
    (h : cryptoCommon rec b raw st al bl = .ok r) : Ext st r.1 := by
  unfold cryptoCommon at h
  exact foldE_ext (fun (a : St × List Cmd × List Cmd) => a.1) _
    (fun s x s' hs => cryptoStep_ext rec b raw hrec _ _ s s' x hs) _ _ _ h

theorem mergeDynMap_ext (st st' : St) (al bl : List Cmd) (name pfx : String)
    (h : mergeDynMap rec b raw st al bl name pfx = .ok st') : Ext st st' := by
  unfold mergeDynMap at h
  split at h
  · rename_i hc; cases h
    exact (cryptoCommon_ext rec b raw hrec _ _ _ _ hc).trans (Ext.setA _ _ _ _)
  · cases h

theorem cryptoMapStep_ext (acc acc' : St × List Cmd) (c : Call)
    (h : cryptoMapStep rec b raw acc c = .ok acc') : Ext acc.1 acc'.1 := by
  obtain ⟨st, al⟩ := acc
  unfold cryptoMapStep at h
  simp only at h
  split at h
  · cases h
  · rename_i hc; cases h; exact cryptoCommon_ext rec b raw hrec _ _ _ _ hc

theorem mergeCryptoMap_ext (st st' : St) (al bl : List Cmd) (name pfx : String)
    (h : mergeCryptoMap rec b raw st al bl name pfx = .ok st') : Ext st st' := by
  unfold mergeCryptoMap at h
  split at h
  · cases h
  · split at h
    · rename_i hf; cases h
      exact (foldE_ext (fun (a : St × List Cmd) => a.1) _
        (fun s x s' hs => cryptoMapStep_ext rec b raw hrec s s' x hs) _ _ _ hf).trans (Ext.setA _ _ _ _)
    · cases h

theorem mergeCmdsWith_ext : RecExt (mergeCmdsWith rec b raw) := by
  intro st al bl n p st' h
  unfold mergeCmdsWith at h
  split at h
  · exact mergeCryptoMap_ext rec b raw hrec _ _ _ _ _ _ h
  · split at h
    · exact mergeDynMap_ext rec b raw hrec _ _ _ _ _ _ h
    · split at h
      · exact mergeAsaAcl_ext rec b raw hrec _ _ _ _ _ _ h
      · split at h
        · unfold mergeIosAcl at h
          split at h
          · cases h
          · cases h; exact Ext.setA _ _ _ _
        · exact mergeGeneric_ext rec b raw hrec _ _ _ _ _ _ h

end

theorem mergeCmds_ext (b : Tbl) (raw : Bool) : ∀ fuel, RecExt (mergeCmds b raw fuel)
  | 0 => by intro st al bl n p st' h; simp [mergeCmds] at h
  | fuel + 1 => by
    show RecExt (mergeCmdsWith (mergeCmds b raw fuel) b raw)
    exact mergeCmdsWith_ext _ b raw (mergeCmds_ext b raw fuel)

theorem topStep_ext (b : Tbl) (raw : Bool) (st st' : St) (k : Key)
    (h : topStep b raw st k = .ok st') : Ext st st' := by
  unfold topStep at h
  simp only at h
  split at h
  · cases h
  · split at h
    · cases h
    · split at h
      · exact mergeCmds_ext b raw _ _ _ _ _ _ _ h
      · split at h
        · rename_i hc
          cases h
          exact Ext.markSeen st k
        · cases h; exact Ext.refl _

theorem foldTop_ext (b : Tbl) (raw : Bool) (l : List Key) (st st' : St)
    (h : foldE (topStep b raw) st l = .ok st') : Ext st st' :=
  foldE_ext (fun s => s) _ (fun s x s' hs => topStep_ext b raw s s' x hs) l st st' h

theorem foldE_error_of_mem {σ β : Type} (f : σ → β → Except Err σ) (x : β)
    (hx : ∀ s, ∃ e, f s x = .error e) : ∀ (l : List β) (s : σ), x ∈ l → ∃ e, foldE f s l = .error e := by
  intro l
  induction l with
  | nil => intro s h; cases h
  | cons y ys ih =>
    intro s h
    simp only [foldE]
    rcases List.mem_cons.mp h with rfl | h'
    · obtain ⟨e, he⟩ := hx s; exact ⟨e, by rw [he]⟩
    · cases hy : f s y with
      | error e => exact ⟨e, rfl⟩
      | ok s1 => exact ih s1 h'

/-! ### Which commands a generic / sub-command / crypto merge adds (key lists) -/

theorem lastIdxFrom_none {β : Type} [BEq β] [LawfulBEq β] (k : β) :
    ∀ (l : List β) (i : Nat) (acc : Option Nat), lastIdxFrom k i l acc = none ↔ acc = none ∧ k ∉ l := by
  intro l
  induction l with
  | nil => intro i acc; simp [lastIdxFrom]
  | cons x xs ih =>
    intro i acc
    unfold lastIdxFrom
    rw [ih]
    by_cases hx : x == k
    · have : x = k := by simpa using hx
      simp [hx, this]
    · have hne : ¬ x = k := by simpa using hx
      have hne' : ¬ k = x := fun h => hne h.symm
      simp [hx, hne']

theorem lastIdxFrom_some {β : Type} [BEq β] [LawfulBEq β] (k : β) :
    ∀ (l : List β) (i : Nat) (acc : Option Nat) (j : Nat), lastIdxFrom k i l acc = some j →
      acc = some j ∨ (i ≤ j ∧ l[j - i]? = some k) := by
  intro l
  induction l with
  | nil => intro i acc j h; left; simpa [lastIdxFrom] using h
  | cons x xs ih =>
    intro i acc j h
    unfold lastIdxFrom at h
    rcases ih (i + 1) _ j h with h1 | ⟨h1, h2⟩
    · by_cases hx : x == k
      · simp only [hx, if_true, Option.some.injEq] at h1
        subst h1
        right
        exact ⟨Nat.le_refl _, by simp; simpa using hx⟩
      · simp only [hx, Bool.false_eq_true, if_false] at h1
        exact Or.inl h1
    · right
      refine ⟨by omega, ?_⟩
      have : j - i = (j - (i + 1)) + 1 := by omega
      rw [this, List.getElem?_cons_succ]
      exact h2

theorem lastIdxOf_none {β : Type} [BEq β] [LawfulBEq β] (l : List β) (k : β) :
    lastIdxOf l k = none ↔ k ∉ l := by
  unfold lastIdxOf; rw [lastIdxFrom_none]; simp

theorem lastIdxOf_some {β : Type} [BEq β] [LawfulBEq β] (l : List β) (k : β) (j : Nat)
    (h : lastIdxOf l k = some j) : l[j]? = some k := by
  unfold lastIdxOf at h
  rcases lastIdxFrom_some k l 0 none j h with h1 | ⟨_, h2⟩
  · cases h1
  · simpa using h2

theorem map_listSet_same {β γ : Type} (f : β → γ) (l : List β) (j : Nat) (x y : β)
    (hy : l[j]? = some y) (hf : f x = f y) : (listSet l j x).map f = l.map f := by
  unfold listSet
  induction l generalizing j with
  | nil => rfl
  | cons z zs ih =>
    cases j with
    | zero =>
      simp only [List.getElem?_cons_zero, Option.some.injEq] at hy
      subst hy
      simp [hf]
    | succ j =>
      simp only [List.getElem?_cons_succ] at hy
      simp [List.set_cons_succ, ih j hy]

theorem length_listSet {β : Type} (l : List β) (j : Nat) (x : β) : (listSet l j x).length = l.length := by
  simp [listSet]

section
variable (rec : Rec) (b : Tbl) (raw : Bool)

theorem mergeSubCmds_parsed (st : St) (a bc : Cmd) (r : St × Cmd)
    (h : mergeSubCmds rec b raw st a bc = .ok r) : r.2.parsed = a.parsed := by
  unfold mergeSubCmds at h
  split at h
  · cases h; rfl
  · cases h

/-- One command of `b` in the generic branch: merged into the command with the same text, or added at
the end. -/
theorem genericStep_keys (keys : List String) (acc acc' : St × List Cmd) (bc : Cmd)
    (h : genericStep rec b raw keys acc bc = .ok acc') :
    acc'.2.map (·.parsed) = acc.2.map (·.parsed) ++ (if keys.contains bc.parsed then [] else [bc.parsed]) := by
  obtain ⟨st, al⟩ := acc
  unfold genericStep at h
  simp only at h
  split at h
  · rename_i j hj
    have hin : keys.contains bc.parsed = true := by
      have : ¬ (lastIdx keys bc.parsed = none) := by rw [hj]; simp
      unfold lastIdx at this
      rw [lastIdxOf_none] at this
      simpa using this
    split at h
    · cases h
    · rename_i a ha
      split at h
      · cases h
      · rename_i st1 a1 hs
        split at h
        · cases h
          simp only [hin, if_true, List.append_nil]
          refine map_listSet_same (·.parsed) al j _ a ha ?_
          exact mergeSubCmds_parsed rec b raw _ _ _ _ hs
        · cases h
  · rename_i hj
    have hnin : keys.contains bc.parsed = false := by
      unfold lastIdx at hj
      rw [lastIdxOf_none] at hj
      simpa using hj
    split at h
    · cases h
    · split at h
      · cases h
        have hm : bc.parsed ∉ keys := by simpa using hnin
        simp [hm]
      · cases h

/-- **Generic commands (routes, interfaces, access-groups, tunnel-groups, …).**  After the merge the list
holds Netspoc's commands in their order (each possibly enriched by the raw command with the same text),
followed by the raw commands with a new text, in raw order. -/
theorem generic_keys (keys : List String) :
    ∀ (bl : List Cmd) (acc acc' : St × List Cmd), foldE (genericStep rec b raw keys) acc bl = .ok acc' →
      acc'.2.map (·.parsed) =
        acc.2.map (·.parsed) ++ (bl.filter (fun c => !keys.contains c.parsed)).map (·.parsed) := by
  intro bl
  induction bl with
  | nil => intro acc acc' h; simp only [foldE, Except.ok.injEq] at h; subst h; simp
  | cons x xs ih =>
    intro acc acc' h
    simp only [foldE] at h
    cases hx : genericStep rec b raw keys acc x with
    | error e => rw [hx] at h; cases h
    | ok a1 =>
      rw [hx] at h
      rw [ih a1 acc' h, genericStep_keys rec b raw keys acc a1 x hx]
      by_cases hm : x.parsed ∈ keys
      · simp [hm]
      · simp [hm]

theorem subStep_keys (keys : List String) (acc acc' : St × List Sub) (bs : Sub)
    (h : subStep rec b raw keys acc bs = .ok acc') :
    acc'.2.map (·.parsed) = acc.2.map (·.parsed) ++ (if keys.contains bs.parsed then [] else [bs.parsed]) := by
  obtain ⟨st, asub⟩ := acc
  unfold subStep at h
  simp only at h
  split at h
  · rename_i j hj
    have hin : keys.contains bs.parsed = true := by
      have : ¬ (lastIdx keys bs.parsed = none) := by rw [hj]; simp
      unfold lastIdx at this
      rw [lastIdxOf_none] at this
      simpa using this
    split at h
    · cases h
    · rename_i as has
      split at h
      · cases h
        simp only [hin, if_true, List.append_nil]
        refine map_listSet_same (·.parsed) asub j _ as has ?_
        rfl
      · cases h
  · rename_i hj
    have hnin : keys.contains bs.parsed = false := by
      unfold lastIdx at hj
      rw [lastIdxOf_none] at hj
      simpa using hj
    split at h
    · cases h
      have hm : bs.parsed ∉ keys := by simpa using hnin
      simp [hm]
    · cases h

theorem sub_keys_fold (keys : List String) :
    ∀ (bl : List Sub) (acc acc' : St × List Sub), foldE (subStep rec b raw keys) acc bl = .ok acc' →
      acc'.2.map (·.parsed) =
        acc.2.map (·.parsed) ++ (bl.filter (fun s => !keys.contains s.parsed)).map (·.parsed) := by
  intro bl
  induction bl with
  | nil => intro acc acc' h; simp only [foldE, Except.ok.injEq] at h; subst h; simp
  | cons x xs ih =>
    intro acc acc' h
    simp only [foldE] at h
    cases hx : subStep rec b raw keys acc x with
    | error e => rw [hx] at h; cases h
    | ok a1 =>
      rw [hx] at h
      rw [ih a1 acc' h, subStep_keys rec b raw keys acc a1 x hx]
      by_cases hm : x.parsed ∈ keys
      · simp [hm]
      · simp [hm]

/-- **`mergeSubCmds`.**  The subcommands of Netspoc's command stay in their order, the raw subcommands
with a new text follow in raw order; none is dropped. -/
theorem subcmds_keys (st : St) (a bc : Cmd) (r : St × Cmd) (h : mergeSubCmds rec b raw st a bc = .ok r) :
    r.2.sub.map (·.parsed) = a.sub.map (·.parsed) ++
      (bc.sub.filter (fun s => !(a.sub.map (·.parsed)).contains s.parsed)).map (·.parsed) := by
  unfold mergeSubCmds at h
  split at h
  · rename_i st' asub hf
    cases h
    exact sub_keys_fold rec b raw _ bc.sub _ _ hf
  · cases h

/-- One raw crypto command: it replaces the Netspoc command with the same 5th/6th word (the slot keeps
its position and key) or is added. -/
theorem cryptoStep_keys (keys : List (String × String)) (al0 : List Cmd)
    (acc acc' : St × List Cmd × List Cmd) (bc : Cmd)
    (hk : acc.2.1.map (fun c => cryptoKey c.parsed) = keys)
    (h : cryptoStep rec b raw keys al0 acc bc = .ok acc') :
    acc'.2.1.map (fun c => cryptoKey c.parsed) = keys ∧
    acc'.2.2.map (·.parsed) = acc.2.2.map (·.parsed) ++
      (if keys.contains (cryptoKey bc.parsed) then [] else [bc.parsed]) ∧
    (∀ c ∈ acc'.2.1, c.parsed = bc.parsed ∨ c.parsed ∈ acc.2.1.map (·.parsed)) := by
  obtain ⟨st, al, add⟩ := acc
  simp only at hk
  unfold cryptoStep cryptoStepG at h
  simp only [if_true] at h
  split at h
  · rename_i j hj
    have hkj := lastIdxOf_some keys _ j hj
    have hin : keys.contains (cryptoKey bc.parsed) = true := by
      have : ¬ (lastIdxOf keys (cryptoKey bc.parsed) = none) := by rw [hj]; simp
      rw [lastIdxOf_none] at this
      simpa using this
    split at h
    · cases h
    · rename_i a ha
      have hka : cryptoKey a.parsed = cryptoKey bc.parsed := by
        have h1 : (al.map (fun c => cryptoKey c.parsed))[j]? = some (cryptoKey a.parsed) := by
          simp [List.getElem?_map, ha]
        rw [hk, hkj] at h1
        exact (Option.some.inj h1).symm
      have mem_set : ∀ (x : Cmd) (c : Cmd), c ∈ listSet al j x → c = x ∨ c ∈ al := by
        intro x c hc
        unfold listSet at hc
        rcases List.mem_or_eq_of_mem_set hc with h1 | h1
        · exact Or.inr h1
        · exact Or.inl h1
      have hinm : cryptoKey bc.parsed ∈ keys := by simpa using hin
      split at h
      · rename_i heq
        split at h
        · cases h
        · rename_i st1 a1 hs
          have hp1 : a1.parsed = a.parsed := mergeSubCmds_parsed rec b raw _ _ _ _ hs
          split at h
          · rename_i st2 ar2 br2 hm2
            cases h
            refine ⟨?_, by simp [hinm], ?_⟩
            · have := map_listSet_same (fun c => cryptoKey c.parsed) al j
                { a1 with ref := ar2.getD a1.ref } a ha (by simp [hp1])
              rw [this]; exact hk
            · intro c hc
              rcases mem_set _ c hc with h1 | h1
              · right; rw [h1]
                exact List.mem_map.mpr ⟨a, List.mem_of_getElem? ha, hp1.symm⟩
              · right; exact List.mem_map.mpr ⟨c, h1, rfl⟩
          · cases h
      · split at h
        · rename_i st2 ar2 br2 hm2
          cases h
          refine ⟨?_, by simp [hinm], ?_⟩
          · have := map_listSet_same (fun c => cryptoKey c.parsed) al j
              { a with parsed := bc.parsed, ref := br2, refPrefix := bc.refPrefix } a ha (by simp [hka])
            rw [this]; exact hk
          · intro c hc
            rcases mem_set _ c hc with h1 | h1
            · left; rw [h1]
            · right; exact List.mem_map.mpr ⟨c, h1, rfl⟩
        · cases h
  · rename_i hj
    have hnin : keys.contains (cryptoKey bc.parsed) = false := by
      rw [lastIdxOf_none] at hj
      simpa using hj
    have hm : cryptoKey bc.parsed ∉ keys := by simpa using hnin
    split at h
    · cases h
    · split at h
      · cases h
        refine ⟨hk, ?_, fun c hc => Or.inr (List.mem_map.mpr ⟨c, hc, rfl⟩)⟩
        simp only [hm]
        split <;> simp [hm]
      · cases h

/-- **Crypto maps and dynamic maps (`mergeCryptoCommon`).**  Netspoc's slots keep their position and
their 5th/6th word; a slot holds Netspoc's text or that of a raw command (replacement is what the code
documents); raw commands with a new 5th/6th word are added in raw order. -/
theorem crypto_keys (keys : List (String × String)) (al0 : List Cmd) :
    ∀ (bl : List Cmd) (acc acc' : St × List Cmd × List Cmd),
      acc.2.1.map (fun c => cryptoKey c.parsed) = keys →
      foldE (cryptoStep rec b raw keys al0) acc bl = .ok acc' →
      acc'.2.1.map (fun c => cryptoKey c.parsed) = keys ∧
      acc'.2.2.map (·.parsed) = acc.2.2.map (·.parsed) ++
        (bl.filter (fun c => !keys.contains (cryptoKey c.parsed))).map (·.parsed) ∧
      (∀ c ∈ acc'.2.1, c.parsed ∈ bl.map (·.parsed) ∨ c.parsed ∈ acc.2.1.map (·.parsed)) := by
  intro bl
  induction bl with
  | nil =>
    intro acc acc' hk h
    simp only [foldE, Except.ok.injEq] at h; subst h
    exact ⟨hk, by simp, fun c hc => Or.inr (List.mem_map.mpr ⟨c, hc, rfl⟩)⟩
  | cons x xs ih =>
    intro acc acc' hk h
    simp only [foldE] at h
    cases hx : cryptoStep rec b raw keys al0 acc x with
    | error e => rw [hx] at h; cases h
    | ok a1 =>
      rw [hx] at h
      obtain ⟨h1, h2, h3⟩ := cryptoStep_keys rec b raw keys al0 acc a1 x hk hx
      obtain ⟨i1, i2, i3⟩ := ih a1 acc' h1 h
      refine ⟨i1, ?_, ?_⟩
      · rw [i2, h2]
        by_cases hm : cryptoKey x.parsed ∈ keys
        · simp [hm]
        · simp [hm]
      · intro c hc
        rcases i3 c hc with h4 | h4
        · exact Or.inl (by simp only [List.map_cons, List.mem_cons]; exact Or.inr h4)
        · obtain ⟨c', hc', hpc⟩ := List.mem_map.mp h4
          rcases h3 c' hc' with h5 | h5
          · exact Or.inl (by simp only [List.map_cons, List.mem_cons]; exact Or.inl (hpc ▸ h5))
          · exact Or.inr (hpc ▸ h5)

end

end NA.C18.G
