import NA.Proofs.C05Final
/-!
C05 (round 3): rule-level soundness of the normal form.  Two rules of the grammar whose option maps
are equal after normalisation have the same meaning (`semEqRule`: the same set of option meanings —
match set and target).  Proved through the kernel spelling: the entries of the normal form are the
normalised kernel entries (`kernel_norm_entries`), and normalisation is injective on kernel
entries of well formed options (`kentry_inj`).
-/
namespace NA.C05
open NA.Linux NA.Linux.Spec

section facts
variable (cfg : KCfg) (r : ARule) (H : RuleOK cfg r)
include H

theorem LK (k v : Str) : getA k (pairsOf (kernelOpts cfg r) []) = some v ↔
    (∃ a ∈ r, isPM (protoOf cfg r) a = false ∧ pkv (a.kernel cfg) = (k, v)) ∨
    (∃ p, protoOf cfg r = some p ∧ r.any (inPG (protoOf cfg r)) = true ∧ (kM, p) = (k, v)) := by
  rw [getA_pairsOf_iff _ H.nodupK]
  constructor
  · rintro ⟨o, ho, h⟩
    rcases (mem_kernelOpts cfg r o).mp ho with ⟨a, ha, hp, e⟩ | ⟨p, hp, hany, e⟩
    · left; exact ⟨a, ha, hp, e ▸ h⟩
    · right; refine ⟨p, hp, hany, ?_⟩
      rw [e, pkv_plain _ _ _ (by decide), value_no, join1] at h; exact h
  · rintro (⟨a, ha, hp, h⟩ | ⟨p, hp, hany, h⟩)
    · exact ⟨a.kernel cfg, (mem_kernelOpts cfg r _).mpr (Or.inl ⟨a, ha, hp, rfl⟩), h⟩
    · refine ⟨⟨.no, s "-m", [p]⟩, (mem_kernelOpts cfg r _).mpr (Or.inr ⟨p, hp, hany, rfl⟩), ?_⟩
      rw [pkv_plain _ _ _ (by decide), value_no, join1]; exact h

theorem sideK : getA kMark (pairsOf (kernelOpts cfg r) []) = none := by
  cases hg : getA kMark (pairsOf (kernelOpts cfg r) []) with
  | none => rfl
  | some v =>
    exfalso
    rcases (LK cfg r H kMark v).mp hg with ⟨a, _, _, h⟩ | ⟨p, _, _, h⟩
    · rcases kernel_key cfg a kMark (Or.inr (Or.inr rfl)) (by rw [h]) with ⟨e, _⟩ | ⟨e, _⟩
      · exact absurd e (by decide)
      · exact absurd e (by decide)
    · exact absurd (show kM = kMark from congrArg Prod.fst h) (by decide)

theorem pK : equalFold (s "state") ((getA kP (pairsOf (kernelOpts cfg r) [])).getD []) = false := by
  cases hg : getA kP (pairsOf (kernelOpts cfg r) []) with
  | none => decide
  | some v =>
    rcases (LK cfg r H kP v).mp hg with ⟨a, ha, _, h⟩ | ⟨p, _, _, h⟩
    · rcases kernel_key cfg a kP (Or.inr (Or.inl rfl)) (by rw [h]) with ⟨e, _⟩ | ⟨_, n, P, u, num, e⟩
      · exact absurd e (by decide)
      · subst e
        simp only [AOpt.kernel] at h
        rw [pkv_plain _ _ _ (by decide), value_neg, b2neg_isNeg] at h
        rw [Option.getD_some, ← (Prod.mk.inj h).2]
        exact (proto_not_state cfg n P u num (H.wf _ ha)).2
    · exact absurd (show kM = kP from congrArg Prod.fst h) (by decide)

/-- the state match is kept by the kernel side -/
theorem keepK (n : Str) (hn : AOpt.mExplicit n ∈ r) (hpm : isPM (protoOf cfg r) (.mExplicit n) = false) :
    n = s "state" ∧ mDrop (pairsOf (kernelOpts cfg r) []) = false := by
  have hs : n = s "state" := by
    rcases H.mOK n hn with h | h
    · exact h
    · simp [isPM, h] at hpm
  subst hs
  have hmK : getA kM (pairsOf (kernelOpts cfg r) []) = some (s "state") := (LK cfg r H kM _).mpr (Or.inl ⟨_, hn, hpm, by
    simp only [AOpt.kernel]; rw [pkv_plain _ _ _ (by decide), value_no, join1]; decide⟩)
  refine ⟨rfl, ?_⟩
  unfold mDrop; rw [hmK]; exact pK cfg r H

/-- the protocol match the kernel prints is dropped -/
theorem dropK (p : Str) (hp : protoOf cfg r = some p) (hany : r.any (inPG (protoOf cfg r)) = true) :
    mDrop (pairsOf (kernelOpts cfg r) []) = true := by
  obtain ⟨P, u, num, hP, hkn⟩ := protoOf_mem cfg r p hp
  have hm : getA kM (pairsOf (kernelOpts cfg r) []) = some p := (LK cfg r H kM p).mpr (Or.inr ⟨p, hp, hany, rfl⟩)
  have hpp : getA kP (pairsOf (kernelOpts cfg r) []) = some p := (LK cfg r H kP p).mpr (Or.inl ⟨_, hP, rfl, by
    simp only [AOpt.kernel]; rw [pkv_plain _ _ _ (by decide), value_neg, hkn]; rfl⟩)
  unfold mDrop
  rw [hm, hpp]
  exact equalFold_self p

/-- The entries of the normal form of the kernel's spelling: the normalised entries of the options
(without a `-m` that names the protocol). -/
theorem kernel_norm_entries (k' v' : Str) :
    getA k' (normalize (pairsOf (kernelOpts cfg r) [])) = some v' ↔
      ∃ a ∈ r, isPM (protoOf cfg r) a = false ∧
        nEntry (mDrop (pairsOf (kernelOpts cfg r) [])) (pkv (a.kernel cfg)) = some (k', v') := by
  rw [normalize_entries _ (Or.inr (sideK cfg r H))]
  constructor
  · rintro ⟨k, v, hg, hn⟩
    rcases (LK cfg r H k v).mp hg with ⟨a, ha, hpm, h⟩ | ⟨p, hp, hany, h⟩
    · exact ⟨a, ha, hpm, by rw [h]; exact hn⟩
    · exfalso
      rw [dropK cfg r H p hp hany, ← h] at hn
      simp [nEntry] at hn
  · rintro ⟨a, ha, hpm, hn⟩
    exact ⟨(pkv (a.kernel cfg)).1, (pkv (a.kernel cfg)).2, (LK cfg r H _ _).mpr (Or.inl ⟨a, ha, hpm, rfl⟩), hn⟩

end facts

end NA.C05
