import NA.Proofs.C19Frame
/-!
# C19 — policy numbers strictly increase (for every schedule in which no git command of the
script failed and nobody rewrote the POLICY file by hand)

Domain `numbering`: facts about the shell variables FCOUNT, LCOUNT, COUNT, POLICY relative to
`R` = the number in the POLICY file of the repository's newest revision and `Lk` = the number of
the link `current`.  Requirements checked on the program:
* `git push` runs only when the POLICY number of what is pushed is not smaller than `R`;
* `rm -f $CURRENT` runs only after `$POLICY` has been pushed (`$POLICY ≤ R`) and is larger than
  every number that was ever current;
* `ln -s $POLICY $CURRENT` runs only when `$POLICY` is larger than every number that was ever current.
-/
namespace NA.C19

structure F2 where
  holds    : Bool   -- we hold the flock
  hEqR     : Bool   -- POLICY of next/src HEAD = POLICY of the remote head
  baseR    : Bool   -- POLICY of what we know as origin/master = POLICY of the remote head
  pfP      : Bool   -- next/src/POLICY exists and carries a number ≥ R
  fcOk     : Bool   -- FCOUNT is a number ≥ R, or R = 0
  rZero    : Bool   -- R = 0
  fcGe     : Bool   -- FCOUNT is a number ≥ R
  prevEq   : Bool   -- PREV_POLICY = what `current` points to
  prevSome : Bool   -- PREV_POLICY is not empty
  lcOk     : Bool   -- LCOUNT is a number ≥ Lk, or Lk = 0
  lkZero   : Bool   -- Lk = 0
  lcGe     : Bool   -- LCOUNT is a number ≥ Lk
  cntGe    : Bool   -- COUNT ≥ R, Lk
  cntGt    : Bool   -- COUNT > R, Lk
  polGt    : Bool   -- POLICY > R, Lk
  fresh    : Bool   -- POLICY > every number a policy directory was ever given
  histLe   : Bool   -- POLICY ≥ every number a policy directory was ever given
  wOk      : Bool   -- the POLICY file in the work tree carries $POLICY
  sOk      : Bool   -- … and is staged
  hPol     : Bool   -- the POLICY file of next/src HEAD carries $POLICY
  pushed   : Bool   -- $POLICY ≤ R
  deriving DecidableEq, Repr

def F2.clearNext (a : F2) : F2 := { a with hEqR := false, pfP := false, hPol := false }

def tf2 (c : Cmd) (a : F2) (ok : Bool) : Option F2 :=
  match c with
  | .flockNB => some (if ok then { a with holds := true } else a)
  | .rmrfNext | .mkdirNext | .rmrfNextSrc | .mkdirNextP => some a.clearNext
  | .mvNextTo => some { a.clearNext with fresh := false, histLe := a.fresh }
  | .gitResetHash => some { a.clearNext with wOk := false, sOk := false }
  | .gitClone => some { a.clearNext with hEqR := a.holds, baseR := a.holds, wOk := false, sOk := false }
  | .testPolicyFile => some (if ok then { a with pfP := a.hEqR } else { a with fcOk := a.hEqR })
  | .readPolicyFile => some { a with fcOk := a.pfP, fcGe := a.pfP }
  | .testReg .fcount => some (if ok then { a with fcGe := a.fcGe || a.fcOk } else { a with rZero := a.fcOk })
  | .testReg .lcount => some (if ok then { a with lcGe := a.lcGe || a.lcOk } else { a with lkZero := a.lcOk })
  | .setReg .fcount _ => some { a with fcGe := a.rZero, fcOk := a.rZero }
  | .setReg .lcount _ => some { a with lcGe := a.lkZero, lcOk := a.lkZero }
  | .setReg .count _ => some { a with cntGe := false, cntGt := false }
  | .readLink => some { a with prevEq := a.holds, prevSome := ok }
  | .testPrev => some (if ok then { a with prevSome := true } else { a with lcOk := a.lcOk || a.prevEq })
  | .linkCount => some { a with lcOk := a.prevEq && a.prevSome, lcGe := a.prevEq && a.prevSome }
  | .countPick m => some { a with cntGe := m && a.fcGe && a.lcGe, cntGt := false }
  | .countAdd n => some { a with cntGt := a.cntGe && decide (1 ≤ n) }
  | .policyFromCount =>
    some { a with polGt := a.cntGt, fresh := a.cntGt, histLe := a.cntGt, wOk := false, sOk := false, hPol := false,
                  pushed := false }
  | .writePolicyFile => some { a with wOk := true }
  | .gitAdd => some { a with sOk := a.wOk }
  | .gitCommitPolicy => some { a with hEqR := false, pfP := false, hPol := a.sOk && a.holds, wOk := false, sOk := false }
  | .gitPullMerge => some { a with hEqR := false, pfP := false, hPol := a.hPol && a.baseR }
  | .gitPush =>
    some { a with pushed := a.hPol, hEqR := a.holds, baseR := if ok then a.holds else a.baseR, polGt := false,
                  rZero := false, fcGe := false,
                  fcOk := false, cntGe := false, cntGt := false, pfP := false }
  | .rmCurrent =>
    some { a with prevEq := false, lkZero := a.holds, lcOk := false, lcGe := false, cntGe := false, cntGt := false,
                  polGt := false }
  | .lnCurrent =>
    some { a with prevEq := false, lkZero := false, lcOk := false, lcGe := false, cntGe := false,
                  cntGt := false, polGt := false }
  | .gitRevert | .gitPullPlain => some { a with pfP := false, hPol := false }
  | _ => some a

def req2 (c : Cmd) (a : F2) : Bool :=
  match c with
  | .gitPush => a.hEqR || (a.hPol && a.polGt)
  | .mvNextTo => a.pushed && a.fresh
  | .rmCurrent => a.pushed && a.histLe
  | _ => true

def F2.leB (a b : F2) : Bool :=
  (!b.holds || a.holds) && (!b.hEqR || a.hEqR) && (!b.baseR || a.baseR) && (!b.pfP || a.pfP) &&
  (!b.fcOk || a.fcOk) && (!b.rZero || a.rZero) && (!b.fcGe || a.fcGe) && (!b.prevEq || a.prevEq) &&
  (!b.prevSome || a.prevSome) && (!b.lcOk || a.lcOk) &&
  (!b.lkZero || a.lkZero) && (!b.lcGe || a.lcGe) && (!b.cntGe || a.cntGe) && (!b.cntGt || a.cntGt) &&
  (!b.polGt || a.polGt) && (!b.fresh || a.fresh) && (!b.histLe || a.histLe) && (!b.wOk || a.wOk) && (!b.sOk || a.sOk) &&
  (!b.hPol || a.hPol) && (!b.pushed || a.pushed)

def numbering : Dom where
  F := F2
  le := F2.leB
  meet a b := ⟨a.holds && b.holds, a.hEqR && b.hEqR, a.baseR && b.baseR, a.pfP && b.pfP, a.fcOk && b.fcOk,
    a.rZero && b.rZero,
    a.fcGe && b.fcGe, a.prevEq && b.prevEq, a.prevSome && b.prevSome, a.lcOk && b.lcOk, a.lkZero && b.lkZero, a.lcGe && b.lcGe,
    a.cntGe && b.cntGe, a.cntGt && b.cntGt, a.polGt && b.polGt, a.fresh && b.fresh, a.histLe && b.histLe, a.wOk && b.wOk, a.sOk && b.sOk,
    a.hPol && b.hPol, a.pushed && b.pushed⟩
  entry := ⟨false, false, false, false, false, false, false, false, false, false, false, false, false, false, false,
    false, false, false, false, false, false⟩
  tf := tf2
  req := req2

/-! ### Meaning -/

def polOf (g : G) (i : Nat) : Option Nat := (commitAt g.store i).pol
/-- The number in the POLICY file of the repository's newest revision (0 = none). -/
def Rg (g : G) : Nat := (polOf g g.remote).getD 0
/-- The number of the link `current` (0 = no link). -/
def Lk (g : G) : Nat := g.current.getD 0
def quiet (g : G) : Prop := g.trouble = false ∧ g.edited = false

structure Γ2 (a : F2) (g : G) (p : Proc) : Prop where
  holds    : a.holds = true → g.lock = some p.pid
  hEqR     : a.hEqR = true → g.lock = some p.pid ∧ ∃ h, g.nextHead = some h ∧ polOf g h = polOf g g.remote
  baseR    : a.baseR = true → g.lock = some p.pid ∧ polOf g p.base = polOf g g.remote
  pfP      : a.pfP = true → g.lock = some p.pid ∧ ∃ h r, g.nextHead = some h ∧ polOf g h = some r ∧ Rg g ≤ r
  fcOk     : a.fcOk = true → g.lock = some p.pid ∧ ((∃ f, p.fcount = some f ∧ Rg g ≤ f) ∨ Rg g = 0)
  rZero    : a.rZero = true → g.lock = some p.pid ∧ Rg g = 0
  fcGe     : a.fcGe = true → g.lock = some p.pid ∧ ∃ f, p.fcount = some f ∧ Rg g ≤ f
  prevEq   : a.prevEq = true → g.lock = some p.pid ∧ p.prev = g.current
  prevSome : a.prevSome = true → p.prev.isSome = true
  lcOk     : a.lcOk = true → g.lock = some p.pid ∧ ((∃ l, p.lcount = some l ∧ Lk g ≤ l) ∨ Lk g = 0)
  lkZero   : a.lkZero = true → g.lock = some p.pid ∧ Lk g = 0
  lcGe     : a.lcGe = true → g.lock = some p.pid ∧ ∃ l, p.lcount = some l ∧ Lk g ≤ l
  cntGe    : a.cntGe = true → g.lock = some p.pid ∧ ∃ c, p.count = some c ∧ Rg g ≤ c ∧ Lk g ≤ c
  cntGt    : a.cntGt = true → g.lock = some p.pid ∧ ∃ c, p.count = some c ∧ Rg g < c ∧ Lk g < c
  polGt    : a.polGt = true → g.lock = some p.pid ∧ Rg g < p.policy ∧ Lk g < p.policy
  fresh    : a.fresh = true → g.lock = some p.pid ∧ ∀ h ∈ g.hist, h < p.policy
  histLe   : a.histLe = true → g.lock = some p.pid ∧ ∀ h ∈ g.hist, h ≤ p.policy
  wOk      : a.wOk = true → p.wpol = some p.policy
  sOk      : a.sOk = true → p.spol = some p.policy
  hPol     : a.hPol = true → g.lock = some p.pid ∧ ∃ h, g.nextHead = some h ∧ polOf g h = some p.policy
  pushed   : a.pushed = true → g.lock = some p.pid ∧ p.policy ≤ Rg g

theorem Γ2.mono {a b : F2} {g : G} {p : Proc} (h : Γ2 a g p) (hle : numbering.le a b = true) : Γ2 b g p := by
  simp only [numbering, F2.leB, Bool.and_eq_true, Bool.or_eq_true, Bool.not_eq_true'] at hle
  obtain ⟨⟨⟨⟨⟨⟨⟨⟨⟨⟨⟨⟨⟨⟨⟨⟨⟨⟨⟨⟨h1, h2⟩, h3⟩, h4⟩, h5⟩, h6⟩, h7⟩, h8⟩, h9⟩, h10⟩, h11⟩, h12⟩, h13⟩, h14⟩, h15⟩, h16⟩, h17⟩, h18⟩, h19⟩, h20⟩, h21⟩ := hle
  constructor
  · intro hb; exact h.holds (by rcases h1 with h1 | h1 <;> simp_all)
  · intro hb; exact h.hEqR (by rcases h2 with h2 | h2 <;> simp_all)
  · intro hb; exact h.baseR (by rcases h3 with h3 | h3 <;> simp_all)
  · intro hb; exact h.pfP (by rcases h4 with h4 | h4 <;> simp_all)
  · intro hb; exact h.fcOk (by rcases h5 with h5 | h5 <;> simp_all)
  · intro hb; exact h.rZero (by rcases h6 with h6 | h6 <;> simp_all)
  · intro hb; exact h.fcGe (by rcases h7 with h7 | h7 <;> simp_all)
  · intro hb; exact h.prevEq (by rcases h8 with h8 | h8 <;> simp_all)
  · intro hb; exact h.prevSome (by rcases h9 with h9 | h9 <;> simp_all)
  · intro hb; exact h.lcOk (by rcases h10 with h10 | h10 <;> simp_all)
  · intro hb; exact h.lkZero (by rcases h11 with h11 | h11 <;> simp_all)
  · intro hb; exact h.lcGe (by rcases h12 with h12 | h12 <;> simp_all)
  · intro hb; exact h.cntGe (by rcases h13 with h13 | h13 <;> simp_all)
  · intro hb; exact h.cntGt (by rcases h14 with h14 | h14 <;> simp_all)
  · intro hb; exact h.polGt (by rcases h15 with h15 | h15 <;> simp_all)
  · intro hb; exact h.fresh (by rcases h16 with h16 | h16 <;> simp_all)
  · intro hb; exact h.histLe (by rcases h17 with h17 | h17 <;> simp_all)
  · intro hb; exact h.wOk (by rcases h18 with h18 | h18 <;> simp_all)
  · intro hb; exact h.sOk (by rcases h19 with h19 | h19 <;> simp_all)
  · intro hb; exact h.hPol (by rcases h20 with h20 | h20 <;> simp_all)
  · intro hb; exact h.pushed (by rcases h21 with h21 | h21 <;> simp_all)

/-- Ids are in range (unconditional). -/
structure VG (g : G) : Prop where
  remote : g.remote ≤ g.store.length
  head   : ∀ h, g.nextHead = some h → h ≤ g.store.length

structure VP (g : G) (p : Proc) : Prop where
  base : p.base ≤ g.store.length
  hash : p.hash ≤ g.store.length

/-- The numbering invariant proper. -/
structure N (g : G) : Prop where
  bound : ∀ h ∈ g.hist, h ≤ max (Rg g) (Lk g)
  incr  : g.hist.Pairwise (· > ·)

end NA.C19

namespace NA.C19

theorem commitAt_append {store l : List Commit} {i : Nat} (h : i ≤ store.length) :
    commitAt (store ++ l) i = commitAt store i := by
  unfold commitAt
  by_cases h0 : i = 0
  · simp [h0]
  · simp only [h0, if_false]
    have : i - 1 < store.length := by omega
    simp [List.getD, List.getElem?_append_left this]

theorem commitAt_new {store : List Commit} {c : Commit} : commitAt (store ++ [c]) (store.length + 1) = c := by
  unfold commitAt
  simp [List.getD]

/-- The process record after a command, with the bookkeeping fields replaced. -/
abbrev upd (q : Proc) (pc : Nat) (t : Bool) : Proc := { q with pc := pc, touched := t }

section keep
variable (c : Cmd) {g : G} {p : Proc}

theorem polOf_exec {i : Nat} (h : i ≤ g.store.length) : polOf (exec c g p).1 i = polOf g i := by
  obtain ⟨l, hl⟩ := fr_store_grow c g p
  unfold polOf; rw [hl, commitAt_append h]

theorem len_exec : g.store.length ≤ (exec c g p).1.store.length := by
  obtain ⟨l, hl⟩ := fr_store_grow c g p
  rw [hl]; simp

theorem Rg_exec (hr : c.wRemote = false) (hv : g.remote ≤ g.store.length) : Rg (exec c g p).1 = Rg g := by
  unfold Rg; rw [fr_remote c g p hr, polOf_exec c hv]

theorem Lk_exec (hc : c.wCurrent = false) : Lk (exec c g p).1 = Lk g := by
  unfold Lk; rw [fr_current c g p hc]

/-- What survives a command without looking at what the command does: every fact that reads
nothing the command may write. -/
def F2.kept (a : F2) (c : Cmd) : F2 where
  holds    := a.holds
  hEqR     := a.hEqR && !c.wHead && !c.wRemote
  baseR    := a.baseR && !c.wBase && !c.wRemote
  pfP      := a.pfP && !c.wHead && !c.wRemote
  fcOk     := a.fcOk && !c.wFcount && !c.wRemote
  rZero    := a.rZero && !c.wRemote
  fcGe     := a.fcGe && !c.wFcount && !c.wRemote
  prevEq   := a.prevEq && !c.wPrev && !c.wCurrent
  prevSome := a.prevSome && !c.wPrev
  lcOk     := a.lcOk && !c.wLcount && !c.wCurrent
  lkZero   := a.lkZero && !c.wCurrent
  lcGe     := a.lcGe && !c.wLcount && !c.wCurrent
  cntGe    := a.cntGe && !c.wCount && !c.wRemote && !c.wCurrent
  cntGt    := a.cntGt && !c.wCount && !c.wRemote && !c.wCurrent
  polGt    := a.polGt && !c.wPolicy && !c.wRemote && !c.wCurrent
  fresh    := a.fresh && !c.wPolicy && !c.wHist
  histLe   := a.histLe && !c.wPolicy && !c.wHist
  wOk      := a.wOk && !c.wStaged && !c.wPolicy
  sOk      := a.sOk && !c.wStaged && !c.wPolicy
  hPol     := a.hPol && !c.wHead && !c.wPolicy
  pushed   := a.pushed && !c.wPolicy && !c.wRemote

theorem keep_all {a : F2} {pc : Nat} {t : Bool} (hΓ : Γ2 a g p) (hvg : VG g) (hvp : VP g p) :
    Γ2 (a.kept c) (exec c g p).1 (upd (exec c g p).2.1 pc t) := by
  have hl : g.lock = some p.pid → (exec c g p).1.lock = some (upd (exec c g p).2.1 pc t).pid := by
    intro h; simp [exec_pid]; exact exec_lock_own h
  constructor
  · intro hf; exact hl (hΓ.holds hf)
  · intro hf
    simp only [F2.kept, Bool.and_eq_true, Bool.not_eq_true'] at hf
    obtain ⟨⟨h1, h2⟩, h3⟩ := hf
    obtain ⟨hL, h, hh, he⟩ := hΓ.hEqR h1
    refine ⟨hl hL, h, ?_, ?_⟩
    · rw [fr_head c g p h2]; exact hh
    · rw [fr_remote c g p h3, polOf_exec c (hvg.head h hh), polOf_exec c hvg.remote]; exact he
  · intro hf
    simp only [F2.kept, Bool.and_eq_true, Bool.not_eq_true'] at hf
    obtain ⟨⟨h1, h2⟩, h3⟩ := hf
    obtain ⟨hL, he⟩ := hΓ.baseR h1
    refine ⟨hl hL, ?_⟩
    show polOf _ (exec c g p).2.1.base = _
    rw [fr_base c g p h2, fr_remote c g p h3, polOf_exec c hvp.base, polOf_exec c hvg.remote]; exact he
  · intro hf
    simp only [F2.kept, Bool.and_eq_true, Bool.not_eq_true'] at hf
    obtain ⟨⟨h1, h2⟩, h3⟩ := hf
    obtain ⟨hL, h, r, hh, he, hr⟩ := hΓ.pfP h1
    refine ⟨hl hL, h, r, ?_, ?_, ?_⟩
    · rw [fr_head c g p h2]; exact hh
    · rw [polOf_exec c (hvg.head h hh)]; exact he
    · rw [Rg_exec c h3 hvg.remote]; exact hr
  · intro hf
    simp only [F2.kept, Bool.and_eq_true, Bool.not_eq_true'] at hf
    obtain ⟨⟨h1, h2⟩, h3⟩ := hf
    obtain ⟨hL, he⟩ := hΓ.fcOk h1
    refine ⟨hl hL, ?_⟩
    show (∃ f, (exec c g p).2.1.fcount = some f ∧ _) ∨ _
    rw [fr_fcount c g p h2, Rg_exec c h3 hvg.remote]; exact he
  · intro hf
    simp only [F2.kept, Bool.and_eq_true, Bool.not_eq_true'] at hf
    obtain ⟨h1, h3⟩ := hf
    obtain ⟨hL, he⟩ := hΓ.rZero h1
    refine ⟨hl hL, ?_⟩
    rw [Rg_exec c h3 hvg.remote]; exact he
  · intro hf
    simp only [F2.kept, Bool.and_eq_true, Bool.not_eq_true'] at hf
    obtain ⟨⟨h1, h2⟩, h3⟩ := hf
    obtain ⟨hL, he⟩ := hΓ.fcGe h1
    refine ⟨hl hL, ?_⟩
    show ∃ f, (exec c g p).2.1.fcount = some f ∧ _
    rw [fr_fcount c g p h2, Rg_exec c h3 hvg.remote]; exact he
  · intro hf
    simp only [F2.kept, Bool.and_eq_true, Bool.not_eq_true'] at hf
    obtain ⟨⟨h1, h2⟩, h3⟩ := hf
    obtain ⟨hL, he⟩ := hΓ.prevEq h1
    refine ⟨hl hL, ?_⟩
    show (exec c g p).2.1.prev = _
    rw [fr_prev c g p h2, fr_current c g p h3]; exact he
  · intro hf
    simp only [F2.kept, Bool.and_eq_true, Bool.not_eq_true'] at hf
    obtain ⟨h1, h2⟩ := hf
    show (exec c g p).2.1.prev.isSome = true
    rw [fr_prev c g p h2]; exact hΓ.prevSome h1
  · intro hf
    simp only [F2.kept, Bool.and_eq_true, Bool.not_eq_true'] at hf
    obtain ⟨⟨h1, h2⟩, h3⟩ := hf
    obtain ⟨hL, he⟩ := hΓ.lcOk h1
    refine ⟨hl hL, ?_⟩
    show (∃ l, (exec c g p).2.1.lcount = some l ∧ _) ∨ _
    rw [fr_lcount c g p h2, Lk_exec c h3]; exact he
  · intro hf
    simp only [F2.kept, Bool.and_eq_true, Bool.not_eq_true'] at hf
    obtain ⟨h1, h3⟩ := hf
    obtain ⟨hL, he⟩ := hΓ.lkZero h1
    refine ⟨hl hL, ?_⟩
    rw [Lk_exec c h3]; exact he
  · intro hf
    simp only [F2.kept, Bool.and_eq_true, Bool.not_eq_true'] at hf
    obtain ⟨⟨h1, h2⟩, h3⟩ := hf
    obtain ⟨hL, he⟩ := hΓ.lcGe h1
    refine ⟨hl hL, ?_⟩
    show ∃ l, (exec c g p).2.1.lcount = some l ∧ _
    rw [fr_lcount c g p h2, Lk_exec c h3]; exact he
  · intro hf
    simp only [F2.kept, Bool.and_eq_true, Bool.not_eq_true'] at hf
    obtain ⟨⟨⟨h1, h2⟩, h3⟩, h4⟩ := hf
    obtain ⟨hL, he⟩ := hΓ.cntGe h1
    refine ⟨hl hL, ?_⟩
    show ∃ k, (exec c g p).2.1.count = some k ∧ _
    rw [fr_count c g p h2, Rg_exec c h3 hvg.remote, Lk_exec c h4]; exact he
  · intro hf
    simp only [F2.kept, Bool.and_eq_true, Bool.not_eq_true'] at hf
    obtain ⟨⟨⟨h1, h2⟩, h3⟩, h4⟩ := hf
    obtain ⟨hL, he⟩ := hΓ.cntGt h1
    refine ⟨hl hL, ?_⟩
    show ∃ k, (exec c g p).2.1.count = some k ∧ _
    rw [fr_count c g p h2, Rg_exec c h3 hvg.remote, Lk_exec c h4]; exact he
  · intro hf
    simp only [F2.kept, Bool.and_eq_true, Bool.not_eq_true'] at hf
    obtain ⟨⟨⟨h1, h2⟩, h3⟩, h4⟩ := hf
    obtain ⟨hL, he⟩ := hΓ.polGt h1
    refine ⟨hl hL, ?_⟩
    show _ < (exec c g p).2.1.policy ∧ _ < (exec c g p).2.1.policy
    rw [fr_policy c g p h2, Rg_exec c h3 hvg.remote, Lk_exec c h4]; exact he
  · intro hf
    simp only [F2.kept, Bool.and_eq_true, Bool.not_eq_true'] at hf
    obtain ⟨⟨h1, h2⟩, h3⟩ := hf
    obtain ⟨hL, he⟩ := hΓ.fresh h1
    refine ⟨hl hL, ?_⟩
    show ∀ h ∈ _, h < (exec c g p).2.1.policy
    rw [fr_policy c g p h2, fr_hist c g p h3]; exact he
  · intro hf
    simp only [F2.kept, Bool.and_eq_true, Bool.not_eq_true'] at hf
    obtain ⟨⟨h1, h2⟩, h3⟩ := hf
    obtain ⟨hL, he⟩ := hΓ.histLe h1
    refine ⟨hl hL, ?_⟩
    show ∀ h ∈ _, h ≤ (exec c g p).2.1.policy
    rw [fr_policy c g p h2, fr_hist c g p h3]; exact he
  · intro hf
    simp only [F2.kept, Bool.and_eq_true, Bool.not_eq_true'] at hf
    obtain ⟨⟨h1, h2⟩, h3⟩ := hf
    show (exec c g p).2.1.wpol = some (exec c g p).2.1.policy
    rw [fr_wpol c g p h2, fr_policy c g p h3]; exact hΓ.wOk h1
  · intro hf
    simp only [F2.kept, Bool.and_eq_true, Bool.not_eq_true'] at hf
    obtain ⟨⟨h1, h2⟩, h3⟩ := hf
    show (exec c g p).2.1.spol = some (exec c g p).2.1.policy
    rw [fr_spol c g p h2, fr_policy c g p h3]; exact hΓ.sOk h1
  · intro hf
    simp only [F2.kept, Bool.and_eq_true, Bool.not_eq_true'] at hf
    obtain ⟨⟨h1, h2⟩, h3⟩ := hf
    obtain ⟨hL, h, hh, he⟩ := hΓ.hPol h1
    refine ⟨hl hL, h, ?_, ?_⟩
    · rw [fr_head c g p h2]; exact hh
    · show _ = some (exec c g p).2.1.policy
      rw [fr_policy c g p h3, polOf_exec c (hvg.head h hh)]; exact he
  · intro hf
    simp only [F2.kept, Bool.and_eq_true, Bool.not_eq_true'] at hf
    obtain ⟨⟨h1, h2⟩, h3⟩ := hf
    obtain ⟨hL, he⟩ := hΓ.pushed h1
    refine ⟨hl hL, ?_⟩
    show (exec c g p).2.1.policy ≤ _
    rw [fr_policy c g p h2, Rg_exec c h3 hvg.remote]; exact he

end keep

end NA.C19
