import NA.Proofs.C04Main
/-!
C07 for NSX: (1) the strict store leaves everything outside Netspoc's scope untouched when a call
addresses a managed id (`exec_frame`, about the specification only); (2) every call the planner
emits addresses a managed id (`plan_scope`).
-/
namespace NA.Nsx

/-! ### The store -/

theorem filter_append_managed {α : Type} (id : α → String) (l : List α) (x : α) (h : managed (id x) = true) :
    (l ++ [x]).filter (fun y => !managed (id y)) = l.filter (fun y => !managed (id y)) := by
  simp [List.filter_append, h]

theorem filter_remove_managed {α : Type} (id : α → String) (l : List α) (t : String) (h : managed t = true) :
    (l.filter (fun y => id y != t)).filter (fun y => !managed (id y)) = l.filter (fun y => !managed (id y)) := by
  rw [List.filter_filter]
  apply List.filter_congr
  intro y _
  by_cases e : id y = t
  · simp [e, h]
  · simp [e]

theorem filter_map_managed {α : Type} (id : α → String) (l : List α) (t : String) (f : α → α)
    (h : managed t = true) (hf : ∀ y, id y = t → id (f y) = t) :
    (l.map (fun y => if id y == t then f y else y)).filter (fun y => !managed (id y)) =
      l.filter (fun y => !managed (id y)) := by
  induction l with
  | nil => rfl
  | cons y rest ih =>
    simp only [List.map_cons, List.filter_cons]
    by_cases e : id y = t
    · simp only [e, beq_self_eq_true, if_true, hf y e, h, Bool.not_true, Bool.false_eq_true, if_false]
      exact ih
    · have : (id y == t) = false := by simpa using e
      simp only [this, Bool.false_eq_true, if_false]
      rw [ih]

theorem unmanagedPart_eq {S S' : Store}
    (hp : S'.policies.filter (fun p => !managed p.id) = S.policies.filter (fun p => !managed p.id))
    (hg : S'.groups.filter (fun g => !managed g.id) = S.groups.filter (fun g => !managed g.id))
    (hs : S'.services.filter (fun s => !managed s.id) = S.services.filter (fun s => !managed s.id)) :
    unmanagedPart S' = unmanagedPart S := by
  unfold unmanagedPart
  rw [hp, hg, hs]

theorem ok_inj {S1 S2 : Store} (h : (Except.ok S1 : Except String Store) = .ok S2) : S1 = S2 := by
  injection h

/-- A call that addresses a managed id changes nothing outside Netspoc's scope. -/
theorem exec_frame {S S' : Store} {c : Call} (hm : managed c.target = true) (h : exec S c = .ok S') :
    unmanagedPart S' = unmanagedPart S := by
  cases c with
  | putService id d =>
    simp only [exec] at h
    split at h
    · cases h
    · rw [← ok_inj h]
      exact unmanagedPart_eq rfl rfl (filter_append_managed (fun s : Service => s.id) _ _ hm)
  | patchService id d =>
    simp only [exec] at h
    split at h
    · cases h
    · rw [← ok_inj h]
      exact unmanagedPart_eq rfl rfl
        (filter_map_managed (fun s : Service => s.id) _ id (fun _ => ⟨id, d⟩) hm fun _ _ => rfl)
  | deleteService id =>
    simp only [exec] at h
    split at h
    · cases h
    · split at h
      · cases h
      · rw [← ok_inj h]
        exact unmanagedPart_eq rfl rfl (filter_remove_managed (fun s : Service => s.id) _ id hm)
  | putGroup id e t addrs =>
    simp only [exec] at h
    split at h
    · cases h
    · split at h
      · cases h
      · rw [← ok_inj h]
        exact unmanagedPart_eq rfl (filter_append_managed (fun g : Group => g.id) _ _ hm) rfl
  | postAddrs gid e add addrs =>
    simp only [exec] at h
    split at h
    · cases h
    · split at h
      · cases h
      · split at h
        · split at h
          · cases h
          · rw [← ok_inj h]
            exact unmanagedPart_eq rfl (filter_map_managed (fun g : Group => g.id) _ gid _ hm fun _ e => e) rfl
        · split at h
          · cases h
          · split at h
            · cases h
            · rw [← ok_inj h]
              exact unmanagedPart_eq rfl (filter_map_managed (fun g : Group => g.id) _ gid _ hm fun _ e => e) rfl
  | patchExpr gid e t addrs =>
    simp only [exec] at h
    split at h
    · cases h
    · split at h
      · cases h
      · split at h
        · cases h
        · rw [← ok_inj h]
          exact unmanagedPart_eq rfl (filter_map_managed (fun g : Group => g.id) _ gid _ hm fun _ e => e) rfl
  | deleteGroup id =>
    simp only [exec] at h
    split at h
    · cases h
    · split at h
      · cases h
      · rw [← ok_inj h]
        exact unmanagedPart_eq rfl (filter_remove_managed (fun g : Group => g.id) _ id hm) rfl
  | putPolicy id rules =>
    simp only [exec] at h
    split at h
    · cases h
    · split at h
      · cases h
      · split at h
        · cases h
        · rw [← ok_inj h]
          exact unmanagedPart_eq (filter_append_managed (fun p : Policy => p.id) _ _ hm) rfl rfl
  | deletePolicy id =>
    simp only [exec] at h
    split at h
    · cases h
    · rw [← ok_inj h]
      exact unmanagedPart_eq (filter_remove_managed (fun p : Policy => p.id) _ id hm) rfl rfl
  | putRule pid rid r =>
    simp only [exec] at h
    split at h
    · cases h
    · split at h
      · cases h
      · split at h
        · cases h
        · rw [← ok_inj h]
          exact unmanagedPart_eq (filter_map_managed (fun p : Policy => p.id) _ pid _ hm fun _ e => e) rfl rfl
  | patchRule pid rid r =>
    simp only [exec] at h
    split at h
    · cases h
    · split at h
      · cases h
      · split at h
        · cases h
        · rw [← ok_inj h]
          exact unmanagedPart_eq (filter_map_managed (fun p : Policy => p.id) _ pid _ hm fun _ e => e) rfl rfl
  | deleteRule pid rid =>
    simp only [exec] at h
    split at h
    · cases h
    · split at h
      · cases h
      · rw [← ok_inj h]
        exact unmanagedPart_eq (filter_map_managed (fun p : Policy => p.id) _ pid _ hm fun _ e => e) rfl rfl

/-- Every call addresses a managed id. -/
def Scoped (cs : List Call) : Prop := ∀ c ∈ cs, managed c.target = true

theorem run_frame : ∀ (cs : List Call) (S S' : Store), Scoped cs → run S cs = some S' →
    unmanagedPart S' = unmanagedPart S := by
  intro cs
  induction cs with
  | nil => intro S S' _ h; simp [run] at h; rw [h]
  | cons c rest ih =>
    intro S S' hs h
    simp only [run] at h
    cases he : exec S c with
    | error e => simp [he] at h
    | ok S1 =>
      simp only [he] at h
      rw [ih S1 S' (fun c' hc' => hs c' (List.mem_cons_of_mem _ hc')) h]
      exact exec_frame (hs c List.mem_cons_self) he


/-! ### The planner -/

theorem Scoped.append {a b : List Call} (h1 : Scoped a) (h2 : Scoped b) : Scoped (a ++ b) := by
  intro c hc
  rcases List.mem_append.mp hc with h | h
  · exact h1 c h
  · exact h2 c h

theorem Scoped.nil : Scoped [] := fun _ h => by cases h

theorem Scoped.single {c : Call} (h : managed c.target = true) : Scoped [c] := by
  intro c' hc'
  simp at hc'; subst hc'; exact h

structure ScopeCtx (ctx : Ctx) : Prop where
  a : ∀ ga ∈ ctx.aGroups, managed ga.id = true
  b : ∀ k gb, ctx.bmap.lookup k = some gb → managed gb.id = true

theorem adaptGroup_scoped {ctx : Ctx} (hs : ScopeCtx ctx) (st : PSt) (p : String) :
    Scoped (adaptGroup ctx st p).2.2 := by
  unfold adaptGroup
  cases hr : groupRef p with
  | none => exact Scoped.nil
  | some key =>
    simp only
    cases hb : ctx.bmap.lookup key with
    | none => exact Scoped.nil
    | some gb =>
      simp only
      cases hn : st.nod.lookup key with
      | some n => exact Scoped.nil
      | none =>
        simp only
        cases hf : findOnDevice ctx.aGroups st.needed gb with
        | some ga => exact Scoped.nil
        | none => exact Scoped.single (hs.b key gb hb)

theorem groupCalls_scoped (diff : Diff) (ga gb : Group) (h : managed ga.id = true) :
    Scoped (groupCalls diff ga gb) := by
  unfold groupCalls
  simp only
  split
  · exact Scoped.single h
  · apply Scoped.append
    · split
      · exact Scoped.nil
      · exact Scoped.single h
    · split
      · exact Scoped.nil
      · exact Scoped.single h

theorem equalize_scoped {ctx : Ctx} (hs : ScopeCtx ctx) (st : PSt) (la lb : String) :
    Scoped (equalize ctx st la lb).2.2.2 := by
  unfold equalize
  cases hga : ctx.gma la with
  | none => exact Scoped.nil
  | some ga =>
    simp only
    cases hr : groupRef lb with
    | none => exact Scoped.nil
    | some key =>
      simp only
      cases hb : ctx.bmap.lookup key with
      | none => exact Scoped.nil
      | some gb =>
        simp only
        split
        · exact Scoped.nil
        · split
          · split
            · exact Scoped.nil
            · exact Scoped.single (hs.b key gb hb)
          · exact groupCalls_scoped _ _ _ (hs.a ga (gma_some hga).1)

theorem stepItem_scoped {ctx : Ctx} (hs : ScopeCtx ctx) (hp : managed ctx.pid = true) (st : PSt) (it : Item) :
    Scoped (stepItem ctx st it).2 := by
  cases it with
  | del ra => exact Scoped.single hp
  | ins rb =>
    simp only [stepItem]
    exact ((adaptGroup_scoped hs _ _).append (adaptGroup_scoped hs _ _)).append (Scoped.single hp)
  | eq ra rb =>
    simp only [stepItem]
    refine ((equalize_scoped hs _ _ _).append (equalize_scoped hs _ _ _)).append ?_
    split
    · exact Scoped.single hp
    · exact Scoped.nil

theorem stepItems_scoped {ctx : Ctx} (hs : ScopeCtx ctx) (hp : managed ctx.pid = true) :
    ∀ (items : List Item) (st : PSt), Scoped (stepItems ctx st items).2 := by
  intro items
  induction items with
  | nil => intro st; exact Scoped.nil
  | cons it rest ih =>
    intro st
    simp only [stepItems]
    exact (stepItem_scoped hs hp st it).append (ih _)

theorem diffRules_scoped {ctx : Ctx} (hs : ScopeCtx ctx) (st : PSt) (pa pb : Policy) (hp : managed pa.id = true) :
    Scoped (diffRules ctx st pa pb).2 := by
  unfold diffRules
  cases hg : genUniqRules (pa.rules.map (·.id)) pb.rules with
  | none => exact Scoped.nil
  | some bR =>
    simp only
    exact stepItems_scoped (ctx := { ctx with pid := pa.id }) ⟨hs.a, hs.b⟩ hp _ _

theorem adaptRules_scoped {ctx : Ctx} (hs : ScopeCtx ctx) : ∀ (rules : List Rule) (st : PSt),
    Scoped (adaptRules ctx st rules).2.1 := by
  intro rules
  induction rules with
  | nil => intro st; exact Scoped.nil
  | cons r rest ih =>
    intro st
    simp only [adaptRules]
    exact ((adaptGroup_scoped hs _ _).append (adaptGroup_scoped hs _ _)).append (ih _)

theorem overA_scoped {ctx : Ctx} (hs : ScopeCtx ctx) (T : Config) : ∀ (ps : List Policy) (st : PSt),
    (∀ p ∈ ps, managed p.id = true) → Scoped (overA ctx T ps st).2 := by
  intro ps
  induction ps with
  | nil => intro st _; exact Scoped.nil
  | cons pa rest ih =>
    intro st hm
    unfold overA
    cases hT : findPolicyLast T.policies pa.id with
    | none =>
      simp only
      intro c hc
      rcases List.mem_cons.mp hc with e | e
      · subst e; exact hm pa List.mem_cons_self
      · exact ih st (fun p hp => hm p (List.mem_cons_of_mem _ hp)) c e
    | some pb =>
      simp only
      exact (diffRules_scoped hs st pa pb (hm pa List.mem_cons_self)).append
        (ih _ fun p hp => hm p (List.mem_cons_of_mem _ hp))

theorem overB_scoped {ctx : Ctx} (hs : ScopeCtx ctx) (A : Config) : ∀ (ps : List Policy) (st : PSt),
    (∀ p ∈ ps, managed p.id = true) → Scoped (overB ctx A ps st).2 := by
  intro ps
  induction ps with
  | nil => intro st _; exact Scoped.nil
  | cons pb rest ih =>
    intro st hm
    unfold overB
    by_cases h : A.policies.any (·.id == pb.id) = true
    · simp only [h, if_true]; exact ih st fun p hp => hm p (List.mem_cons_of_mem _ hp)
    · have h' : A.policies.any (·.id == pb.id) = false := Bool.eq_false_iff.mpr h
      simp only [h', Bool.false_eq_true, if_false]
      refine Scoped.append ?_ (ih _ fun p hp => hm p (List.mem_cons_of_mem _ hp))
      simp only [createPolicy]
      exact (adaptRules_scoped hs _ _).append (Scoped.single (hm pb List.mem_cons_self))

theorem planSvc_scoped (aS : List Service) : ∀ (bS : List Service) (seen : List String),
    (∀ sb ∈ bS, managed sb.id = true) → Scoped (planSvc aS bS seen).1 := by
  intro bS
  induction bS with
  | nil => intro seen _; exact Scoped.nil
  | cons sb rest ih =>
    intro seen hm
    by_cases hseen : seen.contains sb.id = true
    · rw [planSvc_cons_seen aS sb rest seen hseen]
      exact ih seen fun s hs => hm s (List.mem_cons_of_mem _ hs)
    · rw [planSvc_cons_new aS sb rest seen (Bool.eq_false_iff.mpr hseen)]
      simp only
      refine Scoped.append ?_ (ih _ fun s hs => hm s (List.mem_cons_of_mem _ hs))
      cases hfa : findService aS.reverse sb.id with
      | none => exact Scoped.single (hm sb List.mem_cons_self)
      | some sa =>
        simp only
        split
        · exact Scoped.nil
        · exact Scoped.single (hm sb List.mem_cons_self)

/-- `nsx_scope`: every call of the plan addresses an object whose id carries the Netspoc prefix,
given the load filter and a target whose policy, group and service ids carry it (`checkRaw` for
the raw file, the compiler for the others). -/
theorem plan_scope {diff : Diff} {S : Store} {T : Config} (hS : StoreFacts S) (hT : TargetFacts T) :
    Scoped (plan diff (load S) T).calls := by
  cases hmk : mkCtx diff (load S) T with
  | none => simp only [plan, hmk]; exact Scoped.nil
  | some ctx =>
    rw [plan_eq hmk]
    simp only
    have hcf := ctxFacts_of (diff := diff) hS hT hmk
    have hs : ScopeCtx ctx := by
      refine ⟨?_, fun k gb h => by
        obtain ⟨_, _, _, _, hm, _⟩ := hcf.b_of k gb h
        exact hm⟩
      intro ga hga
      rw [hcf.a_eq] at hga
      obtain ⟨g, hg, e⟩ := mem_sortGroups hga
      rw [e]
      exact (List.mem_filter.mp hg).2
    have hmA : ∀ p ∈ (load S).policies, managed p.id = true := fun p hp => (List.mem_filter.mp hp).2
    refine ((((planSvc_scoped _ _ _ hT.svc).append (overA_scoped hs T _ _ hmA)).append
      (overB_scoped hs (load S) _ _ hT.pol_managed)).append ?_).append ?_
    · intro c hc
      obtain ⟨s, hs', e⟩ := List.mem_map.mp hc
      subst e
      exact (List.mem_filter.mp (List.mem_filter.mp hs').1).2
    · intro c hc
      obtain ⟨g, hg, e⟩ := List.mem_map.mp hc
      subst e
      exact (List.mem_filter.mp (List.mem_filter.mp hg).1).2


/-! ### Paging does not matter -/

theorem pages_go_flatten {α : Type} (n : Nat) (hn : n ≠ 0) : ∀ (fuel : Nat) (l : List α), l.length < fuel →
    (pages.go n fuel l).flatten = l := by
  intro fuel
  induction fuel with
  | zero => intro l h; omega
  | succ f ih =>
    intro l h
    unfold pages.go
    by_cases hl : l.length ≤ n
    · simp [hl]
    · simp only [hl, if_false, List.flatten_cons]
      rw [ih (l.drop n) (by simp [List.length_drop]; omega), List.take_append_drop]

theorem pages_flatten {α : Type} (n : Nat) (l : List α) : (pages n l).flatten = l := by
  unfold pages
  by_cases hn : n = 0
  · simp [hn]
  · simp only [hn, if_false]
    exact pages_go_flatten n hn _ l (by omega)

theorem flatMap_filter_pages {α : Type} (n : Nat) (l : List α) (q : α → Bool) :
    (pages n l).flatMap (·.filter q) = l.filter q := by
  have : ∀ ls : List (List α), ls.flatMap (·.filter q) = ls.flatten.filter q := by
    intro ls
    induction ls with
    | nil => rfl
    | cons x xs ih => simp [List.flatMap_cons, ih]
  rw [this, pages_flatten]

/-- Whatever the page size, `LoadDevice` sees the managed objects in the manager's order. -/
theorem loadPaged_eq (n : Nat) (S : Store) : loadPaged n S = load S := by
  unfold loadPaged load
  rw [flatMap_filter_pages, flatMap_filter_pages]

end NA.Nsx
