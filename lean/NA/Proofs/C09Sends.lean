import NA.Proofs.C09Struct
/-!
# C09: which change commands a program puts on the wire (towards "OK only if everything was sent")

`noChange p`: `p` contains no send of role `change`; then `changeSends` of the trace is unchanged.
(Same induction as `quiet_qext`.)
-/
namespace NA.C09
open NA.Sess NA.Apply NA.Spec.C09

def isChangeSend : Ev → Bool
  | .sent .change _ => true
  | _ => false

def ncRole : Role → Bool
  | .change => false
  | _ => true

def noChange : Sess → Bool
  | .skip | .recv _ _ | .recvMore _ | .abort _ | .warn _ | .cont | .ret _ _ | .setCtr _ | .decCtr
  | .setPlan | .assumeBanner => true
  | .send ρ _ => ncRole ρ
  | .roundTrip ρ _ _ => ncRole ρ
  | .mark e => !isChangeSend e
  | .ite _ _ t e => noChange t && noChange e
  | .seq a b => noChange a && noChange b
  | .forEach b => noChange b
  | .defer c b => noChange c && noChange b
  | .loopN _ b => noChange b
  | .loopFuel b => noChange b
  | .call _ _ b => noChange b
  | .scope _ b => noChange b
  | .when _ b => noChange b

/-- `s'` extends the trace of `s` by harmless events only -/
def NExt (s s' : St) : Prop := ∃ l, s'.tr = s.tr ++ l ∧ ∀ e ∈ l, isChangeSend e = false

theorem NExt.refl (s : St) : NExt s s := ⟨[], by simp, by simp⟩
theorem NExt.trans {a b c : St} (h1 : NExt a b) (h2 : NExt b c) : NExt a c := by
  obtain ⟨l1, e1, q1⟩ := h1
  obtain ⟨l2, e2, q2⟩ := h2
  refine ⟨l1 ++ l2, by rw [e2, e1, List.append_assoc], ?_⟩
  intro e he
  rcases List.mem_append.mp he with h | h
  · exact q1 e h
  · exact q2 e h
theorem NExt.of_tr {s s' : St} (h : s'.tr = s.tr) : NExt s s' := ⟨[], by simp [h], by simp⟩
theorem NExt.snoc {s s' : St} (e : Ev) (h : s'.tr = s.tr ++ [e]) (he : isChangeSend e = false) : NExt s s' :=
  ⟨[e], h, by simp [he]⟩

theorem recvLoop_next (dev : Dev) (ρ : Role) (p : Pat) : ∀ (n : Nat) (s : St), NExt s (recvLoop dev ρ p n s) := by
  intro n
  induction n with
  | zero => intro s; exact NExt.of_tr rfl
  | succ n ih =>
    intro s
    simp only [recvLoop]
    split
    · exact NExt.snoc _ rfl rfl
    · split
      · exact (NExt.snoc (s' := { s with tr := s.tr ++ [Ev.skipped (dev s.tr)] }) _ rfl rfl).trans (ih _)
      · exact NExt.snoc _ rfl rfl

theorem each_next (f : List String → St → St) (hf : ∀ pk s, NExt s (f pk s)) :
    ∀ (l : List (List String)) (s : St), NExt s (each f l s) := by
  intro l
  induction l with
  | nil => intro s; exact NExt.refl s
  | cons pk rest ih => intro s; exact (hf pk s).trans (ih _)

theorem iter_next (f : St → St) (hf : ∀ s, NExt s (f s)) : ∀ (n : Nat) (s : St), NExt s (iter n f s) := by
  intro n
  induction n with
  | zero =>
    intro s
    simp only [iter]
    split
    · exact NExt.of_tr rfl
    · exact NExt.refl s
  | succ n ih =>
    intro s
    simp only [iter]
    split
    · split
      · exact (hf s).trans ((NExt.of_tr (s' := { f s with mode := Mode.run }) rfl).trans (ih _))
      · exact (hf s).trans (ih _)
      · exact hf s
    · exact NExt.refl s

theorem noChange_next (p : Sess) (hq : noChange p = true) : ∀ (env : Env) (s : St), NExt s (exec p env s) := by
  induction p with
  | skip => intro env s; exact NExt.refl s
  | send ρ t =>
    intro env s
    simp only [exec]
    split
    · refine NExt.snoc _ rfl ?_
      cases ρ <;> simp_all [noChange, ncRole, isChangeSend]
    · exact NExt.refl s
  | recv ρ p =>
    intro env s
    simp only [exec]
    split
    · exact recvLoop_next _ _ _ _ _
    · exact NExt.refl s
  | recvMore p =>
    intro env s
    simp only [exec]
    split
    · exact NExt.of_tr rfl
    · exact NExt.refl s
  | roundTrip ρ t r =>
    intro env s
    have hs : isChangeSend (Ev.sent ρ (t.lines env)) = false := by
      cases ρ <;> simp_all [noChange, ncRole, isChangeSend]
    simp only [exec]
    split
    · split
      · exact ((NExt.snoc (s' := { s with tr := s.tr ++ [Ev.sent ρ (t.lines env)] }) _ rfl hs).trans
          (recvLoop_next _ _ _ _ _)).trans
          ((NExt.snoc (s' := { recvLoop env.dev ρ Pat.http 1 { s with tr := s.tr ++ [Ev.sent ρ (t.lines env)] } with
              tr := (recvLoop env.dev ρ Pat.http 1 { s with tr := s.tr ++ [Ev.sent ρ (t.lines env)] }).tr ++
                [Ev.sent ρ (t.lines env)] }) _ rfl hs).trans (recvLoop_next _ _ _ _ _))
      · exact (NExt.snoc (s' := { s with tr := s.tr ++ [Ev.sent ρ (t.lines env)] }) _ rfl hs).trans
          (recvLoop_next _ _ _ _ _)
    · exact NExt.refl s
  | ite c l t e iht ihe =>
    intro env s
    simp only [noChange, Bool.and_eq_true] at hq
    simp only [exec]
    split
    · split
      · exact iht hq.1 env s
      · exact ihe hq.2 env s
    · exact NExt.refl s
  | abort l =>
    intro env s
    simp only [exec]
    split
    · exact NExt.snoc _ rfl rfl
    · exact NExt.refl s
  | warn l =>
    intro env s
    simp only [exec]
    split
    · exact NExt.snoc _ rfl rfl
    · exact NExt.refl s
  | mark e =>
    intro env s
    simp only [exec]
    split
    · exact NExt.snoc _ rfl (by simpa [noChange] using hq)
    · exact NExt.refl s
  | seq a b iha ihb =>
    intro env s
    simp only [noChange, Bool.and_eq_true] at hq
    simp only [exec]
    exact (iha hq.1 env s).trans (ihb hq.2 env _)
  | forEach b ih =>
    intro env s
    simp only [exec]
    split
    · exact each_next _ (fun pk st => ih hq _ st) _ _
    · exact NExt.refl s
  | defer c b ihc ihb =>
    intro env s
    simp only [noChange, Bool.and_eq_true] at hq
    simp only [exec]
    split
    · split
      · exact ihb hq.2 env s
      · split
        · exact ((ihb hq.2 env s).trans (NExt.of_tr (s' := { exec b env s with mode := Mode.run }) rfl)).trans
            ((ihc hq.1 env _).trans (NExt.of_tr rfl))
        · exact ((ihb hq.2 env s).trans (NExt.of_tr (s' := { exec b env s with mode := Mode.run }) rfl)).trans
            (ihc hq.1 env _)
    · exact NExt.refl s
  | loopN n b ih =>
    intro env s
    simp only [exec]
    exact iter_next _ (fun st => ih hq env st) _ _
  | loopFuel b ih =>
    intro env s
    simp only [exec]
    exact iter_next _ (fun st => ih hq env st) _ _
  | cont =>
    intro env s
    simp only [exec]
    split
    · exact NExt.of_tr rfl
    · exact NExt.refl s
  | ret v l =>
    intro env s
    simp only [exec]
    split
    · exact NExt.of_tr rfl
    · exact NExt.refl s
  | setCtr n =>
    intro env s
    simp only [exec]
    split
    · exact NExt.of_tr rfl
    · exact NExt.refl s
  | decCtr =>
    intro env s
    simp only [exec]
    split
    · exact NExt.of_tr rfl
    · exact NExt.refl s
  | setPlan =>
    intro env s
    simp only [exec]
    split
    · exact NExt.of_tr rfl
    · exact NExt.refl s
  | call n l b ih =>
    intro env s
    simp only [exec]
    split
    · split
      · exact (ih hq env s).trans (NExt.of_tr rfl)
      · exact ih hq env s
    · exact NExt.refl s
  | scope c b ih =>
    intro env s
    simp only [exec]
    exact ih hq env s
  | «when» c b ih =>
    intro env s
    simp only [exec]
    split
    · split
      · exact ih hq env s
      · exact NExt.refl s
    · exact NExt.refl s
  | assumeBanner =>
    intro env s
    simp only [exec]
    split
    · exact NExt.of_tr rfl
    · exact NExt.refl s



theorem changeSends_append (a b : List Ev) : changeSends (a ++ b) = changeSends a ++ changeSends b := by
  induction a with
  | nil => simp [changeSends]
  | cons e t ih =>
    cases e with
    | sent ρ ls => cases ρ <;> simp [changeSends, ih]
    | _ => simp [changeSends, ih]

theorem changeSends_quiet (l : List Ev) (h : ∀ e ∈ l, isChangeSend e = false) : changeSends l = [] := by
  induction l with
  | nil => rfl
  | cons e t ih =>
    have he := h e (by simp)
    have ht := ih (fun x hx => h x (by simp [hx]))
    cases e with
    | sent ρ ls => cases ρ <;> simp_all [changeSends, isChangeSend]
    | _ => simp [changeSends, ht]

/-- a program without change sends leaves the list of change commands on the wire as it is -/
theorem noChange_changeSends (p : Sess) (hq : noChange p = true) (env : Env) (s : St) :
    changeSends (exec p env s).tr = changeSends s.tr := by
  obtain ⟨l, he, hl⟩ := noChange_next p hq env s
  rw [he, changeSends_append, changeSends_quiet l hl, List.append_nil]

/-- a loop over the script whose body puts the current packet on the wire exactly once (and nothing
else that is a change command): if the loop ends in normal mode, the whole script is on the wire -/
theorem each_sends_all (f : List String → St → St)
    (hnon : ∀ pk s, s.mode ≠ .run → f pk s = s)
    (hsend : ∀ pk s, s.mode = .run → changeSends (f pk s).tr = changeSends s.tr ++ [pk]) :
    ∀ (l : List (List String)) (s : St), (each f l s).mode = .run →
      changeSends (each f l s).tr = changeSends s.tr ++ l := by
  intro l
  induction l with
  | nil => intro s _; simp [each]
  | cons pk rest ih =>
    intro s h
    simp only [each] at h ⊢
    by_cases hm : s.mode = .run
    · rw [ih _ h, hsend pk s hm, List.append_assoc]; rfl
    · -- a state that does not run stays as it is, so the loop cannot end in run mode
      rw [hnon pk s hm, each_nonrun f hnon rest s hm] at h
      exact absurd h hm


/-! ## the loops over the change script of the five backends -/

theorem cs_call (n : String) (l : List String) (b : Sess) (env : Env) (s : St) :
    changeSends (exec (.call n l b) env s).tr = changeSends (exec b env s).tr := by
  by_cases hm : s.mode = .run
  · simp only [exec, hm, if_true]
    split <;> rfl
  · rw [exec_nonrun _ _ _ hm, exec_nonrun _ _ _ hm]

theorem cs_seq_right (a b : Sess) (hb : noChange b = true) (env : Env) (s : St) :
    changeSends (exec (a ;; b) env s).tr = changeSends (exec a env s).tr := by
  simp only [exec]
  exact noChange_changeSends b hb env _

theorem cs_seq_left (a b : Sess) (ha : noChange a = true) (env : Env) (s : St) :
    changeSends (exec (a ;; b) env s).tr = changeSends (exec b env (exec a env s)).tr := by
  simp only [exec]

theorem cs_send_change (t : Txt) (env : Env) (s : St) (hm : s.mode = .run) :
    changeSends (exec (.send .change t) env s).tr = changeSends s.tr ++ [t.lines env] := by
  simp [exec, hm, changeSends_append, changeSends]

/-- `cmd` with any text: one packet on the wire, then only reading and checking -/
theorem cs_console_cmd_txt (n : String) (l : List String) (t : Txt) (rest : Sess) (hrest : noChange rest = true)
    (env : Env) (s : St) (hm : s.mode = .run) :
    changeSends (exec (.call n l (Send .change t ;; rest)) env s).tr = changeSends s.tr ++ [t.lines env] := by
  rw [cs_call, cs_seq_right _ _ hrest, Send, cs_call, sendBody, cs_send_change _ _ _ hm]

/-- ASA / IOS / Linux `cmd`: one packet on the wire, then only reading and checking -/
theorem cs_console_cmd (n : String) (l : List String) (rest : Sess) (hrest : noChange rest = true)
    (env : Env) (s : St) (hm : s.mode = .run) :
    changeSends (exec (.call n l (Send .change .cur ;; rest)) env s).tr = changeSends s.tr ++ [env.cur] := by
  rw [cs_call, cs_seq_right _ _ hrest, Send, cs_call, sendBody, cs_send_change _ _ _ hm]
  rfl

theorem exec_forEach (body : Sess) (env : Env) (s : St) (hm : s.mode = .run) :
    exec (.forEach body) env s = each (fun pk st => exec body { env with cur := pk } st) s.plan s := by
  simp [exec, hm]

/-- **If the loop over the change script ends in normal mode, every packet of the script has been
put on the wire, in order, exactly once** — for any loop body that sends the current packet once. -/
theorem foreach_sends_all (body : Sess)
    (hsend : ∀ (env' : Env) (st : St), st.mode = .run → changeSends (exec body env' st).tr = changeSends st.tr ++ [env'.cur])
    (env : Env) (s : St) (hm : s.mode = .run) (hend : (exec (.forEach body) env s).mode = .run) :
    changeSends (exec (.forEach body) env s).tr = changeSends s.tr ++ s.plan := by
  rw [exec_forEach _ _ _ hm] at hend ⊢
  exact each_sends_all _ (fun pk st h => exec_nonrun _ _ _ h) (fun pk st h => hsend { env with cur := pk } st h) _ _ hend

theorem foreach_sends_all_asa (env : Env) (s : St) (hm : s.mode = .run)
    (hend : (exec (.forEach (asaCmd .change .cur ["_"])) env s).mode = .run) :
    changeSends (exec (.forEach (asaCmd .change .cur ["_"])) env s).tr = changeSends s.tr ++ s.plan :=
  foreach_sends_all _ (fun env' st h => cs_console_cmd _ _ _ (by decide) env' st h) env s hm hend

theorem foreach_sends_all_ios (env : Env) (s : St) (hm : s.mode = .run)
    (hend : (exec (.forEach (iosCmd .change .cur ["_"])) env s).mode = .run) :
    changeSends (exec (.forEach (iosCmd .change .cur ["_"])) env s).tr = changeSends s.tr ++ s.plan :=
  foreach_sends_all _ (fun env' st h => cs_console_cmd _ _ _ (by decide) env' st h) env s hm hend

theorem foreach_sends_all_linux (env : Env) (s : St) (hm : s.mode = .run)
    (hend : (exec (.forEach (linuxCmd .change .cur ["_"])) env s).mode = .run) :
    changeSends (exec (.forEach (linuxCmd .change .cur ["_"])) env s).tr = changeSends s.tr ++ s.plan :=
  foreach_sends_all _ (fun env' st h => cs_console_cmd _ _ _ (by decide) env' st h) env s hm hend

theorem cs_recvLoop (dev : Dev) (ρ : Role) (p : Pat) (n : Nat) (st : St) :
    changeSends (recvLoop dev ρ p n st).tr = changeSends st.tr := by
  obtain ⟨l, he, hl⟩ := recvLoop_next dev ρ p n st
  rw [he, changeSends_append, changeSends_quiet l hl, List.append_nil]

/-- one HTTP request that is not replayed: exactly one packet -/
theorem cs_roundTrip_once (t : Txt) (env : Env) (s : St) (hm : s.mode = .run) :
    changeSends (exec (.roundTrip .change t false) env s).tr = changeSends s.tr ++ [t.lines env] := by
  simp only [exec, hm, if_true, Bool.false_and, Bool.false_eq_true, if_false]
  rw [cs_recvLoop, changeSends_append]
  simp [changeSends]

theorem cs_nsx_request (env : Env) (st : St) (h : st.mode = .run) :
    changeSends (exec (nsxSendRequest .change .cur ;; .ite .err "err != nil" (.ret .keep ["err"]) .skip) env st).tr
      = changeSends st.tr ++ [env.cur] := by
  rw [cs_seq_right _ _ (by decide)]
  rw [nsxSendRequest, cs_call, nsxSendRequestBody]
  rw [cs_seq_left _ _ (by decide), cs_seq_left _ _ (by decide), cs_seq_right _ _ (by decide)]
  have hrun : (exec (.ite .never "err != nil" (.ret .keep ["nil", "err"]) .skip)
      env (exec (op "NewRequest" ["_", "_", "_"]) env st)).mode = .run := by
    simp [op, exec, h, evalCond]
  have htr : (exec (.ite .never "err != nil" (.ret .keep ["nil", "err"]) .skip)
      env (exec (op "NewRequest" ["_", "_", "_"]) env st)).tr = st.tr := by
    simp [op, exec, h, evalCond]
  rw [show (Role.change != Role.change) = false by decide, cs_roundTrip_once _ _ _ hrun, htr]
  rfl

/-- NSX: every request of the script is sent exactly once if the loop ends in normal mode -/
theorem foreach_sends_all_nsx (env : Env) (s : St) (hm : s.mode = .run)
    (hend : (exec (.forEach (nsxSendRequest .change .cur ;; .ite .err "err != nil" (.ret .keep ["err"]) .skip)) env s).mode = .run) :
    changeSends (exec (.forEach (nsxSendRequest .change .cur ;; .ite .err "err != nil" (.ret .keep ["err"]) .skip)) env s).tr
      = changeSends s.tr ++ s.plan :=
  foreach_sends_all _ cs_nsx_request env s hm hend


/-! ## PAN-OS: a request may be replayed by net/http, so a packet is on the wire once or twice -/

theorem each_sends_sub (f : List String → St → St)
    (hnon : ∀ pk s, s.mode ≠ .run → f pk s = s)
    (hsend : ∀ pk s, s.mode = .run →
      changeSends (f pk s).tr = changeSends s.tr ++ [pk] ∨ changeSends (f pk s).tr = changeSends s.tr ++ [pk, pk]) :
    ∀ (l : List (List String)) (s : St), (each f l s).mode = .run →
      ∃ new, changeSends (each f l s).tr = changeSends s.tr ++ new ∧ List.Sublist l new := by
  intro l
  induction l with
  | nil => intro s _; exact ⟨[], by simp [each], List.Sublist.slnil⟩
  | cons pk rest ih =>
    intro s h
    simp only [each] at h ⊢
    by_cases hm : s.mode = .run
    · obtain ⟨new, he, hsub⟩ := ih _ h
      rcases hsend pk s hm with h1 | h2
      · exact ⟨pk :: new, by rw [he, h1, List.append_assoc]; rfl, hsub.cons₂ pk⟩
      · exact ⟨pk :: pk :: new, by rw [he, h2, List.append_assoc]; rfl, (hsub.cons₂ pk).cons pk⟩
    · rw [hnon pk s hm, each_nonrun f hnon rest s hm] at h
      exact absurd h hm

theorem cs_roundTrip_replay (t : Txt) (env : Env) (s : St) (hm : s.mode = .run) :
    changeSends (exec (.roundTrip .change t true) env s).tr = changeSends s.tr ++ [t.lines env]
    ∨ changeSends (exec (.roundTrip .change t true) env s).tr = changeSends s.tr ++ [t.lines env, t.lines env] := by
  simp only [exec, hm, if_true]
  split
  · right
    rw [cs_recvLoop, changeSends_append, cs_recvLoop, changeSends_append]
    simp [changeSends]
  · left
    rw [cs_recvLoop, changeSends_append]
    simp [changeSends]

theorem cs_panos_request (env : Env) (st : St) (h : st.mode = .run) :
    changeSends (exec (panosDoCmd .change .cur ;; .ite .err "err != nil" (.ret .err ["_"]) .skip) env st).tr
      = changeSends st.tr ++ [env.cur]
    ∨ changeSends (exec (panosDoCmd .change .cur ;; .ite .err "err != nil" (.ret .err ["_"]) .skip) env st).tr
      = changeSends st.tr ++ [env.cur, env.cur] := by
  rw [cs_seq_right _ _ (by decide)]
  rw [panosDoCmd, cs_call, panosDoCmdBody, cs_seq_right _ _ (by decide)]
  rw [panosHttpPrefixGetLog, cs_call, panosHttpPrefixGetLogBody, cs_seq_right _ _ (by decide)]
  rw [panosHttpGet, cs_call, panosHttpGetBody, cs_seq_right _ _ (by decide)]
  exact cs_roundTrip_replay .cur env st h

/-- PAN-OS: if the loop over the script ends in normal mode, every command of the script has been
sent, in order (a command is sent a second time only when net/http replays it). -/
theorem foreach_sends_all_panos (env : Env) (s : St) (hm : s.mode = .run)
    (hend : (exec (.forEach (panosDoCmd .change .cur ;; .ite .err "err != nil" (.ret .err ["_"]) .skip)) env s).mode = .run) :
    ∃ new, changeSends (exec (.forEach (panosDoCmd .change .cur ;; .ite .err "err != nil" (.ret .err ["_"]) .skip)) env s).tr
        = changeSends s.tr ++ new ∧ List.Sublist s.plan new := by
  rw [exec_forEach _ _ _ hm] at hend ⊢
  exact each_sends_sub _ (fun pk st h => exec_nonrun _ _ _ h) (fun pk st h => cs_panos_request { env with cur := pk } st h) _ _ hend

end NA.C09
