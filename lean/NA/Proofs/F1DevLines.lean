import NA.Proofs.F1DevAcl
import NA.Proofs.F1Shapes
/-!
# F1: the second phase of `diffASAACLs` on the strict device

The planned line operations (with the transfers of referenced groups in front of each added line) are
accepted; the device's access list follows the presence masks of `NA.Acl.MaskRun`.
-/
namespace NA.F1
open NA.AsaDev
open NA.Acl (MaskRun masked cnt)

/-- One step of the engine that touches object-groups and the lines of access list `aN`. -/
structure AStep (e : Env) (st : St) (d : Dev) (st' : St) (d' : Dev) (aN : Name) : Prop where
  sem : Sem e st' d'
  out : ∃ cs, st'.out = st.out ++ cs ∧ exec d cs = some d'
  stable : ∀ x, hasGroup d x = true → Frozen e st x → membersOf d' x = membersOf d x
  hasMono : ∀ x, hasGroup d x = true → hasGroup d' x = true
  grow : ∀ x ∈ st.gNeeded, x ∈ st'.gNeeded
  readyMono : ∀ g ∈ st.gReady, g ∈ st'.gReady
  others : ∀ n', n' ≠ aN → linesOf d' n' = linesOf d n'
  binds : d'.binds = d.binds
  routes : d'.routes = d.routes
  intfs : d'.intfs = d.intfs
  gName : st'.gName = st.gName
  aclKeys : d'.acls.map (·.1) = d.acls.map (·.1)

theorem AStep.refl {e : Env} {st : St} {d : Dev} (h : Sem e st d) (aN : Name) : AStep e st d st d aN :=
  ⟨h, ⟨[], by simp, exec_nil d⟩, fun _ _ _ => rfl, fun _ h => h, fun _ h => h, fun _ h => h, fun _ _ => rfl, rfl, rfl, rfl, rfl, rfl⟩

theorem AStep.trans {e : Env} {s1 s2 s3 : St} {d1 d2 d3 : Dev} {aN : Name}
    (h1 : AStep e s1 d1 s2 d2 aN) (h2 : AStep e s2 d2 s3 d3 aN) : AStep e s1 d1 s3 d3 aN := by
  obtain ⟨c1, o1, e1⟩ := h1.out
  obtain ⟨c2, o2, e2⟩ := h2.out
  refine ⟨h2.sem, ⟨c1 ++ c2, by rw [o2, o1, List.append_assoc], exec_append_some e1 e2⟩, ?_, ?_, ?_, ?_, ?_,
    h2.binds.trans h1.binds, h2.routes.trans h1.routes, h2.intfs.trans h1.intfs, h2.gName.trans h1.gName,
    h2.aclKeys.trans h1.aclKeys⟩
  · intro x hx hf
    rw [h2.stable x (h1.hasMono x hx) (hf.mono h1.grow), h1.stable x hx hf]
  · exact fun x hx => h2.hasMono x (h1.hasMono x hx)
  · exact fun x hx => h2.grow x (h1.grow x hx)
  · exact fun x hx => h2.readyMono x (h1.readyMono x hx)
  · exact fun n' hn => (h2.others n' hn).trans (h1.others n' hn)

theorem GStep.toAStep {e : Env} {st st' : St} {d d' : Dev} (h : GStep e st d st' d') (hn : st'.gName = st.gName) (aN : Name) :
    AStep e st d st' d' aN :=
  ⟨h.sem, h.out, h.stable, h.hasMono, h.grow, h.readyMono, fun n' _ => by simp [linesOf, h.acls], h.binds, h.routes, h.intfs, hn,
   by rw [h.acls]⟩

theorem GStep.lines {e : Env} {st st' : St} {d d' : Dev} (h : GStep e st d st' d') (n : Name) : linesOf d' n = linesOf d n := by
  simp [linesOf, h.acls]

/-- Device lines of target lines reference groups of the target. -/
def RefsClosedB (e : Env) : Prop := ∀ n, ∀ l ∈ e.bLines n, ∀ g ∈ l.refs, g ∈ BNames e

/-- Transfer of all groups referenced by one line. -/
theorem transferRefs_gstep (e : Env) (hw : WF e) : ∀ (refs : List Name) (st : St) (d : Dev), Sem e st d →
    (∀ g ∈ refs, g ∈ BNames e) →
    ∃ d', GStep e st d (refs.foldl (transferGroup e) st) d' ∧
      (∀ g ∈ refs, g ∈ (refs.foldl (transferGroup e) st).gReady) ∧
      (refs.foldl (transferGroup e) st).gName = st.gName ∧
      (∀ g ∈ st.gReady, g ∈ (refs.foldl (transferGroup e) st).gReady) := by
  intro refs
  induction refs with
  | nil => intro st d h _; exact ⟨d, GStep.refl h, fun _ hg => by simp at hg, rfl, fun _ hg => hg⟩
  | cons g gs ih =>
    intro st d h hb
    obtain ⟨d1, g1, r1, n1⟩ := transferGroup_gstep e hw st d h g (hb g List.mem_cons_self)
    obtain ⟨d2, g2, r2, n2, m2⟩ := ih (transferGroup e st g) d1 g1.sem (fun x hx => hb x (List.mem_cons_of_mem _ hx))
    refine ⟨d2, g1.trans g2, ?_, n2.trans n1, fun x hx => m2 x (transferGroup_ready_mono e st g x hx)⟩
    intro x hx
    rcases List.mem_cons.mp hx with e1 | e1
    · subst e1; exact m2 _ r1
    · exact r2 x e1

theorem Sem.transport {e : Env} {st st' : St} {d d' : Dev} (h : Sem e st d) (hgr : d'.groups = d.groups)
    (hm : ModeRel st' d') (h1 : st'.gNeeded = st.gNeeded) (h2 : st'.gReady = st.gReady) (h3 : st'.gName = st.gName) :
    Sem e st' d' := by
  have hh : ∀ g, hasGroup d' g = hasGroup d g := fun g => by simp [hasGroup, hgr]
  have hmm : ∀ g, membersOf d' g = membersOf d g := fun g => by simp [membersOf, hgr]
  have hn : ∀ g, st'.gNameOf g = st.gNameOf g := fun g => by simp [St.gNameOf, h3]
  refine ⟨hm, fun g hg => by rw [hh]; exact h.dev g hg, ?_, ?_, ?_⟩
  · intro g hg hn'; rw [hmm]; exact h.untouched g hg (by rw [← h1]; exact hn')
  · intro g hg
    rw [h2] at hg
    obtain ⟨r1, r2, r3⟩ := h.ready g hg
    rw [hn, hh, hmm]
    refine ⟨r1, r2, ?_⟩
    rcases r3 with r3 | r3
    · exact Or.inl (by rw [h1]; exact r3)
    · exact Or.inr r3
  · intro g hgB hg
    rw [h2] at hg
    obtain ⟨u1, u2⟩ := h.unready g hgB hg
    rw [hn, hh]; exact ⟨u1, u2⟩

/-- A single line command (accepted by the device, changing only access list `aN`) as a step. -/
theorem lineCmd_astep {e : Env} {st1 st2 : St} {d1 d2 : Dev} {aN : Name} (h1 : Sem e st1 d1) (c : Chg)
    (hex : exec1 d1 c = .ok d2) (ho : OnlyAcl d1 d2 aN)
    (hout : st2.out = st1.out ++ [c]) (hmode : st2.mode = "") (hn : st2.gNeeded = st1.gNeeded)
    (hr : st2.gReady = st1.gReady) (hg : st2.gName = st1.gName) : AStep e st1 d1 st2 d2 aN := by
  have hh : ∀ g, hasGroup d2 g = hasGroup d1 g := fun g => by simp [hasGroup, ho.groups]
  have hmm : ∀ g, membersOf d2 g = membersOf d1 g := fun g => by simp [membersOf, ho.groups]
  refine ⟨h1.transport ho.groups ?_ hn hr hg, ⟨[c], hout, exec_single hex⟩, fun x _ _ => hmm x,
    fun x hx => by rw [hh]; exact hx, fun x hx => by rw [hn]; exact hx, fun x hx => by rw [hr]; exact hx,
    ho.others, ho.binds, ho.routes, ho.intfs, hg, ho.keys⟩
  unfold ModeRel
  rw [hmode, ho.mode]; rfl

theorem resolveB_congr {st st' : St} (h : st'.gName = st.gName) (l : Line) : resolveB st' l = resolveB st l := by
  unfold resolveB
  congr 1
  apply List.map_congr_left
  intro g _
  simp [St.gNameOf, h]

/-! ## The plan of one access-list pair -/

/-- Printed lines of the cells (fixed when the plan is made). -/
def rlOf (st0 : St) (al bl : List Line) (cells : List MCell) : List RLine := cells.map (cellRLine st0 al bl)
def mkeysOf (st0 : St) (al bl : List Line) (cells : List MCell) : List String := (rlOf st0 al bl cells).map (·.mkey)
/-- Decoding of an abstract line (its `key` is the index of its cell). -/
def decOf (st0 : St) (al bl : List Line) (cells : List MCell) (x : NA.Acl.Line) : RLine :=
  (rlOf st0 al bl cells).getD x.key default

theorem mkeysOf_length (st0 : St) (al bl : List Line) (cells : List MCell) :
    (mkeysOf st0 al bl cells).length = cells.length := by simp [mkeysOf, rlOf]

theorem dec_line (st0 : St) (al bl : List Line) (cells : List MCell) (mk : List String) (j : Nat) (hj : j < cells.length) :
    decOf st0 al bl cells (encCell cells mk j).line = cellRLine st0 al bl (cells.getD j default) := by
  unfold decOf rlOf
  show (cells.map (cellRLine st0 al bl)).getD j default = _
  rw [List.getD_eq_getElem?_getD, List.getElem?_map, List.getD_eq_getElem?_getD, List.getElem?_eq_getElem hj]
  rfl

theorem mkeysOf_getD (st0 : St) (al bl : List Line) (cells : List MCell) (j : Nat) (hj : j < cells.length) :
    (mkeysOf st0 al bl cells).getD j "" = (cellRLine st0 al bl (cells.getD j default)).mkey := by
  unfold mkeysOf rlOf
  rw [List.map_map, List.getD_eq_getElem?_getD, List.getElem?_map, List.getD_eq_getElem?_getD,
    List.getElem?_eq_getElem hj]
  rfl

/-- Codes of printed texts are equal exactly if the texts are. -/
theorem code_eq (st0 : St) (al bl : List Line) (cells : List MCell) (i j : Nat) (hi : i < cells.length) (hj : j < cells.length) :
    ((decOf st0 al bl cells (encCell cells (mkeysOf st0 al bl cells) i).line).mkey ==
      (decOf st0 al bl cells (encCell cells (mkeysOf st0 al bl cells) j).line).mkey) =
    ((encCell cells (mkeysOf st0 al bl cells) i).line.mkey == (encCell cells (mkeysOf st0 al bl cells) j).line.mkey) := by
  rw [dec_line _ _ _ _ _ i hi, dec_line _ _ _ _ _ j hj, ← mkeysOf_getD _ _ _ _ i hi, ← mkeysOf_getD _ _ _ _ j hj]
  show _ = ((mkeysOf st0 al bl cells).idxOf ((mkeysOf st0 al bl cells).getD i "") ==
    (mkeysOf st0 al bl cells).idxOf ((mkeysOf st0 al bl cells).getD j ""))
  have mi : (mkeysOf st0 al bl cells).getD i "" ∈ mkeysOf st0 al bl cells := by
    rw [List.getD_eq_getElem?_getD, List.getElem?_eq_getElem (by rw [mkeysOf_length]; exact hi)]; simp
  have mj : (mkeysOf st0 al bl cells).getD j "" ∈ mkeysOf st0 al bl cells := by
    rw [List.getD_eq_getElem?_getD, List.getElem?_eq_getElem (by rw [mkeysOf_length]; exact hj)]; simp
  by_cases h : (mkeysOf st0 al bl cells).getD i "" = (mkeysOf st0 al bl cells).getD j ""
  · rw [h]; simp
  · have h2 : (mkeysOf st0 al bl cells).idxOf ((mkeysOf st0 al bl cells).getD i "") ≠
        (mkeysOf st0 al bl cells).idxOf ((mkeysOf st0 al bl cells).getD j "") := fun e => h (idxOf_inj_on mi mj e)
    rw [beq_eq_false_iff_ne.mpr h, beq_eq_false_iff_ne.mpr h2]

theorem astep_hit {e : Env} {st st' : St} {d d' : Dev} {aN : Name} (h : AStep e st d st' d' aN) (x : String) :
    AStep e st d (st'.hit x) d' aN :=
  ⟨⟨h.sem.mode, h.sem.dev, h.sem.untouched, h.sem.ready, h.sem.unready⟩, h.out, h.stable, h.hasMono, h.grow,
   h.readyMono, h.others, h.binds, h.routes, h.intfs, h.gName, h.aclKeys⟩

/-- Every line of the current list belongs to a present cell (in terms of `encCell`). -/
theorem masked_mem_enc (cells : List MCell) (mk : List String) (μ : List Bool) (x : NA.Acl.Line)
    (h : x ∈ masked (encodeCells cells mk) μ) : ∃ i, i < cells.length ∧ μ.getD i false = true ∧ x = (encCell cells mk i).line := by
  obtain ⟨i, hi, hp, hl⟩ := NA.Acl.masked_mem _ μ x h
  rw [encodeCells_length] at hi
  rw [encodeCells_getD cells mk i hi] at hl
  exact ⟨i, hi, hp, hl.symm⟩

/-- `emitLine` on the device: the referenced groups are transferred, then the line command `mk` is accepted. -/
theorem emitLine_astep (e : Env) (hw : WF e) (aN : Name) (st : St) (d : Dev) (h : Sem e st d) (b : Line)
    (hb : ∀ g ∈ b.refs, g ∈ BNames e) (mk : RLine → Chg) (P : Dev → Prop)
    (hstep : ∀ (d1 : Dev), d1.acls = d.acls → d1.binds = d.binds → (∀ g ∈ (resolveB st b).names, hasGroup d1 g = true) →
      ∃ d2, exec1 d1 (mk (resolveB st b)) = .ok d2 ∧ OnlyAcl d1 d2 aN ∧ P d2) :
    ∃ d', AStep e st d (emitLine e st mk b) d' aN ∧ P d' ∧ ∀ g ∈ b.refs, g ∈ (emitLine e st mk b).gReady := by
  unfold emitLine
  simp only []
  obtain ⟨d1, g1, r1, n1, _⟩ := transferRefs_gstep e hw b.refs st d h hb
  generalize b.refs.foldl (transferGroup e) st = st1 at g1 r1 n1
  have hres : resolveB st1 b = resolveB st b := resolveB_congr n1 b
  have hgroups : ∀ g ∈ (resolveB st b).names, hasGroup d1 g = true := by
    intro g hg
    rw [← hres] at hg
    simp only [resolveB, List.mem_map] at hg
    obtain ⟨r, hr, rfl⟩ := hg
    exact (g1.sem.ready r (r1 r hr)).1
  obtain ⟨d2, hex, ho, hp⟩ := hstep d1 g1.acls g1.binds hgroups
  rw [hres]
  refine ⟨d2, (g1.toAStep n1 aN).trans (lineCmd_astep g1.sem _ hex ho rfl rfl rfl rfl rfl), hp, r1⟩

theorem masked_ne_nil (cells : List MCell) (mk : List String) (μ : List Bool) (k : Nat) (hk : k < cells.length)
    (hp : μ.getD k false = true) : masked (encodeCells cells mk) μ ≠ [] := by
  intro h
  have := NA.Acl.masked_get (encodeCells cells mk) μ k (by rw [encodeCells_length]; exact hk) hp
  rw [h] at this
  simp at this

theorem encCell_key (cells : List MCell) (mk : List String) (j : Nat) : (encCell cells mk j).line.key = j := rfl

theorem sem_marks {e : Env} {st st' : St} {d : Dev} (h : Sem e st d) (hm : st'.mode = st.mode)
    (h1 : st'.gNeeded = st.gNeeded) (h2 : st'.gReady = st.gReady) (h3 : st'.gName = st.gName) : Sem e st' d :=
  h.transport rfl (by unfold ModeRel; rw [hm]; exact h.mode) h1 h2 h3

/-- The groups of every added line that is present are `ready`. -/
def InsReady (cells : List MCell) (bl : List Line) (st : St) (μ : List Bool) : Prop :=
  ∀ j bi, j < cells.length → μ.getD j false = true → cells.getD j default = .ins bi →
    ∀ g ∈ (bl.getD bi default).refs, g ∈ st.gReady

theorem InsReady.astep {cells : List MCell} {bl : List Line} {e : Env} {st st' : St} {d d' : Dev} {aN : Name} {μ : List Bool}
    (h : InsReady cells bl st μ) (a : AStep e st d st' d' aN) : InsReady cells bl st' μ :=
  fun j bi hj hp hc g hg => a.readyMono g (h j bi hj hp hc g hg)

/-- The second phase of `diffASAACLs` on the strict device, by induction on the mask-level run. -/
theorem opsFold_astep (e : Env) (hw : WF e) (aN : Name) (st0 : St) (al bl : List Line) (cells : List MCell)
    (hB : ∀ bi, ∀ g ∈ (bl.getD bi default).refs, g ∈ BNames e)
    (k : Nat) (hk : k < cells.length) (hkeep : ∃ a b, cells.getD k default = .keep a b) :
    ∀ {μ : List Bool} {ops : List NA.Acl.Op} {μ' : List Bool},
      MaskRun (encodeCells cells (mkeysOf st0 al bl cells)) μ ops μ' →
      (∀ op ∈ ops, Shape cells (mkeysOf st0 al bl cells) op) →
      ∀ (st : St) (d : Dev), Sem e st d → st.gName = st0.gName →
        linesOf d aN = (masked (encodeCells cells (mkeysOf st0 al bl cells)) μ).map (decOf st0 al bl cells) →
        μ.getD k false = true → InsReady cells bl st μ →
        ∃ d', AStep e st d (ops.foldl (emitOp e aN al bl cells) st) d' aN ∧
          linesOf d' aN = (masked (encodeCells cells (mkeysOf st0 al bl cells)) μ').map (decOf st0 al bl cells) ∧
          InsReady cells bl (ops.foldl (emitOp e aN al bl cells) st) μ' := by
  intro μ ops μ' hrun
  induction hrun with
  | nil μ => intro _ st d h _ hS _ hir; exact ⟨d, AStep.refl h aN, hS, hir⟩
  | add μ j ops μ' hj hl hμ hnew hdist _ ih =>
    intro hshape st d h hgn hS hpk hir
    have hjc : j < cells.length := by rw [encodeCells_length] at hj; exact hj
    have hMj : (encodeCells cells (mkeysOf st0 al bl cells)).getD j default = encCell cells (mkeysOf st0 al bl cells) j :=
      encodeCells_getD _ _ j hjc
    obtain ⟨j', bi, _, hline, hcell⟩ := hshape _ List.mem_cons_self
    rw [hMj] at hline
    have hjj : j' = j := by have := congrArg (·.key) hline; simpa [encCell_key] using this.symm
    subst hjj
    -- one step
    have hstep : ∃ d1, AStep e st d (emitOp e aN al bl cells st
        (.add (cnt μ j') ((encodeCells cells (mkeysOf st0 al bl cells)).getD j' default).line)) d1 aN ∧
        linesOf d1 aN = (masked (encodeCells cells (mkeysOf st0 al bl cells)) (μ.set j' true)).map (decOf st0 al bl cells) ∧
        (∀ g ∈ (bl.getD bi default).refs, g ∈ (emitOp e aN al bl cells st
        (.add (cnt μ j') ((encodeCells cells (mkeysOf st0 al bl cells)).getD j' default).line)).gReady) := by
      unfold emitOp
      simp only [hMj, encCell_key, hcell]
      have hdec : decOf st0 al bl cells (encCell cells (mkeysOf st0 al bl cells) j').line = resolveB st (bl.getD bi default) := by
        rw [dec_line _ _ _ _ _ j' hjc, hcell]
        exact (resolveB_congr hgn _).symm
      obtain ⟨d1, a1, p1⟩ := emitLine_astep e hw aN st d h (bl.getD bi default) (hB bi)
        (Chg.acl aN (some (cnt μ j' + 1)))
        (fun d2 => linesOf d2 aN = (masked (encodeCells cells (mkeysOf st0 al bl cells)) (μ.set j' true)).map (decOf st0 al bl cells))
        (by
          intro d1 hacl _ hgrp
          have hS1 : linesOf d1 aN = (masked (encodeCells cells (mkeysOf st0 al bl cells)) μ).map (decOf st0 al bl cells) := by
            rw [← hS]; simp [linesOf, hacl]
          have hx := NA.Acl.exec1_add _ μ j' hj hl hμ hdist
          rw [hMj] at hx
          rw [← hdec] at hgrp ⊢
          obtain ⟨d2, e2, l2, o2⟩ := refine_add d1 aN _ (decOf st0 al bl cells) _ _ _ hS1
            (masked_ne_nil cells _ _ k hk hpk) hx hgrp (by
            intro x hxm
            obtain ⟨i, hi, _, rfl⟩ := masked_mem_enc _ _ _ _ hxm
            exact code_eq st0 al bl cells i j' hi hjc)
          exact ⟨d2, e2, o2, l2⟩)
      exact ⟨d1, astep_hit a1 _, p1.1, p1.2⟩
    obtain ⟨d1, a1, l1, r1⟩ := hstep
    obtain ⟨d2, a2, l2, i2⟩ := ih (fun op hop => hshape op (List.mem_cons_of_mem _ hop)) _ d1 a1.sem
      (a1.gName.trans hgn) l1 (by
        rw [NA.Acl.getD_set_bool μ j' k true (by omega)]
        split
        · rfl
        · exact hpk) (by
        intro x bx hx hpx hcx
        rw [NA.Acl.getD_set_bool μ j' x true (by omega)] at hpx
        by_cases exj : x = j'
        · subst exj
          rw [hcell] at hcx
          simp only [MCell.ins.injEq] at hcx
          subst hcx
          exact r1
        · rw [if_neg exj] at hpx
          exact (hir.astep a1) x bx hx hpx hcx)
    exact ⟨d2, by rw [List.foldl_cons]; exact a1.trans a2, l2, by rw [List.foldl_cons]; exact i2⟩
  | del μ i ops μ' hi hl hμ _ ih =>
    intro hshape st d h hgn hS hpk hir
    have hic : i < cells.length := by rw [encodeCells_length] at hi; exact hi
    have hMi : (encodeCells cells (mkeysOf st0 al bl cells)).getD i default = encCell cells (mkeysOf st0 al bl cells) i :=
      encodeCells_getD _ _ i hic
    obtain ⟨i', ai, _, hline, hcell⟩ := hshape _ List.mem_cons_self
    rw [hMi] at hline
    have hii : i' = i := by have := congrArg (·.key) hline; simpa [encCell_key] using this.symm
    subst hii
    obtain ⟨ka, kb, hkc⟩ := hkeep
    have hki : k ≠ i' := fun e1 => by rw [e1, hcell] at hkc; exact absurd hkc (by simp)
    have hpk' : (μ.set i' false).getD k false = true := by
      rw [NA.Acl.getD_set_bool μ i' k false (by omega), if_neg hki]
      exact hpk
    have hstep : ∃ d1, AStep e st d (emitOp e aN al bl cells st
        (.del (cnt μ i') ((encodeCells cells (mkeysOf st0 al bl cells)).getD i' default).line)) d1 aN ∧
        linesOf d1 aN = (masked (encodeCells cells (mkeysOf st0 al bl cells)) (μ.set i' false)).map (decOf st0 al bl cells) := by
      unfold emitOp
      simp only [hMi, encCell_key, hcell]
      have hdec : decOf st0 al bl cells (encCell cells (mkeysOf st0 al bl cells) i').line = resolveA (al.getD ai default) := by
        rw [dec_line _ _ _ _ _ i' hic, hcell]; rfl
      have hx := NA.Acl.exec1_del _ μ i' hi hμ
      rw [hMi] at hx
      obtain ⟨d2, e2, l2, o2⟩ := refine_del d aN _ (decOf st0 al bl cells) _ _ _ hS hx
        (masked_ne_nil cells _ _ k hk hpk')
      rw [hdec] at e2
      have a1 := lineCmd_astep
        (st2 := markDeletedLines { (st.emit (.noAcl aN (cnt μ i' + 1) (resolveA (al.getD ai default)))) with mode := "" } [al.getD ai default])
        h _ e2 o2 rfl rfl rfl rfl rfl
      exact ⟨d2, astep_hit a1 _, l2⟩
    obtain ⟨d1, a1, l1⟩ := hstep
    obtain ⟨d2, a2, l2, i2⟩ := ih (fun op hop => hshape op (List.mem_cons_of_mem _ hop)) _ d1 a1.sem
      (a1.gName.trans hgn) l1 hpk' (by
        intro x bx hx hpx hcx
        rw [NA.Acl.getD_set_bool μ i' x false (by omega)] at hpx
        by_cases exi : x = i'
        · rw [if_pos exi] at hpx; exact absurd hpx (by simp)
        · rw [if_neg exi] at hpx
          exact (hir.astep a1) x bx hx hpx hcx)
    exact ⟨d2, by rw [List.foldl_cons]; exact a1.trans a2, l2, by rw [List.foldl_cons]; exact i2⟩
  | move μ i j ops μ' hi hj hl hμi hμj hnew hdist _ ih =>
    intro hshape st d h hgn hS hpk hir
    have hic : i < cells.length := by rw [encodeCells_length] at hi; exact hi
    have hjc : j < cells.length := by rw [encodeCells_length] at hj; exact hj
    have hMi : (encodeCells cells (mkeysOf st0 al bl cells)).getD i default = encCell cells (mkeysOf st0 al bl cells) i :=
      encodeCells_getD _ _ i hic
    have hMj : (encodeCells cells (mkeysOf st0 al bl cells)).getD j default = encCell cells (mkeysOf st0 al bl cells) j :=
      encodeCells_getD _ _ j hjc
    obtain ⟨⟨i', ai, _, hlinei, hcelli⟩, ⟨j', bi, _, hlinej, hcellj⟩⟩ := hshape _ List.mem_cons_self
    rw [hMi] at hlinei
    rw [hMj] at hlinej
    have hii : i' = i := by have := congrArg (·.key) hlinei; simpa [encCell_key] using this.symm
    have hjj : j' = j := by have := congrArg (·.key) hlinej; simpa [encCell_key] using this.symm
    subst hii hjj
    obtain ⟨ka, kb, hkc⟩ := hkeep
    have hki : k ≠ i' := fun e1 => by rw [e1, hcelli] at hkc; exact absurd hkc (by simp)
    have hpk' : (μ.set i' false).getD k false = true := by
      rw [NA.Acl.getD_set_bool μ i' k false (by omega), if_neg hki]
      exact hpk
    have hpk'' : ((μ.set i' false).set j' true).getD k false = true := by
      rw [NA.Acl.getD_set_bool _ j' k true (by simp; omega)]
      split
      · rfl
      · exact hpk'
    have hstep : ∃ d1, AStep e st d (emitOp e aN al bl cells st
        (.move (cnt μ i') ((encodeCells cells (mkeysOf st0 al bl cells)).getD i' default).line
          (cnt (μ.set i' false) j') ((encodeCells cells (mkeysOf st0 al bl cells)).getD j' default).line)) d1 aN ∧
        linesOf d1 aN = (masked (encodeCells cells (mkeysOf st0 al bl cells)) ((μ.set i' false).set j' true)).map (decOf st0 al bl cells) ∧
        (∀ g ∈ (bl.getD bi default).refs, g ∈ (emitOp e aN al bl cells st
        (.move (cnt μ i') ((encodeCells cells (mkeysOf st0 al bl cells)).getD i' default).line
          (cnt (μ.set i' false) j') ((encodeCells cells (mkeysOf st0 al bl cells)).getD j' default).line)).gReady) := by
      unfold emitOp
      simp only [hMi, hMj, encCell_key, hcelli, hcellj]
      have hdeci : decOf st0 al bl cells (encCell cells (mkeysOf st0 al bl cells) i').line = resolveA (al.getD ai default) := by
        rw [dec_line _ _ _ _ _ i' hic, hcelli]; rfl
      have hsem' : Sem e (markDeletedLines st [al.getD ai default]) d := sem_marks h rfl rfl rfl rfl
      have hgn' : (markDeletedLines st [al.getD ai default]).gName = st0.gName := hgn
      have hdecj : decOf st0 al bl cells (encCell cells (mkeysOf st0 al bl cells) j').line =
          resolveB (markDeletedLines st [al.getD ai default]) (bl.getD bi default) := by
        rw [dec_line _ _ _ _ _ j' hjc, hcellj]
        exact (resolveB_congr hgn' _).symm
      obtain ⟨d1, a1, p1⟩ := emitLine_astep e hw aN (markDeletedLines st [al.getD ai default]) d hsem' (bl.getD bi default) (hB bi)
        (fun r => .join (.noAcl aN (cnt μ i' + 1) (resolveA (al.getD ai default))) (.acl aN (some (cnt (μ.set i' false) j' + 1)) r))
        (fun d2 => linesOf d2 aN = (masked (encodeCells cells (mkeysOf st0 al bl cells)) ((μ.set i' false).set j' true)).map (decOf st0 al bl cells))
        (by
          intro d1 hacl _ hgrp
          have hS1 : linesOf d1 aN = (masked (encodeCells cells (mkeysOf st0 al bl cells)) μ).map (decOf st0 al bl cells) := by
            rw [← hS]; simp [linesOf, hacl]
          have hx := NA.Acl.exec1_move _ μ i' j' hi hj hl hμi hμj hdist
          rw [hMi, hMj] at hx
          rw [← hdecj] at hgrp ⊢
          rw [← hdeci]
          obtain ⟨d2, e2, l2, o2⟩ := refine_move d1 aN _ (decOf st0 al bl cells) _ _ _ _ _ hS1 hx
            (by rw [NA.Acl.masked_erase _ μ i' hi hμi]; exact masked_ne_nil cells _ _ k hk hpk') hgrp (by
              intro x hxm
              obtain ⟨i2, hi2, _, rfl⟩ := masked_mem_enc _ _ _ _ hxm
              exact code_eq st0 al bl cells i2 j' hi2 hjc)
          exact ⟨d2, e2, o2, l2⟩)
      -- the step from `st` to the marked state changes marks only
      have a0 : AStep e st d (markDeletedLines st [al.getD ai default]) d aN :=
        ⟨hsem', ⟨[], by simp [markDeletedLines], exec_nil d⟩, fun _ _ _ => rfl, fun _ hx => hx, fun _ hx => hx,
          fun _ hx => hx, fun _ _ => rfl, rfl, rfl, rfl, rfl, rfl⟩
      exact ⟨d1, astep_hit (a0.trans a1) _, p1.1, p1.2⟩
    obtain ⟨d1, a1, l1, r1⟩ := hstep
    obtain ⟨d2, a2, l2, i2⟩ := ih (fun op hop => hshape op (List.mem_cons_of_mem _ hop)) _ d1 a1.sem
      (a1.gName.trans hgn) l1 hpk'' (by
        intro x bx hx hpx hcx
        rw [NA.Acl.getD_set_bool _ j' x true (by simp; omega)] at hpx
        by_cases exj : x = j'
        · subst exj
          rw [hcellj] at hcx
          simp only [MCell.ins.injEq] at hcx
          subst hcx
          exact r1
        · rw [if_neg exj, NA.Acl.getD_set_bool μ i' x false (by omega)] at hpx
          by_cases exi : x = i'
          · rw [if_pos exi] at hpx; exact absurd hpx (by simp)
          · rw [if_neg exi] at hpx
            exact (hir.astep a1) x bx hx hpx hcx)
    exact ⟨d2, by rw [List.foldl_cons]; exact a1.trans a2, l2, by rw [List.foldl_cons]; exact i2⟩

end NA.F1
