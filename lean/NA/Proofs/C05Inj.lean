import NA.Proofs.C05Sound
/-!
C05 (round 3): normalisation is injective on the kernel's spelling of well formed option values
(addresses, protocols, ports, state sets).
-/
namespace NA.C05
open NA.Linux NA.Linux.Spec

/-! ### splitting at the last / first separator -/

theorem last_sep {c : Char} {x y x' y' : Str} (h : x ++ c :: y = x' ++ c :: y') (hy : c ∉ y) (hy' : c ∉ y') :
    y = y' ∧ x = x' := by
  have hr := congrArg List.reverse h
  simp only [List.reverse_append, List.reverse_cons, List.append_assoc, List.singleton_append] at hr
  have h1 := cutChar_at y.reverse x.reverse c (by simpa using hy)
  have h2 := cutChar_at y'.reverse x'.reverse c (by simpa using hy')
  rw [hr, h2] at h1
  simp only [Prod.mk.injEq, and_true] at h1
  exact ⟨(List.reverse_inj.mp h1.1).symm, (List.reverse_inj.mp h1.2).symm⟩

theorem first_sep {c : Char} {x y x' y' : Str} (h : x ++ c :: y = x' ++ c :: y') (hx : c ∉ x) (hx' : c ∉ x') :
    x = x' ∧ y = y' := by
  have h1 := cutChar_at x y c hx
  have h2 := cutChar_at x' y' c hx'
  rw [h, h2] at h1
  simp only [Prod.mk.injEq, and_true] at h1
  exact ⟨h1.1.symm, h1.2.symm⟩

theorem cutSuffix_sep_none (c : Char) (x y t : Str) (hy : c ∉ y) (ht : c ∉ t) (hne : y ≠ t) :
    cutSuffix (x ++ c :: y) (c :: t) = none := by
  cases h : cutSuffix (x ++ c :: y) (c :: t) with
  | none => rfl
  | some r =>
    have := cutSuffix_some h
    exact absurd (last_sep this hy ht).1 hne

/-! ### addresses -/

theorem normAddr_noslash (x : Str) (h : '/' ∉ x) : normAddr x = x := by
  unfold normAddr
  rw [cutSuffix_none_of_not_mem x (s "/32") '/' (by decide) h]; rfl

theorem addr_val (pre ip len : Str) (hpre : '/' ∉ pre) (hip : '/' ∉ ip) (hlen : '/' ∉ len) :
    normAddr (pre ++ (ip ++ ['/'] ++ len)) =
      if len = s "32" then pre ++ ip else pre ++ (ip ++ ['/'] ++ len) := by
  by_cases h : len = s "32"
  · rw [if_pos h, h, addr_norm pre ip hpre hip, normAddr_noslash _ (by simp [hpre, hip])]
  · rw [if_neg h]
    unfold normAddr
    have e : pre ++ (ip ++ ['/'] ++ len) = (pre ++ ip) ++ '/' :: len := by simp
    rw [e, show s "/32" = '/' :: s "32" from rfl, cutSuffix_sep_none '/' _ len (s "32") hlen (by decide) h]
    rfl

theorem addr_inj (pre1 ip1 len1 pre2 ip2 len2 : Str)
    (hp1 : '/' ∉ pre1) (hi1 : '/' ∉ ip1) (hl1 : '/' ∉ len1) (hp2 : '/' ∉ pre2) (hi2 : '/' ∉ ip2) (hl2 : '/' ∉ len2)
    (h : normAddr (pre1 ++ (ip1 ++ ['/'] ++ len1)) = normAddr (pre2 ++ (ip2 ++ ['/'] ++ len2))) :
    pre1 ++ (ip1 ++ ['/'] ++ len1) = pre2 ++ (ip2 ++ ['/'] ++ len2) := by
  rw [addr_val _ _ _ hp1 hi1 hl1, addr_val _ _ _ hp2 hi2 hl2] at h
  by_cases h1 : len1 = s "32" <;> by_cases h2 : len2 = s "32"
  · rw [if_pos h1, if_pos h2] at h
    rw [h1, h2, ← List.append_assoc, ← List.append_assoc, ← List.append_assoc, ← List.append_assoc, h]
  · rw [if_pos h1, if_neg h2] at h
    exfalso
    have : '/' ∈ pre1 ++ ip1 := by rw [h]; simp
    simp [hp1, hi1] at this
  · rw [if_neg h1, if_pos h2] at h
    exfalso
    have : '/' ∈ pre2 ++ ip2 := by rw [← h]; simp
    simp [hp2, hi2] at this
  · rw [if_neg h1, if_neg h2] at h; exact h

theorem digits_nochar {d : Str} (h : d.all isDigit = true) (c : Char) (hc : isDigit c = false) : c ∉ d := by
  intro hm
  have := List.all_eq_true.mp h c hm
  rw [hc] at this; exact absurd this (by simp)

/-! ### ports -/

theorem trim0_canon {p : Str} (h : canonNum p = true) : trimLeft0 p = if p = ['0'] then [] else p := by
  by_cases h0 : p = ['0']
  · rw [if_pos h0, h0]; rfl
  · rw [if_neg h0]; exact trimLeft0_of_head (canonNum_head h h0)

theorem trim0_canon_append {p : Str} (h : canonNum p = true) (x : Str) (hx : x.head? ≠ some '0') :
    trimLeft0 (p ++ x) = (if p = ['0'] then [] else p) ++ x := by
  by_cases h0 : p = ['0']
  · rw [if_pos h0, h0]
    simp only [List.singleton_append, trimLeft0, beq_self_eq_true, ↓reduceIte, List.nil_append]
    exact trimLeft0_of_head hx
  · rw [if_neg h0]
    exact trimLeft0_of_head (by rw [head_append_of_ne_nil (canonNum_ne_nil h)]; exact canonNum_head h h0)

/-- normal form of a single port / a range, as the kernel prints them -/
theorem port_val_one (p : Str) (h : canonNum p = true) : normPort p = if p = ['0'] then [] else p := by
  unfold normPort
  simp only
  rw [trim0_canon h]
  have hc : ':' ∉ (if p = ['0'] then ([] : Str) else p) := by
    split
    · simp
    · exact digits_nochar (canonNum_digits h) ':' (by decide)
  rw [cutSuffix_none_of_not_mem _ (s ":65535") ':' (by decide) hc]

theorem port_val_range (lo hi : Str) (hlo : canonNum lo = true) (hhi : canonNum hi = true) :
    normPort (lo ++ [':'] ++ hi) =
      (if lo = ['0'] then [] else lo) ++ [':'] ++ (if hi = s "65535" then [] else hi) := by
  unfold normPort
  simp only
  rw [List.append_assoc, trim0_canon_append hlo _ (by simp)]
  have hcl : ':' ∉ hi := digits_nochar (canonNum_digits hhi) ':' (by decide)
  by_cases h5 : hi = s "65535"
  · rw [if_pos h5, h5]
    have e : (if lo = ['0'] then ([] : Str) else lo) ++ ([':'] ++ s "65535") =
        (if lo = ['0'] then ([] : Str) else lo) ++ s ":65535" := by rfl
    rw [e, cutSuffix_append]
    simp
  · rw [if_neg h5]
    have e : (if lo = ['0'] then ([] : Str) else lo) ++ ([':'] ++ hi) =
        (if lo = ['0'] then ([] : Str) else lo) ++ ':' :: hi := by simp
    rw [e, show s ":65535" = ':' :: s "65535" from rfl, cutSuffix_sep_none ':' _ hi (s "65535") hcl (by decide) h5]
    simp

theorem canon_trim_inj {p q : Str} (hp : canonNum p = true) (hq : canonNum q = true)
    (h : (if p = ['0'] then ([] : Str) else p) = (if q = ['0'] then [] else q)) : p = q := by
  by_cases h1 : p = ['0'] <;> by_cases h2 : q = ['0']
  · rw [h1, h2]
  · rw [if_pos h1, if_neg h2] at h; exact absurd h.symm (canonNum_ne_nil hq)
  · rw [if_neg h1, if_pos h2] at h; exact absurd h (canonNum_ne_nil hp)
  · rw [if_neg h1, if_neg h2] at h; exact h

theorem hi_inj {p q : Str} (hp : canonNum p = true) (hq : canonNum q = true)
    (h : (if p = s "65535" then ([] : Str) else p) = (if q = s "65535" then [] else q)) : p = q := by
  by_cases h1 : p = s "65535" <;> by_cases h2 : q = s "65535"
  · rw [h1, h2]
  · rw [if_pos h1, if_neg h2] at h; exact absurd h.symm (canonNum_ne_nil hq)
  · rw [if_neg h1, if_pos h2] at h; exact absurd h (canonNum_ne_nil hp)
  · rw [if_neg h1, if_neg h2] at h; exact h

theorem port_inj (ps1 ps2 : Ports) (h1 : ps1.wf = true) (h2 : ps2.wf = true)
    (h : normPort ps1.kernel = normPort ps2.kernel) : ps1.kernel = ps2.kernel := by
  cases ps1 with
  | one p =>
    simp only [Ports.wf] at h1
    cases ps2 with
    | one q =>
      simp only [Ports.wf] at h2
      simp only [Ports.kernel] at h ⊢
      rw [port_val_one p h1, port_val_one q h2] at h
      exact canon_trim_inj h1 h2 h
    | range lo hi =>
      simp only [Ports.wf, Bool.and_eq_true] at h2
      exfalso
      simp only [Ports.kernel] at h
      rw [port_val_one p h1, port_val_range lo hi h2.1.1.1 h2.1.1.2] at h
      have hc : ':' ∉ (if p = ['0'] then ([] : Str) else p) := by
        split
        · simp
        · exact digits_nochar (canonNum_digits h1) ':' (by decide)
      rw [h] at hc
      simp at hc
  | range lo hi =>
    simp only [Ports.wf, Bool.and_eq_true] at h1
    cases ps2 with
    | one q =>
      simp only [Ports.wf] at h2
      exfalso
      simp only [Ports.kernel] at h
      rw [port_val_one q h2, port_val_range lo hi h1.1.1.1 h1.1.1.2] at h
      have hc : ':' ∉ (if q = ['0'] then ([] : Str) else q) := by
        split
        · simp
        · exact digits_nochar (canonNum_digits h2) ':' (by decide)
      rw [← h] at hc
      simp at hc
    | range lo2 hi2 =>
      simp only [Ports.wf, Bool.and_eq_true] at h2
      simp only [Ports.kernel] at h ⊢
      rw [port_val_range lo hi h1.1.1.1 h1.1.1.2, port_val_range lo2 hi2 h2.1.1.1 h2.1.1.2] at h
      have nc : ∀ {d : Str}, canonNum d = true → ':' ∉ (if d = ['0'] then ([] : Str) else d) := by
        intro d hd
        split
        · simp
        · exact digits_nochar (canonNum_digits hd) ':' (by decide)
      have hh : (if lo = ['0'] then ([] : Str) else lo) ++ ':' :: (if hi = s "65535" then [] else hi) =
          (if lo2 = ['0'] then ([] : Str) else lo2) ++ ':' :: (if hi2 = s "65535" then [] else hi2) := by
        simpa [List.append_assoc] using h
      obtain ⟨e1, e2⟩ := first_sep hh (nc h1.1.1.1) (nc h2.1.1.1)
      rw [canon_trim_inj h1.1.1.1 h2.1.1.1 e1, hi_inj h1.1.1.2 h2.1.1.2 e2]

/-! ### protocols -/

theorem normProto_digits (pre d : Str) (hd : d.all isDigit = true) (hne : d ≠ []) (hpre : pre = [] ∨ pre = ['!']) :
    normProto (pre ++ d) = pre ++ d := by
  have hl : lower (pre ++ d) = pre ++ d := by
    rw [lower_append, lower_digits hd]
    rcases hpre with e | e <;> subst e <;> rfl
  unfold normProto
  simp only [hl]
  cases d with
  | nil => exact absurd rfl hne
  | cons c cs =>
    simp only [List.all_cons, Bool.and_eq_true] at hd
    have hc := hd.1
    have h1 : ¬ pre ++ c :: cs = s "vrrp" := by
      intro e
      rcases hpre with e' | e' <;> subst e'
      · have : c = 'v' := by simpa [s] using congrArg List.head? e
        subst this; simp [isDigit] at hc
      · have : '!' = 'v' := by simpa [s] using congrArg List.head? e
        exact absurd this (by decide)
    have h2 : ¬ pre ++ c :: cs = s "ipv6-icmp" := by
      intro e
      rcases hpre with e' | e' <;> subst e'
      · have : c = 'i' := by simpa [s] using congrArg List.head? e
        subst this; simp [isDigit] at hc
      · have : '!' = 'i' := by simpa [s] using congrArg List.head? e
        exact absurd this (by decide)
    rw [if_neg h1, if_neg h2]

def negPre (b : Bool) : Str := if b = true then ['!'] else []

theorem negPre_cases (b : Bool) : negPre b = [] ∨ negPre b = ['!'] := by cases b <;> simp [negPre]

/-- The normal forms the named protocols can have. -/
def protoS : List Str := [s "tcp", s "udp", s "icmp", s "112", s "58", s "!tcp", s "!udp", s "!icmp"]

theorem concrete_in_S (names : Bool) (n : Neg) (P : Proto) (u m : Bool) (hP : ∀ d, P ≠ .num d)
    (w : (AOpt.proto n P u m).wf = true) : normProto (negPre n.isNeg ++ P.kname names) ∈ protoS := by
  cases P with
  | num d => exact absurd rfl (hP d)
  | tcp | udp | icmp | vrrp | ipv6icmp => revert w; cases n <;> cases names <;> cases u <;> cases m <;> decide

theorem num_not_in_S (pre d : Str) (hpre : pre = [] ∨ pre = ['!']) (hc : canonNum d = true)
    (hx : ¬ ([s "1", s "6", s "17", s "58", s "112"].contains d) = true) : pre ++ d ∉ protoS := by
  intro hm
  have hd := canonNum_digits hc
  -- every character of pre ++ d is a digit or '!'
  have hall : (pre ++ d).all (fun c => isDigit c || c == '!') = true := by
    rw [List.all_append]
    rcases hpre with e | e <;> subst e <;> simp [List.all_eq_true] <;>
      (intro c hc'; left; exact List.all_eq_true.mp hd c hc')
  simp only [protoS, List.mem_cons, List.not_mem_nil, or_false] at hm
  rcases hm with e | e | e | e | e | e | e | e
  · rw [e] at hall; exact absurd hall (by decide)
  · rw [e] at hall; exact absurd hall (by decide)
  · rw [e] at hall; exact absurd hall (by decide)
  · rcases hpre with e' | e' <;> subst e'
    · simp only [List.nil_append] at e; subst e; exact hx (by decide)
    · have := congrArg List.head? e
      simp only [List.cons_append, List.head?_cons] at this
      exact absurd this (by decide)
  · rcases hpre with e' | e' <;> subst e'
    · simp only [List.nil_append] at e; subst e; exact hx (by decide)
    · have := congrArg List.head? e
      simp only [List.cons_append, List.head?_cons] at this
      exact absurd this (by decide)
  · rw [e] at hall; exact absurd hall (by decide)
  · rw [e] at hall; exact absurd hall (by decide)
  · rw [e] at hall; exact absurd hall (by decide)

/-- The normal form determines the kernel's `-p` value. -/
theorem proto_inj (cfg : KCfg) (n1 n2 : Neg) (P1 P2 : Proto) (u1 m1 u2 m2 : Bool)
    (w1 : (AOpt.proto n1 P1 u1 m1).wf = true) (w2 : (AOpt.proto n2 P2 u2 m2).wf = true)
    (h : normProto (negPre n1.isNeg ++ P1.kname cfg.protoNames) = normProto (negPre n2.isNeg ++ P2.kname cfg.protoNames)) :
    negPre n1.isNeg ++ P1.kname cfg.protoNames = negPre n2.isNeg ++ P2.kname cfg.protoNames := by
  obtain ⟨names⟩ := cfg
  have hnum : ∀ (n : Neg) (d : Str) (u m : Bool), (AOpt.proto n (.num d) u m).wf = true →
      normProto (negPre n.isNeg ++ d) = negPre n.isNeg ++ d ∧ negPre n.isNeg ++ d ∉ protoS := by
    intro n d u m w
    simp only [AOpt.wf, Bool.and_eq_true, Bool.not_eq_eq_eq_not, Bool.not_true] at w
    exact ⟨normProto_digits _ d (canonNum_digits w.1.1) (canonNum_ne_nil w.1.1) (negPre_cases _),
      num_not_in_S _ d (negPre_cases _) w.1.1 (by rw [w.2]; simp)⟩
  by_cases hP1 : ∃ d, P1 = .num d
  · obtain ⟨d1, e⟩ := hP1
    subst e
    obtain ⟨e1, x1⟩ := hnum n1 d1 u1 m1 w1
    by_cases hP2 : ∃ d, P2 = .num d
    · obtain ⟨d2, e⟩ := hP2
      subst e
      obtain ⟨e2, _⟩ := hnum n2 d2 u2 m2 w2
      simp only [Proto.kname] at h ⊢
      rw [e1, e2] at h; exact h
    · exfalso
      have := concrete_in_S names n2 P2 u2 m2 (fun d e => hP2 ⟨d, e⟩) w2
      have h' : normProto (negPre n1.isNeg ++ d1) = normProto (negPre n2.isNeg ++ P2.kname names) := h
      rw [← h', e1] at this
      exact x1 this
  · by_cases hP2 : ∃ d, P2 = .num d
    · obtain ⟨d2, e⟩ := hP2
      subst e
      obtain ⟨e2, x2⟩ := hnum n2 d2 u2 m2 w2
      exfalso
      have := concrete_in_S names n1 P1 u1 m1 (fun d e => hP1 ⟨d, e⟩) w1
      have h' : normProto (negPre n1.isNeg ++ P1.kname names) = normProto (negPre n2.isNeg ++ d2) := h
      rw [h', e2] at this
      exact x2 this
    · cases P1 with
      | num d => exact absurd ⟨d, rfl⟩ hP1
      | tcp | udp | icmp | vrrp | ipv6icmp =>
        cases P2 with
        | num d => exact absurd ⟨d, rfl⟩ hP2
        | tcp | udp | icmp | vrrp | ipv6icmp =>
          revert h w1 w2
          cases n1 <;> cases n2 <;> cases names <;> cases u1 <;> cases m1 <;> cases u2 <;> cases m2 <;> decide

/-! ### state sets -/

theorem stName_inj (a b : Spec.St) (h : a.name = b.name) : a = b := by
  cases a <;> cases b <;> first | rfl | (exfalso; revert h; decide)

def kStates (l : List Spec.St) : List Spec.St := kernelStateOrder.filter (· ∈ l)

theorem mem_kStates (l : List Spec.St) (x : Spec.St) : x ∈ kStates l ↔ x ∈ l := by
  have : x ∈ kernelStateOrder := by cases x <;> decide
  simp [kStates, List.mem_filter, this]

theorem normState_names (X : List Spec.St) (hne : X ≠ []) :
    normState (joinWith [','] (X.map Spec.St.name)) = joinWith [','] (sortStrs (X.map Spec.St.name)) := by
  unfold normState
  rw [splitChar_join ',' _ (by simpa using hne) (by
    intro x hx; obtain ⟨y, _, e⟩ := List.mem_map.mp hx; rw [← e]; exact stName_nocomma y)]

theorem state_inj (l1 l2 : List Spec.St) (hne1 : l1 ≠ []) (hnd1 : l1.Nodup) (hne2 : l2 ≠ []) (hnd2 : l2.Nodup)
    (h : normState (joinWith [','] ((kStates l1).map Spec.St.name)) =
         normState (joinWith [','] ((kStates l2).map Spec.St.name))) :
    kStates l1 = kStates l2 := by
  have k1 : kStates l1 ≠ [] := st_filter_ne l1 hne1 hnd1
  have k2 : kStates l2 ≠ [] := st_filter_ne l2 hne2 hnd2
  rw [normState_names _ k1, normState_names _ k2] at h
  -- the sorted name lists are equal
  have hs : sortStrs ((kStates l1).map Spec.St.name) = sortStrs ((kStates l2).map Spec.St.name) := by
    have nocomma : ∀ (X : List Spec.St), ∀ x ∈ sortStrs (X.map Spec.St.name), ',' ∉ x := by
      intro X x hx
      obtain ⟨y, _, e⟩ := List.mem_map.mp ((mem_sortStrs x _).mp hx)
      rw [← e]; exact stName_nocomma y
    have ne : ∀ (X : List Spec.St), X ≠ [] → sortStrs (X.map Spec.St.name) ≠ [] := by
      intro X hX e
      have := (isort_perm strLe (X.map Spec.St.name)).length_eq
      rw [show isort strLe (X.map Spec.St.name) = sortStrs (X.map Spec.St.name) from rfl, e] at this
      simp at this
      exact hX (List.length_eq_zero_iff.mp this.symm)
    have := congrArg (fun x => splitChar x ',') h
    rwa [splitChar_join ',' _ (ne _ k1) (nocomma _), splitChar_join ',' _ (ne _ k2) (nocomma _)] at this
  -- hence the same members
  have hm : ∀ x : Spec.St, x ∈ l1 ↔ x ∈ l2 := by
    intro x
    have a1 : x ∈ l1 ↔ x.name ∈ sortStrs ((kStates l1).map Spec.St.name) := by
      rw [mem_sortStrs, ← mem_kStates]
      constructor
      · intro hx; exact List.mem_map_of_mem hx
      · intro hx; obtain ⟨y, hy, e⟩ := List.mem_map.mp hx; rw [← stName_inj _ _ e]; exact hy
    have a2 : x ∈ l2 ↔ x.name ∈ sortStrs ((kStates l2).map Spec.St.name) := by
      rw [mem_sortStrs, ← mem_kStates]
      constructor
      · intro hx; exact List.mem_map_of_mem hx
      · intro hx; obtain ⟨y, hy, e⟩ := List.mem_map.mp hx; rw [← stName_inj _ _ e]; exact hy
    rw [a1, a2, hs]
  unfold kStates
  apply List.filter_congr
  intro x _
  simp [hm x]

end NA.C05
